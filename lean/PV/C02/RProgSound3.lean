import PV.C02.RProgSound2
/-
  PV.C02.RProgSound3 — the induction over the ranged program parser, part 3: parameter lists (`Arguments`),
  decorators, with-items, `except` headers.
-/
set_option linter.unusedSimpArgs false
set_option linter.unusedVariables false
namespace PV.C02
open PV.Expr PV.C11 PV.Prog

variable {src : List Nat} {σ : SpanTab} {N : Nat}

theorem wo_mono (T : TiledTab src σ N) {j k j' k' : Nat} {x : Option RExpr} (h : WO src σ j k x) (hj : j ≤ j')
    (hk : k' ≤ k) (h1 : 1 ≤ j) (h2 : 1 ≤ k') (h3 : j' ≤ N) (h4 : k ≤ N) : WO src σ j' k' x :=
  fun e he => Win.mono T (h e he) hj hk h1 h2 h3 h4
grind_pattern wo_mono => TiledTab src σ N, WO src σ j k x, WO src σ j' k' x

/-! ### annotations, defaults, decorators -/

theorem annOpt_sound (T : TiledTab src σ N) (f : Nat) : ∀ star ts an rest, ts.length ≤ N →
    parseRAnnOpt σ star f ts = some (an, rest) →
    rest.length ≤ ts.length ∧ WO src σ ts.length (rest.length + 1) an ∧
      ((an = none ∧ rest = ts) ∨ (rest.length + 1 < ts.length ∧ an ≠ none)) := by
  intro star ts an rest hN
  cases star <;> fun_cases parseRAnnOpt σ _ f ts
  all_goals try simp only [Bool.false_eq_true, ↓reduceIte] at *
  rstep σ [(soundAt T _).test, (soundAt T _).testOrStar]

theorem defaultOpt_sound (T : TiledTab src σ N) (f : Nat) : ∀ ts d rest, ts.length ≤ N →
    parseRDefaultOpt σ f ts = some (d, rest) →
    rest.length ≤ ts.length ∧ WO src σ ts.length (rest.length + 1) d ∧
      ((d = none ∧ rest = ts) ∨ (rest.length + 1 < ts.length ∧ d ≠ none)) := by
  intro ts d rest hN
  fun_cases parseRDefaultOpt σ f ts
  rstep σ [(soundAt T _).test]

def DecoratorsSpec (src : List Nat) (σ : SpanTab) (N f : Nat) : Prop :=
  ∀ ts ds rest, ts.length ≤ N → parseRDecorators σ f ts = some (ds, rest) →
    rest.length ≤ ts.length ∧ SeqI src σ ts.length (rest.length + 1) ds ∧ (rest.length = ts.length → ds = [])

theorem decorators_sound (T : TiledTab src σ N) : ∀ f, DecoratorsSpec src σ N f := by
  refine below_rec (fun n ih => ?_)
  intro ts ds rest hN
  fun_cases parseRDecorators σ n ts
  rstep σ [(soundAt T _).namedTest, ih _ rfl]

/-! ### parameter lists -/

/-- what `parseRTypedParams` maintains: the parameters collected so far lie, in source order, between token `j0` and the
    token with `k` tokens left; the groups a later item would have to precede are still empty -/
def AInv (src : List Nat) (σ : SpanTab) (j0 k ph : Nat) (a : RArguments) : Prop :=
  (a.plain = true → SeqT src σ j0 k a.children) ∧
  (ph = 0 → a.posonly = []) ∧ (ph ≤ 1 → a.vararg = none ∧ a.kwonly = []) ∧ (ph ≤ 2 → a.kwarg = none)

theorem ainv_empty (src : List Nat) (σ : SpanTab) (j0 k : Nat) (rg : Rg) : AInv src σ j0 k 0 { rg := rg } :=
  ⟨fun _ => trivial, fun _ => rfl, fun _ => ⟨rfl, rfl⟩, fun _ => rfl⟩

theorem ainv_mono (T : TiledTab src σ N) {j0 k k' ph : Nat} {a : RArguments} (h : AInv src σ j0 k ph a) (hk : k' ≤ k)
    (h1 : 1 ≤ k') (h2 : k ≤ N) : AInv src σ j0 k' ph a :=
  ⟨fun hp => SeqG.mono_hi (h.1 hp) (T.EE h1 hk h2), h.2⟩

theorem all_snoc {α} (p : α → Bool) (xs : List α) (x : α) : (xs ++ [x]).all p = (xs.all p && p x) := by simp

/-- trees that differ only in the slot they sit in -/
theorem seqTF_relabelD (s s' : String) : ∀ (xs : List RArgD) (lo hi : Nat),
    SeqG (TF src) lo hi (xs.map (RArgD.tree s)) → SeqG (TF src) lo hi (xs.map (RArgD.tree s'))
  | [], _, _, _ => trivial
  | x :: xs, lo, hi, ⟨m, h1, h2, h3⟩ => ⟨m, h1, h2, seqTF_relabelD s s' xs m hi h3⟩

/-- an item appended at the end of the children of `a` (the window of the items so far may still be empty) -/
theorem seqT_snoc_item (T : TiledTab src σ N) {j0 k jx kx k' : Nat} {cs : List Tree} {x : Tree}
    (hs : SeqT src σ j0 k cs) (hx : WinT src σ jx kx x) (h0 : k ≤ N) (h0' : j0 ≤ N) (h1 : 1 ≤ jx) (h2 : jx < k)
    (h3 : jx ≤ j0) (h4 : 1 ≤ k') (h5 : k' ≤ kx) (h6 : kx ≤ N) : SeqT src σ j0 k' (cs ++ [x]) := by
  have e1 : (σ k).2 ≤ (σ jx).1 := T.ES h1 h2 h0
  have e2 : (σ j0).1 ≤ (σ jx).1 := T.SS h1 h3 h0'
  exact SeqG.snoc (windowed_tf src) hs e2 e1 hx (T.EE h4 h5 h6)

/-- one item of a typed parameter list keeps the invariant -/
theorem typedItemR_sound (T : TiledTab src σ N) {f ts ps ph ps' ph' r j0}
    (hP : AInv src σ j0 (ts.length + 1) ph ps) (hj : ts.length ≤ j0) (hN : j0 + 1 ≤ N)
    (h : typedItemR σ f ts ps ph = some (ps', ph', r)) :
    r.length < ts.length ∧ AInv src σ j0 (r.length + 1) ph' ps' := by
  obtain ⟨hs, c0, c1, c2⟩ := hP
  unfold typedItemR at h
  split at h
  · -- a named parameter
    rename_i n r0
    simp only [List.length_cons] at hs hj
    split at h
    · rename_i hph
      split at h
      · rename_i an r1 han
        obtain ⟨a1, a2, a3⟩ := annOpt_sound T f _ _ _ _ (by omega) han
        split at h
        · rename_i d r2 hd
          obtain ⟨d1, d2, d3⟩ := defaultOpt_sound T f _ _ _ (by omega) hd
          have hkw := c2 (by omega)
          -- the item's tree, in the window from the name to the end of the default
          have hitem : ∀ s, (plainO an && plainO d) = true →
              WinT src σ (r0.length + 1) (r2.length + 1) (RArgD.tree s (argDR (L σ (.name n :: r0), R σ r1) n an d)) := by
            intro s hp
            simp only [Bool.and_eq_true] at hp
            simp only [L, R, List.length_cons]
            have an0 : an = none ∨ (r1.length + 1 ≤ r1.length + 1 ∧ r0.length ≤ r0.length + 1 ∧ 1 ≤ r0.length ∧ r1.length + 1 ≤ N) := by
              rcases a3 with ⟨g, _⟩ | ⟨g, _⟩
              · exact Or.inl g
              · exact Or.inr ⟨Nat.le_refl _, by omega, by omega, by omega⟩
            cases d with
            | none =>
              rcases d3 with ⟨_, g⟩ | ⟨_, g⟩
              · subst g
                exact winT_argD_none T s (by omega) (by omega) (by omega) a2 an0 hp.1
              · exact absurd rfl g
            | some dv =>
              rcases d3 with ⟨g, _⟩ | ⟨g, _⟩
              · cases g
              · exact winT_argD_some T s (by omega) (by omega) (by omega) a2 an0 hp.1 (d2 dv rfl) hp.2 (by omega)
                  (by omega) (by omega)
          have hpl : ∀ (p : RArgD), p = argDR (L σ (.name n :: r0), R σ r1) n an d → p.plain = (plainO an && plainO d) := by
            intro p hp; subst hp
            cases d <;> simp [argDR, RArgD.plain, RArg.plain, plainO]
          split at h <;> simp only [Option.some.injEq, Prod.mk.injEq] at h <;> obtain ⟨rfl, rfl, rfl⟩ := h
          · -- keyword-only
            refine ⟨by simp only [List.length_cons]; omega, ?_, c0, fun hle => by omega, c2⟩
            intro hp
            simp only [RArguments.plain, all_snoc, Bool.and_eq_true, hkw, plainArgO] at hp
            have hps : ps.plain = true := by
              simp only [RArguments.plain, hkw, plainArgO, Bool.and_eq_true, Bool.and_true]
              exact ⟨⟨⟨hp.1.1.1.1, hp.1.1.1.2⟩, hp.1.1.2⟩, hp.1.2.1⟩
            have hch : RArguments.children { ps with kwonly := ps.kwonly ++ [argDR (L σ (.name n :: r0), R σ r1) n an d] } =
                ps.children ++ [RArgD.tree "kwonlyargs" (argDR (L σ (.name n :: r0), R σ r1) n an d)] := by
              simp [RArguments.children, hkw, argOptTree]
            rw [hch]
            exact seqT_snoc_item T (hs hps) (hitem _ (by rw [← hpl _ rfl]; exact hp.1.2.2)) (by omega) (by omega)
              (by omega) (by omega) (by omega) (by omega) (Nat.le_refl _) (by omega)
          · -- positional
            rename_i hne
            obtain ⟨v0, k0⟩ := c1 (by omega)
            refine ⟨by simp only [List.length_cons]; omega, ?_, c0, fun _ => ⟨v0, k0⟩, c2⟩
            intro hp
            simp only [RArguments.plain, all_snoc, Bool.and_eq_true, hkw, v0, k0, plainArgO, List.all_nil] at hp
            have hps : ps.plain = true := by
              simp only [RArguments.plain, hkw, v0, k0, plainArgO, Bool.and_eq_true, Bool.and_true, List.all_nil]
              exact ⟨hp.1.1.1.1, hp.1.1.1.2.1⟩
            have hch : RArguments.children { ps with args := ps.args ++ [argDR (L σ (.name n :: r0), R σ r1) n an d] } =
                ps.children ++ [RArgD.tree "args" (argDR (L σ (.name n :: r0), R σ r1) n an d)] := by
              simp [RArguments.children, hkw, v0, k0, argOptTree]
            rw [hch]
            exact seqT_snoc_item T (hs hps) (hitem _ (by rw [← hpl _ rfl]; exact hp.1.1.1.2.2)) (by omega) (by omega)
              (by omega) (by omega) (by omega) (by omega) (Nat.le_refl _) (by omega)
        · cases h
      · cases h
    · cases h
  · -- "/"
    rename_i r0
    simp only [List.length_cons] at hs hj
    split at h
    · rename_i hph
      simp only [Option.some.injEq, Prod.mk.injEq] at h; obtain ⟨rfl, rfl, rfl⟩ := h
      have hpo := c0 hph.1
      have hkw := c2 (by omega)
      obtain ⟨v0, k0⟩ := c1 (by omega)
      refine ⟨by simp only [List.length_cons]; omega, ?_, fun h => by omega, fun _ => ⟨v0, k0⟩, fun _ => hkw⟩
      intro hp
      simp only [RArguments.plain, hkw, v0, k0, plainArgO, List.all_nil, Bool.and_true, Bool.and_eq_true] at hp
      have hps : ps.plain = true := by
        simp only [RArguments.plain, hpo, hkw, v0, k0, plainArgO, List.all_nil, Bool.and_true, Bool.true_and]
        exact hp
      have h1 := hs hps
      simp only [RArguments.children, hpo, hkw, v0, k0, argOptTree, List.map_nil, List.nil_append, List.append_nil] at h1 ⊢
      exact SeqG.mono_hi (seqTF_relabelD "args" "posonlyargs" _ _ _ h1) (T.EE (by omega) (by omega) (by omega))
    · cases h
  · -- "*" name
    rename_i n r0
    simp only [List.length_cons] at hs hj
    split at h
    · rename_i hph
      split at h
      · rename_i an r1 han
        obtain ⟨a1, a2, a3⟩ := annOpt_sound T f _ _ _ _ (by omega) han
        simp only [Option.some.injEq, Prod.mk.injEq] at h; obtain ⟨rfl, rfl, rfl⟩ := h
        have hkw := c2 (by omega)
        obtain ⟨v0, k0⟩ := c1 (by omega)
        refine ⟨by simp only [List.length_cons]; omega, ?_, fun h => by omega, fun h => by omega, fun _ => hkw⟩
        intro hp
        simp only [RArguments.plain, hkw, k0, plainArgO, List.all_nil, Bool.and_true, Bool.and_eq_true, RArg.plain] at hp
        have hps : ps.plain = true := by
          simp only [RArguments.plain, hkw, v0, k0, plainArgO, List.all_nil, Bool.and_true, Bool.and_eq_true]
          exact hp.1
        have an0 : an = none ∨ (r1.length + 1 ≤ r1.length + 1 ∧ r0.length ≤ r0.length + 1 ∧ 1 ≤ r0.length ∧ r1.length + 1 ≤ N) := by
          rcases a3 with ⟨g, _⟩ | ⟨g, _⟩
          · exact Or.inl g
          · exact Or.inr ⟨Nat.le_refl _, by omega, by omega, by omega⟩
        have hitem := winT_arg T "vararg" false (n := n) (j := r0.length + 1) (k := r1.length + 1) (by omega) (by omega)
          (by omega) a2 an0 hp.2
        have hch : RArguments.children { ps with vararg := some ⟨((σ (r0.length + 1)).1, R σ r1), n, an⟩ } =
            ps.children ++ [RArg.tree "vararg" false ⟨((σ (r0.length + 1)).1, R σ r1), n, an⟩] := by
          simp [RArguments.children, hkw, v0, k0, argOptTree]
        rw [hch]
        exact seqT_snoc_item T (hs hps) hitem (by omega) (by omega) (by omega) (by omega) (by omega) (by omega)
          (Nat.le_refl _) (by omega)
      · cases h
    · cases h
  · -- bare "*"
    rename_i r0 hne
    simp only [List.length_cons] at hs hj
    split at h
    · rename_i hph
      simp only [Option.some.injEq, Prod.mk.injEq] at h; obtain ⟨rfl, rfl, rfl⟩ := h
      exact ⟨by simp only [List.length_cons]; omega,
        fun hp => SeqG.mono_hi (hs hp) (T.EE (by omega) (by omega) (by omega)),
        fun h => by omega, fun h => by omega, fun _ => c2 (by omega)⟩
    · cases h
  · -- "**" name
    rename_i n r0
    simp only [List.length_cons] at hs hj
    split at h
    · rename_i hph
      split at h
      · rename_i an r1 han
        obtain ⟨a1, a2, a3⟩ := annOpt_sound T f _ _ _ _ (by omega) han
        simp only [Option.some.injEq, Prod.mk.injEq] at h; obtain ⟨rfl, rfl, rfl⟩ := h
        have hkw := c2 hph
        refine ⟨by simp only [List.length_cons]; omega, ?_, fun h => by omega, fun h => by omega, fun h => by omega⟩
        intro hp
        simp only [RArguments.plain, plainArgO, Bool.and_eq_true, RArg.plain] at hp
        have hps : ps.plain = true := by
          simp only [RArguments.plain, hkw, plainArgO, Bool.and_true, Bool.and_eq_true]
          exact hp.1
        have an0 : an = none ∨ (r1.length + 1 ≤ r1.length + 1 ∧ r0.length ≤ r0.length + 1 ∧ 1 ≤ r0.length ∧ r1.length + 1 ≤ N) := by
          rcases a3 with ⟨g, _⟩ | ⟨g, _⟩
          · exact Or.inl g
          · exact Or.inr ⟨Nat.le_refl _, by omega, by omega, by omega⟩
        have hitem := winT_arg T "kwarg" false (n := n) (j := r0.length + 1) (k := r1.length + 1) (by omega) (by omega)
          (by omega) a2 an0 hp.2
        have hch : RArguments.children { ps with kwarg := some ⟨((σ (r0.length + 1)).1, R σ r1), n, an⟩ } =
            ps.children ++ [RArg.tree "kwarg" false ⟨((σ (r0.length + 1)).1, R σ r1), n, an⟩] := by
          simp [RArguments.children, hkw, argOptTree]
        rw [hch]
        exact seqT_snoc_item T (hs hps) hitem (by omega) (by omega) (by omega) (by omega) (by omega) (by omega)
          (Nat.le_refl _) (by omega)
      · cases h
    · cases h
  · -- bare "**"
    rename_i r0 hne
    simp only [List.length_cons] at hs hj
    split at h
    · rename_i hph
      simp only [Option.some.injEq, Prod.mk.injEq] at h; obtain ⟨rfl, rfl, rfl⟩ := h
      exact ⟨by simp only [List.length_cons]; omega,
        fun hp => SeqG.mono_hi (hs hp) (T.EE (by omega) (by omega) (by omega)),
        fun h => by omega, fun h => by omega, fun h => by omega⟩
    · cases h
  · cases h

def TypedParamsSpec (src : List Nat) (σ : SpanTab) (N f : Nat) : Prop :=
  ∀ ts ps ph ps' rest j0, AInv src σ j0 (ts.length + 1) ph ps → ts.length ≤ j0 → j0 + 1 ≤ N →
    parseRTypedParams σ f ts ps ph = some (ps', rest) →
    rest.length + 1 < ts.length ∧ ∃ ph', AInv src σ j0 (rest.length + 2) ph' ps'

theorem typedParams_sound (T : TiledTab src σ N) : ∀ f, TypedParamsSpec src σ N f := by
  refine below_rec (fun n ih => ?_)
  intro ts ps ph ps' rest j0 hP hj hN h
  cases n with
  | zero => simp [parseRTypedParams] at h
  | succ f =>
    have ih := ih _ rfl
    rw [parseRTypedParams] at h
    cases hi : typedItemR σ f ts ps ph with
    | none => simp [hi] at h
    | some p =>
      obtain ⟨ps1, ph1, r⟩ := p
      obtain ⟨hl, hP1⟩ := typedItemR_sound T hP hj hN hi
      rw [hi] at h
      simp only at h
      split at h
      · split at h
        · simp only [Option.some.injEq, Prod.mk.injEq] at h; obtain ⟨rfl, rfl⟩ := h
          simp only [List.length_cons] at hl hP1 ⊢
          exact ⟨by omega, ph1, ainv_mono T hP1 (by omega) (by omega) (by omega)⟩
        · cases h
      · rename_i r2 hne
        simp only [List.length_cons] at hl hP1
        obtain ⟨g1, ph', g2⟩ := ih _ _ _ _ _ j0 (ainv_mono T hP1 (by omega) (by omega) (by omega)) (by omega) hN h
        exact ⟨by omega, ph', g2⟩
      · split at h
        · simp only [Option.some.injEq, Prod.mk.injEq] at h; obtain ⟨rfl, rfl⟩ := h
          simp only [List.length_cons] at hl hP1 ⊢
          exact ⟨by omega, ph1, hP1⟩
        · cases h
      · cases h

/-- `Parameters` after `(`: the `Arguments` node lies between the `(` and the `)` -/
theorem parameters_sound (T : TiledTab src σ N) (f : Nat) : ∀ ts a rest, ts.length + 1 ≤ N →
    parseRParameters σ f ts = some (a, rest) →
    rest.length < ts.length ∧ WArgs src σ (ts.length + 1) (rest.length + 1) a := by
  intro ts a rest hN h
  cases f with
  | zero => simp [parseRParameters] at h
  | succ f =>
    rw [parseRParameters.eq_def] at h
    split at h
    · cases h
    · -- `()`
      rename_i f' r heq
      simp only [Option.some.injEq, Prod.mk.injEq] at h
      obtain ⟨ha, hr⟩ := h
      subst hr
      subst ha
      simp only [List.length_cons] at hN ⊢
      refine ⟨by omega, ?_⟩
      have := wargs_mk T (a := { rg := (0, 0) }) (j := r.length + 1 + 1) (k := r.length + 1) (jl := 1) (kl := 1)
        (by omega) (by omega) (by omega) (fun _ => trivial) (Or.inl rfl)
      exact this
    · rename_i ts0 _ _ f' heq hne
      simp only [Nat.succ.injEq] at heq
      subst heq
      split at h
      · rename_i a0 r hp
        split at h
        · simp only [Option.some.injEq, Prod.mk.injEq] at h
          obtain ⟨ha, hr⟩ := h
          subst hr
          subst ha
          obtain ⟨g1, ph', g2⟩ := typedParams_sound T f _ _ _ _ _ ts0.length (ainv_empty src σ _ _ _) (Nat.le_refl _) hN hp
          refine ⟨by omega, ?_⟩
          have hw := wargs_mk T (a := a0) (j := ts0.length) (k := r.length + 2) (jl := ts0.length) (kl := r.length + 2)
            (by omega) (by omega) (by omega) g2.1 (Or.inr ⟨Nat.le_refl _, Nat.le_refl _, by omega, by omega⟩)
          exact WX.mono T hw (by omega) (by omega) (by omega) (by omega) (by omega) (by omega)
        · cases h
      · cases h

/-! ### with-items -/

theorem withItem_sound (T : TiledTab src σ N) (f : Nat) : ∀ ts it rest, ts.length ≤ N →
    parseRWithItem σ f ts = some (it, rest) → rest.length < ts.length ∧ WWI src σ ts.length (rest.length + 1) it := by
  intro ts it rest hN
  fun_cases parseRWithItem σ f ts
  rstep σ [(soundAt T _).test, (soundAt T _).bin]

def WithPlainSpec (src : List Nat) (σ : SpanTab) (N f : Nat) : Prop :=
  ∀ ts items rest, ts.length ≤ N → parseRWithPlain σ f ts = some (items, rest) →
    rest.length < ts.length ∧ items ≠ [] ∧ SeqWI src σ ts.length (rest.length + 1) items

theorem withPlain_sound (T : TiledTab src σ N) : ∀ f, WithPlainSpec src σ N f := by
  refine below_rec (fun n ih => ?_)
  intro ts items rest hN
  fun_cases parseRWithPlain σ n ts
  rstep σ [withItem_sound T _, ih _ rfl]

theorem asPartR_sound (T : TiledTab src σ N) (f : Nat) : ∀ ts v rest, ts.length ≤ N → asPartR σ f ts = some (v, rest) →
    rest.length ≤ ts.length ∧ WO src σ ts.length (rest.length + 1) v ∧
      ((v = none ∧ rest = ts) ∨ (rest.length + 1 < ts.length ∧ v ≠ none)) := by
  intro ts v rest hN
  fun_cases asPartR σ f ts
  rstep σ [(soundAt T _).bin]

/-- the elements between the parentheses after `with (`: each an expression with its `as` target in the window of
    its tokens, `ext` being exactly the span of those tokens; consecutive -/
def ElemsOK (src : List Nat) (σ : SpanTab) : Nat → Nat → List RWElem → Prop
  | _, _, [] => True
  | j, k, el :: els => ∃ ke, k ≤ ke ∧ ke ≤ j ∧ el.ext = (S σ j, E σ ke) ∧ Win src σ j ke el.e ∧ WO src σ j ke el.v ∧
      (els = [] ∨ ∃ j', 1 ≤ j' ∧ j' < ke ∧ ElemsOK src σ j' k els)

theorem elemsOK_single {j k ke : Nat} {e sp v} (h1 : k ≤ ke) (h2 : ke ≤ j) (he : Win src σ j ke e) (hv : WO src σ j ke v) :
    ElemsOK src σ j k [⟨e, sp, v, (S σ j, E σ ke)⟩] := ⟨ke, h1, h2, rfl, he, hv, Or.inl rfl⟩

theorem elemsOK_cons {j k ke j' : Nat} {e sp v els} (h1 : k ≤ ke) (h2 : ke ≤ j) (he : Win src σ j ke e)
    (hv : WO src σ j ke v) (h3 : 1 ≤ j') (h4 : j' < ke) (hs : ElemsOK src σ j' k els) :
    ElemsOK src σ j k (⟨e, sp, v, (S σ j, E σ ke)⟩ :: els) := ⟨ke, h1, h2, rfl, he, hv, Or.inr ⟨j', h3, h4, hs⟩⟩

theorem elemsOK_mono (T : TiledTab src σ N) : ∀ {els : List RWElem} {j k k' : Nat}, ElemsOK src σ j k els → k' ≤ k →
    ElemsOK src σ j k' els
  | [], _, _, _, _, _ => trivial
  | el :: els, j, k, k', ⟨ke, g1, g2, g3, g4, g5, g6⟩, hk =>
    ⟨ke, by omega, g2, g3, g4, g5, g6.imp id (fun ⟨j', q1, q2, q3⟩ => ⟨j', q1, q2, elemsOK_mono T q3 hk⟩)⟩

theorem wo_mono' (T : TiledTab src σ N) {j k j' k' : Nat} {x : Option RExpr} (h : WO src σ j k x)
    (c : x = none ∨ (j ≤ j' ∧ k' ≤ k ∧ 1 ≤ j ∧ 1 ≤ k' ∧ j' ≤ N ∧ k ≤ N)) : WO src σ j' k' x := by
  rcases c with rfl | ⟨c1, c2, c3, c4, c5, c6⟩
  · exact wo_none
  · exact wo_mono T h c1 c2 c3 c4 c5 c6

theorem elemsOK_single' (T : TiledTab src σ N) {j k ke je ke' jv kv : Nat} {e sp v} (h1 : k ≤ ke) (h2 : ke ≤ j)
    (h3 : j ≤ N) (h4 : 1 ≤ ke) (he : Win src σ je ke' e) (e1 : ke ≤ ke') (e2 : je ≤ j) (e3 : 1 ≤ je) (e4 : ke' ≤ N)
    (hv : WO src σ jv kv v) (v0 : v = none ∨ (ke ≤ kv ∧ jv ≤ j ∧ 1 ≤ jv ∧ kv ≤ N)) :
    ElemsOK src σ j k [⟨e, sp, v, (S σ j, E σ ke)⟩] :=
  elemsOK_single h1 h2 (Win.mono T he e2 e1 e3 h4 h3 e4)
    (wo_mono' T hv (v0.imp id (fun c => ⟨c.2.1, c.1, c.2.2.1, h4, h3, c.2.2.2⟩)))

theorem elemsOK_cons' (T : TiledTab src σ N) {j k ke je ke' jv kv j' : Nat} {e sp v els} (h1 : k ≤ ke) (h2 : ke ≤ j)
    (h3 : j ≤ N) (h4 : 1 ≤ ke) (he : Win src σ je ke' e) (e1 : ke ≤ ke') (e2 : je ≤ j) (e3 : 1 ≤ je) (e4 : ke' ≤ N)
    (hv : WO src σ jv kv v) (v0 : v = none ∨ (ke ≤ kv ∧ jv ≤ j ∧ 1 ≤ jv ∧ kv ≤ N)) (c1 : 1 ≤ j') (c2 : j' < ke)
    (hs : ElemsOK src σ j' k els) : ElemsOK src σ j k (⟨e, sp, v, (S σ j, E σ ke)⟩ :: els) :=
  elemsOK_cons h1 h2 (Win.mono T he e2 e1 e3 h4 h3 e4)
    (wo_mono' T hv (v0.imp id (fun c => ⟨c.2.1, c.1, c.2.2.1, h4, h3, c.2.2.2⟩))) c1 c2 hs

grind_pattern elemsOK_single' => TiledTab src σ N, Win src σ je ke' e, WO src σ jv kv v,
  ElemsOK src σ j k [RWElem.mk e sp v (S σ j, E σ ke)]
grind_pattern elemsOK_cons' => TiledTab src σ N, Win src σ je ke' e, WO src σ jv kv v, ElemsOK src σ j' k els,
  ElemsOK src σ j k (RWElem.mk e sp v (S σ j, E σ ke) :: els)
grind_pattern elemsOK_mono => TiledTab src σ N, ElemsOK src σ j k els, ElemsOK src σ j k' els

def WithParenElemsSpec (src : List Nat) (σ : SpanTab) (N f : Nat) : Prop :=
  ∀ ts els tc rest, ts.length ≤ N → parseRWithParenElems σ f ts = some ((els, tc), rest) →
    rest.length + 1 < ts.length ∧ els ≠ [] ∧ ElemsOK src σ ts.length (rest.length + 2) els

theorem withParenElems_sound (T : TiledTab src σ N) : ∀ f, WithParenElemsSpec src σ N f := by
  refine below_rec (fun n ih => ?_)
  intro ts els tc rest hN
  fun_cases parseRWithParenElems σ n ts
  rstep σ [(soundAt T _).starOrNamed, asPartR_sound T _, ih _ rfl]

theorem elemsOK_bounds : ∀ {els : List RWElem} {j k : Nat}, ElemsOK src σ j k els → els ≠ [] → k ≤ j
  | [], _, _, _, h => absurd rfl h
  | el :: els, j, k, ⟨ke, g1, g2, _⟩, _ => by omega

/-- alternative 2 of `WithItems`: items in front of the first `as` are ranged like their expression node (they have
    no `as` target), the others by their tokens -/
theorem asItems_ok (T : TiledTab src σ N) : ∀ (els : List RWElem) (j k : Nat) (seen : Bool), ElemsOK src σ j k els →
    1 ≤ k → j ≤ N → SeqWI src σ j k (asItemsR seen els)
  | [], _, _, _, _, _, _ => seqWI_nil
  | el :: els, j, k, seen, ⟨ke, g1, g2, g3, g4, g5, g6⟩, h1, h2 => by
    obtain ⟨e, sp, v, ext⟩ := el
    simp only at g3 g4 g5
    subst g3
    have hitem : WWI src σ j ke ⟨if (seen || v.isSome) = true then (S σ j, E σ ke) else e.range, e, v⟩ := by
      split
      · exact wwi_mk T (by omega) g2 h2 g4 (Nat.le_refl _) (Nat.le_refl _) (by omega) (by omega) g5
          (Or.inr ⟨Nat.le_refl _, Nat.le_refl _, by omega, by omega⟩)
      · rename_i hs
        have : v = none := by
          cases v with
          | none => rfl
          | some x => simp at hs
        subst this
        exact wwi_node g4
    simp only [asItemsR]
    rcases g6 with rfl | ⟨j', q1, q2, q3⟩
    · simp only [asItemsR]
      exact seqX_mono T (seqWI_single hitem) (Nat.le_refl _) g1 (by omega) h1 h2 (by omega)
    · by_cases hne : els = []
      · subst hne
        simp only [asItemsR]
        exact seqX_mono T (seqWI_single hitem) (Nat.le_refl _) g1 (by omega) h1 h2 (by omega)
      · have hb := elemsOK_bounds q3 hne
        exact seqWI_cons T hitem (asItems_ok T els j' k _ q3 h1 (by omega)) q1 q2 (by omega) h1 (by omega)

/-- alternative 1: one item per element, each ranged like its expression node -/
theorem nodeItems_ok (T : TiledTab src σ N) : ∀ (els : List RWElem) (j k : Nat), ElemsOK src σ j k els →
    1 ≤ k → j ≤ N → SeqWI src σ j k (els.map fun el => ⟨el.e.range, el.e, none⟩)
  | [], _, _, _, _, _ => seqWI_nil
  | el :: els, j, k, ⟨ke, g1, g2, g3, g4, g5, g6⟩, h1, h2 => by
    have hitem : WWI src σ j ke ⟨el.e.range, el.e, none⟩ := wwi_node g4
    simp only [List.map_cons]
    rcases g6 with rfl | ⟨j', q1, q2, q3⟩
    · exact seqX_mono T (seqWI_single hitem) (Nat.le_refl _) g1 (by omega) h1 h2 (by omega)
    · by_cases hne : els = []
      · subst hne
        exact seqX_mono T (seqWI_single hitem) (Nat.le_refl _) g1 (by omega) h1 h2 (by omega)
      · have hb := elemsOK_bounds q3 hne
        exact seqWI_cons T hitem (nodeItems_ok T els j' k q3 h1 (by omega)) q1 q2 (by omega) h1 (by omega)

/-- the expressions of the elements, in consecutive windows -/
theorem elems_seqI (T : TiledTab src σ N) : ∀ (els : List RWElem) (j k : Nat), ElemsOK src σ j k els →
    1 ≤ k → j ≤ N → SeqI src σ j k (els.map fun el => el.e)
  | [], _, _, _, _, _ => seqI_nil
  | el :: els, j, k, ⟨ke, g1, g2, g3, g4, g5, g6⟩, h1, h2 => by
    simp only [List.map_cons]
    rcases g6 with rfl | ⟨j', q1, q2, q3⟩
    · exact seqI_mono T (seqI_single g4) (Nat.le_refl _) g1 (by omega) h1 h2 (by omega)
    · by_cases hne : els = []
      · subst hne
        exact seqI_mono T (seqI_single g4) (Nat.le_refl _) g1 (by omega) h1 h2 (by omega)
      · have hb := elemsOK_bounds q3 hne
        exact seqI_cons T g4 (elems_seqI T els j' k q3 h1 (by omega)) q1 q2 (by omega) h1 (by omega)

theorem asItems_ne : ∀ (els : List RWElem) (seen : Bool), els ≠ [] → asItemsR seen els ≠ []
  | [], _, h => absurd rfl h
  | _ :: _, _, _ => by simp [asItemsR]

/-- the items of a parenthesised element list: between the `(` (token `J`) and the `)` (token `K`) -/
theorem withParenItemsR_sound (T : TiledTab src σ N) {J K : Nat} {els : List RWElem} {tc : Bool} {items : List RWithItem}
    (hel : ElemsOK src σ (J - 1) (K + 1) els) (hne : els ≠ []) (h1 : 1 ≤ K) (h2 : K + 2 ≤ J) (h3 : J ≤ N)
    (h : withParenItemsR (S σ J, E σ K) els tc = some items) : items ≠ [] ∧ SeqWI src σ J K items := by
  unfold withParenItemsR at h
  split at h
  · split at h
    · cases h
    · simp only [Option.some.injEq] at h; subst h
      exact ⟨asItems_ne _ _ hne, seqX_mono T (asItems_ok T els _ _ false hel (by omega) (by omega)) (by omega) (by omega)
        (by omega) h1 h3 (by omega)⟩
  · split at h
    · simp only [Option.some.injEq] at h; subst h
      refine ⟨by cases els <;> simp_all, ?_⟩
      exact seqX_mono T (nodeItems_ok T els _ _ hel (by omega) (by omega)) (by omega) (by omega) (by omega) h1 h3
        (by omega)
    · split at h
      · rename_i el
        split at h
        · cases h
        · simp only [Option.some.injEq] at h; subst h
          obtain ⟨ke, g1, g2, g3, g4, g5, g6⟩ := hel
          refine ⟨by simp, seqWI_single ?_⟩
          exact wwi_mk T h1 (by omega) h3 g4 (by omega) (by omega) (by omega) (by omega) (wo_none (j := 0) (k := 0)) (Or.inl rfl)
      · simp only [Option.some.injEq] at h; subst h
        refine ⟨by simp, seqWI_single ?_⟩
        have hs := elems_seqI T els _ _ hel (by omega) (by omega)
        have hb := elemsOK_bounds hel hne
        have htup : Win src σ J K (.tuple (S σ J, E σ K) (els.map fun el => el.e)) :=
          own_tuple T h1 (by omega) h3 hs (by omega) (by omega) (by omega) (by omega)
        exact wwi_mk T h1 (by omega) h3 htup (Nat.le_refl _) (Nat.le_refl _) (by omega) (by omega)
          (wo_none (j := 0) (k := 0)) (Or.inl rfl)

theorem withParenItemsR_fact (T : TiledTab src σ N) {j K : Nat} {els : List RWElem} {tc : Bool} {items : List RWithItem}
    (h : withParenItemsR (S σ (j + 1), E σ K) els tc = some items) (hel : ElemsOK src σ j (K + 1) els) (hne : els ≠ [])
    (h1 : 1 ≤ K) (h2 : K + 1 ≤ j) (h3 : j + 1 ≤ N) : items ≠ [] ∧ SeqWI src σ (j + 1) K items :=
  withParenItemsR_sound T (J := j + 1) (by simpa using hel) hne h1 (by omega) h3 h

/-- after `with (` when the matching `)` is followed by `:`: the items lie between the `(` and the `)` -/
theorem withParen_sound (T : TiledTab src σ N) (f : Nat) : ∀ ts items rest, ts.length + 1 ≤ N →
    parseRWithParen σ f ts = some (items, rest) →
    rest.length < ts.length ∧ items ≠ [] ∧ SeqWI src σ (ts.length + 1) (rest.length + 1) items := by
  intro ts items rest hN
  fun_cases parseRWithParen σ f ts
  all_goals first
    | rstep1 σ [(soundAt T _).yieldAtom, (soundAt T _).starOrNamed, (soundAt T _).compFor]
    | (intro h
       rename_i hel hit
       simp only [Option.some.injEq, Prod.mk.injEq] at h
       obtain ⟨rfl, rfl⟩ := h
       obtain ⟨g1, g2, g3⟩ := withParenElems_sound T _ _ _ _ _ (by omega) hel
       simp only [P, R] at hit
       have := withParenItemsR_fact T hit (by simpa using g3) g2 (by omega) (by omega) hN
       exact ⟨by omega, this.1, this.2⟩)

theorem withItems_sound (T : TiledTab src σ N) (f : Nat) : ∀ ts items rest, ts.length ≤ N →
    parseRWithItems σ f ts = some (items, rest) →
    rest.length < ts.length ∧ items ≠ [] ∧ SeqWI src σ ts.length (rest.length + 1) items := by
  intro ts items rest hN
  fun_cases parseRWithItems σ f ts
  rstep σ [withParen_sound T _, withPlain_sound T _]

theorem exceptHeader_sound (T : TiledTab src σ N) (f : Nat) : ∀ star ts ty nm rest, ts.length ≤ N →
    parseRExceptHeader σ f star ts = some ((ty, nm), rest) →
    rest.length < ts.length ∧ WO src σ ts.length (rest.length + 2) ty ∧
      (ty = none ∨ rest.length + 1 < ts.length) := by
  intro star ts ty nm rest hN
  fun_cases parseRExceptHeader σ f star ts
  rstep σ [(soundAt T _).test]

end PV.C02
