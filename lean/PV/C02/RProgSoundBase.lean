import PV.C02.RProgPlain
import PV.C02.SoundSteps
/-
  PV.C02.RProgSoundBase — vocabulary for the proof that the trees of the ranged PROGRAM parser pass `rangesOk`, on the
  generic `Tree` (so that one notion serves statements, patterns, handlers, cases, aliases, with-items, type
  parameters, parameters):

  * `TF src lo hi t`: the node `t` has a well-formed range inside `[lo, hi]`, its list siblings are ordered and
    everything below it passes the checker (what `ok` asks of `t` below any range that contains `[lo, hi]`);
  * `Kids src k a b slots cs`: the children list `cs` of a node of kind `k` ranged `(a, b)` is fine: ordered list
    siblings, every child passes below `(a, b)` (decorators: below anything), all slots among `slots` — closed under
    `++` for disjoint slot sets;
  * index forms for a tiled span table: windows given by token indices, side conditions linear arithmetic.
-/
set_option linter.unusedSimpArgs false
set_option linter.unusedVariables false
namespace PV.C02
open PV.Expr PV.C11 PV.Prog

variable {src : List Nat}

/-! ### fine trees -/

/-- `t`'s range is a well-formed range inside `[lo, hi]`, its list siblings are ordered, everything below it is fine -/
def TF (src : List Nat) (lo hi : Nat) (t : Tree) : Prop :=
  ∃ a b, t.range = some (a, b) ∧ rgOk src (a, b) ∧ lo ≤ a ∧ b ≤ hi ∧
    sibsOk t.kind t.children = true ∧ okList src (some (a, b)) t.children = true

theorem TF.mono {lo hi lo' hi' : Nat} {t : Tree} (h : TF src lo hi t) (h1 : lo' ≤ lo) (h2 : hi ≤ hi') :
    TF src lo' hi' t := by
  obtain ⟨a, b, g1, g2, g3, g4, g5⟩ := h
  exact ⟨a, b, g1, g2, by omega, by omega, g5⟩

theorem TF.le {lo hi : Nat} {t : Tree} (h : TF src lo hi t) : lo ≤ hi := by
  obtain ⟨a, b, _, g2, g3, g4, _⟩ := h
  have := rgOk_le g2; omega

theorem windowed_tf (src : List Nat) : Windowed (TF src) := ⟨fun h a b => h.mono a b, fun h => h.le⟩

/-- a fine tree passes the checker below any range that contains its window -/
theorem TF.toOk {lo hi : Nat} {t : Tree} (h : TF src lo hi t) (a b : Nat) (ha : a ≤ lo) (hb : hi ≤ b) :
    ok src (some (a, b)) t = true := by
  obtain ⟨k, slot, il, r, cs⟩ := t
  obtain ⟨c, d, g1, g2, g3, g4, g5, g6⟩ := h
  simp only [Tree.range] at g1
  subst g1
  simp only [Tree.kind, Tree.children] at g5 g6
  simp only [ok, Bool.and_eq_true, Option.orElse]
  refine ⟨⟨⟨g2, ?_⟩, g5⟩, g6⟩
  simp only [enclOk, Bool.or_eq_true, Bool.and_eq_true, decide_eq_true_eq]
  right; omega

/-- a decorator passes below any range -/
theorem TF.toOk_deco {lo hi : Nat} {t : Tree} (h : TF src lo hi t) (hs : t.slot = "decorator_list") (par : Option (Nat × Nat)) :
    ok src par t = true := by
  obtain ⟨k, slot, il, r, cs⟩ := t
  obtain ⟨c, d, g1, g2, g3, g4, g5, g6⟩ := h
  simp only [Tree.range] at g1
  subst g1
  simp only [Tree.slot] at hs
  subst hs
  simp only [Tree.kind, Tree.children] at g5 g6
  simp only [ok, Bool.and_eq_true, Option.orElse]
  refine ⟨⟨⟨g2, ?_⟩, g5⟩, g6⟩
  cases par with
  | none => simp [enclOk]
  | some p => simp [enclOk, exemptEnclose]

/-- …and at the root -/
theorem TF.toOk_root {lo hi : Nat} {t : Tree} (h : TF src lo hi t) : ok src none t = true := by
  obtain ⟨k, slot, il, r, cs⟩ := t
  obtain ⟨c, d, g1, g2, g3, g4, g5, g6⟩ := h
  simp only [Tree.range] at g1
  subst g1
  simp only [Tree.kind, Tree.children] at g5 g6
  simp only [ok, Bool.and_eq_true, Option.orElse]
  exact ⟨⟨⟨g2, by simp [enclOk]⟩, g5⟩, g6⟩

/-- `TF` does not look at the slot of the node itself -/
theorem TF.relabel {lo hi : Nat} {k s s' : String} {il il' : Bool} {r : Option (Nat × Nat)} {cs : List Tree}
    (h : TF src lo hi (.node k s il r cs)) : TF src lo hi (.node k s' il' r cs) := h

theorem TF.node {lo hi a b : Nat} {k slot : String} {il : Bool} {cs : List Tree} (hrg : rgOk src (a, b)) (h1 : lo ≤ a)
    (h2 : b ≤ hi) (hs : sibsOk k cs = true) (hc : okList src (some (a, b)) cs = true) :
    TF src lo hi (.node k slot il (some (a, b)) cs) := ⟨a, b, rfl, hrg, h1, h2, hs, hc⟩

theorem Res.toTF {lo hi : Nat} {e : RExpr} (h : Res src lo hi e) (slot : String) (il : Bool) :
    TF src lo hi (.node e.kind slot il (some e.range) e.children) :=
  ⟨e.range.1, e.range.2, rfl, h.1, h.2.1, h.2.2.1, h.2.2.2.1, h.2.2.2.2⟩

/-! ### sequences of fine trees -/

theorem sibsOk_seqTF (k : String) : ∀ (ts : List Tree) (lo hi : Nat), SeqG (TF src) lo hi ts → sibsOk k ts = true
  | [], _, _, _ => by simp [sibsOk]
  | [_], _, _, _ => by simp [sibsOk]
  | x :: y :: ts, lo, hi, ⟨m, h1, _, h3⟩ => by
    have ih := sibsOk_seqTF k (y :: ts) m hi h3
    obtain ⟨m2, h4, _, _⟩ := h3
    obtain ⟨a, b, g1, _, _, g4, _⟩ := h1
    obtain ⟨c, d, e1, _, e3, _, _⟩ := h4
    simp only [sibsOk, ih, Bool.and_true, g1, e1]
    split <;> simp <;> omega

theorem okList_seqTF (a b : Nat) : ∀ (ts : List Tree) (lo hi : Nat), SeqG (TF src) lo hi ts → a ≤ lo → hi ≤ b →
    okList src (some (a, b)) ts = true
  | [], _, _, _, _, _ => by simp [okList]
  | t :: ts, lo, hi, ⟨m, h1, h2, h3⟩, ha, hb => by
    simp only [okList, Bool.and_eq_true]
    have := h1.le
    exact ⟨h1.toOk a b ha (by omega), okList_seqTF a b ts m hi h3 (by omega) hb⟩

theorem okList_seqTF_deco (par : Option (Nat × Nat)) : ∀ (ts : List Tree) (lo hi : Nat), SeqG (TF src) lo hi ts →
    (∀ t ∈ ts, t.slot = "decorator_list") → okList src par ts = true
  | [], _, _, _, _ => by simp [okList]
  | t :: ts, lo, hi, ⟨m, h1, h2, h3⟩, hs => by
    simp only [okList, Bool.and_eq_true]
    exact ⟨h1.toOk_deco (hs t (by simp)) par, okList_seqTF_deco par ts m hi h3 (fun x hx => hs x (by simp [hx]))⟩

theorem seqTF_toTrees (s : String) : ∀ {es : List RExpr} {lo hi : Nat}, SeqG (Res src) lo hi es →
    SeqG (TF src) lo hi (toTrees s es)
  | [], _, _, _ => trivial
  | e :: es, _, _, ⟨m, h1, h2, h3⟩ => ⟨m, h1.toTF s true, h2, seqTF_toTrees s h3⟩

theorem seqTF_append {P : Nat → Nat → Tree → Prop} {lo m hi : Nat} : ∀ {xs ys : List Tree}, SeqG P lo m xs →
    SeqG P m hi ys → m ≤ hi → (∀ {a b a' b' t}, P a b t → a' ≤ a → b ≤ b' → P a' b' t) → (∀ {a b t}, P a b t → a ≤ b) →
    lo ≤ m → SeqG P lo hi (xs ++ ys)
  | [], ys, _, h2, _, mono, _, hlm => by
    cases ys with
    | nil => trivial
    | cons y ys =>
      obtain ⟨m1, g1, g2, g3⟩ := h2
      exact ⟨m1, mono g1 hlm (Nat.le_refl _), g2, g3⟩
  | x :: xs, ys, ⟨m1, g1, g2, g3⟩, h2, hmh, mono, le, _ =>
    ⟨m1, g1, by omega, seqTF_append (xs := xs) g3 h2 hmh mono le g2⟩

/-! ### the slots of children lists -/

theorem sibsOk_append_disj (k : String) : ∀ (xs ys : List Tree), (∀ x ∈ xs, ∀ y ∈ ys, x.slot ≠ y.slot) →
    sibsOk k (xs ++ ys) = (sibsOk k xs && sibsOk k ys)
  | [], ys, _ => by simp [sibsOk]
  | [x], [], _ => by simp [sibsOk]
  | [x], y :: ys, h => by
    have : x.slot ≠ y.slot := h x (by simp) y (by simp)
    simp only [List.cons_append, List.nil_append]
    rw [sibsOk_cons_ne k x y ys this]
    simp [sibsOk]
  | x :: x' :: xs, ys, h => by
    have ih := sibsOk_append_disj k (x' :: xs) ys (fun a ha b hb => h a (by simp at ha ⊢; right; exact ha) b hb)
    simp only [List.cons_append] at ih ⊢
    simp only [sibsOk, ih, Bool.and_assoc]

/-- the children list `cs` of a node of kind `k` ranged `(a, b)` is fine, and its slots are among `slots` -/
structure Kids (src : List Nat) (k : String) (a b : Nat) (slots : List String) (cs : List Tree) : Prop where
  sib : sibsOk k cs = true
  ok : okList src (some (a, b)) cs = true
  sl : ∀ t ∈ cs, t.slot ∈ slots

namespace Kids
variable {k : String} {a b : Nat}

theorem nil : Kids src k a b [] [] := ⟨by simp [sibsOk], by simp [okList], by simp⟩

theorem append {s1 s2 : List String} {xs ys : List Tree} (h1 : Kids src k a b s1 xs) (h2 : Kids src k a b s2 ys)
    (hd : ∀ x ∈ s1, x ∉ s2) : Kids src k a b (s1 ++ s2) (xs ++ ys) := by
  refine ⟨?_, ?_, ?_⟩
  · rw [sibsOk_append_disj k xs ys (fun x hx y hy heq => hd _ (h1.sl x hx) (heq ▸ h2.sl y hy)), h1.sib, h2.sib]; rfl
  · rw [okList_append, h1.ok, h2.ok]; rfl
  · intro t ht
    rcases List.mem_append.mp ht with h | h
    · exact List.mem_append_left _ (h1.sl t h)
    · exact List.mem_append_right _ (h2.sl t h)

theorem cons {s : String} {s2 : List String} {x : Tree} {ys : List Tree} (h1 : Kids src k a b [s] [x])
    (h2 : Kids src k a b s2 ys) (hd : s ∉ s2) : Kids src k a b (s :: s2) (x :: ys) :=
  append h1 h2 (fun y hy => by simp at hy; subst hy; exact hd)

/-- one child that is a fine tree -/
theorem one {s : String} {t : Tree} {lo hi : Nat} (h : TF src lo hi t) (hs : t.slot = s) (ha : a ≤ lo) (hb : hi ≤ b) :
    Kids src k a b [s] [t] :=
  ⟨by simp [sibsOk], by simp [okList, h.toOk a b ha hb], by simp [hs]⟩

/-- a list field of fine trees in consecutive windows -/
theorem seq {s : String} {ts : List Tree} {lo hi : Nat} (h : SeqG (TF src) lo hi ts) (hs : ∀ t ∈ ts, t.slot = s)
    (ha : a ≤ lo) (hb : hi ≤ b) : Kids src k a b [s] ts :=
  ⟨sibsOk_seqTF k ts lo hi h, okList_seqTF a b ts lo hi h ha hb, fun t ht => by simp [hs t ht]⟩

/-- the decorators: in consecutive windows anywhere -/
theorem decos {ts : List Tree} {lo hi : Nat} (h : SeqG (TF src) lo hi ts) (hs : ∀ t ∈ ts, t.slot = "decorator_list") :
    Kids src k a b ["decorator_list"] ts :=
  ⟨sibsOk_seqTF k ts lo hi h, okList_seqTF_deco _ ts lo hi h hs, fun t ht => by simp [hs t ht]⟩

/-- an expression child -/
theorem expr {s : String} {e : RExpr} {lo hi : Nat} (h : Res src lo hi e) (ha : a ≤ lo) (hb : hi ≤ b) :
    Kids src k a b [s] [.node e.kind s false (some e.range) e.children] :=
  one (h.toTF s false) rfl ha hb

/-- an optional expression child -/
theorem optExpr {s : String} {x : Option RExpr} {lo hi : Nat} (h : ∀ e, x = some e → Res src lo hi e) (ha : a ≤ lo)
    (hb : hi ≤ b) : Kids src k a b [s] (optTree s x) := by
  cases x with
  | none => exact ⟨by simp [optTree, sibsOk], by simp [optTree, okList], by simp [optTree]⟩
  | some e => exact expr (h e rfl) ha hb

/-- a list field of expressions in consecutive windows -/
theorem exprs {s : String} {es : List RExpr} {lo hi : Nat} (h : SeqG (Res src) lo hi es) (ha : a ≤ lo) (hb : hi ≤ b) :
    Kids src k a b [s] (toTrees s es) :=
  seq (seqTF_toTrees s h) (fun t ht => (allSlot_toTrees s es t ht).1) ha hb

theorem exprDecos {es : List RExpr} {lo hi : Nat} (h : SeqG (Res src) lo hi es) :
    Kids src k a b ["decorator_list"] (toTrees "decorator_list" es) :=
  decos (seqTF_toTrees _ h) (fun t ht => (allSlot_toTrees _ es t ht).1)

/-- the keywords of a class definition -/
theorem kws {ks : List RKeyword} {lo hi : Nat} (h : SeqG (RSK src) lo hi ks) (hp : plainKws ks = true) (ha : a ≤ lo)
    (hb : hi ≤ b) : Kids src k a b ["keywords"] (kwTrees ks) :=
  ⟨sibsOk_kwTrees k ks lo hi h hp, okList_kwTrees a b ks lo hi h hp ha hb,
    fun t ht => by simp [(allSlot_kwTrees ks t ht).1]⟩

/-- reading the slots off a concrete list is enough -/
theorem weaken {s1 s2 : List String} {cs : List Tree} (h : Kids src k a b s1 cs) (hs : ∀ x ∈ s1, x ∈ s2) :
    Kids src k a b s2 cs := ⟨h.sib, h.ok, fun t ht => hs _ (h.sl t ht)⟩

end Kids

/-- a node built from fine children -/
theorem TF.ofKids {lo hi a b : Nat} {k slot : String} {il : Bool} {slots : List String} {cs : List Tree}
    (hrg : rgOk src (a, b)) (h1 : lo ≤ a) (h2 : b ≤ hi) (hk : Kids src k a b slots cs) :
    TF src lo hi (.node k slot il (some (a, b)) cs) := TF.node hrg h1 h2 hk.sib hk.ok

/-! ### index windows -/

variable {σ : SpanTab} {N : Nat}

/-- a tree in the window of the tokens `j … k` -/
def WinT (src : List Nat) (σ : SpanTab) (j k : Nat) (t : Tree) : Prop := TF src (σ j).1 (σ k).2 t
/-- trees in consecutive windows between the tokens `j … k` -/
def SeqT (src : List Nat) (σ : SpanTab) (j k : Nat) (ts : List Tree) : Prop := SeqG (TF src) (σ j).1 (σ k).2 ts

section idx
variable (T : TiledTab src σ N)
include T

theorem WinT.mono {j k j' k' : Nat} {t : Tree} (h : WinT src σ j k t) (hj : j ≤ j') (hk : k' ≤ k) (h1 : 1 ≤ j)
    (h2 : 1 ≤ k') (h3 : j' ≤ N) (h4 : k ≤ N) : WinT src σ j' k' t :=
  TF.mono h (T.SS h1 hj h3) (T.EE h2 hk h4)

theorem SeqT.mono {j k j' k' : Nat} {ts : List Tree} (h : SeqT src σ j k ts) (hj : j ≤ j') (hk : k' ≤ k) (h1 : 1 ≤ j)
    (h2 : 1 ≤ k') (h3 : j' ≤ N) (h4 : k ≤ N) : SeqT src σ j' k' ts :=
  SeqG.mono_lo (windowed_tf src) (SeqG.mono_hi h (T.EE h2 hk h4)) (T.SS h1 hj h3)

omit T in
theorem SeqT.nil {j k : Nat} : SeqT src σ j k [] := trivial

omit T in
theorem SeqT.single {j k : Nat} {t : Tree} (h : WinT src σ j k t) : SeqT src σ j k [t] := SeqG.single h

/-- an item in front of a sequence that starts at a later token -/
theorem SeqT.cons {j m j2 k : Nat} {x : Tree} {xs : List Tree} (h : WinT src σ j m x) (hs : SeqT src σ j2 k xs)
    (h1 : 1 ≤ j2) (h2 : j2 < m) (h3 : m ≤ N) (h4 : 1 ≤ k) (h5 : k ≤ m) : SeqT src σ j k (x :: xs) :=
  SeqG.cons (windowed_tf src) h (T.ES h1 h2 h3) hs (T.EE h4 h5 h3)

/-- an item behind a sequence that ended at an earlier token -/
theorem SeqT.snoc {jl m j2 k2 k : Nat} {x : Tree} {xs : List Tree} (hs : SeqT src σ jl m xs) (hx : WinT src σ j2 k2 x)
    (h0 : m ≤ jl) (h0' : jl ≤ N) (h1 : 1 ≤ j2) (h2 : j2 < m) (h4 : 1 ≤ k) (h5 : k ≤ k2) (h6 : k2 ≤ N) :
    SeqT src σ jl k (xs ++ [x]) := by
  have := T.ES h1 h2 (by omega)
  have := T.SE' (j := jl) (k := m) (by omega) h0 h0'
  exact SeqG.snoc (windowed_tf src) hs (by omega) ‹_› hx (T.EE h4 h5 h6)

/-- two sequences, the second starting at a later token than the first ends -/
theorem SeqT.append {j m j2 k : Nat} {xs ys : List Tree} (h1 : SeqT src σ j m xs) (h2 : SeqT src σ j2 k ys)
    (c1 : 1 ≤ j2) (c2 : j2 < m) (c3 : m ≤ j) (c4 : j ≤ N) (c5 : 1 ≤ k) (c6 : k ≤ j2) : SeqT src σ j k (xs ++ ys) := by
  have e1 := T.ES c1 c2 (by omega)
  have e2 := T.SE' (j := j) (k := m) (by omega) c3 c4
  have e3 := T.SE' (j := j2) (k := k) c5 c6 (by omega)
  have h2' : SeqG (TF src) (σ m).2 (σ k).2 ys := SeqG.mono_lo (windowed_tf src) h2 e1
  exact seqTF_append h1 h2' (by omega) (fun h a b => TF.mono h a b) (fun h => TF.le h) e2

/-- the window of a node ranged by token indices -/
theorem idxRg {j k : Nat} (h1 : 1 ≤ k) (h2 : k ≤ j) (h3 : j ≤ N) : rgOk src (S σ j, E σ k) := T.win h1 h2 h3

/-- a node ranged `(S σ j, E σ k)` with fine children lies in any index window around it -/
theorem winT_node {j k j' k' : Nat} {kind slot : String} {il : Bool} {slots : List String} {cs : List Tree}
    (h1 : 1 ≤ k') (h2 : k' ≤ k) (h3 : k ≤ j) (h4 : j ≤ j') (h5 : j' ≤ N)
    (hk : Kids src kind (S σ j) (E σ k) slots cs) : WinT src σ j' k' (.node kind slot il (some (S σ j, E σ k)) cs) :=
  TF.ofKids (T.win (by omega) h3 (by omega)) (T.SS (by omega) h4 h5) (T.EE h1 h2 (by omega)) hk

/-- an expression child inside the parent's token range -/
theorem kids_expr {J K jc kc : Nat} {kind s : String} {e : RExpr} (he : Win src σ jc kc e) (hp : plain e = true)
    (c1 : K ≤ kc) (c2 : jc ≤ J) (c3 : 1 ≤ jc) (c4 : kc ≤ N) (c5 : 1 ≤ K) (c6 : J ≤ N) :
    Kids src kind (S σ J) (E σ K) [s] [.node e.kind s false (some e.range) e.children] :=
  Kids.expr (he.2 hp) (T.SS c3 c2 c6) (T.EE c5 c1 c4)

theorem kids_optExpr {J K jc kc : Nat} {kind s : String} {x : Option RExpr} (he : ∀ e, x = some e → Win src σ jc kc e)
    (hp : plainO x = true) (c : x = none ∨ (K ≤ kc ∧ jc ≤ J ∧ 1 ≤ jc ∧ kc ≤ N)) (c5 : 1 ≤ K) (c6 : J ≤ N) :
    Kids src kind (S σ J) (E σ K) [s] (optTree s x) := by
  cases x with
  | none => exact ⟨by simp [optTree, sibsOk], by simp [optTree, okList], by simp [optTree]⟩
  | some e =>
    rcases c with c | ⟨c1, c2, c3, c4⟩
    · cases c
    · exact kids_expr T (he e rfl) hp c1 c2 c3 c4 c5 c6

theorem kids_exprs {J K jl kl : Nat} {kind s : String} {es : List RExpr} (hs : SeqI src σ jl kl es)
    (hp : plainL es = true) (c : es = [] ∨ (K ≤ kl ∧ jl ≤ J ∧ 1 ≤ jl ∧ kl ≤ N)) (c5 : 1 ≤ K) (c6 : J ≤ N) :
    Kids src kind (S σ J) (E σ K) [s] (toTrees s es) := by
  rcases c with c | ⟨c1, c2, c3, c4⟩
  · subst c; exact ⟨by simp [toTrees, sibsOk], by simp [toTrees, okList], by simp [toTrees]⟩
  · exact Kids.exprs (seq_plain hs hp) (T.SS c3 c2 c6) (T.EE c5 c1 c4)

omit T in
theorem kids_decos {a b jl kl : Nat} {kind : String} {es : List RExpr} (hs : SeqI src σ jl kl es) (hp : plainL es = true) :
    Kids src kind a b ["decorator_list"] (toTrees "decorator_list" es) :=
  Kids.exprDecos (seq_plain hs hp)

theorem kids_kws {J K jl kl : Nat} {kind : String} {ks : List RKeyword} (hs : SeqK src σ jl kl ks)
    (hp : plainKws ks = true) (c : ks = [] ∨ (K ≤ kl ∧ jl ≤ J ∧ 1 ≤ jl ∧ kl ≤ N)) (c5 : 1 ≤ K) (c6 : J ≤ N) :
    Kids src kind (S σ J) (E σ K) ["keywords"] (kwTrees ks) := by
  rcases c with c | ⟨c1, c2, c3, c4⟩
  · subst c; exact ⟨by simp [kwTrees, sibsOk], by simp [kwTrees, okList], by simp [kwTrees]⟩
  · exact Kids.kws hs hp (T.SS c3 c2 c6) (T.EE c5 c1 c4)

/-- a child tree inside the parent's token range -/
theorem kids_one {J K jc kc : Nat} {kind s : String} {t : Tree} (ht : WinT src σ jc kc t) (hs : t.slot = s)
    (c1 : K ≤ kc) (c2 : jc ≤ J) (c3 : 1 ≤ jc) (c4 : kc ≤ N) (c5 : 1 ≤ K) (c6 : J ≤ N) :
    Kids src kind (S σ J) (E σ K) [s] [t] :=
  Kids.one ht hs (T.SS c3 c2 c6) (T.EE c5 c1 c4)

/-- a list field of trees inside the parent's token range -/
theorem kids_seq {J K jl kl : Nat} {kind s : String} {ts : List Tree} (hs : SeqT src σ jl kl ts)
    (hsl : ∀ t ∈ ts, t.slot = s) (c : ts = [] ∨ (K ≤ kl ∧ jl ≤ J ∧ 1 ≤ jl ∧ kl ≤ N)) (c5 : 1 ≤ K) (c6 : J ≤ N) :
    Kids src kind (S σ J) (E σ K) [s] ts := by
  rcases c with c | ⟨c1, c2, c3, c4⟩
  · subst c; exact ⟨by simp [sibsOk], by simp [okList], by simp⟩
  · exact Kids.seq hs hsl (T.SS c3 c2 c6) (T.EE c5 c1 c4)

/-- trees of any slots in consecutive windows inside the parent's token range -/
theorem kids_seqAny {J K jl kl : Nat} {kind : String} {ts : List Tree} (hs : SeqT src σ jl kl ts)
    (c : ts = [] ∨ (K ≤ kl ∧ jl ≤ J ∧ 1 ≤ jl ∧ kl ≤ N)) (c5 : 1 ≤ K) (c6 : J ≤ N) :
    Kids src kind (S σ J) (E σ K) (ts.map Tree.slot) ts := by
  rcases c with c | ⟨c1, c2, c3, c4⟩
  · subst c; exact ⟨by simp [sibsOk], by simp [okList], by simp⟩
  · exact ⟨sibsOk_seqTF kind ts _ _ hs, okList_seqTF _ _ ts _ _ hs (T.SS c3 c2 c6) (T.EE c5 c1 c4),
      fun t ht => List.mem_map.mpr ⟨t, ht, rfl⟩⟩

omit T in
/-- an expression as a tree in its index window -/
theorem winT_expr {j k : Nat} {e : RExpr} (he : Win src σ j k e) (hp : plain e = true) (s : String) (il : Bool) :
    WinT src σ j k (.node e.kind s il (some e.range) e.children) := (he.2 hp).toTF s il

omit T in
theorem seqT_exprs {j k : Nat} {es : List RExpr} (hs : SeqI src σ j k es) (hp : plainL es = true) (s : String) :
    SeqT src σ j k (toTrees s es) := seqTF_toTrees s (seq_plain hs hp)

end idx

/-! ### slots of the tree builders -/

theorem slot_stmtTrees (s : String) : ∀ (ss : List RStmt), ∀ t ∈ stmtTrees s ss, t.slot = s
  | [], t, ht => by simp [stmtTrees] at ht
  | x :: xs, t, ht => by
    simp only [stmtTrees, List.mem_cons] at ht
    rcases ht with rfl | ht
    · rfl
    · exact slot_stmtTrees s xs t ht

theorem slot_patTrees (s : String) : ∀ (ps : List RPattern), ∀ t ∈ patTrees s ps, t.slot = s
  | [], t, ht => by simp [patTrees] at ht
  | x :: xs, t, ht => by
    simp only [patTrees, List.mem_cons] at ht
    rcases ht with rfl | ht
    · rfl
    · exact slot_patTrees s xs t ht

theorem slot_handlerTrees : ∀ (hs : List RHandler), ∀ t ∈ handlerTrees hs, t.slot = "handlers"
  | [], t, ht => by simp [handlerTrees] at ht
  | .mk _ _ _ _ :: xs, t, ht => by
    simp only [handlerTrees, List.mem_cons] at ht
    rcases ht with rfl | ht
    · rfl
    · exact slot_handlerTrees xs t ht

theorem slot_caseTrees : ∀ (cs : List RCase), ∀ t ∈ caseTrees cs, t.slot = "cases"
  | [], t, ht => by simp [caseTrees] at ht
  | .mk _ _ _ _ :: xs, t, ht => by
    simp only [caseTrees, List.mem_cons] at ht
    rcases ht with rfl | ht
    · rfl
    · exact slot_caseTrees xs t ht

theorem slot_aliasTrees (ns : List RAlias) : ∀ t ∈ ns.map RAlias.tree, t.slot = "names" := by
  intro t ht
  obtain ⟨a, _, rfl⟩ := List.mem_map.mp ht
  rfl

theorem slot_itemTrees (ns : List RWithItem) : ∀ t ∈ ns.map RWithItem.tree, t.slot = "items" := by
  intro t ht
  obtain ⟨a, _, rfl⟩ := List.mem_map.mp ht
  rfl

theorem slot_tparamTrees (ns : List RTypeParam) : ∀ t ∈ ns.map RTypeParam.tree, t.slot = "type_params" := by
  intro t ht
  obtain ⟨a, _, rfl⟩ := List.mem_map.mp ht
  rfl

theorem slot_argDTrees (s : String) (ns : List RArgD) : ∀ t ∈ ns.map (RArgD.tree s), t.slot = s := by
  intro t ht
  obtain ⟨a, _, rfl⟩ := List.mem_map.mp ht
  rfl

/-! ### lists -/

theorem stmtTrees_append (s : String) : ∀ (xs ys : List RStmt), stmtTrees s (xs ++ ys) = stmtTrees s xs ++ stmtTrees s ys
  | [], _ => by simp [stmtTrees]
  | x :: xs, ys => by simp [stmtTrees, stmtTrees_append s xs ys]

theorem plainSs_append : ∀ (xs ys : List RStmt), plainSs (xs ++ ys) = (plainSs xs && plainSs ys)
  | [], _ => by simp [plainSs]
  | x :: xs, ys => by simp [plainSs, plainSs_append xs ys, Bool.and_assoc]

theorem patTrees_append (s : String) : ∀ (xs ys : List RPattern), patTrees s (xs ++ ys) = patTrees s xs ++ patTrees s ys
  | [], _ => by simp [patTrees]
  | x :: xs, ys => by simp [patTrees, patTrees_append s xs ys]

theorem plainPs_append : ∀ (xs ys : List RPattern), plainPs (xs ++ ys) = (plainPs xs && plainPs ys)
  | [], _ => by simp [plainPs]
  | x :: xs, ys => by simp [plainPs, plainPs_append xs ys, Bool.and_assoc]

theorem lastEnd_append (xs : List RStmt) {ys : List RStmt} (h : ys ≠ []) : lastEnd (xs ++ ys) = lastEnd ys := by
  unfold lastEnd
  have : (xs ++ ys).getLast? = ys.getLast? := by
    rw [List.getLast?_append]
    cases hy : ys.getLast? with
    | none => exact absurd (List.getLast?_eq_none_iff.mp hy) h
    | some y => rfl
  rw [this]

theorem lastEnd_single (s : RStmt) : lastEnd [s] = s.range.2 := rfl

theorem lastEnd_cons (s : RStmt) {ys : List RStmt} (h : ys ≠ []) : lastEnd (s :: ys) = lastEnd ys :=
  lastEnd_append [s] h

end PV.C02
