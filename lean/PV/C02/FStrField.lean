import PV.C02.FStrLex
/-
  PV.C02.FStrField — the replacement field of an f-string: what `PV.C11.scanField` cuts out of the token value is the
  source text at the offset the model reports (`scanField_cut`: a prefix / offset lemma), and the span table
  `fieldTab loc text` of the recursive parse therefore tiles the source inside the field's window
  (`fieldTab_within_field`): every span on character boundaries of the source, ordered, between the opening brace
  and the end of what the scanner consumed.

  The scanner does not return a literal prefix of its input: behind the expression text it skips one-byte characters
  (`=`, blanks of a self-documenting field, `!r`) and may still append a comparison operator (`f'{x= ==}'`: text
  `x==`); the invariant `SInv` says what survives: equal byte offsets at every character position of the text, and
  only one-byte characters behind it.
-/
set_option linter.unusedSimpArgs false
set_option linter.unusedVariables false
namespace PV.C02
open PV.Expr PV.C11

/-- `e` (the expression text collected so far) against the characters consumed so far: same byte offsets at every
    character position of `e`, and only one-byte characters behind -/
def SInv (e consumed : List Nat) : Prop :=
  e.length ≤ consumed.length ∧ (∀ i, i ≤ e.length → ulen (e.take i) = ulen (consumed.take i)) ∧
  (∀ j x, e.length ≤ j → consumed[j]? = some x → x < 128)

theorem sinv_refl (e : List Nat) : SInv e e := ⟨Nat.le_refl _, fun _ _ => rfl, fun j x h1 h2 => by
  rw [List.getElem?_eq_none (by omega)] at h2; cases h2⟩

theorem ulen_single {x : Nat} (h : x < 128) : ulen [x] = 1 := by simp [ulen, usize]; omega

theorem sinv_right {e c : List Nat} {x : Nat} (hx : x < 128) (h : SInv e c) : SInv e (c ++ [x]) := by
  obtain ⟨h1, h2, h3⟩ := h
  refine ⟨by simp; omega, fun i hi => ?_, fun j y g1 g2 => ?_⟩
  · rw [h2 i hi, List.take_append_of_le_length (by omega)]
  · by_cases hj : j < c.length
    · rw [List.getElem?_append_left hj] at g2; exact h3 j y g1 g2
    · rw [List.getElem?_append_right (by omega)] at g2
      have : j - c.length = 0 := by
        cases hjc : j - c.length with
        | zero => rfl
        | succ k => rw [hjc] at g2; simp at g2
      rw [this] at g2; simp at g2; omega

theorem sinv_both {e c : List Nat} {x : Nat} (hx : x < 128) (h : SInv e c) : SInv (e ++ [x]) (c ++ [x]) := by
  obtain ⟨h1, h2, h3⟩ := h
  refine ⟨by simp; omega, fun i hi => ?_, fun j y g1 g2 => ?_⟩
  · simp only [List.length_append, List.length_cons, List.length_nil] at hi
    by_cases hi' : i ≤ e.length
    · rw [List.take_append_of_le_length hi', List.take_append_of_le_length (by omega)]; exact h2 i hi'
    · have hi2 : i = e.length + 1 := by omega
      subst hi2
      rw [List.take_of_length_le (by simp), ulen_append, ulen_single hx]
      have e1 := h2 e.length (Nat.le_refl _)
      rw [List.take_length] at e1
      -- the character of `c ++ [x]` at position |e| is one byte
      have hlt : e.length < (c ++ [x]).length := by simp; omega
      have hy := h3 e.length
      have : (c ++ [x]).take (e.length + 1) = (c ++ [x]).take e.length ++ [(c ++ [x])[e.length]] := by
        rw [List.take_succ_eq_append_getElem hlt]
      rw [this, ulen_append, List.take_append_of_le_length h1, ← e1]
      congr 1
      symm
      apply ulen_single
      by_cases hc : e.length < c.length
      · rw [List.getElem_append_left hc]
        exact h3 e.length _ (Nat.le_refl _) (List.getElem?_eq_getElem hc)
      · rw [List.getElem_append_right (by omega)]
        simp; exact hx
  · simp only [List.length_append, List.length_cons, List.length_nil] at g1
    by_cases hj : j < c.length
    · rw [List.getElem?_append_left hj] at g2; exact h3 j y (by omega) g2
    · rw [List.getElem?_append_right (by omega)] at g2
      have : j - c.length = 0 := by
        cases hjc : j - c.length with
        | zero => rfl
        | succ k => rw [hjc] at g2; simp at g2
      rw [this] at g2; simp at g2; omega


theorem scanQuoted_spec (q need : Nat) : ∀ (run : Nat) (r acc acc' r' : List Nat),
    scanQuoted q need run r acc = some (acc', r') → ∃ mid, r = mid ++ r' ∧ acc' = mid.reverse ++ acc := by
  intro run r
  induction r generalizing run with
  | nil => intro acc acc' r' h; simp [scanQuoted] at h
  | cons c r ih =>
    intro acc acc' r' h
    rw [scanQuoted] at h
    split at h
    · split at h
      · simp only [Option.some.injEq, Prod.mk.injEq] at h
        obtain ⟨rfl, rfl⟩ := h
        exact ⟨[c], by simp, by simp⟩
      · obtain ⟨mid, rfl, rfl⟩ := ih _ _ _ _ h
        exact ⟨c :: mid, by simp, by simp⟩
    · obtain ⟨mid, rfl, rfl⟩ := ih _ _ _ _ h
      exact ⟨c :: mid, by simp, by simp⟩

/-- which steps `scanField` may still take -/
def SMode (st : FieldState) (consumed rest : List Nat) : Prop :=
  st.expr.reverse = consumed ∨ st.selfDoc = true ∨
    (st.delims = [] ∧ (rest.head? = some 125 ∨ rest.head? = some 58))

theorem sf_finish {consumed taken rest' r : List Nat} {P : List Nat → Prop}
    (h : ∃ c' x, (consumed ++ taken) ++ rest' = c' ++ x :: r ∧ x < 128 ∧ P c') :
    ∃ c' x, consumed ++ (taken ++ rest') = c' ++ x :: r ∧ x < 128 ∧ P c' := by
  simpa [List.append_assoc] using h

theorem sinv_take {e c : List Nat} {x : Nat} (h : SInv e c) (hx : e = c ∨ x < 128) : SInv (e ++ [x]) (c ++ [x]) := by
  rcases hx with rfl | hx
  · exact sinv_refl _
  · exact sinv_both hx h

theorem scanField_inv (fuel : Nat) (st : FieldState) (rest : List Nat) :
    ∀ (consumed : List Nat) (st' : FieldState) (stop : FieldStop) (r : List Nat),
    scanField fuel st rest = some (st', stop, r) → SInv st.expr.reverse consumed → SMode st consumed rest →
    ∃ consumed' c, consumed ++ rest = consumed' ++ c :: r ∧ c < 128 ∧ SInv st'.expr.reverse consumed' := by
  fun_induction scanField fuel st rest <;> intro consumed st' stop r h hI hM
  all_goals (try (cases h; done))
  case case12 =>
    simp only [Option.some.injEq, Prod.mk.injEq] at h
    obtain ⟨rfl, _, rfl⟩ := h
    rename_i hc _
    exact ⟨consumed, _, rfl, by omega, hI⟩
  case case21 =>
    simp only [Option.some.injEq, Prod.mk.injEq] at h
    obtain ⟨rfl, _, rfl⟩ := h
    rename_i hc _
    exact ⟨consumed, _, rfl, by omega, hI⟩
  case case13 ih =>
    rename_i ch rest _ _ _ _ _ _
    refine sf_finish (taken := [ch]) (ih (consumed ++ [ch]) _ _ _ h ?_ ?_)
    · simp only [List.reverse_cons]
      refine sinv_take hI ?_
      rcases hM with hM | hM | ⟨hd, hh⟩
      · exact Or.inl hM
      · simp_all
      · simp_all
    · rcases hM with hM | hM | ⟨hd, hh⟩
      · left; simp [hM]
      · simp_all
      · simp_all
  case case3 ih =>
    rename_i ch rest _ hc
    have hch : ch < 128 := by omega
    have hc2 : rest.head? = some 61 := hc.2
    obtain ⟨rest', rfl⟩ : ∃ rest', rest = 61 :: rest' := by
      cases rest with
      | nil => simp at hc2
      | cons x rest' => simp at hc2; subst hc2; exact ⟨rest', rfl⟩
    refine sf_finish (taken := [ch, 61]) (ih (consumed ++ [ch, 61]) _ _ _ h ?_ ?_)
    · simp only [List.reverse_cons, List.append_assoc]
      have := sinv_both (x := 61) (by omega) (sinv_both hch hI)
      simpa using this
    · rcases hM with hM | hM | ⟨hd, hh⟩
      · left; simp [hM]
      · right; left; exact hM
      · simp at hh; omega
  case case5 ih =>
    rename_i ch _ _ c r2 _ _ _ _
    refine sf_finish (taken := [ch, c]) (ih (consumed ++ [ch, c]) _ _ _ h ?_ ?_)
    · have := sinv_right (x := c) (by omega) (sinv_right (x := ch) (by omega) hI)
      simpa using this
    · right; right; simp_all
  case case6 ih =>
    rename_i ch _ _ c r2 _ _ _ _
    refine sf_finish (taken := [ch, c]) (ih (consumed ++ [ch, c]) _ _ _ h ?_ ?_)
    · have := sinv_right (x := c) (by omega) (sinv_right (x := ch) (by omega) hI)
      simpa using this
    · right; right; simp_all
  case case10 ih =>
    rename_i ch rest _ _ _ _
    refine sf_finish (taken := [ch]) (ih (consumed ++ [ch]) _ _ _ h ?_ ?_)
    · exact sinv_right (by omega) hI
    · right; left; rfl
  case case28 ih =>
    rename_i ch rest _ _ _ _ _ _ _ _ _ _ _ hc
    refine sf_finish (taken := [ch]) (ih (consumed ++ [ch]) _ _ _ h ?_ ?_)
    · exact sinv_right (by omega) hI
    · right; left; exact hc.2
  case case14 ih =>
    refine sf_finish (taken := [41]) (ih (consumed ++ [41]) _ _ _ h ?_ ?_)
    · simp only [List.reverse_cons]
      exact sinv_both (by omega) hI
    · rcases hM with hM | hM | ⟨hd, hh⟩
      · left; simp_all
      · right; left; exact hM
      · simp_all
  case case16 ih =>
    refine sf_finish (taken := [93]) (ih (consumed ++ [93]) _ _ _ h ?_ ?_)
    · simp only [List.reverse_cons]
      exact sinv_both (by omega) hI
    · rcases hM with hM | hM | ⟨hd, hh⟩
      · left; simp_all
      · right; left; exact hM
      · simp_all
  case case18 ih =>
    refine sf_finish (taken := [_]) (ih (consumed ++ [_]) _ _ _ h ?_ ?_)
    · simp only [List.reverse_cons]
      exact sinv_both (by omega) hI
    · rcases hM with hM | hM | ⟨hd, hh⟩
      · left; simp_all
      · right; left; exact hM
      · simp_all
  case case31 ih =>
    refine sf_finish (taken := [_]) (ih (consumed ++ [_]) _ _ _ h ?_ ?_)
    · simp only [List.reverse_cons]
      refine sinv_take hI ?_
      rcases hM with hM | hM | ⟨hd, hh⟩
      · exact Or.inl hM
      · simp_all
      · simp_all
    · rcases hM with hM | hM | ⟨hd, hh⟩
      · left; simp [hM]
      · simp_all
      · simp_all
  all_goals (try (simp_all; done))
  case case22 ih =>
    rename_i ch _ _ _ _ _ _ _ _ _ c1 c2 r2 hcc acc r0 hsq _ _
    obtain ⟨mid, hmid, hacc⟩ := scanQuoted_spec _ _ _ _ _ _ _ hsq
    rcases hM with hM | hM | ⟨hd, hh⟩
    rotate_left
    · exfalso; simp_all
    · first | (exfalso; simp_all; done) | (exfalso; simp_all; omega)
    obtain ⟨h1, h2⟩ := hcc
    subst h1; subst h2
    have e1 : acc.reverse = consumed ++ (c2 :: c2 :: c2 :: mid) := by simp [hacc, ← hM]
    have := ih (consumed ++ (c2 :: c2 :: c2 :: mid)) _ _ _ h (by simp only [e1]; exact sinv_refl _) (Or.inl e1)
    obtain ⟨c', x, g1, g2, g3⟩ := this
    exact ⟨c', x, by rw [← g1, hmid]; simp, g2, g3⟩
  case case24 ih =>
    rename_i ch _ _ _ _ _ _ _ _ _ c1 c2 r2 hcc acc r0 _ _ hsq
    obtain ⟨mid, hmid, hacc⟩ := scanQuoted_spec _ _ _ _ _ _ _ hsq
    rcases hM with hM | hM | ⟨hd, hh⟩
    rotate_left
    · exfalso; simp_all
    · first | (exfalso; simp_all; done) | (exfalso; simp_all; omega)
    rw [hsq] at h
    have e1 : acc.reverse = consumed ++ (ch :: mid) := by simp [hacc, ← hM]
    have := ih (consumed ++ (ch :: mid)) _ _ _ h (by simp only [e1]; exact sinv_refl _) (Or.inl e1)
    obtain ⟨c', x, g1, g2, g3⟩ := this
    exact ⟨c', x, by rw [← g1, hmid]; simp, g2, g3⟩
  case case26 ih =>
    rename_i ch rest _ _ _ _ _ _ _ _ _ _ _ acc r0 hsq _
    obtain ⟨mid, hmid, hacc⟩ := scanQuoted_spec _ _ _ _ _ _ _ hsq
    rcases hM with hM | hM | ⟨hd, hh⟩
    rotate_left
    · exfalso; simp_all
    · first | (exfalso; simp_all; done) | (exfalso; simp_all; omega)
    rw [hsq] at h
    have e1 : acc.reverse = consumed ++ (ch :: mid) := by simp [hacc, ← hM]
    have := ih (consumed ++ (ch :: mid)) _ _ _ h (by simp only [e1]; exact sinv_refl _) (Or.inl e1)
    obtain ⟨c', x, g1, g2, g3⟩ := this
    exact ⟨c', x, by rw [← g1, hmid]; simp, g2, g3⟩


/-- **Prefix / offset lemma for `scanField`.**  If the field scanner, started behind the opening brace on `cs`, stops
    with the expression text `st.expr.reverse` and the rest `r`: the text is at most as long as what was consumed in
    front of the stop character; at every character position of the text the byte offset is the byte offset of the same
    character position of `cs` (the text is the source slice at offset 0 of `cs`, up to one-byte characters — `=`,
    blanks, `!r` — that the scanner skips behind it and the comparison operators it may still append); the character of
    `cs` right behind the text is a one-byte character; and `r` is a suffix of `cs`. -/
theorem scanField_cut {fuel : Nat} {cs : List Nat} {st : FieldState} {stop : FieldStop} {r : List Nat}
    (h : scanField fuel {} cs = some (st, stop, r)) :
    st.expr.length + 1 + r.length ≤ cs.length ∧
    (∀ i, i ≤ st.expr.length → ulen (st.expr.reverse.take i) = ulen (cs.take i)) ∧
    (∃ x, cs[st.expr.length]? = some x ∧ x < 128) ∧ r <:+ cs := by
  obtain ⟨consumed, c, e1, e2, h1, h2, h3⟩ :=
    scanField_inv fuel {} cs [] st stop r h (sinv_refl _) (Or.inl rfl)
  simp only [List.nil_append, List.length_reverse] at e1 h1 h2 h3
  subst e1
  refine ⟨by simp; omega, fun i hi => ?_, ?_, ⟨consumed ++ [c], by simp⟩⟩
  · rw [h2 i hi, List.take_append_of_le_length (by omega)]
  · by_cases hlt : st.expr.length < consumed.length
    · refine ⟨consumed[st.expr.length], ?_, h3 _ _ (Nat.le_refl _) (List.getElem?_eq_getElem hlt)⟩
      rw [List.getElem?_append_left hlt, List.getElem?_eq_getElem hlt]
    · have : st.expr.length = consumed.length := by omega
      exact ⟨c, by rw [this]; simp, e2⟩


theorem ulen_take_succ {l : List Nat} {n : Nat} {x : Nat} (h : l[n]? = some x) :
    ulen (l.take (n + 1)) = ulen (l.take n) + usize x := by
  have hlt : n < l.length := by
    rcases Nat.lt_or_ge n l.length with h' | h'
    · exact h'
    · rw [List.getElem?_eq_none h'] at h; cases h
  rw [List.take_succ_eq_append_getElem hlt, ulen_append]
  rw [List.getElem?_eq_getElem hlt] at h
  simp only [Option.some.injEq] at h
  rw [h]; simp [ulen]

/-- the wrapped expression text `"(" ++ text ++ ")"` has, at every character position, the byte offset of the source
    window `"{" ++ cs.take (|text| + 1)` -/
theorem field_offsets {cs text : List Nat} (hlen : text.length + 1 ≤ cs.length)
    (hoff : ∀ i, i ≤ text.length → ulen (text.take i) = ulen (cs.take i))
    (hnx : ∃ x, cs[text.length]? = some x ∧ x < 128) :
    ∀ i, i ≤ (40 :: (text ++ [41])).length →
      ulen ((40 :: (text ++ [41])).take i) = ulen ((123 :: cs).take i) := by
  intro i hi
  simp only [List.length_cons, List.length_append, List.length_nil] at hi
  cases i with
  | zero => simp [ulen]
  | succ k =>
    simp only [List.take_succ_cons, ulen]
    have u1 : usize 40 = 1 := by decide
    have u2 : usize 123 = 1 := by decide
    rw [u1, u2]
    congr 1
    by_cases hk : k ≤ text.length
    · rw [List.take_append_of_le_length hk]; exact hoff k hk
    · have hk' : k = text.length + 1 := by omega
      subst hk'
      obtain ⟨x, hx, hx128⟩ := hnx
      rw [List.take_of_length_le (by simp), ulen_append, ulen_take_succ hx]
      have := hoff text.length (Nat.le_refl _)
      rw [List.take_length] at this
      rw [this]
      have : usize x = 1 := by simp [usize]; omega
      rw [this]; simp [ulen, usize]

/-- **The span table of a replacement field lies inside the field's window of the source** (`Tiled`-like hypothesis of
    the soundness induction for the recursive `parseRTop (fieldTab …)` call).  `whole` is the value of the f-string
    token, `Aligned src base whole`: its characters sit at `base` in `src` (what `FTied` says of a token);
    the field starts behind the brace at `pre ++ [123]`, `cs` is what follows, `scanField` cuts the expression text
    `st.expr.reverse` out of `cs`.  Then `fieldTab loc text` with `loc` the position the model computes
    (`posIn base whole cs.length`) is a tiled span table of `src` for the tokens of `"(" ++ text ++ ")"`, and every
    span lies in the window from the opening brace to the end of the token value:
    `[base + ulen pre, base + ulen whole]` — in particular inside the string token. -/
theorem fieldTab_within_field {src : List Nat} {base : Nat} {whole pre cs : List Nat} {st : FieldState}
    {stop : FieldStop} {r : List Nat} {fuel : Nat} (hA : Aligned src base whole) (hw : whole = pre ++ 123 :: cs)
    (hs : scanField fuel {} cs = some (st, stop, r)) :
    let text := st.expr.reverse
    let loc := posIn base whole cs.length
    let sp := lexSpans (loc - 1) (40 :: (text ++ [41]))
    TiledTab src (fieldTab loc text) sp.length ∧
    ∀ p ∈ sp, base + ulen pre ≤ p.1 ∧ p.2 ≤ base + ulen whole - ulen r := by
  intro text loc sp
  obtain ⟨h1, h2, h3, h4⟩ := scanField_cut hs
  have hloc : loc - 1 = base + ulen pre := by
    show posIn base whole cs.length - 1 = _
    unfold posIn
    subst hw
    have : (pre ++ 123 :: cs).length - cs.length = (pre ++ [123]).length := by simp; omega
    rw [this, show pre ++ 123 :: cs = (pre ++ [123]) ++ cs by simp, List.take_left, ulen_append]
    simp [ulen, usize]
  have htl : text.length = st.expr.length := by simp [text]
  have hoffs := field_offsets (cs := cs) (text := text) (by omega) (by rw [htl]; exact h2) (by rw [htl]; exact h3)
  have hal : Aligned src (loc - 1) (40 :: (text ++ [41])) := by
    intro i hi
    rw [hloc, hoffs i hi]
    have hi' : i ≤ text.length + 2 := by simpa using hi
    have := hA (pre.length + i) (by subst hw; simp; omega)
    have e : ulen (whole.take (pre.length + i)) = ulen pre + ulen ((123 :: cs).take i) := by
      subst hw
      rw [List.take_append, ulen_append, List.take_of_length_le (by omega)]
      simp
    rw [e] at this
    simpa [Nat.add_assoc] using this
  obtain ⟨T, hin⟩ := tiledTab_of_aligned hal
  refine ⟨T, fun p hp => ?_⟩
  obtain ⟨g1, g2⟩ := hin p hp
  refine ⟨by omega, ?_⟩
  have e2 := hoffs (text.length + 2) (by simp)
  rw [List.take_of_length_le (by simp)] at e2
  rw [e2, hloc] at g2
  -- the window `{` ++ cs.take (|text| + 1) ends in front of `r`
  obtain ⟨mid, hmid⟩ := h4
  have hlen : mid.length = cs.length - r.length := by rw [← hmid]; simp
  have hle : text.length + 2 ≤ (123 :: mid).length := by simp; omega
  have e3 : (123 :: cs).take (text.length + 2) = (123 :: mid).take (text.length + 2) := by
    rw [← hmid, show 123 :: (mid ++ r) = (123 :: mid) ++ r by simp, List.take_append_of_le_length hle]
  have e4 := ulen_take_mono (123 :: mid) (i := text.length + 2) (j := (123 :: mid).length) hle
  rw [List.take_length] at e4
  have e5 : ulen whole = ulen pre + ulen (123 :: mid) + ulen r := by
    subst hw; rw [← hmid, show pre ++ 123 :: (mid ++ r) = pre ++ (123 :: mid) ++ r by simp, ulen_append, ulen_append]
  rw [e3] at g2
  omega

end PV.C02
