import PV.C02.FStrThm
/-
  PV.C02.FStrBody — the f-string step of the soundness induction, one level deep:

  * `bodyAt`: the mutual induction over `fstrRBody` / `fstrRField` / `fstrRSpec` (string.rs `parse_fstring`,
    `parse_formatted_value`, `parse_spec`): for an f-string token tied to the source (`FCtx`: value aligned at `base`,
    inside the token span `lit`), every piece returned that is covered by `fpiece` — constants, `FormattedValue`s with a
    `plain` value (by `field_value_res`) and a format spec made of such pieces — satisfies `Res src lit.1 lit.2`;
    every cursor stays a suffix of the token value;
  * `pieces_fstr`, `dedup_mem`: `parseRStringPieces` / `dedupRPieces` over a run of string tokens (`FTieA`);
  * `strings_res_fstr1`: what `parseRStrings` returns at a tied cursor (`FTie`) is fine inside the window of the tokens
    consumed — the `JoinedStr` case that `sstep_strings` leaves to `plain`.
-/
set_option linter.unusedSimpArgs false
set_option linter.unusedVariables false
namespace PV.C02
open PV.Expr PV.C11

theorem hexEscape_suf : ∀ (n : Nat) (rest : List Nat) (acc v : Nat) (r : List Nat),
    hexEscape n rest acc = some (v, r) → r <:+ rest
  | 0, rest, acc, v, r, h => by
    simp only [hexEscape] at h
    repeat' split at h
    all_goals (first | (cases h; done) | (simp only [Option.some.injEq, Prod.mk.injEq] at h; rw [← h.2]; exact List.suffix_refl _))
  | n + 1, [], acc, v, r, h => by simp [hexEscape] at h
  | n + 1, c :: rest, acc, v, r, h => by
    simp only [hexEscape] at h
    split at h
    · exact (hexEscape_suf n rest _ v r h).trans (List.suffix_cons _ _)
    · cases h

theorem fstrEscape_suf {cs : List Nat} {out r : List Nat} (h : fstrEscape cs = some (out, r)) : r <:+ cs := by
  unfold fstrEscape at h
  split at h
  · cases h
  · rename_i c rest
    have fin : ∀ {o : List Nat}, some (o, rest) = some (out, r) → r <:+ c :: rest := by
      intro o hh
      simp only [Option.some.injEq, Prod.mk.injEq] at hh
      rw [← hh.2]; exact List.suffix_cons _ _
    have hex : ∀ {n : Nat}, (hexEscape n rest 0).map (fun (x : Nat × List Nat) => ([x.1], x.2)) = some (out, r) →
        r <:+ c :: rest := by
      intro n hh
      obtain ⟨⟨v, r'⟩, hh1, he⟩ := map_some_inv' hh
      simp only [Prod.mk.injEq] at he
      rw [← he.2]
      exact (hexEscape_suf _ _ _ _ _ hh1).trans (List.suffix_cons _ _)
    by_cases h92 : c = 92
    · rw [if_pos h92] at h; exact fin h
    rw [if_neg h92] at h
    by_cases h39 : c = 39
    · rw [if_pos h39] at h; exact fin h
    rw [if_neg h39] at h
    by_cases h34 : c = 34
    · rw [if_pos h34] at h; exact fin h
    rw [if_neg h34] at h
    by_cases h97 : c = 97
    · rw [if_pos h97] at h; exact fin h
    rw [if_neg h97] at h
    by_cases h98 : c = 98
    · rw [if_pos h98] at h; exact fin h
    rw [if_neg h98] at h
    by_cases h102 : c = 102
    · rw [if_pos h102] at h; exact fin h
    rw [if_neg h102] at h
    by_cases h110 : c = 110
    · rw [if_pos h110] at h; exact fin h
    rw [if_neg h110] at h
    by_cases h114 : c = 114
    · rw [if_pos h114] at h; exact fin h
    rw [if_neg h114] at h
    by_cases h116 : c = 116
    · rw [if_pos h116] at h; exact fin h
    rw [if_neg h116] at h
    by_cases h118 : c = 118
    · rw [if_pos h118] at h; exact fin h
    rw [if_neg h118] at h
    by_cases hoct : isOct c = true
    · rw [if_pos hoct] at h
      repeat' split at h
      all_goals (simp only [Option.some.injEq, Prod.mk.injEq] at h; rw [← h.2]
                 grind [List.suffix_cons, List.IsSuffix.trans, List.suffix_refl])
    rw [if_neg hoct] at h
    by_cases h120 : c = 120
    · rw [if_pos h120] at h; exact hex h
    rw [if_neg h120] at h
    by_cases h117 : c = 117
    · rw [if_pos h117] at h; exact hex h
    rw [if_neg h117] at h
    by_cases h85 : c = 85
    · rw [if_pos h85] at h; exact hex h
    rw [if_neg h85] at h
    by_cases h78 : c = 78
    · rw [if_pos h78] at h; cases h
    rw [if_neg h78] at h
    split at h <;> exact fin h


/-! ### pieces of an f-string literal -/

mutual
/-- a piece of an f-string literal the one-level theorem covers: constants, and `FormattedValue`s whose value is `plain`
    (no f-string nested inside the replacement field) and whose format spec consists of such pieces -/
def fpiece : RExpr → Bool
  | .const _ _ => true
  | .formattedValue _ v _ spec => plain v && fpieceO spec
  | .joinedStr _ vs => fpieceL vs
  | _ => false
def fpieceL : List RExpr → Bool
  | [] => true
  | e :: es => fpiece e && fpieceL es
def fpieceO : Option RExpr → Bool
  | none => true
  | some e => fpiece e
end

theorem fpieceL_mem : ∀ {vs : List RExpr}, fpieceL vs = true → ∀ p ∈ vs, fpiece p = true
  | [], _, p, hp => by cases hp
  | e :: es, h, p, hp => by
    simp only [fpieceL, Bool.and_eq_true] at h
    simp only [List.mem_cons] at hp
    rcases hp with rfl | hp
    · exact h.1
    · exact fpieceL_mem h.2 p hp

theorem fpieceL_append {a b : List RExpr} : fpieceL (a ++ b) = (fpieceL a && fpieceL b) := by
  induction a with
  | nil => simp [fpieceL]
  | cons x xs ih => simp [fpieceL, ih, Bool.and_assoc]

theorem exempt_joined : exemptOrder "ExprJoinedStr" "values" = true := by decide

theorem sibsOk_joined : ∀ vs : List RExpr, sibsOk "ExprJoinedStr" (toTrees "values" vs) = true
  | [] => by simp [toTrees, sibsOk]
  | [e] => by simp [toTrees, sibsOk]
  | e1 :: e2 :: es => by
    have ih := sibsOk_joined (e2 :: es)
    simp only [toTrees] at ih ⊢
    simp only [sibsOk, Tree.slot, exempt_joined, ih]
    simp

theorem okList_pieces {src : List Nat} {a b : Nat} (s : String) : ∀ vs : List RExpr,
    (∀ p ∈ vs, Res src a b p) → okList src (some (a, b)) (toTrees s vs) = true
  | [], _ => by simp [toTrees, okList]
  | e :: es, h => by
    simp only [toTrees, okList, Bool.and_eq_true]
    exact ⟨(h e (by simp)).toOk s true a b (Nat.le_refl _) (Nat.le_refl _),
      okList_pieces s es (fun p hp => h p (by simp [hp]))⟩

/-- the context of one f-string literal: its token span `lit`, the position `base` of its value `whole` -/
structure FCtx (src : List Nat) (lit : Rg) (base : Nat) (whole : List Nat) : Prop where
  al : Aligned src base whole
  own : rgOk src lit
  lo : lit.1 ≤ base
  hi : base + ulen whole ≤ lit.2

/-- every covered piece of the list is fine below the literal's span -/
def PcsOk (src : List Nat) (lit : Rg) (vs : List RExpr) : Prop := ∀ p ∈ vs, fpiece p = true → Res src lit.1 lit.2 p

theorem pcsOk_nil {src lit} : PcsOk src lit [] := fun p hp => by cases hp

theorem pcsOk_append {src lit} {a b : List RExpr} (ha : PcsOk src lit a) (hb : PcsOk src lit b) :
    PcsOk src lit (a ++ b) := fun p hp => by
  rcases List.mem_append.mp hp with h | h
  · exact ha p h
  · exact hb p h

theorem res_const_lit {src : List Nat} {lit : Rg} (h : rgOk src lit) (c : Const) :
    Res src lit.1 lit.2 (.const lit c) :=
  ⟨h, Nat.le_refl _, Nat.le_refl _, by simp [RExpr.kind, RExpr.children, sibsOk], by simp [RExpr.children, okList]⟩

theorem pcsOk_const {src lit} (h : rgOk src lit) (b : Bool) (c : Const) :
    PcsOk src lit (if b then [] else [.const lit c]) := by
  intro p hp _
  split at hp
  · cases hp
  · simp only [List.mem_cons, List.not_mem_nil, or_false] at hp
    subst hp; exact res_const_lit h c

/-- a `JoinedStr` of covered pieces ranged like the literal is fine below it (format specs) -/
theorem res_joined_lit {src : List Nat} {lit : Rg} (h : rgOk src lit) {vs : List RExpr} (hv : PcsOk src lit vs)
    (hf : fpieceL vs = true) : Res src lit.1 lit.2 (.joinedStr lit vs) := by
  refine ⟨h, Nat.le_refl _, Nat.le_refl _, ?_, ?_⟩
  · simp only [RExpr.kind, RExpr.children]; exact sibsOk_joined vs
  · simp only [RExpr.children, RExpr.range]
    exact okList_pieces "values" vs (fun p hp => hv p hp (fpieceL_mem hf p hp))

/-- a `FormattedValue`: value fine in a window inside the literal, spec a `JoinedStr` of pieces -/
theorem res_formatted {src : List Nat} {lit : Rg} (h : rgOk src lit) {a b : Nat} {value : RExpr} {conv : Conv}
    {spec : Option RExpr} (hv : plain value = true → Res src a b value) (ha : lit.1 ≤ a) (hb : b ≤ lit.2)
    (hs : ∀ s, spec = some s → ∃ vs, s = .joinedStr lit vs ∧ PcsOk src lit vs) :
    fpiece (.formattedValue lit value conv spec) = true → Res src lit.1 lit.2 (.formattedValue lit value conv spec) := by
  intro hf
  simp only [fpiece, Bool.and_eq_true] at hf
  have hval := hv hf.1
  refine ⟨h, Nat.le_refl _, Nat.le_refl _, ?_, ?_⟩
  · simp only [RExpr.kind, RExpr.children]
    rw [sibsOk_cons_notList _ _ _ rfl]
    cases spec with
    | none => simp [optTree, sibsOk]
    | some s => simp [optTree, sibsOk]
  · simp only [RExpr.children, RExpr.range, okList, Bool.and_eq_true]
    refine ⟨hval.toOk "value" false lit.1 lit.2 ha hb, ?_⟩
    cases spec with
    | none => simp [optTree, okList]
    | some s =>
      obtain ⟨vs, rfl, hvs⟩ := hs s rfl
      simp only [fpieceO, fpiece] at hf
      have := res_joined_lit h hvs hf.2
      simp only [optTree, okList, Bool.and_true]
      exact this.toOk "format_spec" false lit.1 lit.2 (Nat.le_refl _) (Nat.le_refl _)


/-! ### the induction over `fstrRBody` / `fstrRField` / `fstrRSpec` -/

structure BodyAt (src : List Nat) (lit : Rg) (base : Nat) (whole : List Nat) (raw : Bool) (f : Nat) : Prop where
  body : ∀ nested cs content vs r, cs <:+ whole → fstrRBody f lit base whole raw nested cs content = some (vs, r) →
    r <:+ whole ∧ PcsOk src lit vs
  field : ∀ nested cs vs r, (123 :: cs) <:+ whole → fstrRField f lit base whole raw nested cs = some (vs, r) →
    r <:+ whole ∧ PcsOk src lit vs
  spec : ∀ nested cs piece vs r, cs <:+ whole → fstrRSpec f lit base whole raw nested cs piece = some (vs, r) →
    r <:+ whole ∧ PcsOk src lit vs

variable {src : List Nat} {lit : Rg} {base : Nat} {whole : List Nat} {raw : Bool}

theorem suf_tail {α} {x : α} {r ts : List α} (h : (x :: r) <:+ ts) : r <:+ ts :=
  (List.suffix_cons x r).trans h

theorem suf_drop1 {α} {r ts : List α} (h : r <:+ ts) : r.drop 1 <:+ ts := (List.drop_suffix 1 r).trans h

def BelowB (src : List Nat) (lit : Rg) (base : Nat) (whole : List Nat) (raw : Bool) (n : Nat) : Prop :=
  ∀ f, n = f + 1 → BodyAt src lit base whole raw f

theorem body_step_body (C : FCtx src lit base whole) {n : Nat} (ih : BelowB src lit base whole raw n) :
    ∀ nested cs content vs r, cs <:+ whole → fstrRBody n lit base whole raw nested cs content = some (vs, r) →
    r <:+ whole ∧ PcsOk src lit vs := by
  intro nested cs content vs r hsuf
  fun_cases fstrRBody n lit base whole raw nested cs content
  all_goals intro h
  all_goals (try (cases h; done))
  all_goals (first
    | exact (ih _ rfl).body _ _ _ _ _ (suf_drop1 (suf_tail hsuf)) h
    | exact (ih _ rfl).body _ _ _ _ _ (suf_tail hsuf) h
    | exact (ih _ rfl).body _ _ _ _ _ ((fstrEscape_suf (by assumption)).trans (suf_tail hsuf)) h
    | (simp only [Option.some.injEq, Prod.mk.injEq] at h
       obtain ⟨rfl, rfl⟩ := h
       exact ⟨hsuf, pcsOk_const C.own _ _⟩)
    | skip)
  case case6 =>
    rename_i hf hb
    obtain ⟨s1, p1⟩ := (ih _ rfl).field _ _ _ _ hsuf hf
    obtain ⟨s2, p2⟩ := (ih _ rfl).body _ _ _ _ _ s1 hb
    simp only [Option.some.injEq, Prod.mk.injEq] at h
    obtain ⟨rfl, rfl⟩ := h
    exact ⟨s2, pcsOk_append (pcsOk_append (pcsOk_const C.own _ _) p1) p2⟩
  case case14 =>
    rename_i hx _ _ _ _
    rw [hx] at h
    exact (ih _ rfl).body _ _ _ _ _ ((fstrEscape_suf hx).trans (suf_tail hsuf)) h
  case case15 =>
    rename_i hx _ _ _ _
    rw [hx] at h
    cases h


theorem body_step_spec (C : FCtx src lit base whole) {n : Nat} (ih : BelowB src lit base whole raw n) :
    ∀ nested cs piece vs r, cs <:+ whole → fstrRSpec n lit base whole raw nested cs piece = some (vs, r) →
    r <:+ whole ∧ PcsOk src lit vs := by
  intro nested cs piece vs r hsuf
  fun_cases fstrRSpec n lit base whole raw nested cs piece
  all_goals intro h
  all_goals (try (cases h; done))
  all_goals (first
    | exact (ih _ rfl).spec _ _ _ _ _ (suf_tail hsuf) h
    | (simp only [Option.some.injEq, Prod.mk.injEq] at h
       obtain ⟨rfl, rfl⟩ := h
       exact ⟨hsuf, pcsOk_const C.own _ _⟩)
    | skip)
  case case3 =>
    rename_i hs hb
    obtain ⟨s1, p1⟩ := (ih _ rfl).body _ _ _ _ _ hsuf hb
    obtain ⟨s2, p2⟩ := (ih _ rfl).spec _ _ _ _ _ s1 hs
    simp only [Option.some.injEq, Prod.mk.injEq] at h
    obtain ⟨rfl, rfl⟩ := h
    exact ⟨s2, pcsOk_append (pcsOk_append (pcsOk_const C.own _ _) p1) p2⟩
  case case9 =>
    rename_i hx _ _ _
    rw [hx] at h
    exact (ih _ rfl).spec _ _ _ _ _ ((fstrEscape_suf hx).trans (suf_tail hsuf)) h
  case case10 =>
    rename_i hx _ _ _
    rw [hx] at h
    cases h

theorem body_step_field (C : FCtx src lit base whole) {n : Nat} (ih : BelowB src lit base whole raw n) :
    ∀ nested cs vs r, (123 :: cs) <:+ whole → fstrRField n lit base whole raw nested cs = some (vs, r) →
    r <:+ whole ∧ PcsOk src lit vs := by
  intro nested cs vs r hsuf h
  cases n with
  | zero => simp [fstrRField] at h
  | succ f =>
    rw [fstrRField] at h
    cases hs : scanField (cs.length + 1) {} cs with
    | none => rw [hs] at h; cases h
    | some p =>
      obtain ⟨st, stop, r0⟩ := p
      rw [hs] at h
      simp only at h
      obtain ⟨_, _, _, hr0⟩ := scanField_cut hs
      have hr0w : r0 <:+ whole := hr0.trans (suf_tail hsuf)
      obtain ⟨pre, hpre⟩ := hsuf
      -- the format spec
      have hspec : ∀ spec r', (match stop with
          | FieldStop.close => some (none, r0)
          | FieldStop.spec =>
            match fstrRSpec f lit base whole raw nested r0 [] with
            | some (vs, 125 :: r') => some (some (RExpr.joinedStr lit vs), r')
            | x => none) = some (spec, r') →
          r' <:+ whole ∧ ∀ s, spec = some s → ∃ vs, s = .joinedStr lit vs ∧ PcsOk src lit vs := by
        intro spec r' hh
        cases stop with
        | close =>
          simp only [Option.some.injEq, Prod.mk.injEq] at hh
          obtain ⟨rfl, rfl⟩ := hh
          exact ⟨hr0w, fun s hs' => by cases hs'⟩
        | spec =>
          simp only at hh
          split at hh
          · rename_i vs' r'' hsp
            simp only [Option.some.injEq, Prod.mk.injEq] at hh
            obtain ⟨rfl, rfl⟩ := hh
            obtain ⟨s1, p1⟩ := (ih _ rfl).spec _ _ _ _ _ hr0w hsp
            exact ⟨suf_tail s1, fun s hs' => by cases hs'; exact ⟨vs', rfl, p1⟩⟩
          · cases hh
      split at h
      · cases h
      · rename_i spec r' hsr
        obtain ⟨hr', hsp⟩ := hspec spec r' hsr
        split at h
        · cases h
        · rename_i tks hl
          split at h
          · cases h
          · rename_i value hv
            have hval : plain value = true → Res src (base + ulen pre) (base + ulen whole - ulen r0) value :=
              fun hp => field_value_res C.al hpre.symm hs hl hv hp
            have hlo := C.lo
            have hhi := C.hi
            split at h
            · simp only [Option.some.injEq, Prod.mk.injEq] at h
              obtain ⟨rfl, rfl⟩ := h
              refine ⟨hr', fun p hp hf => ?_⟩
              simp only [List.mem_cons, List.not_mem_nil, or_false] at hp
              subst hp
              exact res_formatted C.own hval (by omega) (by omega) hsp hf
            · simp only [Option.some.injEq, Prod.mk.injEq] at h
              obtain ⟨rfl, rfl⟩ := h
              refine ⟨hr', fun p hp hf => ?_⟩
              simp only [List.mem_cons, List.not_mem_nil, or_false] at hp
              rcases hp with rfl | rfl | rfl
              · exact res_const_lit C.own _
              · exact res_const_lit C.own _
              · exact res_formatted C.own hval (by omega) (by omega) hsp hf

theorem bodyAt (C : FCtx src lit base whole) : ∀ n, BodyAt src lit base whole raw n
  | 0 => ⟨body_step_body C (fun f h => absurd h (by omega)), body_step_field C (fun f h => absurd h (by omega)),
      body_step_spec C (fun f h => absurd h (by omega))⟩
  | n + 1 =>
    have b : BelowB src lit base whole raw (n + 1) := fun f h => by cases h; exact bodyAt C n
    ⟨body_step_body C b, body_step_field C b, body_step_spec C b⟩


/-! ### string tokens: `parseRStringPieces`, `dedupRPieces`, `parseRStrings` -/

/-- the value of an f-string token is the source text of the span `rg` -/
def tokTiedAt (src : List Nat) (rg : Rg) : Tok → Prop
  | .fstr _ triple raw body => fstrTied src rg triple raw body = true
  | _ => True

/-- cursor form of `FTied`: every f-string token of the cursor is tied to the span the table gives it -/
def FTie (src : List Nat) (σ : SpanTab) : List Tok → Prop
  | [] => True
  | t :: r => tokTiedAt src (σ (r.length + 1)) t ∧ FTie src σ r

/-- the same for a run of tokens followed by `after` more -/
def FTieA (src : List Nat) (σ : SpanTab) (after : Nat) : List Tok → Prop
  | [] => True
  | t :: r => tokTiedAt src (σ (r.length + 1 + after)) t ∧ FTieA src σ after r

theorem FTie.tail {σ : SpanTab} {t : Tok} {r : List Tok} (h : FTie src σ (t :: r)) : FTie src σ r := h.2

theorem FTie.suffix {σ : SpanTab} : ∀ {ts r : List Tok}, FTie src σ ts → r <:+ ts → FTie src σ r
  | [], r, _, hs => by
    have : r = [] := List.eq_nil_of_suffix_nil hs
    subst this; trivial
  | t :: ts, r, h, hs => by
    rcases List.suffix_cons_iff.mp hs with rfl | hs'
    · exact h
    · exact FTie.suffix h.2 hs'

theorem ftieA_of_ftie {σ : SpanTab} : ∀ (strs rest : List Tok), FTie src σ (strs ++ rest) →
    FTieA src σ rest.length strs
  | [], _, _ => trivial
  | t :: r, rest, h => by
    simp only [List.cons_append, FTie, List.length_append] at h
    exact ⟨by have := h.1; rwa [show r.length + rest.length + 1 = r.length + 1 + rest.length by omega] at this,
      ftieA_of_ftie r rest h.2⟩

/-- what the pieces of a run of string tokens look like: text, or a node that is fine inside `[lo, hi]` -/
def PieceItemsOk (src : List Nat) (lo hi : Nat) (ps : List (List Nat ⊕ RExpr)) : Prop :=
  ∀ e, Sum.inr e ∈ ps → fpiece e = true → Res src lo hi e

theorem pieceItems_map {lit : Rg} {lo hi : Nat} {vs : List RExpr} (h : PcsOk src lit vs) (h1 : lo ≤ lit.1)
    (h2 : lit.2 ≤ hi) : PieceItemsOk src lo hi (vs.map rexprToPiece) := by
  intro e he hf
  obtain ⟨v, hv, hve⟩ := List.mem_map.mp he
  have : v = e := by
    unfold rexprToPiece at hve
    split at hve
    · cases hve
    · simpa using hve
  subst this
  exact (h v hv hf).mono h1 h2

theorem pieces_fstr {σ : SpanTab} {N : Nat} (T : TiledTab src σ N) (lo hi : Nat) :
    ∀ (f after : Nat) (strs : List Tok) (ps : List (List Nat ⊕ RExpr)), strs.length + after ≤ N →
    FTieA src σ after strs → (∀ k, after + 1 ≤ k → k ≤ strs.length + after → lo ≤ (σ k).1 ∧ (σ k).2 ≤ hi) →
    parseRStringPieces σ f after strs = some ps → PieceItemsOk src lo hi ps := by
  intro f
  induction f with
  | zero => intro after strs ps _ _ _ h; simp [parseRStringPieces] at h
  | succ f ih =>
    intro after strs ps hN hT hw h
    cases strs with
    | nil =>
      simp only [parseRStringPieces, Option.some.injEq] at h
      subst h; intro e he; cases he
    | cons t r =>
      simp only [List.length_cons] at hN hw
      have ihr := fun ps' => ih after r ps' (by omega) hT.2 (fun k h1 h2 => hw k h1 (by omega))
      cases t with
      | str s u =>
        rw [parseRStringPieces] at h
        obtain ⟨ps', hp', rfl⟩ := map_some_inv' h
        intro e he hf
        simp only [List.mem_cons, reduceCtorEq, false_or] at he
        exact ihr ps' hp' e he hf
      | fstr q triple raw body =>
        rw [parseRStringPieces] at h
        split at h
        · rename_i vs hb
          obtain ⟨ps', hp', rfl⟩ := map_some_inv' h
          have htie : fstrTied src (σ (r.length + 1 + after)) triple raw body = true := hT.1
          obtain ⟨hal, hend⟩ := aligned_of_tied htie
          have hown := T.own (r.length + 1 + after) (by omega) (by omega)
          have C : FCtx src (σ (r.length + 1 + after))
              ((σ (r.length + 1 + after)).1 + (if raw then 2 else 1) + (if triple then 3 else 1)) body :=
            ⟨hal, hown, by omega, hend⟩
          obtain ⟨_, pv⟩ := (bodyAt (raw := raw) C f).body 0 body [] vs [] (List.suffix_refl _) hb
          have hwk := hw (r.length + 1 + after) (by omega) (by omega)
          have := pieceItems_map pv hwk.1 hwk.2
          intro e he hf
          rcases List.mem_append.mp he with he | he
          · exact this e he hf
          · exact ihr ps' hp' e he hf
        · cases h
      | _ => simp [parseRStringPieces] at h

theorem dedup_lift {A : Prop} {x : RExpr} {y : List Nat ⊕ RExpr} {r : List (List Nat ⊕ RExpr)}
    (h : A ∨ Sum.inr x ∈ r) : A ∨ Sum.inr x ∈ y :: r := h.imp id (List.mem_cons_of_mem _)

theorem dedup_mem (rg : Rg) (u : Bool) : ∀ (ps : List (List Nat ⊕ RExpr)) (cur : Option (List Nat)) (x : RExpr),
    x ∈ dedupRPieces rg u ps cur → (∃ c, x = .const rg c) ∨ Sum.inr x ∈ ps
  | [], none, x, h => by simp [dedupRPieces] at h
  | [], some c, x, h => by simp [dedupRPieces] at h; exact Or.inl ⟨_, h⟩
  | .inl s :: r, none, x, h => by
    simp only [dedupRPieces] at h
    split at h <;> exact dedup_lift (dedup_mem rg u r _ x h)
  | .inl s :: r, some c, x, h => by
    simp only [dedupRPieces] at h
    exact dedup_lift (dedup_mem rg u r _ x h)
  | .inr e :: r, none, x, h => by
    simp only [dedupRPieces, List.mem_cons] at h
    rcases h with rfl | h
    · exact Or.inr (by simp)
    · exact dedup_lift (dedup_mem rg u r _ x h)
  | .inr e :: r, some c, x, h => by
    simp only [dedupRPieces, List.mem_cons] at h
    rcases h with rfl | rfl | h
    · exact Or.inl ⟨_, rfl⟩
    · exact Or.inr (by simp)
    · exact dedup_lift (dedup_mem rg u r _ x h)


/-- the trees of a string atom the one-level theorem covers: a `JoinedStr` of covered pieces, or a plain constant -/
def fstrTop : RExpr → Bool
  | .joinedStr _ vs => fpieceL vs
  | e => plain e

/-- **The f-string step of the soundness induction.**  For a tiled span table and a cursor whose f-string tokens are
    tied to the source: what `parseRStrings` returns for a run of string tokens — a constant, or a `JoinedStr` whose
    pieces are constants and `FormattedValue`s with plain values and (nested) format specs — passes all structural
    clauses inside the window of the tokens consumed. -/
theorem strings_res_fstr1 {σ : SpanTab} {N : Nat} (T : TiledTab src σ N) {f : Nat} {t : Tok} {r : List Tok}
    {e : RExpr} {rest : List Tok} (hN : (t :: r).length ≤ N) (ht : isStringTok t = true)
    (hT : FTie src σ (t :: r)) (h : parseRStrings σ f (t :: r) = some (e, rest)) (hp : fstrTop e = true) :
    rest.length < (t :: r).length ∧ Res src (σ (t :: r).length).1 (σ (rest.length + 1)).2 e := by
  obtain ⟨g1, g2, _⟩ := (soundAt T f).strings t r e rest hN ht h
  refine ⟨g1, ?_⟩
  by_cases hpl : plain e = true
  · exact g2.2 hpl
  cases f with
  | zero => simp [parseRStrings] at h
  | succ f =>
    rw [parseRStrings.eq_def] at h
    simp only [List.dropWhile, ht, List.takeWhile] at h
    have hd := dropWhile_len isStringTok r
    simp only [List.length_cons] at hN g1 ⊢
    split at h
    · split at h
      · cases h
      · simp only [Option.some.injEq, Prod.mk.injEq] at h
        obtain ⟨rfl, rfl⟩ := h
        exact absurd (by simp [plain]) hpl
    · split at h
      · simp only [Option.some.injEq, Prod.mk.injEq] at h
        obtain ⟨rfl, rfl⟩ := h
        exact absurd (by simp [plain]) hpl
      · split at h
        · rename_i pieces hps
          simp only [Option.some.injEq, Prod.mk.injEq] at h
          obtain ⟨rfl, rfl⟩ := h
          simp only [fstrTop] at hp
          have hrg : rgOk src ((σ (r.length + 1)).1, (σ ((List.dropWhile isStringTok r).length + 1)).2) :=
            T.win (by omega) (by omega) (by omega)
          have hsplit : t :: r = (t :: List.takeWhile isStringTok r) ++ List.dropWhile isStringTok r := by
            simp [List.takeWhile_append_dropWhile]
          have hlen : (t :: List.takeWhile isStringTok r).length + (List.dropWhile isStringTok r).length
              = r.length + 1 := by
            have := congrArg List.length hsplit
            simp only [List.length_cons, List.length_append] at this ⊢
            omega
          have hTA := ftieA_of_ftie (σ := σ) (src := src) (t :: List.takeWhile isStringTok r)
            (List.dropWhile isStringTok r) (by rw [← hsplit]; exact hT)
          have hitems := pieces_fstr T (σ (r.length + 1)).1 (σ ((List.dropWhile isStringTok r).length + 1)).2 f
            (List.dropWhile isStringTok r).length (t :: List.takeWhile isStringTok r) pieces (by omega) hTA
            (fun k h1 h2 => ⟨T.SS (by omega) (by omega) (by omega), T.EE (by omega) (by omega) (by omega)⟩) hps
          simp only [L, R, List.length_cons] at hp ⊢
          refine ⟨hrg, Nat.le_refl _, Nat.le_refl _, ?_, ?_⟩
          · simp only [RExpr.kind, RExpr.children]; exact sibsOk_joined _
          · simp only [RExpr.children, RExpr.range]
            refine okList_pieces "values" _ (fun p hpm => ?_)
            have hfp := fpieceL_mem hp p hpm
            rcases dedup_mem _ _ _ _ p hpm with ⟨c, rfl⟩ | hin
            · exact res_const_lit hrg c
            · exact hitems p hin hfp
        · cases h

end PV.C02
