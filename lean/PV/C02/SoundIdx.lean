import PV.C02.SoundNodes
/-
  PV.C02.SoundIdx — `Ext` (what the range of a returned node is, in terms of the tokens consumed), and the node
  lemmas of `SoundNodes` restated for windows given by token indices of a tiled span table, so that every side
  condition in the parser induction is linear arithmetic over token counts.
-/
set_option linter.unusedSimpArgs false
namespace PV.C02
open PV.Expr PV.C11

/-! ### extents -/

/-- start / end / span of the token with `k` tokens left, as named functions (so that terms mentioning them can
    serve as `grind` patterns) -/
def S (σ : SpanTab) (k : Nat) : Nat := (σ k).1
def E (σ : SpanTab) (k : Nat) : Nat := (σ k).2
def Sp (σ : SpanTab) (k : Nat) : Rg := σ k
@[grind =] theorem sp_eq (σ : SpanTab) (k : Nat) : Sp σ k = (S σ k, E σ k) := rfl


/-- The range of the node returned for the tokens between the cursors `ts` and `rest` is exactly the span of those
    tokens (`exact`), or the node was returned unchanged through a pair of parentheses (`paren`), or it is a
    `NamedExpr`, which the code as it is ends where its value ends (`named`; listed finding). -/
inductive Ext (σ : SpanTab) : List Tok → List Tok → RExpr → Prop
  | exact {ts rest e} : e.range = (S σ ts.length, E σ (rest.length + 1)) → Ext σ ts rest e
  | paren {r rest e} : Ext σ r (.op .rpar :: rest) e → Ext σ (.op .lpar :: r) rest e
  | named {r rest v n t} : Ext σ r rest v →
      Ext σ (.name n :: .op .walrus :: r) rest (.namedExpr (S σ (r.length + 2), v.range.2) t v)

variable {src : List Nat} {σ : SpanTab} {N : Nat}

theorem TiledTab.SE' (T : TiledTab src σ N) {j k : Nat} (h1 : 1 ≤ k) (h2 : k ≤ j) (h3 : j ≤ N) :
    (σ j).1 ≤ (σ k).2 := by
  have := T.SS h1 h2 h3; have := T.SE h1 (by omega); omega

/-! ### sequences of each kind of item -/

theorem seqrs_nil {lo hi} : SeqG (RS src) lo hi [] := trivial
theorem seqrs_single {lo hi x} (h : RS src lo hi x) : SeqG (RS src) lo hi [x] := SeqG.single h
theorem seqrs_cons {lo m m' hi x xs} (h : RS src lo m x) (hm : m ≤ m') (hs : SeqG (RS src) m' hi xs) (hh : m ≤ hi) :
    SeqG (RS src) lo hi (x :: xs) := SeqG.cons (windowed_rs src) h hm hs hh
theorem seqrs_snoc {lo m m' m'' hi x xs} (hs : SeqG (RS src) lo m xs) (h0 : lo ≤ m') (hm : m ≤ m')
    (hx : RS src m' m'' x) (hh : m'' ≤ hi) : SeqG (RS src) lo hi (xs ++ [x]) :=
  SeqG.snoc (windowed_rs src) hs h0 hm hx hh
theorem seqrs_mono {lo hi lo' hi' xs} (hs : SeqG (RS src) lo hi xs) (h1 : lo' ≤ lo) (h2 : hi ≤ hi') :
    SeqG (RS src) lo' hi' xs := SeqG.mono_lo (windowed_rs src) (SeqG.mono_hi hs h2) h1

theorem seqrsk_nil {lo hi} : SeqG (RSK src) lo hi [] := trivial
theorem seqrsk_snoc {lo m m' m'' hi x xs} (hs : SeqG (RSK src) lo m xs) (h0 : lo ≤ m') (hm : m ≤ m')
    (hx : RSK src m' m'' x) (hh : m'' ≤ hi) : SeqG (RSK src) lo hi (xs ++ [x]) :=
  SeqG.snoc (windowed_rsk src) hs h0 hm hx hh
theorem seqrsk_mono {lo hi lo' hi' xs} (hs : SeqG (RSK src) lo hi xs) (h1 : lo' ≤ lo) (h2 : hi ≤ hi') :
    SeqG (RSK src) lo' hi' xs := SeqG.mono_lo (windowed_rsk src) (SeqG.mono_hi hs h2) h1

theorem seqrsc_single {lo hi x} (h : RSC src lo hi x) : SeqG (RSC src) lo hi [x] := SeqG.single h
theorem seqrsc_cons {lo m m' hi x xs} (h : RSC src lo m x) (hm : m ≤ m') (hs : SeqG (RSC src) m' hi xs) (hh : m ≤ hi) :
    SeqG (RSC src) lo hi (x :: xs) := SeqG.cons (windowed_rsc src) h hm hs hh
theorem seqrsc_mono {lo hi lo' hi' xs} (hs : SeqG (RSC src) lo hi xs) (h1 : lo' ≤ lo) (h2 : hi ≤ hi') :
    SeqG (RSC src) lo' hi' xs := SeqG.mono_lo (windowed_rsc src) (SeqG.mono_hi hs h2) h1

theorem seqrsd_nil {lo hi} : SeqG (RSD src) lo hi [] := trivial
theorem seqrsd_cons {lo m m' hi x xs} (h : RSD src lo m x) (hm : m ≤ m') (hs : SeqG (RSD src) m' hi xs) (hh : m ≤ hi) :
    SeqG (RSD src) lo hi (x :: xs) := SeqG.cons (windowed_rsd src) h hm hs hh
theorem seqrsd_mono {lo hi lo' hi' xs} (hs : SeqG (RSD src) lo hi xs) (h1 : lo' ≤ lo) (h2 : hi ≤ hi') :
    SeqG (RSD src) lo' hi' xs := SeqG.mono_lo (windowed_rsd src) (SeqG.mono_hi hs h2) h1

/-! ### windows given by token indices

  `Win j k e`: `e` lies between the start of the token with `j` tokens left and the end of the token with `k`
  tokens left.  All side conditions of the lemmas below are linear arithmetic over token counts. -/

def Win (src : List Nat) (σ : SpanTab) (j k : Nat) (e : RExpr) : Prop := RS src (σ j).1 (σ k).2 e
def SeqI (src : List Nat) (σ : SpanTab) (j k : Nat) (es : List RExpr) : Prop := SeqG (RS src) (σ j).1 (σ k).2 es
def SeqK (src : List Nat) (σ : SpanTab) (j k : Nat) (ks : List RKeyword) : Prop := SeqG (RSK src) (σ j).1 (σ k).2 ks
def SeqC (src : List Nat) (σ : SpanTab) (j k : Nat) (gs : List RComp) : Prop := SeqG (RSC src) (σ j).1 (σ k).2 gs
def SeqD (src : List Nat) (σ : SpanTab) (j k : Nat) (is : List RDictItem) : Prop := SeqG (RSD src) (σ j).1 (σ k).2 is

def WinK (src : List Nat) (σ : SpanTab) (j k : Nat) (x : RKeyword) : Prop := RSK src (σ j).1 (σ k).2 x
def WinC (src : List Nat) (σ : SpanTab) (j k : Nat) (x : RComp) : Prop := RSC src (σ j).1 (σ k).2 x
def WinD (src : List Nat) (σ : SpanTab) (j k : Nat) (x : RDictItem) : Prop := RSD src (σ j).1 (σ k).2 x
/-- the items of a parameter list in an index window -/
def SeqP (src : List Nat) (σ : SpanTab) (j k : Nat) (xs : List PItem) : Prop := SeqG (RSI src) (σ j).1 (σ k).2 xs

section idx
variable (T : TiledTab src σ N)
include T

theorem idx {j k j' k' : Nat} (h1 : 1 ≤ k') (h2 : k' ≤ k) (h3 : k ≤ j) (h4 : j ≤ j') (h5 : j' ≤ N) :
    rgOk src (S σ j, E σ k) ∧ (σ j').1 ≤ (σ j).1 ∧ (σ k).2 ≤ (σ k').2 :=
  ⟨T.win (by omega) h3 (by omega), T.SS (by omega) h4 h5, T.EE h1 h2 (by omega)⟩

theorem Win.mono {j k j' k' : Nat} {e : RExpr} (h : Win src σ j k e) (hj : j ≤ j') (hk : k' ≤ k) (h1 : 1 ≤ j)
    (h2 : 1 ≤ k') (h3 : j' ≤ N) (h4 : k ≤ N) : Win src σ j' k' e :=
  RS.mono h (T.SS h1 hj h3) (T.EE h2 hk h4)

theorem win_name {j' k' k : Nat} {id} (h1 : 1 ≤ k') (h2 : k' ≤ k) (h4 : k ≤ j') (h5 : j' ≤ N) :
    Win src σ j' k' (.name (Sp σ k) id) := by
  obtain ⟨a, b, c⟩ := idx T h1 h2 (Nat.le_refl k) h4 h5
  exact rs_name a b c

theorem win_const {j' k' k : Nat} {c} (h1 : 1 ≤ k') (h2 : k' ≤ k) (h4 : k ≤ j') (h5 : j' ≤ N) :
    Win src σ j' k' (.const (Sp σ k) c) := by
  obtain ⟨a, b, c⟩ := idx T h1 h2 (Nat.le_refl k) h4 h5
  exact rs_const a b c

theorem win_const' {j' k' j k : Nat} {c} (h1 : 1 ≤ k') (h2 : k' ≤ k) (h3 : k ≤ j) (h4 : j ≤ j') (h5 : j' ≤ N) :
    Win src σ j' k' (.const (S σ j, E σ k) c) := by
  obtain ⟨a, b, c⟩ := idx T h1 h2 h3 h4 h5
  exact rs_const a b c

theorem win_unaryOp {j k j' k' jc kc : Nat} {op e} (h1 : 1 ≤ k') (h2 : k' ≤ k) (h3 : k ≤ j) (h4 : j ≤ j') (h5 : j' ≤ N)
    (he : Win src σ jc kc e) (c1 : k ≤ kc) (c2 : jc ≤ j) (c3 : 1 ≤ jc) (c4 : kc ≤ N) :
    Win src σ j' k' (.unaryOp (S σ j, E σ k) op e) := by
  obtain ⟨a, b, c⟩ := idx T h1 h2 h3 h4 h5
  exact rs_unaryOp a b c (Win.mono T he c2 c1 c3 (by omega) (by omega) c4)

theorem win_await {j k j' k' jc kc : Nat} {e} (h1 : 1 ≤ k') (h2 : k' ≤ k) (h3 : k ≤ j) (h4 : j ≤ j') (h5 : j' ≤ N)
    (he : Win src σ jc kc e) (c1 : k ≤ kc) (c2 : jc ≤ j) (c3 : 1 ≤ jc) (c4 : kc ≤ N) :
    Win src σ j' k' (.await (S σ j, E σ k) e) := by
  obtain ⟨a, b, c⟩ := idx T h1 h2 h3 h4 h5
  exact rs_await a b c (Win.mono T he c2 c1 c3 (by omega) (by omega) c4)

theorem win_yieldFrom {j k j' k' jc kc : Nat} {e} (h1 : 1 ≤ k') (h2 : k' ≤ k) (h3 : k ≤ j) (h4 : j ≤ j') (h5 : j' ≤ N)
    (he : Win src σ jc kc e) (c1 : k ≤ kc) (c2 : jc ≤ j) (c3 : 1 ≤ jc) (c4 : kc ≤ N) :
    Win src σ j' k' (.yieldFrom (S σ j, E σ k) e) := by
  obtain ⟨a, b, c⟩ := idx T h1 h2 h3 h4 h5
  exact rs_yieldFrom a b c (Win.mono T he c2 c1 c3 (by omega) (by omega) c4)

theorem win_starred {j k j' k' jc kc : Nat} {e} (h1 : 1 ≤ k') (h2 : k' ≤ k) (h3 : k ≤ j) (h4 : j ≤ j') (h5 : j' ≤ N)
    (he : Win src σ jc kc e) (c1 : k ≤ kc) (c2 : jc ≤ j) (c3 : 1 ≤ jc) (c4 : kc ≤ N) :
    Win src σ j' k' (.starred (S σ j, E σ k) e) := by
  obtain ⟨a, b, c⟩ := idx T h1 h2 h3 h4 h5
  exact rs_starred a b c (Win.mono T he c2 c1 c3 (by omega) (by omega) c4)

theorem win_attribute {j k j' k' jc kc : Nat} {e n} (h1 : 1 ≤ k') (h2 : k' ≤ k) (h3 : k ≤ j) (h4 : j ≤ j') (h5 : j' ≤ N)
    (he : Win src σ jc kc e) (c1 : k ≤ kc) (c2 : jc ≤ j) (c3 : 1 ≤ jc) (c4 : kc ≤ N) :
    Win src σ j' k' (.attribute (S σ j, E σ k) e n) := by
  obtain ⟨a, b, c⟩ := idx T h1 h2 h3 h4 h5
  exact rs_attribute a b c (Win.mono T he c2 c1 c3 (by omega) (by omega) c4)

theorem win_yield_none {j' k' k : Nat} (h1 : 1 ≤ k') (h2 : k' ≤ k) (h4 : k ≤ j') (h5 : j' ≤ N) :
    Win src σ j' k' (.yield (Sp σ k) none) := by
  obtain ⟨a, b, c⟩ := idx T h1 h2 (Nat.le_refl k) h4 h5
  exact rs_yield_none a b c

theorem win_yield_some {j k j' k' jc kc : Nat} {e} (h1 : 1 ≤ k') (h2 : k' ≤ k) (h3 : k ≤ j) (h4 : j ≤ j') (h5 : j' ≤ N)
    (he : Win src σ jc kc e) (c1 : k ≤ kc) (c2 : jc ≤ j) (c3 : 1 ≤ jc) (c4 : kc ≤ N) :
    Win src σ j' k' (.yield (S σ j, E σ k) (some e)) := by
  obtain ⟨a, b, c⟩ := idx T h1 h2 h3 h4 h5
  exact rs_yield_some a b c (Win.mono T he c2 c1 c3 (by omega) (by omega) c4)

theorem win_binOp {j k j' k' jl kl jr kr : Nat} {l op r} (h1 : 1 ≤ k') (h2 : k' ≤ k) (h3 : k ≤ j) (h4 : j ≤ j')
    (h5 : j' ≤ N) (hl : Win src σ jl kl l) (l1 : k ≤ kl) (l2 : jl ≤ j) (l3 : 1 ≤ jl) (l4 : kl ≤ N)
    (hr : Win src σ jr kr r) (r1 : k ≤ kr) (r2 : jr ≤ j) (r3 : 1 ≤ jr) (r4 : kr ≤ N) :
    Win src σ j' k' (.binOp (S σ j, E σ k) l op r) := by
  obtain ⟨a, b, c⟩ := idx T h1 h2 h3 h4 h5
  exact rs_binOp a b c (Win.mono T hl l2 l1 l3 (by omega) (by omega) l4) (Win.mono T hr r2 r1 r3 (by omega) (by omega) r4)

theorem win_subscript {j k j' k' jl kl jr kr : Nat} {v s} (h1 : 1 ≤ k') (h2 : k' ≤ k) (h3 : k ≤ j) (h4 : j ≤ j')
    (h5 : j' ≤ N) (hl : Win src σ jl kl v) (l1 : k ≤ kl) (l2 : jl ≤ j) (l3 : 1 ≤ jl) (l4 : kl ≤ N)
    (hr : Win src σ jr kr s) (r1 : k ≤ kr) (r2 : jr ≤ j) (r3 : 1 ≤ jr) (r4 : kr ≤ N) :
    Win src σ j' k' (.subscript (S σ j, E σ k) v s) := by
  obtain ⟨a, b, c⟩ := idx T h1 h2 h3 h4 h5
  exact rs_subscript a b c (Win.mono T hl l2 l1 l3 (by omega) (by omega) l4) (Win.mono T hr r2 r1 r3 (by omega) (by omega) r4)

theorem win_ifExp {j k j' k' jt kt jb kb jo ko : Nat} {t bd o} (h1 : 1 ≤ k') (h2 : k' ≤ k) (h3 : k ≤ j) (h4 : j ≤ j')
    (h5 : j' ≤ N) (ht : Win src σ jt kt t) (t1 : k ≤ kt) (t2 : jt ≤ j) (t3 : 1 ≤ jt) (t4 : kt ≤ N)
    (hb : Win src σ jb kb bd) (b1 : k ≤ kb) (b2 : jb ≤ j) (b3 : 1 ≤ jb) (b4 : kb ≤ N)
    (ho : Win src σ jo ko o) (o1 : k ≤ ko) (o2 : jo ≤ j) (o3 : 1 ≤ jo) (o4 : ko ≤ N) :
    Win src σ j' k' (.ifExp (S σ j, E σ k) t bd o) := by
  obtain ⟨a, b, c⟩ := idx T h1 h2 h3 h4 h5
  exact rs_ifExp a b c (Win.mono T ht t2 t1 t3 (by omega) (by omega) t4)
    (Win.mono T hb b2 b1 b3 (by omega) (by omega) b4) (Win.mono T ho o2 o1 o3 (by omega) (by omega) o4)

/-- `NamedExpr`: from the name (token `j0`) to the end of the value, wherever inside its window that is -/
theorem win_namedExpr {j0 j k j' k' : Nat} {v n} (h1 : 1 ≤ k') (h2 : k' ≤ k) (h3 : k ≤ j) (h3' : j < j0) (h4 : j0 ≤ j')
    (h5 : j' ≤ N) (hv : Win src σ j k v) :
    Win src σ j' k' (.namedExpr (S σ j0, v.range.2) (.name (Sp σ j0) n) v) := by
  show Win src σ j' k' (.namedExpr ((σ j0).1, v.range.2) (.name (σ j0) n) v)
  have hwin := T.SE' (j := j') (k := k') h1 (by omega) h5
  refine ⟨hwin, fun hp => ?_⟩
  simp only [plain, Bool.true_and] at hp
  have hres := hv.2 hp
  obtain ⟨g1, g2, g3, g4⟩ := hres
  have hj0 := T.own j0 (by omega) (by omega)
  rw [show σ j0 = ((σ j0).1, (σ j0).2) from rfl, rgOk_iff] at hj0
  rw [show v.range = (v.range.1, v.range.2) from rfl, rgOk_iff] at g1
  have e1 := T.ES (j := j0) (k := j) (by omega) h3' (by omega)
  have e2 := T.SS (j := j') (k := j0) (by omega) h4 h5
  have e3 := T.EE (j := k) (k := k') h1 h2 (by omega)
  have hrg : rgOk src ((σ j0).1, v.range.2) := by
    rw [rgOk_iff]; exact ⟨by omega, g1.2.1, hj0.2.2.1, g1.2.2.2⟩
  have hname : RS src (σ j0).1 v.range.2 (.name (σ j0) n) :=
    rs_name (a := (σ j0).1) (b := (σ j0).2) (T.own j0 (by omega) (by omega)) (Nat.le_refl _) (by omega)
  have hval : RS src (σ j0).1 v.range.2 v :=
    ⟨by omega, fun _ => ⟨by rw [rgOk_iff]; exact g1, by omega, Nat.le_refl _, g4⟩⟩
  exact (rs_namedExpr hrg (by omega) (by omega) hname hval).2 (by simp [plain, hp])

theorem win_lambda {j k j' k' ja ka jl kl : Nat} {po ar va ko kw bd} (h1 : 1 ≤ k') (h2 : k' ≤ k) (h3 : k ≤ j) (h4 : j ≤ j')
    (h5 : j' ≤ N) (a1 : k ≤ ka) (a2 : ka ≤ ja) (a3 : ja ≤ j) (hs : SeqP src σ jl kl (argItems po ar va ko kw))
    (l0 : argItems po ar va ko kw = [] ∨ (ka ≤ kl ∧ jl ≤ ja ∧ 1 ≤ jl ∧ kl ≤ N))
    {jb kb : Nat} (hb : Win src σ jb kb bd) (b1 : k ≤ kb)
    (b2 : jb ≤ j) (b3 : 1 ≤ jb) (b4 : kb ≤ N) :
    Win src σ j' k' (.lambda (S σ j, E σ k) (S σ ja, E σ ka) po ar va ko kw bd) := by
  obtain ⟨a, b, c⟩ := idx T h1 h2 h3 h4 h5
  obtain ⟨a', b', c'⟩ := idx T (k' := k) (k := ka) (j := ja) (j' := j) (by omega) a1 a2 a3 (by omega)
  have hb' := Win.mono T hb b2 b1 b3 (by omega) (by omega) b4
  rcases l0 with l0 | ⟨l1, l2, l3, l4⟩
  · rw [l0] at hs
    have hs' : SeqG (RSI src) (S σ ja) (E σ ka) (argItems po ar va ko kw) := by rw [l0]; trivial
    exact rs_lambda a b c a' b' c' hs' (Nat.le_refl _) (Nat.le_refl _) hb'
  · exact rs_lambda a b c a' b' c' hs (T.SS l3 l2 (by omega)) (T.EE (by omega) l1 l4) hb'

theorem win_slice {j k j' k' : Nat} {x y z : Option RExpr} (h1 : 1 ≤ k') (h2 : k' ≤ k) (h3 : k ≤ j) (h4 : j ≤ j')
    (h5 : j' ≤ N) (hx : ∀ e, x = some e → Win src σ j k e) (hy : ∀ e, y = some e → Win src σ j k e)
    (hz : ∀ e, z = some e → Win src σ j k e) : Win src σ j' k' (.slice (S σ j, E σ k) x y z) := by
  obtain ⟨a, b, c⟩ := idx T h1 h2 h3 h4 h5
  exact rs_slice a b c hx hy hz

/-! nodes with list fields: the list in any index window inside the node's -/

theorem win_boolOp {j k j' k' jl kl : Nat} {op es} (h1 : 1 ≤ k') (h2 : k' ≤ k) (h3 : k ≤ j) (h4 : j ≤ j') (h5 : j' ≤ N)
    (hs : SeqI src σ jl kl es) (l1 : k ≤ kl) (l2 : jl ≤ j) (l3 : 1 ≤ jl) (l4 : kl ≤ N) :
    Win src σ j' k' (.boolOp (S σ j, E σ k) op es) := by
  obtain ⟨a, b, c⟩ := idx T h1 h2 h3 h4 h5
  exact rs_boolOp a b c hs (T.SS l3 l2 (by omega)) (T.EE (by omega) l1 l4)

theorem win_set {j k j' k' jl kl : Nat} {es} (h1 : 1 ≤ k') (h2 : k' ≤ k) (h3 : k ≤ j) (h4 : j ≤ j') (h5 : j' ≤ N)
    (hs : SeqI src σ jl kl es) (l1 : k ≤ kl) (l2 : jl ≤ j) (l3 : 1 ≤ jl) (l4 : kl ≤ N) :
    Win src σ j' k' (.set (S σ j, E σ k) es) := by
  obtain ⟨a, b, c⟩ := idx T h1 h2 h3 h4 h5
  exact rs_set a b c hs (T.SS l3 l2 (by omega)) (T.EE (by omega) l1 l4)

theorem win_list {j k j' k' jl kl : Nat} {es} (h1 : 1 ≤ k') (h2 : k' ≤ k) (h3 : k ≤ j) (h4 : j ≤ j') (h5 : j' ≤ N)
    (hs : SeqI src σ jl kl es) (l1 : k ≤ kl) (l2 : jl ≤ j) (l3 : 1 ≤ jl) (l4 : kl ≤ N) :
    Win src σ j' k' (.list (S σ j, E σ k) es) := by
  obtain ⟨a, b, c⟩ := idx T h1 h2 h3 h4 h5
  exact rs_list a b c hs (T.SS l3 l2 (by omega)) (T.EE (by omega) l1 l4)

theorem win_tuple {j k j' k' jl kl : Nat} {es} (h1 : 1 ≤ k') (h2 : k' ≤ k) (h3 : k ≤ j) (h4 : j ≤ j') (h5 : j' ≤ N)
    (hs : SeqI src σ jl kl es) (l1 : k ≤ kl) (l2 : jl ≤ j) (l3 : 1 ≤ jl) (l4 : kl ≤ N) :
    Win src σ j' k' (.tuple (S σ j, E σ k) es) := by
  obtain ⟨a, b, c⟩ := idx T h1 h2 h3 h4 h5
  exact rs_tuple a b c hs (T.SS l3 l2 (by omega)) (T.EE (by omega) l1 l4)

theorem win_list_nil {j k j' k' : Nat} (h1 : 1 ≤ k') (h2 : k' ≤ k) (h3 : k ≤ j) (h4 : j ≤ j') (h5 : j' ≤ N) :
    Win src σ j' k' (.list (S σ j, E σ k) []) := by
  obtain ⟨a, b, c⟩ := idx T h1 h2 h3 h4 h5
  exact rs_list a b c (l := (σ j).1) (h := (σ k).2) trivial (Nat.le_refl _) (Nat.le_refl _)

theorem win_tuple_nil {j k j' k' : Nat} (h1 : 1 ≤ k') (h2 : k' ≤ k) (h3 : k ≤ j) (h4 : j ≤ j') (h5 : j' ≤ N) :
    Win src σ j' k' (.tuple (S σ j, E σ k) []) := by
  obtain ⟨a, b, c⟩ := idx T h1 h2 h3 h4 h5
  exact rs_tuple a b c (l := (σ j).1) (h := (σ k).2) trivial (Nat.le_refl _) (Nat.le_refl _)

theorem win_dict_nil {j k j' k' : Nat} (h1 : 1 ≤ k') (h2 : k' ≤ k) (h3 : k ≤ j) (h4 : j ≤ j') (h5 : j' ≤ N) :
    Win src σ j' k' (.dict (S σ j, E σ k) []) := by
  obtain ⟨a, b, c⟩ := idx T h1 h2 h3 h4 h5
  exact rs_dict a b c (l := (σ j).1) (h := (σ k).2) trivial (Nat.le_refl _) (Nat.le_refl _)

theorem win_compare {j k j' k' jl kl : Nat} {lft ops cs} (h1 : 1 ≤ k') (h2 : k' ≤ k) (h3 : k ≤ j) (h4 : j ≤ j')
    (h5 : j' ≤ N) {jc kc : Nat} (hl : Win src σ jc kc lft) (c1 : k ≤ kc) (c2 : jc ≤ j) (c3 : 1 ≤ jc) (c4 : kc ≤ N)
    (hs : SeqI src σ jl kl cs) (l1 : k ≤ kl) (l2 : jl ≤ j) (l3 : 1 ≤ jl)
    (l4 : kl ≤ N) : Win src σ j' k' (.compare (S σ j, E σ k) lft ops cs) := by
  obtain ⟨a, b, c⟩ := idx T h1 h2 h3 h4 h5
  exact rs_compare a b c (Win.mono T hl c2 c1 c3 (by omega) (by omega) c4) hs (T.SS l3 l2 (by omega))
    (T.EE (by omega) l1 l4)

theorem win_dict {j k j' k' jl kl : Nat} {is} (h1 : 1 ≤ k') (h2 : k' ≤ k) (h3 : k ≤ j) (h4 : j ≤ j') (h5 : j' ≤ N)
    (hs : SeqD src σ jl kl is) (l1 : k ≤ kl) (l2 : jl ≤ j) (l3 : 1 ≤ jl) (l4 : kl ≤ N) :
    Win src σ j' k' (.dict (S σ j, E σ k) is) := by
  obtain ⟨a, b, c⟩ := idx T h1 h2 h3 h4 h5
  exact rs_dict a b c hs (T.SS l3 l2 (by omega)) (T.EE (by omega) l1 l4)

/-- `Call`: arguments and keywords both lie in one index window inside the call's -/
theorem win_call {j k j' k' : Nat} {fn as ks} (h1 : 1 ≤ k') (h2 : k' ≤ k) (h3 : k ≤ j) (h4 : j ≤ j')
    (h5 : j' ≤ N) {jc kc : Nat} (hf : Win src σ jc kc fn) (c1 : k ≤ kc) (c2 : jc ≤ j) (c3 : 1 ≤ jc) (c4 : kc ≤ N)
    {jl kl : Nat} (hs : SeqI src σ jl kl as) (hk : SeqK src σ jl kl ks)
    (l1 : k ≤ kl) (l2 : jl ≤ j) (l3 : 1 ≤ jl) (l4 : kl ≤ N) : Win src σ j' k' (.call (S σ j, E σ k) fn as ks) := by
  obtain ⟨a, b, c⟩ := idx T h1 h2 h3 h4 h5
  exact rs_call a b c (Win.mono T hf c2 c1 c3 (by omega) (by omega) c4) hs (T.SS l3 l2 (by omega))
    (T.EE (by omega) l1 l4) hk (T.SS l3 l2 (by omega)) (T.EE (by omega) l1 l4)

theorem win_listComp {j k j' k' jl kl : Nat} {e gs} (h1 : 1 ≤ k') (h2 : k' ≤ k) (h3 : k ≤ j) (h4 : j ≤ j') (h5 : j' ≤ N)
    {jc kc : Nat} (he : Win src σ jc kc e) (c1 : k ≤ kc) (c2 : jc ≤ j) (c3 : 1 ≤ jc) (c4 : kc ≤ N)
    (hs : SeqC src σ jl kl gs) (l1 : k ≤ kl) (l2 : jl ≤ j) (l3 : 1 ≤ jl) (l4 : kl ≤ N) :
    Win src σ j' k' (.listComp (S σ j, E σ k) e gs) := by
  obtain ⟨a, b, c⟩ := idx T h1 h2 h3 h4 h5
  exact rs_listComp a b c (Win.mono T he c2 c1 c3 (by omega) (by omega) c4) hs (T.SS l3 l2 (by omega))
    (T.EE (by omega) l1 l4)

theorem win_setComp {j k j' k' jl kl : Nat} {e gs} (h1 : 1 ≤ k') (h2 : k' ≤ k) (h3 : k ≤ j) (h4 : j ≤ j') (h5 : j' ≤ N)
    {jc kc : Nat} (he : Win src σ jc kc e) (c1 : k ≤ kc) (c2 : jc ≤ j) (c3 : 1 ≤ jc) (c4 : kc ≤ N)
    (hs : SeqC src σ jl kl gs) (l1 : k ≤ kl) (l2 : jl ≤ j) (l3 : 1 ≤ jl) (l4 : kl ≤ N) :
    Win src σ j' k' (.setComp (S σ j, E σ k) e gs) := by
  obtain ⟨a, b, c⟩ := idx T h1 h2 h3 h4 h5
  exact rs_setComp a b c (Win.mono T he c2 c1 c3 (by omega) (by omega) c4) hs (T.SS l3 l2 (by omega))
    (T.EE (by omega) l1 l4)

theorem win_genExp {j k j' k' jl kl : Nat} {e gs} (h1 : 1 ≤ k') (h2 : k' ≤ k) (h3 : k ≤ j) (h4 : j ≤ j') (h5 : j' ≤ N)
    {jc kc : Nat} (he : Win src σ jc kc e) (c1 : k ≤ kc) (c2 : jc ≤ j) (c3 : 1 ≤ jc) (c4 : kc ≤ N)
    (hs : SeqC src σ jl kl gs) (l1 : k ≤ kl) (l2 : jl ≤ j) (l3 : 1 ≤ jl) (l4 : kl ≤ N) :
    Win src σ j' k' (.genExp (S σ j, E σ k) e gs) := by
  obtain ⟨a, b, c⟩ := idx T h1 h2 h3 h4 h5
  exact rs_genExp a b c (Win.mono T he c2 c1 c3 (by omega) (by omega) c4) hs (T.SS l3 l2 (by omega))
    (T.EE (by omega) l1 l4)

theorem win_dictComp {j k j' k' jl kl : Nat} {kk v gs} (h1 : 1 ≤ k') (h2 : k' ≤ k) (h3 : k ≤ j) (h4 : j ≤ j')
    (h5 : j' ≤ N) {jc kc jv kv : Nat} (hk : Win src σ jc kc kk) (c1 : k ≤ kc) (c2 : jc ≤ j) (c3 : 1 ≤ jc) (c4 : kc ≤ N)
    (hv : Win src σ jv kv v) (v1 : k ≤ kv) (v2 : jv ≤ j) (v3 : 1 ≤ jv) (v4 : kv ≤ N)
    (hs : SeqC src σ jl kl gs) (l1 : k ≤ kl) (l2 : jl ≤ j)
    (l3 : 1 ≤ jl) (l4 : kl ≤ N) : Win src σ j' k' (.dictComp (S σ j, E σ k) kk v gs) := by
  obtain ⟨a, b, c⟩ := idx T h1 h2 h3 h4 h5
  exact rs_dictComp a b c (Win.mono T hk c2 c1 c3 (by omega) (by omega) c4)
    (Win.mono T hv v2 v1 v3 (by omega) (by omega) v4) hs (T.SS l3 l2 (by omega)) (T.EE (by omega) l1 l4)

/-! sequences -/

omit T in
theorem seqI_nil {j k : Nat} : SeqI src σ j k [] := trivial
omit T in
theorem seqK_nil {j k : Nat} : SeqK src σ j k [] := trivial
omit T in
theorem seqI_single {j k : Nat} {x} (h : Win src σ j k x) : SeqI src σ j k [x] := SeqG.single h
theorem seqI_mono {j k j' k' : Nat} {xs} (h : SeqI src σ j k xs) (hj : j ≤ j') (hk : k' ≤ k) (h1 : 1 ≤ j)
    (h2 : 1 ≤ k') (h3 : j' ≤ N) (h4 : k ≤ N) : SeqI src σ j' k' xs :=
  seqrs_mono h (T.SS h1 hj h3) (T.EE h2 hk h4)
theorem seqK_mono {j k j' k' : Nat} {xs} (h : SeqK src σ j k xs) (hj : j ≤ j') (hk : k' ≤ k) (h1 : 1 ≤ j)
    (h2 : 1 ≤ k') (h3 : j' ≤ N) (h4 : k ≤ N) : SeqK src σ j' k' xs :=
  seqrsk_mono h (T.SS h1 hj h3) (T.EE h2 hk h4)
/-- an item in front of a sequence that starts at a later token -/
theorem seqI_cons {j m j2 k : Nat} {x xs} (h : Win src σ j m x) (hs : SeqI src σ j2 k xs) (h1 : 1 ≤ j2) (h2 : j2 < m)
    (h3 : m ≤ N) (h4 : 1 ≤ k) (h5 : k ≤ m) : SeqI src σ j k (x :: xs) :=
  seqrs_cons h (T.ES h1 h2 h3) hs (T.EE h4 h5 h3)
/-- an item behind a sequence that ended at an earlier token -/
theorem seqI_snoc {jl m j2 k2 k : Nat} {x xs} (hs : SeqI src σ jl m xs) (hx : Win src σ j2 k2 x)
    (h0 : m ≤ jl) (h0' : jl ≤ N) (h1 : 1 ≤ j2) (h2 : j2 < m) (h4 : 1 ≤ k) (h5 : k ≤ k2) (h6 : k2 ≤ N) :
    SeqI src σ jl k (xs ++ [x]) := by
  have := T.ES h1 h2 (by omega)
  have := T.SE' (j := jl) (k := m) (by omega) h0 h0'
  exact seqrs_snoc hs (by omega) ‹_› hx (T.EE h4 h5 h6)
theorem seqK_snoc {jl m j2 k2 k : Nat} {x xs} (hs : SeqK src σ jl m xs) (hx : WinK src σ j2 k2 x)
    (h0 : m ≤ jl) (h0' : jl ≤ N) (h1 : 1 ≤ j2) (h2 : j2 < m) (h4 : 1 ≤ k) (h5 : k ≤ k2) (h6 : k2 ≤ N) :
    SeqK src σ jl k (xs ++ [x]) := by
  have := T.ES h1 h2 (by omega)
  have := T.SE' (j := jl) (k := m) (by omega) h0 h0'
  exact seqrsk_snoc hs (by omega) ‹_› hx (T.EE h4 h5 h6)

/-- a keyword item: from its first token `j` to its last token `k`, the value inside -/
theorem rsk_idx {j k jc kc : Nat} {n v} (h1 : 1 ≤ k) (h2 : k ≤ j) (h3 : j ≤ N) (hv : Win src σ jc kc v) (c1 : k ≤ kc)
    (c2 : jc ≤ j) (c3 : 1 ≤ jc) (c4 : kc ≤ N) : WinK src σ j k (.mk (S σ j, E σ k) n v) :=
  rsk_mk (T.SE' h1 h2 h3) (T.win h1 h2 h3) (Nat.le_refl _) (Nat.le_refl _)
    (Win.mono T hv c2 c1 c3 (by omega) (by omega) c4)

omit T in
theorem seqC_single {j k : Nat} {x} (h : WinC src σ j k x) : SeqC src σ j k [x] := SeqG.single h
theorem seqC_cons {j m j2 k : Nat} {x xs} (h : WinC src σ j m x) (hs : SeqC src σ j2 k xs) (h1 : 1 ≤ j2)
    (h2 : j2 < m) (h3 : m ≤ N) (h4 : 1 ≤ k) (h5 : k ≤ m) : SeqC src σ j k (x :: xs) :=
  seqrsc_cons h (T.ES h1 h2 h3) hs (T.EE h4 h5 h3)
theorem seqC_mono {j k j' k' : Nat} {xs} (h : SeqC src σ j k xs) (hj : j ≤ j') (hk : k' ≤ k) (h1 : 1 ≤ j)
    (h2 : 1 ≤ k') (h3 : j' ≤ N) (h4 : k ≤ N) : SeqC src σ j' k' xs :=
  seqrsc_mono h (T.SS h1 hj h3) (T.EE h2 hk h4)
/-- a `Comprehension` item -/
theorem rsc_idx {j k jl kl jt kt ji ki : Nat} {t i ifs as} (h1 : 1 ≤ k) (h2 : k ≤ j) (h3 : j ≤ N)
    (ht : Win src σ jt kt t) (t1 : k ≤ kt) (t2 : jt ≤ j) (t3 : 1 ≤ jt) (t4 : kt ≤ N)
    (hi : Win src σ ji ki i) (i1 : k ≤ ki) (i2 : ji ≤ j) (i3 : 1 ≤ ji) (i4 : ki ≤ N)
    (hs : SeqI src σ jl kl ifs) (l0 : ifs = [] ∨ (k ≤ kl ∧ jl ≤ j ∧ 1 ≤ jl ∧ kl ≤ N)) :
    WinC src σ j k (.mk (S σ j, E σ k) t i ifs as) := by
  have ht' := Win.mono T ht t2 t1 t3 (by omega) (by omega) t4
  have hi' := Win.mono T hi i2 i1 i3 (by omega) (by omega) i4
  rcases l0 with rfl | ⟨l1, l2, l3, l4⟩
  · exact rsc_mk (T.SE' h1 h2 h3) (T.win h1 h2 h3) (Nat.le_refl _) (Nat.le_refl _) ht' hi' (l := (σ j).1) (h := (σ k).2)
      trivial (Nat.le_refl _) (Nat.le_refl _)
  · exact rsc_mk (T.SE' h1 h2 h3) (T.win h1 h2 h3) (Nat.le_refl _) (Nat.le_refl _) ht' hi' hs (T.SS l3 l2 (by omega))
      (T.EE (by omega) l1 l4)

omit T in
theorem seqD_nil {j k : Nat} : SeqD src σ j k [] := trivial
theorem seqD_cons {j m j2 k : Nat} {x xs} (h : WinD src σ j m x) (hs : SeqD src σ j2 k xs) (h1 : 1 ≤ j2)
    (h2 : j2 < m) (h3 : m ≤ N) (h4 : 1 ≤ k) (h5 : k ≤ m) : SeqD src σ j k (x :: xs) :=
  seqrsd_cons h (T.ES h1 h2 h3) hs (T.EE h4 h5 h3)
omit T in
theorem seqD_single {j k : Nat} {x} (h : WinD src σ j k x) : SeqD src σ j k [x] := SeqG.single h
theorem seqD_mono {j k j' k' : Nat} {xs} (h : SeqD src σ j k xs) (hj : j ≤ j') (hk : k' ≤ k) (h1 : 1 ≤ j)
    (h2 : 1 ≤ k') (h3 : j' ≤ N) (h4 : k ≤ N) : SeqD src σ j' k' xs :=
  seqrsd_mono h (T.SS h1 hj h3) (T.EE h2 hk h4)
/-- a `key: value` entry: the key up to token `m1`, the value from a later token on -/
theorem rsd_idx_some {j m1 j2 k : Nat} {kk v} (hk : Win src σ j m1 kk) (hv : Win src σ j2 k v) (h1 : 1 ≤ j2)
    (h2 : j2 < m1) (h3 : m1 ≤ N) : WinD src σ j k (.mk (some kk) v) :=
  rsd_mk_some hk (RS.mono hv (T.ES h1 h2 h3) (Nat.le_refl _))
/-- a `**value` entry -/
theorem rsd_idx_none {j j2 k : Nat} {v} (hv : Win src σ j2 k v) (h1 : 1 ≤ j2) (h2 : j2 ≤ j) (h3 : j ≤ N) :
    WinD src σ j k (.mk none v) :=
  rsd_mk_none (RS.mono hv (T.SS h1 h2 h3) (Nat.le_refl _))

/-! parameter items -/

theorem rsi_param {m : Nat} {s : String} {n : Ident} (h1 : 1 ≤ m) (h2 : m ≤ N) :
    RSI src (σ m).1 (σ m).2 (.param s (.mk (σ m) (σ m) n none)) :=
  ⟨T.SE h1 h2, fun _ => ⟨T.own m h1 h2, Nat.le_refl _, Nat.le_refl _, T.own m h1 h2, Nat.le_refl _, Nat.le_refl _,
    fun e he => by cases he⟩⟩

/-- a parameter with a default: the name is token `m`, the default lies in the token window `jc … kc` behind it; the
    `ArgWithDefault` runs from the name to the end of the default's node, wherever inside its window that is -/
theorem rsi_param_default {m jc kc : Nat} {s : String} {n : Ident} {d : RExpr} (h1 : 1 ≤ kc) (h2 : kc ≤ jc)
    (h3 : jc < m) (h4 : m ≤ N) (hd : Win src σ jc kc d) :
    RSI src (σ m).1 (σ kc).2 (.param s (.mk ((σ m).1, d.range.2) (σ m) n (some d))) := by
  have hm := T.own m (by omega) h4
  rw [show σ m = ((σ m).1, (σ m).2) from rfl, rgOk_iff] at hm
  have e1 := T.ES (j := m) (k := jc) (by omega) h3 h4
  have e2 := T.SE (k := kc) h1 (by omega)
  have e3 := T.SS (j := jc) (k := kc) h1 h2 (by omega)
  refine ⟨by omega, fun hp => ?_⟩
  simp only [PItem.plain, plainO] at hp
  obtain ⟨g1, g2, g3, g4⟩ := hd.2 hp
  have g1' := g1
  rw [show d.range = (d.range.1, d.range.2) from rfl, rgOk_iff] at g1'
  have hrg : rgOk src ((σ m).1, d.range.2) := by
    rw [rgOk_iff]; exact ⟨by omega, g1'.2.1, hm.2.2.1, g1'.2.2.2⟩
  refine ⟨hrg, Nat.le_refl _, g3, T.own m (by omega) h4, Nat.le_refl _, by simp only []; omega, fun e he => ?_⟩
  cases he
  exact ⟨g1, by simp only []; omega, Nat.le_refl _, g4⟩

theorem rsi_arg {m : Nat} {s : String} {n : Ident} (h1 : 1 ≤ m) (h2 : m ≤ N) :
    RSI src (σ m).1 (σ m).2 (.arg s (σ m, n)) :=
  ⟨T.SE h1 h2, fun _ => ⟨T.own m h1 h2, Nat.le_refl _, Nat.le_refl _, trivial⟩⟩

/-- an item at token `m` behind a sequence that ended before it -/
theorem seqP_snoc {j0 k m k' : Nat} {x xs} (hs : SeqP src σ j0 k xs) (hx : RSI src (σ m).1 (σ m).2 x)
    (h0 : k ≤ N) (h0' : j0 ≤ N) (h1 : 1 ≤ m) (h2 : m < k) (h3 : m ≤ j0) (h4 : 1 ≤ k') (h5 : k' ≤ m) :
    SeqP src σ j0 k' (xs ++ [x]) := by
  have e1 : (σ k).2 ≤ (σ m).1 := T.ES h1 h2 h0
  have e2 : (σ j0).1 ≤ (σ m).1 := T.SS h1 h3 h0'
  exact SeqG.snoc (windowed_rsi src) hs e2 e1 hx (T.EE h4 h5 (by omega))

/-- an item that starts at token `m` and ends with token `kc` behind a sequence that ended before it -/
theorem seqP_snoc_to {j0 k m kc k' : Nat} {x xs} (hs : SeqP src σ j0 k xs) (hx : RSI src (σ m).1 (σ kc).2 x)
    (h0 : k ≤ N) (h0' : j0 ≤ N) (h1 : 1 ≤ m) (h2 : m < k) (h3 : m ≤ j0) (h4 : 1 ≤ k') (h5 : k' ≤ kc) (h6 : kc ≤ m) :
    SeqP src σ j0 k' (xs ++ [x]) := by
  have e1 : (σ k).2 ≤ (σ m).1 := T.ES h1 h2 h0
  have e2 : (σ j0).1 ≤ (σ m).1 := T.SS h1 h3 h0'
  exact SeqG.snoc (windowed_rsi src) hs e2 e1 hx (T.EE h4 h5 (by omega))

theorem seqP_mono {j k k' : Nat} {xs} (h : SeqP src σ j k xs) (hk : k' ≤ k) (h2 : 1 ≤ k') (h4 : k ≤ N) :
    SeqP src σ j k' xs := SeqG.mono_hi h (T.EE h2 hk h4)

end idx

/-! ### the same lemmas in the form `grind` uses: every node that occurs anywhere lies in the window of its own range
  (once its children are known to lie inside), sequences grow by the items at hand, and `Win.mono` / `seq*_mono`
  carry a fact to the window the goal asks for -/

section own
variable (T : TiledTab src σ N)
include T

theorem own_name {k : Nat} {id} (h1 : 1 ≤ k) (h2 : k ≤ N) : Win src σ k k (.name (Sp σ k) id) :=
  win_name T h1 (Nat.le_refl _) (Nat.le_refl _) h2
theorem own_const {k : Nat} {c} (h1 : 1 ≤ k) (h2 : k ≤ N) : Win src σ k k (.const (Sp σ k) c) :=
  win_const T h1 (Nat.le_refl _) (Nat.le_refl _) h2
theorem own_const' {j k : Nat} {c} (h1 : 1 ≤ k) (h3 : k ≤ j) (h5 : j ≤ N) : Win src σ j k (.const (S σ j, E σ k) c) :=
  win_const' T h1 (Nat.le_refl _) h3 (Nat.le_refl _) h5
theorem own_yield_none {k : Nat} (h1 : 1 ≤ k) (h2 : k ≤ N) : Win src σ k k (.yield (Sp σ k) none) :=
  win_yield_none T h1 (Nat.le_refl _) (Nat.le_refl _) h2
theorem own_unaryOp {j k jc kc : Nat} {op e} (h1 : 1 ≤ k) (h3 : k ≤ j) (h5 : j ≤ N) (he : Win src σ jc kc e)
    (c1 : k ≤ kc) (c2 : jc ≤ j) (c3 : 1 ≤ jc) (c4 : kc ≤ N) : Win src σ j k (.unaryOp (S σ j, E σ k) op e) :=
  win_unaryOp T h1 (Nat.le_refl _) h3 (Nat.le_refl _) h5 he c1 c2 c3 c4
theorem own_await {j k jc kc : Nat} {e} (h1 : 1 ≤ k) (h3 : k ≤ j) (h5 : j ≤ N) (he : Win src σ jc kc e)
    (c1 : k ≤ kc) (c2 : jc ≤ j) (c3 : 1 ≤ jc) (c4 : kc ≤ N) : Win src σ j k (.await (S σ j, E σ k) e) :=
  win_await T h1 (Nat.le_refl _) h3 (Nat.le_refl _) h5 he c1 c2 c3 c4
theorem own_yieldFrom {j k jc kc : Nat} {e} (h1 : 1 ≤ k) (h3 : k ≤ j) (h5 : j ≤ N) (he : Win src σ jc kc e)
    (c1 : k ≤ kc) (c2 : jc ≤ j) (c3 : 1 ≤ jc) (c4 : kc ≤ N) : Win src σ j k (.yieldFrom (S σ j, E σ k) e) :=
  win_yieldFrom T h1 (Nat.le_refl _) h3 (Nat.le_refl _) h5 he c1 c2 c3 c4
theorem own_starred {j k jc kc : Nat} {e} (h1 : 1 ≤ k) (h3 : k ≤ j) (h5 : j ≤ N) (he : Win src σ jc kc e)
    (c1 : k ≤ kc) (c2 : jc ≤ j) (c3 : 1 ≤ jc) (c4 : kc ≤ N) : Win src σ j k (.starred (S σ j, E σ k) e) :=
  win_starred T h1 (Nat.le_refl _) h3 (Nat.le_refl _) h5 he c1 c2 c3 c4
theorem own_attribute {j k jc kc : Nat} {e n} (h1 : 1 ≤ k) (h3 : k ≤ j) (h5 : j ≤ N) (he : Win src σ jc kc e)
    (c1 : k ≤ kc) (c2 : jc ≤ j) (c3 : 1 ≤ jc) (c4 : kc ≤ N) : Win src σ j k (.attribute (S σ j, E σ k) e n) :=
  win_attribute T h1 (Nat.le_refl _) h3 (Nat.le_refl _) h5 he c1 c2 c3 c4
theorem own_yield_some {j k jc kc : Nat} {e} (h1 : 1 ≤ k) (h3 : k ≤ j) (h5 : j ≤ N) (he : Win src σ jc kc e)
    (c1 : k ≤ kc) (c2 : jc ≤ j) (c3 : 1 ≤ jc) (c4 : kc ≤ N) : Win src σ j k (.yield (S σ j, E σ k) (some e)) :=
  win_yield_some T h1 (Nat.le_refl _) h3 (Nat.le_refl _) h5 he c1 c2 c3 c4
theorem own_binOp {j k jl kl jr kr : Nat} {l op r} (h1 : 1 ≤ k) (h3 : k ≤ j) (h5 : j ≤ N)
    (hl : Win src σ jl kl l) (l1 : k ≤ kl) (l2 : jl ≤ j) (l3 : 1 ≤ jl) (l4 : kl ≤ N)
    (hr : Win src σ jr kr r) (r1 : k ≤ kr) (r2 : jr ≤ j) (r3 : 1 ≤ jr) (r4 : kr ≤ N) :
    Win src σ j k (.binOp (S σ j, E σ k) l op r) :=
  win_binOp T h1 (Nat.le_refl _) h3 (Nat.le_refl _) h5 hl l1 l2 l3 l4 hr r1 r2 r3 r4
theorem own_subscript {j k jl kl jr kr : Nat} {v s} (h1 : 1 ≤ k) (h3 : k ≤ j) (h5 : j ≤ N)
    (hl : Win src σ jl kl v) (l1 : k ≤ kl) (l2 : jl ≤ j) (l3 : 1 ≤ jl) (l4 : kl ≤ N)
    (hr : Win src σ jr kr s) (r1 : k ≤ kr) (r2 : jr ≤ j) (r3 : 1 ≤ jr) (r4 : kr ≤ N) :
    Win src σ j k (.subscript (S σ j, E σ k) v s) :=
  win_subscript T h1 (Nat.le_refl _) h3 (Nat.le_refl _) h5 hl l1 l2 l3 l4 hr r1 r2 r3 r4
theorem own_ifExp {j k jt kt jb kb jo ko : Nat} {t bd o} (h1 : 1 ≤ k) (h3 : k ≤ j) (h5 : j ≤ N)
    (ht : Win src σ jt kt t) (t1 : k ≤ kt) (t2 : jt ≤ j) (t3 : 1 ≤ jt) (t4 : kt ≤ N)
    (hb : Win src σ jb kb bd) (b1 : k ≤ kb) (b2 : jb ≤ j) (b3 : 1 ≤ jb) (b4 : kb ≤ N)
    (ho : Win src σ jo ko o) (o1 : k ≤ ko) (o2 : jo ≤ j) (o3 : 1 ≤ jo) (o4 : ko ≤ N) :
    Win src σ j k (.ifExp (S σ j, E σ k) t bd o) :=
  win_ifExp T h1 (Nat.le_refl _) h3 (Nat.le_refl _) h5 ht t1 t2 t3 t4 hb b1 b2 b3 b4 ho o1 o2 o3 o4
/-- `NamedExpr` lies between its name and the end of its value's window -/
theorem own_namedExpr {j0 j k : Nat} {v n} (h1 : 1 ≤ k) (h3 : k ≤ j) (h3' : j < j0) (h5 : j0 ≤ N)
    (hv : Win src σ j k v) : Win src σ j0 k (.namedExpr (S σ j0, v.range.2) (.name (Sp σ j0) n) v) :=
  win_namedExpr T h1 (Nat.le_refl _) h3 h3' (Nat.le_refl _) h5 hv
theorem own_lambda {j k ja ka jl kl jb kb : Nat} {po ar va ko kw bd} (h1 : 1 ≤ k) (h3 : k ≤ j) (h5 : j ≤ N) (a1 : k ≤ ka)
    (a2 : ka ≤ ja) (a3 : ja ≤ j) (hs : SeqP src σ jl kl (argItems po ar va ko kw))
    (l0 : argItems po ar va ko kw = [] ∨ (ka ≤ kl ∧ jl ≤ ja ∧ 1 ≤ jl ∧ kl ≤ N))
    (hb : Win src σ jb kb bd) (b1 : k ≤ kb) (b2 : jb ≤ j) (b3 : 1 ≤ jb) (b4 : kb ≤ N) :
    Win src σ j k (.lambda (S σ j, E σ k) (S σ ja, E σ ka) po ar va ko kw bd) :=
  win_lambda T h1 (Nat.le_refl _) h3 (Nat.le_refl _) h5 a1 a2 a3 hs l0 hb b1 b2 b3 b4
/-- a lambda without parameters: the `Arguments` node is the empty range at the end of the keyword token -/
theorem own_lambda_empty {j k jb kb : Nat} {po ar va ko kw bd} (h1 : 1 ≤ k) (h3 : k ≤ j) (h5 : j ≤ N)
    (h0 : argItems po ar va ko kw = []) (hb : Win src σ jb kb bd) (b1 : k ≤ kb) (b2 : jb ≤ j) (b3 : 1 ≤ jb)
    (b4 : kb ≤ N) : Win src σ j k (.lambda (S σ j, E σ k) (E σ j, E σ j) po ar va ko kw bd) := by
  obtain ⟨a, b, c⟩ := idx T (k' := k) (k := k) (j := j) (j' := j) h1 (Nat.le_refl _) h3 (Nat.le_refl _) h5
  have hj := T.own j (by omega) h5
  rw [show σ j = ((σ j).1, (σ j).2) from rfl, rgOk_iff] at hj
  have ha : rgOk src (E σ j, E σ j) := by
    rw [rgOk_iff]; exact ⟨Nat.le_refl _, hj.2.1, hj.2.2.2, hj.2.2.2⟩
  have hs' : SeqG (RSI src) (E σ j) (E σ j) (argItems po ar va ko kw) := by rw [h0]; trivial
  exact rs_lambda a b c ha hj.1 (T.EE h1 h3 h5) hs' (Nat.le_refl _) (Nat.le_refl _)
    (Win.mono T hb b2 b1 b3 (by omega) (by omega) b4)
theorem own_slice {j k : Nat} {x y z : Option RExpr} (h1 : 1 ≤ k) (h3 : k ≤ j) (h5 : j ≤ N)
    (hx : ∀ e, x = some e → Win src σ j k e) (hy : ∀ e, y = some e → Win src σ j k e)
    (hz : ∀ e, z = some e → Win src σ j k e) : Win src σ j k (.slice (S σ j, E σ k) x y z) :=
  win_slice T h1 (Nat.le_refl _) h3 (Nat.le_refl _) h5 hx hy hz
theorem own_boolOp {j k jl kl : Nat} {op es} (h1 : 1 ≤ k) (h3 : k ≤ j) (h5 : j ≤ N) (hs : SeqI src σ jl kl es)
    (l1 : k ≤ kl) (l2 : jl ≤ j) (l3 : 1 ≤ jl) (l4 : kl ≤ N) : Win src σ j k (.boolOp (S σ j, E σ k) op es) :=
  win_boolOp T h1 (Nat.le_refl _) h3 (Nat.le_refl _) h5 hs l1 l2 l3 l4
theorem own_set {j k jl kl : Nat} {es} (h1 : 1 ≤ k) (h3 : k ≤ j) (h5 : j ≤ N) (hs : SeqI src σ jl kl es)
    (l1 : k ≤ kl) (l2 : jl ≤ j) (l3 : 1 ≤ jl) (l4 : kl ≤ N) : Win src σ j k (.set (S σ j, E σ k) es) :=
  win_set T h1 (Nat.le_refl _) h3 (Nat.le_refl _) h5 hs l1 l2 l3 l4
theorem own_list {j k jl kl : Nat} {es} (h1 : 1 ≤ k) (h3 : k ≤ j) (h5 : j ≤ N) (hs : SeqI src σ jl kl es)
    (l1 : k ≤ kl) (l2 : jl ≤ j) (l3 : 1 ≤ jl) (l4 : kl ≤ N) : Win src σ j k (.list (S σ j, E σ k) es) :=
  win_list T h1 (Nat.le_refl _) h3 (Nat.le_refl _) h5 hs l1 l2 l3 l4
theorem own_tuple {j k jl kl : Nat} {es} (h1 : 1 ≤ k) (h3 : k ≤ j) (h5 : j ≤ N) (hs : SeqI src σ jl kl es)
    (l1 : k ≤ kl) (l2 : jl ≤ j) (l3 : 1 ≤ jl) (l4 : kl ≤ N) : Win src σ j k (.tuple (S σ j, E σ k) es) :=
  win_tuple T h1 (Nat.le_refl _) h3 (Nat.le_refl _) h5 hs l1 l2 l3 l4
theorem own_list_nil {j k : Nat} (h1 : 1 ≤ k) (h3 : k ≤ j) (h5 : j ≤ N) : Win src σ j k (.list (S σ j, E σ k) []) :=
  win_list_nil T h1 (Nat.le_refl _) h3 (Nat.le_refl _) h5
theorem own_tuple_nil {j k : Nat} (h1 : 1 ≤ k) (h3 : k ≤ j) (h5 : j ≤ N) : Win src σ j k (.tuple (S σ j, E σ k) []) :=
  win_tuple_nil T h1 (Nat.le_refl _) h3 (Nat.le_refl _) h5
theorem own_dict_nil {j k : Nat} (h1 : 1 ≤ k) (h3 : k ≤ j) (h5 : j ≤ N) : Win src σ j k (.dict (S σ j, E σ k) []) :=
  win_dict_nil T h1 (Nat.le_refl _) h3 (Nat.le_refl _) h5
theorem own_compare {j k jc kc jl kl : Nat} {lft ops cs} (h1 : 1 ≤ k) (h3 : k ≤ j) (h5 : j ≤ N)
    (hl : Win src σ jc kc lft) (c1 : k ≤ kc) (c2 : jc ≤ j) (c3 : 1 ≤ jc) (c4 : kc ≤ N)
    (hs : SeqI src σ jl kl cs) (l1 : k ≤ kl) (l2 : jl ≤ j) (l3 : 1 ≤ jl) (l4 : kl ≤ N) :
    Win src σ j k (.compare (S σ j, E σ k) lft ops cs) :=
  win_compare T h1 (Nat.le_refl _) h3 (Nat.le_refl _) h5 hl c1 c2 c3 c4 hs l1 l2 l3 l4
theorem own_dict {j k jl kl : Nat} {is} (h1 : 1 ≤ k) (h3 : k ≤ j) (h5 : j ≤ N) (hs : SeqD src σ jl kl is)
    (l1 : k ≤ kl) (l2 : jl ≤ j) (l3 : 1 ≤ jl) (l4 : kl ≤ N) : Win src σ j k (.dict (S σ j, E σ k) is) :=
  win_dict T h1 (Nat.le_refl _) h3 (Nat.le_refl _) h5 hs l1 l2 l3 l4
theorem own_call {j k jc kc jl kl : Nat} {fn as ks} (h1 : 1 ≤ k) (h3 : k ≤ j) (h5 : j ≤ N)
    (hf : Win src σ jc kc fn) (c1 : k ≤ kc) (c2 : jc ≤ j) (c3 : 1 ≤ jc) (c4 : kc ≤ N)
    (hs : SeqI src σ jl kl as) (hk : SeqK src σ jl kl ks) (l1 : k ≤ kl) (l2 : jl ≤ j) (l3 : 1 ≤ jl) (l4 : kl ≤ N) :
    Win src σ j k (.call (S σ j, E σ k) fn as ks) :=
  win_call T h1 (Nat.le_refl _) h3 (Nat.le_refl _) h5 hf c1 c2 c3 c4 hs hk l1 l2 l3 l4
theorem own_listComp {j k jc kc jl kl : Nat} {e gs} (h1 : 1 ≤ k) (h3 : k ≤ j) (h5 : j ≤ N)
    (he : Win src σ jc kc e) (c1 : k ≤ kc) (c2 : jc ≤ j) (c3 : 1 ≤ jc) (c4 : kc ≤ N)
    (hs : SeqC src σ jl kl gs) (l1 : k ≤ kl) (l2 : jl ≤ j) (l3 : 1 ≤ jl) (l4 : kl ≤ N) :
    Win src σ j k (.listComp (S σ j, E σ k) e gs) :=
  win_listComp T h1 (Nat.le_refl _) h3 (Nat.le_refl _) h5 he c1 c2 c3 c4 hs l1 l2 l3 l4
theorem own_setComp {j k jc kc jl kl : Nat} {e gs} (h1 : 1 ≤ k) (h3 : k ≤ j) (h5 : j ≤ N)
    (he : Win src σ jc kc e) (c1 : k ≤ kc) (c2 : jc ≤ j) (c3 : 1 ≤ jc) (c4 : kc ≤ N)
    (hs : SeqC src σ jl kl gs) (l1 : k ≤ kl) (l2 : jl ≤ j) (l3 : 1 ≤ jl) (l4 : kl ≤ N) :
    Win src σ j k (.setComp (S σ j, E σ k) e gs) :=
  win_setComp T h1 (Nat.le_refl _) h3 (Nat.le_refl _) h5 he c1 c2 c3 c4 hs l1 l2 l3 l4
theorem own_genExp {j k jc kc jl kl : Nat} {e gs} (h1 : 1 ≤ k) (h3 : k ≤ j) (h5 : j ≤ N)
    (he : Win src σ jc kc e) (c1 : k ≤ kc) (c2 : jc ≤ j) (c3 : 1 ≤ jc) (c4 : kc ≤ N)
    (hs : SeqC src σ jl kl gs) (l1 : k ≤ kl) (l2 : jl ≤ j) (l3 : 1 ≤ jl) (l4 : kl ≤ N) :
    Win src σ j k (.genExp (S σ j, E σ k) e gs) :=
  win_genExp T h1 (Nat.le_refl _) h3 (Nat.le_refl _) h5 he c1 c2 c3 c4 hs l1 l2 l3 l4
theorem own_dictComp {j k jc kc jv kv jl kl : Nat} {kk v gs} (h1 : 1 ≤ k) (h3 : k ≤ j) (h5 : j ≤ N)
    (hk : Win src σ jc kc kk) (c1 : k ≤ kc) (c2 : jc ≤ j) (c3 : 1 ≤ jc) (c4 : kc ≤ N)
    (hv : Win src σ jv kv v) (v1 : k ≤ kv) (v2 : jv ≤ j) (v3 : 1 ≤ jv) (v4 : kv ≤ N)
    (hs : SeqC src σ jl kl gs) (l1 : k ≤ kl) (l2 : jl ≤ j) (l3 : 1 ≤ jl) (l4 : kl ≤ N) :
    Win src σ j k (.dictComp (S σ j, E σ k) kk v gs) :=
  win_dictComp T h1 (Nat.le_refl _) h3 (Nat.le_refl _) h5 hk c1 c2 c3 c4 hv v1 v2 v3 v4 hs l1 l2 l3 l4

/-- growing sequences -/
theorem seqI_snoc' {jl m j2 k2 : Nat} {x xs} (hs : SeqI src σ jl m xs) (hx : Win src σ j2 k2 x)
    (h0 : m ≤ jl) (h0' : jl ≤ N) (h1 : 1 ≤ j2) (h2 : j2 < m) (h4 : 1 ≤ k2) (h6 : k2 ≤ N) :
    SeqI src σ jl k2 (xs ++ [x]) := seqI_snoc T hs hx h0 h0' h1 h2 h4 (Nat.le_refl _) h6
theorem seqK_snoc' {jl m j2 k2 : Nat} {x xs} (hs : SeqK src σ jl m xs) (hx : WinK src σ j2 k2 x)
    (h0 : m ≤ jl) (h0' : jl ≤ N) (h1 : 1 ≤ j2) (h2 : j2 < m) (h4 : 1 ≤ k2) (h6 : k2 ≤ N) :
    SeqK src σ jl k2 (xs ++ [x]) := seqK_snoc T hs hx h0 h0' h1 h2 h4 (Nat.le_refl _) h6

theorem own_rsd_none {j2 k : Nat} {v} (hv : Win src σ j2 k v) (h1 : 1 ≤ j2) (h3 : j2 ≤ N) :
    WinD src σ j2 k (.mk none v) := rsd_idx_none T hv h1 (Nat.le_refl _) h3

end own

grind_pattern Win.mono => TiledTab src σ N, Win src σ j k e, Win src σ j' k' e
grind_pattern own_name => TiledTab src σ N, RExpr.name (Sp σ k) id
grind_pattern own_const => TiledTab src σ N, RExpr.const (Sp σ k) c
grind_pattern own_const' => TiledTab src σ N, RExpr.const (S σ j, E σ k) c
grind_pattern own_yield_none => TiledTab src σ N, RExpr.yield (Sp σ k) none
grind_pattern own_unaryOp => TiledTab src σ N, Win src σ jc kc e, RExpr.unaryOp (S σ j, E σ k) op e
grind_pattern own_await => TiledTab src σ N, Win src σ jc kc e, RExpr.await (S σ j, E σ k) e
grind_pattern own_yieldFrom => TiledTab src σ N, Win src σ jc kc e, RExpr.yieldFrom (S σ j, E σ k) e
grind_pattern own_starred => TiledTab src σ N, Win src σ jc kc e, RExpr.starred (S σ j, E σ k) e
grind_pattern own_attribute => TiledTab src σ N, Win src σ jc kc e, RExpr.attribute (S σ j, E σ k) e n
grind_pattern own_yield_some => TiledTab src σ N, Win src σ jc kc e, RExpr.yield (S σ j, E σ k) (some e)
grind_pattern own_binOp => TiledTab src σ N, Win src σ jl kl l, Win src σ jr kr r, RExpr.binOp (S σ j, E σ k) l op r
grind_pattern own_subscript => TiledTab src σ N, Win src σ jl kl v, Win src σ jr kr s, RExpr.subscript (S σ j, E σ k) v s
grind_pattern own_ifExp => TiledTab src σ N, Win src σ jt kt t, Win src σ jb kb bd, Win src σ jo ko o,
  RExpr.ifExp (S σ j, E σ k) t bd o
grind_pattern own_namedExpr => TiledTab src σ N, Win src σ j k v,
  RExpr.namedExpr (S σ j0, v.range.2) (RExpr.name (Sp σ j0) n) v
grind_pattern own_lambda => TiledTab src σ N, Win src σ jb kb bd, SeqP src σ jl kl (argItems po ar va ko kw),
  RExpr.lambda (S σ j, E σ k) (S σ ja, E σ ka) po ar va ko kw bd
grind_pattern own_lambda_empty => TiledTab src σ N, Win src σ jb kb bd,
  RExpr.lambda (S σ j, E σ k) (E σ j, E σ j) po ar va ko kw bd
grind_pattern own_slice => TiledTab src σ N, RExpr.slice (S σ j, E σ k) x y z
grind_pattern own_boolOp => TiledTab src σ N, SeqI src σ jl kl es, RExpr.boolOp (S σ j, E σ k) op es
grind_pattern own_set => TiledTab src σ N, SeqI src σ jl kl es, RExpr.set (S σ j, E σ k) es
grind_pattern own_list => TiledTab src σ N, SeqI src σ jl kl es, RExpr.list (S σ j, E σ k) es
grind_pattern own_tuple => TiledTab src σ N, SeqI src σ jl kl es, RExpr.tuple (S σ j, E σ k) es
grind_pattern own_list_nil => TiledTab src σ N, RExpr.list (S σ j, E σ k) []
grind_pattern own_tuple_nil => TiledTab src σ N, RExpr.tuple (S σ j, E σ k) []
grind_pattern own_dict_nil => TiledTab src σ N, RExpr.dict (S σ j, E σ k) []
grind_pattern own_compare => TiledTab src σ N, Win src σ jc kc lft, SeqI src σ jl kl cs,
  RExpr.compare (S σ j, E σ k) lft ops cs
grind_pattern own_dict => TiledTab src σ N, SeqD src σ jl kl is, RExpr.dict (S σ j, E σ k) is
grind_pattern own_call => TiledTab src σ N, Win src σ jc kc fn, SeqI src σ jl kl as, SeqK src σ jl kl ks,
  RExpr.call (S σ j, E σ k) fn as ks
grind_pattern own_listComp => TiledTab src σ N, Win src σ jc kc e, SeqC src σ jl kl gs, RExpr.listComp (S σ j, E σ k) e gs
grind_pattern own_setComp => TiledTab src σ N, Win src σ jc kc e, SeqC src σ jl kl gs, RExpr.setComp (S σ j, E σ k) e gs
grind_pattern own_genExp => TiledTab src σ N, Win src σ jc kc e, SeqC src σ jl kl gs, RExpr.genExp (S σ j, E σ k) e gs
grind_pattern own_dictComp => TiledTab src σ N, Win src σ jc kc kk, Win src σ jv kv v, SeqC src σ jl kl gs,
  RExpr.dictComp (S σ j, E σ k) kk v gs
grind_pattern seqI_nil => SeqI src σ j k []
grind_pattern seqK_nil => SeqK src σ j k []
grind_pattern seqD_nil => SeqD src σ j k []
grind_pattern seqI_single => Win src σ j k x, [x]
grind_pattern seqC_single => WinC src σ j k x, [x]
grind_pattern seqD_single => WinD src σ j k x, [x]
grind_pattern seqI_mono => TiledTab src σ N, SeqI src σ j k xs, SeqI src σ j' k' xs
grind_pattern seqK_mono => TiledTab src σ N, SeqK src σ j k xs, SeqK src σ j' k' xs
grind_pattern seqC_mono => TiledTab src σ N, SeqC src σ j k xs, SeqC src σ j' k' xs
grind_pattern seqD_mono => TiledTab src σ N, SeqD src σ j k xs, SeqD src σ j' k' xs
grind_pattern seqI_cons => TiledTab src σ N, Win src σ j m x, SeqI src σ j2 k xs, x :: xs
grind_pattern seqC_cons => TiledTab src σ N, WinC src σ j m x, SeqC src σ j2 k xs, x :: xs
grind_pattern seqD_cons => TiledTab src σ N, WinD src σ j m x, SeqD src σ j2 k xs, x :: xs
grind_pattern seqI_snoc' => TiledTab src σ N, SeqI src σ jl m xs, Win src σ j2 k2 x, xs ++ [x]
grind_pattern seqK_snoc' => TiledTab src σ N, SeqK src σ jl m xs, WinK src σ j2 k2 x, xs ++ [x]
grind_pattern rsk_idx => TiledTab src σ N, Win src σ jc kc v, RKeyword.mk (S σ j, E σ k) n v
grind_pattern rsc_idx => TiledTab src σ N, Win src σ jt kt t, Win src σ ji ki i, SeqI src σ jl kl ifs,
  RComp.mk (S σ j, E σ k) t i ifs as
grind_pattern rsd_idx_some => TiledTab src σ N, Win src σ j m1 kk, Win src σ j2 k v, RDictItem.mk (some kk) v
grind_pattern own_rsd_none => TiledTab src σ N, Win src σ j2 k v, RDictItem.mk none v


/-! ### how many tokens the token-level helpers take -/

theorem binOpAt_len {lvl ts o r} (h : binOpAt lvl ts = some (o, r)) : ts.length = r.length + 1 := by
  unfold binOpAt at h
  split at h
  · split at h
    · split at h <;> simp_all
    · simp at h
  · simp at h

theorem unaryOpAt_len {ts o r} (h : unaryOpAt ts = some (o, r)) : ts.length = r.length + 1 := by
  unfold unaryOpAt at h
  split at h <;> simp_all

theorem cmpOpAt_len {ts o r} (h : cmpOpAt ts = some (o, r)) : r.length < ts.length := by
  unfold cmpOpAt at h
  split at h <;> simp_all <;> omega

end PV.C02
