import PV.C02.Model
import PV.C02.Lemmas
/-
  C02 — property theorems about `rangesOk` (the structural half of the property: ranges inside the input,
  on character boundaries, start ≤ end, parents enclose children except decorators, list siblings ordered and
  disjoint).  The equality with the reference extents is judged by the Python oracle against CPython
  (tools/props/c02.py); see design/C02.md.
-/
namespace PV.C02

/-- For every node `n` anywhere in a tree that passes `rangesOk`: its range is a well-formed slice of the
    source — start ≤ end ≤ length, both ends on UTF-8 character boundaries — so `source[range]` is defined. -/
theorem rangesOk_node (src : List Nat) (t n : Tree) (h : rangesOk src t = true) (hn : Sub t n)
    (a b : Nat) (hr : n.range = some (a, b)) :
    a ≤ b ∧ b ≤ src.length ∧ isBoundary src a = true ∧ isBoundary src b = true := by
  obtain ⟨par, hk⟩ := ok_sub hn h
  have := ok_own hk
  rw [hr] at this
  simp only [ownOk, Bool.and_eq_true, decide_eq_true_eq] at this
  exact ⟨this.1.1.1, this.1.1.2, this.1.2, this.2⟩

/-- `rangesOk_slice`: for every node `p` in a checked tree and every direct child `c` outside a decorator
    list, the child's slice is a sub-slice of the parent's slice, at the expected offset. -/
theorem rangesOk_slice (src : List Nat) (t p c : Tree) (h : rangesOk src t = true) (hp : Sub t p)
    (hc : c ∈ p.children) (hd : exemptEnclose c.slot = false)
    (a b c1 c2 : Nat) (hpr : p.range = some (a, b)) (hcr : c.range = some (c1, c2)) :
    a ≤ c1 ∧ c2 ≤ b ∧ slice src (c1, c2) = ((slice src (a, b)).drop (c1 - a)).take (c2 - c1) := by
  obtain ⟨par, hk⟩ := ok_sub hp h
  cases p with
  | node k slot il r cs =>
    simp only [Tree.range] at hpr
    simp only [Tree.children] at hc
    subst hpr
    simp only [ok, Bool.and_eq_true] at hk
    have hcok := okList_mem hk.2 hc
    cases c with
    | node k' slot' il' r' cs' =>
      simp only [Tree.range] at hcr
      simp only [Tree.slot] at hd
      subst hcr
      simp only [ok, Bool.and_eq_true, Option.orElse] at hcok
      have he := hcok.1.1.2
      have ho := hcok.1.1.1
      simp only [enclOk, hd, Bool.false_or, Bool.and_eq_true, decide_eq_true_eq] at he
      simp only [ownOk, Bool.and_eq_true, decide_eq_true_eq] at ho
      exact ⟨he.1, he.2, slice_sub src a b c1 c2 he.1 ho.1.1.1 he.2⟩

/-- consecutive elements of one list field of a checked node are in source order and do not overlap -/
theorem rangesOk_siblings (src : List Nat) (t p : Tree) (h : rangesOk src t = true) (hp : Sub t p)
    (pre post : List Tree) (x y : Tree) (hcs : p.children = pre ++ x :: y :: post)
    (hs : x.slot = y.slot) (hx : x.inList = true) (hy : y.inList = true)
    (he : exemptOrder p.kind x.slot = false)
    (a b c d : Nat) (rx : x.range = some (a, b)) (ry : y.range = some (c, d)) : b ≤ c := by
  obtain ⟨par, hk⟩ := ok_sub hp h
  cases p with
  | node k slot il r cs =>
    simp only [Tree.children] at hcs
    simp only [Tree.kind] at he
    simp only [ok, Bool.and_eq_true] at hk
    have := hk.1.2
    rw [hcs] at this
    exact sibsOk_adjacent k pre x y post this hs hx hy he a b c d rx ry

/-- the reporting variant evaluated by the driver finds nothing exactly when `rangesOk` holds -/
theorem viol_nil_iff (src : List Nat) (t : Tree) : viol src none "root" t = [] ↔ rangesOk src t = true :=
  viol_nil_iff_top src t

/-- non-vacuity: `f(é)` as bytes `66 28 c3 a9 29`; Call 0..5 with func 0..1 and one argument 2..4 -/
example : rangesOk [0x66, 0x28, 0xc3, 0xa9, 0x29]
    (.node "ExprCall" "value" false (some (0, 5))
      [.node "ExprName" "func" false (some (0, 1)) [], .node "ExprName" "args" true (some (2, 4)) []]) = true := by decide
/-- an end offset inside the two-byte character is rejected -/
example : rangesOk [0x66, 0x28, 0xc3, 0xa9, 0x29]
    (.node "ExprCall" "value" false (some (0, 5)) [.node "ExprName" "args" true (some (2, 3)) []]) = false := by decide

end PV.C02
