import PV.C02.RProgSound4
import PV.C02.RThm
/-
  C02 — property theorems about the MODEL of range computation for whole PROGRAMS, `PV.C02.parseRProgram`
  (PV/C02/RProg.lean), the ranged twin of the reference program parser `PV.Prog.parseProgram`:

  * `parseRProgram_erase` (RProgErase.lean) erasing the ranges gives exactly `parseProgram`'s result, so PROG's theorems transfer;
  * `parseRProgram_rangesOk_partial`  for token spans that tile the source, every accepted program without f-string
                       pieces passes `rangesOk`: all five structural clauses of the property for the WHOLE tree
                       (statements, patterns, handlers, match cases, aliases, with-items, type parameters, `Arguments`,
                       decorators exempt from enclosure as the property says), by induction over the parser functions;
  * `parseRProgram_extent`  small statements are ranged exactly by the tokens they consumed; compound statements start
                       at their first token (behind the decorators) and end at the end of a token they consumed — the end
                       of their last statement;
  * kernel-checked witnesses that the model reproduces the listed findings that concern statements.
-/
set_option linter.unusedSimpArgs false
set_option linter.unusedVariables false
namespace PV.C02
open PV.Expr PV.C11 PV.Prog

/-! ### tiled spans of a statement-level token list -/

/-- the spans of a spanned program token list tile the source (what C05 proves of the lexer model, `tiled_of_lexer`) -/
def TiledP (src : List Nat) (toks : List RPTok) : Prop :=
  Tiled src (toks.map fun t => (⟨t.tok.toTok, t.s, t.e⟩ : RTok))

theorem pspanTab_eq (toks : List RPTok) : pspanTab toks = spanTab (toks.map fun t => (⟨t.tok.toTok, t.s, t.e⟩ : RTok)) := by
  unfold pspanTab spanTab
  simp [List.map_map, Function.comp_def]

theorem tiledTab_of_tiledP {src : List Nat} {toks : List RPTok} (h : TiledP src toks) :
    TiledTab src (pspanTab toks) toks.length := by
  have := tiledTab_of_tiled h
  rw [pspanTab_eq]
  simpa using this

/-- **Bridge to C05** for program tokens: the byte spans of any sub-sequence of the token stream of the lexer MODEL tile
    the UTF-8 encoding of the source, and offset 0 is a character boundary of it (the two hypotheses of
    `parseRProgram_rangesOk_partial`).  Spans only, as in `tiled_of_lexer`. -/
theorem tiledP_of_lexer {cfg : PV.Lexer.Cfg} (hs : cfg.up.Sane) {mode : PV.Lexer.Mode} {src : List Nat}
    {out : PV.Lexer.LexOut} (h : PV.Lexer.lex cfg mode 0 src = some out) (toks : List RPTok)
    (hsub : List.Sublist (toks.map fun t => (t.s, t.e)) (out.toks.map fun t => (t.bs, t.be))) :
    TiledP (PV.utf8Encode src) toks ∧ isBoundary (PV.utf8Encode src) 0 = true := by
  refine ⟨tiled_of_lexer hs h _ (by simpa [List.map_map, Function.comp_def] using hsub), ?_⟩
  have := isBoundary_append [] (PV.utf8Encode src) (encode_head_lead src)
  simpa using this

/-! ### the trees the ranged program parser returns pass `rangesOk` -/

theorem pspanTab_nil (k : Nat) : pspanTab [] k = (0, 0) := by simp [pspanTab, tabOf]

/-- **Structural half of the property for the model of whole programs, unbounded.**  For every source, every token
    list (after the soft-keyword pass, without the start marker) whose spans tile the source, every mode: if the ranged
    program parser accepts and the tree is plain (no f-string pieces), then the whole tree passes `rangesOk`: every
    node — `Mod*`, statements, patterns, handlers, match cases, aliases, with-items, type parameters, `Arguments` /
    `ArgWithDefault` / `Arg`, keywords, comprehensions, expressions — has a range inside the input, on character
    boundaries, with start ≤ end, that encloses the ranges of all nodes beneath it (the decorators of a definition
    excepted, as in the property: they precede the `def` / `class` keyword the node starts at), and the elements of
    every list field are in source order without overlap.  (`h0`: offset 0 is a character boundary — true of every
    UTF-8 text; only used for the empty token list, whose `Mod*` node is ranged `0..0`.) -/
theorem parseRProgram_rangesOk_partial {src : List Nat} {toks : List RPTok} (h : TiledP src toks)
    (h0 : isBoundary src 0 = true) {mode : Mode} {m : RMod} (hp : parseRProgram mode toks = some m)
    (hpl : plainM m = true) : rangesOk src m.tree = true := by
  have T := tiledTab_of_tiledP h
  unfold parseRProgram parseRProgramFuel at hp
  generalize PV.Prog.fuelFor (toks.map fun t => t.tok.toTok) = fuel at hp
  generalize hts : (toks.map fun t => t.tok.toTok) = ts at hp
  have hlen : ts.length = toks.length := by rw [← hts]; simp
  have hN : ts.length ≤ toks.length := by omega
  -- the range of the `Mod*` node
  have hrg : rgOk src (L (pspanTab toks) ts, R (pspanTab toks) []) := by
    by_cases hz : toks = []
    · subst hz
      simp only [List.map_nil] at hts
      subst hts
      simp only [L, R, List.length_nil, pspanTab_nil]
      rw [rgOk_iff]
      exact ⟨Nat.le_refl _, Nat.zero_le _, h0, h0⟩
    · have : 1 ≤ toks.length := by cases toks <;> simp_all
      simp only [L, R, List.length_nil]
      exact T.win (Nat.le_refl _) (by omega) hN
  unfold parseRTopT at hp
  have body : ∀ (b : List RStmt), parseRProgramBody (pspanTab toks) fuel ts = some b → plainSs b = true →
      ∀ kind, TF src 0 src.length (.node kind "root" false (some (L (pspanTab toks) ts, R (pspanTab toks) [])) (stmtTrees "body" b)) := by
    intro b hb hpb kind
    obtain ⟨g1, g2⟩ := programBody_sound T fuel ts b hN hb
    refine TF.ofKids hrg (Nat.zero_le _) ((rgOk_iff _ _ _).mp hrg).2.1 (slots := ["body"]) ?_
    rcases g2 with rfl | g2
    · exact ⟨by simp [stmtTrees, sibsOk], by simp [stmtTrees, okList], by simp [stmtTrees]⟩
    · exact kids_stmts T "body" g1 hpb (Or.inr ⟨Nat.le_refl _, Nat.le_refl _, g2, by omega⟩) (Nat.le_refl _) hN
  cases mode with
  | module =>
    simp only at hp
    split at hp
    · rename_i b hb
      simp only [Option.some.injEq] at hp; subst hp
      exact (body b hb hpl "ModModule").toOk_root
    · cases hp
  | interactive =>
    simp only at hp
    split at hp
    · rename_i b hb
      simp only [Option.some.injEq] at hp; subst hp
      exact (body b hb hpl "ModInteractive").toOk_root
    · cases hp
  | expression =>
    simp only at hp
    split at hp
    · rename_i e r he
      split at hp
      · simp only [Option.some.injEq] at hp; subst hp
        obtain ⟨g1, g2, _⟩ := testListS_sound T fuel ts e r hN he
        have hpos : 1 ≤ ts.length := by omega
        have : TF src 0 src.length (.node "ModExpression" "root" false (some (L (pspanTab toks) ts, R (pspanTab toks) []))
            [e.toTree "body" false]) := by
          refine TF.ofKids hrg (Nat.zero_le _) ((rgOk_iff _ _ _).mp hrg).2.1 (slots := ["body"]) ?_
          exact kids_expr T g2 hpl (by simp) (Nat.le_refl _) hpos (by omega) (by simp) hN
        exact this.toOk_root
      · cases hp
    · cases hp

/-- the statement for EVERY accepted program (f-string pieces too): what the property demands; `…_partial` proves it
    for the trees without f-string pieces — stated, neither proved nor refuted for the others -/
def parseRProgram_rangesOk_full : Prop :=
  ∀ (src : List Nat) (toks : List RPTok) (mode : Mode) (m : RMod), TiledP src toks → isBoundary src 0 = true →
    parseRProgram mode toks = some m → rangesOk src m.tree = true

/-- the body of a module / interactive parse -/
def RMod.body : RMod → List RStmt
  | .module _ b => b
  | .interactive _ b => b
  | .expression _ _ => []

/-- non-vacuity: `@d⏎class C: x = 1⏎` (18 bytes) is tiled by its ten tokens, parses, is plain; the `ClassDef` is ranged
    3..17 — it starts at `class`, its decorator 1..2 lies in front of it (the property's exemption) — and the tree
    passes `rangesOk` -/
def decoSrc : List Nat := [64, 100, 10, 99, 108, 97, 115, 115, 32, 67, 58, 32, 120, 32, 61, 32, 49, 10]
def decoToks : List RPTok :=
  [⟨.e (.op .at), 0, 1⟩, ⟨.e (.name [100]), 1, 2⟩, ⟨.newline, 2, 3⟩, ⟨.e (.kw (.other [99, 108, 97, 115, 115])), 3, 8⟩,
   ⟨.e (.name [67]), 9, 10⟩, ⟨.e (.op .colon), 10, 11⟩, ⟨.e (.name [120]), 12, 13⟩, ⟨.e (.op .assign), 14, 15⟩,
   ⟨.e (.int 1), 16, 17⟩, ⟨.newline, 17, 18⟩]
example : TiledP decoSrc decoToks := by
  refine ⟨?_, ?_⟩
  · intro t ht
    simp only [decoToks, List.map_cons, List.map_nil, List.mem_cons, List.not_mem_nil, or_false] at ht
    rcases ht with rfl | rfl | rfl | rfl | rfl | rfl | rfl | rfl | rfl | rfl <;> decide
  · simp [decoToks]
example : isBoundary decoSrc 0 = true := by decide
example : ((parseRProgram .module decoToks).map fun m => (m.range, m.body.map RStmt.range, plainM m)) =
    some ((0, 18), [(3, 17)], true) := by decide
example : ((parseRProgram .module decoToks).map fun m => rangesOk decoSrc m.tree) = some true := by decide

/-! ### extents: the range of a statement is the span of the tokens it was parsed from -/

/-- **Extent of the returned statements.**  For a tiled span table, at every fuel and cursor `ts`:
    * a SMALL statement (`SmallStatement`: expression statement, assignment, `pass`, `del`, `return`, `raise`, `import`,
      `global`, `assert`, `type` …) is ranged EXACTLY by the tokens it consumed: from the start of the first to the end
      of the last one;
    * a COMPOUND statement starts at the start of a token `j` of its own — its FIRST token unless it is decorated (then
      the `def` / `class` / `async` behind its decorators) — and ends at the END OF A TOKEN IT CONSUMED, `k`, which is
      the DERIVED end of the grammar action (`derivedEnd`): the end of the last statement of its last non-empty block
      (`finalbody`, else `orelse`, else the last handler / the last case / `body`) — the tokens behind it that the
      statement also consumed, a closing `;`, the NEWLINE, DEDENTs, are outside: listed finding
      `compound-end-excludes-trailing-semicolon`;
    * a statement line / suite / block ends (`lastEnd`) at the end of a token it consumed, and so do the handler list
      and the case list of `try` / `match`.
    With `rangesOk_slice` this fixes the text a slice by the range yields: the statement's tokens and the gaps between
    them. -/
theorem parseRProgram_extent {src : List Nat} {σ : SpanTab} {N : Nat} (T : TiledTab src σ N) (fuel : Nat) (ts : List Tok)
    (hN : ts.length ≤ N) :
    (∀ s rest, parseRSmall σ fuel ts = some (s, rest) →
      rest.length < ts.length ∧ s.range = (S σ ts.length, E σ (rest.length + 1))) ∧
    (∀ s rest, parseRCompound σ fuel ts = some (s, rest) →
      rest.length < ts.length ∧ ∃ j k, rest.length + 1 ≤ k ∧ k ≤ j ∧ j ≤ ts.length ∧ s.range = (S σ j, E σ k) ∧
        ((∀ r, ts ≠ .op .at :: r) → j = ts.length) ∧ derivedEnd s = some s.range.2) ∧
    (∀ ss rest, parseRSimpleLine σ fuel ts = some (ss, rest) →
      ∃ k, rest.length + 1 ≤ k ∧ k ≤ ts.length ∧ lastEnd ss = E σ k) ∧
    (∀ ss rest, parseRSuite σ fuel ts = some (ss, rest) →
      ∃ k, rest.length + 1 ≤ k ∧ k ≤ ts.length ∧ lastEnd ss = E σ k) ∧
    (∀ star hs rest, parseRHandlers σ fuel star ts = some (hs, rest) →
      ∃ k, rest.length + 1 ≤ k ∧ k ≤ ts.length ∧ handlersEnd hs = E σ k) ∧
    (∀ cs rest, parseRCases σ fuel ts = some (cs, rest) →
      ∃ k, rest.length + 1 ≤ k ∧ k ≤ ts.length ∧ casesEnd cs = E σ k) := by
  have C := compSAt T fuel
  refine ⟨fun s rest h => ?_, fun s rest h => ?_, fun ss rest h => ?_, fun ss rest h => ?_, fun star hs rest h => ?_,
    fun cs rest h => ?_⟩
  · obtain ⟨g1, _, g3⟩ := small_sound T fuel ts s rest hN h
    exact ⟨g1, g3⟩
  · obtain ⟨g1, j, k, g2, g3, g4, g5, _, g7, g8⟩ := C.compound ts s rest hN h
    exact ⟨g1, j, k, g2, g3, g4, g5, g7, g8⟩
  · obtain ⟨_, _, k, g2, g3, g4, _⟩ := simpleLine_sound T fuel ts ss rest hN h
    exact ⟨k, g2, g3, g4⟩
  · obtain ⟨_, _, k, g2, g3, g4, _⟩ := C.suite ts ss rest hN h
    exact ⟨k, g2, g3, g4⟩
  · obtain ⟨_, _, k, g2, g3, g4, _⟩ := C.handlers star ts hs rest hN h
    exact ⟨k, g2, g3, g4⟩
  · obtain ⟨_, _, k, g2, g3, g4, _⟩ := C.cases ts cs rest hN h
    exact ⟨k, g2, g3, g4⟩

/-- non-vacuity of `parseRProgram_extent`: `@d⏎class C: x = 1⏎` — the `ClassDef` 3..17 starts at its fourth token
    (`class`, 3..8) and ends with its ninth (`1`, 16..17); the NEWLINE 17..18 it also consumed is outside -/
example : ((parseRCompound (pspanTab decoToks) 60 (decoToks.map fun t => t.tok.toTok)).map fun p => (p.1.range, p.2.length)) =
    some ((3, 17), 0) := by decide

/-! ### the model reproduces the listed findings that concern statements -/

/-- `if a:⏎    b;⏎c⏎` -/
def semiToks : List RPTok :=
  [⟨.e (.kw .if), 0, 2⟩, ⟨.e (.name [97]), 3, 4⟩, ⟨.e (.op .colon), 4, 5⟩, ⟨.newline, 5, 6⟩, ⟨.indent, 6, 10⟩,
   ⟨.e (.name [98]), 10, 11⟩, ⟨.e (.op (.other [59])), 11, 12⟩, ⟨.newline, 12, 13⟩, ⟨.dedent, 13, 13⟩,
   ⟨.e (.name [99]), 13, 14⟩, ⟨.newline, 14, 15⟩]

/-- Listed finding `compound-end-excludes-trailing-semicolon`, reproduced by the model: the `If` of `if a:⏎    b;⏎c` is
    ranged 0..11 — it ends where its last statement `b` (10..11) ends; the reference (CPython) includes the `;` that
    closes the block: 0..12. -/
theorem compound_end_semicolon_witness :
    ((parseRProgram .module semiToks).map fun m => m.body.map RStmt.range) = some [(0, 11), (13, 14)] := by decide

/-- `match (a), b:⏎ case _: pass⏎` -/
def matchToks : List RPTok :=
  [⟨.e (.kw (.other [109, 97, 116, 99, 104])), 0, 5⟩, ⟨.e (.op .lpar), 6, 7⟩, ⟨.e (.name [97]), 7, 8⟩,
   ⟨.e (.op .rpar), 8, 9⟩, ⟨.e (.op .comma), 9, 10⟩, ⟨.e (.name [98]), 11, 12⟩, ⟨.e (.op .colon), 12, 13⟩,
   ⟨.newline, 13, 14⟩, ⟨.indent, 14, 15⟩, ⟨.e (.kw (.other [99, 97, 115, 101])), 15, 19⟩, ⟨.e (.name [95]), 20, 21⟩,
   ⟨.e (.op .colon), 21, 22⟩, ⟨.e (.kw (.other [112, 97, 115, 115])), 23, 27⟩, ⟨.newline, 27, 28⟩, ⟨.dedent, 28, 28⟩]

def subjectRange : RStmt → Option Rg
  | .match _ s _ => some s.range
  | _ => none

/-- Listed finding `match-subject-tuple-range-excludes-element-parentheses`, reproduced by the model: the implicit
    subject tuple of `match (a), b:` is ranged 7..12 — from the start of the NODE `a` to the end of `b`, without the
    parentheses of its first element; the reference (CPython): 6..12. -/
theorem match_subject_tuple_witness :
    ((parseRProgram .module matchToks).map fun m => m.body.map subjectRange) = some [some (7, 12)] := by decide

/-- `def f(a=(1)): pass⏎` -/
def defParenToks : List RPTok :=
  [⟨.e (.kw (.other [100, 101, 102])), 0, 3⟩, ⟨.e (.name [102]), 4, 5⟩, ⟨.e (.op .lpar), 5, 6⟩, ⟨.e (.name [97]), 6, 7⟩,
   ⟨.e (.op .assign), 7, 8⟩, ⟨.e (.op .lpar), 8, 9⟩, ⟨.e (.int 1), 9, 10⟩, ⟨.e (.op .rpar), 10, 11⟩,
   ⟨.e (.op .rpar), 11, 12⟩, ⟨.e (.op .colon), 12, 13⟩, ⟨.e (.kw (.other [112, 97, 115, 115])), 14, 18⟩, ⟨.newline, 18, 19⟩]

def firstArgDRanges : RStmt → Option (Rg × Rg × Rg)
  | .functionDef _ _ a _ _ _ _ => (a.args.head?.map fun p => (a.rg, p.rg, p.arg.rg))
  | _ => none

/-- Listed finding `argwithdefault-range-excludes-default-closing-parenthesis` in a `def`, reproduced by the model: in
    `def f(a=(1)): pass` the `Arguments` node is 6..11 (`a=(1)`), the `ArgWithDefault` 6..10 = `a=(1` — it ends at the end
    of the default's NODE — and the `Arg` 6..7. -/
theorem def_argwithdefault_paren_witness :
    ((parseRProgram .module defParenToks).map fun m => m.body.map firstArgDRanges) =
      some [some ((6, 11), (6, 10), (6, 7))] := by decide

/-- `with (a, b): pass⏎` -/
def withToks : List RPTok :=
  [⟨.e (.kw (.other [119, 105, 116, 104])), 0, 4⟩, ⟨.e (.op .lpar), 5, 6⟩, ⟨.e (.name [97]), 6, 7⟩,
   ⟨.e (.op .comma), 7, 8⟩, ⟨.e (.name [98]), 9, 10⟩, ⟨.e (.op .rpar), 10, 11⟩, ⟨.e (.op .colon), 11, 12⟩,
   ⟨.e (.kw (.other [112, 97, 115, 115])), 13, 17⟩, ⟨.newline, 17, 18⟩]

def itemRanges : RStmt → List Rg
  | .with _ items _ => items.map (·.rg)
  | _ => []

/-- Former finding `with-parenthesised-items-share-range` (repaired in /repo 14693ce), a regression fact of the model:
    the two items of `with (a, b): pass` are ranged 6..7 and 9..10 (each like its expression), the tree passes
    `rangesOk`.  Before the repair both were 6..10. -/
theorem with_items_regression :
    ((parseRProgram .module withToks).map fun m => m.body.map itemRanges) = some [[(6, 7), (9, 10)]] ∧
    ((parseRProgram .module withToks).map fun m =>
      rangesOk [119, 105, 116, 104, 32, 40, 97, 44, 32, 98, 41, 58, 32, 112, 97, 115, 115, 10] m.tree) = some true := by
  constructor <;> decide

end PV.C02
