import PV.C02.Model
/-! Helper lemmas for C02. -/
namespace PV.C02

/-- `n` occurs in `t` (reflexive-transitive child relation) -/
inductive Sub : Tree → Tree → Prop
  | refl (t : Tree) : Sub t t
  | step {t c n : Tree} : c ∈ t.children → Sub c n → Sub t n

theorem okList_mem {src par} : ∀ {cs : List Tree} {c : Tree}, okList src par cs = true → c ∈ cs → ok src par c = true
  | [], _, _, h => by simp at h
  | t :: ts, c, hk, hm => by
    simp only [okList, Bool.and_eq_true] at hk
    rcases List.mem_cons.mp hm with rfl | h
    · exact hk.1
    · exact okList_mem hk.2 h

/-- every node of a checked tree is itself checked under some enclosing range -/
theorem ok_sub {src : List Nat} : ∀ {t n : Tree} {par}, Sub t n → ok src par t = true → ∃ par', ok src par' n = true := by
  intro t n par h
  induction h generalizing par with
  | refl t => intro hk; exact ⟨par, hk⟩
  | @step t c n hc _ ih =>
    intro hk
    cases t with
    | node k slot il r cs =>
      simp only [ok, Bool.and_eq_true] at hk
      exact ih (okList_mem hk.2 hc)

theorem ok_own {src par} {t : Tree} (h : ok src par t = true) : ownOk src t.range = true := by
  cases t with
  | node k slot il r cs => simp only [ok, Bool.and_eq_true] at h; exact h.1.1.1

theorem sibsOk_adjacent (pk : String) : ∀ (pre : List Tree) (x y : Tree) (post : List Tree),
    sibsOk pk (pre ++ x :: y :: post) = true →
    x.slot = y.slot → x.inList = true → y.inList = true → exemptOrder pk x.slot = false →
    ∀ a b c d, x.range = some (a, b) → y.range = some (c, d) → b ≤ c
  | [], x, y, post, h, hs, hx, hy, he, a, b, c, d, rx, ry => by
    simp only [List.nil_append, sibsOk, Bool.and_eq_true] at h
    have h1 := h.1
    have he' : exemptOrder pk y.slot = false := hs ▸ he
    simp [hs, hx, hy, he', rx, ry] at h1
    exact h1
  | [p], x, y, post, h, hs, hx, hy, he, a, b, c, d, rx, ry => by
    simp only [List.cons_append, List.nil_append, sibsOk, Bool.and_eq_true] at h
    exact sibsOk_adjacent pk [] x y post (by simpa [sibsOk] using h.2) hs hx hy he a b c d rx ry
  | p :: q :: pre, x, y, post, h, hs, hx, hy, he, a, b, c, d, rx, ry => by
    simp only [List.cons_append, sibsOk, Bool.and_eq_true] at h
    exact sibsOk_adjacent pk (q :: pre) x y post (by simpa using h.2) hs hx hy he a b c d rx ry

theorem slice_sub (src : List Nat) (a b c d : Nat) (h1 : a ≤ c) (h2 : c ≤ d) (h3 : d ≤ b) :
    slice src (c, d) = ((slice src (a, b)).drop (c - a)).take (d - c) := by
  unfold slice
  simp only
  rw [List.drop_take, List.drop_drop, List.take_take]
  have e1 : a + (c - a) = c := by omega
  have e2 : min (d - c) (b - a - (c - a)) = d - c := by omega
  rw [e1, e2]

theorem sibViol_nil_iff (pk : String) : ∀ cs, sibViol pk cs = [] ↔ sibsOk pk cs = true
  | [] => by simp [sibViol, sibsOk]
  | [_] => by simp [sibViol, sibsOk]
  | x :: y :: rest => by
    have ih := sibViol_nil_iff pk (y :: rest)
    unfold sibViol sibsOk
    cases hc : (x.slot == y.slot && x.inList && y.inList && !exemptOrder pk x.slot)
    · simp [ih]
    · simp only [if_true, List.append_eq_nil_iff, Bool.and_eq_true, ih]
      apply and_congr_left'
      cases hx : x.range with
      | none => simp
      | some p =>
        cases hy : y.range with
        | none => simp
        | some q =>
          obtain ⟨a, b⟩ := p
          obtain ⟨c, d⟩ := q
          by_cases hle : b ≤ c <;> simp [hle]

mutual
theorem viol_nil_iff_aux (src : List Nat) : ∀ (t : Tree) (par : Option (Nat × Nat)) (pk : String),
    viol src par pk t = [] ↔ ok src par t = true
  | .node k slot il r cs, par, pk => by
    have ihl := violList_nil_iff_aux src cs (r.orElse fun _ => par) (if r.isSome then k else pk)
    have hs := sibViol_nil_iff k cs
    by_cases h1 : ownOk src r = true <;> by_cases h2 : enclOk par slot r = true <;>
      simp only [viol, ok, h1, h2, if_true, if_false, List.nil_append, List.append_eq_nil_iff, Bool.true_and,
        Bool.and_eq_true, hs, ihl, List.cons_append, reduceCtorEq, false_and, Bool.false_and, Bool.and_false,
        Bool.false_eq_true, Bool.not_eq_true] <;> simp_all
theorem violList_nil_iff_aux (src : List Nat) : ∀ (ts : List Tree) (par : Option (Nat × Nat)) (pk : String),
    violList src par pk ts = [] ↔ okList src par ts = true
  | [], _, _ => by simp [violList, okList]
  | t :: ts, par, pk => by
    simp only [violList, okList, List.append_eq_nil_iff, Bool.and_eq_true,
      viol_nil_iff_aux src t par pk, violList_nil_iff_aux src ts par pk]
end

theorem viol_nil_iff_top (src : List Nat) (t : Tree) : viol src none "root" t = [] ↔ rangesOk src t = true :=
  viol_nil_iff_aux src t none "root"

end PV.C02
