import PV.C02.FStrThm1
/-
  PV.C02.FStrRoot — `parseR_rangesOk_fstr1` / `parseRExpression_rangesOk_fstr1`: the structural theorem for an f-string AT
  THE ROOT of the parsed expression (possibly parenthesised, possibly an implicit concatenation), under `Tiled` + `FTied`,
  with no `plain` hypothesis on the f-string.  By inversion of the parser (`invAt`, 18 functions of the expression chain:
  a `JoinedStr` they return was returned by `parseRStrings` at a cursor that is a suffix of theirs; every other
  production builds a node of another kind) and the f-string step `strings_res_fstr1`.
-/
set_option linter.unusedSimpArgs false
set_option linter.unusedVariables false
namespace PV.C02
open PV.Expr PV.C11

def isJ : RExpr → Bool
  | .joinedStr _ _ => true
  | _ => false

/-- `e` was returned by the string production at a cursor that is a suffix of `ts` -/
def JAt (σ : SpanTab) (ts : List Tok) (e : RExpr) : Prop :=
  ∃ f' t r rest', (t :: r) <:+ ts ∧ isStringTok t = true ∧ parseRStrings σ f' (t :: r) = some (e, rest')

theorem JAt.tail {σ : SpanTab} {x : Tok} {ts : List Tok} {e : RExpr} (h : JAt σ ts e) : JAt σ (x :: ts) e := by
  obtain ⟨f', t, r, rest', h1, h2, h3⟩ := h
  exact ⟨f', t, r, rest', h1.trans (List.suffix_cons _ _), h2, h3⟩

structure InvAt (σ : SpanTab) (f : Nat) : Prop where
  test : ∀ ts e rest, parseRTest σ f ts = some (e, rest) → isJ e = true → JAt σ ts e
  namedTest : ∀ ts e rest, parseRNamedTest σ f ts = some (e, rest) → isJ e = true → JAt σ ts e
  starOrNamed : ∀ ts e rest, parseRStarOrNamed σ f ts = some (e, rest) → isJ e = true → JAt σ ts e
  testOrStar : ∀ ts e rest, parseRTestOrStar σ f ts = some (e, rest) → isJ e = true → JAt σ ts e
  orTest : ∀ ts e rest, parseROrTest σ f ts = some (e, rest) → isJ e = true → JAt σ ts e
  andTest : ∀ ts e rest, parseRAndTest σ f ts = some (e, rest) → isJ e = true → JAt σ ts e
  notTest : ∀ ts e rest, parseRNotTest σ f ts = some (e, rest) → isJ e = true → JAt σ ts e
  cmp : ∀ ts e rest, parseRCmp σ f ts = some (e, rest) → isJ e = true → JAt σ ts e
  bin : ∀ lvl ts e rest, parseRBin σ lvl f ts = some (e, rest) → isJ e = true → JAt σ ts e
  binLoop : ∀ lvl st acc ts e rest, parseRBinLoop σ lvl f st acc ts = some (e, rest) → isJ e = true → e = acc
  factor : ∀ ts e rest, parseRFactor σ f ts = some (e, rest) → isJ e = true → JAt σ ts e
  power : ∀ ts e rest, parseRPower σ f ts = some (e, rest) → isJ e = true → JAt σ ts e
  atomExpr : ∀ ts e rest, parseRAtomExpr σ f ts = some (e, rest) → isJ e = true → JAt σ ts e
  atomExpr2 : ∀ ts e rest, parseRAtomExpr2 σ f ts = some (e, rest) → isJ e = true → JAt σ ts e
  trailers : ∀ st acc ts e rest, parseRTrailers σ f st acc ts = some (e, rest) → isJ e = true → e = acc
  atom : ∀ ts e rest, parseRAtom σ f ts = some (e, rest) → isJ e = true → JAt σ ts e
  parenAtom : ∀ ts e rest, parseRParenAtom σ f ts = some (e, rest) → isJ e = true → JAt σ ts e
  testList : ∀ ts e rest, parseRTestList σ f ts = some (e, rest) → isJ e = true → JAt σ ts e

def BelowI (σ : SpanTab) (n : Nat) : Prop := ∀ f, n = f + 1 → InvAt σ f

variable {σ : SpanTab}

theorem lambda_notJ {f : Nat} {ts : List Tok} {e : RExpr} {rest : List Tok}
    (h : parseRLambda σ f ts = some (e, rest)) (hj : isJ e = true) : False := by
  cases f with
  | zero => simp [parseRLambda] at h
  | succ f =>
    rw [parseRLambda] at h
    repeat' split at h
    all_goals (first | (cases h; done) | (simp only [Option.some.injEq, Prod.mk.injEq] at h; obtain ⟨rfl, rfl⟩ := h; simp [isJ] at hj))

theorem listAtom_notJ {f : Nat} {ts : List Tok} {e : RExpr} {rest : List Tok}
    (h : parseRListAtom σ f ts = some (e, rest)) (hj : isJ e = true) : False := by
  cases f with
  | zero => simp [parseRListAtom] at h
  | succ f =>
    rw [parseRListAtom.eq_def] at h
    repeat' split at h
    all_goals (first | (cases h; done) | (cases h; simp [isJ] at hj))

theorem yieldAtom_notJ {f : Nat} {ts : List Tok} {e : RExpr} {rest : List Tok}
    (h : parseRYieldAtom σ f ts = some (e, rest)) (hj : isJ e = true) : False := by
  cases f with
  | zero => simp [parseRYieldAtom] at h
  | succ f =>
    rw [parseRYieldAtom.eq_def] at h
    repeat' split at h
    all_goals (first | (cases h; done) | (cases h; simp [isJ] at hj))

theorem braceAtom_notJ {f : Nat} {ts : List Tok} {e : RExpr} {rest : List Tok}
    (h : parseRBraceAtom σ f ts = some (e, rest)) (hj : isJ e = true) : False := by
  cases f with
  | zero => simp [parseRBraceAtom] at h
  | succ f =>
    rw [parseRBraceAtom.eq_def] at h
    repeat' split at h
    all_goals (first | (cases h; done) | (cases h; simp [isJ] at hj))

macro "istep" ih:ident : tactic => `(tactic| (
  all_goals intro h hj
  all_goals (first
    | (cases h; done)
    | (cases h; simp [isJ] at hj; done)
    | (cases h; exact ($ih _ rfl).bin _ _ _ _ (by assumption) hj)
    | (cases h; exact ($ih _ rfl).namedTest _ _ _ (by assumption) hj)
    | (exfalso; exact lambda_notJ h hj)
    | (exfalso; exact listAtom_notJ h hj)
    | (exfalso; exact braceAtom_notJ h hj)
    | (exfalso; exact yieldAtom_notJ h hj)
    | exact ⟨_, _, _, _, List.suffix_refl _, rfl, h⟩
    | exact ($ih _ rfl).testOrStar _ _ _ h hj
    | (have hacc := ($ih _ rfl).trailers _ _ _ _ _ h hj; subst hacc; exact ($ih _ rfl).atom _ _ _ (by assumption) hj)
    | (cases h; exact ($ih _ rfl).starOrNamed _ _ _ (by assumption) hj)
    | exact ($ih _ rfl).test _ _ _ h hj
    | exact ($ih _ rfl).orTest _ _ _ h hj
    | exact ($ih _ rfl).andTest _ _ _ h hj
    | exact ($ih _ rfl).notTest _ _ _ h hj
    | exact ($ih _ rfl).cmp _ _ _ h hj
    | exact ($ih _ rfl).bin _ _ _ _ h hj
    | exact ($ih _ rfl).factor _ _ _ h hj
    | exact ($ih _ rfl).power _ _ _ h hj
    | exact ($ih _ rfl).atomExpr _ _ _ h hj
    | exact ($ih _ rfl).atomExpr2 _ _ _ h hj
    | exact ($ih _ rfl).atom _ _ _ h hj
    | exact ($ih _ rfl).namedTest _ _ _ h hj
    | exact ($ih _ rfl).starOrNamed _ _ _ h hj
    | exact (($ih _ rfl).parenAtom _ _ _ h hj).tail
    | skip)))

theorem istep_test {n} (ih : BelowI σ n) : ∀ ts e rest, parseRTest σ n ts = some (e, rest) → isJ e = true → JAt σ ts e := by
  intro ts e rest
  fun_cases parseRTest σ n ts
  istep ih

theorem istep_namedTest {n} (ih : BelowI σ n) : ∀ ts e rest, parseRNamedTest σ n ts = some (e, rest) → isJ e = true → JAt σ ts e := by
  intro ts e rest
  fun_cases parseRNamedTest σ n ts
  istep ih

theorem istep_starOrNamed {n} (ih : BelowI σ n) : ∀ ts e rest, parseRStarOrNamed σ n ts = some (e, rest) → isJ e = true → JAt σ ts e := by
  intro ts e rest
  fun_cases parseRStarOrNamed σ n ts
  istep ih

theorem istep_testOrStar {n} (ih : BelowI σ n) : ∀ ts e rest, parseRTestOrStar σ n ts = some (e, rest) → isJ e = true → JAt σ ts e := by
  intro ts e rest
  fun_cases parseRTestOrStar σ n ts
  istep ih

theorem istep_orTest {n} (ih : BelowI σ n) : ∀ ts e rest, parseROrTest σ n ts = some (e, rest) → isJ e = true → JAt σ ts e := by
  intro ts e rest
  fun_cases parseROrTest σ n ts
  istep ih

theorem istep_andTest {n} (ih : BelowI σ n) : ∀ ts e rest, parseRAndTest σ n ts = some (e, rest) → isJ e = true → JAt σ ts e := by
  intro ts e rest
  fun_cases parseRAndTest σ n ts
  istep ih

theorem istep_notTest {n} (ih : BelowI σ n) : ∀ ts e rest, parseRNotTest σ n ts = some (e, rest) → isJ e = true → JAt σ ts e := by
  intro ts e rest
  fun_cases parseRNotTest σ n ts
  istep ih

theorem istep_cmp {n} (ih : BelowI σ n) : ∀ ts e rest, parseRCmp σ n ts = some (e, rest) → isJ e = true → JAt σ ts e := by
  intro ts e rest
  fun_cases parseRCmp σ n ts
  istep ih

theorem istep_factor {n} (ih : BelowI σ n) : ∀ ts e rest, parseRFactor σ n ts = some (e, rest) → isJ e = true → JAt σ ts e := by
  intro ts e rest
  fun_cases parseRFactor σ n ts
  istep ih

theorem istep_power {n} (ih : BelowI σ n) : ∀ ts e rest, parseRPower σ n ts = some (e, rest) → isJ e = true → JAt σ ts e := by
  intro ts e rest
  fun_cases parseRPower σ n ts
  istep ih

theorem istep_atomExpr {n} (ih : BelowI σ n) : ∀ ts e rest, parseRAtomExpr σ n ts = some (e, rest) → isJ e = true → JAt σ ts e := by
  intro ts e rest
  fun_cases parseRAtomExpr σ n ts
  istep ih

theorem istep_atomExpr2 {n} (ih : BelowI σ n) : ∀ ts e rest, parseRAtomExpr2 σ n ts = some (e, rest) → isJ e = true → JAt σ ts e := by
  intro ts e rest
  fun_cases parseRAtomExpr2 σ n ts
  istep ih

theorem istep_atom {n} (ih : BelowI σ n) : ∀ ts e rest, parseRAtom σ n ts = some (e, rest) → isJ e = true → JAt σ ts e := by
  intro ts e rest
  fun_cases parseRAtom σ n ts
  istep ih

theorem istep_parenAtom {n} (ih : BelowI σ n) : ∀ ts e rest, parseRParenAtom σ n ts = some (e, rest) → isJ e = true → JAt σ ts e := by
  intro ts e rest
  fun_cases parseRParenAtom σ n ts
  istep ih

theorem istep_testList {n} (ih : BelowI σ n) : ∀ ts e rest, parseRTestList σ n ts = some (e, rest) → isJ e = true → JAt σ ts e := by
  intro ts e rest
  fun_cases parseRTestList σ n ts
  istep ih

theorem istep_bin {n} (ih : BelowI σ n) : ∀ lvl ts e rest, parseRBin σ lvl n ts = some (e, rest) → isJ e = true → JAt σ ts e := by
  intro lvl ts e rest
  fun_cases parseRBin σ lvl n ts
  all_goals intro h hj
  all_goals (try (cases h; done))
  rename_i hx
  have hacc := (ih _ rfl).binLoop _ _ _ _ _ _ h hj
  subst hacc
  split at hx
  · exact (ih _ rfl).factor _ _ _ hx hj
  · exact (ih _ rfl).bin _ _ _ _ hx hj

theorem istep_binLoop {n} (ih : BelowI σ n) : ∀ lvl st acc ts e rest, parseRBinLoop σ lvl n st acc ts = some (e, rest) →
    isJ e = true → e = acc := by
  intro lvl st acc ts e rest
  fun_cases parseRBinLoop σ lvl n st acc ts
  all_goals intro h hj
  all_goals (first
    | (cases h; done)
    | (cases h; rfl)
    | (have hacc := (ih _ rfl).binLoop _ _ _ _ _ _ h hj; subst hacc; simp [isJ] at hj))

theorem istep_trailers {n} (ih : BelowI σ n) : ∀ st acc ts e rest, parseRTrailers σ n st acc ts = some (e, rest) →
    isJ e = true → e = acc := by
  intro st acc ts e rest
  fun_cases parseRTrailers σ n st acc ts
  all_goals intro h hj
  all_goals (first
    | (cases h; done)
    | (cases h; rfl)
    | (have hacc := (ih _ rfl).trailers _ _ _ _ _ h hj; subst hacc; simp [isJ] at hj))

theorem invAt_of_below {n : Nat} (b : BelowI σ n) : InvAt σ n :=
  ⟨istep_test b, istep_namedTest b, istep_starOrNamed b, istep_testOrStar b, istep_orTest b, istep_andTest b,
   istep_notTest b, istep_cmp b, istep_bin b, istep_binLoop b, istep_factor b, istep_power b, istep_atomExpr b,
   istep_atomExpr2 b, istep_trailers b, istep_atom b, istep_parenAtom b, istep_testList b⟩

theorem invAt : ∀ n, InvAt σ n
  | 0 => invAt_of_below (fun f h => absurd h (by omega))
  | n + 1 => invAt_of_below (fun f h => by cases h; exact invAt n)


theorem fstrTop_cases {e : RExpr} (hf : fstrTop e = true) : plain e = true ∨ isJ e = true := by
  cases e <;> simp_all [fstrTop, isJ]

theorem jat_rangesOk {src : List Nat} {toks : List RTok} (h : Tiled src toks) (hT : FTied src toks = true)
    {e : RExpr} (hj : JAt (spanTab toks) (toks.map (·.tok)) e) (hf : fstrTop e = true) :
    rangesOk src (e.toTree "body" false) = true := by
  obtain ⟨f', t, r, rest', hsuf, hst, hps⟩ := hj
  have T := tiledTab_of_tiled h
  have hF := FTie.suffix (ftie_of_ftied hT [] toks rfl) hsuf
  have hN : (t :: r).length ≤ toks.length := by
    have := hsuf.length_le
    simpa using this
  exact (strings_res_fstr1 T hN hst hF hps hf).2.toOk_root "body" false

/-- **`parseR_rangesOk_fstr`, for an f-string at the root.**  For every source, every spanned token list that tiles it
    (`Tiled`) and is tied to it (`FTied`), every fuel: if `parseR` accepts and the tree is covered by `fstrTop` — it is
    `plain`, or it IS an f-string (possibly parenthesised, possibly an implicit concatenation): a `JoinedStr` whose
    pieces are constants and `FormattedValue`s with f-string-free value expressions and format specs of such pieces —
    then it passes `rangesOk`.  (By inversion of the parser: a `JoinedStr` at the root was returned by the string
    production at a cursor that is a suffix of the input, `invAt`; then `strings_res_fstr1`.) -/
theorem parseR_rangesOk_fstr1 {src : List Nat} {toks : List RTok} (h : Tiled src toks) (hT : FTied src toks = true)
    {fuel : Nat} {e : RExpr} {rest : List Tok} (hp : parseR fuel toks = some (e, rest)) (hf : fstrTop e = true) :
    rangesOk src (e.toTree "body" false) = true := by
  rcases fstrTop_cases hf with hpl | hj
  · exact parseR_rangesOk_partial h hp hpl
  · exact jat_rangesOk h hT ((invAt fuel).test _ _ _ (by unfold parseR at hp; exact hp) hj) hf

/-- the same for whole-input parsing in expression mode -/
theorem parseRExpression_rangesOk_fstr1 {src : List Nat} {toks : List RTok} (h : Tiled src toks)
    (hT : FTied src toks = true) {e : RExpr} (hp : parseRExpression toks = some e) (hf : fstrTop e = true) :
    rangesOk src (e.toTree "body" false) = true := by
  rcases fstrTop_cases hf with hpl | hj
  · exact parseRExpression_rangesOk_partial h hp hpl
  · unfold parseRExpression at hp
    generalize fuelFor (toks.map (·.tok)) = fuel at hp
    cases fuel with
    | zero => simp [parseRTop] at hp
    | succ f =>
      rw [parseRTop.eq_def] at hp
      simp only at hp
      split at hp
      · rename_i e' heq
        cases hp
        exact jat_rangesOk h hT ((invAt f).testList _ _ _ heq hj) hf
      · cases hp

/-- non-vacuity: the nested spec, the conversion and the concatenation through `parseRExpression` -/
example : ((parseRExpression specToks).map fun e => (fstrTop e, plain e)) = some (true, false) := by decide +kernel
example : ((parseRExpression concatToks).map fun e => (fstrTop e, plain e)) = some (true, false) := by decide +kernel
example : ∀ e, parseRExpression convToks = some e → fstrTop e = true →
    rangesOk convSrc (e.toTree "body" false) = true := fun e hp hf =>
  parseRExpression_rangesOk_fstr1 (tiled_single (by decide)) (by decide +kernel) hp hf

end PV.C02
