import PV.C02.RProgSound3
/-
  PV.C02.RProgSound4 — the induction over the ranged program parser, part 4: suites and compound statements (the
  derived ends: a compound statement, a handler, a match case ends where its last statement ends — at the end of a
  token that belongs to it), `elif` chains, the program body, the `Mod*` node.
-/
set_option linter.unusedSimpArgs false
set_option linter.unusedVariables false
namespace PV.C02
open PV.Expr PV.C11 PV.Prog

variable {src : List Nat} {σ : SpanTab} {N : Nat}

/-! ### the derived ends -/

@[grind =] theorem loopEndR_none (b : List RStmt) : loopEndR b none = lastEnd b := rfl
@[grind =] theorem loopEndR_some (b l : List RStmt) : loopEndR b (some l) = lastEnd l := rfl
@[grind =] theorem tryEndR_fb (hs : List RHandler) (oe : Option (List RStmt)) (l : List RStmt) :
    tryEndR hs oe (some l) = lastEnd l := rfl
@[grind =] theorem tryEndR_oe (hs : List RHandler) (l : List RStmt) : tryEndR hs (some l) none = lastEnd l := rfl
@[grind =] theorem tryEndR_hs (hs : List RHandler) : tryEndR hs none none = handlersEnd hs := rfl
@[grind =] theorem getD_none' (l : List RStmt) : (none : Option (List RStmt)).getD l = l := rfl
@[grind =] theorem getD_some' (x l : List RStmt) : (some x).getD l = x := rfl

theorem loopEndR_of_ne (b : List RStmt) (oe : Option (List RStmt)) (h : oe ≠ none) :
    loopEndR b oe = lastEnd (oe.getD []) := by
  cases oe with
  | none => exact absurd rfl h
  | some l => rfl
theorem tryEndR_of_fb (hs : List RHandler) (oe fb : Option (List RStmt)) (h : fb ≠ none) :
    tryEndR hs oe fb = lastEnd (fb.getD []) := by
  cases fb with
  | none => exact absurd rfl h
  | some l => rfl
theorem tryEndR_of_oe (hs : List RHandler) (oe : Option (List RStmt)) (h : oe ≠ none) :
    tryEndR hs oe none = lastEnd (oe.getD []) := by
  cases oe with
  | none => exact absurd rfl h
  | some l => rfl
grind_pattern loopEndR_of_ne => loopEndR b oe
grind_pattern tryEndR_of_fb => tryEndR hs oe fb
grind_pattern tryEndR_of_oe => tryEndR hs oe none

theorem handlersEnd_single (h : RHandler) : handlersEnd [h] = h.range.2 := rfl
theorem handlersEnd_cons (h : RHandler) {hs : List RHandler} (hne : hs ≠ []) : handlersEnd (h :: hs) = handlersEnd hs := by
  unfold handlersEnd
  cases hs with
  | nil => exact absurd rfl hne
  | cons x xs => simp [List.getLast?_cons_cons]
theorem casesEnd_single (c : RCase) : casesEnd [c] = lastEnd c.body := rfl
theorem casesEnd_cons (c : RCase) {cs : List RCase} (hne : cs ≠ []) : casesEnd (c :: cs) = casesEnd cs := by
  unfold casesEnd
  cases cs with
  | nil => exact absurd rfl hne
  | cons x xs => simp [List.getLast?_cons_cons]

attribute [grind =] handlersEnd_single casesEnd_single
grind_pattern handlersEnd_cons => handlersEnd (h :: hs)
grind_pattern casesEnd_cons => casesEnd (c :: cs)
grind_pattern lastEnd_append => lastEnd (xs ++ ys)

theorem stmts_append_ne {xs ys : List RStmt} (h : xs ≠ []) : xs ++ ys ≠ [] := by
  cases xs with
  | nil => exact absurd rfl h
  | cons x xs => simp
grind_pattern stmts_append_ne => xs ++ ys

theorem seqS_nil0 (T : TiledTab src σ N) : SeqS src σ 0 0 [] := seqS_nil
grind_pattern seqS_nil0 => TiledTab src σ N, ([] : List RStmt)
theorem seqH_nil0 (T : TiledTab src σ N) : SeqH src σ 0 0 [] := seqH_nil
grind_pattern seqH_nil0 => TiledTab src σ N, ([] : List RHandler)
theorem seqI_nil0 (T : TiledTab src σ N) : SeqI src σ 0 0 [] := seqI_nil
grind_pattern seqI_nil0 => TiledTab src σ N, ([] : List RExpr)
theorem seqK_nil0 (T : TiledTab src σ N) : SeqK src σ 0 0 [] := seqK_nil
grind_pattern seqK_nil0 => TiledTab src σ N, ([] : List RKeyword)
theorem seqTP_nil00 (T : TiledTab src σ N) : SeqTP src σ 0 0 [] := seqTP_nil
grind_pattern seqTP_nil00 => TiledTab src σ N, ([] : List RTypeParam)

/-! ### `elif` chains -/

/-- nesting the `elif` clauses from the left (what the action's loop over the reversed list builds) -/
def nestR (endLoc : Nat) : List (Nat × RExpr × List RStmt) → List RStmt → List RStmt
  | [], last => last
  | (st, t, b) :: cs, last => [.if (st, endLoc) t b (nestR endLoc cs last)]

theorem elifFoldR_snoc (e : Nat) : ∀ (xs : List (Nat × RExpr × List RStmt)) (c : Nat × RExpr × List RStmt) (last : List RStmt),
    elifFoldR e (xs ++ [c]) last = [.if (c.1, e) c.2.1 c.2.2 (elifFoldR e xs last)]
  | [], (st, t, b), last => by simp [elifFoldR]
  | (st', t', b') :: xs, c, last => by
    simp only [List.cons_append, elifFoldR]
    exact elifFoldR_snoc e xs c _

theorem elifFoldR_reverse (e : Nat) : ∀ (cs : List (Nat × RExpr × List RStmt)) (last : List RStmt),
    elifFoldR e cs.reverse last = nestR e cs last
  | [], last => by simp [elifFoldR, nestR]
  | (st, t, b) :: cs, last => by
    simp only [List.reverse_cons, elifFoldR_snoc, nestR, elifFoldR_reverse e cs last]

/-- the clauses of an `elif` chain between the tokens `j … k`: each starts at its keyword, test and body in consecutive
    windows; the chain ends (token `k`) where the body of its last clause ends -/
def ElifsOK (src : List Nat) (σ : SpanTab) : Nat → Nat → List (Nat × RExpr × List RStmt) → Prop
  | _, _, [] => True
  | j, k, (st, t, b) :: cs => st = S σ j ∧ ∃ jt kt jb kb, kt ≤ jt ∧ jt < j ∧ jb < kt ∧ kb ≤ jb ∧ k ≤ kb ∧ 1 ≤ k ∧
      Win src σ jt kt t ∧ SeqS src σ jb kb b ∧ b ≠ [] ∧ lastEnd b = E σ kb ∧
      ((cs = [] ∧ kb = k) ∨ (cs ≠ [] ∧ ∃ j', 1 ≤ j' ∧ j' < kb ∧ ElifsOK src σ j' k cs))

theorem elifsOK_single {j k jt kt jb : Nat} {t b} (h1 : kt ≤ jt) (h2 : jt < j) (h3 : jb < kt) (h4 : k ≤ jb) (h5 : 1 ≤ k)
    (ht : Win src σ jt kt t) (hb : SeqS src σ jb k b) (hne : b ≠ []) (he : lastEnd b = E σ k) :
    ElifsOK src σ j k [(S σ j, t, b)] :=
  ⟨rfl, jt, kt, jb, k, h1, h2, h3, h4, Nat.le_refl _, h5, ht, hb, hne, he, Or.inl ⟨rfl, rfl⟩⟩

theorem elifsOK_cons {j k jt kt jb kb j' : Nat} {t b cs} (h1 : kt ≤ jt) (h2 : jt < j) (h3 : jb < kt) (h4 : kb ≤ jb)
    (h5 : k ≤ kb) (h6 : 1 ≤ k) (ht : Win src σ jt kt t) (hb : SeqS src σ jb kb b) (hne : b ≠ []) (he : lastEnd b = E σ kb)
    (hcs : cs ≠ []) (c1 : 1 ≤ j') (c2 : j' < kb) (hs : ElifsOK src σ j' k cs) :
    ElifsOK src σ j k ((S σ j, t, b) :: cs) :=
  ⟨rfl, jt, kt, jb, kb, h1, h2, h3, h4, h5, h6, ht, hb, hne, he, Or.inr ⟨hcs, j', c1, c2, hs⟩⟩

grind_pattern elifsOK_single => Win src σ jt kt t, SeqS src σ jb k b, ElifsOK src σ j k [(S σ j, t, b)]
grind_pattern elifsOK_cons => Win src σ jt kt t, SeqS src σ jb kb b, ElifsOK src σ j' k cs,
  ElifsOK src σ j k ((S σ j, t, b) :: cs)

/-- the chain ends where the body of its last clause ends -/
theorem elifs_lastEnd : ∀ {cs : List (Nat × RExpr × List RStmt)} {j k : Nat}, ElifsOK src σ j k cs → cs ≠ [] →
    ∃ c, cs.getLast? = some c ∧ lastEnd c.2.2 = E σ k
  | [], _, _, _, h => absurd rfl h
  | (st, t, b) :: cs, j, k, ⟨_, jt, kt, jb, kb, _, _, _, _, _, _, _, _, _, he, hc⟩, _ => by
    rcases hc with ⟨rfl, rfl⟩ | ⟨hne, j', _, _, hs⟩
    · exact ⟨_, rfl, he⟩
    · obtain ⟨c, g1, g2⟩ := elifs_lastEnd hs hne
      refine ⟨c, ?_, g2⟩
      cases cs with
      | nil => exact absurd rfl hne
      | cons x xs => simpa [List.getLast?_cons_cons] using g1

/-- the nested `If`s of a chain: one statement, from the first `elif` to the common end -/
theorem nest_ok (T : TiledTab src σ N) : ∀ (cs : List (Nat × RExpr × List RStmt)) (j k kE jl kl : Nat) (last : List RStmt),
    ElifsOK src σ j k cs → cs ≠ [] → j ≤ N → 1 ≤ kE → kE ≤ k → SeqS src σ jl kl last →
    (last = [] ∨ (jl < k ∧ kE ≤ kl ∧ 1 ≤ jl ∧ kl ≤ N)) →
    ∃ s, nestR (E σ kE) cs last = [s] ∧ WS src σ j kE s ∧ s.range = (S σ j, E σ kE)
  | [], _, _, _, _, _, _, _, h, _, _, _, _, _ => absurd rfl h
  | (st, t, b) :: cs, j, k, kE, jl, kl, last, ⟨hst, jt, kt, jb, kb, g1, g2, g3, g4, g5, g6, ht, hb, hbne, he, hc⟩, _, hj,
      hk1, hk2, hl, hl0 => by
    subst hst
    simp only [nestR]
    refine ⟨_, rfl, ?_, rfl⟩
    rcases hc with ⟨rfl, rfl⟩ | ⟨hne, j', q1, q2, hs⟩
    · simp only [nestR]
      exact ws_if T hk1 (by omega) hj ht (by omega) (by omega) (by omega) (by omega) hb (by omega) (by omega) (by omega)
        (by omega) hl (hl0.imp id (fun c => ⟨c.2.1, by omega, c.2.2.1, c.2.2.2⟩))
    · obtain ⟨s', e1, e2, e3⟩ := nest_ok T cs j' k kE jl kl last hs hne (by omega) hk1 hk2 hl hl0
      rw [e1]
      exact ws_if T hk1 (by omega) hj ht (by omega) (by omega) (by omega) (by omega) hb (by omega) (by omega) (by omega)
        (by omega) (seqS_single e2) (Or.inr ⟨Nat.le_refl _, by omega, by omega, by omega⟩)

/-! ### optional header parts -/

theorem guardOfR_sound (T : TiledTab src σ N) (f : Nat) : ∀ ts g rest, ts.length ≤ N → guardOfR σ f ts = some (g, rest) →
    rest.length ≤ ts.length ∧ WO src σ ts.length (rest.length + 1) g ∧
      ((g = none ∧ rest = ts) ∨ rest.length + 1 < ts.length) := by
  intro ts g rest hN
  fun_cases guardOfR σ f ts
  rstep σ [(soundAt T _).namedTest]

theorem retOfR_sound (T : TiledTab src σ N) (f : Nat) : ∀ ts g rest, ts.length ≤ N → retOfR σ f ts = some (g, rest) →
    rest.length ≤ ts.length ∧ WO src σ ts.length (rest.length + 1) g ∧
      ((g = none ∧ rest = ts) ∨ rest.length + 1 < ts.length) := by
  intro ts g rest hN
  fun_cases retOfR σ f ts
  rstep σ [(soundAt T _).test]

theorem classArgsOfR_sound (T : TiledTab src σ N) (f : Nat) : ∀ ts bs ks rest, ts.length ≤ N →
    classArgsOfR σ f ts = some ((bs, ks), rest) →
    rest.length ≤ ts.length ∧ SeqI src σ ts.length (rest.length + 1) bs ∧ SeqK src σ ts.length (rest.length + 1) ks ∧
      ((bs = [] ∧ ks = [] ∧ rest = ts) ∨ rest.length + 1 < ts.length) := by
  intro ts bs ks rest hN
  fun_cases classArgsOfR σ f ts
  rstep σ [(soundAt T _).args0]

/-! ### the mutual block -/

structure CompSAt (src : List Nat) (σ : SpanTab) (N : Nat) (f : Nat) : Prop where
  suite : ∀ ts ss rest, ts.length ≤ N → parseRSuite σ f ts = some (ss, rest) → PostSs src σ ts ss rest
  block : ∀ ts ss rest, ts.length ≤ N → parseRBlock σ f ts = some (ss, rest) → PostSs src σ ts ss rest
  else_ : ∀ ts oe rest, ts.length ≤ N → parseRElse σ f ts = some (oe, rest) → PostOpt src σ ts oe rest
  finally_ : ∀ ts oe rest, ts.length ≤ N → parseRFinally σ f ts = some (oe, rest) → PostOpt src σ ts oe rest
  elifs : ∀ ts cs rest, ts.length ≤ N → parseRElifs σ f ts = some (cs, rest) →
    rest.length ≤ ts.length ∧ ((cs = [] ∧ rest = ts) ∨
      (rest.length < ts.length ∧ cs ≠ [] ∧ ∃ k, rest.length + 1 ≤ k ∧ k ≤ ts.length ∧ ElifsOK src σ ts.length k cs))
  handlers : ∀ star ts hs rest, ts.length ≤ N → parseRHandlers σ f star ts = some (hs, rest) →
    rest.length < ts.length ∧ hs ≠ [] ∧
      ∃ k, rest.length + 1 ≤ k ∧ k ≤ ts.length ∧ handlersEnd hs = E σ k ∧ SeqH src σ ts.length k hs
  cases : ∀ ts cs rest, ts.length ≤ N → parseRCases σ f ts = some (cs, rest) →
    rest.length < ts.length ∧ cs ≠ [] ∧
      ∃ k, rest.length + 1 ≤ k ∧ k ≤ ts.length ∧ casesEnd cs = E σ k ∧ SeqCs src σ ts.length k cs
  def_ : ∀ st j0 isAsync decos ts s rest jd kd, st = S σ j0 → ts.length < j0 → j0 ≤ N → SeqI src σ jd kd decos →
    parseRDef σ f st isAsync decos ts = some (s, rest) → PostCs src σ j0 ts s rest
  class_ : ∀ st j0 decos ts s rest jd kd, st = S σ j0 → ts.length < j0 → j0 ≤ N → SeqI src σ jd kd decos →
    parseRClass σ f st decos ts = some (s, rest) → PostCs src σ j0 ts s rest
  compound : ∀ ts s rest, ts.length ≤ N → parseRCompound σ f ts = some (s, rest) → PostC src σ ts s rest
  for_ : ∀ st j0 isAsync ts s rest, st = S σ j0 → ts.length < j0 → j0 ≤ N →
    parseRFor σ f st isAsync ts = some (s, rest) → PostCs src σ j0 ts s rest
  with_ : ∀ st j0 isAsync ts s rest, st = S σ j0 → ts.length < j0 → j0 ≤ N →
    parseRWith σ f st isAsync ts = some (s, rest) → PostCs src σ j0 ts s rest

def BelowCompS (src : List Nat) (σ : SpanTab) (N : Nat) (n : Nat) : Prop := ∀ f, n = f + 1 → CompSAt src σ N f

theorem comp_suite (T : TiledTab src σ N) {n} (ih : BelowCompS src σ N n) :
    ∀ ts ss rest, ts.length ≤ N → parseRSuite σ n ts = some (ss, rest) → PostSs src σ ts ss rest := by
  intro ts ss rest hN
  fun_cases parseRSuite σ n ts
  rstep σ [(ih _ rfl).block, simpleLine_sound T _]

theorem comp_else (T : TiledTab src σ N) {n} (ih : BelowCompS src σ N n) :
    ∀ ts oe rest, ts.length ≤ N → parseRElse σ n ts = some (oe, rest) → PostOpt src σ ts oe rest := by
  intro ts oe rest hN
  fun_cases parseRElse σ n ts
  rstep σ [(ih _ rfl).suite]

theorem comp_finally (T : TiledTab src σ N) {n} (ih : BelowCompS src σ N n) :
    ∀ ts oe rest, ts.length ≤ N → parseRFinally σ n ts = some (oe, rest) → PostOpt src σ ts oe rest := by
  intro ts oe rest hN
  fun_cases parseRFinally σ n ts
  rstep σ [(ih _ rfl).suite]

theorem firstR_sound (T : TiledTab src σ N) {f} (ih : CompSAt src σ N f) : ∀ ts ss rest, ts.length ≤ N →
    firstR σ f ts = some (ss, rest) → PostSs src σ ts ss rest := by
  intro ts ss rest hN
  unfold firstR
  split
  · split
    · rename_i s r hc
      intro h
      simp only [Option.some.injEq, Prod.mk.injEq] at h
      obtain ⟨rfl, rfl⟩ := h
      obtain ⟨g1, j, k, g2, g3, g4, g5, g6, _⟩ := ih.compound _ _ _ hN hc
      exact ⟨g1, by simp, k, g2, by omega, by rw [lastEnd_single, g5], seqS_single g6⟩
    · intro h; cases h
  · exact simpleLine_sound T f _ _ _ hN

theorem comp_block (T : TiledTab src σ N) {n} (ih : BelowCompS src σ N n) :
    ∀ ts ss rest, ts.length ≤ N → parseRBlock σ n ts = some (ss, rest) → PostSs src σ ts ss rest := by
  intro ts ss rest hN
  cases n with
  | zero => simp [parseRBlock]
  | succ f =>
    rw [blockR_unfold]
    have hf := firstR_sound T (ih _ rfl)
    have hb := (ih _ rfl).block
    split
    · split
      · rstep1 σ [hf]
      · split
        · rstep1 σ [hf, hb]
        · intro h; cases h
    · intro h; cases h

theorem comp_handlers (T : TiledTab src σ N) {n} (ih : BelowCompS src σ N n) :
    ∀ star ts hs rest, ts.length ≤ N → parseRHandlers σ n star ts = some (hs, rest) →
    rest.length < ts.length ∧ hs ≠ [] ∧
      ∃ k, rest.length + 1 ≤ k ∧ k ≤ ts.length ∧ handlersEnd hs = E σ k ∧ SeqH src σ ts.length k hs := by
  intro star ts hs rest hN
  fun_cases parseRHandlers σ n star ts
  rstep σ [exceptHeader_sound T _, (ih _ rfl).suite, (ih _ rfl).handlers]

theorem comp_cases (T : TiledTab src σ N) {n} (ih : BelowCompS src σ N n) :
    ∀ ts cs rest, ts.length ≤ N → parseRCases σ n ts = some (cs, rest) →
    rest.length < ts.length ∧ cs ≠ [] ∧
      ∃ k, rest.length + 1 ≤ k ∧ k ≤ ts.length ∧ casesEnd cs = E σ k ∧ SeqCs src σ ts.length k cs := by
  intro ts cs rest hN
  fun_cases parseRCases σ n ts
  rstep σ [patterns_sound T _, guardOfR_sound T _, (ih _ rfl).suite, (ih _ rfl).cases]

theorem comp_elifs (T : TiledTab src σ N) {n} (ih : BelowCompS src σ N n) :
    ∀ ts cs rest, ts.length ≤ N → parseRElifs σ n ts = some (cs, rest) →
    rest.length ≤ ts.length ∧ ((cs = [] ∧ rest = ts) ∨
      (rest.length < ts.length ∧ cs ≠ [] ∧ ∃ k, rest.length + 1 ≤ k ∧ k ≤ ts.length ∧ ElifsOK src σ ts.length k cs)) := by
  intro ts cs rest hN h
  cases n with
  | zero => simp [parseRElifs] at h
  | succ f =>
    have ih := ih _ rfl
    rw [parseRElifs.eq_def] at h
    split at h
    · cases h
    · simp only [Option.some.injEq, Prod.mk.injEq] at h
      obtain ⟨rfl, rfl⟩ := h
      exact ⟨Nat.le_refl _, Or.inl ⟨rfl, rfl⟩⟩
    · rename_i f' t r heq
      simp only [Nat.succ.injEq] at heq
      subst heq
      split at h
      · split at h
        · rename_i test r1 ht
          split at h
          · rename_i body r2 hb
            split at h
            · rename_i cs' r3 hc
              simp only [Option.some.injEq, Prod.mk.injEq] at h
              obtain ⟨rfl, rfl⟩ := h
              simp only [List.length_cons] at hN ⊢
              obtain ⟨t1, t2, _⟩ := (soundAt T _).namedTest _ _ _ (by omega) ht
              simp only [List.length_cons] at t1 t2
              obtain ⟨b1, b2, kb, b3, b4, b5, b6⟩ := ih.suite _ _ _ (by omega) hb
              obtain ⟨c1, c2⟩ := ih.elifs _ _ _ (by omega) hc
              refine ⟨by omega, Or.inr ⟨by omega, by simp, ?_⟩⟩
              rcases c2 with ⟨rfl, rfl⟩ | ⟨c3, c4, k, c5, c6, c7⟩
              · refine ⟨kb, by omega, by omega, ?_⟩
                simp only [L, List.length_cons]
                exact elifsOK_single (jt := r.length) (kt := r1.length + 2) (jb := r1.length) (by omega) (by omega)
                  (by omega) (by omega) (by omega) t2 b6 b2 b5
              · refine ⟨k, by omega, by omega, ?_⟩
                simp only [L, List.length_cons]
                exact elifsOK_cons (jt := r.length) (kt := r1.length + 2) (jb := r1.length) (kb := kb) (j' := r2.length)
                  (by omega) (by omega) (by omega) (by omega) (by omega) (by omega) t2 b6 b2 b5 c4 (by omega) (by omega) c7
            · cases h
          · cases h
        · cases h
      · simp only [Option.some.injEq, Prod.mk.injEq] at h
        obtain ⟨rfl, rfl⟩ := h
        exact ⟨Nat.le_refl _, Or.inl ⟨rfl, rfl⟩⟩

theorem comp_for (T : TiledTab src σ N) {n} (ih : BelowCompS src σ N n) :
    ∀ st j0 isAsync ts s rest, st = S σ j0 → ts.length < j0 → j0 ≤ N →
    parseRFor σ n st isAsync ts = some (s, rest) → PostCs src σ j0 ts s rest := by
  intro st j0 isAsync ts s rest h0 h1 h2
  fun_cases parseRFor σ n st isAsync ts
  rstep σ [(soundAt T _).targetList, testListS_sound T _, (ih _ rfl).suite, (ih _ rfl).else_]

theorem comp_with (T : TiledTab src σ N) {n} (ih : BelowCompS src σ N n) :
    ∀ st j0 isAsync ts s rest, st = S σ j0 → ts.length < j0 → j0 ≤ N →
    parseRWith σ n st isAsync ts = some (s, rest) → PostCs src σ j0 ts s rest := by
  intro st j0 isAsync ts s rest h0 h1 h2
  fun_cases parseRWith σ n st isAsync ts
  rstep σ [withItems_sound T _, (ih _ rfl).suite]

theorem comp_def (T : TiledTab src σ N) {n} (ih : BelowCompS src σ N n) :
    ∀ st j0 isAsync decos ts s rest jd kd, st = S σ j0 → ts.length < j0 → j0 ≤ N → SeqI src σ jd kd decos →
    parseRDef σ n st isAsync decos ts = some (s, rest) → PostCs src σ j0 ts s rest := by
  intro st j0 isAsync decos ts s rest jd kd h0 h1 h2 hd
  fun_cases parseRDef σ n st isAsync decos ts
  rstep σ [typeParamsOpt_sound T _, parameters_sound T _, retOfR_sound T _, (ih _ rfl).suite]

theorem comp_class (T : TiledTab src σ N) {n} (ih : BelowCompS src σ N n) :
    ∀ st j0 decos ts s rest jd kd, st = S σ j0 → ts.length < j0 → j0 ≤ N → SeqI src σ jd kd decos →
    parseRClass σ n st decos ts = some (s, rest) → PostCs src σ j0 ts s rest := by
  intro st j0 decos ts s rest jd kd h0 h1 h2 hd
  fun_cases parseRClass σ n st decos ts
  rstep σ [typeParamsOpt_sound T _, classArgsOfR_sound T _, (ih _ rfl).suite]

/-- the `If` node of `if … elif … else`: from `if` to the end of the last block -/
theorem ifAssembleR_sound (T : TiledTab src σ N) {j jt kt jb kb : Nat} {test : RExpr} {body : List RStmt}
    {s2 : List (Nat × RExpr × List RStmt)} {s3 : Option (List RStmt)} {r2 r3 r4 : List Tok}
    (hj : j ≤ N) (ht : Win src σ jt kt test) (t1 : kt ≤ jt) (t2 : jt < j) (hb : SeqS src σ jb kb body) (hbne : body ≠ [])
    (hbe : lastEnd body = E σ kb) (b1 : jb < kt) (b2 : kb ≤ jb) (b3 : r2.length + 1 ≤ kb) (b0 : r2.length ≤ jb)
    (h2 : r3.length ≤ r2.length ∧ ((s2 = [] ∧ r3 = r2) ∨
      (r3.length < r2.length ∧ s2 ≠ [] ∧ ∃ k, r3.length + 1 ≤ k ∧ k ≤ r2.length ∧ ElifsOK src σ r2.length k s2)))
    (h3 : PostOpt src σ r3 s3 r4) :
    ∃ k, r4.length + 1 ≤ k ∧ k ≤ j ∧ (ifAssembleR (S σ j) test body s2 s3).range = (S σ j, E σ k) ∧
      WS src σ j k (ifAssembleR (S σ j) test body s2 s3) ∧
      derivedEnd (ifAssembleR (S σ j) test body s2 s3) = some (ifAssembleR (S σ j) test body s2 s3).range.2 := by
  obtain ⟨e1, e2⟩ := h2
  obtain ⟨o1, o2⟩ := h3
  unfold ifAssembleR
  rw [elifFoldR_reverse]
  -- the `else` suite: its window and where it ends
  have hlast : ∃ jl kl, SeqS src σ jl kl (s3.getD []) ∧
      ((s3 = none ∧ r4 = r3) ∨
       (s3 ≠ none ∧ s3.getD [] ≠ [] ∧ lastEnd (s3.getD []) = E σ kl ∧ r4.length + 1 ≤ kl ∧ kl ≤ jl ∧ jl = r3.length ∧ 1 ≤ jl)) := by
    rcases o2 with ⟨rfl, rfl⟩ | ⟨o3, o4, o5, kl, o6, o7, o8, o9⟩
    · exact ⟨0, 0, seqS_nil, Or.inl ⟨rfl, rfl⟩⟩
    · exact ⟨r3.length, kl, o9, Or.inr ⟨o3, o5, o8, o6, o7, rfl, by omega⟩⟩
  obtain ⟨jl, kl, hl, hl2⟩ := hlast
  rcases e2 with ⟨rfl, rfl⟩ | ⟨e3, e4, k2, e5, e6, e7⟩
  · -- no `elif`
    simp only [nestR]
    rcases hl2 with ⟨rfl, rfl⟩ | ⟨l1, l2, l3, l4, l5, l6, l7⟩
    · refine ⟨kb, by omega, by omega, by simp [RStmt.range, ifEndR, hbe], ?_, by simp [derivedEnd, RStmt.range, ifEndR]⟩
      simp only [ifEndR, hbe]
      exact ws_if T (by omega) (by omega) hj ht (by omega) (by omega) (by omega) (by omega) hb (Nat.le_refl _) (by omega)
        (by omega) (by omega) hl (Or.inl rfl)
    · have he : ifEndR body [] s3 = E σ kl := by
        cases s3 with
        | none => exact absurd rfl l1
        | some l => simpa [ifEndR] using l3
      refine ⟨kl, by omega, by omega, by simp [RStmt.range, he], ?_, ?_⟩
      · rw [he]
        subst l6
        exact ws_if T (by omega) (by omega) hj ht (by omega) (by omega) (by omega) (by omega) hb (by omega) (by omega)
          (by omega) (by omega) hl (Or.inr ⟨Nat.le_refl _, by omega, by omega, by omega⟩)
      · simp only [derivedEnd, RStmt.range, isEmpty_false_of_ne l2, he, l3]
        simp
  · -- an `elif` chain
    obtain ⟨c, hc1, hc2⟩ := elifs_lastEnd e7 e4
    rcases hl2 with ⟨rfl, rfl⟩ | ⟨l1, l2, l3, l4, l5, l6, l7⟩
    · have he : ifEndR body s2 none = E σ k2 := by simp [ifEndR, hc1, hc2]
      obtain ⟨s', n1, n2, n3⟩ := nest_ok T s2 r2.length k2 k2 0 0 [] e7 e4 (by omega) (by omega) (Nat.le_refl _) seqS_nil
        (Or.inl rfl)
      refine ⟨k2, by omega, by omega, by simp [RStmt.range, he], ?_, ?_⟩
      · rw [he]
        simp only [Option.getD_none, n1]
        exact ws_if T (by omega) (by omega) hj ht (by omega) (by omega) (by omega) (by omega) hb (by omega) (by omega)
          (by omega) (by omega) (seqS_single n2) (Or.inr ⟨Nat.le_refl _, by omega, by omega, by omega⟩)
      · simp only [derivedEnd, he, Option.getD_none, n1, lastEnd_single, List.isEmpty_cons, Bool.false_eq_true, if_false]
        rw [n3]; rfl
    · have he : ifEndR body s2 s3 = E σ kl := by
        cases s3 with
        | none => exact absurd rfl l1
        | some l => simpa [ifEndR] using l3
      subst l6
      obtain ⟨s', n1, n2, n3⟩ := nest_ok T s2 r2.length k2 kl r3.length kl (s3.getD []) e7 e4 (by omega) (by omega)
        (by omega) hl (Or.inr ⟨by omega, Nat.le_refl _, by omega, by omega⟩)
      refine ⟨kl, by omega, by omega, by simp [RStmt.range, he], ?_, ?_⟩
      · rw [he, n1]
        exact ws_if T (by omega) (by omega) hj ht (by omega) (by omega) (by omega) (by omega) hb (by omega) (by omega)
          (by omega) (by omega) (seqS_single n2) (Or.inr ⟨Nat.le_refl _, by omega, by omega, by omega⟩)
      · simp only [derivedEnd, he, n1, lastEnd_single, List.isEmpty_cons, Bool.false_eq_true, if_false]
        rw [n3]; rfl

/-! ### the subject of `match` -/

def headStart (es : List RExpr) : Nat := match es.head? with | some e => e.range.1 | none => 0
def lastStop (es : List RExpr) : Nat := match es.getLast? with | some e => e.range.2 | none => 0

/-- expressions in consecutive windows lie between the start of the first and the end of the last -/
theorem seqRes_tight : ∀ (es : List RExpr) (lo hi : Nat), SeqG (Res src) lo hi es → es ≠ [] →
    lo ≤ headStart es ∧ lastStop es ≤ hi ∧ rgOk src (headStart es, lastStop es) ∧
      SeqG (Res src) (headStart es) (lastStop es) es
  | [], _, _, _, h => absurd rfl h
  | [e], lo, hi, ⟨m, h1, h2, _⟩, _ => by
    obtain ⟨g1, g2, g3, g4⟩ := h1
    simp only [headStart, lastStop, List.head?_cons, List.getLast?_singleton]
    exact ⟨g2, by omega, g1, _, ⟨g1, Nat.le_refl _, Nat.le_refl _, g4⟩, Nat.le_refl _, trivial⟩
  | e1 :: e2 :: es, lo, hi, ⟨m, h1, h2, h3⟩, _ => by
    obtain ⟨q1, q2, q3, q4⟩ := seqRes_tight (e2 :: es) m hi h3 (by simp)
    obtain ⟨g1, g2, g3, g4⟩ := h1
    have hh : headStart (e1 :: e2 :: es) = e1.range.1 := rfl
    have hl : lastStop (e1 :: e2 :: es) = lastStop (e2 :: es) := by simp [lastStop, List.getLast?_cons_cons]
    rw [hh, hl]
    have g1' := g1
    rw [show e1.range = (e1.range.1, e1.range.2) from rfl, rgOk_iff] at g1'
    have q3' := q3
    rw [rgOk_iff] at q3'
    refine ⟨g2, q2, ?_, e1.range.2, ⟨g1, Nat.le_refl _, Nat.le_refl _, g4⟩, by omega, ?_⟩
    · rw [rgOk_iff]; exact ⟨by omega, q3'.2.1, g1'.2.2.1, q3'.2.2.2⟩
    · exact SeqG.mono_lo (windowed_res src) q4 (by omega)

theorem matchSubjectR_sound (T : TiledTab src σ N) {j k : Nat} {es : List RExpr} {tc : Bool} (h1 : 1 ≤ k) (h2 : k ≤ j)
    (h3 : j ≤ N) (hs : SeqI src σ j k es) (hne : es ≠ [])
    (h4 : ∀ e, es = [e] → tc = false → Win src σ j k e) : Win src σ j k (matchSubjectR (es, tc)) := by
  unfold matchSubjectR
  split
  · rename_i e heq
    simp only [Prod.mk.injEq] at heq
    obtain ⟨rfl, rfl⟩ := heq
    exact h4 e rfl rfl
  · rename_i es' tc' hne' heq
    simp only [Prod.mk.injEq] at heq
    obtain ⟨rfl, rfl⟩ := heq
    refine ⟨T.SE' h1 h2 h3, fun hp => ?_⟩
    simp only [plain] at hp
    obtain ⟨q1, q2, q3, q4⟩ := seqRes_tight es _ _ (seq_plain hs hp) hne
    exact Res.intro' (headStart es, lastStop es) rfl q3 q1 q2 (sibsOk_toTrees src _ "elts" es _ _ q4)
      (okList_toTrees src "elts" _ _ es _ _ q4 (Nat.le_refl _) (Nat.le_refl _))

theorem commaList_subject (T : TiledTab src σ N) (f : Nat) : ∀ ek ts es tc rest, ts.length ≤ N →
    parseRCommaList σ ek f ts = some ((es, tc), rest) →
    rest.length < ts.length ∧ Win src σ ts.length (rest.length + 1) (matchSubjectR (es, tc)) := by
  intro ek ts es tc rest hN h
  obtain ⟨g1, g2, g3, g4⟩ := commaList_sound T f _ _ _ _ _ hN h
  exact ⟨g1, matchSubjectR_sound T (by omega) (by omega) hN g2 g3 (fun e he ht => (g4 e he ht).1)⟩

theorem def_nil {f} (C : CompSAt src σ N f) : ∀ st j0 isAsync ts s rest, st = S σ j0 → ts.length < j0 → j0 ≤ N →
    parseRDef σ f st isAsync [] ts = some (s, rest) → PostCs src σ j0 ts s rest :=
  fun st j0 a ts s rest h0 h1 h2 h => C.def_ st j0 a [] ts s rest 0 0 h0 h1 h2 seqI_nil h

theorem class_nil {f} (C : CompSAt src σ N f) : ∀ st j0 ts s rest, st = S σ j0 → ts.length < j0 → j0 ≤ N →
    parseRClass σ f st [] ts = some (s, rest) → PostCs src σ j0 ts s rest :=
  fun st j0 ts s rest h0 h1 h2 h => C.class_ st j0 [] ts s rest 0 0 h0 h1 h2 seqI_nil h

theorem comp_compound (T : TiledTab src σ N) {n} (ih : BelowCompS src σ N n) :
    ∀ ts s rest, ts.length ≤ N → parseRCompound σ n ts = some (s, rest) → PostC src σ ts s rest := by
  intro ts s rest hN
  fun_cases parseRCompound σ n ts
  all_goals first
    | rstep1 σ [(soundAt T _).namedTest, (ih _ rfl).suite, (ih _ rfl).else_, (ih _ rfl).finally_, (ih _ rfl).handlers,
        (ih _ rfl).for_, (ih _ rfl).with_, (ih _ rfl).def_, (ih _ rfl).class_, (ih _ rfl).cases, decorators_sound T _,
        commaList_subject T _, def_nil (ih _ rfl), class_nil (ih _ rfl)]
    | (-- `if … elif … else`
       rename_i _ _ _ _ ht _ _ hb _ _ hc _ _ he
       intro h
       simp only [Option.some.injEq, Prod.mk.injEq] at h
       obtain ⟨rfl, rfl⟩ := h
       have ih := ih _ rfl
       simp only [List.length_cons] at hN
       obtain ⟨t1, t2, _⟩ := (soundAt T _).namedTest _ _ _ (by omega) ht
       simp only [List.length_cons] at t1 t2
       obtain ⟨b1, b2, kb, b3, b4, b5, b6⟩ := ih.suite _ _ _ (by omega) hb
       have c := ih.elifs _ _ _ (by omega) hc
       have e := ih.else_ _ _ _ (by omega) he
       obtain ⟨k, g1, g2, g3, g4, g5⟩ := ifAssembleR_sound T (j := _ + 1) hN t2 (by omega) (by omega) b6 b2 b5 (by omega) b4
         b3 (by omega) c e
       simp only [PostC, List.length_cons, L]
       exact ⟨by omega, _, k, g1, g2, Nat.le_refl _, g3, g4, fun _ => rfl, g5⟩)

theorem compSAt_of_below (T : TiledTab src σ N) {n : Nat} (b : BelowCompS src σ N n) : CompSAt src σ N n :=
  ⟨comp_suite T b, comp_block T b, comp_else T b, comp_finally T b, comp_elifs T b, comp_handlers T b, comp_cases T b,
    comp_def T b, comp_class T b, comp_compound T b, comp_for T b, comp_with T b⟩

/-- every statement function of the ranged parser meets its specification, at every fuel, for every tiled span table -/
theorem compSAt (T : TiledTab src σ N) : ∀ n, CompSAt src σ N n
  | 0 => compSAt_of_below T (fun f h => absurd h (by omega))
  | n + 1 => compSAt_of_below T (fun f h => by cases h; exact compSAt T n)

/-! ### the program body -/

def ProgramBodySpec (src : List Nat) (σ : SpanTab) (N f : Nat) : Prop :=
  ∀ ts ss, ts.length ≤ N → parseRProgramBody σ f ts = some ss → SeqS src σ ts.length 1 ss ∧ (ss = [] ∨ 1 ≤ ts.length)

theorem programBody_sound (T : TiledTab src σ N) : ∀ f, ProgramBodySpec src σ N f := by
  refine below_rec (fun n ih => ?_)
  intro ts ss hN
  fun_cases parseRProgramBody σ n ts
  rstep σ [(compSAt T _).compound, simpleLine_sound T _, ih _ rfl]

end PV.C02
