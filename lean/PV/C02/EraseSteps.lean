import PV.C02.Erase
/-
  PV.C02.EraseSteps — one lemma per function of the ranged parser: its result with the ranges erased is the result
  of its twin in `PV/C11/Spec.lean` (given the same for every callee at the next lower fuel), and the induction
  on the fuel that assembles them.
-/
namespace PV.C02
open PV.Expr PV.C11

macro "eleaf" : tactic => `(tactic| (simp_all [RExpr.erase, RParams.erase, any_kwName, dedup_erase, pieces_erase] <;>
  grind [→ map_some_inv, → map_some_inv', RExpr.erase, eraseOpt_none, eraseOpt_some, eraseList_nil, eraseList_cons, eraseList_append, eraseKws_nil, eraseKws_cons, eraseKws_append, eraseParams_nil, eraseParams_cons, eraseParams_append, isStarred_erase, er, erL, erC, erPs, erAs, erA, erBF, erEl, erD, erG, erF, erSp]))

macro "estep" "[" ts:term,* "]" : tactic => `(tactic| (
  first
  | (simp [$[$ts:term],*, RExpr.erase, RParams.erase, any_kwName, *]; done)
  | (simp [$[$ts:term],*, RExpr.erase, RParams.erase, any_kwName, *]; (repeat' split) <;> eleaf)))

theorem step_test {n} (ih : Below n) : ∀ σ ts, parseTest n ts = (parseRTest σ n ts).map er := by
  intro σ ts
  fun_cases parseRTest σ n ts
  · simp [parseTest]
  all_goals have ih := ih _ rfl
  all_goals rw [parseTest.eq_def]
  all_goals estep [ih.orTest σ, ih.test σ, ih.lambda σ]

theorem step_lambda {n} (ih : Below n) : ∀ σ ts, parseLambda n ts = (parseRLambda σ n ts).map er := by
  intro σ ts
  fun_cases parseRLambda σ n ts
  · simp [parseLambda]
  all_goals have ih := ih _ rfl
  all_goals have hp := ih.params σ ts {} 0
  all_goals (have he : RParams.erase {} = {} := rfl)
  all_goals rw [he] at hp
  all_goals rw [parseLambda.eq_def]
  all_goals estep [ih.test σ]

/-- one item of a parameter list, E side, as a function (same text as in `parseParams`) -/
def itemE (f : Nat) (ts : List Tok) (ps : Params) (phase : Nat) : Option (Params × Nat × List Tok) :=
      match ts with
      | .name n :: .op .assign :: r =>
        if phase ≤ 2 then
          (match parseTest f r with
           | some (d, r') =>
             let a := Param.mk n (some d)
             if phase = 2 then some ({ ps with kwonly := ps.kwonly ++ [a] }, phase, r')
             else some ({ ps with args := ps.args ++ [a] }, phase, r')
           | none => none)
        else none
      | .name n :: r =>
        let a := Param.mk n none
        if phase = 2 then some ({ ps with kwonly := ps.kwonly ++ [a] }, phase, r)
        else if phase ≤ 1 then some ({ ps with args := ps.args ++ [a] }, phase, r)
        else none
      | .op .slash :: r =>
        if phase = 0 ∧ !ps.args.isEmpty then some ({ ps with posonly := ps.args, args := [] }, 1, r)
        else none
      | .op .star :: .name n :: r =>
        if phase ≤ 1 then some ({ ps with vararg := some n }, 2, r) else none
      | .op .star :: r =>
        if phase ≤ 1 then some (ps, 2, r) else none
      | .op .dstar :: .name n :: r =>
        if phase ≤ 2 then some ({ ps with kwarg := some n }, 3, r) else none
      | .op .dstar :: r =>
        if phase ≤ 2 then some (ps, 3, r) else none
      | _ => none

def itemR (σ : SpanTab) (f : Nat) (ts : List Tok) (ps : RParams) (phase : Nat) : Option (RParams × Nat × List Tok) :=
      match ts with
      | .name n :: .op .assign :: r =>
        if phase ≤ 2 then
          (match parseRTest σ f r with
           | some (d, r') =>
             let a := RParam.mk ((σ ts.length).1, d.range.2) (σ ts.length) n (some d)
             if phase = 2 then some ({ ps with kwonly := ps.kwonly ++ [a] }, phase, r')
             else some ({ ps with args := ps.args ++ [a] }, phase, r')
           | none => none)
        else none
      | .name n :: r =>
        let a := RParam.mk (σ ts.length) (σ ts.length) n none
        if phase = 2 then some ({ ps with kwonly := ps.kwonly ++ [a] }, phase, r)
        else if phase ≤ 1 then some ({ ps with args := ps.args ++ [a] }, phase, r)
        else none
      | .op .slash :: r =>
        if phase = 0 ∧ !ps.args.isEmpty then some ({ ps with posonly := ps.args, args := [] }, 1, r)
        else none
      | .op .star :: .name n :: r =>
        if phase ≤ 1 then some ({ ps with vararg := some (σ (r.length + 1), n) }, 2, r) else none
      | .op .star :: r =>
        if phase ≤ 1 then some (ps, 2, r) else none
      | .op .dstar :: .name n :: r =>
        if phase ≤ 2 then some ({ ps with kwarg := some (σ (r.length + 1), n) }, 3, r) else none
      | .op .dstar :: r =>
        if phase ≤ 2 then some (ps, 3, r) else none
      | _ => none

def erItem (p : RParams × Nat × List Tok) : Params × Nat × List Tok := (p.1.erase, p.2.1, p.2.2)

theorem item_erase {f} (ih : EraseAt f) (σ ts ps ph) : itemE f ts ps.erase ph = (itemR σ f ts ps ph).map erItem := by
  unfold itemE itemR
  simp only [ih.test σ]
  split <;> (try simp only []) <;> (repeat' split) <;> simp_all [erItem, RParams.erase, RExpr.erase]

def bareStarOkE (q : Params) (ph : Nat) : Bool := !(ph = 2 && q.vararg.isNone && q.kwonly.isEmpty)
def bareStarOkR (q : RParams) (ph : Nat) : Bool := !(ph = 2 && q.vararg.isNone && q.kwonly.isEmpty)

def tailE (f : Nat) (item : Option (Params × Nat × List Tok)) : PR Params :=
    match item with
    | none => none
    | some (ps', phase', r) =>
      match r with
      | .op .comma :: .op .colon :: r2 =>
        if bareStarOkE ps' phase' then some (ps', .op .colon :: r2) else none
      | .op .comma :: r2 => parseParams f r2 ps' phase'
      | .op .colon :: r2 =>
        if bareStarOkE ps' phase' then some (ps', .op .colon :: r2) else none
      | _ => none

def tailR (σ : SpanTab) (f : Nat) (item : Option (RParams × Nat × List Tok)) : PR RParams :=
    match item with
    | none => none
    | some (ps', phase', r) =>
      match r with
      | .op .comma :: .op .colon :: r2 =>
        if bareStarOkR ps' phase' then some (ps', .op .colon :: r2) else none
      | .op .comma :: r2 => parseRParams σ f r2 ps' phase'
      | .op .colon :: r2 =>
        if bareStarOkR ps' phase' then some (ps', .op .colon :: r2) else none
      | _ => none

theorem paramsE_unfold (f : Nat) (ts : List Tok) (ps : Params) (ph : Nat) (h : ∀ r, ts = .op .colon :: r → False) :
    parseParams (f + 1) ts ps ph = tailE f (itemE f ts ps ph) := by
  rw [parseParams.eq_def]
  split
  · simp_all
  · simp_all
  · rename_i heq _
    simp only [Nat.succ.injEq] at heq
    subst heq
    rfl

theorem paramsR_unfold (σ : SpanTab) (f : Nat) (ts : List Tok) (ps : RParams) (ph : Nat) (h : ∀ r, ts = .op .colon :: r → False) :
    parseRParams σ (f + 1) ts ps ph = tailR σ f (itemR σ f ts ps ph) := by
  rw [parseRParams.eq_def]
  split
  · simp_all
  · simp_all
  · rename_i heq _
    simp only [Nat.succ.injEq] at heq
    subst heq
    rfl

theorem bareStar_erase (q : RParams) (ph : Nat) : bareStarOkE q.erase ph = bareStarOkR q ph := by
  simp [bareStarOkE, bareStarOkR, RParams.erase]

theorem tail_erase {f} (ih : EraseAt f) (σ) (item : Option (RParams × Nat × List Tok)) :
    tailE f (item.map erItem) = (tailR σ f item).map erPs := by
  cases item with
  | none => simp [tailE, tailR]
  | some p =>
    obtain ⟨ps', ph', r⟩ := p
    simp only [Option.map_some, erItem, tailE, tailR, ih.params σ, bareStar_erase]
    split <;> (try split) <;> simp_all

theorem step_params {n} (ih : Below n) : ∀ σ ts ps ph, parseParams n ts ps.erase ph = (parseRParams σ n ts ps ph).map erPs := by
  intro σ ts ps ph
  cases n with
  | zero => simp [parseParams, parseRParams]
  | succ f =>
    have ih := ih _ rfl
    by_cases hc : ∃ r, ts = .op .colon :: r
    · obtain ⟨r, rfl⟩ := hc
      simp [parseParams, parseRParams]
    · have hc' : ∀ r, ts = .op .colon :: r → False := fun r h => hc ⟨r, h⟩
      rw [paramsE_unfold f ts _ ph hc', paramsR_unfold σ f ts ps ph hc', item_erase ih σ, tail_erase ih]

theorem step_namedTest {n} (ih : Below n) : ∀ σ ts, parseNamedTest n ts = (parseRNamedTest σ n ts).map er := by
  intro σ ts
  fun_cases parseRNamedTest σ n ts
  · simp [parseNamedTest]
  all_goals have ih := ih _ rfl
  all_goals rw [parseNamedTest.eq_def]
  all_goals estep [ih.test σ]

theorem step_starOrNamed {n} (ih : Below n) : ∀ σ ts, parseStarOrNamed n ts = (parseRStarOrNamed σ n ts).map er := by
  intro σ ts
  fun_cases parseRStarOrNamed σ n ts
  · simp [parseStarOrNamed]
  all_goals have ih := ih _ rfl
  all_goals rw [parseStarOrNamed.eq_def]
  all_goals estep [ih.bin σ, ih.namedTest σ]

theorem step_testOrStar {n} (ih : Below n) : ∀ σ ts, parseTestOrStar n ts = (parseRTestOrStar σ n ts).map er := by
  intro σ ts
  fun_cases parseRTestOrStar σ n ts
  · simp [parseTestOrStar]
  all_goals have ih := ih _ rfl
  all_goals rw [parseTestOrStar.eq_def]
  all_goals estep [ih.bin σ, ih.test σ]

theorem step_orTest {n} (ih : Below n) : ∀ σ ts, parseOrTest n ts = (parseROrTest σ n ts).map er := by
  intro σ ts
  fun_cases parseROrTest σ n ts
  · simp [parseOrTest]
  all_goals have ih := ih _ rfl
  all_goals rw [parseOrTest.eq_def]
  all_goals estep [ih.andTest σ, ih.orRest σ]

theorem step_orRest {n} (ih : Below n) : ∀ σ ts, parseOrRest n ts = (parseROrRest σ n ts).map erL := by
  intro σ ts
  fun_cases parseROrRest σ n ts
  · simp [parseOrRest]
  all_goals have ih := ih _ rfl
  all_goals rw [parseOrRest.eq_def]
  all_goals estep [ih.andTest σ, ih.orRest σ]

theorem step_andTest {n} (ih : Below n) : ∀ σ ts, parseAndTest n ts = (parseRAndTest σ n ts).map er := by
  intro σ ts
  fun_cases parseRAndTest σ n ts
  · simp [parseAndTest]
  all_goals have ih := ih _ rfl
  all_goals rw [parseAndTest.eq_def]
  all_goals estep [ih.notTest σ, ih.andRest σ]

theorem step_andRest {n} (ih : Below n) : ∀ σ ts, parseAndRest n ts = (parseRAndRest σ n ts).map erL := by
  intro σ ts
  fun_cases parseRAndRest σ n ts
  · simp [parseAndRest]
  all_goals have ih := ih _ rfl
  all_goals rw [parseAndRest.eq_def]
  all_goals estep [ih.notTest σ, ih.andRest σ]

theorem step_notTest {n} (ih : Below n) : ∀ σ ts, parseNotTest n ts = (parseRNotTest σ n ts).map er := by
  intro σ ts
  fun_cases parseRNotTest σ n ts
  · simp [parseNotTest]
  all_goals have ih := ih _ rfl
  all_goals rw [parseNotTest.eq_def]
  all_goals estep [ih.notTest σ, ih.cmp σ]

theorem step_cmp {n} (ih : Below n) : ∀ σ ts, parseCmp n ts = (parseRCmp σ n ts).map er := by
  intro σ ts
  fun_cases parseRCmp σ n ts
  · simp [parseCmp]
  all_goals have ih := ih _ rfl
  all_goals rw [parseCmp.eq_def]
  all_goals estep [ih.bin σ, ih.cmpRest σ]

theorem step_cmpRest {n} (ih : Below n) : ∀ σ ts, parseCmpRest n ts = (parseRCmpRest σ n ts).map erC := by
  intro σ ts
  fun_cases parseRCmpRest σ n ts
  · simp [parseCmpRest]
  all_goals have ih := ih _ rfl
  all_goals rw [parseCmpRest.eq_def]
  all_goals estep [ih.bin σ, ih.cmpRest σ]

theorem step_bin {n} (ih : Below n) : ∀ σ lvl ts, parseBin lvl n ts = (parseRBin σ lvl n ts).map er := by
  intro σ lvl ts
  fun_cases parseRBin σ lvl n ts
  · simp [parseBin]
  all_goals have ih := ih _ rfl
  all_goals have hb := ih.binLoop σ
  all_goals rw [parseBin.eq_def]
  all_goals estep [ih.bin σ, ih.factor σ]

theorem step_binLoop {n} (ih : Below n) : ∀ σ lvl st acc ts,
    parseBinLoop lvl n acc.erase ts = (parseRBinLoop σ lvl n st acc ts).map er := by
  intro σ lvl st acc ts
  fun_cases parseRBinLoop σ lvl n st acc ts
  · simp [parseBinLoop]
  all_goals have ih := ih _ rfl
  all_goals have hb := ih.binLoop σ
  all_goals rw [parseBinLoop.eq_def]
  all_goals estep [ih.bin σ, ih.factor σ]

theorem step_factor {n} (ih : Below n) : ∀ σ ts, parseFactor n ts = (parseRFactor σ n ts).map er := by
  intro σ ts
  fun_cases parseRFactor σ n ts
  · simp [parseFactor]
  all_goals have ih := ih _ rfl
  all_goals rw [parseFactor.eq_def]
  all_goals estep [ih.factor σ, ih.power σ]

theorem step_power {n} (ih : Below n) : ∀ σ ts, parsePower n ts = (parseRPower σ n ts).map er := by
  intro σ ts
  fun_cases parseRPower σ n ts
  · simp [parsePower]
  all_goals have ih := ih _ rfl
  all_goals rw [parsePower.eq_def]
  all_goals estep [ih.factor σ, ih.atomExpr σ]

theorem step_atomExpr {n} (ih : Below n) : ∀ σ ts, parseAtomExpr n ts = (parseRAtomExpr σ n ts).map er := by
  intro σ ts
  fun_cases parseRAtomExpr σ n ts
  · simp [parseAtomExpr]
  all_goals have ih := ih _ rfl
  all_goals rw [parseAtomExpr.eq_def]
  all_goals estep [ih.atomExpr2 σ]

theorem step_atomExpr2 {n} (ih : Below n) : ∀ σ ts, parseAtomExpr2 n ts = (parseRAtomExpr2 σ n ts).map er := by
  intro σ ts
  fun_cases parseRAtomExpr2 σ n ts
  · simp [parseAtomExpr2]
  all_goals have ih := ih _ rfl
  all_goals have hb := ih.trailers σ
  all_goals rw [parseAtomExpr2.eq_def]
  all_goals estep [ih.atom σ]

theorem step_trailers {n} (ih : Below n) : ∀ σ st acc ts,
    parseTrailers n acc.erase ts = (parseRTrailers σ n st acc ts).map er := by
  intro σ st acc ts
  fun_cases parseRTrailers σ n st acc ts
  · simp [parseTrailers]
  all_goals have ih := ih _ rfl
  all_goals have ha := ih.args σ (as := []) (ks := []) (d := false)
  all_goals simp only [eraseList_nil, eraseKws_nil] at ha
  all_goals have ht := ih.trailers σ
  all_goals rw [parseTrailers.eq_def]
  all_goals estep [ih.subscriptList σ]

theorem step_args {n} (ih : Below n) : ∀ σ ts as ks d,
    parseArgs n ts (eraseList as) (eraseKws ks) d = (parseRArgs σ n ts as ks d).map erAs := by
  intro σ ts as ks d
  fun_cases parseRArgs σ n ts as ks d
  · simp [parseArgs]
  all_goals have ih := ih _ rfl
  all_goals have ha := ih.args σ
  all_goals rw [parseArgs.eq_def]
  all_goals estep [ih.arg σ]

theorem step_arg {n} (ih : Below n) : ∀ σ ts as ks d,
    parseArg n ts (eraseList as) (eraseKws ks) d = (parseRArg σ n ts as ks d).map erA := by
  intro σ ts as ks d
  fun_cases parseRArg σ n ts as ks d
  · simp [parseArg]
  all_goals have ih := ih _ rfl
  all_goals rw [parseArg.eq_def]
  all_goals estep [ih.test σ, ih.namedTest σ, ih.compFor σ]

theorem step_subscriptList {n} (ih : Below n) : ∀ σ ts, parseSubscriptList n ts = (parseRSubscriptList σ n ts).map er := by
  intro σ ts
  fun_cases parseRSubscriptList σ n ts
  · simp [parseSubscriptList]
  all_goals have ih := ih _ rfl
  all_goals rw [parseSubscriptList.eq_def]
  all_goals estep [ih.subscript σ, ih.subscripts σ]

theorem step_subscripts {n} (ih : Below n) : ∀ σ ts, parseSubscripts n ts = (parseRSubscripts σ n ts).map erL := by
  intro σ ts
  fun_cases parseRSubscripts σ n ts
  · simp [parseSubscripts]
  all_goals have ih := ih _ rfl
  all_goals rw [parseSubscripts.eq_def]
  all_goals estep [ih.subscript σ, ih.subscripts σ]

theorem step_subscript {n} (ih : Below n) : ∀ σ ts, parseSubscript n ts = (parseRSubscript σ n ts).map er := by
  intro σ ts
  fun_cases parseRSubscript σ n ts
  · simp [parseSubscript]
  all_goals have ih := ih _ rfl
  all_goals have hs := ih.sliceRest σ
  all_goals rw [parseSubscript.eq_def]
  all_goals estep [ih.test σ, ih.starOrNamed σ, ih.namedTest σ]

theorem step_sliceRest {n} (ih : Below n) : ∀ σ st lower ts,
    parseSliceRest n (eraseOpt lower) ts = (parseRSliceRest σ n st lower ts).map er := by
  intro σ st lower ts
  fun_cases parseRSliceRest σ n st lower ts
  · simp [parseSliceRest]
  all_goals have ih := ih _ rfl
  all_goals rw [parseSliceRest.eq_def]
  all_goals estep [ih.test σ]

theorem step_atom {n} (ih : Below n) : ∀ σ ts, parseAtom n ts = (parseRAtom σ n ts).map er := by
  intro σ ts
  fun_cases parseRAtom σ n ts
  · simp [parseAtom]
  all_goals have ih := ih _ rfl
  all_goals rw [parseAtom.eq_def]
  all_goals estep [ih.strings σ, ih.listAtom σ, ih.parenAtom σ, ih.braceAtom σ]

theorem step_listAtom {n} (ih : Below n) : ∀ σ ts, parseListAtom n ts = (parseRListAtom σ n ts).map er := by
  intro σ ts
  fun_cases parseRListAtom σ n ts
  · simp [parseListAtom]
  all_goals have ih := ih _ rfl
  all_goals rw [parseListAtom.eq_def]
  all_goals estep [ih.starOrNamed σ, ih.compFor σ, ih.elems σ]

theorem step_parenAtom {n} (ih : Below n) : ∀ σ ts, parseParenAtom n ts = (parseRParenAtom σ n ts).map er := by
  intro σ ts
  fun_cases parseRParenAtom σ n ts
  · simp [parseParenAtom]
  all_goals have ih := ih _ rfl
  all_goals rw [parseParenAtom.eq_def]
  all_goals estep [ih.starOrNamed σ, ih.compFor σ, ih.elems σ, ih.yieldAtom σ]

theorem step_yieldAtom {n} (ih : Below n) : ∀ σ ts, parseYieldAtom n ts = (parseRYieldAtom σ n ts).map er := by
  intro σ ts
  fun_cases parseRYieldAtom σ n ts
  · simp [parseYieldAtom]
  all_goals have ih := ih _ rfl
  all_goals rw [parseYieldAtom.eq_def]
  all_goals estep [ih.test σ, ih.testList σ]

theorem step_braceAtom {n} (ih : Below n) : ∀ σ ts, parseBraceAtom n ts = (parseRBraceAtom σ n ts).map er := by
  intro σ ts
  fun_cases parseRBraceAtom σ n ts
  · simp [parseBraceAtom]
  all_goals have ih := ih _ rfl
  all_goals rw [parseBraceAtom.eq_def]
  all_goals estep [ih.bin σ, ih.dictRest σ, ih.braceFirst σ, ih.test σ, ih.compFor σ, ih.elems σ]

theorem step_braceFirst {n} (ih : Below n) : ∀ σ ts, parseBraceFirst n ts = (parseRBraceFirst σ n ts).map erBF := by
  intro σ ts
  fun_cases parseRBraceFirst σ n ts
  · simp [parseBraceFirst]
  all_goals have ih := ih _ rfl
  all_goals rw [parseBraceFirst.eq_def]
  all_goals estep [ih.starOrNamed σ, ih.namedTest σ, ih.test σ]

theorem step_elems {n} (ih : Below n) : ∀ σ close ts, parseElems n close ts = (parseRElems σ n close ts).map erEl := by
  intro σ close ts
  fun_cases parseRElems σ n close ts
  · simp [parseElems]
  all_goals have ih := ih _ rfl
  all_goals rw [parseElems.eq_def]
  all_goals estep [ih.starOrNamed σ, ih.elems σ]

theorem step_dictRest {n} (ih : Below n) : ∀ σ ts, parseDictRest n ts = (parseRDictRest σ n ts).map erD := by
  intro σ ts
  fun_cases parseRDictRest σ n ts
  · simp [parseDictRest]
  all_goals have ih := ih _ rfl
  all_goals rw [parseDictRest.eq_def]
  all_goals estep [ih.bin σ, ih.dictRest σ, ih.test σ]

theorem step_compFor {n} (ih : Below n) : ∀ σ ts, parseCompFor n ts = (parseRCompFor σ n ts).map erG := by
  intro σ ts
  fun_cases parseRCompFor σ n ts
  · simp [parseCompFor]
  all_goals have ih := ih _ rfl
  all_goals rw [parseCompFor.eq_def]
  all_goals estep [ih.targetList σ, ih.orTest σ, ih.compIfs σ, ih.compFor σ]

theorem step_compIfs {n} (ih : Below n) : ∀ σ ts, parseCompIfs n ts = (parseRCompIfs σ n ts).map erL := by
  intro σ ts
  fun_cases parseRCompIfs σ n ts
  · simp [parseCompIfs]
  all_goals have ih := ih _ rfl
  all_goals rw [parseCompIfs.eq_def]
  all_goals estep [ih.orTest σ, ih.compIfs σ]

theorem step_exprOrStar {n} (ih : Below n) : ∀ σ ts, parseExprOrStar n ts = (parseRExprOrStar σ n ts).map er := by
  intro σ ts
  fun_cases parseRExprOrStar σ n ts
  · simp [parseExprOrStar]
  all_goals have ih := ih _ rfl
  all_goals rw [parseExprOrStar.eq_def]
  all_goals estep [ih.bin σ]

theorem step_targetList {n} (ih : Below n) : ∀ σ ts, parseTargetList n ts = (parseRTargetList σ n ts).map er := by
  intro σ ts
  fun_cases parseRTargetList σ n ts
  · simp [parseTargetList]
  all_goals have ih := ih _ rfl
  all_goals rw [parseTargetList.eq_def]
  all_goals estep [ih.exprOrStar σ, ih.targetRest σ]

theorem step_targetRest {n} (ih : Below n) : ∀ σ ts, parseTargetRest n ts = (parseRTargetRest σ n ts).map erL := by
  intro σ ts
  fun_cases parseRTargetRest σ n ts
  · simp [parseTargetRest]
  all_goals have ih := ih _ rfl
  all_goals rw [parseTargetRest.eq_def]
  all_goals estep [ih.exprOrStar σ, ih.targetRest σ]

theorem step_testList {n} (ih : Below n) : ∀ σ ts, parseTestList n ts = (parseRTestList σ n ts).map er := by
  intro σ ts
  fun_cases parseRTestList σ n ts
  · simp [parseTestList]
  all_goals have ih := ih _ rfl
  all_goals rw [parseTestList.eq_def]
  all_goals estep [ih.testOrStar σ, ih.testListRest σ]

theorem step_testListRest {n} (ih : Below n) : ∀ σ ts, parseTestListRest n ts = (parseRTestListRest σ n ts).map erL := by
  intro σ ts
  fun_cases parseRTestListRest σ n ts
  · simp [parseTestListRest]
  all_goals have ih := ih _ rfl
  all_goals rw [parseTestListRest.eq_def]
  all_goals estep [ih.testOrStar σ, ih.testListRest σ]

theorem step_top {n} (ih : Below n) : ∀ σ ts, parseTop n ts = (parseRTop σ n ts).map RExpr.erase := by
  intro σ ts
  fun_cases parseRTop σ n ts
  · simp [parseTop]
  all_goals have ih := ih _ rfl
  all_goals rw [parseTop.eq_def]
  all_goals estep [ih.testList σ]

theorem parseStrings_unfold (f : Nat) (ts : List Tok) : parseStrings (f + 1) ts =
    (let strs := ts.takeWhile isStringTok
     let rest := ts.dropWhile isStringTok
     let nBytes := (strs.filter isBytesTok).length
     if nBytes > 0 then
       if nBytes < strs.length then none
       else some (.const (.bytes (strs.flatMap bytesOfTok)), rest)
     else if !strs.any isFstrTok then
       some (.const (.str (strs.flatMap strOfTok) (initialUOf strs)), rest)
     else
       match parseStringPieces f strs with
       | some pieces => some (.joinedStr (dedupPieces (initialUOf strs) pieces none), rest)
       | none => none) := by
  rw [parseStrings.eq_def]
  rfl

theorem step_strings {n} (ih : Below n) : ∀ σ ts, parseStrings n ts = (parseRStrings σ n ts).map er := by
  intro σ ts
  cases n with
  | zero => simp [parseStrings, parseRStrings]
  | succ f =>
    have ih := ih _ rfl
    rw [parseStrings_unfold, parseRStrings.eq_def]
    simp only [ih.stringPieces σ (List.dropWhile isStringTok ts).length]
    split
    · split <;> simp [*, RExpr.erase]
    · split
      · simp [*, RExpr.erase]
      · cases parseRStringPieces σ f (List.dropWhile isStringTok ts).length (List.takeWhile isStringTok ts) <;>
          simp [*, RExpr.erase, dedup_erase]

theorem step_stringPieces {n} (ih : Below n) : ∀ σ after ts,
    parseStringPieces n ts = (parseRStringPieces σ n after ts).map (·.map erPiece) := by
  intro σ after ts
  cases n with
  | zero => simp [parseStringPieces, parseRStringPieces]
  | succ f =>
    have ih := ih _ rfl
    rw [parseStringPieces.eq_def, parseRStringPieces.eq_def]
    rcases ts with _ | ⟨t, r⟩
    · simp
    · cases t <;> simp only [] <;> try (simp; done)
      · -- str
        simp only [ih.stringPieces σ after]
        cases parseRStringPieces σ f after r <;> simp [erPiece]
      · -- fstr
        rename_i q triple raw body
        simp only [ih.stringPieces σ after]
        rw [ih.fbody (σ (r.length + 1 + after))
          ((σ (r.length + 1 + after)).1 + (if raw then 2 else 1) + (if triple then 3 else 1)) body]
        cases h : fstrRBody f (σ (r.length + 1 + after))
          ((σ (r.length + 1 + after)).1 + (if raw then 2 else 1) + (if triple then 3 else 1)) body raw 0 body [] with
        | none => simp
        | some p =>
          obtain ⟨vs, rr⟩ := p
          cases rr with
          | nil =>
            simp only [Option.map_some, erF_mk]
            cases parseRStringPieces σ f after r <;> simp [← pieces_erase]
          | cons c cs => simp

theorem step_fbody {n} (ih : Below n) : ∀ lit base whole raw nested cs content,
    fstrBody n raw nested cs content = (fstrRBody n lit base whole raw nested cs content).map erF := by
  intro lit base whole raw nested cs content
  fun_cases fstrRBody n lit base whole raw nested cs content
  · simp [fstrBody]
  all_goals have ih := ih _ rfl
  all_goals rw [fstrBody.eq_def]
  all_goals estep [ih.fbody lit base whole, ih.ffield lit base whole]

theorem step_fspec {n} (ih : Below n) : ∀ lit base whole raw nested cs piece,
    fstrSpec n raw nested cs piece = (fstrRSpec n lit base whole raw nested cs piece).map erF := by
  intro lit base whole raw nested cs piece
  fun_cases fstrRSpec n lit base whole raw nested cs piece
  · simp [fstrSpec]
  all_goals have ih := ih _ rfl
  all_goals rw [fstrSpec.eq_def]
  all_goals estep [ih.fbody lit base whole, ih.fspec lit base whole]

theorem step_ffield {n} (ih : Below n) : ∀ lit base whole raw nested cs,
    fstrField n raw nested cs = (fstrRField n lit base whole raw nested cs).map erF := by
  intro lit base whole raw nested cs
  cases n with
  | zero => simp [fstrField, fstrRField]
  | succ f =>
    have ih := ih _ rfl
    rw [fstrField.eq_def, fstrRField.eq_def]
    simp only []
    cases hs : scanField (cs.length + 1) {} cs with
    | none => simp
    | some p =>
      obtain ⟨st, stop, r⟩ := p
      simp only [ih.fspec lit base whole, ih.top (fieldTab (posIn base whole cs.length) st.expr.reverse)]
      cases stop with
      | close =>
        simp only []
        (repeat' split) <;> eleaf
      | spec =>
        simp only []
        cases hsp : fstrRSpec f lit base whole raw nested r [] with
        | none => simp
        | some q =>
          obtain ⟨vs, rr⟩ := q
          simp only [Option.map_some, erF_mk]
          (repeat' split) <;> eleaf


theorem eraseAt_of_below {n : Nat} (b : Below n) : EraseAt n :=
  ⟨step_test b, step_lambda b, step_params b, step_namedTest b, step_starOrNamed b, step_testOrStar b, step_orTest b, step_orRest b, step_andTest b, step_andRest b, step_notTest b, step_cmp b, step_cmpRest b, step_bin b, step_binLoop b, step_factor b, step_power b, step_atomExpr b, step_atomExpr2 b, step_trailers b, step_args b, step_arg b, step_subscriptList b, step_subscripts b, step_subscript b, step_sliceRest b, step_atom b, step_listAtom b, step_parenAtom b, step_yieldAtom b, step_braceAtom b, step_braceFirst b, step_elems b, step_dictRest b, step_compFor b, step_compIfs b, step_exprOrStar b, step_targetList b, step_targetRest b, step_testList b, step_testListRest b, step_strings b, step_stringPieces b, step_fbody b, step_ffield b, step_fspec b, step_top b⟩

/-- every function of the ranged parser erases to its twin, at every fuel -/
theorem eraseAt : ∀ n, EraseAt n
  | 0 => eraseAt_of_below (fun f h => absurd h (by omega))
  | n + 1 => eraseAt_of_below (fun f h => by cases h; exact eraseAt n)

end PV.C02
