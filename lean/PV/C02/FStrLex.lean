import PV.C02.SoundBase
import PV.Common.Proto
/-
  PV.C02.FStrLex — the span table of a replacement field (`lexSpans` / `fieldTab`, RParse.lean) tiles the text it
  was lexed from: the analogue of C05 (tokens in bounds, on character boundaries, ordered) for the token loop
  `lexSpansGo`, which runs in lock-step with the C11 lexer `PV.C11.lexGo`.

  * `lexString_len` … `dropLine_len`: every token function of the C11 lexer returns a rest that is not longer than
    its input;
  * `lexSpansGo_chain`: the (characters-left-before, characters-left-after) pairs decrease along the token list;
  * `lex_lockstep`: `lexGo` and `lexSpansGo` accept the same texts and produce lists of the same length;
  * `lexSpans_tiles`: every span of `lexSpans base text` is `(base + ulen (text.take i), base + ulen (text.take j))`
    with `i ≤ j ≤ |text|`, and the spans are ordered and disjoint;
  * `tiledTab_of_aligned`: if the character offsets of `text` (re-based) are character boundaries of `src`
    (`Aligned`), then `tabOf (lexSpans base text)` is a `TiledTab` of `src` — the hypothesis the soundness induction
    (`soundAt`) needs for the recursive parse of a field.
-/
set_option linter.unusedSimpArgs false
set_option linter.unusedVariables false
namespace PV.C02
open PV.Expr PV.C11

/-! ### the token functions consume a prefix -/


theorem lexStringBody_len (q : Nat) (t : Bool) (cs : List Nat) : ∀ b r, lexStringBody q t cs = some (b, r) →
    r.length < cs.length := by
  fun_induction lexStringBody q t cs <;> intro b r h <;> simp_all <;> grind

theorem stringPrefix_len {cs : List Nat} {a b c d : Bool} {r : List Nat}
    (h : stringPrefix cs = some (a, b, c, d, r)) : r.length ≤ cs.length ∧ r ≠ [] := by
  unfold stringPrefix at h
  simp only at h
  repeat' split at h
  all_goals simp_all
  all_goals (try (obtain ⟨_, _, _, _, rfl⟩ := h; simp))
  all_goals (try omega)

theorem lexString_len {cs : List Nat} {t : Tok} {r : List Nat} (h : lexString cs = some (t, r)) :
    r.length < cs.length := by
  unfold lexString at h
  split at h
  · cases h
  · rename_i raw isB isF isU q r0 hp
    have h0 := (stringPrefix_len hp).1
    simp only [List.length_cons] at h0
    simp only at h
    split at h
    · cases h
    · rename_i body rest hb
      have h1 := lexStringBody_len _ _ _ _ _ hb
      have h2 : rest = r := by
        repeat' split at h
        all_goals simp_all
      subst h2
      split at h1
      · split at h1 <;> simp_all <;> omega
      · simp_all; omega
  · cases h



theorem radixRun_len' {rx : Nat} {l a b : List Nat} (h : radixRun rx l = (a, b)) : b.length ≤ l.length := by
  have := radixRun_length rx l; rw [h] at this; exact this

theorem lexExponent_len {cs : List Nat} {e : Int} {r : List Nat} (h : lexExponent cs = some (e, r)) :
    r.length ≤ cs.length := by
  unfold lexExponent at h
  repeat' split at h
  all_goals (try (cases h; done))
  all_goals (
    simp only [Option.some.injEq, Prod.mk.injEq] at h
    rw [← h.2]
    rename_i heq
    have h5 := radixRun_len' heq
    simp only [List.length_cons] at h5 ⊢
    omega)

theorem lexNormalNumber_len {cs : List Nat} {t : Tok} {r : List Nat} (h : lexNormalNumber cs = some (t, r)) :
    r.length ≤ cs.length := by
  unfold lexNormalNumber at h
  simp only at h
  have h1 := radixRun_length 10 cs
  generalize radixRun 10 cs = p at h h1
  obtain ⟨ip, r1⟩ := p
  simp only at h h1
  split at h
  · split at h
    · cases h
    · rename_i fp r2 hfr
      have h2 : r2.length ≤ r1.length := by
        split at hfr
        · cases hfr
        · simp only [Option.some.injEq] at hfr
          have h5 := radixRun_len' hfr
          simp only [List.length_cons] at h5 ⊢
          omega
        · simp only [Option.some.injEq, Prod.mk.injEq] at hfr
          rw [hfr.2]; exact Nat.le_refl _
      cases he : lexExponent r2 with
      | none =>
        simp only [he] at h
        repeat' split at h
        all_goals (first | (cases h; done) | (simp only [Option.some.injEq, Prod.mk.injEq] at h; obtain ⟨_, rfl⟩ := h; (try subst_vars); (try simp only [List.length_cons] at *); (first | omega | grind)))
      | some p =>
        obtain ⟨e, r3⟩ := p
        have := lexExponent_len he
        simp only [he] at h
        repeat' split at h
        all_goals (first | (cases h; done) | (simp only [Option.some.injEq, Prod.mk.injEq] at h; obtain ⟨_, rfl⟩ := h; (try subst_vars); (try simp only [List.length_cons] at *); (first | omega | grind)))
  · repeat' split at h
    all_goals (first | (cases h; done) | (simp only [Option.some.injEq, Prod.mk.injEq] at h; obtain ⟨_, rfl⟩ := h; (try subst_vars); (try simp only [List.length_cons] at *); (first | omega | grind)))

theorem lexNumber_len {cs : List Nat} {t : Tok} {r : List Nat} (h : lexNumber cs = some (t, r)) :
    r.length ≤ cs.length := by
  unfold lexNumber at h
  split at h
  · rename_i x rest
    simp only at h
    split at h
    · rename_i rx _
      have := radixRun_length rx rest
      generalize radixRun rx rest = p at h this
      obtain ⟨ds, r'⟩ := p
      simp only at h this
      split at h
      · cases h
      · simp only [Option.some.injEq, Prod.mk.injEq] at h
        rw [← h.2]; simp only [List.length_cons]; omega
    · exact lexNormalNumber_len h
  · exact lexNormalNumber_len h

theorem lexOp_len {cs : List Nat} {o : Op} {r : List Nat} (h : lexOp cs = some (o, r)) : r.length < cs.length := by
  unfold lexOp at h
  split at h
  all_goals (first | (cases h; done) | (simp only [Option.some.injEq, Prod.mk.injEq] at h; rw [← h.2]; simp only [List.length_cons]; omega))

theorem spanIdCont_len (cs : List Nat) : (spanIdCont cs).2.length ≤ cs.length := by
  induction cs with
  | nil => simp [spanIdCont]
  | cons c r ih =>
    unfold spanIdCont
    split
    · simp only [List.length_cons]; omega
    · simp

theorem dropLine_len (cs : List Nat) : (dropLine cs).length ≤ cs.length := by
  fun_induction dropLine cs <;> simp_all <;> omega


/-! ### the spans decrease -/

/-- spans given as (characters left before, characters left after): decreasing, below `n` -/
def ChainD : Nat → List (Nat × Nat) → Prop
  | _, [] => True
  | n, (a, b) :: l => a ≤ n ∧ b ≤ a ∧ ChainD b l

theorem ChainD.mono : ∀ {l : List (Nat × Nat)} {n m : Nat}, ChainD n l → n ≤ m → ChainD m l
  | [], _, _, _, _ => trivial
  | (a, b) :: l, n, m, h, hm => ⟨by have := h.1; omega, h.2.1, h.2.2⟩

theorem chainD_map {n : Nat} {x : Option (List (Nat × Nat))} {a b : Nat} {l : List (Nat × Nat)}
    (h : x.map ((a, b) :: ·) = some l) (ih : ∀ l, x = some l → ChainD b l) (h1 : a ≤ n) (h2 : b ≤ a) : ChainD n l := by
  cases x with
  | none => cases h
  | some l' =>
    simp only [Option.map_some, Option.some.injEq] at h
    subst h
    exact ⟨h1, h2, ih l' rfl⟩

/-- the token loop records decreasing (characters-left-before, characters-left-after) pairs -/
theorem lexSpansGo_chain (fuel nest : Nat) (cs : List Nat) :
    ∀ l, lexSpansGo fuel nest cs = some l → ChainD cs.length l := by
  fun_induction lexSpansGo fuel nest cs <;> intro l h
  all_goals (try (cases h; done))
  all_goals (try (simp only [Option.some.injEq] at h; subst h; trivial))
  all_goals (try simp only [List.length_cons])
  all_goals (first
    | (rename_i ih; exact (ih l h).mono (by first | omega | (have := dropLine_len ‹_›; omega)))
    | skip)
  all_goals (
    rename_i ih
    refine chainD_map h ih (Nat.le_refl _) ?_
    first
    | omega
    | (have := lexString_len ‹_›; simp only [List.length_cons] at this; omega)
    | (have := lexNumber_len ‹_›; simp only [List.length_cons] at this; omega)
    | (have := lexOp_len ‹_›; simp only [List.length_cons] at this; omega)
    | (rename_i c rest _ _ _ _ _ _ _ _ _ x; have := spanIdCont_len (c :: rest); rw [x] at this;
       simp only [List.length_cons] at this; omega))

/-! ### `lexGo` and `lexSpansGo` run in lock-step -/

theorem map_len_nil {α β} {x : Option (List α)} {y : Option (List β)} (h : x.map List.length = y.map List.length) :
    (x = some [] ↔ y = some []) := by
  cases x <;> cases y <;> simp_all
  rename_i a b
  cases a <;> cases b <;> simp_all

theorem map_len_cons {α β} {x : Option (List α)} {y : Option (List β)} (a : α) (b : β)
    (h : x.map List.length = y.map List.length) :
    x.map (List.length ∘ fun l => a :: l) = y.map (List.length ∘ fun l => b :: l) := by
  cases x <;> cases y <;> simp_all

/-- the C11 token loop and the span loop accept the same texts and produce equally many items -/
theorem lex_lockstep (fuel nest : Nat) (cs : List Nat) :
    (lexGo fuel nest cs).map List.length = (lexSpansGo fuel nest cs).map List.length := by
  fun_induction lexSpansGo fuel nest cs
  all_goals (rw [lexGo.eq_def])
  all_goals (try simp only [*, ↓reduceIte, not_false_eq_true, Option.map_map, Option.map_none, Option.map_some,
    List.length_nil, Bool.false_eq_true])
  case case6 x ih =>
    have := (map_len_nil ih).mpr x
    simp [this]
  case case7 x ih =>
    have h1 : ¬ (lexGo _ _ _ = some []) := fun h => x ((map_len_nil ih).mp h)
    split <;> simp_all
  all_goals (try rw [if_pos (by assumption)])
  all_goals (try rw [if_neg (by assumption)])
  all_goals (try simp only [*, ↓reduceIte, not_false_eq_true, Option.map_map, Option.map_none, Option.map_some,
    List.length_nil, Bool.false_eq_true])
  all_goals (try (exact map_len_cons _ _ (by assumption)))
  all_goals (try (simp; done))

/-! ### byte offsets of character positions -/

theorem ulen_append (a b : List Nat) : ulen (a ++ b) = ulen a + ulen b := by
  induction a with
  | nil => simp [ulen]
  | cons x xs ih => simp only [List.cons_append, ulen, ih]; omega

theorem ulen_take_mono (l : List Nat) {i j : Nat} (h : i ≤ j) : ulen (l.take i) ≤ ulen (l.take j) := by
  have : l.take j = l.take i ++ (l.drop i).take (j - i) := by
    rw [← List.take_append_drop i (l.take j)]
    congr 1
    · rw [List.take_take]; congr 1; omega
    · rw [List.drop_take]
  rw [this, ulen_append]; omega

theorem usize_eq (c : Nat) : usize c = (PV.utf8EncodeNat c).length := by
  unfold usize PV.utf8EncodeNat
  (repeat' split) <;> simp

theorem ulen_eq_encode (l : List Nat) : ulen l = (PV.utf8Encode l).length := by
  induction l with
  | nil => simp [ulen, PV.utf8Encode]
  | cons c cs ih =>
    simp only [ulen, PV.utf8Encode, List.flatMap_cons, List.length_append] at *
    rw [ih, usize_eq]

/-! ### the spans of `lexSpans` -/

theorem chainD_spans (base : Nat) (text : List Nat) : ∀ (l : List (Nat × Nat)) (n : Nat), ChainD n l → n ≤ text.length →
    (∀ p ∈ l.map (fun (ab : Nat × Nat) => (posIn base text ab.1, posIn base text ab.2)),
      ∃ i j, i ≤ j ∧ j ≤ text.length ∧ text.length - n ≤ i ∧
        p = (base + ulen (text.take i), base + ulen (text.take j))) ∧
    (l.map (fun (ab : Nat × Nat) => (posIn base text ab.1, posIn base text ab.2))).Pairwise (fun p q => p.2 ≤ q.1)
  | [], _, _, _ => by simp
  | (a, b) :: l, n, h, hn => by
    obtain ⟨h1, h2, h3⟩ := h
    obtain ⟨ih1, ih2⟩ := chainD_spans base text l b h3 (by omega)
    refine ⟨?_, ?_⟩
    · intro p hp
      simp only [List.map_cons, List.mem_cons] at hp
      rcases hp with rfl | hp
      · exact ⟨text.length - a, text.length - b, by omega, by omega, by omega, rfl⟩
      · obtain ⟨i, j, g1, g2, g3, g4⟩ := ih1 p hp
        exact ⟨i, j, g1, g2, by omega, g4⟩
    · simp only [List.map_cons, List.pairwise_cons]
      refine ⟨?_, ih2⟩
      intro q hq
      obtain ⟨i, j, g1, g2, g3, rfl⟩ := ih1 q hq
      simp only [posIn]
      have := ulen_take_mono text g3
      omega

/-- **The span table of a replacement field tiles the field's text** (the analogue of C05's `tokens_in_bounds`,
    `tokens_on_boundaries`, `tokens_ordered_disjoint` for `lexSpans`): every span is the byte image
    `(base + ulen (text.take i), base + ulen (text.take j))` of a character interval `i ≤ j ≤ |text|` of the text, and
    the spans are in text order without overlap. -/
theorem lexSpans_tiles (base : Nat) (text : List Nat) :
    (∀ p ∈ lexSpans base text, ∃ i j, i ≤ j ∧ j ≤ text.length ∧
      p = (base + ulen (text.take i), base + ulen (text.take j))) ∧
    (lexSpans base text).Pairwise (fun p q => p.2 ≤ q.1) := by
  unfold lexSpans
  split
  · rename_i l hl
    have hc := lexSpansGo_chain _ _ _ l hl
    obtain ⟨h1, h2⟩ := chainD_spans base text l text.length hc (Nat.le_refl _)
    refine ⟨fun p hp => ?_, h2⟩
    obtain ⟨i, j, g1, g2, _, g4⟩ := h1 p hp
    exact ⟨i, j, g1, g2, g4⟩
  · simp

/-- the number of spans is the number of tokens of the C11 lexer (no byte-order mark at the start) -/
theorem lexSpans_length {text : List Nat} {tks : List Tok} (h : lexGo (text.length + 1) 0 text = some tks) (base : Nat) :
    (lexSpans base text).length = tks.length := by
  have := lex_lockstep (text.length + 1) 0 text
  rw [h] at this
  unfold lexSpans
  cases hl : lexSpansGo (text.length + 1) 0 text with
  | none => rw [hl] at this; cases this
  | some l => rw [hl] at this; simp only [Option.map_some, Option.some.injEq] at this; simp [this]

/-! ### from aligned text to a tiled span table -/

/-- the character offsets of `text`, re-based at `base`, are character boundaries inside `src` -/
def Aligned (src : List Nat) (base : Nat) (text : List Nat) : Prop :=
  ∀ i, i ≤ text.length → base + ulen (text.take i) ≤ src.length ∧ isBoundary src (base + ulen (text.take i)) = true

theorem tabOf_get' (spans : List Rg) (k : Nat) (h1 : 1 ≤ k) (h2 : k ≤ spans.length) :
    tabOf spans k = spans[spans.length - k]'(by omega) := by
  unfold tabOf
  have : ¬(k = 0 ∨ k > spans.length) := by omega
  simp only [this, if_false, List.getD_eq_getElem?_getD]
  rw [List.getElem?_eq_getElem (by omega)]
  rfl

theorem tiledTab_of_spans {src : List Nat} {sp : List Rg} (h1 : ∀ p ∈ sp, rgOk src p)
    (h2 : sp.Pairwise (fun p q => p.2 ≤ q.1)) : TiledTab src (tabOf sp) sp.length := by
  refine ⟨fun k g1 g2 => ?_, fun j k g1 g2 g3 => ?_⟩
  · rw [tabOf_get' _ k g1 g2]
    exact h1 _ (List.getElem_mem _)
  · rw [tabOf_get' _ j (by omega) (by omega), tabOf_get' _ k g1 (by omega)]
    exact List.pairwise_iff_getElem.mp h2 (sp.length - j) (sp.length - k) (by omega) (by omega) (by omega)

/-- **Tiling of a field's span table.**  If the character offsets of `text` at `base` are boundaries of `src`, the span
    table of `text` lexed at `base` tiles `src`, and every span lies in `[base, base + ulen text]`. -/
theorem tiledTab_of_aligned {src : List Nat} {base : Nat} {text : List Nat} (h : Aligned src base text) :
    TiledTab src (tabOf (lexSpans base text)) (lexSpans base text).length ∧
    ∀ p ∈ lexSpans base text, base ≤ p.1 ∧ p.2 ≤ base + ulen text := by
  obtain ⟨h1, h2⟩ := lexSpans_tiles base text
  refine ⟨tiledTab_of_spans (fun p hp => ?_) h2, fun p hp => ?_⟩
  · obtain ⟨i, j, g1, g2, rfl⟩ := h1 p hp
    rw [rgOk_iff]
    have := ulen_take_mono text g1
    exact ⟨by omega, (h j g2).1, (h i (by omega)).2, (h j g2).2⟩
  · obtain ⟨i, j, g1, g2, rfl⟩ := h1 p hp
    have := ulen_take_mono text (i := j) (j := text.length) g2
    rw [List.take_length] at this
    simp only
    omega

end PV.C02
