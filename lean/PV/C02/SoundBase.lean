import PV.C02.RParse
/-
  PV.C02.SoundBase — vocabulary and generic lemmas for the proof that the ranged parser's trees pass `rangesOk`:

  * `TiledTab src σ N`: the span table of `N` tokens tiles `src` (every span a well-formed slice on character
    boundaries; later tokens start after earlier ones end).
  * `Res src lo hi e`: the tree of `e` is fine (own range, enclosure, sibling order, recursively) and its range
    lies in the window `[lo, hi]`; `SeqG P lo hi xs`: the items sit in consecutive windows inside `[lo, hi]`.
-/
namespace PV.C02
open PV.Expr PV.C11

/-! ### well-formed ranges and tiled span tables -/

/-- start ≤ end ≤ |src|, both ends on character boundaries -/
def rgOk (src : List Nat) (r : Rg) : Prop := ownOk src (some r) = true

theorem rgOk_iff (src : List Nat) (a b : Nat) :
    rgOk src (a, b) ↔ a ≤ b ∧ b ≤ src.length ∧ isBoundary src a = true ∧ isBoundary src b = true := by
  simp [rgOk, ownOk, and_assoc]

/-- The span table of `N` tokens tiles `src`: the token with `k` tokens left (1 ≤ k ≤ N) has a well-formed span,
    and a token further from the end (`j > k`) ends before the token `k` starts. -/
structure TiledTab (src : List Nat) (σ : SpanTab) (N : Nat) : Prop where
  own : ∀ k, 1 ≤ k → k ≤ N → rgOk src (σ k)
  ord : ∀ j k, 1 ≤ k → k < j → j ≤ N → (σ j).2 ≤ (σ k).1

namespace TiledTab
variable {src : List Nat} {σ : SpanTab} {N : Nat}

theorem SE (T : TiledTab src σ N) {k : Nat} (h1 : 1 ≤ k) (h2 : k ≤ N) : (σ k).1 ≤ (σ k).2 := by
  have := T.own k h1 h2
  rw [show σ k = ((σ k).1, (σ k).2) from rfl, rgOk_iff] at this
  exact this.1

theorem ES (T : TiledTab src σ N) {j k : Nat} (h1 : 1 ≤ k) (h2 : k < j) (h3 : j ≤ N) : (σ j).2 ≤ (σ k).1 :=
  T.ord j k h1 h2 h3

theorem SS (T : TiledTab src σ N) {j k : Nat} (h1 : 1 ≤ k) (h2 : k ≤ j) (h3 : j ≤ N) : (σ j).1 ≤ (σ k).1 := by
  rcases Nat.lt_or_ge k j with h | h
  · have := T.SE (k := j) (by omega) h3
    have := T.ES h1 h h3
    omega
  · have : j = k := by omega
    subst this; exact Nat.le_refl _

theorem EE (T : TiledTab src σ N) {j k : Nat} (h1 : 1 ≤ k) (h2 : k ≤ j) (h3 : j ≤ N) : (σ j).2 ≤ (σ k).2 := by
  rcases Nat.lt_or_ge k j with h | h
  · have := T.SE (k := k) h1 (by omega)
    have := T.ES h1 h h3
    omega
  · have : j = k := by omega
    subst this; exact Nat.le_refl _

/-- the window from the start of token `j` to the end of token `k` (`j` not after... `k ≤ j`) is a well-formed range -/
theorem win (T : TiledTab src σ N) {j k : Nat} (h1 : 1 ≤ k) (h2 : k ≤ j) (h3 : j ≤ N) :
    rgOk src ((σ j).1, (σ k).2) := by
  have hj := T.own j (by omega) h3
  have hk := T.own k h1 (by omega)
  rw [show σ j = ((σ j).1, (σ j).2) from rfl, rgOk_iff] at hj
  rw [show σ k = ((σ k).1, (σ k).2) from rfl, rgOk_iff] at hk
  rw [rgOk_iff]
  refine ⟨?_, hk.2.1, hj.2.2.1, hk.2.2.2⟩
  have := T.SS h1 h2 h3
  omega

end TiledTab

/-! ### fine trees inside a window -/

/-- sibling order and everything below the node are fine -/
def innerOk (src : List Nat) (e : RExpr) : Prop :=
  sibsOk e.kind e.children = true ∧ okList src (some e.range) e.children = true

/-- `e`'s tree is fine and its range lies in `[lo, hi]` -/
def Res (src : List Nat) (lo hi : Nat) (e : RExpr) : Prop :=
  rgOk src e.range ∧ lo ≤ e.range.1 ∧ e.range.2 ≤ hi ∧ innerOk src e

theorem Res.mono {src lo hi lo' hi'} {e : RExpr} (h : Res src lo hi e) (h1 : lo' ≤ lo) (h2 : hi ≤ hi') :
    Res src lo' hi' e := ⟨h.1, by have := h.2.1; omega, by have := h.2.2.1; omega, h.2.2.2⟩

theorem Res.le {src lo hi} {e : RExpr} (h : Res src lo hi e) : lo ≤ hi := by
  have h1 := h.1
  rw [show e.range = (e.range.1, e.range.2) from rfl, rgOk_iff] at h1
  have := h.2.1; have := h.2.2.1; omega

/-- the node of a fine expression passes the checker below any range that contains its window, in any slot -/
theorem Res.toOk {src lo hi} {e : RExpr} (h : Res src lo hi e) (slot : String) (il : Bool) (a b : Nat)
    (ha : a ≤ lo) (hb : hi ≤ b) :
    ok src (some (a, b)) (.node e.kind slot il (some e.range) e.children) = true := by
  obtain ⟨h1, h2, h3, h4, h5⟩ := h
  simp only [ok, Bool.and_eq_true, Option.orElse]
  refine ⟨⟨⟨h1, ?_⟩, h4⟩, h5⟩
  simp only [enclOk, Bool.or_eq_true, Bool.and_eq_true, decide_eq_true_eq]
  right; omega

/-- …and at the root -/
theorem Res.toOk_root {src lo hi} {e : RExpr} (h : Res src lo hi e) (slot : String) (il : Bool) :
    ok src none (e.toTree slot il) = true := by
  obtain ⟨h1, h2, h3, h4, h5⟩ := h
  simp only [RExpr.toTree, ok, Bool.and_eq_true, Option.orElse]
  exact ⟨⟨⟨h1, by simp [enclOk]⟩, h4⟩, h5⟩

/-- building a fine node from its parts -/
theorem Res.intro {src lo hi} {e : RExpr} (h1 : rgOk src e.range) (h2 : lo ≤ e.range.1) (h3 : e.range.2 ≤ hi)
    (h4 : sibsOk e.kind e.children = true) (h5 : okList src (some e.range) e.children = true) : Res src lo hi e :=
  ⟨h1, h2, h3, h4, h5⟩

/-! ### items in consecutive windows -/

/-- the items sit in consecutive windows inside `[lo, hi]`: each item's window ends where the next one begins -/
def SeqG {α : Type} (P : Nat → Nat → α → Prop) : Nat → Nat → List α → Prop
  | _, _, [] => True
  | lo, hi, x :: xs => ∃ m, P lo m x ∧ m ≤ hi ∧ SeqG P m hi xs

/-- windows may be widened; a window is never inverted -/
structure Windowed {α : Type} (P : Nat → Nat → α → Prop) : Prop where
  mono : ∀ {lo hi lo' hi' x}, P lo hi x → lo' ≤ lo → hi ≤ hi' → P lo' hi' x
  le : ∀ {lo hi x}, P lo hi x → lo ≤ hi

theorem windowed_res (src : List Nat) : Windowed (Res src) := ⟨fun h a b => h.mono a b, fun h => h.le⟩

namespace SeqG
variable {α : Type} {P : Nat → Nat → α → Prop}

theorem mono_hi {lo hi hi'} : ∀ {xs : List α}, SeqG P lo hi xs → hi ≤ hi' → SeqG P lo hi' xs
  | [], _, _ => trivial
  | _ :: xs, ⟨m, h1, h2, h3⟩, h => ⟨m, h1, by omega, mono_hi (xs := xs) h3 h⟩

theorem mono_lo (W : Windowed P) {lo lo' hi} : ∀ {xs : List α}, SeqG P lo hi xs → lo' ≤ lo → SeqG P lo' hi xs
  | [], _, _ => trivial
  | _ :: _, ⟨m, h1, h2, h3⟩, h => ⟨m, W.mono h1 h (Nat.le_refl _), h2, h3⟩

theorem single {lo hi} {x : α} (h : P lo hi x) : SeqG P lo hi [x] := ⟨hi, h, Nat.le_refl _, trivial⟩

theorem cons (W : Windowed P) {lo m m' hi} {x : α} {xs : List α} (h : P lo m x) (hm : m ≤ m')
    (hs : SeqG P m' hi xs) (hh : m ≤ hi) : SeqG P lo hi (x :: xs) :=
  ⟨m, h, hh, mono_lo W hs hm⟩

/-- append one item behind the others -/
theorem snoc (W : Windowed P) {lo m m' m'' hi} {x : α} : ∀ {xs : List α}, SeqG P lo m xs → lo ≤ m' → m ≤ m' →
    P m' m'' x → m'' ≤ hi → SeqG P lo hi (xs ++ [x])
  | [], _, h0, _, hx, hh => ⟨m'', W.mono hx h0 (Nat.le_refl _), hh, trivial⟩
  | y :: ys, ⟨m1, h1, h2, h3⟩, _, hm, hx, hh => by
    have := W.le hx
    exact ⟨m1, h1, by omega, snoc W (xs := ys) h3 (by omega) hm hx hh⟩

end SeqG

/-! ### sibling order of children lists -/

/-- every tree of the list sits in list field `s` -/
def AllSlot (s : String) (ts : List Tree) : Prop := ∀ t ∈ ts, t.slot = s ∧ t.inList = true

theorem sibsOk_cons_notList (k : String) (x : Tree) (ys : List Tree) (h : x.inList = false) :
    sibsOk k (x :: ys) = sibsOk k ys := by
  cases ys with
  | nil => simp [sibsOk]
  | cons y ys => simp [sibsOk, h]

theorem sibsOk_cons_ne (k : String) (x y : Tree) (ys : List Tree) (h : x.slot ≠ y.slot) :
    sibsOk k (x :: y :: ys) = sibsOk k (y :: ys) := by
  simp [sibsOk, h]

theorem sibsOk_append_ne (k s1 s2 : String) (hne : s1 ≠ s2) : ∀ (xs ys : List Tree), AllSlot s1 xs → AllSlot s2 ys →
    sibsOk k (xs ++ ys) = (sibsOk k xs && sibsOk k ys)
  | [], ys, _, _ => by simp [sibsOk]
  | [x], [], _, _ => by simp [sibsOk]
  | [x], y :: ys, h1, h2 => by
    have hx := (h1 x (by simp)).1
    have hy := (h2 y (by simp)).1
    have : x.slot ≠ y.slot := by rw [hx, hy]; exact hne
    simp only [List.cons_append, List.nil_append]
    rw [sibsOk_cons_ne k x y ys this]
    simp [sibsOk]
  | x :: x' :: xs, ys, h1, h2 => by
    have ih := sibsOk_append_ne k s1 s2 hne (x' :: xs) ys (fun t ht => h1 t (by simp at ht ⊢; right; exact ht)) h2
    simp only [List.cons_append] at ih ⊢
    simp only [sibsOk, ih, Bool.and_assoc]

/-- trees in a `notList` slot in front of a children list do not matter for sibling order -/
theorem sibsOk_append_notList (k : String) : ∀ (xs ys : List Tree), (∀ t ∈ xs, t.inList = false) →
    sibsOk k (xs ++ ys) = sibsOk k ys
  | [], _, _ => rfl
  | x :: xs, ys, h => by
    simp only [List.cons_append]
    rw [sibsOk_cons_notList k x _ (h x (by simp))]
    exact sibsOk_append_notList k xs ys (fun t ht => h t (by simp [ht]))

theorem allSlot_toTrees (s : String) : ∀ es : List RExpr, AllSlot s (toTrees s es)
  | [] => by simp [AllSlot, toTrees]
  | e :: es => by
    intro t ht
    simp only [toTrees, List.mem_cons] at ht
    rcases ht with rfl | ht
    · simp [Tree.slot, Tree.inList]
    · exact allSlot_toTrees s es t ht

/-- consecutive windows give ordered, non-overlapping siblings -/
theorem sibsOk_toTrees (src : List Nat) (k s : String) : ∀ (es : List RExpr) (lo hi : Nat),
    SeqG (Res src) lo hi es → sibsOk k (toTrees s es) = true
  | [], _, _, _ => by simp [toTrees, sibsOk]
  | [e], _, _, _ => by simp [toTrees, sibsOk]
  | e1 :: e2 :: es, lo, hi, ⟨m, h1, _, h3⟩ => by
    have ih := sibsOk_toTrees src k s (e2 :: es) m hi h3
    obtain ⟨m2, h4, _, _⟩ := h3
    simp only [toTrees] at ih ⊢
    simp only [sibsOk, Tree.slot, Tree.inList, Tree.range, ih, Bool.and_true]
    have := h1.2.2.1
    have := h4.2.1
    split <;> simp <;> omega

/-- …and every element passes the checker below a range that contains the whole sequence -/
theorem okList_toTrees (src : List Nat) (s : String) (a b : Nat) : ∀ (es : List RExpr) (lo hi : Nat),
    SeqG (Res src) lo hi es → a ≤ lo → hi ≤ b → okList src (some (a, b)) (toTrees s es) = true
  | [], _, _, _, _, _ => by simp [toTrees, okList]
  | e :: es, lo, hi, ⟨m, h1, h2, h3⟩, ha, hb => by
    simp only [toTrees, okList, Bool.and_eq_true]
    have := h1.le
    exact ⟨h1.toOk s true a b ha (by omega), okList_toTrees src s a b es m hi h3 (by omega) hb⟩

theorem okList_append (src : List Nat) (par : Option (Nat × Nat)) : ∀ (xs ys : List Tree),
    okList src par (xs ++ ys) = (okList src par xs && okList src par ys)
  | [], _ => by simp [okList]
  | x :: xs, ys => by simp [okList, okList_append src par xs ys, Bool.and_assoc]

end PV.C02
