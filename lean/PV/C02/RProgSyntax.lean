import PV.Prog.Syntax
import PV.C02.RParse
/-
  PV.C02.RProgSyntax — the RANGED abstract syntax of whole programs: `PV.Prog.Stmt` / `Pattern` / `ExceptHandler` /
  `MatchCase` / `WithItem` / `Alias` / `TypeParam` / `Arg` / `ArgWithDefault` / `Arguments` / `Mod` with the `range`
  of every node (as under `all-nodes-with-ranges`), expressions being `PV.C02.RExpr`.

  * `erase` forgets the ranges (gives the `PV.Prog` syntax);
  * `kind` / `range` / `children` / `tree` give the generic `PV.C02.Tree` — kinds and slots are the names of the Rust
    `{:?}` dump (`StmtFunctionDef`, `decorator_list`, `type_`, …), children in schema order
    (`ast/src/gen/generic.rs`), exactly the tree `lean/Drv/C02.lean toTree` reads off the canonical text;

  Core Lean only.
-/
namespace PV.C02
open PV.Expr PV.C11 PV.Prog

/-! ## ranged syntax -/

/-- `Arg { arg, annotation }` -/
structure RArg where
  rg : Rg
  name : Ident
  annotation : Option RExpr

/-- `ArgWithDefault { def, default }` -/
structure RArgD where
  rg : Rg
  arg : RArg
  default : Option RExpr

/-- `Arguments` -/
structure RArguments where
  rg : Rg
  posonly : List RArgD := []
  args : List RArgD := []
  vararg : Option RArg := none
  kwonly : List RArgD := []
  kwarg : Option RArg := none

/-- `Alias` -/
structure RAlias where
  rg : Rg
  name : Ident
  asname : Option Ident

/-- `WithItem` -/
structure RWithItem where
  rg : Rg
  contextExpr : RExpr
  optionalVars : Option RExpr

/-- `TypeParam` -/
inductive RTypeParam where
  | typeVar (rg : Rg) (name : Ident) (bound : Option RExpr)
  | paramSpec (rg : Rg) (name : Ident)
  | typeVarTuple (rg : Rg) (name : Ident)

/-- `Pattern` -/
inductive RPattern where
  | matchValue (rg : Rg) (value : RExpr)
  | matchSingleton (rg : Rg) (value : Const)
  | matchSequence (rg : Rg) (patterns : List RPattern)
  | matchMapping (rg : Rg) (keys : List RExpr) (patterns : List RPattern) (rest : Option Ident)
  | matchClass (rg : Rg) (cls : RExpr) (patterns : List RPattern) (kwdAttrs : List Ident) (kwdPatterns : List RPattern)
  | matchStar (rg : Rg) (name : Option Ident)
  | matchAs (rg : Rg) (pattern : Option RPattern) (name : Option Ident)
  | matchOr (rg : Rg) (patterns : List RPattern)

instance : Inhabited RPattern := ⟨.matchStar (0, 0) none⟩

mutual
/-- `Stmt`, one constructor per variant, each with its range -/
inductive RStmt where
  | functionDef (rg : Rg) (name : Ident) (args : RArguments) (body : List RStmt) (decorators : List RExpr)
      (returns : Option RExpr) (typeParams : List RTypeParam)
  | asyncFunctionDef (rg : Rg) (name : Ident) (args : RArguments) (body : List RStmt) (decorators : List RExpr)
      (returns : Option RExpr) (typeParams : List RTypeParam)
  | classDef (rg : Rg) (name : Ident) (bases : List RExpr) (keywords : List RKeyword) (body : List RStmt)
      (decorators : List RExpr) (typeParams : List RTypeParam)
  | return (rg : Rg) (value : Option RExpr)
  | delete (rg : Rg) (targets : List RExpr)
  | assign (rg : Rg) (targets : List RExpr) (value : RExpr)
  | typeAlias (rg : Rg) (name : RExpr) (typeParams : List RTypeParam) (value : RExpr)
  | augAssign (rg : Rg) (target : RExpr) (op : BinOp) (value : RExpr)
  | annAssign (rg : Rg) (target annotation : RExpr) (value : Option RExpr) (simple : Bool)
  | for (rg : Rg) (target iter : RExpr) (body orelse : List RStmt)
  | asyncFor (rg : Rg) (target iter : RExpr) (body orelse : List RStmt)
  | while (rg : Rg) (test : RExpr) (body orelse : List RStmt)
  | if (rg : Rg) (test : RExpr) (body orelse : List RStmt)
  | with (rg : Rg) (items : List RWithItem) (body : List RStmt)
  | asyncWith (rg : Rg) (items : List RWithItem) (body : List RStmt)
  | match (rg : Rg) (subject : RExpr) (cases : List RCase)
  | raise (rg : Rg) (exc cause : Option RExpr)
  | try (rg : Rg) (body : List RStmt) (handlers : List RHandler) (orelse finalbody : List RStmt)
  | tryStar (rg : Rg) (body : List RStmt) (handlers : List RHandler) (orelse finalbody : List RStmt)
  | assert (rg : Rg) (test : RExpr) (msg : Option RExpr)
  | import (rg : Rg) (names : List RAlias)
  | importFrom (rg : Rg) (module : Option Ident) (names : List RAlias) (level : Option Nat)
  | global (rg : Rg) (names : List Ident)
  | nonlocal (rg : Rg) (names : List Ident)
  | expr (rg : Rg) (value : RExpr)
  | pass (rg : Rg)
  | break (rg : Rg)
  | continue (rg : Rg)
/-- `ExceptHandler::ExceptHandler` -/
inductive RHandler where
  | mk (rg : Rg) (type : Option RExpr) (name : Option Ident) (body : List RStmt)
/-- `MatchCase` -/
inductive RCase where
  | mk (rg : Rg) (pattern : RPattern) (guard : Option RExpr) (body : List RStmt)
end

instance : Inhabited RStmt := ⟨.pass (0, 0)⟩

/-- `Mod` -/
inductive RMod where
  | module (rg : Rg) (body : List RStmt)
  | interactive (rg : Rg) (body : List RStmt)
  | expression (rg : Rg) (body : RExpr)

/-! ## ranges and kinds -/

def RTypeParam.range : RTypeParam → Rg
  | .typeVar rg _ _ | .paramSpec rg _ | .typeVarTuple rg _ => rg

def RTypeParam.kind : RTypeParam → String
  | .typeVar .. => "TypeParamTypeVar" | .paramSpec .. => "TypeParamParamSpec"
  | .typeVarTuple .. => "TypeParamTypeVarTuple"

def RPattern.range : RPattern → Rg
  | .matchValue rg _ | .matchSingleton rg _ | .matchSequence rg _ | .matchMapping rg _ _ _ | .matchClass rg _ _ _ _
  | .matchStar rg _ | .matchAs rg _ _ | .matchOr rg _ => rg

def RPattern.kind : RPattern → String
  | .matchValue .. => "PatternMatchValue" | .matchSingleton .. => "PatternMatchSingleton"
  | .matchSequence .. => "PatternMatchSequence" | .matchMapping .. => "PatternMatchMapping"
  | .matchClass .. => "PatternMatchClass" | .matchStar .. => "PatternMatchStar" | .matchAs .. => "PatternMatchAs"
  | .matchOr .. => "PatternMatchOr"

def RStmt.range : RStmt → Rg
  | .functionDef rg _ _ _ _ _ _ | .asyncFunctionDef rg _ _ _ _ _ _ | .classDef rg _ _ _ _ _ _ | .return rg _
  | .delete rg _ | .assign rg _ _ | .typeAlias rg _ _ _ | .augAssign rg _ _ _ | .annAssign rg _ _ _ _
  | .for rg _ _ _ _ | .asyncFor rg _ _ _ _ | .while rg _ _ _ | .if rg _ _ _ | .with rg _ _ | .asyncWith rg _ _
  | .match rg _ _ | .raise rg _ _ | .try rg _ _ _ _ | .tryStar rg _ _ _ _ | .assert rg _ _ | .import rg _
  | .importFrom rg _ _ _ | .global rg _ | .nonlocal rg _ | .expr rg _ | .pass rg | .break rg | .continue rg => rg

def RStmt.kind : RStmt → String
  | .functionDef .. => "StmtFunctionDef" | .asyncFunctionDef .. => "StmtAsyncFunctionDef"
  | .classDef .. => "StmtClassDef" | .return .. => "StmtReturn" | .delete .. => "StmtDelete"
  | .assign .. => "StmtAssign" | .typeAlias .. => "StmtTypeAlias" | .augAssign .. => "StmtAugAssign"
  | .annAssign .. => "StmtAnnAssign" | .for .. => "StmtFor" | .asyncFor .. => "StmtAsyncFor"
  | .while .. => "StmtWhile" | .if .. => "StmtIf" | .with .. => "StmtWith" | .asyncWith .. => "StmtAsyncWith"
  | .match .. => "StmtMatch" | .raise .. => "StmtRaise" | .try .. => "StmtTry" | .tryStar .. => "StmtTryStar"
  | .assert .. => "StmtAssert" | .import .. => "StmtImport" | .importFrom .. => "StmtImportFrom"
  | .global .. => "StmtGlobal" | .nonlocal .. => "StmtNonlocal" | .expr .. => "StmtExpr" | .pass .. => "StmtPass"
  | .break .. => "StmtBreak" | .continue .. => "StmtContinue"

def RHandler.range : RHandler → Rg
  | .mk rg _ _ _ => rg
def RHandler.body : RHandler → List RStmt
  | .mk _ _ _ b => b
def RCase.range : RCase → Rg
  | .mk rg _ _ _ => rg
def RCase.body : RCase → List RStmt
  | .mk _ _ _ b => b

def RMod.range : RMod → Rg
  | .module rg _ | .interactive rg _ | .expression rg _ => rg

/-- `body.last().unwrap().end()` (0 for the empty list, which no `Suite` is) -/
def lastEnd (ss : List RStmt) : Nat :=
  match ss.getLast? with
  | some s => s.range.2
  | none => 0

/-! ## erasing the ranges -/

def RArg.erase (a : RArg) : Arg := ⟨a.name, eraseOpt a.annotation⟩
def RArgD.erase (p : RArgD) : ArgWithDefault := ⟨p.arg.erase, eraseOpt p.default⟩
def RArguments.erase (a : RArguments) : Arguments :=
  { posonly := a.posonly.map RArgD.erase, args := a.args.map RArgD.erase, vararg := a.vararg.map RArg.erase,
    kwonly := a.kwonly.map RArgD.erase, kwarg := a.kwarg.map RArg.erase }
def RAlias.erase (a : RAlias) : Alias := ⟨a.name, a.asname⟩
def RWithItem.erase (w : RWithItem) : WithItem := ⟨w.contextExpr.erase, eraseOpt w.optionalVars⟩
def RTypeParam.erase : RTypeParam → TypeParam
  | .typeVar _ n b => .typeVar n (eraseOpt b)
  | .paramSpec _ n => .paramSpec n
  | .typeVarTuple _ n => .typeVarTuple n

mutual
def RPattern.erase : RPattern → Pattern
  | .matchValue _ v => .matchValue v.erase
  | .matchSingleton _ c => .matchSingleton c
  | .matchSequence _ ps => .matchSequence (erasePats ps)
  | .matchMapping _ ks ps r => .matchMapping (eraseList ks) (erasePats ps) r
  | .matchClass _ c ps ka kp => .matchClass c.erase (erasePats ps) ka (erasePats kp)
  | .matchStar _ n => .matchStar n
  | .matchAs _ p n => .matchAs (erasePatOpt p) n
  | .matchOr _ ps => .matchOr (erasePats ps)
def erasePats : List RPattern → List Pattern
  | [] => []
  | p :: ps => p.erase :: erasePats ps
def erasePatOpt : Option RPattern → Option Pattern
  | none => none
  | some p => some p.erase
end

mutual
def RStmt.erase : RStmt → Stmt
  | .functionDef _ n a b d r tp =>
    .functionDef n a.erase (eraseStmts b) (eraseList d) (eraseOpt r) (tp.map RTypeParam.erase)
  | .asyncFunctionDef _ n a b d r tp =>
    .asyncFunctionDef n a.erase (eraseStmts b) (eraseList d) (eraseOpt r) (tp.map RTypeParam.erase)
  | .classDef _ n bs ks b d tp =>
    .classDef n (eraseList bs) (eraseKws ks) (eraseStmts b) (eraseList d) (tp.map RTypeParam.erase)
  | .return _ v => .return (eraseOpt v)
  | .delete _ ts => .delete (eraseList ts)
  | .assign _ ts v => .assign (eraseList ts) v.erase
  | .typeAlias _ n tp v => .typeAlias n.erase (tp.map RTypeParam.erase) v.erase
  | .augAssign _ t o v => .augAssign t.erase o v.erase
  | .annAssign _ t a v s => .annAssign t.erase a.erase (eraseOpt v) s
  | .for _ t i b o => .for t.erase i.erase (eraseStmts b) (eraseStmts o)
  | .asyncFor _ t i b o => .asyncFor t.erase i.erase (eraseStmts b) (eraseStmts o)
  | .while _ t b o => .while t.erase (eraseStmts b) (eraseStmts o)
  | .if _ t b o => .if t.erase (eraseStmts b) (eraseStmts o)
  | .with _ items b => .with (items.map RWithItem.erase) (eraseStmts b)
  | .asyncWith _ items b => .asyncWith (items.map RWithItem.erase) (eraseStmts b)
  | .match _ s cs => .match s.erase (eraseCases cs)
  | .raise _ e c => .raise (eraseOpt e) (eraseOpt c)
  | .try _ b hs o f => .try (eraseStmts b) (eraseHandlers hs) (eraseStmts o) (eraseStmts f)
  | .tryStar _ b hs o f => .tryStar (eraseStmts b) (eraseHandlers hs) (eraseStmts o) (eraseStmts f)
  | .assert _ t m => .assert t.erase (eraseOpt m)
  | .import _ ns => .import (ns.map RAlias.erase)
  | .importFrom _ m ns l => .importFrom m (ns.map RAlias.erase) l
  | .global _ ns => .global ns
  | .nonlocal _ ns => .nonlocal ns
  | .expr _ e => .expr e.erase
  | .pass _ => .pass
  | .break _ => .break
  | .continue _ => .continue
def eraseStmts : List RStmt → List Stmt
  | [] => []
  | s :: ss => s.erase :: eraseStmts ss
def eraseHandlers : List RHandler → List ExceptHandler
  | [] => []
  | .mk _ ty nm b :: hs => .mk (eraseOpt ty) nm (eraseStmts b) :: eraseHandlers hs
def eraseCases : List RCase → List MatchCase
  | [] => []
  | .mk _ p g b :: cs => .mk p.erase (eraseOpt g) (eraseStmts b) :: eraseCases cs
end

def RMod.erase : RMod → Mod
  | .module _ b => .module (eraseStmts b)
  | .interactive _ b => .interactive (eraseStmts b)
  | .expression _ e => .expression e.erase

/-! ## the generic ranged tree -/

def RArg.tree (slot : String) (il : Bool) (a : RArg) : Tree :=
  .node "Arg" slot il (some a.rg) (optTree "annotation" a.annotation)

def RArgD.tree (slot : String) (p : RArgD) : Tree :=
  .node "ArgWithDefault" slot true (some p.rg) (p.arg.tree "def" false :: optTree "default" p.default)

def argOptTree (slot : String) : Option RArg → List Tree
  | none => []
  | some a => [a.tree slot false]

def RArguments.children (a : RArguments) : List Tree :=
  a.posonly.map (RArgD.tree "posonlyargs") ++ (a.args.map (RArgD.tree "args") ++ (argOptTree "vararg" a.vararg ++
    (a.kwonly.map (RArgD.tree "kwonlyargs") ++ argOptTree "kwarg" a.kwarg)))

def RArguments.tree (a : RArguments) : Tree := .node "Arguments" "args" false (some a.rg) a.children

def RAlias.tree (a : RAlias) : Tree := .node "Alias" "names" true (some a.rg) []

def RWithItem.tree (w : RWithItem) : Tree :=
  .node "WithItem" "items" true (some w.rg)
    (w.contextExpr.toTree "context_expr" false :: optTree "optional_vars" w.optionalVars)

def RTypeParam.children : RTypeParam → List Tree
  | .typeVar _ _ b => optTree "bound" b
  | _ => []

def RTypeParam.tree (t : RTypeParam) : Tree := .node t.kind "type_params" true (some t.range) t.children

mutual
def RPattern.children : RPattern → List Tree
  | .matchValue _ v => [.node v.kind "value" false (some v.range) v.children]
  | .matchSingleton _ _ => []
  | .matchSequence _ ps => patTrees "patterns" ps
  | .matchMapping _ ks ps _ => toTrees "keys" ks ++ patTrees "patterns" ps
  | .matchClass _ c ps _ kps =>
    .node c.kind "cls" false (some c.range) c.children :: (patTrees "patterns" ps ++ patTrees "kwd_patterns" kps)
  | .matchStar _ _ => []
  | .matchAs _ p _ => patOptTree "pattern" p
  | .matchOr _ ps => patTrees "patterns" ps
def patTrees (slot : String) : List RPattern → List Tree
  | [] => []
  | p :: ps => .node p.kind slot true (some p.range) p.children :: patTrees slot ps
def patOptTree (slot : String) : Option RPattern → List Tree
  | none => []
  | some p => [.node p.kind slot false (some p.range) p.children]
end

def RPattern.tree (slot : String) (il : Bool) (p : RPattern) : Tree := .node p.kind slot il (some p.range) p.children

mutual
def RStmt.children : RStmt → List Tree
  | .functionDef _ _ a b d r tp =>
    a.tree :: (stmtTrees "body" b ++ (toTrees "decorator_list" d ++ (optTree "returns" r ++ tp.map RTypeParam.tree)))
  | .asyncFunctionDef _ _ a b d r tp =>
    a.tree :: (stmtTrees "body" b ++ (toTrees "decorator_list" d ++ (optTree "returns" r ++ tp.map RTypeParam.tree)))
  | .classDef _ _ bs ks b d tp =>
    toTrees "bases" bs ++ (kwTrees ks ++ (stmtTrees "body" b ++ (toTrees "decorator_list" d ++ tp.map RTypeParam.tree)))
  | .return _ v => optTree "value" v
  | .delete _ ts => toTrees "targets" ts
  | .assign _ ts v => toTrees "targets" ts ++ [.node v.kind "value" false (some v.range) v.children]
  | .typeAlias _ n tp v =>
    .node n.kind "name" false (some n.range) n.children ::
      (tp.map RTypeParam.tree ++ [.node v.kind "value" false (some v.range) v.children])
  | .augAssign _ t _ v =>
    [.node t.kind "target" false (some t.range) t.children, .node v.kind "value" false (some v.range) v.children]
  | .annAssign _ t a v _ =>
    .node t.kind "target" false (some t.range) t.children ::
      .node a.kind "annotation" false (some a.range) a.children :: optTree "value" v
  | .for _ t i b o =>
    .node t.kind "target" false (some t.range) t.children :: .node i.kind "iter" false (some i.range) i.children ::
      (stmtTrees "body" b ++ stmtTrees "orelse" o)
  | .asyncFor _ t i b o =>
    .node t.kind "target" false (some t.range) t.children :: .node i.kind "iter" false (some i.range) i.children ::
      (stmtTrees "body" b ++ stmtTrees "orelse" o)
  | .while _ t b o =>
    .node t.kind "test" false (some t.range) t.children :: (stmtTrees "body" b ++ stmtTrees "orelse" o)
  | .if _ t b o =>
    .node t.kind "test" false (some t.range) t.children :: (stmtTrees "body" b ++ stmtTrees "orelse" o)
  | .with _ items b => items.map RWithItem.tree ++ stmtTrees "body" b
  | .asyncWith _ items b => items.map RWithItem.tree ++ stmtTrees "body" b
  | .match _ s cs => .node s.kind "subject" false (some s.range) s.children :: caseTrees cs
  | .raise _ e c => optTree "exc" e ++ optTree "cause" c
  | .try _ b hs o f => stmtTrees "body" b ++ (handlerTrees hs ++ (stmtTrees "orelse" o ++ stmtTrees "finalbody" f))
  | .tryStar _ b hs o f => stmtTrees "body" b ++ (handlerTrees hs ++ (stmtTrees "orelse" o ++ stmtTrees "finalbody" f))
  | .assert _ t m => .node t.kind "test" false (some t.range) t.children :: optTree "msg" m
  | .import _ ns => ns.map RAlias.tree
  | .importFrom _ _ ns _ => ns.map RAlias.tree
  | .global _ _ => []
  | .nonlocal _ _ => []
  | .expr _ e => [.node e.kind "value" false (some e.range) e.children]
  | .pass _ => []
  | .break _ => []
  | .continue _ => []
def stmtTrees (slot : String) : List RStmt → List Tree
  | [] => []
  | s :: ss => .node s.kind slot true (some s.range) s.children :: stmtTrees slot ss
def handlerTrees : List RHandler → List Tree
  | [] => []
  | .mk rg ty _ b :: hs =>
    .node "ExceptHandlerExceptHandler" "handlers" true (some rg) (optTree "type_" ty ++ stmtTrees "body" b) ::
      handlerTrees hs
def caseTrees : List RCase → List Tree
  | [] => []
  | .mk rg p g b :: cs =>
    .node "MatchCase" "cases" true (some rg)
      (.node p.kind "pattern" false (some p.range) p.children :: (optTree "guard" g ++ stmtTrees "body" b)) ::
      caseTrees cs
end

def RStmt.tree (slot : String) (il : Bool) (s : RStmt) : Tree := .node s.kind slot il (some s.range) s.children

/-- the generic tree of a whole parse (the root sits in slot `root`, as `lean/Drv/C02.lean toTree` labels it) -/
def RMod.tree : RMod → Tree
  | .module rg b => .node "ModModule" "root" false (some rg) (stmtTrees "body" b)
  | .interactive rg b => .node "ModInteractive" "root" false (some rg) (stmtTrees "body" b)
  | .expression rg e => .node "ModExpression" "root" false (some rg) [e.toTree "body" false]

end PV.C02
