import PV.C02.FStrFull
/-
  PV.C02.GLex — the C11 lexer returns token TEXTS: `lex_lockstep` (FStrLex.lean) strengthened from list lengths to what
  each token was read from.

  * `radixRun_suf` … `dropLine_suf`, `lexString_spec`: every token function returns a SUFFIX of its input; an f-string
    token `fstr q triple raw body` was read from `prefix ++ quotes ++ body ++ quotes` with a one- or two-character ASCII
    prefix (`stringPrefix_spec`, `lexStringBody_spec`);
  * `lexBoth`: the token loop of `PV.C11.lexGo` and of `lexSpansGo` in one (`lexBoth_toks`, `lexBoth_spans`);
  * `lexBoth_texts`: for the lexing of a text `W`, every f-string token with (characters left before, after) = `(a, b)`
    satisfies `TokTextOk W a b`: the characters of `W` between the two positions are `prefix ++ quotes ++ body ++ quotes`.
  Hand-written.
-/
set_option linter.unusedSimpArgs false
set_option linter.unusedVariables false
namespace PV.C02
open PV.Expr PV.C11


/-! ### every token function of the C11 lexer returns a SUFFIX of its input -/

theorem suf_cons_of {α} {x : α} {r l : List α} (h : r <:+ l) : r <:+ x :: l := h.trans (List.suffix_cons _ _)
theorem suf_of_cons' {α} {x : α} {r l : List α} (h : (x :: r) <:+ l) : r <:+ l := (List.suffix_cons _ _).trans h

macro "sufg" : tactic => `(tactic| grind [List.IsSuffix.trans, List.suffix_cons, List.suffix_refl, suf_cons_of, suf_of_cons'])

theorem radixRun_suf (rx : Nat) (l : List Nat) : (radixRun rx l).2 <:+ l := by
  fun_induction radixRun rx l <;> simp_all <;> sufg

theorem radixRun_suf' {rx : Nat} {l a b : List Nat} (h : radixRun rx l = (a, b)) : b <:+ l := by
  have := radixRun_suf rx l; rw [h] at this; exact this

theorem lexExponent_suf {cs : List Nat} {e : Int} {r : List Nat} (h : lexExponent cs = some (e, r)) : r <:+ cs := by
  unfold lexExponent at h
  repeat' split at h
  all_goals (try (cases h; done))
  all_goals (
    simp only [Option.some.injEq, Prod.mk.injEq] at h
    rw [← h.2]
    rename_i heq
    have h5 := radixRun_suf' heq
    sufg)

theorem lexNormalNumber_suf {cs : List Nat} {t : Tok} {r : List Nat} (h : lexNormalNumber cs = some (t, r)) :
    r <:+ cs := by
  unfold lexNormalNumber at h
  simp only at h
  have h1 := radixRun_suf 10 cs
  generalize radixRun 10 cs = p at h h1
  obtain ⟨ip, r1⟩ := p
  simp only at h h1
  split at h
  · split at h
    · cases h
    · rename_i fp r2 hfr
      have h2 : r2 <:+ r1 := by
        split at hfr
        · cases hfr
        · simp only [Option.some.injEq] at hfr
          have h5 := radixRun_suf' hfr
          sufg
        · simp only [Option.some.injEq, Prod.mk.injEq] at hfr
          rw [hfr.2]; exact List.suffix_refl _
      cases he : lexExponent r2 with
      | none =>
        simp only [he] at h
        repeat' split at h
        all_goals (first | (cases h; done) | (simp only [Option.some.injEq, Prod.mk.injEq] at h; obtain ⟨_, rfl⟩ := h; (try subst_vars); sufg))
      | some p =>
        obtain ⟨e, r3⟩ := p
        have := lexExponent_suf he
        simp only [he] at h
        repeat' split at h
        all_goals (first | (cases h; done) | (simp only [Option.some.injEq, Prod.mk.injEq] at h; obtain ⟨_, rfl⟩ := h; (try subst_vars); sufg))
  · repeat' split at h
    all_goals (first | (cases h; done) | (simp only [Option.some.injEq, Prod.mk.injEq] at h; obtain ⟨_, rfl⟩ := h; (try subst_vars); sufg))

theorem lexNumber_suf {cs : List Nat} {t : Tok} {r : List Nat} (h : lexNumber cs = some (t, r)) : r <:+ cs := by
  unfold lexNumber at h
  split at h
  · rename_i x rest
    simp only at h
    split at h
    · rename_i rx _
      have := radixRun_suf rx rest
      generalize radixRun rx rest = p at h this
      obtain ⟨ds, r'⟩ := p
      simp only at h this
      split at h
      · cases h
      · simp only [Option.some.injEq, Prod.mk.injEq] at h
        rw [← h.2]; sufg
    · exact lexNormalNumber_suf h
  · exact lexNormalNumber_suf h

theorem lexOp_suf {cs : List Nat} {o : Op} {r : List Nat} (h : lexOp cs = some (o, r)) : r <:+ cs := by
  unfold lexOp at h
  split at h
  all_goals (first | (cases h; done) | (simp only [Option.some.injEq, Prod.mk.injEq] at h; rw [← h.2]; sufg))

theorem spanIdCont_suf (cs : List Nat) : (spanIdCont cs).2 <:+ cs := by
  induction cs with
  | nil => simp [spanIdCont]
  | cons c r ih =>
    unfold spanIdCont
    split
    · exact suf_cons_of ih
    · exact List.suffix_refl _

theorem spanIdCont_suf' {cs w r : List Nat} (h : spanIdCont cs = (w, r)) : r <:+ cs := by
  have := spanIdCont_suf cs; rw [h] at this; exact this

theorem dropLine_suf (cs : List Nat) : dropLine cs <:+ cs := by
  fun_induction dropLine cs <;> simp_all <;> sufg



def quoteRun (q : Nat) (triple : Bool) : List Nat := if triple then [q, q, q] else [q]

theorem lexStringBody_spec (q : Nat) (t : Bool) (cs : List Nat) : ∀ b r, lexStringBody q t cs = some (b, r) →
    cs = b ++ quoteRun q t ++ r := by
  fun_induction lexStringBody q t cs <;> intro b r h <;> simp_all [quoteRun]
  all_goals (try grind)

theorem stringPrefix_spec {cs : List Nat} {a b c d : Bool} {r : List Nat}
    (h : stringPrefix cs = some (a, b, c, d, r)) :
    (∃ pre, cs = pre ++ r ∧ (∀ x ∈ pre, x < 128) ∧ (c = true → pre.length = (if a then 2 else 1))) ∧
    (∀ q r', r = q :: r' → q = 34 ∨ q = 39) := by
  rcases cs with _ | ⟨c1, _ | ⟨c2, _ | ⟨c3, t⟩⟩⟩
  all_goals (simp only [stringPrefix] at h)
  all_goals (repeat' split at h)
  all_goals (try (cases h; done))
  all_goals (simp only [Option.some.injEq, Prod.mk.injEq] at h)
  all_goals (obtain ⟨rfl, rfl, rfl, rfl, rfl⟩ := h)
  all_goals (refine ⟨?_, fun q r' hq => by (simp only [List.cons.injEq] at hq; obtain ⟨rfl, _⟩ := hq; assumption)⟩)
  all_goals (first
    | (refine ⟨[], rfl, ?_, ?_⟩ <;> simp; done)
    | (refine ⟨[c1], rfl, ?_, ?_⟩
       · intro x hx; simp at hx; subst hx; omega
       · simp)
    | (refine ⟨[c1, c2], rfl, ?_, ?_⟩
       · intro x hx; simp at hx; rcases hx with rfl | rfl <;> omega
       · simp))


theorem lexString_spec {cs : List Nat} {t : Tok} {r : List Nat} (h : lexString cs = some (t, r)) :
    r <:+ cs ∧ (∀ q triple raw body, t = .fstr q triple raw body →
      ∃ pre, cs = pre ++ (quoteRun q triple ++ (body ++ (quoteRun q triple ++ r))) ∧
        pre.length = (if raw then 2 else 1) ∧ (∀ x ∈ pre, x < 128) ∧ (q = 34 ∨ q = 39)) := by
  unfold lexString at h
  split at h
  · cases h
  · rename_i raw isB isF isU q r0 hp
    obtain ⟨⟨pre, hcs, hascii, hlen⟩, hq⟩ := stringPrefix_spec hp
    have hq' := hq q r0 rfl
    simp only at h
    split at h
    · cases h
    · rename_i body rest hb
      have hbody := lexStringBody_spec _ _ _ _ _ hb
      -- which quote run was read
      have key : ∃ triple, q :: r0 = quoteRun q triple ++ (body ++ (quoteRun q triple ++ rest)) ∧
          (∀ q' t' raw' b', t = Tok.fstr q' t' raw' b' → q' = q ∧ t' = triple ∧ raw' = raw ∧ b' = body ∧ isF = true) ∧
          rest = r := by
        have fin : ∀ (triple : Bool) (R : List Nat), R = body ++ quoteRun q triple ++ rest →
            q :: r0 = quoteRun q triple ++ R →
            (if isF = true then some (Tok.fstr q triple raw body, rest) else
              match (if raw = true then if isB = true ∧ (body.any fun x => decide (x ≥ 128)) = true then none else some body
                else decodeEscapes isB (body.length + 1) body) with
              | none => none
              | some v => if isB = true then some (Tok.bytes v, rest) else some (Tok.str v isU, rest)) = some (t, r) →
            ∃ triple, q :: r0 = quoteRun q triple ++ (body ++ (quoteRun q triple ++ rest)) ∧
              (∀ q' t' raw' b', t = Tok.fstr q' t' raw' b' → q' = q ∧ t' = triple ∧ raw' = raw ∧ b' = body ∧ isF = true) ∧
              rest = r := by
          intro triple R hR hq0 hh
          refine ⟨triple, by rw [hq0, hR]; simp, ?_, ?_⟩
          · intro q' t' raw' b' hteq
            subst hteq
            split at hh
            · simp only [Option.some.injEq, Prod.mk.injEq, Tok.fstr.injEq] at hh
              obtain ⟨⟨rfl, rfl, rfl, rfl⟩, _⟩ := hh
              exact ⟨rfl, rfl, rfl, rfl, by assumption⟩
            · repeat' split at hh
              all_goals (first | (cases hh; done) | (simp at hh))
          · repeat' split at hh
            all_goals (first | (cases hh; done) | (simp only [Option.some.injEq, Prod.mk.injEq] at hh; exact hh.2))
        rcases r0 with _ | ⟨a, _ | ⟨b, r2⟩⟩
        · exact fin false _ hbody (by simp [quoteRun]) h
        · exact fin false _ hbody (by simp [quoteRun]) h
        · by_cases hab : a = q ∧ b = q
          · simp only [hab, and_self, if_true] at hb h hbody
            obtain ⟨rfl, rfl⟩ := hab
            exact fin true _ hbody (by simp [quoteRun]) h
          · simp only [hab, if_false] at hb h hbody
            exact fin false _ hbody (by simp [quoteRun]) h
      obtain ⟨triple, hk, ht, rfl⟩ := key
      refine ⟨?_, ?_⟩
      · rw [hcs, hk]
        exact ⟨pre ++ (quoteRun q triple ++ (body ++ quoteRun q triple)), by simp⟩
      · intro q' t' raw' b' hteq
        obtain ⟨rfl, rfl, rfl, rfl, hF⟩ := ht _ _ _ _ hteq
        exact ⟨pre, by rw [hcs, hk], hlen hF, hascii, hq'⟩
  · cases h



/-- the token loop of `PV.C11.lexGo` and `lexSpansGo` in one: every token with its (characters left before, after) -/
def lexBoth : Nat → Nat → List Nat → Option (List (Tok × Nat × Nat))
  | 0, _, _ => none
  | _, nest, [] => if nest = 0 then some [] else none
  | fuel + 1, nest, c :: rest =>
    if c = 32 ∨ c = 9 ∨ c = 12 then lexBoth fuel nest rest
    else if c = 10 ∨ c = 13 then
      if nest > 0 then lexBoth fuel nest rest
      else
        (match lexBoth fuel nest rest with
         | some [] => some []
         | _ => none)
    else if c = 35 then lexBoth fuel nest (dropLine rest)
    else if c = 92 then
      (match rest with
       | 10 :: r => lexBoth fuel nest r
       | _ => none)
    else if isIdStart c then
      match lexString (c :: rest) with
      | some (tk, r) => (lexBoth fuel nest r).map ((tk, rest.length + 1, r.length) :: ·)
      | none =>
        if (stringPrefix (c :: rest)).isSome then none else
        let (w, r) := spanIdCont (c :: rest)
        let tk := match keywordOf w with
          | some k => Tok.kw k
          | none => Tok.name w
        (lexBoth fuel nest r).map ((tk, rest.length + 1, r.length) :: ·)
    else if isDigit c || (c == 46 && (match rest with | d :: _ => isDigit d | [] => false)) then
      match lexNumber (c :: rest) with
      | some (tk, r) => (lexBoth fuel nest r).map ((tk, rest.length + 1, r.length) :: ·)
      | none => none
    else if c = 34 ∨ c = 39 then
      match lexString (c :: rest) with
      | some (tk, r) => (lexBoth fuel nest r).map ((tk, rest.length + 1, r.length) :: ·)
      | none => none
    else
      match lexOp (c :: rest) with
      | some (o, r) =>
        let nest' :=
          if o = .lpar ∨ o = .lsqb ∨ o = .lbrace then nest + 1
          else if o = .rpar ∨ o = .rsqb ∨ o = .rbrace then nest - 1
          else nest
        if (o = .rpar ∨ o = .rsqb ∨ o = .rbrace) ∧ nest = 0 then none
        else (lexBoth fuel nest' r).map ((.op o, rest.length + 1, r.length) :: ·)
      | none =>
        if isEmojiName c then (lexBoth fuel nest rest).map ((.name [c], rest.length + 1, rest.length) :: ·) else none

theorem map_nil_iff {α β} {g : α → β} {x : Option (List α)} : x.map (List.map g) = some [] ↔ x = some [] := by
  cases x with
  | none => simp
  | some l => cases l <;> simp

theorem lexBoth_toks (fuel nest : Nat) (cs : List Nat) :
    (lexBoth fuel nest cs).map (List.map (·.1)) = lexGo fuel nest cs := by
  fun_induction lexBoth fuel nest cs
  all_goals (rw [lexGo.eq_def])
  all_goals (try simp only [*, ↓reduceIte, not_false_eq_true, Option.map_map, Option.map_none, Option.map_some,
    List.map_nil, Bool.false_eq_true])
  all_goals (try rw [if_pos (by assumption)])
  all_goals (try rw [if_neg (by assumption)])
  all_goals (try simp only [*, ↓reduceIte, not_false_eq_true, Option.map_map, Option.map_none, Option.map_some,
    List.map_nil, Bool.false_eq_true])
  all_goals (try (simp [← ‹Option.map (List.map _) _ = lexGo _ _ _›, Option.map_map, Function.comp_def]; done))
  case case6 x ih => rw [← ih, x]; rfl
  case case7 x ih =>
    rw [← ih]
    cases hb : lexBoth _ _ _ with
    | none => simp
    | some l => cases l with
      | nil => exact absurd hb x
      | cons y ys => simp
  all_goals (try (simp; done))
  all_goals (
    rename_i ih
    simp (config := { zetaDelta := true }) only [← ih, Option.map_map]
    congr 1)


theorem lexBoth_spans (fuel nest : Nat) (cs : List Nat) :
    (lexBoth fuel nest cs).map (List.map (·.2)) = lexSpansGo fuel nest cs := by
  fun_induction lexBoth fuel nest cs
  all_goals (rw [lexSpansGo.eq_def])
  all_goals (try simp only [*, ↓reduceIte, not_false_eq_true, Option.map_map, Option.map_none, Option.map_some,
    List.map_nil, Bool.false_eq_true])
  all_goals (try rw [if_pos (by assumption)])
  all_goals (try rw [if_neg (by assumption)])
  all_goals (try simp only [*, ↓reduceIte, not_false_eq_true, Option.map_map, Option.map_none, Option.map_some,
    List.map_nil, Bool.false_eq_true])
  all_goals (try (simp [← ‹Option.map (List.map _) _ = lexSpansGo _ _ _›, Option.map_map, Function.comp_def]; done))
  case case6 x ih => rw [← ih, x]; rfl
  case case7 x ih =>
    rw [← ih]
    cases hb : lexBoth _ _ _ with
    | none => simp
    | some l => cases l with
      | nil => exact absurd hb x
      | cons y ys => simp
  all_goals (try (simp; done))
  all_goals (
    rename_i ih
    simp (config := { zetaDelta := true }) only [← ih, Option.map_map]
    congr 1)


/-! ### token texts -/

/-- the characters of `W` between "`a` left" and "`b` left" are the text of the f-string token `t` -/
def TokTextOk (W : List Nat) (a b : Nat) (t : Tok) : Prop :=
  ∀ q triple raw body, t = .fstr q triple raw body →
    ∃ pre, (W.drop (W.length - a)).take (a - b) = pre ++ (quoteRun q triple ++ (body ++ quoteRun q triple)) ∧
      pre.length = (if raw then 2 else 1) ∧ (∀ x ∈ pre, x < 128) ∧ (q = 34 ∨ q = 39)

theorem drop_of_suffix {α} {cs W : List α} (h : cs <:+ W) : W.drop (W.length - cs.length) = cs := by
  obtain ⟨p, rfl⟩ := h
  simp

theorem tokTextOk_of_notFstr {W : List Nat} {a b : Nat} {t : Tok} (h : isFstrTok t = false) : TokTextOk W a b t := by
  intro q triple raw body ht; subst ht; simp [isFstrTok] at h

theorem lexNormalNumber_kind {cs : List Nat} {t : Tok} {r : List Nat} (h : lexNormalNumber cs = some (t, r)) :
    isFstrTok t = false := by
  unfold lexNormalNumber at h
  simp only at h
  generalize radixRun 10 cs = p at h
  obtain ⟨ip, r1⟩ := p
  simp only at h
  repeat' split at h
  all_goals (first | (cases h; done) | (simp only [Option.some.injEq, Prod.mk.injEq] at h; obtain ⟨rfl, _⟩ := h; rfl))

theorem lexNumber_kind {cs : List Nat} {t : Tok} {r : List Nat} (h : lexNumber cs = some (t, r)) :
    isFstrTok t = false := by
  unfold lexNumber at h
  split at h
  · simp only at h
    split at h
    · generalize radixRun _ _ = p at h
      obtain ⟨ds, r'⟩ := p
      simp only at h
      split at h
      · cases h
      · simp only [Option.some.injEq, Prod.mk.injEq] at h
        obtain ⟨rfl, _⟩ := h; rfl
    · exact lexNormalNumber_kind h
  · exact lexNormalNumber_kind h

theorem tokTextOk_string {W cs : List Nat} {t : Tok} {r : List Nat} (hs : cs <:+ W) (h : lexString cs = some (t, r)) :
    TokTextOk W cs.length r.length t := by
  intro q triple raw body ht
  obtain ⟨pre, hcs, hl, ha, hq⟩ := (lexString_spec h).2 q triple raw body ht
  refine ⟨pre, ?_, hl, ha, hq⟩
  rw [drop_of_suffix hs]
  have hc : cs = (pre ++ (quoteRun q triple ++ (body ++ quoteRun q triple))) ++ r := by rw [hcs]; simp
  have hl2 : cs.length - r.length = (pre ++ (quoteRun q triple ++ (body ++ quoteRun q triple))).length := by
    have := congrArg List.length hc
    simp only [List.length_append] at this ⊢
    omega
  rw [hl2]
  conv => lhs; rw [hc]
  exact List.take_left' rfl

/-- **Token texts.**  Lexing a suffix `cs` of `W`: every f-string token is recorded with the positions its text occupies -/
theorem lexBoth_texts (W : List Nat) (fuel nest : Nat) (cs : List Nat) : cs <:+ W → ∀ l, lexBoth fuel nest cs = some l →
    ∀ x ∈ l, TokTextOk W x.2.1 x.2.2 x.1 := by
  fun_induction lexBoth fuel nest cs <;> intro hs l h
  all_goals (try (cases h; done))
  all_goals (try (simp only [Option.some.injEq] at h; subst h; intro x hx; cases hx; done))
  all_goals (first
    | (rename_i ih; exact ih (suf_of_cons' hs) l h)
    | (rename_i ih; exact ih ((dropLine_suf _).trans (suf_of_cons' hs)) l h)
    | (rename_i ih; exact ih (suf_of_cons' (suf_of_cons' hs)) l h)
    | skip)
  all_goals (
    rename_i ih
    obtain ⟨l', hl', rfl⟩ := map_some_inv' h
    intro x hx
    simp only [List.mem_cons] at hx
    rcases hx with rfl | hx
    · first
      | exact tokTextOk_string hs (by assumption)
      | exact tokTextOk_of_notFstr (lexNumber_kind (by assumption))
      | exact tokTextOk_of_notFstr rfl
      | (apply tokTextOk_of_notFstr; rename_i tk _ _ _; show isFstrTok (match keywordOf _ with | some k => Tok.kw k | none => Tok.name _) = false; split <;> rfl)
      | (apply tokTextOk_of_notFstr; simp (config := { zetaDelta := true }) only []; split <;> rfl)
    · refine ih ?_ l' hl' x hx
      first
      | exact (lexString_spec (by assumption)).1.trans hs
      | exact (lexNumber_suf (by assumption)).trans hs
      | exact (lexOp_suf (by assumption)).trans hs
      | exact suf_of_cons' hs
      | exact (spanIdCont_suf' (by assumption)).trans hs)

end PV.C02
