import PV.C02.RProgSoundItems
import PV.C02.RProgErase
/-
  PV.C02.RProgSound1 — the induction over the ranged program parser, part 1: expression lists at statement level, the
  small statements, import names, type parameter lists.  For a tiled span table every function returns nodes that lie
  in the index window of the tokens it consumed and are fine there (`Win` / `WS` / `Seq*`, for plain trees); every small
  statement is ranged exactly by the tokens it consumed.  One lemma per function: `fun_cases`, the specifications of
  the callees instantiated at the calls that were made (`fwd`), the node lemmas applied by `grind`.
-/
set_option linter.unusedSimpArgs false
set_option linter.unusedVariables false
namespace PV.C02
open PV.Expr PV.C11 PV.Prog

variable {src : List Nat} {σ : SpanTab} {N : Nat}

/-- induction on the fuel with the hypothesis in the form the case analysis of a function leaves it -/
theorem below_rec {P : Nat → Prop} (step : ∀ n, (∀ f, n = f + 1 → P f) → P n) : ∀ n, P n
  | 0 => step 0 (fun f h => absurd h (by omega))
  | n + 1 => step (n + 1) (fun f h => by cases h; exact below_rec step n)

theorem elem_sound (T : TiledTab src σ N) {ek f ts e rest} (hN : ts.length ≤ N)
    (h : parseRElem σ ek f ts = some (e, rest)) : PostE src σ ts e rest := by
  have S := soundAt T f
  cases ek <;> simp only [parseRElem] at h
  · exact S.testOrStar _ _ _ hN h
  · exact S.exprOrStar _ _ _ hN h
  · exact S.starOrNamed _ _ _ hN h
  · exact S.test _ _ _ hN h

/-- a small statement: fine in the window of its tokens, ranged exactly by them -/
@[reducible] def PostSm (src : List Nat) (σ : SpanTab) (ts : List Tok) (s : RStmt) (rest : List Tok) : Prop :=
  rest.length < ts.length ∧ WS src σ ts.length (rest.length + 1) s ∧ s.range = (S σ ts.length, E σ (rest.length + 1))

/-- the end the grammar action of a compound statement derives from its children (`none` for the other statements):
    the end of the last statement of its last non-empty block (`body.last().unwrap().end()`, `orelse`, `finalbody`,
    `handlers`, the last case) -/
def derivedEnd : RStmt → Option Nat
  | .functionDef _ _ _ b _ _ _ => some (lastEnd b)
  | .asyncFunctionDef _ _ _ b _ _ _ => some (lastEnd b)
  | .classDef _ _ _ _ b _ _ => some (lastEnd b)
  | .with _ _ b => some (lastEnd b)
  | .asyncWith _ _ b => some (lastEnd b)
  | .for _ _ _ b o => some (if o.isEmpty then lastEnd b else lastEnd o)
  | .asyncFor _ _ _ b o => some (if o.isEmpty then lastEnd b else lastEnd o)
  | .while _ _ b o => some (if o.isEmpty then lastEnd b else lastEnd o)
  | .if _ _ b o => some (if o.isEmpty then lastEnd b else lastEnd o)
  | .match _ _ cs => some (casesEnd cs)
  | .try _ _ hs o f => some (if !f.isEmpty then lastEnd f else if !o.isEmpty then lastEnd o else handlersEnd hs)
  | .tryStar _ _ hs o f => some (if !f.isEmpty then lastEnd f else if !o.isEmpty then lastEnd o else handlersEnd hs)
  | _ => none

theorem isEmpty_false_of_ne {l : List RStmt} (h : l ≠ []) : l.isEmpty = false := by cases l <;> simp_all
grind_pattern isEmpty_false_of_ne => l.isEmpty
@[grind =] theorem isEmpty_nil' : ([] : List RStmt).isEmpty = true := rfl

/-- a statement sequence (a line, a block, a suite): in consecutive windows inside the tokens consumed; it ends at the end
    of a token (`lastEnd` is `E σ k`) that belongs to the sequence -/
@[reducible] def PostSs (src : List Nat) (σ : SpanTab) (ts : List Tok) (ss : List RStmt) (rest : List Tok) : Prop :=
  rest.length < ts.length ∧ ss ≠ [] ∧
    ∃ k, rest.length + 1 ≤ k ∧ k ≤ ts.length ∧ lastEnd ss = E σ k ∧ SeqS src σ ts.length k ss

/-- an optional `else` / `finally` suite -/
@[reducible] def PostOpt (src : List Nat) (σ : SpanTab) (ts : List Tok) (oe : Option (List RStmt)) (rest : List Tok) : Prop :=
  rest.length ≤ ts.length ∧ ((oe = none ∧ rest = ts) ∨ (oe ≠ none ∧ PostSs src σ ts (oe.getD []) rest))

/-- a compound statement: fine in the window of its tokens; it starts at the start of a token (the first one, or the
    `def` / `class` / `async` behind the decorators) and ends at the end of a token that belongs to it -/
@[reducible] def PostC (src : List Nat) (σ : SpanTab) (ts : List Tok) (s : RStmt) (rest : List Tok) : Prop :=
  rest.length < ts.length ∧
    ∃ j k, rest.length + 1 ≤ k ∧ k ≤ j ∧ j ≤ ts.length ∧ s.range = (S σ j, E σ k) ∧ WS src σ ts.length k s ∧
      ((∀ r, ts ≠ .op .at :: r) → j = ts.length) ∧ derivedEnd s = some s.range.2

/-- …when the start `st = S σ j0` is handed in -/
@[reducible] def PostCs (src : List Nat) (σ : SpanTab) (j0 : Nat) (ts : List Tok) (s : RStmt) (rest : List Tok) : Prop :=
  rest.length < ts.length ∧ ∃ k, rest.length + 1 ≤ k ∧ k ≤ ts.length ∧ s.range = (S σ j0, E σ k) ∧ WS src σ j0 k s ∧
    derivedEnd s = some s.range.2

macro "sgp" : tactic =>
  `(tactic| grind [Ext.exact, Ext.named, Ext.paren, RExpr.range, RStmt.range, RPattern.range, RTypeParam.range,
    RHandler.range, RCase.range, RCase.body, RHandler.body, derivedEnd])

open Lean in
/-- `rstep1 σ [facts]` (one goal left by `fun_cases`): fold the span accessors into `S`/`E`/`Sp`, instantiate the given
    specifications (terms of the form `∀ args, call = some … → post`) at the calls that were made (three rounds), `grind` -/
macro "rstep1" sg:ident "[" fs:term,* "]" : tactic => do
  let mut round : Array (TSyntax `tactic) := #[]
  for f in fs.getElems do
    round := round.push (← `(tactic| fwd $f))
  `(tactic| (
    intro h
    try simp only [PostE, PostSm, PostSs, PostOpt, PostC, PostCs] at *
    try simp (config := { zetaDelta := true }) only [] at *
    all_goals try simp only [*] at h
    all_goals try simp only [Option.some.injEq, Prod.mk.injEq, reduceCtorEq, L, R, P, List.length_cons, false_imp_iff,
      imp_self] at *
    all_goals (
      have hS : ∀ k, ($sg k).1 = S $sg k := fun _ => rfl
      have hE : ∀ k, ($sg k).2 = E $sg k := fun _ => rfl
      have hSp : ∀ k, $sg k = Sp $sg k := fun _ => rfl
      try simp only [hS, hE] at *
      try simp only [hSp] at *
      clear hS hE hSp
      $[$round:tactic]*
      try simp only [List.length_cons] at *
      $[$round:tactic]*
      try simp only [List.length_cons] at *
      $[$round:tactic]*
      try simp only [List.length_cons] at *
      sgp)))

/-- `rstep σ [facts]`: `rstep1` in every case left by `fun_cases` -/
macro "rstep" sg:ident "[" fs:term,* "]" : tactic => `(tactic| all_goals rstep1 $sg [$fs,*])

/-! ### expression lists -/

def CommaListSpec (src : List Nat) (σ : SpanTab) (N f : Nat) : Prop :=
  ∀ ek ts es tc rest, ts.length ≤ N → parseRCommaList σ ek f ts = some ((es, tc), rest) →
    rest.length < ts.length ∧ SeqI src σ ts.length (rest.length + 1) es ∧ es ≠ [] ∧
      (∀ e, es = [e] → tc = false → Win src σ ts.length (rest.length + 1) e ∧ Ext σ ts rest e)

theorem commaList_sound (T : TiledTab src σ N) : ∀ f, CommaListSpec src σ N f := by
  refine below_rec (fun n ih => ?_)
  intro ek ts es tc rest hN
  fun_cases parseRCommaList σ ek n ts
  rstep σ [@elem_sound src σ N T, ih _ rfl]

theorem genericListR_sound (T : TiledTab src σ N) {ts rest : List Tok} {es tc} (hN : ts.length ≤ N)
    (h : rest.length < ts.length ∧ SeqI src σ ts.length (rest.length + 1) es ∧ es ≠ [] ∧
      (∀ e, es = [e] → tc = false → Win src σ ts.length (rest.length + 1) e ∧ Ext σ ts rest e)) :
    PostE src σ ts (genericListR (L σ ts, R σ rest) (es, tc)) rest := by
  obtain ⟨h1, h2, h3, h4⟩ := h
  unfold genericListR
  split
  · rename_i e heq
    simp only [Prod.mk.injEq] at heq
    obtain ⟨rfl, rfl⟩ := heq
    exact ⟨h1, (h4 e rfl rfl).1, (h4 e rfl rfl).2⟩
  · rename_i es' tc' hne heq
    simp only [Prod.mk.injEq] at heq
    obtain ⟨rfl, rfl⟩ := heq
    refine ⟨h1, ?_, .exact rfl⟩
    exact own_tuple T (by omega) (by omega) hN h2 (Nat.le_refl _) (Nat.le_refl _) (by omega) (by omega)

theorem testListS_sound (T : TiledTab src σ N) (f : Nat) :
    ∀ ts e rest, ts.length ≤ N → parseRTestListS σ f ts = some (e, rest) → PostE src σ ts e rest := by
  intro ts e rest hN h
  unfold parseRTestListS at h
  split at h
  · rename_i l r hc
    obtain ⟨es, tc⟩ := l
    simp only [Option.some.injEq, Prod.mk.injEq] at h
    obtain ⟨rfl, rfl⟩ := h
    exact genericListR_sound T hN (commaList_sound T f _ _ _ _ _ hN hc)
  · cases h

theorem yieldS_sound (T : TiledTab src σ N) (f : Nat) :
    ∀ ts e rest, ts.length + 1 ≤ N → parseRYieldS σ f ts = some (e, rest) →
    rest.length ≤ ts.length ∧ Win src σ (ts.length + 1) (rest.length + 1) e ∧
      e.range = (S σ (ts.length + 1), E σ (rest.length + 1)) := by
  intro ts e rest hN
  fun_cases parseRYieldS σ f ts
  rstep σ [testListS_sound T _, (soundAt T _).test]

theorem testListOrYield_sound (T : TiledTab src σ N) (f : Nat) :
    ∀ ts e rest, ts.length ≤ N → parseRTestListOrYield σ f ts = some (e, rest) → PostE src σ ts e rest := by
  intro ts e rest hN
  fun_cases parseRTestListOrYield σ f ts
  rstep σ [testListS_sound T _, yieldS_sound T _]

def AssignSuffixesSpec (src : List Nat) (σ : SpanTab) (N f : Nat) : Prop :=
  ∀ ts es rest, ts.length ≤ N → parseRAssignSuffixes σ f ts = some (es, rest) →
    rest.length ≤ ts.length ∧ SeqI src σ ts.length (rest.length + 1) es ∧ (rest.length = ts.length → es = [])

theorem assignSuffixes_sound (T : TiledTab src σ N) : ∀ f, AssignSuffixesSpec src σ N f := by
  refine below_rec (fun n ih => ?_)
  intro ts es rest hN
  fun_cases parseRAssignSuffixes σ n ts
  rstep σ [testListOrYield_sound T _, ih _ rfl]

/-! ### expression statements -/

/-- the items in front of the last one, and the last one -/
theorem seqG_split_last {α : Type} {P : Nat → Nat → α → Prop} (W : Windowed P) : ∀ {xs : List α} {lo hi : Nat} {v : α},
    SeqG P lo hi xs → xs.getLast? = some v → ∃ mid, lo ≤ mid ∧ mid ≤ hi ∧ SeqG P lo mid xs.dropLast ∧ P mid hi v
  | [], _, _, _, _, h => by simp at h
  | [x], lo, hi, v, ⟨m, h1, h2, _⟩, h => by
    simp only [List.getLast?_singleton, Option.some.injEq] at h
    subst h
    exact ⟨lo, Nat.le_refl _, by have := W.le h1; omega, trivial, W.mono h1 (Nat.le_refl _) h2⟩
  | x :: y :: xs, lo, hi, v, ⟨m, h1, h2, h3⟩, h => by
    have h' : (y :: xs).getLast? = some v := by simpa [List.getLast?_cons_cons] using h
    obtain ⟨mid, g1, g2, g3, g4⟩ := seqG_split_last W h3 h'
    have := W.le h1
    refine ⟨mid, by omega, g2, ?_, g4⟩
    simp only [List.dropLast_cons_cons]
    exact ⟨m, h1, g1, g3⟩

theorem plainL_dropLast_last : ∀ {xs : List RExpr} {v : RExpr}, xs.getLast? = some v →
    plainL xs = (plainL xs.dropLast && plain v)
  | [], _, h => by simp at h
  | [x], v, h => by
    simp only [List.getLast?_singleton, Option.some.injEq] at h
    subst h; simp [plainL]
  | x :: y :: xs, v, h => by
    have h' : (y :: xs).getLast? = some v := by simpa [List.getLast?_cons_cons] using h
    show (plain x && plainL (y :: xs)) = (plain x && plainL (y :: xs).dropLast && plain v)
    rw [plainL_dropLast_last h', Bool.and_assoc]

/-- `a = b = … = v`: the first expression and all suffixes but the last are the targets, the last one the value -/
theorem ws_assign_seq (T : TiledTab src σ N) {j k : Nat} {e : RExpr} {vals : List RExpr} {v : RExpr} (h1 : 1 ≤ k)
    (h3 : k ≤ j) (h5 : j ≤ N) (hs : SeqI src σ j k (e :: vals)) (hv : vals.getLast? = some v) :
    WS src σ j k (.assign (S σ j, E σ k) (e :: vals.dropLast) v) := by
  unfold WS WX
  intro hp
  simp only [plainS, Bool.and_eq_true] at hp
  simp only [RStmt.treeB, RStmt.kind, RStmt.range, RStmt.children]
  have hv' : (e :: vals).getLast? = some v := by
    cases vals with
    | nil => simp at hv
    | cons y ys => simpa [List.getLast?_cons_cons] using hv
  obtain ⟨mid, g1, g2, g3, g4⟩ := seqG_split_last (windowed_rs src) hs hv'
  have hd : (e :: vals).dropLast = e :: vals.dropLast := by
    cases vals with
    | nil => simp at hv
    | cons y ys => simp
  rw [hd] at g3
  exact winT_node T h1 (Nat.le_refl _) h3 (Nat.le_refl _) h5 <| Kids.append (Kids.exprs (seq_plain g3 hp.1) (Nat.le_refl _) g2) (Kids.expr (g4.2 hp.2) g1 (Nat.le_refl _))
    (by decide)

theorem ws_assign_seq' (T : TiledTab src σ N) {j m j2 k : Nat} {e : RExpr} {vals : List RExpr} {v : RExpr}
    (he : Win src σ j m e) (hs : SeqI src σ j2 k vals) (c1 : 1 ≤ j2) (c2 : j2 < m) (c3 : m ≤ j) (c4 : j ≤ N)
    (c5 : 1 ≤ k) (c6 : k ≤ j2) (hv : vals.getLast? = some v) :
    WS src σ j k (.assign (S σ j, E σ k) (e :: vals.dropLast) v) :=
  ws_assign_seq T c5 (by omega) c4 (seqI_cons T he hs c1 c2 (by omega) c5 (by omega)) hv

grind_pattern ws_assign_seq' => TiledTab src σ N, Win src σ j m e, SeqI src σ j2 k vals,
  RStmt.assign (S σ j, E σ k) (e :: vals.dropLast) v

theorem commaList_generic (T : TiledTab src σ N) (f : Nat) : ∀ ek ts es tc rest, ts.length ≤ N →
    parseRCommaList σ ek f ts = some ((es, tc), rest) →
    PostE src σ ts (genericListR (S σ ts.length, E σ (rest.length + 1)) (es, tc)) rest :=
  fun ek ts es tc rest hN h => genericListR_sound T hN (commaList_sound T f _ _ _ _ _ hN h)

theorem wo_none0 (T : TiledTab src σ N) : WO src σ 0 0 none := wo_none
grind_pattern wo_none0 => TiledTab src σ N, (none : Option RExpr)

@[grind =] theorem genericListR_single (rg : Rg) (x : RExpr) : genericListR rg ([x], false) = x := rfl

theorem assignOfR_some {rg e vals s} (h : assignOfR rg e vals = some s) :
    ∃ v, vals.getLast? = some v ∧ s = .assign rg (e :: vals.dropLast) v := by
  unfold assignOfR at h
  split at h
  · rename_i v hv
    simp only [Option.some.injEq] at h
    exact ⟨v, hv, h.symm⟩
  · cases h

theorem exprStmt_sound (T : TiledTab src σ N) (f : Nat) :
    ∀ ts s rest, ts.length ≤ N → parseRExprStmt σ f ts = some (s, rest) → PostSm src σ ts s rest := by
  intro ts s rest hN
  fun_cases parseRExprStmt σ f ts
  rstep σ [commaList_generic T _, assignSuffixes_sound T _, testListOrYield_sound T _, (soundAt T _).test, @assignOfR_some]

/-! ### imports, type parameters -/

def ImportNamesSpec (src : List Nat) (σ : SpanTab) (N f : Nat) : Prop :=
  ∀ ts as rest, ts.length ≤ N → parseRImportNames σ f ts = some (as, rest) →
    rest.length < ts.length ∧ as ≠ [] ∧ SeqAl src σ ts.length (rest.length + 1) as

theorem dottedTail_len : ∀ {acc ts nm r}, dottedTail acc ts = some (nm, r) → r.length ≤ ts.length := by
  intro acc ts
  fun_induction dottedTail acc ts <;> intro nm r h
  · rename_i ih
    have := ih h
    simp only [List.length_cons]; omega
  · cases h
  · simp only [Option.some.injEq, Prod.mk.injEq] at h
    obtain ⟨_, rfl⟩ := h
    exact Nat.le_refl _

theorem parseAsOpt_len {ts a r} (h : parseAsOpt ts = some (a, r)) : r.length ≤ ts.length := by
  unfold parseAsOpt at h
  split at h
  · split at h <;> simp only [Option.some.injEq, Prod.mk.injEq] at h <;> obtain ⟨_, rfl⟩ := h <;>
      simp only [List.length_cons] <;> omega
  · split at h
    · cases h
    · simp only [Option.some.injEq, Prod.mk.injEq] at h; obtain ⟨_, rfl⟩ := h; exact Nat.le_refl _
  · simp only [Option.some.injEq, Prod.mk.injEq] at h; obtain ⟨_, rfl⟩ := h; exact Nat.le_refl _

theorem importNames_sound (T : TiledTab src σ N) : ∀ f, ImportNamesSpec src σ N f := by
  refine below_rec (fun n ih => ?_)
  intro ts as rest hN
  fun_cases parseRImportNames σ n ts
  rstep σ [@dottedTail_len, @parseAsOpt_len, ih _ rfl]

def FromNamesSpec (src : List Nat) (σ : SpanTab) (N f : Nat) : Prop :=
  ∀ paren ts as rest, ts.length ≤ N → parseRFromNames σ paren f ts = some (as, rest) →
    rest.length < ts.length ∧ as ≠ [] ∧ SeqAl src σ ts.length (rest.length + 1) as

theorem fromNames_sound (T : TiledTab src σ N) : ∀ f, FromNamesSpec src σ N f := by
  refine below_rec (fun n ih => ?_)
  intro paren ts as rest hN
  fun_cases parseRFromNames σ paren n ts
  rstep σ [@parseAsOpt_len, ih _ rfl]

theorem importAsNames_sound (T : TiledTab src σ N) (f : Nat) : ∀ ts as rest, ts.length ≤ N →
    parseRImportAsNames σ f ts = some (as, rest) →
    rest.length < ts.length ∧ as ≠ [] ∧ SeqAl src σ ts.length (rest.length + 1) as := by
  intro ts as rest hN
  fun_cases parseRImportAsNames σ f ts
  rstep σ [fromNames_sound T _]

theorem importDots_len : ∀ ts, (importDots ts).2.2.length ≤ ts.length := by
  intro ts
  fun_induction importDots ts <;> simp_all <;> omega

theorem importFrom_sound (T : TiledTab src σ N) (f : Nat) : ∀ ts s rest, ts.length + 1 ≤ N →
    parseRImportFrom σ f ts = some (s, rest) →
    rest.length < ts.length ∧ WS src σ (ts.length + 1) (rest.length + 1) s ∧
      s.range = (S σ (ts.length + 1), E σ (rest.length + 1)) := by
  intro ts s rest hN
  have hd := importDots_len ts
  fun_cases parseRImportFrom σ f ts
  rstep σ [@dottedTail_len, importAsNames_sound T _]

theorem typeParamItemR_sound (T : TiledTab src σ N) (f : Nat) : ∀ ts tp rest, ts.length ≤ N →
    typeParamItemR σ f ts = some (tp, rest) → rest.length < ts.length ∧ WTP src σ ts.length (rest.length + 1) tp := by
  intro ts tp rest hN
  fun_cases typeParamItemR σ f ts
  rstep σ [(soundAt T _).test]

def TypeParamsSpec (src : List Nat) (σ : SpanTab) (N f : Nat) : Prop :=
  ∀ ts tps rest, ts.length ≤ N → parseRTypeParams σ f ts = some (tps, rest) →
    rest.length + 1 < ts.length ∧ tps ≠ [] ∧ SeqTP src σ ts.length (rest.length + 2) tps

theorem typeParams_sound (T : TiledTab src σ N) : ∀ f, TypeParamsSpec src σ N f := by
  refine below_rec (fun n ih => ?_)
  intro ts tps rest hN
  fun_cases parseRTypeParams σ n ts
  rstep σ [typeParamItemR_sound T _, ih _ rfl]

theorem seqTP_nil0 (T : TiledTab src σ N) (j k : Nat) : SeqTP src σ j k [] := seqTP_nil

theorem typeParamsOpt_sound (T : TiledTab src σ N) (f : Nat) : ∀ ts tps rest, ts.length ≤ N →
    parseRTypeParamsOpt σ f ts = some (tps, rest) →
    rest.length ≤ ts.length ∧ SeqTP src σ ts.length (rest.length + 1) tps ∧
      ((tps = [] ∧ rest = ts) ∨ rest.length + 2 < ts.length) := by
  intro ts tps rest hN
  fun_cases parseRTypeParamsOpt σ f ts
  rstep σ [typeParams_sound T _, seqTP_nil0 T]

/-! ### small statements -/

theorem parseIdents_len : ∀ f ts ns r, parseIdents f ts = some (ns, r) → r.length < ts.length := by
  intro f
  induction f with
  | zero => intro ts ns r h; simp [parseIdents] at h
  | succ f ih =>
    intro ts ns r h
    rw [parseIdents.eq_def] at h
    split at h
    · cases h
    · rename_i f' n r0 heq
      simp only [Nat.succ.injEq] at heq; subst heq
      split at h
      · rename_i ns' r' h'
        simp only [Option.some.injEq, Prod.mk.injEq] at h
        obtain ⟨_, rfl⟩ := h
        have := ih _ _ _ h'
        simp only [List.length_cons]; omega
      · cases h
    · simp only [Option.some.injEq, Prod.mk.injEq] at h
      obtain ⟨_, rfl⟩ := h
      simp only [List.length_cons]; omega
    · cases h

theorem small_sound (T : TiledTab src σ N) (f : Nat) : ∀ ts s rest, ts.length ≤ N →
    parseRSmall σ f ts = some (s, rest) → PostSm src σ ts s rest := by
  intro ts s rest hN
  fun_cases parseRSmall σ f ts
  rstep σ [yieldS_sound T _, importFrom_sound T _, commaList_sound T _, testListS_sound T _, (soundAt T _).test,
    importNames_sound T _, parseIdents_len _, typeParamsOpt_sound T _, exprStmt_sound T _]

def SimpleLineSpec (src : List Nat) (σ : SpanTab) (N f : Nat) : Prop :=
  ∀ ts ss rest, ts.length ≤ N → parseRSimpleLine σ f ts = some (ss, rest) → PostSs src σ ts ss rest

attribute [grind =] lastEnd_single
grind_pattern lastEnd_cons => lastEnd (s :: ys)

theorem simpleLine_sound (T : TiledTab src σ N) : ∀ f, SimpleLineSpec src σ N f := by
  refine below_rec (fun n ih => ?_)
  intro ts ss rest hN
  fun_cases parseRSimpleLine σ n ts
  rstep σ [small_sound T _, ih _ rfl]

end PV.C02
