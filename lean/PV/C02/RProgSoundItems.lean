import PV.C02.RProgSoundNodes
import PV.C02.RProg
/-
  PV.C02.RProgSoundItems — the node lemmas that are not generated: handlers, match cases, aliases, with-items (ranged
  by their tokens or like their expression node), type parameters, `Arg` / `ArgWithDefault` (with the derived end
  `default.end()`) / `Arguments`, the nested `If`s of an `elif` chain, the `Mod*` node; and how `lastEnd` of a
  statement sequence is read off its index windows.
-/
set_option linter.unusedSimpArgs false
set_option linter.unusedVariables false
set_option linter.unusedSectionVars false
namespace PV.C02
open PV.Expr PV.C11 PV.Prog

variable {src : List Nat} {σ : SpanTab} {N : Nat}

section items
variable (T : TiledTab src σ N)
include T

/-- `yield` without a value, ranged by its token (the form `(S σ k, E σ k)`) -/
theorem own_yield_none' {k : Nat} (h1 : 1 ≤ k) (h2 : k ≤ N) : Win src σ k k (.yield (S σ k, E σ k) none) :=
  own_yield_none T h1 h2

/-! ### handlers, cases -/

theorem wh_mk {j k jt kt jb kb : Nat} {ty nm b} (h1 : 1 ≤ k) (h3 : k ≤ j) (h5 : j ≤ N)
    (hty : WO src σ jt kt ty) (ty0 : ty = none ∨ (k ≤ kt ∧ jt ≤ j ∧ 1 ≤ jt ∧ kt ≤ N))
    (hb : SeqS src σ jb kb b) (b1 : k ≤ kb) (b2 : jb ≤ j) (b3 : 1 ≤ jb) (b4 : kb ≤ N) :
    WH src σ j k (.mk (S σ j, E σ k) ty nm b) := by
  unfold WH WX
  intro hp
  simp only [plainH, Bool.and_eq_true] at hp
  simp only [RHandler.tree]
  exact winT_node T h1 (Nat.le_refl _) h3 (Nat.le_refl _) h5
    (Kids.append (kids_wo T hty hp.1 ty0 h1 h5) (kids_stmts T "body" hb hp.2 (Or.inr ⟨b1, b2, b3, b4⟩) h1 h5) (by decide))

theorem wc_mk {j k jp kp jg kg jb kb : Nat} {p g b} (h1 : 1 ≤ k) (h3 : k ≤ j) (h5 : j ≤ N)
    (hpt : WP src σ jp kp p) (p1 : k ≤ kp) (p2 : jp ≤ j) (p3 : 1 ≤ jp) (p4 : kp ≤ N)
    (hg : WO src σ jg kg g) (g0 : g = none ∨ (k ≤ kg ∧ jg ≤ j ∧ 1 ≤ jg ∧ kg ≤ N))
    (hb : SeqS src σ jb kb b) (b1 : k ≤ kb) (b2 : jb ≤ j) (b3 : 1 ≤ jb) (b4 : kb ≤ N) :
    WC src σ j k (.mk (S σ j, E σ k) p g b) := by
  unfold WC WX
  intro hp
  simp only [plainC, Bool.and_eq_true] at hp
  obtain ⟨⟨pp, pg⟩, pb⟩ := hp
  simp only [RCase.tree]
  exact winT_node T h1 (Nat.le_refl _) h3 (Nat.le_refl _) h5
    (Kids.cons (kids_pat T "pattern" hpt pp p1 p2 p3 p4 h1 h5)
      (Kids.append (kids_wo T hg pg g0 h1 h5) (kids_stmts T "body" hb pb (Or.inr ⟨b1, b2, b3, b4⟩) h1 h5) (by decide))
      (by decide))

/-! ### aliases, with-items, type parameters -/

theorem wal_mk {j k : Nat} {n a} (h1 : 1 ≤ k) (h3 : k ≤ j) (h5 : j ≤ N) : WAl src σ j k ⟨(S σ j, E σ k), n, a⟩ := by
  unfold WAl WX
  intro _
  simp only [RAlias.tree]
  exact winT_node T h1 (Nat.le_refl _) h3 (Nat.le_refl _) h5 Kids.nil

/-- a with-item ranged by its tokens -/
theorem wwi_mk {j k je ke jv kv : Nat} {e v} (h1 : 1 ≤ k) (h3 : k ≤ j) (h5 : j ≤ N)
    (he : Win src σ je ke e) (e1 : k ≤ ke) (e2 : je ≤ j) (e3 : 1 ≤ je) (e4 : ke ≤ N)
    (hv : WO src σ jv kv v) (v0 : v = none ∨ (k ≤ kv ∧ jv ≤ j ∧ 1 ≤ jv ∧ kv ≤ N)) :
    WWI src σ j k ⟨(S σ j, E σ k), e, v⟩ := by
  unfold WWI WX
  intro hp
  simp only [RWithItem.plain, Bool.and_eq_true] at hp
  simp only [RWithItem.tree, RExpr.toTree]
  exact winT_node T h1 (Nat.le_refl _) h3 (Nat.le_refl _) h5
    (Kids.cons (kids_expr T he hp.1 e1 e2 e3 e4 h1 h5) (kids_wo T hv hp.2 v0 h1 h5) (by decide))

omit T in
/-- a with-item ranged like its expression node (items of a parenthesised list in front of the first `as`) -/
theorem wwi_node {j k : Nat} {e : RExpr} (he : Win src σ j k e) : WWI src σ j k ⟨e.range, e, none⟩ := by
  unfold WWI WX
  intro hp
  simp only [RWithItem.plain, plainO, Bool.and_true] at hp
  obtain ⟨g1, g2, g3, g4, g5⟩ := he.2 hp
  simp only [RWithItem.tree, RExpr.toTree, optTree, WinT]
  have hres : Res src e.range.1 e.range.2 e := ⟨g1, Nat.le_refl _, Nat.le_refl _, g4, g5⟩
  exact TF.ofKids (a := e.range.1) (b := e.range.2) g1 g2 g3 (Kids.expr hres (Nat.le_refl _) (Nat.le_refl _))

theorem wtp_typeVar {j k jb kb : Nat} {n b} (h1 : 1 ≤ k) (h3 : k ≤ j) (h5 : j ≤ N)
    (hb : WO src σ jb kb b) (b0 : b = none ∨ (k ≤ kb ∧ jb ≤ j ∧ 1 ≤ jb ∧ kb ≤ N)) :
    WTP src σ j k (.typeVar (S σ j, E σ k) n b) := by
  unfold WTP WX
  intro hp
  simp only [RTypeParam.plain] at hp
  simp only [RTypeParam.tree, RTypeParam.kind, RTypeParam.range, RTypeParam.children]
  exact winT_node T h1 (Nat.le_refl _) h3 (Nat.le_refl _) h5 (kids_wo T hb hp b0 h1 h5)

theorem wtp_paramSpec {j k : Nat} {n} (h1 : 1 ≤ k) (h3 : k ≤ j) (h5 : j ≤ N) :
    WTP src σ j k (.paramSpec (S σ j, E σ k) n) := by
  unfold WTP WX
  intro _
  simp only [RTypeParam.tree, RTypeParam.kind, RTypeParam.range, RTypeParam.children]
  exact winT_node T h1 (Nat.le_refl _) h3 (Nat.le_refl _) h5 Kids.nil

theorem wtp_typeVarTuple {j k : Nat} {n} (h1 : 1 ≤ k) (h3 : k ≤ j) (h5 : j ≤ N) :
    WTP src σ j k (.typeVarTuple (S σ j, E σ k) n) := by
  unfold WTP WX
  intro _
  simp only [RTypeParam.tree, RTypeParam.kind, RTypeParam.range, RTypeParam.children]
  exact winT_node T h1 (Nat.le_refl _) h3 (Nat.le_refl _) h5 Kids.nil

/-! ### parameters -/

/-- an `Arg` node (a `*args` / `**kwargs` parameter, or the `def` of an `ArgWithDefault`): name .. end of the annotation -/
theorem winT_arg {j k ja ka : Nat} {n an} (slot : String) (il : Bool) (h1 : 1 ≤ k) (h3 : k ≤ j) (h5 : j ≤ N)
    (han : WO src σ ja ka an) (an0 : an = none ∨ (k ≤ ka ∧ ja ≤ j ∧ 1 ≤ ja ∧ ka ≤ N)) (hp : plainO an = true) :
    WinT src σ j k (RArg.tree slot il ⟨(S σ j, E σ k), n, an⟩) := by
  simp only [RArg.tree]
  exact winT_node T h1 (Nat.le_refl _) h3 (Nat.le_refl _) h5 (kids_wo T han hp an0 h1 h5)

/-- a parameter without default: `Arg` and `ArgWithDefault` have the same range -/
theorem winT_argD_none {j k ja ka : Nat} {n an} (slot : String) (h1 : 1 ≤ k) (h3 : k ≤ j) (h5 : j ≤ N)
    (han : WO src σ ja ka an) (an0 : an = none ∨ (k ≤ ka ∧ ja ≤ j ∧ 1 ≤ ja ∧ ka ≤ N)) (hp : plainO an = true) :
    WinT src σ j k (RArgD.tree slot (argDR (S σ j, E σ k) n an none)) := by
  simp only [argDR, RArgD.tree, optTree, RArg.tree]
  refine winT_node T h1 (Nat.le_refl _) h3 (Nat.le_refl _) h5 (slots := ["def"]) ?_
  have harg := winT_arg T "def" false (n := n) h1 h3 h5 han an0 hp
  simp only [RArg.tree] at harg
  exact kids_one T harg rfl (Nat.le_refl _) (Nat.le_refl _) (by omega) (by omega) h1 h5

/-- a parameter with a default: the `ArgWithDefault` runs from the name to the end of the default's NODE, wherever in
    its window (the tokens `jd … kd` behind the `Arg`) that is -/
theorem winT_argD_some {j k ja ka jd kd : Nat} {n an d} (slot : String) (h1 : 1 ≤ k) (h3 : k ≤ j) (h5 : j ≤ N)
    (han : WO src σ ja ka an) (an0 : an = none ∨ (k ≤ ka ∧ ja ≤ j ∧ 1 ≤ ja ∧ ka ≤ N)) (hp : plainO an = true)
    (hd : Win src σ jd kd d) (hpd : plain d = true) (d1 : 1 ≤ kd) (d2 : kd ≤ jd) (d3 : jd < k) :
    WinT src σ j kd (RArgD.tree slot (argDR (S σ j, E σ k) n an (some d))) := by
  obtain ⟨g1, g2, g3, g4, g5⟩ := hd.2 hpd
  have g1' := g1
  rw [show d.range = (d.range.1, d.range.2) from rfl, rgOk_iff] at g1'
  have hj := T.own j (by omega) h5
  rw [show σ j = ((σ j).1, (σ j).2) from rfl, rgOk_iff] at hj
  have e1 : (σ k).2 ≤ (σ jd).1 := T.ES (by omega) d3 (by omega)
  have e2 : (σ j).1 ≤ (σ k).2 := T.SE' h1 h3 h5
  have hrg : rgOk src ((σ j).1, d.range.2) := by
    rw [rgOk_iff]; exact ⟨by omega, g1'.2.1, hj.2.2.1, g1'.2.2.2⟩
  simp only [argDR, RArgD.tree, optTree, WinT]
  refine TF.ofKids (a := (σ j).1) (b := d.range.2) hrg (Nat.le_refl _) g3 (slots := ["def", "default"]) ?_
  have harg := winT_arg T "def" false (n := n) h1 h3 h5 han an0 hp
  refine Kids.cons (Kids.one harg rfl (Nat.le_refl _) (by omega)) ?_ (by decide)
  exact Kids.expr (lo := d.range.1) (hi := d.range.2) ⟨g1, Nat.le_refl _, Nat.le_refl _, g4, g5⟩
    (by omega) (Nat.le_refl _)

/-- the `Arguments` node around its parameters (in consecutive windows) -/
theorem wargs_mk {j k jl kl : Nat} {a : RArguments} (h1 : 1 ≤ k) (h3 : k ≤ j) (h5 : j ≤ N)
    (hs : a.plain = true → SeqT src σ jl kl a.children)
    (c : a.children = [] ∨ (k ≤ kl ∧ jl ≤ j ∧ 1 ≤ jl ∧ kl ≤ N)) :
    WArgs src σ j k { a with rg := (S σ j, E σ k) } := by
  unfold WArgs WX
  intro hp
  have hp' : a.plain = true := hp
  show WinT src σ j k (.node "Arguments" "args" false (some (S σ j, E σ k)) a.children)
  exact winT_node T h1 (Nat.le_refl _) h3 (Nat.le_refl _) h5 (kids_seqAny T (hs hp') c h1 h5)

end items

grind_pattern own_yield_none' => TiledTab src σ N, RExpr.yield (S σ k, E σ k) none
grind_pattern wh_mk => TiledTab src σ N, WO src σ jt kt ty, SeqS src σ jb kb b, RHandler.mk (S σ j, E σ k) ty nm b
grind_pattern wc_mk => TiledTab src σ N, WP src σ jp kp p, WO src σ jg kg g, SeqS src σ jb kb b,
  RCase.mk (S σ j, E σ k) p g b
grind_pattern wal_mk => TiledTab src σ N, RAlias.mk (S σ j, E σ k) n a
grind_pattern wwi_mk => TiledTab src σ N, Win src σ je ke e, WO src σ jv kv v, RWithItem.mk (S σ j, E σ k) e v
grind_pattern wwi_node => Win src σ j k e, RWithItem.mk e.range e none
grind_pattern wtp_typeVar => TiledTab src σ N, WO src σ jb kb b, RTypeParam.typeVar (S σ j, E σ k) n b
grind_pattern wtp_paramSpec => TiledTab src σ N, RTypeParam.paramSpec (S σ j, E σ k) n
grind_pattern wtp_typeVarTuple => TiledTab src σ N, RTypeParam.typeVarTuple (S σ j, E σ k) n

grind_pattern wo_none => WO src σ j k none
grind_pattern wo_some => Win src σ j k e, some e

grind_pattern seqS_nil => SeqS src σ j k []
grind_pattern seqS_single => WS src σ j k x, [x]
grind_pattern ws_mono => TiledTab src σ N, WS src σ j k x, WS src σ j' k' x
grind_pattern seqS_mono => TiledTab src σ N, SeqS src σ j k xs, SeqS src σ j' k' xs
grind_pattern seqS_cons => TiledTab src σ N, WS src σ j m x, SeqS src σ j2 k xs, x :: xs
grind_pattern seqS_append => TiledTab src σ N, SeqS src σ j m xs, SeqS src σ j2 k ys, xs ++ ys
grind_pattern seqPt_nil => SeqPt src σ j k []
grind_pattern seqPt_single => WP src σ j k x, [x]
grind_pattern wp_mono => TiledTab src σ N, WP src σ j k x, WP src σ j' k' x
grind_pattern seqPt_mono => TiledTab src σ N, SeqPt src σ j k xs, SeqPt src σ j' k' xs
grind_pattern seqPt_cons => TiledTab src σ N, WP src σ j m x, SeqPt src σ j2 k xs, x :: xs
grind_pattern seqPt_snoc => TiledTab src σ N, SeqPt src σ jl m xs, WP src σ j2 k2 x, xs ++ [x]
grind_pattern seqH_nil => SeqH src σ j k []
grind_pattern seqH_single => WH src σ j k x, [x]
grind_pattern seqH_mono => TiledTab src σ N, SeqH src σ j k xs, SeqH src σ j' k' xs
grind_pattern seqH_cons => TiledTab src σ N, WH src σ j m x, SeqH src σ j2 k xs, x :: xs
grind_pattern seqCs_single => WC src σ j k x, [x]
grind_pattern seqCs_mono => TiledTab src σ N, SeqCs src σ j k xs, SeqCs src σ j' k' xs
grind_pattern seqCs_cons => TiledTab src σ N, WC src σ j m x, SeqCs src σ j2 k xs, x :: xs
grind_pattern seqAl_single => WAl src σ j k x, [x]
grind_pattern seqAl_mono => TiledTab src σ N, SeqAl src σ j k xs, SeqAl src σ j' k' xs
grind_pattern seqAl_cons => TiledTab src σ N, WAl src σ j m x, SeqAl src σ j2 k xs, x :: xs
grind_pattern seqWI_nil => SeqWI src σ j k []
grind_pattern seqWI_single => WWI src σ j k x, [x]
grind_pattern seqWI_mono => TiledTab src σ N, SeqWI src σ j k xs, SeqWI src σ j' k' xs
grind_pattern seqWI_cons => TiledTab src σ N, WWI src σ j m x, SeqWI src σ j2 k xs, x :: xs
grind_pattern seqTP_nil => SeqTP src σ j k []
grind_pattern seqTP_single => WTP src σ j k x, [x]
grind_pattern seqTP_mono => TiledTab src σ N, SeqTP src σ j k xs, SeqTP src σ j' k' xs
grind_pattern seqTP_cons => TiledTab src σ N, WTP src σ j m x, SeqTP src σ j2 k xs, x :: xs

end PV.C02
