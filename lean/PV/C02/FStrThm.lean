import PV.C02.RThm
import PV.C02.FStrField
/-
  C02 — f-string pieces: what is true of their ranges, and the reusable half of the proof.

  * Step 0 (kernel-evaluated): with TIED tokens (`FTied`: the value of every f-string token is the source text of its
    span) `rangesOk` holds of the model's f-string trees — single fields, nested format specs, conversions,
    self-documenting fields, f-strings inside implicit concatenations (`fstring_rangesOk_samples`).  Without the tie
    it fails: `parseR_rangesOk_full` (hypothesis `Tiled` only) is REFUTED (`parseR_rangesOk_fails`), and the CR LF
    folding of the real lexer breaks the tie and `rangesOk` (`fstring_crlf_folded_witness`).
  * Step 1 (theorems, every input): `aligned_of_tied` (a tied token value sits on character boundaries of the source),
    `lexSpans_tiles` / `tiledTab_of_aligned` (FStrLex), `scanField_cut` / `fieldTab_within_field` (FStrField), and
    `field_value_res`: the expression of a replacement field, parsed over `fieldTab`, passes all structural clauses
    inside the field's window — the step of the soundness induction at `fstrRField`.
  Not done: threading `FTied` through the 48-function induction (`SoundSteps`), see design/C02.md.
-/
set_option linter.unusedSimpArgs false
set_option linter.unusedVariables false
namespace PV.C02
open PV.Expr PV.C11

/-! ### the tie between an f-string token and the source -/

/-- the value `body` of an f-string token spanning `rg` IS the source text behind the prefix and the opening quotes
    (at the offset `StringParser::new` starts from), and the token does not end before it (decidable) -/
def fstrTied (src : List Nat) (rg : Rg) (triple raw : Bool) (body : List Nat) : Bool :=
  let base := rg.1 + (if raw then 2 else 1) + (if triple then 3 else 1)
  decide (base + ulen body ≤ rg.2) && decide (base + ulen body ≤ src.length) &&
    ((src.drop base).take (ulen body) == PV.utf8Encode body) && isBoundary src (base + ulen body)

def tokTied (src : List Nat) (t : RTok) : Bool :=
  match t.tok with
  | .fstr _ triple raw body => fstrTied src (t.s, t.e) triple raw body
  | _ => true

/-- every f-string token's value is the source text of its span (what the real lexer delivers, except after a CR LF
    inside the literal, which it folds: listed finding `fstring-field-range-after-crlf`) -/
def FTied (src : List Nat) (toks : List RTok) : Bool := toks.all (tokTied src)

theorem encode_append (a b : List Nat) : PV.utf8Encode (a ++ b) = PV.utf8Encode a ++ PV.utf8Encode b := by
  simp [PV.utf8Encode]

/-- a tied token value is aligned with the source -/
theorem aligned_of_tied {src : List Nat} {rg : Rg} {triple raw : Bool} {body : List Nat}
    (h : fstrTied src rg triple raw body = true) :
    Aligned src (rg.1 + (if raw then 2 else 1) + (if triple then 3 else 1)) body ∧
    rg.1 + (if raw then 2 else 1) + (if triple then 3 else 1) + ulen body ≤ rg.2 := by
  unfold fstrTied at h
  simp only [Bool.and_eq_true, decide_eq_true_eq, beq_iff_eq] at h
  obtain ⟨⟨⟨h1, h2⟩, h3⟩, h4⟩ := h
  refine ⟨fun i hi => ?_, h1⟩
  generalize rg.1 + (if raw then 2 else 1) + (if triple then 3 else 1) = base at *
  have hm := ulen_take_mono body (i := i) (j := body.length) hi
  rw [List.take_length] at hm
  refine ⟨by omega, ?_⟩
  by_cases hib : i = body.length
  · subst hib; rw [List.take_length]; exact h4
  · -- src = src.take base ++ enc (body.take i) ++ enc (body.drop i) ++ …
    have hsplit : src = src.take base ++ (PV.utf8Encode (body.take i) ++
        (PV.utf8Encode (body.drop i) ++ src.drop (base + ulen body))) := by
      have e1 : src = src.take base ++ ((src.drop base).take (ulen body) ++ (src.drop base).drop (ulen body)) := by
        rw [List.take_append_drop, List.take_append_drop]
      rw [h3, List.drop_drop] at e1
      conv at e1 => rhs; rw [← List.take_append_drop i body, encode_append]
      simpa [List.append_assoc] using e1
    have hlen : (src.take base ++ PV.utf8Encode (body.take i)).length = base + ulen (body.take i) := by
      rw [List.length_append, List.length_take, ← ulen_eq_encode]; omega
    rw [← hlen]
    have := isBoundary_append (src.take base ++ PV.utf8Encode (body.take i))
      (PV.utf8Encode (body.drop i) ++ src.drop (base + ulen body)) (by
        intro x hx
        have hne : body.drop i ≠ [] := by
          intro hnil
          have := List.drop_eq_nil_iff.mp hnil
          omega
        cases hd : body.drop i with
        | nil => exact absurd hd hne
        | cons c cs =>
          rw [hd] at hx
          have hne2 := encodeNat_ne_nil c
          have : (PV.utf8Encode (c :: cs) ++ src.drop (base + ulen body)).head? = (PV.utf8Encode (c :: cs)).head? := by
            simp only [PV.utf8Encode, List.flatMap_cons]
            cases he : PV.utf8EncodeNat c with
            | nil => exact absurd he hne2
            | cons y ys => simp
          rw [this] at hx
          exact encode_head_lead (c :: cs) x hx)
    rw [List.append_assoc] at this
    rw [← hsplit] at this
    exact this


/-! ### the recursive parse of a replacement field -/

/-- **The expression of a replacement field is fine inside the field's window.**  With the token value aligned in the
    source (`aligned_of_tied`), the field cut out by `scanField`, its wrapped text lexed by the C11 lexer and parsed by
    the ranged parser over `fieldTab` at the position the model computes: a `plain` value tree passes all structural
    clauses (`Res`) and lies between the field's opening brace and the end of what the scanner consumed — hence
    inside the string token.  This is the step the soundness induction needs at `fstrRField`
    (`soundAt` instantiated at the inner span table, which `fieldTab_within_field` shows tiled). -/
theorem field_value_res {src : List Nat} {base : Nat} {whole pre cs : List Nat} {st : FieldState}
    {stop : FieldStop} {r : List Nat} {fuel f : Nat} {tks : List Tok} {value : RExpr}
    (hA : Aligned src base whole) (hw : whole = pre ++ 123 :: cs)
    (hs : scanField fuel {} cs = some (st, stop, r))
    (hl : lex (40 :: (st.expr.reverse ++ [41])) = some tks)
    (hp : parseRTop (fieldTab (posIn base whole cs.length) st.expr.reverse) f tks = some value)
    (hpl : plain value = true) :
    Res src (base + ulen pre) (base + ulen whole - ulen r) value := by
  obtain ⟨T, hin⟩ := fieldTab_within_field hA hw hs
  skip
  have hlen := lexSpans_length (text := 40 :: (st.expr.reverse ++ [41])) (tks := tks) (by
    unfold lex at hl
    exact hl) (posIn base whole cs.length - 1)
  rw [hlen] at T
  cases f with
  | zero => simp [parseRTop] at hp
  | succ f =>
    rw [parseRTop.eq_def] at hp
    simp only at hp
    split at hp
    · rename_i e' heq
      cases hp
      have hs' := (soundAt T f).testList tks value [] (Nat.le_refl _) heq
      obtain ⟨g1, g2, _⟩ := hs'
      simp only [List.length_nil] at g1 g2
      have hres := g2.2 hpl
      refine hres.mono ?_ ?_
      · have hm : (fieldTab (posIn base whole cs.length) st.expr.reverse) tks.length ∈
            lexSpans (posIn base whole cs.length - 1) (40 :: (st.expr.reverse ++ [41])) := by
          unfold fieldTab
          rw [tabOf_get' _ _ (by omega) (by omega)]
          exact List.getElem_mem _
        exact (hin _ hm).1
      · have hm : (fieldTab (posIn base whole cs.length) st.expr.reverse) (0 + 1) ∈
            lexSpans (posIn base whole cs.length - 1) (40 :: (st.expr.reverse ++ [41])) := by
          unfold fieldTab
          rw [tabOf_get' _ _ (by omega) (by omega)]
          exact List.getElem_mem _
        exact (hin _ hm).2
    · cases hp


/-! ### what is true and what is false of f-string trees (kernel-evaluated) -/

/-- the first `FormattedValue` of a `JoinedStr`: its range, the range of its value, the range of its format spec (flattened) -/
def firstField : RExpr → List Nat
  | .joinedStr _ vs =>
    (vs.findSome? fun
      | .formattedValue rg v _ spec =>
        some ([rg.1, rg.2, v.range.1, v.range.2] ++ (match spec with | some s => [s.range.1, s.range.2] | none => []))
      | _ => none).getD []
  | _ => []

/-- `f'{x:>{w}}'`: a nested format spec -/
def specSrc : List Nat := [102, 39, 123, 120, 58, 62, 123, 119, 125, 125, 39]
def specToks : List RTok := [⟨.fstr 39 false false [123, 120, 58, 62, 123, 119, 125, 125], 0, 11⟩]
/-- `f'{é!r}ü'`: a conversion, multi-byte characters in the field and behind it -/
def convSrc : List Nat := [102, 39, 123, 195, 169, 33, 114, 125, 195, 188, 39]
def convToks : List RTok := [⟨.fstr 39 false false [123, 233, 33, 114, 125, 252], 0, 11⟩]
/-- `'a' f'{b}' 'c'` (`concatToks`) -/
def concatSrc : List Nat := [39, 97, 39, 32, 102, 39, 123, 98, 125, 39, 32, 39, 99, 39]
/-- `f'{x = }'`: a self-documenting field -/
def selfDocSrc : List Nat := [102, 39, 123, 120, 32, 61, 32, 125, 39]
def selfDocToks : List RTok := [⟨.fstr 39 false false [123, 120, 32, 61, 32, 125], 0, 9⟩]

/-- **Step 0, decided by the kernel: with tied tokens `rangesOk` HOLDS of f-string trees** — a nested format spec
    (`FormattedValue` 0..11, value `x` 3..4, spec `JoinedStr` 0..11 with the inner field `w` 7..8), a conversion with
    multi-byte characters (value `é` 3..5), an f-string INSIDE an implicit concatenation (pieces 0..14 / 4..10 / 0..14:
    the listed finding `fstring-piece-range-in-concatenation` is an EXTENT deviation; enclosure holds, sibling order
    is exempt for `JoinedStr.values`), a self-documenting field.  None of these trees is `plain`. -/
theorem fstring_rangesOk_samples :
    ((parseRExpression specToks).map fun e =>
      (FTied specSrc specToks, rangesOk specSrc (e.toTree "body" false), plain e, firstField e)) =
      some (true, true, false, [0, 11, 3, 4, 0, 11]) ∧
    ((parseRExpression convToks).map fun e =>
      (FTied convSrc convToks, rangesOk convSrc (e.toTree "body" false), plain e, firstField e)) =
      some (true, true, false, [0, 11, 3, 5]) ∧
    ((parseRExpression concatToks).map fun e =>
      (FTied concatSrc concatToks, rangesOk concatSrc (e.toTree "body" false), plain e, firstField e)) =
      some (true, true, false, [4, 10, 7, 8]) ∧
    ((parseRExpression selfDocToks).map fun e =>
      (FTied selfDocSrc selfDocToks, rangesOk selfDocSrc (e.toTree "body" false), plain e)) =
      some (true, true, false) := by
  refine ⟨?_, ?_, ?_, ?_⟩ <;> decide +kernel

/-- an f-string token whose span is one byte: `Tiled` holds, the tie does not -/
def untiedSrc : List Nat := [120]
def untiedToks : List RTok := [⟨.fstr 39 false false [123, 98, 125], 0, 1⟩]

/-- **`parseR_rangesOk_full` is FALSE as stated**: `Tiled` constrains the token SPANS only; the ranges inside a
    replacement field are computed from the token's VALUE, so a token whose value is not the text of its span
    (`untiedToks`: value `{b}` on the one-byte source `x`) yields a field expression at 3..4, outside the input.  The
    statement that can hold needs the tie `FTied` as a hypothesis. -/
theorem parseR_rangesOk_fails : ¬ parseR_rangesOk_full := by
  intro hfull
  have hT : Tiled untiedSrc untiedToks := by
    refine ⟨?_, by simp [untiedToks]⟩
    intro t ht
    simp only [untiedToks, List.mem_cons, List.not_mem_nil, or_false] at ht
    subst ht; decide
  have hw : ((parseR 200 untiedToks).map fun p => rangesOk untiedSrc (p.1.toTree "body" false)) = some false := by
    decide +kernel
  cases hp : parseR 200 untiedToks with
  | none => rw [hp] at hw; cases hw
  | some p =>
    obtain ⟨e, rest⟩ := p
    rw [hp] at hw
    simp only [Option.map_some, Option.some.injEq] at hw
    have := hfull untiedSrc untiedToks 200 e rest hT hp
    rw [this] at hw
    cases hw

/-- the witness is outside the tie, and so is every token the real lexer folds a CR LF in:
    `f'''⏎{é}'''` with CR LF (13 bytes), token value `⏎{é}` (the lexer folds CR LF to LF before `string.rs` counts) -/
def crlfSrc : List Nat := [102, 39, 39, 39, 13, 10, 123, 195, 169, 125, 39, 39, 39]
def crlfToks : List RTok := [⟨.fstr 39 true false [10, 123, 233, 125], 0, 13⟩]

/-- Listed finding `fstring-field-range-after-crlf` seen through `rangesOk`: with the CR LF folded in the token value
    the field expression `é` (bytes 7..9) is ranged 6..8 — 8 is inside the character: `rangesOk` fails, the tie
    `FTied` fails, `Tiled` holds.  (The real lexer's token is outside the lexer model's domain; the program model
    reproduces the finding per input.) -/
theorem fstring_crlf_folded_witness :
    ((parseRExpression crlfToks).map fun e =>
      (FTied crlfSrc crlfToks, rangesOk crlfSrc (e.toTree "body" false), firstField e)) =
      some (false, false, [0, 13, 6, 8]) ∧
    FTied untiedSrc untiedToks = false := by
  constructor <;> decide +kernel


/-! ### non-vacuity of the field lemmas: the conversion field of `f'{é!r}ü'` and the nested field of `f'{x:>{w}}'` -/

/-- `{é!r}ü`, the value of `convToks`' token -/
def convBody : List Nat := [123, 233, 33, 114, 125, 252]
/-- `{x:>{w}}`, the value of `specToks`' token -/
def specBody : List Nat := [123, 120, 58, 62, 123, 119, 125, 125]

example : fstrTied convSrc (0, 11) false false convBody = true := by decide +kernel
example : fstrTied specSrc (0, 11) false false specBody = true := by decide +kernel

/-- the scanner cuts `é` (conversion `r`, rest `ü`) out of `é!r}ü`, and `w` out of `w}}` -/
example : (scanField 6 {} [233, 33, 114, 125, 252]).map (fun p => (p.1.expr.reverse, p.1.conv, p.2.2)) =
    some ([233], 114, [252]) := by decide +kernel
example : (scanField 4 {} [119, 125, 125]).map (fun p => (p.1.expr.reverse, p.2.2)) = some ([119], [125]) := by
  decide +kernel

/-- `fieldTab_within_field` / `field_value_res` apply to the conversion field: the value `é` is parsed over
    `fieldTab 3 "é"` (spans 2..3, 3..5, 5..6 of the source), is plain, and lies in the window 2..9 -/
example : ∃ st stop r tks value,
    scanField 6 {} [233, 33, 114, 125, 252] = some (st, stop, r) ∧
    lex (40 :: (st.expr.reverse ++ [41])) = some tks ∧
    parseRTop (fieldTab (posIn 2 convBody 5) st.expr.reverse) 60 tks = some value ∧ plain value = true ∧
    value.range = (3, 5) ∧ Res convSrc (2 + ulen []) (2 + ulen convBody - ulen r) value := by
  have hA := (aligned_of_tied (src := convSrc) (rg := (0, 11)) (triple := false) (raw := false) (body := convBody)
    (by decide +kernel)).1
  cases hs : scanField 6 {} [233, 33, 114, 125, 252] with
  | none => exact absurd hs (by decide +kernel)
  | some p =>
    obtain ⟨st, stop, r⟩ := p
    have he : st.expr.reverse = [233] := by
      have : (scanField 6 {} [233, 33, 114, 125, 252]).map (fun p => p.1.expr.reverse) = some [233] := by
        decide +kernel
      rw [hs] at this; simpa using this
    have hl : lex (40 :: ([233] ++ [41])) = some [.op .lpar, .name [233], .op .rpar] := by decide +kernel
    have hp : (parseRTop (fieldTab (posIn 2 convBody 5) [233]) 60 [.op .lpar, .name [233], .op .rpar]).map
        (fun v => (plain v, v.range)) = some (true, (3, 5)) := by decide +kernel
    cases hv : parseRTop (fieldTab (posIn 2 convBody 5) [233]) 60 [.op .lpar, .name [233], .op .rpar] with
    | none => rw [hv] at hp; cases hp
    | some value =>
      rw [hv] at hp
      simp only [Option.map_some, Option.some.injEq, Prod.mk.injEq] at hp
      refine ⟨st, stop, r, _, value, rfl, by rw [he]; exact hl, by rw [he]; exact hv, hp.1, hp.2, ?_⟩
      exact field_value_res (pre := []) (cs := [233, 33, 114, 125, 252]) hA rfl hs (by rw [he]; exact hl)
        (by rw [he]; exact hv) hp.1

/-- …and `lexSpans_tiles` / `tiledTab_of_aligned` to the nested field `{w}` of the format spec: spans 6..7, 7..8, 8..9 -/
example : lexSpans (posIn 2 specBody 3 - 1) (40 :: ([119] ++ [41])) = [(6, 7), (7, 8), (8, 9)] := by decide +kernel

end PV.C02
