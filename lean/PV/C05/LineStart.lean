import PV.C05.Global
/-
  C05 — INDENT / DEDENT only at the start of a logical line.
-/
namespace PV.C05
open PV.Lexer

def lsAfter (ls : Bool) (toks : List Tok) : Bool := toks.foldl lineStartStep ls

theorem dents_append {ls : Bool} {a b : List Tok} (ha : DentsAtLineStart ls a)
    (hb : DentsAtLineStart (lsAfter ls a) b) : DentsAtLineStart ls (a ++ b) := by
  induction a generalizing ls with
  | nil => simpa [lsAfter] using hb
  | cons t ts ih => exact ⟨ha.1, ih ha.2 (by simpa [lsAfter] using hb)⟩

theorem lsAfter_append (ls : Bool) (a b : List Tok) : lsAfter ls (a ++ b) = lsAfter (lsAfter ls a) b := by
  simp [lsAfter]

theorem eatIndent_atBol {full : Bool} {l : List Nat} {skip pos s t : Nat} {o : EatOut}
    (h : eatIndent full l skip pos s t = .ok o) (hsk : skip ≤ l.length) :
    o.atBol = true → o.pos = pos + l.length := by
  fun_induction eatIndent full l skip pos s t generalizing o
  case case1 => simp at h; subst h; simp
  case case2 ih => intro hb; have := ih h (by simp at hsk; omega) hb; simp; omega
  case case3 ih => intro hb; have := ih h (by simp) hb; simp; omega
  case case4 => simp at h
  case case5 ih => intro hb; have := ih h (by simp) hb; simp; omega
  case case6 _ _ cs pos m ih =>
    obtain ⟨o', hr, h1, _, _, h4, _⟩ := addTok_ok h
    intro hb; rw [h4] at hb
    have := ih hr (spanLen_le _ _) hb; rw [h1]; simp; omega
  case case7 ih => intro hb; have := ih h (by simp) hb; simp; omega
  case case8 ih =>
    obtain ⟨o', hr, h1, _, _, h4, _⟩ := addTok_ok h
    intro hb; rw [h4] at hb
    have := ih hr (by simp) hb; rw [h1]; simp; omega
  case case9 ih =>
    obtain ⟨o', hr, h1, _, _, h4, _⟩ := addTok_ok h
    intro hb; rw [h4] at hb
    have := ih hr (by simp) hb; rw [h1]; simp; omega
  case case10 ih =>
    obtain ⟨o', hr, h1, _, _, h4, _⟩ := addTok_ok h
    intro hb; rw [h4] at hb
    have := ih hr (by simp) hb; rw [h1]; simp; omega
  case case11 => simp at h; subst h; simp

theorem trivia_list_ls {l : List Tok} (h : ∀ t ∈ l, t.isTrivia = true) (ls : Bool) :
    DentsAtLineStart ls l ∧ lsAfter ls l = ls := by
  induction l with
  | nil => simp [DentsAtLineStart, lsAfter]
  | cons t ts ih =>
    have ht := h t (by simp)
    have I := ih (fun x hx => h x (by simp [hx]))
    have e : lineStartStep ls t = ls := by cases t <;> simp [Tok.isTrivia] at ht <;> rfl
    refine ⟨⟨?_, by rw [e]; exact I.1⟩, by simp only [lsAfter, List.foldl_cons, e]; exact I.2⟩
    intro hd; rcases hd with rfl | rfl <;> simp [Tok.isTrivia] at ht

theorem plain_ls {t : Tok} (h : plain t = true) : t ≠ .indent ∧ t ≠ .dedent ∧ t ≠ .newline := by
  cases t <;> simp [plain] at h <;> simp

theorem dedents_ls (n : Nat) :
    DentsAtLineStart true (List.replicate n Tok.dedent) ∧ lsAfter true (List.replicate n Tok.dedent) = true := by
  induction n with
  | zero => simp [DentsAtLineStart, lsAfter]
  | succ n ih =>
    refine ⟨⟨fun _ => rfl, ?_⟩, ?_⟩
    · simpa [lineStartStep] using ih.1
    · simpa [lsAfter, List.replicate_succ, lineStartStep] using ih.2

/-- tokens of one `consume_normal`; `hne`: if the state says "beginning of line" the input is exhausted -/
theorem cnspec_dents {cfg : Cfg} {st : LexState} {inp : List Nat} {o : StepOut} (h : CNSpec cfg st inp o)
    (ls : Bool) (hinv : st.atBol = true → ls = true ∧ inp = []) :
    DentsAtLineStart ls (o.toks.map (·.tok)) ∧ (o.st.atBol = true → lsAfter ls (o.toks.map (·.tok)) = true) := by
  have nonempty : ∀ n, 1 ≤ n → n ≤ inp.length → st.atBol = false := by
    intro n h1 h2
    cases hb : st.atBol with
    | false => rfl
    | true => have := (hinv hb).2; subst this; simp at h2; omega
  cases h with
  | tok tok n h1 h2 sp pl cm =>
    have P := plain_ls pl
    refine ⟨by simp [one, DentsAtLineStart]; intro hd; rcases hd with rfl | rfl <;> simp at P, ?_⟩
    intro hb; simp [one] at hb; rw [nonempty n h1 h2] at hb; simp at hb
  | openB o h2 sp ho =>
    refine ⟨by simp [one, DentsAtLineStart], ?_⟩
    intro hb; simp [one] at hb; rw [nonempty 1 (by omega) h2] at hb; simp at hb
  | closeB o h2 sp ho hn =>
    refine ⟨by simp [one, DentsAtLineStart], ?_⟩
    intro hb; simp [one] at hb; rw [nonempty 1 (by omega) h2] at hb; simp at hb
  | newline n h2 nl hn => exact ⟨by simp [one, DentsAtLineStart], by simp [one, lsAfter, lineStartStep]⟩
  | nln n h2 nl hn hf =>
    refine ⟨by simp [one, DentsAtLineStart], ?_⟩
    intro hb; simp [one] at hb; rw [nonempty n (by have := isNl_len nl; simp [List.length_take] at this; omega) h2] at hb; simp at hb
  | gap n h1 h2 g =>
    refine ⟨by simp [skip, DentsAtLineStart], ?_⟩
    intro hb; simp [skip] at hb; rw [nonempty n h1 h2] at hb; simp at hb
  | eof hinp hn =>
    have D := dedents_ls
    simp only [List.map_append, List.map_replicate]
    by_cases hb : st.atBol = true
    · have hl := (hinv hb).1; subst hl
      simp only [hb, if_true, List.map_nil, List.nil_append]
      exact ⟨(D _).1, fun _ => (D _).2⟩
    · simp only [hb, if_false, List.map_cons, List.map_nil, List.cons_append, List.nil_append]
      refine ⟨⟨by simp, by simpa [lineStartStep] using (D _).1⟩, fun _ => ?_⟩
      simpa [lsAfter, lineStartStep] using (D _).2

theorem hiExtra_dents {st : LexState} {eo : EatOut} {extra : List RelTok} {stack : List IndentLevel}
    (h : HIExtra st eo extra stack) :
    DentsAtLineStart true (extra.map (·.tok)) ∧ lsAfter true (extra.map (·.tok)) = true := by
  cases h with
  | same => simp [DentsAtLineStart, lsAfter]
  | indent => simp [DentsAtLineStart, lsAfter, lineStartStep]
  | dedent hn n stack hlen =>
    simp only [List.map_replicate]
    exact dedents_ls n

theorem step_dents {cfg : Cfg} (hs : cfg.up.Sane) {st : LexState} {inp : List Nat} {o : StepOut}
    (h : step cfg st inp = .ok o) (ls : Bool) (hinv : st.atBol = true → ls = true) :
    DentsAtLineStart ls (o.toks.map (·.tok)) ∧ (o.st.atBol = true → lsAfter ls (o.toks.map (·.tok)) = true) := by
  rcases step_spec hs h with ⟨hb, hc⟩ | ⟨hb, eo, extra, stack, o2, he, hx, hc, rfl, _⟩
  · exact cnspec_dents hc ls (fun h' => by rw [hb] at h'; simp at h')
  · have hls := hinv hb; subst hls
    have T := trivia_list_ls (l := eo.toks.map (·.tok)) (by
      intro t ht; obtain ⟨tk, htk, rfl⟩ := List.mem_map.mp ht
      have := (eatIndent_toks he (inp := inp) (by simp) tk htk).2
      rcases this with ⟨h1, _⟩ | ⟨c, h1, _⟩ <;> rw [h1] <;> rfl) true
    have X := hiExtra_dents hx
    have A := eatIndent_atBol he (by simp)
    have E := eatIndent_ok he 0 (by omega) (by omega)
    have C := cnspec_dents hc true (by
      intro hb2
      refine ⟨rfl, ?_⟩
      have := A hb2
      apply List.eq_nil_of_length_eq_zero
      simp only [List.length_drop]; omega)
    have e : (List.map (fun x => x.tok) (eo.toks ++ extra ++ List.map (fun x => x.shift eo.pos) o2.toks))
        = eo.toks.map (·.tok) ++ (extra.map (·.tok) ++ o2.toks.map (·.tok)) := by
      simp [RelTok.shift, Function.comp_def]
    simp only [e]
    refine ⟨dents_append T.1 (by rw [T.2]; exact dents_append X.1 (by rw [X.2]; exact C.1)), ?_⟩
    intro hb3
    rw [lsAfter_append, T.2, lsAfter_append, X.2]
    exact C.2 hb3

theorem lexAll_dents {cfg : Cfg} (hs : cfg.up.Sane) (fuel : Nat) (st : LexState) (inp : List Nat) (cb bb : Nat)
    (hi : StInv st) (ls : Bool) (hinv : st.atBol = true → ls = true) :
    DentsAtLineStart ls ((lexAll cfg fuel st inp cb bb).toks.map (·.tok)) := by
  induction fuel generalizing st inp cb bb ls with
  | zero => simp [lexAll, DentsAtLineStart]
  | succ fuel ih =>
    unfold lexAll
    cases hstep : step cfg st inp with
    | error e => simp [DentsAtLineStart]
    | ok o =>
      simp only []
      have S := step_ok hs hi hstep
      have N := step_dents hs hstep ls hinv
      have e : (o.toks.map (absTok inp cb bb)).map (·.tok) = o.toks.map (·.tok) := by
        simp [absTok, Function.comp_def]
      by_cases hd : o.done = true
      · simp only [hd, if_true, e]; exact N.1
      · have hd' : o.done = false := by simpa using hd
        simp only [hd', Bool.false_eq_true, if_false, List.map_append, e]
        exact dents_append N.1 (ih o.st _ _ _ S.2.2.2.1 _ N.2)

theorem softKwGo_dents (ts : List Spanned) (st : SoftSt) (ls : Bool) :
    DentsAtLineStart ls ((softKwGo ts st).map (·.tok)) ↔ DentsAtLineStart ls (ts.map (·.tok)) := by
  induction ts generalizing st ls with
  | nil => simp [softKwGo]
  | cons a ts ih =>
    simp only [softKwGo, List.map_cons, DentsAtLineStart]
    rcases softTok_cases st.sol st.sos a ts with h | ⟨k, hk, h⟩
    · rw [h, ih]
    · rw [h, hk, ih]; simp [lineStartStep]

theorem lexRaw_dents {cfg : Cfg} (hs : cfg.up.Sane) {k : Nat} {src : List Nat} {out : LexOut}
    (h : lexRaw cfg k src = some out) : DentsAtLineStart true (out.toks.map (·.tok)) := by
  unfold lexRaw lexRawFuel at h
  simp only [] at h
  split at h
  · have h := finish_some h; subst h
    exact lexAll_dents hs _ _ _ _ _ stInv_init true (fun _ => rfl)
  · have h := finish_some h; subst h
    exact lexAll_dents hs _ _ _ _ _ stInv_init true (fun _ => rfl)

end PV.C05
