import PV.C05.Global
/-
  C05 — gaps of the DEFAULT lexer (comments and line breaks of blank lines / inside brackets are not
  tokens there): what lies between tokens is accepted by the gap scanner `gapPlain` (Spec.lean).
-/
namespace PV.C05
open PV.Lexer

theorem GP_nil : GP [] := fun s => by cases s <;> rfl

theorem lf_tail {r b tl : List Nat} (hne : ∀ xs, r = 10 :: xs → False) (hb : GP b) (h : r ++ b = 10 :: tl) :
    gapPlain false tl = true := by
  cases r with
  | nil =>
    simp at h; subst h
    have := hb false
    simpa [gapPlain] using this
  | cons y ys => simp at h; exact (hne ys (by rw [h.1])).elim

theorem gapPlain_append {s : Bool} {a b : List Nat} (ha : gapPlain s a = true) (hb : GP b) :
    gapPlain s (a ++ b) = true := by
  fun_induction gapPlain s a
  case case1 => simpa using hb _
  case case2 ih => simpa [gapPlain] using ih ha
  case case3 r hne ih =>
    have I := ih ha
    show gapPlain true (13 :: (r ++ b)) = true
    cases hrb : r ++ b with
    | nil => simp [gapPlain]
    | cons x xs =>
      rw [hrb] at I
      by_cases hx : x = 10
      · subst hx; simpa [gapPlain] using lf_tail hne hb hrb
      · rw [gapPlain]
        · exact I
        · intro r' hr; simp at hr; exact hx hr.1
  case case4 ih => simpa [gapPlain] using ih ha
  case case5 c r h1 h2 h3 ih =>
    have I := ih ha
    show gapPlain true (c :: (r ++ b)) = true
    rw [gapPlain]
    all_goals first
      | exact I
      | (intro hc; exact h2 hc)
      | (intro hc; exact h3 hc)
      | (intro _ hc _; exact h2 hc)
  case case6 ih => simpa [gapPlain] using ih ha
  case case7 ih => simpa [gapPlain] using ih ha
  case case8 ih => simpa [gapPlain] using ih ha
  case case9 ih => simpa [gapPlain] using ih ha
  case case10 ih => simpa [gapPlain] using ih ha
  case case11 r hne ih =>
    have I := ih ha
    show gapPlain false (92 :: 13 :: (r ++ b)) = true
    cases hrb : r ++ b with
    | nil => simp [gapPlain]
    | cons x xs =>
      rw [hrb] at I
      by_cases hx : x = 10
      · subst hx; simpa [gapPlain] using lf_tail hne hb hrb
      · rw [gapPlain]
        · exact I
        · intro r' hr; simp at hr; exact hx hr.1
  case case12 ih => simpa [gapPlain] using ih ha
  case case13 ih => simpa [gapPlain] using ih ha
  case case14 r hne ih =>
    have I := ih ha
    show gapPlain false (13 :: (r ++ b)) = true
    cases hrb : r ++ b with
    | nil => simp [gapPlain]
    | cons x xs =>
      rw [hrb] at I
      by_cases hx : x = 10
      · subst hx; simpa [gapPlain] using lf_tail hne hb hrb
      · rw [gapPlain]
        · exact I
        · intro r' hr; simp at hr; exact hx hr.1
  case case15 ih => simpa [gapPlain] using ih ha
  case case16 => simp at ha

theorem GP_append {a b : List Nat} (ha : GP a) (hb : GP b) : GP (a ++ b) :=
  fun s => gapPlain_append (ha s) hb

theorem allBlank_GP {t : List Nat} (h : AllBlank t) : GP t := by
  induction t with
  | nil => exact GP_nil
  | cons c cs ih =>
    have hc := h c (by simp)
    have I := ih (fun x hx => h x (by simp [hx]))
    simp [isBlank] at hc
    intro s
    rcases hc with (rfl | rfl) | rfl <;> cases s <;> simp [gapPlain, I _]

/-- the text of a comment (no line break inside) is swallowed from either scanner state -/
theorem noNl_inComment {t : List Nat} (h : ∀ x ∈ t, x ≠ 10 ∧ x ≠ 13) : gapPlain true t = true := by
  induction t with
  | nil => rfl
  | cons c cs ih =>
    have hc := h c (by simp)
    have I := ih (fun x hx => h x (by simp [hx]))
    rw [gapPlain]
    all_goals first
      | exact I
      | (intro h13; exact hc.2 h13)
      | (intro h10; exact hc.1 h10)
      | (intro _ h13 _; exact hc.2 h13)

theorem comment_GP {t : List Nat} (hhd : t.head? = some 35) (h : ∀ x ∈ t, x ≠ 10 ∧ x ≠ 13) : GP t := by
  intro s
  cases s with
  | true => exact noNl_inComment h
  | false =>
    cases t with
    | nil => simp at hhd
    | cons c cs =>
      simp at hhd; subst hhd
      simp only [gapPlain]
      exact noNl_inComment (fun x hx => h x (by simp [hx]))

theorem nl_GP {t : List Nat} (h : IsNl t) : GP t := by
  intro s
  rcases h with rfl | rfl | rfl <;> cases s <;> simp [gapPlain]

theorem join_GP {nl : List Nat} (h : IsNl nl) : GP (92 :: nl) := by
  intro s
  rcases h with rfl | rfl | rfl <;> cases s <;> simp [gapPlain]

theorem take_add_cons {c : Nat} {cs : List Nat} {k : Nat} : (c :: cs).take (k + 1) = [c] ++ cs.take k := by simp

/-- `eat_indentation` of the DEFAULT lexer: the text it consumes in front of the indentation run
    (blanks, comments, line breaks of blank lines) is gap text -/
theorem eatIndent_gapPlain {l : List Nat} {skip pos s t : Nat} {o : EatOut}
    (h : eatIndent false l skip pos s t = .ok o) (hsk : skip ≤ l.length) :
    GP ((l.drop skip).take ((o.pos - (o.spaces + o.tabs)) - (pos + skip))) := by
  fun_induction eatIndent false l skip pos s t generalizing o
  case case1 => simp at h; subst h; simpa using GP_nil
  case case2 c cs k pos s t ih =>
    have := ih h (by simp at hsk; omega)
    have e : pos + (k + 1) = pos + 1 + k := by omega
    simpa [e] using this
  case case3 cs pos s t ih =>
    have R := ih h (by simp)
    simp only [List.drop_zero, Nat.add_zero] at R ⊢
    by_cases hH : o.pos - (o.spaces + o.tabs) ≤ pos
    · have : o.pos - (o.spaces + o.tabs) - pos = 0 := by omega
      rw [this]; simpa using GP_nil
    · have e : o.pos - (o.spaces + o.tabs) - pos = (o.pos - (o.spaces + o.tabs) - (pos + 1)) + 1 := by omega
      rw [e, take_add_cons]
      exact GP_append (allBlank_GP (by intro x hx; simp at hx; subst hx; rfl)) R
  case case4 => simp at h
  case case5 cs pos s t _ ih =>
    have R := ih h (by simp)
    simp only [List.drop_zero, Nat.add_zero] at R ⊢
    by_cases hH : o.pos - (o.spaces + o.tabs) ≤ pos
    · have : o.pos - (o.spaces + o.tabs) - pos = 0 := by omega
      rw [this]; simpa using GP_nil
    · have e : o.pos - (o.spaces + o.tabs) - pos = (o.pos - (o.spaces + o.tabs) - (pos + 1)) + 1 := by omega
      rw [e, take_add_cons]
      exact GP_append (allBlank_GP (by intro x hx; simp at hx; subst hx; rfl)) R
  case case6 _ _ cs pos m ih =>
    obtain ⟨o', hr, h1, h2, h3, h4, h5⟩ := addTok_ok h
    have hm : m ≤ cs.length := spanLen_le _ _
    have R := ih hr hm
    have E := eatIndent_ok hr (pos + 1 + m) (by omega) hm
    rw [h1, h2, h3]
    simp only [List.drop_zero, Nat.add_zero]
    have e : o'.pos - (o'.spaces + o'.tabs) - pos = (1 + m) + (o'.pos - (o'.spaces + o'.tabs) - (pos + 1 + m)) := by omega
    rw [e, List.take_add]
    refine GP_append ?_ ?_
    · have : List.take (1 + m) (35 :: cs) = 35 :: cs.take m := by rw [Nat.add_comm]; simp
      rw [this]
      refine comment_GP (by simp) ?_
      intro x hx
      rcases List.mem_cons.mp hx with rfl | hx
      · simp
      · have := spanLen_take_all (fun c => !isLineBreak c) cs x hx
        simpa [isLineBreak] using this
    · have : List.drop (1 + m) (35 :: cs) = cs.drop m := by rw [Nat.add_comm]; simp
      rw [this]; exact R
  case case7 _ _ cs pos ih =>
    have R := ih h (by simp)
    have E := eatIndent_ok h (pos + 1) (by omega) (by simp)
    simp only [List.drop_zero, Nat.add_zero] at R ⊢
    have e : o.pos - (o.spaces + o.tabs) - pos = (o.pos - (o.spaces + o.tabs) - (pos + 1)) + 1 := by omega
    rw [e, take_add_cons]
    exact GP_append (allBlank_GP (by intro x hx; simp at hx; subst hx; rfl)) R
  case case8 _ _ cs pos ih =>
    obtain ⟨o', hr, h1, h2, h3, h4, h5⟩ := addTok_ok h
    have R := ih hr (by simp)
    have E := eatIndent_ok hr (pos + 2) (by omega) (by simp)
    rw [h1, h2, h3]
    simp only [List.drop_zero, Nat.add_zero] at R ⊢
    have e : o'.pos - (o'.spaces + o'.tabs) - pos = 2 + (o'.pos - (o'.spaces + o'.tabs) - (pos + 2)) := by omega
    rw [e, List.take_add]
    exact GP_append (by simpa using nl_GP (Or.inr (Or.inr rfl))) (by simpa using R)
  case case9 _ _ cs pos _ ih =>
    obtain ⟨o', hr, h1, h2, h3, h4, h5⟩ := addTok_ok h
    have R := ih hr (by simp)
    have E := eatIndent_ok hr (pos + 1) (by omega) (by simp)
    rw [h1, h2, h3]
    simp only [List.drop_zero, Nat.add_zero] at R ⊢
    have e : o'.pos - (o'.spaces + o'.tabs) - pos = 1 + (o'.pos - (o'.spaces + o'.tabs) - (pos + 1)) := by omega
    rw [e, List.take_add]
    exact GP_append (by simpa using nl_GP (Or.inr (Or.inl rfl))) (by simpa using R)
  case case10 _ _ cs pos ih =>
    obtain ⟨o', hr, h1, h2, h3, h4, h5⟩ := addTok_ok h
    have R := ih hr (by simp)
    have E := eatIndent_ok hr (pos + 1) (by omega) (by simp)
    rw [h1, h2, h3]
    simp only [List.drop_zero, Nat.add_zero] at R ⊢
    have e : o'.pos - (o'.spaces + o'.tabs) - pos = 1 + (o'.pos - (o'.spaces + o'.tabs) - (pos + 1)) := by omega
    rw [e, List.take_add]
    exact GP_append (by simpa using nl_GP (Or.inl rfl)) (by simpa using R)
  case case11 => simp at h; subst h; simp; exact GP_nil

theorem STiles.pointG {G : List Nat → Prop} (hG : G []) (l : List Nat) (b n : Nat) :
    STiles G l b b (List.replicate n (b, b)) := by
  induction n generalizing l with
  | zero => exact ⟨Nat.le_refl _, by simpa using hG⟩
  | succ n ih => exact ⟨Nat.le_refl _, Nat.le_refl _, by simpa using hG, by simpa using ih _⟩

theorem STiles.singleG {G : List Nat → Prop} (hG : G []) (l : List Nat) (b n : Nat) :
    STiles G l b (b + n) [(b, b + n)] :=
  ⟨Nat.le_refl _, by omega, by simpa using hG, Nat.le_refl _, by simpa using hG⟩

theorem cnspec_tiles_plain {cfg : Cfg} (hf : cfg.fullLexer = false) {st : LexState} {inp : List Nat} {o : StepOut}
    (h : CNSpec cfg st inp o) : STiles GP inp 0 o.consumed (o.toks.map rspan) := by
  cases h with
  | tok tok n h1 h2 sp pl cm => simpa [one, rspan] using STiles.singleG GP_nil inp 0 n
  | openB o h2 sp ho => simpa [one, rspan] using STiles.singleG GP_nil inp 0 1
  | closeB o h2 sp ho hn => simpa [one, rspan] using STiles.singleG GP_nil inp 0 1
  | newline n h2 nl hn => simpa [one, rspan] using STiles.singleG GP_nil inp 0 n
  | nln n h2 nl hn hf' => rw [hf] at hf'; simp at hf'
  | gap n h1 h2 g =>
    refine ⟨Nat.zero_le _, ?_⟩
    simp only [skip, Nat.sub_zero]
    generalize inp.take n = txt at g
    cases g with
    | blank _ hne hall => exact allBlank_GP hall
    | join nl hnl => exact join_GP hnl
    | comment _ hf' hhd hall hnext => exact comment_GP hhd hall
    | nl _ hf' hn hnl => exact nl_GP hnl
  | eof hinp hn =>
    have : (List.map rspan ((if st.atBol = true then [] else [(⟨Tok.newline, 0, 0⟩ : RelTok)]) ++
        List.replicate (flushIndents st.indents).1 ⟨Tok.dedent, 0, 0⟩)) =
        List.replicate ((if st.atBol = true then 0 else 1) + (flushIndents st.indents).1) (0, 0) := by
      split <;> simp [rspan]
      rw [Nat.add_comm]; simp [List.replicate_succ]
    rw [this]
    exact STiles.pointG GP_nil inp 0 _

theorem step_tiles_plain {cfg : Cfg} (hs : cfg.up.Sane) (hf : cfg.fullLexer = false) {st : LexState}
    {inp : List Nat} {o : StepOut} (h : step cfg st inp = .ok o) :
    STiles GP inp 0 o.consumed (o.toks.map rspan) := by
  rcases step_spec hs h with ⟨_, hc⟩ | ⟨hb, eo, extra, stack, o2, he, hx, hc, rfl, _⟩
  · exact cnspec_tiles_plain hf hc
  · rw [hf] at he
    have T0 := eatIndent_plain he
    have P := eatIndent_gapPlain he (by simp)
    simp only [List.drop_zero, Nat.add_zero, Nat.sub_zero] at P
    have E := eatIndent_ok he 0 (by omega) (by omega)
    have R := eatIndent_run he (inp := inp) (by simp) (by omega) (by omega) (by intro i h1 h2; omega)
    -- the indentation run itself is blank
    have run : GP ((inp.drop (eo.pos - (eo.spaces + eo.tabs))).take (eo.spaces + eo.tabs)) := by
      apply allBlank_GP
      intro x hx
      obtain ⟨i, h1, h2, h3⟩ := mem_take_drop hx
      have := R.2 i (by omega) (by omega)
      rw [h3] at this
      rcases this with h | h <;> (simp at h; subst h; rfl)
    have whole : GP (inp.take eo.pos) := by
      have e : eo.pos = (eo.pos - (eo.spaces + eo.tabs)) + (eo.spaces + eo.tabs) := by have := R.1; omega
      rw [e, List.take_add]
      exact GP_append P (by simpa using run)
    have C2 := (cnspec_tiles_plain hf hc).shift eo.pos
    simp only [Nat.zero_add] at C2
    have e : (List.map rspan (eo.toks ++ extra ++ List.map (fun x => x.shift eo.pos) o2.toks))
        = (extra.map rspan) ++ (o2.toks.map rspan).map (fun p => (p.1 + eo.pos, p.2 + eo.pos)) := by
      simp [T0, rspan, RelTok.shift, Function.comp_def]
    rw [e, Nat.add_comm eo.pos]
    refine STiles.append (fun a b => GP_append) ?_ (by simpa using C2)
    cases hx with
    | same => exact ⟨Nat.zero_le _, by simpa using whole⟩
    | indent hn hpos hle =>
      have e3 : eo.pos - eo.spaces - eo.tabs = eo.pos - (eo.spaces + eo.tabs) := by omega
      refine ⟨Nat.zero_le _, by simp [rspan]; omega, by simpa [rspan, e3] using P, ?_⟩
      exact ⟨Nat.le_refl _, by simpa [rspan] using GP_nil⟩
    | dedent hn n stack hlen =>
      have S0 : STiles GP inp 0 eo.pos [] := ⟨Nat.zero_le _, by simpa using whole⟩
      have := STiles.append (fun a b => GP_append) S0 (STiles.pointG GP_nil (inp.drop (eo.pos - 0)) eo.pos n)
      simpa [rspan] using this

theorem lexAll_tilesG {cfg : Cfg} (hs : cfg.up.Sane) {G : List Nat → Prop}
    (hGa : ∀ a b, G a → G b → G (a ++ b))
    (hstep : ∀ st inp o, step cfg st inp = .ok o → STiles G inp 0 o.consumed (o.toks.map rspan))
    (fuel : Nat) (st : LexState) (inp : List Nat) (cb bb : Nat) (hi : StInv st)
    (hfin : (lexAll cfg fuel st inp cb bb).fin = .eof) :
    STiles G inp cb (cb + inp.length) ((lexAll cfg fuel st inp cb bb).toks.map cspan) := by
  induction fuel generalizing st inp cb bb with
  | zero => simp [lexAll] at hfin
  | succ fuel ih =>
    unfold lexAll at hfin ⊢
    cases hstep' : step cfg st inp with
    | error e => rw [hstep'] at hfin; simp at hfin
    | ok o =>
      rw [hstep'] at hfin
      simp only [] at hfin ⊢
      have S := step_ok hs hi hstep'
      have T := (hstep _ _ _ hstep').shift cb
      have e : (o.toks.map (absTok inp cb bb)).map cspan = (o.toks.map rspan).map (fun p => (p.1 + cb, p.2 + cb)) := by
        simp [absTok, cspan, rspan, Function.comp_def, Nat.add_comm]
      by_cases hd : o.done = true
      · simp only [hd, if_true, e]
        have := S.2.2.1 hd
        simpa [this, Nat.add_comm] using T
      · have hd' : o.done = false := by simpa using hd
        simp only [hd', Bool.false_eq_true, if_false, List.map_append, e] at hfin ⊢
        have R := ih o.st (inp.drop o.consumed) (cb + o.consumed) (bb + utf8Len (inp.take o.consumed)) S.2.2.2.1 hfin
        simp only [List.length_drop] at R
        have e2 : cb + o.consumed + (inp.length - o.consumed) = cb + inp.length := by omega
        rw [e2] at R
        refine STiles.append hGa (mid := cb + o.consumed) (by simpa [Nat.add_comm] using T) ?_
        have e3 : cb + o.consumed - cb = o.consumed := by omega
        rw [e3]; exact R

/-- gaps of the default lexer, for `lexRaw` -/
theorem lexRaw_tiles_plain {cfg : Cfg} (hs : cfg.up.Sane) (hf : cfg.fullLexer = false) {k : Nat} {src : List Nat}
    {out : LexOut} (h : lexRaw cfg k src = some out) (hfin : out.fin = .eof) : Tiles GP src out.toks := by
  unfold lexRaw lexRawFuel at h
  simp only [] at h
  split at h
  · rename_i rest
    have h := finish_some h
    subst h
    have := lexAll_tilesG hs (fun a b => GP_append) (fun _ _ _ h => step_tiles_plain hs hf h) _ _ _ _ _ stInv_init hfin
    simpa [Tiles, srcBody, bomLen, Nat.add_comm] using this
  · rename_i hne
    have h := finish_some h
    subst h
    have hb : srcBody src = src ∧ bomLen src = 0 := by
      unfold srcBody bomLen
      split
      · rename_i rest; exact absurd rfl (hne rest)
      · simp
    have := lexAll_tilesG hs (fun a b => GP_append) (fun _ _ _ h => step_tiles_plain hs hf h) _ _ _ _ _ stInv_init hfin
    simpa [Tiles, hb.1, hb.2] using this

end PV.C05
