import PV.Gen.C05Tables
import PV.C05.Spec
/-
  C05 — the behaviourally extracted spelling table (`PV/Gen/C05Tables.lean`, regenerated on every
  run by lexing every candidate lexeme with the real lexer) equals the reference spelling.
-/
namespace PV.C05
open PV.Lexer

/-- every row of the extracted table is the reference spelling of its token, and every operator /
    keyword token has a row: the real lexer turns exactly CPython's spellings into these tokens
    (among all candidate lexemes that were tried) -/
theorem spelling_table_eq :
    (PV.Gen.C05.opTable.all (fun r => opText r.1 == r.2) && Op.all.all (fun o => PV.Gen.C05.opTable.any (fun r => r.1 == o))) = true ∧
    (PV.Gen.C05.kwTable.all (fun r => kwText r.1 == r.2) && Kw.all.all (fun k => PV.Gen.C05.kwTable.any (fun r => r.1 == k))) = true := by
  decide

end PV.C05
