import PV.Lexer.SoftKw
import PV.Common.Proto
/-
  C05 — reference definitions ("what the property text says"), independent of the lexer's control flow.

  A token stream is a list of `Spanned` tokens: absolute character span `cs..ce` (indices into the
  source as a list of scalar values) and absolute byte span `bs..be` (start offset included).
-/
namespace PV.C05
open PV.Lexer

/-! ## ranges -/

/-- tokens are in order, non-overlapping, each with `cs ≤ ce`, all within `[lo, hi]` -/
def ChainS (lo hi : Nat) : List Spanned → Prop
  | [] => lo ≤ hi
  | t :: ts => lo ≤ t.cs ∧ t.cs ≤ t.ce ∧ ChainS t.ce hi ts

/-- byte offset of the character boundary in front of character `i` of `src`, for start offset `k` -/
def bytePos (k : Nat) (src : List Nat) (i : Nat) : Nat := k + utf8Len (src.take i)

/-- `b` (relative to the start offset) is a character boundary of the UTF-8 encoding of `src` -/
def OnBoundary (src : List Nat) (b : Nat) : Prop :=
  ∃ i, i ≤ src.length ∧ b = (PV.utf8Encode (src.take i)).length

/-! ## spelling: what text a token stands for

  Operator and keyword spellings are CPython's (`token.EXACT_TOKEN_TYPES`, `keyword.kwlist` plus the soft
  keywords `match`, `case`, `type`), written out as code points. -/

/-- CPython's spelling of each operator / delimiter token -/
def opText : Op → List Nat
  | .Lpar => [40]   -- (
  | .Rpar => [41]   -- )
  | .Lsqb => [91]   -- [
  | .Rsqb => [93]   -- ]
  | .Colon => [58]   -- :
  | .Comma => [44]   -- ,
  | .Semi => [59]   -- ;
  | .Plus => [43]   -- +
  | .Minus => [45]   -- -
  | .Star => [42]   -- *
  | .Slash => [47]   -- /
  | .Vbar => [124]   -- |
  | .Amper => [38]   -- &
  | .Less => [60]   -- <
  | .Greater => [62]   -- >
  | .Equal => [61]   -- =
  | .Dot => [46]   -- .
  | .Percent => [37]   -- %
  | .Lbrace => [123]   -- {
  | .Rbrace => [125]   -- }
  | .EqEqual => [61, 61]   -- ==
  | .NotEqual => [33, 61]   -- !=
  | .LessEqual => [60, 61]   -- <=
  | .GreaterEqual => [62, 61]   -- >=
  | .Tilde => [126]   -- ~
  | .CircumFlex => [94]   -- ^
  | .LeftShift => [60, 60]   -- <<
  | .RightShift => [62, 62]   -- >>
  | .DoubleStar => [42, 42]   -- **
  | .DoubleStarEqual => [42, 42, 61]   -- **=
  | .PlusEqual => [43, 61]   -- +=
  | .MinusEqual => [45, 61]   -- -=
  | .StarEqual => [42, 61]   -- *=
  | .SlashEqual => [47, 61]   -- /=
  | .PercentEqual => [37, 61]   -- %=
  | .AmperEqual => [38, 61]   -- &=
  | .VbarEqual => [124, 61]   -- |=
  | .CircumflexEqual => [94, 61]   -- ^=
  | .LeftShiftEqual => [60, 60, 61]   -- <<=
  | .RightShiftEqual => [62, 62, 61]   -- >>=
  | .DoubleSlash => [47, 47]   -- //
  | .DoubleSlashEqual => [47, 47, 61]   -- //=
  | .ColonEqual => [58, 61]   -- :=
  | .At => [64]   -- @
  | .AtEqual => [64, 61]   -- @=
  | .Rarrow => [45, 62]   -- ->
  | .Ellipsis => [46, 46, 46]   -- ...

/-- Python's spelling of each keyword -/
def kwText : Kw → List Nat
  | .False => [70, 97, 108, 115, 101]   -- False
  | .None => [78, 111, 110, 101]   -- None
  | .True => [84, 114, 117, 101]   -- True
  | .And => [97, 110, 100]   -- and
  | .As => [97, 115]   -- as
  | .Assert => [97, 115, 115, 101, 114, 116]   -- assert
  | .Async => [97, 115, 121, 110, 99]   -- async
  | .Await => [97, 119, 97, 105, 116]   -- await
  | .Break => [98, 114, 101, 97, 107]   -- break
  | .Class => [99, 108, 97, 115, 115]   -- class
  | .Continue => [99, 111, 110, 116, 105, 110, 117, 101]   -- continue
  | .Def => [100, 101, 102]   -- def
  | .Del => [100, 101, 108]   -- del
  | .Elif => [101, 108, 105, 102]   -- elif
  | .Else => [101, 108, 115, 101]   -- else
  | .Except => [101, 120, 99, 101, 112, 116]   -- except
  | .Finally => [102, 105, 110, 97, 108, 108, 121]   -- finally
  | .For => [102, 111, 114]   -- for
  | .From => [102, 114, 111, 109]   -- from
  | .Global => [103, 108, 111, 98, 97, 108]   -- global
  | .If => [105, 102]   -- if
  | .Import => [105, 109, 112, 111, 114, 116]   -- import
  | .In => [105, 110]   -- in
  | .Is => [105, 115]   -- is
  | .Lambda => [108, 97, 109, 98, 100, 97]   -- lambda
  | .Nonlocal => [110, 111, 110, 108, 111, 99, 97, 108]   -- nonlocal
  | .Not => [110, 111, 116]   -- not
  | .Or => [111, 114]   -- or
  | .Pass => [112, 97, 115, 115]   -- pass
  | .Raise => [114, 97, 105, 115, 101]   -- raise
  | .Return => [114, 101, 116, 117, 114, 110]   -- return
  | .Try => [116, 114, 121]   -- try
  | .While => [119, 104, 105, 108, 101]   -- while
  | .Match => [109, 97, 116, 99, 104]   -- match
  | .Type_ => [116, 121, 112, 101]   -- type
  | .Case => [99, 97, 115, 101]   -- case
  | .With => [119, 105, 116, 104]   -- with
  | .Yield => [121, 105, 101, 108, 100]   -- yield

/-- a line break lexeme: LF, CR or CRLF -/
def IsNl (t : List Nat) : Prop := t = [10] ∨ t = [13] ∨ t = [13, 10]

/-- line-break normalisation of a string body: CRLF and CR become LF -/
def foldNl : List Nat → List Nat
  | [] => []
  | 13 :: 10 :: r => 10 :: foldNl r
  | 13 :: r => 10 :: foldNl r
  | c :: r => c :: foldNl r

def lower (c : Nat) : Nat := if 65 ≤ c ∧ c ≤ 90 then c + 32 else c

/-- the string kind a literal prefix stands for (any case, any order) -/
def prefixKind (pre : List Nat) : Option StringKind :=
  match pre.map lower with
  | [] => some .string
  | [114] => some .rawString
  | [102] => some .fstring
  | [117] => some .unicode
  | [98] => some .bytes
  | [114, 102] | [102, 114] => some .rawFString
  | [114, 98] | [98, 114] => some .rawBytes
  | _ => none

/-- value of one digit character in base ≤ 16 -/
def digitValue (c : Nat) : Option Nat :=
  if 48 ≤ c ∧ c ≤ 57 then some (c - 48)
  else if 97 ≤ c ∧ c ≤ 102 then some (c - 87)
  else if 65 ≤ c ∧ c ≤ 70 then some (c - 55)
  else none

/-- value of a non-empty digit string in the given base -/
def digitsValue (radix : Nat) : List Nat → Option Nat
  | [] => none
  | ds => ds.foldl (fun acc d => match acc, digitValue d with
      | some a, some v => if v < radix then some (a * radix + v) else none
      | _, _ => none) (some 0)

/-- value of a Python integer literal (`int(text.replace("_", ""), 0)` for the forms the grammar allows) -/
def intValue (t : List Nat) : Option Nat :=
  match t.filter (· ≠ 95) with
  | 48 :: x :: ds =>
    if x = 120 ∨ x = 88 then digitsValue 16 ds
    else if x = 111 ∨ x = 79 then digitsValue 8 ds
    else if x = 98 ∨ x = 66 then digitsValue 2 ds
    else digitsValue 10 (48 :: x :: ds)
  | u => digitsValue 10 u

/-- the numeral of a float literal with the grouping underscores removed and the exponent marker in
    lower case; its value is the correctly rounded double of this decimal numeral -/
def cleanFloat (t : List Nat) : List Nat := (t.filter (· ≠ 95)).map (fun c => if c = 69 then 101 else c)

/-- the text `text` spells the token `tok` -/
def Spells (tok : Tok) (text : List Nat) : Prop :=
  match tok with
  | .name n => text = n
  | .kw k => text = kwText k
  | .op o => text = opText o
  | .int v => intValue text = some v
  | .float f => cleanFloat text = f
  | .complex f => ∃ body j, text = body ++ [j] ∧ (j = 106 ∨ j = 74) ∧ cleanFloat body = f
  | .string v kind triple =>
    ∃ pre q body, (q = 34 ∨ q = 39) ∧ prefixKind pre = some kind ∧
      text = pre ++ (if triple then [q, q, q] else [q]) ++ body ++ (if triple then [q, q, q] else [q]) ∧
      v = foldNl body
  | .comment c => text = c ∧ c.head? = some 35 ∧ ∀ x ∈ c, x ≠ 10 ∧ x ≠ 13
  | .newline => IsNl text ∨ text = []
  | .nonLogicalNewline => IsNl text
  | .indent => text ≠ [] ∧ ∀ x ∈ text, x = 32 ∨ x = 9
  | .dedent => text = []
  | .endOfFile | .startModule | .startInteractive | .startExpression => False

/-- tokens that neither open/close a bracket nor are layout tokens -/
def plain : Tok → Bool
  | .name _ | .int _ | .float _ | .complex _ | .string .. | .comment _ | .kw _ => true
  | .op .Lpar | .op .Lsqb | .op .Lbrace | .op .Rpar | .op .Rsqb | .op .Rbrace => false
  | .op _ => true
  | _ => false

/-! ## gaps -/

/-- what may stand between two tokens of the FULL lexer (comments and non-logical newlines are
    tokens there): blanks (space, tab, form feed) and backslash-newline joins -/
def gapFull : List Nat → Bool
  | [] => true
  | 32 :: r => gapFull r
  | 9 :: r => gapFull r
  | 12 :: r => gapFull r
  | 92 :: 13 :: 10 :: r => gapFull r
  | 92 :: 13 :: r => gapFull r
  | 92 :: 10 :: r => gapFull r
  | _ => false

/-- what may stand between two tokens of the default lexer: blanks, joins, comments (from `#` to
    the end of the line) and line breaks.  `inComment` is the scanner state. -/
def gapPlain : (inComment : Bool) → List Nat → Bool
  | _, [] => true
  | true, 13 :: 10 :: r => gapPlain false r
  | true, 13 :: r => gapPlain false r
  | true, 10 :: r => gapPlain false r
  | true, _ :: r => gapPlain true r
  | false, 32 :: r => gapPlain false r
  | false, 9 :: r => gapPlain false r
  | false, 12 :: r => gapPlain false r
  | false, 35 :: r => gapPlain true r
  | false, 92 :: 13 :: 10 :: r => gapPlain false r
  | false, 92 :: 13 :: r => gapPlain false r
  | false, 92 :: 10 :: r => gapPlain false r
  | false, 13 :: 10 :: r => gapPlain false r
  | false, 13 :: r => gapPlain false r
  | false, 10 :: r => gapPlain false r
  | false, _ => false

/-- `spans` (pairs start/end, ascending) tile the list `l`, whose head has index `base`, up to index
    `hi`: every gap in front of a span, and the rest up to `hi`, satisfies `G` -/
def STiles (G : List Nat → Prop) : List Nat → Nat → Nat → List (Nat × Nat) → Prop
  | l, base, hi, [] => base ≤ hi ∧ G (l.take (hi - base))
  | l, base, hi, t :: ts =>
    base ≤ t.1 ∧ t.1 ≤ t.2 ∧ G (l.take (t.1 - base)) ∧ STiles G (l.drop (t.2 - base)) t.2 hi ts

/-- character span of a token -/
def cspan (t : Spanned) : Nat × Nat := (t.cs, t.ce)

/-- the source without its byte-order mark, and the number of characters the mark takes -/
def srcBody : List Nat → List Nat
  | 0xFEFF :: rest => rest
  | src => src

def bomLen : List Nat → Nat
  | 0xFEFF :: _ => 1
  | _ => 0

/-- the text under a token of the stream -/
def tokText (src : List Nat) (t : Spanned) : List Nat := (src.drop t.cs).take (t.ce - t.cs)

/-- gap predicate of the full lexer, as a `Prop` -/
def GF (t : List Nat) : Prop := gapFull t = true

/-- gap predicate of the default lexer: accepted by the gap scanner from either scanner state
    (a gap may begin while the scanner is still inside a comment that a previous gap opened — it
    never does in a real stream, where a comment is followed by a line break — so acceptance from both
    states is the composable form) -/
def GP (t : List Nat) : Prop := ∀ s, gapPlain s t = true

/-- the tokens tile the source (behind a byte-order mark, if any): the text in front of the first
    token, between consecutive tokens, and after the last token satisfies `G` -/
def Tiles (G : List Nat → Prop) (src : List Nat) (toks : List Spanned) : Prop :=
  STiles G (srcBody src) (bomLen src) src.length (toks.map cspan)

/-! ## brackets, NEWLINE, INDENT / DEDENT -/

/-- bracket depth after a token -/
def depthStep (d : Nat) : Tok → Nat
  | .op .Lpar | .op .Lsqb | .op .Lbrace => d + 1
  | .op .Rpar | .op .Rsqb | .op .Rbrace => d - 1
  | _ => d

/-- every `Newline` token stands at bracket depth 0 (depth counted from the tokens before it) -/
def NewlinesAtDepth0 : Nat → List Tok → Prop
  | _, [] => True
  | d, t :: ts => (t = .newline → d = 0) ∧ NewlinesAtDepth0 (depthStep d t) ts

/-- running INDENT − DEDENT balance never goes negative; returns the final balance -/
def indentBalance : Nat → List Tok → Option Nat
  | b, [] => some b
  | b, .indent :: ts => indentBalance (b + 1) ts
  | b, .dedent :: ts => if b = 0 then none else indentBalance (b - 1) ts
  | b, _ :: ts => indentBalance b ts

/-- "at the start of a logical line" after a token: after NEWLINE / INDENT / DEDENT; comments and
    non-logical newlines do not change it; any other token ends it -/
def lineStartStep (ls : Bool) : Tok → Bool
  | .newline | .indent | .dedent => true
  | .comment _ | .nonLogicalNewline => ls
  | _ => false

/-- INDENT and DEDENT tokens occur only at the start of a logical line -/
def DentsAtLineStart : Bool → List Tok → Prop
  | _, [] => True
  | ls, t :: ts => ((t = .indent ∨ t = .dedent) → ls = true) ∧ DentsAtLineStart (lineStartStep ls t) ts

/-- every `NonLogicalNewline` token stands inside brackets or on a line that so far holds no token
    (a blank line): bracket depth `d` and "at the start of a logical line" `ls` are counted from the
    tokens in front of it -/
def NlnPlacement : Nat → Bool → List Tok → Prop
  | _, _, [] => True
  | d, ls, t :: ts => (t = .nonLogicalNewline → 0 < d ∨ ls = true) ∧ NlnPlacement (depthStep d t) (lineStartStep ls t) ts

end PV.C05
