import PV.C05.Global
import PV.C05.NlnPlace
import PV.C10.LexFilter
/-
  C05 — which line breaks the DEFAULT lexer leaves in gaps: the predicate `DefaultGapsLineBreaks` on (source, default
  token stream) and the lemmas behind `PV.C05.default_gaps_line_breaks` (PV/C05/Thm.lean).

  The full lexer's stream tiles the source with only blanks and backslash-newline joins in between (`Tiles GF`), its
  `NonLogicalNewline` tokens stand inside brackets or on blank lines (`NlnPlacement`), its `Comment` tokens contain no
  line break (`Spells`), and the default stream is the full stream without those two kinds of token
  (`PV.C10.lexRaw_filter`).  Hence a line break that no DEFAULT token covers is a backslash join, or lies under a
  `NonLogicalNewline` token of the full lexer.
-/
namespace PV.C05
open PV.Lexer


/-- character `i` of the text is a line-break character -/
def IsBreakAt (src : List Nat) (i : Nat) : Prop := src[i]? = some 10 ∨ src[i]? = some 13

/-- … joined to the next physical line by a backslash directly in front of it: `\⏎`, `\␍`, or the `⏎` of `\␍⏎` -/
def JoinedAt (src : List Nat) (i : Nat) : Prop :=
  (1 ≤ i ∧ src[i - 1]? = some 92) ∨ (2 ≤ i ∧ src[i]? = some 10 ∧ src[i - 1]? = some 13 ∧ src[i - 2]? = some 92)

/-- a line break that is not a backslash join -/
def FreeBreakAt (src : List Nat) (i : Nat) : Prop := IsBreakAt src i ∧ ¬ JoinedAt src i

/-- every free line break that lies in a gap — in front of a token, behind the previous one (`pos`), or behind the last
    token — stands inside brackets (`d` = bracket depth counted from the tokens in front of it) or on a line that so far
    holds no token (`ls` = "at the start of a logical line", counted likewise) -/
def GapBreaksOk (src : List Nat) : Nat → Bool → Nat → List Spanned → Prop
  | d, ls, pos, [] => ∀ i, pos ≤ i → i < src.length → FreeBreakAt src i → 0 < d ∨ ls = true
  | d, ls, pos, t :: ts =>
    (∀ i, pos ≤ i → i < t.cs → FreeBreakAt src i → 0 < d ∨ ls = true) ∧
      GapBreaksOk src (depthStep d t.tok) (lineStartStep ls t.tok) t.ce ts

/-- the statement about a source and its DEFAULT token stream -/
def DefaultGapsLineBreaks (src : List Nat) (toks : List Spanned) : Prop := GapBreaksOk src 0 true (bomLen src) toks

theorem isBreakAt_of (src : List Nat) (i c : Nat) (h : src[i]? = some c) (hc : c ≠ 10 ∧ c ≠ 13) : ¬ IsBreakAt src i := by
  intro hb
  rcases hb with hb | hb <;> rw [h] at hb <;> simp at hb <;> omega

theorem gapFull_breaks (src : List Nat) : ∀ (g : List Nat) (base : Nat), gapFull g = true →
    (∀ j, j < g.length → src[base + j]? = g[j]?) →
    ∀ i, base ≤ i → i < base + g.length → IsBreakAt src i → JoinedAt src i := by
  intro g
  fun_induction gapFull g <;> intro base hg hsrc i h1 h2 hb
  · simp at h2; omega
  · -- 32 :: r
    rename_i r ih
    by_cases hi : i = base
    · subst hi
      exact absurd hb (isBreakAt_of src i 32 (by simpa using hsrc 0 (by simp)) (by decide))
    · exact ih (base + 1) hg (fun j hj => by
        have := hsrc (j + 1) (by simpa using hj)
        simpa [Nat.add_assoc, Nat.add_comm 1 j] using this) i (by omega) (by simp at h2; omega) hb
  · rename_i r ih
    by_cases hi : i = base
    · subst hi
      exact absurd hb (isBreakAt_of src i 9 (by simpa using hsrc 0 (by simp)) (by decide))
    · exact ih (base + 1) hg (fun j hj => by
        have := hsrc (j + 1) (by simpa using hj)
        simpa [Nat.add_assoc, Nat.add_comm 1 j] using this) i (by omega) (by simp at h2; omega) hb
  · rename_i r ih
    by_cases hi : i = base
    · subst hi
      exact absurd hb (isBreakAt_of src i 12 (by simpa using hsrc 0 (by simp)) (by decide))
    · exact ih (base + 1) hg (fun j hj => by
        have := hsrc (j + 1) (by simpa using hj)
        simpa [Nat.add_assoc, Nat.add_comm 1 j] using this) i (by omega) (by simp at h2; omega) hb
  · -- 92 :: 13 :: 10 :: r
    rename_i r ih
    have e0 : src[base]? = some 92 := by simpa using hsrc 0 (by simp)
    have e1 : src[base + 1]? = some 13 := by simpa using hsrc 1 (by simp)
    have e2 : src[base + 2]? = some 10 := by simpa using hsrc 2 (by simp)
    by_cases hi0 : i = base
    · subst hi0; exact absurd hb (isBreakAt_of src i 92 e0 (by decide))
    · by_cases hi1 : i = base + 1
      · subst hi1; left; exact ⟨by omega, by simpa using e0⟩
      · by_cases hi2 : i = base + 2
        · subst hi2; right
          exact ⟨by omega, e2, by simpa using e1, by simpa using e0⟩
        · exact ih (base + 3) hg (fun j hj => by
            have := hsrc (j + 3) (by simpa using hj)
            simpa [Nat.add_assoc, Nat.add_comm 3 j] using this) i (by omega) (by simp at h2; omega) hb
  · -- 92 :: 13 :: r
    rename_i r hne ih
    have e0 : src[base]? = some 92 := by simpa using hsrc 0 (by simp)
    by_cases hi0 : i = base
    · subst hi0; exact absurd hb (isBreakAt_of src i 92 e0 (by decide))
    · by_cases hi1 : i = base + 1
      · subst hi1; left; exact ⟨by omega, by simpa using e0⟩
      · exact ih (base + 2) hg (fun j hj => by
          have := hsrc (j + 2) (by simpa using hj)
          simpa [Nat.add_assoc, Nat.add_comm 2 j] using this) i (by omega) (by simp at h2; omega) hb
  · -- 92 :: 10 :: r
    rename_i r ih
    have e0 : src[base]? = some 92 := by simpa using hsrc 0 (by simp)
    by_cases hi0 : i = base
    · subst hi0; exact absurd hb (isBreakAt_of src i 92 e0 (by decide))
    · by_cases hi1 : i = base + 1
      · subst hi1; left; exact ⟨by omega, by simpa using e0⟩
      · exact ih (base + 2) hg (fun j hj => by
          have := hsrc (j + 2) (by simpa using hj)
          simpa [Nat.add_assoc, Nat.add_comm 2 j] using this) i (by omega) (by simp at h2; omega) hb
  · simp at hg


theorem isBreakAt_lt {src : List Nat} {i : Nat} (h : IsBreakAt src i) : i < src.length := by
  rcases h with h | h <;> exact (List.getElem?_eq_some_iff.mp h).1

theorem trivia_steps {t : Tok} (h : t.isTrivia = true) (d : Nat) (ls : Bool) :
    depthStep d t = d ∧ lineStartStep ls t = ls := by
  cases t <;> simp [Tok.isTrivia] at h <;> exact ⟨rfl, rfl⟩

/-- from the full lexer's stream (tiling, placement of its `NonLogicalNewline` tokens, comments without line breaks) to
    the default stream = the full stream without its trivia tokens -/
theorem gapBreaksOk_of_full (src : List Nat) : ∀ (F : List Spanned) (d : Nat) (ls : Bool) (pos base : Nat),
    pos ≤ base →
    (∀ i, pos ≤ i → i < base → FreeBreakAt src i → 0 < d ∨ ls = true) →
    STiles GF (src.drop base) base src.length (F.map cspan) →
    NlnPlacement d ls (F.map (·.tok)) →
    (∀ t ∈ F, ∀ c, t.tok = .comment c → ∀ i, t.cs ≤ i → i < t.ce → ¬ IsBreakAt src i) →
    (∀ t ∈ F, t.tok.isTrivia = true → t.tok = .nonLogicalNewline ∨ ∃ c, t.tok = .comment c) →
    GapBreaksOk src d ls pos (PV.C10.dropTrivia F) := by
  intro F
  induction F with
  | nil =>
    intro d ls pos base hpb hpre hT _ _ _
    simp only [List.map_nil, STiles] at hT
    obtain ⟨hb, hg⟩ := hT
    simp only [PV.C10.dropTrivia, List.filter_nil, GapBreaksOk]
    intro i h1 h2 hf
    by_cases hi : i < base
    · exact hpre i h1 hi hf
    · exfalso
      refine hf.2 (gapFull_breaks src _ base hg ?_ i (by omega) ?_ hf.1)
      · intro j hj; simp [List.getElem?_take, List.getElem?_drop] at hj ⊢; intro; omega
      · simp; omega
  | cons t F ih =>
    intro d ls pos base hpb hpre hT hN hC hK
    simp only [List.map_cons, STiles, cspan] at hT
    obtain ⟨h1, h2, hg, hrest⟩ := hT
    have hdrop : (src.drop base).drop (t.ce - base) = src.drop t.ce := by
      rw [List.drop_drop]; congr 1; omega
    rw [hdrop] at hrest
    -- a free line break in front of the token `t` (behind `pos`) is fine
    have hfront : ∀ i, pos ≤ i → i < t.cs → FreeBreakAt src i → 0 < d ∨ ls = true := by
      intro i hi1 hi2 hf
      by_cases hi : i < base
      · exact hpre i hi1 hi hf
      · exfalso
        refine hf.2 (gapFull_breaks src _ base hg ?_ i (by omega) ?_ hf.1)
        · intro j hj; simp [List.getElem?_take, List.getElem?_drop] at hj ⊢; intro; omega
        · have := isBreakAt_lt hf.1
          simp [List.length_take, List.length_drop]; omega
    simp only [List.map_cons, NlnPlacement] at hN
    by_cases ht : t.tok.isTrivia = true
    · rw [PV.C10.dropTrivia_cons_trivia ht]
      obtain ⟨e1, e2⟩ := trivia_steps ht d ls
      rw [e1, e2] at hN
      refine ih d ls pos t.ce (by omega) ?_ hrest hN.2 (fun t' ht' => hC t' (List.mem_cons_of_mem _ ht'))
        (fun t' ht' => hK t' (List.mem_cons_of_mem _ ht'))
      intro i hi1 hi2 hf
      by_cases hi : i < t.cs
      · exact hfront i hi1 hi hf
      · -- under the trivia token
        rcases hK t List.mem_cons_self ht with hn | ⟨c, hc⟩
        · exact hN.1 hn
        · exact absurd hf.1 (hC t List.mem_cons_self c hc i (by omega) hi2)
    · have ht' : t.tok.isTrivia = false := by simpa using ht
      rw [PV.C10.dropTrivia_cons_keep ht']
      refine ⟨hfront, ?_⟩
      exact ih _ _ t.ce t.ce (Nat.le_refl _) (fun i a b => by omega) hrest hN.2
        (fun t' ht' => hC t' (List.mem_cons_of_mem _ ht')) (fun t' ht' => hK t' (List.mem_cons_of_mem _ ht'))


theorem softKwGo_gapBreaks (src : List Nat) (ts : List Spanned) (st : SoftSt) (d : Nat) (ls : Bool) (pos : Nat) :
    GapBreaksOk src d ls pos (softKwGo ts st) ↔ GapBreaksOk src d ls pos ts := by
  induction ts generalizing st d ls pos with
  | nil => simp [softKwGo]
  | cons a ts ih =>
    simp only [softKwGo, GapBreaksOk]
    rcases softTok_cases st.sol st.sos a ts with h | ⟨k, hk, h⟩
    · rw [h, ih]
    · rw [h, hk, ih]; simp [lineStartStep, depthStep]

theorem srcBody_eq_drop (src : List Nat) : srcBody src = src.drop (bomLen src) := by
  unfold srcBody bomLen
  split <;> simp

theorem comment_no_break {src : List Nat} {t : Spanned} {c : List Nat} (hc : t.tok = .comment c)
    (hs : Spells t.tok (tokText src t)) : ∀ i, t.cs ≤ i → i < t.ce → ¬ IsBreakAt src i := by
  intro i h1 h2 hb
  rw [hc] at hs
  simp only [Spells] at hs
  obtain ⟨htext, _, hall⟩ := hs
  have hmem : ∀ x, src[i]? = some x → x ∈ c := by
    intro x hx
    rw [← htext]
    unfold tokText
    refine List.mem_iff_getElem?.mpr ⟨i - t.cs, ?_⟩
    rw [List.getElem?_take_of_lt (by omega), List.getElem?_drop]
    rw [show t.cs + (i - t.cs) = i by omega]
    exact hx
  rcases hb with hb | hb
  · exact (hall 10 (hmem 10 hb)).1 rfl
  · exact (hall 13 (hmem 13 hb)).2 rfl

theorem trivia_kind {t : Tok} (h : t.isTrivia = true) : t = .nonLogicalNewline ∨ ∃ c, t = .comment c := by
  cases t <;> simp [Tok.isTrivia] at h
  · exact Or.inr ⟨_, rfl⟩
  · exact Or.inl rfl

end PV.C05
