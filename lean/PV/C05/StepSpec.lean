import PV.C05.Spell
/-
  C05 — complete description (`CNSpec`) of what one `consume_normal` does: which token with which text,
  which state change, or which kind of token-less gap.  Later proofs never unfold `consumeCharacter` again.
-/
namespace PV.C05
open PV.Lexer

/-- what one token-less step of the lexer may consume.  `next` is the character that follows. -/
inductive StepGap (full : Bool) (nesting : Nat) (next : Option Nat) : List Nat → Prop
  | blank (t : List Nat) (hne : t ≠ []) (hall : ∀ x ∈ t, isBlank x = true) : StepGap full nesting next t
  | join (nl : List Nat) (hnl : IsNl nl) : StepGap full nesting next (92 :: nl)
  | comment (t : List Nat) (hf : full = false) (hhd : t.head? = some 35) (hall : ∀ x ∈ t, x ≠ 10 ∧ x ≠ 13)
      (hnext : next.all isLineBreak = true) : StepGap full nesting next t
  | nl (t : List Nat) (hf : full = false) (hn : nesting ≠ 0) (hnl : IsNl t) : StepGap full nesting next t

/-- complete description of a successful `consume_normal` on `inp` in state `st` -/
inductive CNSpec (cfg : Cfg) (st : LexState) (inp : List Nat) : StepOut → Prop
  /-- a name, keyword, number, string, operator (not a bracket) or comment token; state unchanged -/
  | tok (tok : Tok) (n : Nat) (h1 : 1 ≤ n) (h2 : n ≤ inp.length) (sp : Spells tok (inp.take n))
      (pl : plain tok = true)
      (cm : ∀ c, tok = .comment c → cfg.fullLexer = true ∧ (inp.drop n).head?.all isLineBreak = true) :
      CNSpec cfg st inp (one tok n st)
  | openB (o : Op) (h2 : 1 ≤ inp.length) (sp : inp.take 1 = opText o)
      (ho : o = .Lpar ∨ o = .Lsqb ∨ o = .Lbrace) :
      CNSpec cfg st inp (one (.op o) 1 { st with nesting := st.nesting + 1 })
  | closeB (o : Op) (h2 : 1 ≤ inp.length) (sp : inp.take 1 = opText o)
      (ho : o = .Rpar ∨ o = .Rsqb ∨ o = .Rbrace) (hn : st.nesting ≠ 0) :
      CNSpec cfg st inp (one (.op o) 1 { st with nesting := st.nesting - 1 })
  | newline (n : Nat) (h2 : n ≤ inp.length) (nl : IsNl (inp.take n)) (hn : st.nesting = 0) :
      CNSpec cfg st inp (one .newline n { st with atBol := true })
  | nln (n : Nat) (h2 : n ≤ inp.length) (nl : IsNl (inp.take n)) (hn : st.nesting ≠ 0)
      (hf : cfg.fullLexer = true) : CNSpec cfg st inp (one .nonLogicalNewline n st)
  | gap (n : Nat) (h1 : 1 ≤ n) (h2 : n ≤ inp.length)
      (g : StepGap cfg.fullLexer st.nesting (inp.drop n).head? (inp.take n)) : CNSpec cfg st inp (skip n st)
  | eof (hinp : inp = []) (hn : st.nesting = 0) :
      CNSpec cfg st inp
        ⟨(if st.atBol then [] else [⟨.newline, 0, 0⟩]) ++ List.replicate (flushIndents st.indents).1 ⟨.dedent, 0, 0⟩,
         0, { st with atBol := true, indents := (flushIndents st.indents).2 }, true⟩

theorem isNl_len {t : List Nat} (h : IsNl t) : 1 ≤ t.length := by
  rcases h with rfl | rfl | rfl <;> simp

theorem cnspec_ofSub {cfg : Cfg} {st : LexState} {inp : List Nat} {r : Sub} (hr : SubOk inp r)
    (hsp : ∀ tok n, r = .ok (tok, n) → Spells tok (inp.take n) ∧ plain tok = true ∧ ∀ c, tok ≠ .comment c)
    {o : StepOut} (h : ofSub st r = .ok o) : CNSpec cfg st inp o := by
  cases r with
  | error e => simp [ofSub] at h
  | ok p =>
    obtain ⟨tok, n⟩ := p
    simp [ofSub] at h; subst h
    obtain ⟨sp, pl, nc⟩ := hsp tok n rfl
    exact .tok tok n hr.1 hr.2 sp pl (fun c hc => absurd hc (nc c))

theorem consumeCharacter_spec {cfg : Cfg} {st : LexState} {c : Nat} {cs : List Nat} {o : StepOut}
    (h : consumeCharacter cfg st c cs = .ok o) : CNSpec cfg st (c :: cs) o := by
  have num : ∀ (hc : isDigit c = true ∨ (c = 46 ∧ ∃ d r, cs = d :: r ∧ isDigit d = true)),
      ofSub st (lexNumber (c :: cs)) = .ok o → CNSpec cfg st (c :: cs) o := by
    intro hc h
    refine cnspec_ofSub (lexNumber_ok c cs hc) ?_ h
    intro tok n hr
    have := lexNumber_spells hr
    exact ⟨this.1, isNum_plain this.2⟩
  unfold consumeCharacter at h
  split at h
  · rename_i hd; exact num (Or.inl hd) h
  split at h
  · rename_i hc; subst hc
    have h1 := spanLen_le (fun c => !isLineBreak c) (35 :: cs)
    have h2 : 1 ≤ commentLen (35 :: cs) := by simp [commentLen, spanLen, isLineBreak]
    have hall := spanLen_take_all (fun c => !isLineBreak c) (35 :: cs)
    have hnext := spanLen_next (fun c => !isLineBreak c) (35 :: cs)
    have hall' : ∀ x ∈ (35 :: cs).take (commentLen (35 :: cs)), x ≠ 10 ∧ x ≠ 13 := by
      intro x hx; have := hall x hx; simpa [isLineBreak] using this
    have hhd : ((35 :: cs).take (commentLen (35 :: cs))).head? = some 35 := by
      obtain ⟨k, hk⟩ : ∃ k, commentLen (35 :: cs) = k + 1 := ⟨_, (Nat.sub_add_cancel h2).symm⟩
      rw [hk]; simp
    simp only [commentLen] at *
    split at h <;> (simp at h; subst h)
    · rename_i hf
      refine .tok _ _ h2 h1 ⟨rfl, hhd, hall'⟩ (by simp [plain]) ?_
      intro c _; exact ⟨hf, by simpa using hnext⟩
    · rename_i hf
      refine .gap _ h2 h1 (.comment _ (by simpa using hf) hhd hall' (by simpa using hnext))
  split at h
  · rename_i hq
    refine cnspec_ofSub (lexString_ok .string (c :: cs) (by simp [StringKind.prefixLen])) ?_ h
    intro tok n hr
    obtain ⟨sp, v, tr, rfl⟩ := lexString_spells (kind := .string) (q := c) (r := cs)
      (by simp [StringKind.prefixLen, prefixKind]) (by simp [StringKind.prefixLen])
      (by simpa [isQuote] using hq) hr
    exact ⟨sp, by simp [plain], by simp⟩
  split at h
  · rename_i hc; subst hc
    split at h
    · simp at h; subst h
      exact .tok _ 2 (by omega) (by simp) (by simp [Spells, opText]) (by simp [plain])
        (by simp)
    · simp at h
  split at h
  · rename_i hd
    simp at hd
    obtain ⟨rfl, hd⟩ := hd
    exact num (Or.inr ⟨rfl, headIsDigit_cons hd⟩) h
  split at h
  · rename_i o' n ho
    simp at h; subst h
    have L := lexOp_ok ho
    have S := lexOp_spells ho
    exact .tok _ n L.1 L.2 S.1 S.2 (by simp)
  split at h
  · rename_i ob hob
    simp at h; subst h
    unfold openBracket at hob
    split at hob <;> simp at hob <;> subst hob
    · exact .openB _ (by simp) (by simp [opText]) (by simp)
    · exact .openB _ (by simp) (by simp [opText]) (by simp)
    · exact .openB _ (by simp) (by simp [opText]) (by simp)
  split at h
  · rename_i cb hcb
    split at h
    · simp at h
    · rename_i hn
      simp at h; subst h
      unfold closeBracket at hcb
      split at hcb <;> simp at hcb <;> subst hcb
      · exact .closeB _ (by simp) (by simp [opText]) (by simp) hn
      · exact .closeB _ (by simp) (by simp [opText]) (by simp) hn
      · exact .closeB _ (by simp) (by simp [opText]) (by simp) hn
  split at h
  · rename_i hlb
    split at h
    · simp at h
    · rename_i ch n r hn
      have N := nextChar_nl hlb hn
      have B := nextChar_ok hn
      have hle : n ≤ (c :: cs).length := by omega
      split at h
      · rename_i h0
        simp at h; subst h
        exact .newline n hle N.1 h0
      · rename_i h0
        split at h <;> (simp at h; subst h)
        · rename_i hf
          exact .nln n hle N.1 h0 hf
        · rename_i hf
          exact .gap n B.1 hle (.nl _ (by simpa using hf) h0 N.1)
  split at h
  · rename_i hb
    simp at h; subst h
    exact .gap _ (spanLen_pos _ _ _ hb) (spanLen_le _ _)
      (.blank _ (by
          have := spanLen_pos isBlank c cs hb
          intro hnil
          have := congrArg List.length hnil
          have hle := spanLen_le isBlank (c :: cs)
          simp [List.length_take] at this
          omega)
        (spanLen_take_all _ _))
  split at h
  · rename_i hc; subst hc
    cases cs with
    | nil => simp at h
    | cons d tl =>
      simp only [] at h
      split at h
      · rename_i hlb
        split at h
        · simp at h
        · rename_i ch n r hn
          have N := nextChar_nl hlb hn
          have B := nextChar_ok hn
          split at h
          · simp at h
          · simp at h; subst h
            refine .gap _ (by omega) (by simp at B ⊢; omega) ?_
            have : List.take (1 + n) (92 :: d :: tl) = 92 :: (d :: tl).take n := by
              rw [Nat.add_comm]; simp
            rw [this]
            exact .join _ N.1
      · simp at h
  split at h
  · simp at h; subst h
    exact .tok _ 1 (by omega) (by simp) (by simp [Spells]) (by simp [plain]) (by simp)
  · simp at h

end PV.C05
