import PV.Lexer.Lemmas
import PV.C05.Spec
/-
  C05 — spelling lemmas: the text a sub-lexer consumes spells the token it returns
  (`Spells`, PV/C05/Spec.lean), for operators, names / keywords, numbers, strings, comments, line breaks.
-/
namespace PV.C05
open PV.Lexer


theorem kwText_eq (k : Kw) : kwText k = k.text := by cases k <;> rfl

theorem lexOp_spells {inp : List Nat} {o : Op} {n : Nat} (h : lexOp inp = some (o, n)) :
    inp.take n = opText o ∧ plain (.op o) = true := by
  unfold lexOp at h
  split at h <;> simp at h <;> obtain ⟨rfl, rfl⟩ := h <;> simp [opText, plain]

theorem spanLen_take_all (p : Nat → Bool) (l : List Nat) : ∀ x ∈ l.take (spanLen p l), p x = true := by
  induction l with
  | nil => simp [spanLen]
  | cons c cs ih =>
    simp only [spanLen]
    split
    · rename_i hc
      intro x hx
      simp only [List.take_succ_cons, List.mem_cons] at hx
      rcases hx with rfl | hx
      · exact hc
      · exact ih x hx
    · simp

theorem spanLen_next (p : Nat → Bool) (l : List Nat) :
    (l.drop (spanLen p l)).head?.all (fun c => !p c) = true := by
  induction l with
  | nil => simp [spanLen]
  | cons c cs ih =>
    simp only [spanLen]
    split
    · simpa using ih
    · rename_i hc; simp [hc]

theorem nextChar_nl {c : Nat} {cs : List Nat} (hc : isLineBreak c = true) {ch n : Nat} {r : List Nat}
    (h : nextChar (c :: cs) = some (ch, n, r)) : IsNl ((c :: cs).take n) ∧ ch = 10 := by
  simp [isLineBreak] at hc
  unfold nextChar at h
  split at h <;> simp at h
  · obtain ⟨rfl, rfl, rfl⟩ := h; rename_i heq; simp at heq; obtain ⟨rfl, rfl⟩ := heq; simp [IsNl]
  · obtain ⟨rfl, rfl, rfl⟩ := h; rename_i heq; simp at heq; obtain ⟨rfl, rfl⟩ := heq; simp [IsNl]
  · rename_i c' r' _ _ heq
    simp at heq; obtain ⟨rfl, rfl⟩ := heq
    obtain ⟨rfl, rfl, rfl⟩ := h
    rcases hc with rfl | rfl
    · simp [IsNl]
    · simp_all

theorem scanFold_noCR (p : Nat → Bool) (hp : p 13 = false) (l : List Nat) :
    (scanFold p l).1 = l.take (scanFold p l).2 ∧ ∀ x ∈ (scanFold p l).1, p x = true := by
  fun_induction scanFold p l
  · simp
  · rename_i h _; rw [hp] at h; simp at h
  · simp
  · rename_i c r hne hc ih
    have : c ≠ 13 := by intro h; subst h; simp [hp] at hc
    simp [this, ih.1.symm, hc]
    exact ih.2
  · simp

theorem kwOfName_some {name : List Nat} {k : Kw} (h : Kw.ofName name = some k) : name = kwText k := by
  unfold Kw.ofName at h
  have := List.find?_some h
  simp at this
  rw [kwText_eq]; exact this.symm

theorem lexName_spells {up : UParams} (hs : up.Sane) (inp : List Nat) :
    Spells (lexName up inp).1 (inp.take (lexName up inp).2) := by
  have hcr : isIdCont up 13 = false := by simp [isIdCont, isAsciiLetter, isDigit, hs.cr]
  have S := scanFold_noCR (isIdCont up) hcr inp
  unfold lexName
  simp only []
  split
  · rename_i k hk
    simp only [Spells]
    rw [← S.1]; exact kwOfName_some hk
  · simp only [Spells]; exact S.1.symm

/-! ### numbers -/




theorem radixRun_filter (radix : Nat) (l : List Nat) (hr : radix = 2 ∨ radix = 8 ∨ radix = 10 ∨ radix = 16) :
    (l.take (radixRun radix l).2).filter (· ≠ 95) = (radixRun radix l).1 ∧
    ∀ x ∈ (radixRun radix l).1, isDigitOf radix x = true := by
  fun_induction radixRun radix l
  · simp
  · rename_i c cs hc ih
    have : c ≠ 95 := by
      intro h; subst h
      rcases hr with rfl | rfl | rfl | rfl <;> simp [isDigitOf, isDigit] at hc
    simpa [this, hc] using ih
  · rename_i ih
    simpa using ih
  · simp
  · simp
  · simp

theorem digit_ok (radix d : Nat) (hr : radix = 2 ∨ radix = 8 ∨ radix = 10 ∨ radix = 16)
    (h : isDigitOf radix d = true) : digitValue d = some (digitVal d) ∧ digitVal d < radix := by
  rcases hr with rfl | rfl | rfl | rfl <;> simp [isDigitOf, isDigit] at h <;>
    (by_cases h1 : (48 ≤ d ∧ d ≤ 57) <;> by_cases h2 : (97 ≤ d ∧ d ≤ 102) <;>
      by_cases h3 : (65 ≤ d ∧ d ≤ 70) <;>
      simp [digitValue, digitVal, isDigit, h1, h2, h3] <;> omega)

theorem digitsFold_ok (radix : Nat) (hr : radix = 2 ∨ radix = 8 ∨ radix = 10 ∨ radix = 16) (ds : List Nat)
    (h : ∀ x ∈ ds, isDigitOf radix x = true) (a : Nat) :
    ds.foldl (fun acc d => match acc, digitValue d with
      | some a, some v => if v < radix then some (a * radix + v) else none
      | _, _ => none) (some a) = some (ds.foldl (fun a d => a * radix + digitVal d) a) := by
  induction ds generalizing a with
  | nil => rfl
  | cons d ds ih =>
    have D := digit_ok radix d hr (h d (by simp))
    simp only [List.foldl_cons, D.1, D.2, if_true]
    exact ih (fun x hx => h x (by simp [hx])) _

theorem natOfDigits_eq (radix : Nat) (hr : radix = 2 ∨ radix = 8 ∨ radix = 10 ∨ radix = 16) (ds : List Nat)
    (h : ∀ x ∈ ds, isDigitOf radix x = true) : natOfDigits radix ds = digitsValue radix ds := by
  cases ds with
  | nil => simp [natOfDigits, digitsValue]
  | cons d ds =>
    simp only [natOfDigits, digitsValue, List.isEmpty_cons]
    exact (digitsFold_ok radix hr (d :: ds) h 0).symm

theorem lexNumberRadix_spells (radix x : Nat) (rest : List Nat)
    (hr : radix = 2 ∨ radix = 8 ∨ radix = 16)
    (hx : (radix = 16 ∧ (x = 120 ∨ x = 88)) ∨ (radix = 8 ∧ (x = 111 ∨ x = 79)) ∨ (radix = 2 ∧ (x = 98 ∨ x = 66)))
    {tok : Tok} {n : Nat} (h : lexNumberRadix radix rest = .ok (tok, n)) :
    Spells tok ((48 :: x :: rest).take n) ∧ ∃ v, tok = .int v := by
  have hr' : radix = 2 ∨ radix = 8 ∨ radix = 10 ∨ radix = 16 := by omega
  have F := radixRun_filter radix rest hr'
  simp only [lexNumberRadix] at h
  split at h
  · rename_i v hv
    simp at h; obtain ⟨rfl, rfl⟩ := h
    refine ⟨?_, v, rfl⟩
    simp only [Spells, intValue]
    have e : (2 + (radixRun radix rest).2) = (radixRun radix rest).2 + 2 := by omega
    have hx95 : x ≠ 95 := by omega
    rw [e]
    simp only [List.take_succ_cons, List.filter_cons, hx95, ne_eq, not_false_eq_true, decide_true, if_true]
    simp only [show (48 : Nat) ≠ 95 by decide, not_false_eq_true, decide_true, if_true, F.1]
    rw [natOfDigits_eq radix hr' _ F.2] at hv
    rcases hx with ⟨rfl, hx⟩ | ⟨rfl, hx⟩ | ⟨rfl, hx⟩
    · simp [hx, hv]
    · have h1 : ¬ (x = 120 ∨ x = 88) := by omega
      simp [h1, hx, hv]
    · have h1 : ¬ (x = 120 ∨ x = 88) := by omega
      have h2 : ¬ (x = 111 ∨ x = 79) := by omega
      simp [h1, h2, hx, hv]
  · simp at h

theorem take_succ_of_drop {l : List Nat} {n c : Nat} {r : List Nat} (h : l.drop n = c :: r) :
    l.take (n + 1) = l.take n ++ [c] := by
  rw [List.take_add, h]; simp

theorem cleanFloat_append (a b : List Nat) : cleanFloat (a ++ b) = cleanFloat a ++ cleanFloat b := by
  simp [cleanFloat]

theorem cleanFloat_digits (ds : List Nat) (h : ∀ x ∈ ds, isDigit x = true) (t : List Nat)
    (ht : t.filter (· ≠ 95) = ds) : cleanFloat t = ds := by
  unfold cleanFloat
  rw [ht]
  have : ∀ x ∈ ds, (if x = 69 then 101 else x) = x := by
    intro x hx
    have := h x hx
    simp [isDigit] at this
    have : x ≠ 69 := by omega
    simp [this]
  exact (List.map_congr_left this).trans (List.map_id' ds)

theorem intValue_digits (t u : List Nat) (ht : t.filter (· ≠ 95) = u) (h : ∀ x ∈ u, isDigit x = true) :
    intValue t = digitsValue 10 u := by
  unfold intValue
  rw [ht]
  split
  next x ds =>
    have hx := h x (by simp)
    simp [isDigit] at hx
    have h1 : ¬ (x = 120 ∨ x = 88) := by omega
    have h2 : ¬ (x = 111 ∨ x = 79) := by omega
    have h3 : ¬ (x = 98 ∨ x = 66) := by omega
    simp [h1, h2, h3]
  next => rfl

theorem intTok_spells {z : Bool} {ds : List Nat} {n : Nat} {inp : List Nat} {tok : Tok} {m : Nat}
    (hf : (inp.take n).filter (· ≠ 95) = ds) (hd : ∀ x ∈ ds, isDigit x = true)
    (h : intTok z ds n = .ok (tok, m)) : m = n ∧ Spells tok (inp.take n) ∧ ∃ v, tok = .int v := by
  unfold intTok at h
  split at h
  · simp at h
  · rename_i v hv
    split at h
    · simp at h
    · simp at h; obtain ⟨rfl, rfl⟩ := h
      refine ⟨rfl, ?_, v, rfl⟩
      simp only [Spells]
      rw [intValue_digits _ _ hf hd, ← natOfDigits_eq 10 (by omega) ds (by simpa [isDigitOf] using hd)]
      exact hv

/-- a number token kind -/
def IsNum : Tok → Prop
  | .int _ | .float _ | .complex _ => True
  | _ => False

theorem intTail_spells {inp : List Nat} {z : Bool} {tok : Tok} {m : Nat}
    (h : intTail inp z (radixRun 10 inp).1 (radixRun 10 inp).2 = .ok (tok, m)) :
    Spells tok (inp.take m) ∧ IsNum tok := by
  have F := radixRun_filter 10 inp (by omega)
  have hd : ∀ x ∈ (radixRun 10 inp).1, isDigit x = true := by simpa [isDigitOf] using F.2
  unfold intTail at h
  split at h
  · rename_i c r hdrop
    split at h
    · rename_i hj
      split at h
      · simp at h; obtain ⟨rfl, rfl⟩ := h
        refine ⟨?_, trivial⟩
        simp only [Spells]
        refine ⟨inp.take (radixRun 10 inp).2, c, take_succ_of_drop hdrop, by simpa [isJ] using hj, ?_⟩
        exact cleanFloat_digits _ hd _ F.1
      · simp at h
    · obtain ⟨rfl, sp, v, rfl⟩ := intTok_spells F.1 hd h
      exact ⟨sp, trivial⟩
  · obtain ⟨rfl, sp, v, rfl⟩ := intTok_spells F.1 hd h
    exact ⟨sp, trivial⟩

theorem fracPart_clean {inp v : List Nat} {n : Nat} {v' : List Nat} {n' : Nat}
    (hv : cleanFloat (inp.take n) = v) (h : fracPart v n (inp.drop n) = .ok (v', n')) :
    cleanFloat (inp.take n') = v' := by
  unfold fracPart at h
  split at h
  · rename_i rest hdrop
    split at h
    · simp at h
    · simp at h; obtain ⟨rfl, rfl⟩ := h
      have F := radixRun_filter 10 rest (by omega)
      have hd : ∀ x ∈ (radixRun 10 rest).1, isDigit x = true := by simpa [isDigitOf] using F.2
      have e : n + 1 + (radixRun 10 rest).2 = n + (1 + (radixRun 10 rest).2) := by omega
      rw [e, List.take_add, hdrop, cleanFloat_append, hv]
      have : List.take (1 + (radixRun 10 rest).2) (46 :: rest) = [46] ++ rest.take (radixRun 10 rest).2 := by
        rw [Nat.add_comm]; simp
      rw [this, cleanFloat_append, cleanFloat_digits _ hd _ F.1]
      simp [cleanFloat]
  · simp at h; obtain ⟨rfl, rfl⟩ := h; exact hv

theorem expPartBody_clean {inp v : List Nat} {n : Nat} {v' : List Nat} {n' : Nat}
    (hv : cleanFloat (inp.take n) = v) (h : expPartBody v n (inp.drop n) = .ok (v', n')) :
    cleanFloat (inp.take n') = v' := by
  unfold expPartBody at h
  split at h
  · rename_i e rest hdrop
    split at h
    · rename_i he
      have he : e = 101 ∨ e = 69 := by simpa using he
      split at h
      · simp at h
      · split at h
        · rename_i s rest2 hrest
          split at h
          · rename_i hs
            have hs : s = 45 ∨ s = 43 := by simpa using hs
            split at h
            · simp at h
            · simp at h; obtain ⟨rfl, rfl⟩ := h
              have F := radixRun_filter 10 rest2 (by omega)
              have hd : ∀ x ∈ (radixRun 10 rest2).1, isDigit x = true := by simpa [isDigitOf] using F.2
              have e2 : n + 2 + (radixRun 10 rest2).2 = n + (2 + (radixRun 10 rest2).2) := by omega
              rw [e2, List.take_add, hdrop, cleanFloat_append, hv]
              have : List.take (2 + (radixRun 10 rest2).2) (e :: s :: rest2)
                  = [e, s] ++ rest2.take (radixRun 10 rest2).2 := by
                rw [Nat.add_comm]; simp
              rw [this, cleanFloat_append, cleanFloat_digits _ hd _ F.1]
              have hs95 : s ≠ 95 := by omega
              have hs69 : s ≠ 69 := by omega
              have he95 : e ≠ 95 := by omega
              rcases he with rfl | rfl <;> simp [cleanFloat, hs95, hs69]
          · simp at h; obtain ⟨rfl, rfl⟩ := h
            have F := radixRun_filter 10 (s :: rest2) (by omega)
            have hd : ∀ x ∈ (radixRun 10 (s :: rest2)).1, isDigit x = true := by simpa [isDigitOf] using F.2
            have e2 : n + 1 + (radixRun 10 (s :: rest2)).2 = n + (1 + (radixRun 10 (s :: rest2)).2) := by omega
            rw [e2, List.take_add, hdrop, cleanFloat_append, hv]
            have : List.take (1 + (radixRun 10 (s :: rest2)).2) (e :: s :: rest2)
                = [e] ++ (s :: rest2).take (radixRun 10 (s :: rest2)).2 := by
              rw [Nat.add_comm]; simp
            rw [this, cleanFloat_append, cleanFloat_digits _ hd _ F.1]
            rcases he with rfl | rfl <;> simp [cleanFloat]
        · simp at h; obtain ⟨rfl, rfl⟩ := h
          rw [List.take_add, hdrop, cleanFloat_append, hv]
          rcases he with rfl | rfl <;> simp [cleanFloat]
    · simp at h; obtain ⟨rfl, rfl⟩ := h; exact hv
  · simp at h; obtain ⟨rfl, rfl⟩ := h; exact hv

theorem expPart_clean {inp v : List Nat} {n : Nat} {v' : List Nat} {n' : Nat}
    (hv : cleanFloat (inp.take n) = v) (h : expPart v n (inp.drop n) = .ok (v', n')) :
    cleanFloat (inp.take n') = v' := by
  unfold expPart at h
  split at h
  · exact expPartBody_clean hv h
  · simp at h; obtain ⟨rfl, rfl⟩ := h; exact hv

theorem floatTail_spells {inp : List Nat} {tok : Tok} {m : Nat}
    (h : floatTail inp (radixRun 10 inp).1 (radixRun 10 inp).2 = .ok (tok, m)) :
    Spells tok (inp.take m) ∧ IsNum tok := by
  have F := radixRun_filter 10 inp (by omega)
  have hd : ∀ x ∈ (radixRun 10 inp).1, isDigit x = true := by simpa [isDigitOf] using F.2
  have h0 := cleanFloat_digits _ hd _ F.1
  unfold floatTail at h
  split at h
  · simp at h
  · rename_i v2 n2 h2
    have c2 := fracPart_clean h0 h2
    split at h
    · simp at h
    · rename_i v3 n3 h3
      have c3 := expPart_clean c2 h3
      split at h
      · simp at h
      · split at h
        · rename_i c r hdrop
          split at h
          · rename_i hj
            simp at h; obtain ⟨rfl, rfl⟩ := h
            exact ⟨⟨inp.take n3, c, take_succ_of_drop hdrop, by simpa [isJ] using hj, c3⟩, trivial⟩
          · simp at h; obtain ⟨rfl, rfl⟩ := h
            exact ⟨c3, trivial⟩
        · simp at h; obtain ⟨rfl, rfl⟩ := h
          exact ⟨c3, trivial⟩

/-! ### strings -/


theorem foldNl_cr (body : List Nat) (h : body.head? ≠ some 10) : foldNl (13 :: body) = 10 :: foldNl body := by
  cases body with
  | nil => simp [foldNl]
  | cons b bs =>
    have : b ≠ 10 := by simpa using h
    simp [foldNl, this]

theorem foldNl_other (c : Nat) (body : List Nat) (h : c ≠ 13) : foldNl (c :: body) = c :: foldNl body := by
  rw [foldNl]
  · intro r hr _; exact h hr
  · intro hr; exact h hr

def closing (q : Nat) (triple : Bool) : List Nat := if triple then [q, q, q] else [q]

theorem body_head_ne {r body cl : List Nat} {n : Nat} (hb : r.take n = body ++ cl)
    (hne : ∀ xs, r = 10 :: xs → False) : body.head? ≠ some 10 := by
  intro hh
  cases body with
  | nil => simp at hh
  | cons b bs =>
    simp at hh; subst hh
    cases r with
    | nil => simp at hb
    | cons x xs =>
      cases n with
      | zero => simp at hb
      | succ k =>
        simp at hb
        exact hne xs (by rw [hb.1])

theorem strLoop_spells (q : Nat) (tr : Bool) (l : List Nat) (v : List Nat) (n : Nat)
    (h : strLoop q tr l = .ok (v, n)) :
    ∃ body, l.take n = body ++ closing q tr ∧ v = foldNl body := by
  fun_induction strLoop q tr l generalizing v n
  case case1 => simp at h
  case case2 => simp at h
  case case3 r ih =>
    obtain ⟨v', n', hr, rfl, rfl⟩ := bump_ok h
    obtain ⟨body, hb, rfl⟩ := ih _ _ hr
    exact ⟨92 :: 13 :: 10 :: body, by simp [hb], by simp [foldNl]⟩
  case case4 r hne ih =>
    obtain ⟨v', n', hr, rfl, rfl⟩ := bump_ok h
    obtain ⟨body, hb, rfl⟩ := ih _ _ hr
    refine ⟨92 :: 13 :: body, by simp [hb], ?_⟩
    rw [foldNl_other 92 _ (by decide), foldNl_cr _ (body_head_ne hb hne)]; rfl
  case case5 c r _ hc ih =>
    obtain ⟨v', n', hr, rfl, rfl⟩ := bump_ok h
    obtain ⟨body, hb, rfl⟩ := ih _ _ hr
    refine ⟨92 :: c :: body, by simp [hb], ?_⟩
    rw [foldNl_other 92 _ (by decide), foldNl_other c _ hc]; rfl
  case case6 r _ ih =>
    obtain ⟨v', n', hr, rfl, rfl⟩ := bump_ok h
    obtain ⟨body, hb, rfl⟩ := ih _ _ hr
    exact ⟨13 :: 10 :: body, by simp [hb], by simp [foldNl]⟩
  case case7 => simp at h
  case case8 r hne _ ih =>
    obtain ⟨v', n', hr, rfl, rfl⟩ := bump_ok h
    obtain ⟨body, hb, rfl⟩ := ih _ _ hr
    refine ⟨13 :: body, by simp [hb], ?_⟩
    rw [foldNl_cr _ (body_head_ne hb hne)]; rfl
  case case9 => simp at h
  case case10 r _ ih =>
    obtain ⟨v', n', hr, rfl, rfl⟩ := bump_ok h
    obtain ⟨body, hb, rfl⟩ := ih _ _ hr
    exact ⟨10 :: body, by simp [hb], by rw [foldNl_other 10 _ (by decide)]; rfl⟩
  case case11 => simp at h
  case case12 =>
    simp at h; obtain ⟨rfl, rfl⟩ := h
    refine ⟨[], ?_, by simp [foldNl]⟩
    simp_all [closing]
  case case13 ih =>
    obtain ⟨v', n', hr, rfl, rfl⟩ := bump_ok h
    obtain ⟨body, hb, rfl⟩ := ih _ _ hr
    have hc : q ≠ 13 := by assumption
    exact ⟨q :: body, by simp [hb], by rw [foldNl_other q _ hc]; rfl⟩
  case case14 ih =>
    obtain ⟨v', n', hr, rfl, rfl⟩ := bump_ok h
    obtain ⟨body, hb, rfl⟩ := ih _ _ hr
    have hc : q ≠ 13 := by assumption
    exact ⟨q :: body, by simp [hb], by rw [foldNl_other q _ hc]; rfl⟩
  case case15 =>
    simp at h; obtain ⟨rfl, rfl⟩ := h
    refine ⟨[], ?_, by simp [foldNl]⟩
    simp_all [closing]
  case case16 c r _ _ _ _ _ _ _ _ ih =>
    obtain ⟨v', n', hr, rfl, rfl⟩ := bump_ok h
    obtain ⟨body, hb, rfl⟩ := ih _ _ hr
    have hc : c ≠ 13 := by assumption
    exact ⟨c :: body, by simp [hb], by rw [foldNl_other c _ hc]; rfl⟩

theorem isTripleOpen_eq {q : Nat} {r : List Nat} (h : isTripleOpen q r = true) : r = q :: q :: r.drop 2 := by
  unfold isTripleOpen at h
  split at h
  · simp at h; obtain ⟨rfl, rfl⟩ := h; simp
  · simp at h

theorem lexString_spells {kind : StringKind} {inp : List Nat} {q : Nat} {r : List Nat}
    (hpre : prefixKind (inp.take kind.prefixLen) = some kind)
    (hdrop : inp.drop kind.prefixLen = q :: r) (hq : q = 34 ∨ q = 39)
    {tok : Tok} {n : Nat} (h : lexString kind inp = .ok (tok, n)) :
    Spells tok (inp.take n) ∧ ∃ v tr, tok = .string v kind tr := by
  unfold lexString at h
  rw [hdrop] at h
  simp only [] at h
  split at h
  · rename_i ht
    split at h
    · rename_i v n' hs
      simp at h; obtain ⟨rfl, rfl⟩ := h
      obtain ⟨body, hb, rfl⟩ := strLoop_spells _ _ _ _ _ hs
      refine ⟨?_, _, _, rfl⟩
      refine ⟨inp.take kind.prefixLen, q, body, hq, hpre, ?_, rfl⟩
      have e : kind.prefixLen + 3 + n' = kind.prefixLen + (n' + 3) := by omega
      rw [e, List.take_add, hdrop, isTripleOpen_eq ht]
      simp [hb, closing]
    · simp at h
  · split at h
    · rename_i v n' hs
      simp at h; obtain ⟨rfl, rfl⟩ := h
      obtain ⟨body, hb, rfl⟩ := strLoop_spells _ _ _ _ _ hs
      refine ⟨?_, _, _, rfl⟩
      refine ⟨inp.take kind.prefixLen, q, body, hq, hpre, ?_, rfl⟩
      have e : kind.prefixLen + 1 + n' = kind.prefixLen + (n' + 1) := by omega
      rw [e, List.take_add, hdrop]
      simp [hb, closing]
    · simp at h

theorem ofChar_prefixKind {c : Nat} {k : StringKind} (h : StringKind.ofChar c = some k) :
    prefixKind [c] = some k := by
  unfold StringKind.ofChar at h
  split at h <;> simp at h <;> subst h <;> simp [prefixKind, lower]

theorem ofChars_prefixKind {c d : Nat} {k : StringKind} (h : StringKind.ofChars c d = some k) :
    prefixKind [c, d] = some k := by
  unfold StringKind.ofChars at h
  simp only [] at h
  split at h
  · rename_i hc; simp at h; subst h
    simp at hc
    rcases hc with ⟨rfl | rfl, rfl | rfl⟩ <;> simp [prefixKind, lower]
  split at h
  · rename_i hc; simp at h; subst h
    simp at hc
    rcases hc with ⟨rfl | rfl, rfl | rfl⟩ <;> simp [prefixKind, lower]
  split at h
  · rename_i hc; simp at h; subst h
    simp at hc
    rcases hc with ⟨rfl | rfl, rfl | rfl⟩ <;> simp [prefixKind, lower]
  split at h
  · rename_i hc; simp at h; subst h
    simp at hc
    rcases hc with ⟨rfl | rfl, rfl | rfl⟩ <;> simp [prefixKind, lower]
  · simp at h

theorem lexNumber_spells {inp : List Nat} {tok : Tok} {n : Nat} (h : lexNumber inp = .ok (tok, n)) :
    Spells tok (inp.take n) ∧ IsNum tok := by
  have normal : lexNormalNumber inp = .ok (tok, n) → Spells tok (inp.take n) ∧ IsNum tok := by
    intro h
    simp only [lexNormalNumber] at h
    split at h
    · exact floatTail_spells h
    · exact intTail_spells h
  unfold lexNumber at h
  split at h
  · rename_i x rest
    split at h
    · rename_i hx
      obtain ⟨sp, v, rfl⟩ := lexNumberRadix_spells 16 x rest (by omega) (Or.inl ⟨rfl, by simpa using hx⟩) h
      exact ⟨sp, trivial⟩
    · split at h
      · rename_i hx
        obtain ⟨sp, v, rfl⟩ := lexNumberRadix_spells 8 x rest (by omega) (Or.inr (Or.inl ⟨rfl, by simpa using hx⟩)) h
        exact ⟨sp, trivial⟩
      · split at h
        · rename_i hx
          obtain ⟨sp, v, rfl⟩ := lexNumberRadix_spells 2 x rest (by omega) (Or.inr (Or.inr ⟨rfl, by simpa using hx⟩)) h
          exact ⟨sp, trivial⟩
        · exact normal h
  · exact normal h

theorem isNum_plain {tok : Tok} (h : IsNum tok) : plain tok = true ∧ ∀ c, tok ≠ .comment c := by
  cases tok <;> simp [IsNum] at h <;> simp [plain]

theorem lexIdentifier_spells {up : UParams} (hs : up.Sane) {inp : List Nat} {tok : Tok} {n : Nat}
    (h : lexIdentifier up inp = .ok (tok, n)) :
    Spells tok (inp.take n) ∧ plain tok = true ∧ ∀ c, tok ≠ .comment c := by
  have name : (lexName up inp) = (tok, n) → Spells tok (inp.take n) ∧ plain tok = true ∧ ∀ c, tok ≠ .comment c := by
    intro hn
    have := lexName_spells hs inp
    rw [hn] at this
    refine ⟨this, ?_⟩
    have : tok = (lexName up inp).1 := by rw [hn]
    unfold lexName at this
    simp only [] at this
    split at this <;> subst this <;> simp [plain]
  have str : ∀ kind v tr, tok = .string v kind tr → plain tok = true ∧ ∀ c, tok ≠ .comment c := by
    intro kind v tr h; subst h; simp [plain]
  unfold lexIdentifier at h
  split at h
  · rename_i c q rest
    split at h
    · rename_i hq
      split at h
      · rename_i kind hk
        have hq' : q = 34 ∨ q = 39 := by simpa [isQuote] using hq
        obtain ⟨sp, v, tr, ht⟩ := lexString_spells (q := q) (r := rest)
          (by rw [ofChar_prefixLen hk]; simpa using ofChar_prefixKind hk)
          (by rw [ofChar_prefixLen hk]; simp) hq' h
        exact ⟨sp, str _ _ _ ht⟩
      · simp at h; exact name (by simpa using congrArg id h)
    · split at h
      · rename_i q2 tl
        split at h
        · rename_i hq
          split at h
          · rename_i kind hk
            have hq' : q2 = 34 ∨ q2 = 39 := by simpa [isQuote] using hq
            obtain ⟨sp, v, tr, ht⟩ := lexString_spells (q := q2) (r := tl)
              (by rw [ofChars_prefixLen hk]; simpa using ofChars_prefixKind hk)
              (by rw [ofChars_prefixLen hk]; simp) hq' h
            exact ⟨sp, str _ _ _ ht⟩
          · simp at h; exact name (by simpa using congrArg id h)
        · simp at h; exact name (by simpa using congrArg id h)
      · simp at h; exact name (by simpa using congrArg id h)
  · simp at h; exact name (by simpa using congrArg id h)

end PV.C05
