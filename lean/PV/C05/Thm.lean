import PV.Lexer.SoftKw
/-
  C05 — property theorems (under construction).
-/
namespace PV.C05
end PV.C05
