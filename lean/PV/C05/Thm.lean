import PV.C05.Spec
import PV.C05.Lemmas
import PV.C05.Global
import PV.C05.PlainGaps
import PV.C05.LineStart
import PV.C05.NlnPlace
import PV.C05.GapBreaks   -- predicate `DefaultGapsLineBreaks` + lemmas (imports PV.C10.LexFilter)
/-
  C05 — the token stream tiles the source: property theorems.

  All theorems are about `PV.Lexer.lex cfg mode k src` (= `lexer::lex_starts_at(src, mode, k)` drained up
  to and including the first error; `PV/Lexer/SoftKw.lean`), for EVERY source `src : List Nat`, start offset
  `k`, mode and lexer configuration `cfg` (`fullLexer` on or off, arbitrary Unicode tables satisfying
  `UParams.Sane`).  Helper lemmas: `PV/Lexer/Lemmas.lean` (per-step contract) and `PV/C05/Lemmas.lean`.
-/
namespace PV.C05
open PV.Lexer

/-- an example parameter instantiation (ASCII only) used by the non-vacuity examples -/
def asciiParams : UParams := ⟨fun _ => false, fun _ => false, fun _ => false⟩

theorem asciiParams_sane : asciiParams.Sane := ⟨by simp [asciiParams], rfl, rfl⟩

/-- `if x:\n  y = 1\n` -/
def exSrc : List Nat := [105, 102, 32, 120, 58, 10, 32, 32, 121, 32, 61, 32, 49, 10]

/-! ### termination -/

/-- The fuel `length + 1` that `lex` uses always suffices: the stream (tokens up to and including
    the first error) is finite and the loop never runs out of fuel. -/
theorem lex_terminates {cfg : Cfg} (hs : cfg.up.Sane) {mode : Mode} {k : Nat} {src : List Nat} {out : LexOut}
    (h : lex cfg mode k src = some out) : out.fin ≠ .outOfFuel := by
  unfold lex at h
  cases hr : lexRaw cfg k src with
  | none => simp [hr] at h
  | some o =>
    simp [hr] at h; subst h
    exact (lexRaw_spec hs hr).1

example : ∃ out, lex ⟨false, asciiParams⟩ .module 0 exSrc = some out ∧ out.fin = .eof ∧ out.toks.length = 10 := by
  decide

/-! ### ranges are inside the input, on character boundaries, ordered and disjoint -/

/-- every token range lies inside the input: character span within `[0, |src|]`, byte span within
    `[k, k + utf8Len src]`, start ≤ end -/
theorem tokens_in_bounds {cfg : Cfg} (hs : cfg.up.Sane) {mode : Mode} {k : Nat} {src : List Nat} {out : LexOut}
    (h : lex cfg mode k src = some out) :
    ∀ t ∈ out.toks, t.cs ≤ t.ce ∧ t.ce ≤ src.length ∧ k ≤ t.bs ∧ t.bs ≤ t.be ∧ t.be ≤ k + utf8Len src := by
  unfold lex at h
  cases hr : lexRaw cfg k src with
  | none => simp [hr] at h
  | some o =>
    simp [hr] at h; subst h
    have R := lexRaw_spec hs hr
    intro t ht
    obtain ⟨t', ht', e1, e2, e3, e4⟩ := softKwGo_mem ht
    have C := R.2.1.mem ht'
    have B := R.2.2 t' ht'
    rw [← e1, ← e2, ← e3, ← e4, B.1, B.2]
    unfold bytePos
    have := utf8Len_take_mono src C.2.1
    have := utf8Len_take_le src t'.ce
    omega

/-- every token boundary is a character boundary of the UTF-8 text: the byte offsets are the
    prefix sums of the UTF-8 sizes at the token's character indices -/
theorem tokens_on_boundaries {cfg : Cfg} (hs : cfg.up.Sane) {mode : Mode} {k : Nat} {src : List Nat} {out : LexOut}
    (h : lex cfg mode k src = some out) :
    ∀ t ∈ out.toks, t.bs = bytePos k src t.cs ∧ t.be = bytePos k src t.ce ∧
      OnBoundary src (t.bs - k) ∧ OnBoundary src (t.be - k) := by
  unfold lex at h
  cases hr : lexRaw cfg k src with
  | none => simp [hr] at h
  | some o =>
    simp [hr] at h; subst h
    have R := lexRaw_spec hs hr
    intro t ht
    obtain ⟨t', ht', e1, e2, e3, e4⟩ := softKwGo_mem ht
    have C := R.2.1.mem ht'
    have B := R.2.2 t' ht'
    rw [← e1, ← e2, ← e3, ← e4, B.1, B.2]
    refine ⟨rfl, rfl, ⟨t'.cs, by omega, ?_⟩, ⟨t'.ce, by omega, ?_⟩⟩ <;>
      simp [bytePos, utf8Len_eq_encode]

/-- tokens come in non-decreasing order and do not overlap (in characters and in bytes) -/
theorem tokens_ordered_disjoint {cfg : Cfg} (hs : cfg.up.Sane) {mode : Mode} {k : Nat} {src : List Nat}
    {out : LexOut} (h : lex cfg mode k src = some out) :
    out.toks.Pairwise (fun a b => a.ce ≤ b.cs ∧ a.be ≤ b.bs) := by
  have hb := tokens_on_boundaries hs h
  unfold lex at h
  cases hr : lexRaw cfg k src with
  | none => simp [hr] at h
  | some o =>
    simp [hr] at h; subst h
    have R := lexRaw_spec hs hr
    have P := ((softKwGo_chain (lo := 0) (hi := src.length) o.toks (SoftSt.init mode)).mpr R.2.1).pairwise
    refine List.Pairwise.imp_of_mem ?_ P
    intro a b ha hb' hab
    refine ⟨hab, ?_⟩
    rw [(hb a ha).2.1, (hb b hb').1]
    unfold bytePos
    have := utf8Len_take_mono src hab
    omega

/-! ### the text under each token spells that token -/

/-- `Spells tok text` (PV/C05/Spec.lean): a name's value is its text; a keyword / operator token covers
    exactly CPython's spelling of it; an integer's value is the value of its digits; a float / imaginary
    token's numeral (underscores removed) is its text; a string token covers prefix, both quotes and the
    body whose line-break-normalised text is its value; comments and non-logical newlines (full lexer)
    carry their exact text; NEWLINE covers one line break (or nothing, at end of input); INDENT covers a
    non-empty run of spaces / tabs; DEDENT is empty. -/
theorem token_text_spells {cfg : Cfg} (hs : cfg.up.Sane) {mode : Mode} {k : Nat} {src : List Nat} {out : LexOut}
    (h : lex cfg mode k src = some out) : ∀ t ∈ out.toks, Spells t.tok (tokText src t) := by
  unfold lex at h
  cases hr : lexRaw cfg k src with
  | none => simp [hr] at h
  | some o =>
    simp [hr] at h; subst h
    have R := (lexRaw_props hs hr).1
    intro t ht
    obtain ⟨t', ht', e1, e2, _, _, hk⟩ := softKwGo_mem_tok ht
    have S := R t' ht'
    have et : tokText src t = tokText src t' := by simp [tokText, e1, e2]
    rw [et]
    rcases hk with hk | ⟨kw, hk1, hk2⟩
    · rw [hk]; exact S
    · rw [hk2]; rw [hk1] at S; simpa [Spells] using S

example : Spells (.op .RightShiftEqual) [62, 62, 61] := by simp [Spells, opText]
example : Spells (.int 255) [48, 120, 70, 95, 102] := by simp only [Spells]; decide
example : Spells (.string [97, 10, 98] .rawBytes true) [82, 98, 39, 39, 39, 97, 13, 10, 98, 39, 39, 39] :=
  ⟨[82, 98], 39, [97, 13, 10, 98], Or.inr rfl, by decide, by decide, by decide⟩

/-! ### NEWLINE only outside brackets; INDENT / DEDENT balanced -/

/-- every `Newline` token stands at bracket depth 0, the depth being counted from the bracket
    tokens in front of it -/
theorem newline_only_at_depth0 {cfg : Cfg} (hs : cfg.up.Sane) {mode : Mode} {k : Nat} {src : List Nat}
    {out : LexOut} (h : lex cfg mode k src = some out) : NewlinesAtDepth0 0 (out.toks.map (·.tok)) := by
  unfold lex at h
  cases hr : lexRaw cfg k src with
  | none => simp [hr] at h
  | some o =>
    simp [hr] at h; subst h
    exact (softKwGo_newlines _ _ _).mpr (lexRaw_props hs hr).2.1

/-- at every point of the stream there have been at least as many INDENTs as DEDENTs, and when the
    text lexes without error the two numbers are equal at the end -/
theorem indents_balanced {cfg : Cfg} (hs : cfg.up.Sane) {mode : Mode} {k : Nat} {src : List Nat}
    {out : LexOut} (h : lex cfg mode k src = some out) :
    ∃ b, indentBalance 0 (out.toks.map (·.tok)) = some b ∧ (out.fin = .eof → b = 0) := by
  unfold lex at h
  cases hr : lexRaw cfg k src with
  | none => simp [hr] at h
  | some o =>
    simp [hr] at h; subst h
    simp only [softKw, softKwGo_balance]
    exact (lexRaw_props hs hr).2.2.1

example : indentBalance 0 [.kw .If, .indent, .name [120], .newline, .dedent] = some 0 := by decide
example : indentBalance 0 [.dedent] = none := by decide

/-! ### the full lexer tiles the source -/

/-- With `full-lexer` (comments and non-logical newlines are tokens) a text that lexes without error is
    tiled by its tokens: what lies in front of the first token (behind a byte-order mark), between two
    consecutive tokens and after the last token consists only of blanks, tabs, form feeds and
    backslash-newline joins. -/
theorem full_lexer_tiles {cfg : Cfg} (hs : cfg.up.Sane) (hf : cfg.fullLexer = true) {mode : Mode} {k : Nat}
    {src : List Nat} {out : LexOut} (h : lex cfg mode k src = some out) (hok : out.fin = .eof) :
    Tiles GF src out.toks := by
  unfold lex at h
  cases hr : lexRaw cfg k src with
  | none => simp [hr] at h
  | some o =>
    simp [hr] at h; subst h
    have := (lexRaw_props hs hr).2.2.2 hf hok
    simpa [Tiles, softKw, softKwGo_cspans] using this

example : ∃ out, lex ⟨true, asciiParams⟩ .module 0 exSrc = some out ∧ out.fin = .eof := by decide

/-! ### the default lexer: gaps are whitespace, comments and joins -/

/-- In the default configuration a text that lexes without error is tiled by its tokens: what lies in
    front of the first token (behind a byte-order mark), between two consecutive tokens and after the last
    token is accepted by the gap scanner `gapPlain`: blanks, tabs, form feeds, backslash-newline joins,
    comments running from `#` to the end of their line, and line breaks.  (Which line breaks may be
    gaps — only those inside brackets or of blank lines — is `newline_only_at_depth0` together with
    `full_lexer_tiles` and `PV.C10.full_lexer_filter`: every line break in a gap is a
    `NonLogicalNewline` token of the full lexer.) -/
theorem gaps_are_trivia {cfg : Cfg} (hs : cfg.up.Sane) (hf : cfg.fullLexer = false) {mode : Mode} {k : Nat}
    {src : List Nat} {out : LexOut} (h : lex cfg mode k src = some out) (hok : out.fin = .eof) :
    Tiles GP src out.toks := by
  unfold lex at h
  cases hr : lexRaw cfg k src with
  | none => simp [hr] at h
  | some o =>
    simp [hr] at h; subst h
    have := lexRaw_tiles_plain hs hf hr hok
    simpa [Tiles, softKw, softKwGo_cspans] using this

example : gapPlain false [32, 35, 32, 99, 10, 32, 32, 92, 13, 10, 9] = true := by decide
example : gapPlain false [32, 120] = false := by decide

/-! ### INDENT / DEDENT only at the start of a logical line -/

/-- an `Indent` or `Dedent` token is preceded — comments and non-logical newlines aside — by a
    `Newline`, another `Indent` / `Dedent`, or nothing -/
theorem indent_dedent_at_line_start {cfg : Cfg} (hs : cfg.up.Sane) {mode : Mode} {k : Nat} {src : List Nat}
    {out : LexOut} (h : lex cfg mode k src = some out) : DentsAtLineStart true (out.toks.map (·.tok)) := by
  unfold lex at h
  cases hr : lexRaw cfg k src with
  | none => simp [hr] at h
  | some o =>
    simp [hr] at h; subst h
    exact (softKwGo_dents _ _ _).mpr (lexRaw_dents hs hr)

example : DentsAtLineStart true [.kw .If, .newline, .comment [35], .nonLogicalNewline, .indent, .name [120]] := by
  simp [DentsAtLineStart, lineStartStep]
example : ¬ DentsAtLineStart true [.name [120], .indent] := by simp [DentsAtLineStart, lineStartStep]

/-! ### line breaks that are not NEWLINE tokens: only inside brackets or on blank lines -/

/-- every `NonLogicalNewline` token (full lexer; by `PV.C10.full_lexer_filter` these are exactly the line
    breaks that the default lexer leaves in gaps) stands at bracket depth > 0 or at the start of a
    logical line, i.e. it ends a line that holds nothing but blanks and comments -/
theorem nonlogical_newline_placement {cfg : Cfg} (hs : cfg.up.Sane) {mode : Mode} {k : Nat} {src : List Nat}
    {out : LexOut} (h : lex cfg mode k src = some out) : NlnPlacement 0 true (out.toks.map (·.tok)) := by
  unfold lex at h
  cases hr : lexRaw cfg k src with
  | none => simp [hr] at h
  | some o =>
    simp [hr] at h; subst h
    exact (softKwGo_nln _ _ _ _).mpr (lexRaw_nln hs hr)

example : NlnPlacement 0 true [.comment [35], .nonLogicalNewline, .name [120], .op .Lpar, .nonLogicalNewline] := by
  simp [NlnPlacement, lineStartStep, depthStep]
example : ¬ NlnPlacement 0 true [.name [120], .nonLogicalNewline] := by
  simp [NlnPlacement, lineStartStep, depthStep]

/-! ### the default lexer: which line breaks may lie in gaps -/

/-- **In the default configuration a line break that no token covers is a backslash join, stands inside brackets, or
    ends a line that holds nothing but blanks and comments.**  `DefaultGapsLineBreaks src toks` (PV/C05/GapBreaks.lean):
    walking along the token stream with the bracket depth `d` and the flag `ls` ("no token since the last
    NEWLINE / INDENT / DEDENT") counted from the tokens, every position `i` in front of the first token (behind a
    byte-order mark), between two consecutive tokens, or behind the last token that holds a line-break character `⏎` / `␍`
    not directly preceded by a backslash (`FreeBreakAt`) has `0 < d` or `ls = true`.

    This is the statement that `gaps_are_trivia` leaves open ("which line breaks may be gaps"), packaged: it combines
    `full_lexer_tiles` (gaps of the full lexer hold only blanks and joins), `nonlogical_newline_placement` (its
    `NonLogicalNewline` tokens stand inside brackets or on blank lines), `token_text_spells` (its `Comment` tokens hold no
    line break) and `PV.C10.full_lexer_filter` (the default stream is the full stream without those tokens). -/
theorem default_gaps_line_breaks {cfg : Cfg} (hs : cfg.up.Sane) (hf : cfg.fullLexer = false) {mode : Mode} {k : Nat}
    {src : List Nat} {out : LexOut} (h : lex cfg mode k src = some out) (hok : out.fin = .eof) :
    DefaultGapsLineBreaks src out.toks := by
  obtain ⟨fl, up⟩ := cfg
  simp only at hf hs
  subst hf
  unfold lex at h
  cases hr : lexRaw ⟨false, up⟩ k src with
  | none => simp [hr] at h
  | some o =>
    simp [hr] at h; subst h
    simp only at hok
    rw [PV.C10.lexRaw_filter] at hr
    cases hF : lexRaw ⟨true, up⟩ k src with
    | none => simp [hF] at hr
    | some oF =>
      simp only [hF, Option.map_some, Option.some.injEq] at hr
      subst hr
      have hokF : oF.fin = .eof := by simpa [PV.C10.dropOut] using hok
      have P := lexRaw_props (cfg := ⟨true, up⟩) hs hF
      have T := P.2.2.2 rfl hokF
      have N := lexRaw_nln (cfg := ⟨true, up⟩) hs hF
      unfold DefaultGapsLineBreaks
      simp only [softKw, softKwGo_gapBreaks, PV.C10.dropOut]
      unfold Tiles at T
      rw [srcBody_eq_drop] at T
      exact gapBreaksOk_of_full src oF.toks 0 true (bomLen src) (bomLen src) (Nat.le_refl _) (fun i a b => by omega) T N
        (fun t ht c hc => comment_no_break hc (P.1 t ht)) (fun t _ htr => trivia_kind htr)


/-- `f(⏎1) # c⏎⏎x \⏎= 2⏎`: a line break inside brackets, a comment, a blank line, a backslash join — the hypotheses
    of the theorem hold … -/
def gapSrc : List Nat := [102, 40, 10, 49, 41, 32, 35, 32, 99, 10, 10, 120, 32, 92, 10, 61, 32, 50, 10]

example : ∃ out, lex ⟨false, asciiParams⟩ .module 0 gapSrc = some out ∧ out.fin = .eof ∧
    out.toks.map (·.tok) = [.name [102], .op .Lpar, .int 1, .op .Rpar, .newline, .name [120], .op .Equal, .int 2, .newline] ∧
    DefaultGapsLineBreaks gapSrc out.toks := by
  have h : lex ⟨false, asciiParams⟩ .module 0 gapSrc = some
      ⟨[⟨.name [102], 0, 1, 0, 1⟩, ⟨.op .Lpar, 1, 2, 1, 2⟩, ⟨.int 1, 3, 4, 3, 4⟩, ⟨.op .Rpar, 4, 5, 4, 5⟩,
        ⟨.newline, 9, 10, 9, 10⟩, ⟨.name [120], 11, 12, 11, 12⟩, ⟨.op .Equal, 15, 16, 15, 16⟩, ⟨.int 2, 17, 18, 17, 18⟩,
        ⟨.newline, 18, 19, 18, 19⟩], .eof, 19⟩ := by decide +kernel
  exact ⟨_, h, rfl, rfl, default_gaps_line_breaks asciiParams_sane rfl h rfl⟩

/-- … and the predicate is not trivially true: a stream `x y` over the text `x⏎y` (no NEWLINE token over the line
    break, depth 0, a token in front of it on the line) violates it -/
example : ¬ DefaultGapsLineBreaks [120, 10, 121] [⟨.name [120], 0, 1, 0, 1⟩, ⟨.name [121], 2, 3, 2, 3⟩] := by
  intro h
  have := h.2.1 1 (by decide) (by decide) ⟨Or.inl rfl, by simp [JoinedAt]⟩
  simp [depthStep, lineStartStep] at this

end PV.C05
