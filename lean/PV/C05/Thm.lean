import PV.C05.Spec
import PV.C05.Lemmas
/-
  C05 — the token stream tiles the source: property theorems.

  All theorems are about `PV.Lexer.lex cfg mode k src` (= `lexer::lex_starts_at(src, mode, k)` drained up
  to and including the first error; `PV/Lexer/SoftKw.lean`), for EVERY source `src : List Nat`, start offset
  `k`, mode and lexer configuration `cfg` (`fullLexer` on or off, arbitrary Unicode tables satisfying
  `UParams.Sane`).  Helper lemmas: `PV/Lexer/Lemmas.lean` (per-step contract) and `PV/C05/Lemmas.lean`.
-/
namespace PV.C05
open PV.Lexer

/-- an example parameter instantiation (ASCII only) used by the non-vacuity examples -/
def asciiParams : UParams := ⟨fun _ => false, fun _ => false, fun _ => false⟩

theorem asciiParams_sane : asciiParams.Sane := ⟨by simp [asciiParams], rfl, rfl⟩

/-- `if x:\n  y = 1\n` -/
def exSrc : List Nat := [105, 102, 32, 120, 58, 10, 32, 32, 121, 32, 61, 32, 49, 10]

/-! ### termination -/

/-- The fuel `length + 1` that `lex` uses always suffices: the stream (tokens up to and including
    the first error) is finite and the loop never runs out of fuel. -/
theorem lex_terminates {cfg : Cfg} (hs : cfg.up.Sane) {mode : Mode} {k : Nat} {src : List Nat} {out : LexOut}
    (h : lex cfg mode k src = some out) : out.fin ≠ .outOfFuel := by
  unfold lex at h
  cases hr : lexRaw cfg k src with
  | none => simp [hr] at h
  | some o =>
    simp [hr] at h; subst h
    exact (lexRaw_spec hs hr).1

example : ∃ out, lex ⟨false, asciiParams⟩ .module 0 exSrc = some out ∧ out.fin = .eof ∧ out.toks.length = 10 := by
  decide

/-! ### ranges are inside the input, on character boundaries, ordered and disjoint -/

/-- every token range lies inside the input: character span within `[0, |src|]`, byte span within
    `[k, k + utf8Len src]`, start ≤ end -/
theorem tokens_in_bounds {cfg : Cfg} (hs : cfg.up.Sane) {mode : Mode} {k : Nat} {src : List Nat} {out : LexOut}
    (h : lex cfg mode k src = some out) :
    ∀ t ∈ out.toks, t.cs ≤ t.ce ∧ t.ce ≤ src.length ∧ k ≤ t.bs ∧ t.bs ≤ t.be ∧ t.be ≤ k + utf8Len src := by
  unfold lex at h
  cases hr : lexRaw cfg k src with
  | none => simp [hr] at h
  | some o =>
    simp [hr] at h; subst h
    have R := lexRaw_spec hs hr
    intro t ht
    obtain ⟨t', ht', e1, e2, e3, e4⟩ := softKwGo_mem ht
    have C := R.2.1.mem ht'
    have B := R.2.2 t' ht'
    rw [← e1, ← e2, ← e3, ← e4, B.1, B.2]
    unfold bytePos
    have := utf8Len_take_mono src C.2.1
    have := utf8Len_take_le src t'.ce
    omega

/-- every token boundary is a character boundary of the UTF-8 text: the byte offsets are the
    prefix sums of the UTF-8 sizes at the token's character indices -/
theorem tokens_on_boundaries {cfg : Cfg} (hs : cfg.up.Sane) {mode : Mode} {k : Nat} {src : List Nat} {out : LexOut}
    (h : lex cfg mode k src = some out) :
    ∀ t ∈ out.toks, t.bs = bytePos k src t.cs ∧ t.be = bytePos k src t.ce ∧
      OnBoundary src (t.bs - k) ∧ OnBoundary src (t.be - k) := by
  unfold lex at h
  cases hr : lexRaw cfg k src with
  | none => simp [hr] at h
  | some o =>
    simp [hr] at h; subst h
    have R := lexRaw_spec hs hr
    intro t ht
    obtain ⟨t', ht', e1, e2, e3, e4⟩ := softKwGo_mem ht
    have C := R.2.1.mem ht'
    have B := R.2.2 t' ht'
    rw [← e1, ← e2, ← e3, ← e4, B.1, B.2]
    refine ⟨rfl, rfl, ⟨t'.cs, by omega, ?_⟩, ⟨t'.ce, by omega, ?_⟩⟩ <;>
      simp [bytePos, utf8Len_eq_encode]

/-- tokens come in non-decreasing order and do not overlap (in characters and in bytes) -/
theorem tokens_ordered_disjoint {cfg : Cfg} (hs : cfg.up.Sane) {mode : Mode} {k : Nat} {src : List Nat}
    {out : LexOut} (h : lex cfg mode k src = some out) :
    out.toks.Pairwise (fun a b => a.ce ≤ b.cs ∧ a.be ≤ b.bs) := by
  have hb := tokens_on_boundaries hs h
  unfold lex at h
  cases hr : lexRaw cfg k src with
  | none => simp [hr] at h
  | some o =>
    simp [hr] at h; subst h
    have R := lexRaw_spec hs hr
    have P := ((softKwGo_chain (lo := 0) (hi := src.length) o.toks (mode != .expression)).mpr R.2.1).pairwise
    refine List.Pairwise.imp_of_mem ?_ P
    intro a b ha hb' hab
    refine ⟨hab, ?_⟩
    rw [(hb a ha).2.1, (hb b hb').1]
    unfold bytePos
    have := utf8Len_take_mono src hab
    omega

end PV.C05
