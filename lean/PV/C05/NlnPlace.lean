import PV.C05.LineStart
/-
  C05 — a `NonLogicalNewline` token (full lexer) stands inside brackets or on a blank line.
-/
namespace PV.C05
open PV.Lexer

theorem nln_append {d : Nat} {ls : Bool} {a b : List Tok} (ha : NlnPlacement d ls a)
    (hb : NlnPlacement (depthAfter d a) (lsAfter ls a) b) : NlnPlacement d ls (a ++ b) := by
  induction a generalizing d ls with
  | nil => simpa [depthAfter, lsAfter] using hb
  | cons t ts ih => exact ⟨ha.1, ih ha.2 (by simpa [depthAfter, lsAfter] using hb)⟩

theorem nln_free {l : List Tok} (h : ∀ t ∈ l, t ≠ .nonLogicalNewline) (d : Nat) (ls : Bool) :
    NlnPlacement d ls l := by
  induction l generalizing d ls with
  | nil => trivial
  | cons t ts ih => exact ⟨fun ht => absurd ht (h t (by simp)), ih (fun x hx => h x (by simp [hx])) _ _⟩

theorem nln_trivia_ls {l : List Tok} (h : ∀ t ∈ l, t.isTrivia = true) (d : Nat) :
    NlnPlacement d true l := by
  induction l generalizing d with
  | nil => trivial
  | cons t ts ih =>
    have ht := h t (by simp)
    have e1 : lineStartStep true t = true := by cases t <;> simp [Tok.isTrivia] at ht <;> rfl
    have e2 : depthStep d t = d := by cases t <;> simp [Tok.isTrivia] at ht <;> rfl
    exact ⟨fun _ => Or.inr rfl, by rw [e1, e2]; exact ih (fun x hx => h x (by simp [hx])) d⟩

theorem cnspec_nln {cfg : Cfg} {st : LexState} {inp : List Nat} {o : StepOut} (h : CNSpec cfg st inp o)
    (ls : Bool) : NlnPlacement st.nesting ls (o.toks.map (·.tok)) := by
  cases h with
  | nln n h2 nl hn hf => exact ⟨fun _ => Or.inl (by omega), trivial⟩
  | tok tok n h1 h2 sp pl cm =>
    apply nln_free; intro t ht; simp [one] at ht; subst ht
    intro hc; subst hc; simp [plain] at pl
  | openB o h2 sp ho => apply nln_free; intro t ht; simp [one] at ht; subst ht; simp
  | closeB o h2 sp ho hn => apply nln_free; intro t ht; simp [one] at ht; subst ht; simp
  | newline n h2 nl hn => apply nln_free; intro t ht; simp [one] at ht; subst ht; simp
  | gap n h1 h2 g => simp [skip, NlnPlacement]
  | eof hinp hn =>
    apply nln_free
    intro t ht
    simp only [List.map_append, List.map_replicate, List.mem_append, List.mem_map, List.mem_replicate] at ht
    rcases ht with ⟨tk, htk, rfl⟩ | ⟨_, rfl⟩
    · split at htk
      · simp at htk
      · simp at htk; subst htk; simp
    · simp

theorem step_nln {cfg : Cfg} (hs : cfg.up.Sane) {st : LexState} {inp : List Nat} {o : StepOut}
    (h : step cfg st inp = .ok o) (ls : Bool) (hinv : st.atBol = true → ls = true) :
    NlnPlacement st.nesting ls (o.toks.map (·.tok)) := by
  rcases step_spec hs h with ⟨hb, hc⟩ | ⟨hb, eo, extra, stack, o2, he, hx, hc, rfl, _⟩
  · exact cnspec_nln hc ls
  · have hls := hinv hb; subst hls
    have htriv : ∀ t ∈ eo.toks.map (·.tok), t.isTrivia = true := by
      intro t ht; obtain ⟨tk, htk, rfl⟩ := List.mem_map.mp ht
      have := (eatIndent_toks he (inp := inp) (by simp) tk htk).2
      rcases this with ⟨h1, _⟩ | ⟨c, h1, _⟩ <;> rw [h1] <;> rfl
    have T1 := nln_trivia_ls htriv st.nesting
    have T2 := trivia_list_ls htriv true
    have D1 := neutral_list (l := eo.toks.map (·.tok)) (by
      intro t ht; obtain ⟨tk, htk, rfl⟩ := List.mem_map.mp ht
      exact trivTok_neutral (eatIndent_toks he (inp := inp) (by simp) tk htk)) st.nesting
    have X1 := hiExtra_neutral hx
    have DX := neutral_list X1 st.nesting
    have C := cnspec_nln hc (lsAfter true (extra.map (·.tok)))
    have e : (List.map (fun x => x.tok) (eo.toks ++ extra ++ List.map (fun x => x.shift eo.pos) o2.toks))
        = eo.toks.map (·.tok) ++ (extra.map (·.tok) ++ o2.toks.map (·.tok)) := by
      simp [RelTok.shift, Function.comp_def]
    simp only [e]
    refine nln_append T1 ?_
    rw [D1.2, T2.2]
    refine nln_append ?_ ?_
    · apply nln_free
      intro t ht
      cases hx with
      | same => simp at ht
      | indent => simp at ht; subst ht; simp
      | dedent hn n stack hlen => simp at ht; rw [ht.2]; simp
    · rw [DX.2]; exact C

theorem lexAll_nln {cfg : Cfg} (hs : cfg.up.Sane) (fuel : Nat) (st : LexState) (inp : List Nat) (cb bb : Nat)
    (hi : StInv st) (ls : Bool) (hinv : st.atBol = true → ls = true) :
    NlnPlacement st.nesting ls ((lexAll cfg fuel st inp cb bb).toks.map (·.tok)) := by
  induction fuel generalizing st inp cb bb ls with
  | zero => simp [lexAll, NlnPlacement]
  | succ fuel ih =>
    unfold lexAll
    cases hstep : step cfg st inp with
    | error e => simp [NlnPlacement]
    | ok o =>
      simp only []
      have S := step_ok hs hi hstep
      have N := step_nln hs hstep ls hinv
      have D := step_newlines hs hstep
      have L := step_dents hs hstep ls hinv
      have e : (o.toks.map (absTok inp cb bb)).map (·.tok) = o.toks.map (·.tok) := by
        simp [absTok, Function.comp_def]
      by_cases hd : o.done = true
      · simp only [hd, if_true, e]; exact N
      · have hd' : o.done = false := by simpa using hd
        simp only [hd', Bool.false_eq_true, if_false, List.map_append, e]
        refine nln_append N ?_
        rw [D.2]
        exact ih o.st _ _ _ S.2.2.2.1 _ L.2

theorem softKwGo_nln (ts : List Spanned) (st : SoftSt) (d : Nat) (ls : Bool) :
    NlnPlacement d ls ((softKwGo ts st).map (·.tok)) ↔ NlnPlacement d ls (ts.map (·.tok)) := by
  induction ts generalizing st d ls with
  | nil => simp [softKwGo]
  | cons a ts ih =>
    simp only [softKwGo, List.map_cons, NlnPlacement]
    rcases softTok_cases st.sol st.sos a ts with h | ⟨k, hk, h⟩
    · rw [h, ih]
    · rw [h, hk, ih]; simp [lineStartStep, depthStep]

theorem lexRaw_nln {cfg : Cfg} (hs : cfg.up.Sane) {k : Nat} {src : List Nat} {out : LexOut}
    (h : lexRaw cfg k src = some out) : NlnPlacement 0 true (out.toks.map (·.tok)) := by
  unfold lexRaw lexRawFuel at h
  simp only [] at h
  split at h
  · have h := finish_some h; subst h
    simpa [LexState.init] using lexAll_nln hs _ .init _ _ _ stInv_init true (fun _ => rfl)
  · have h := finish_some h; subst h
    simpa [LexState.init] using lexAll_nln hs _ .init _ _ _ stInv_init true (fun _ => rfl)

end PV.C05
