import PV.C05.Indent
import PV.C05.Lemmas
/-
  C05 — from the step specification (`step_spec`) to the whole stream: spelling, NEWLINE depth,
  INDENT/DEDENT balance, tiling (full lexer).
-/
namespace PV.C05
open PV.Lexer

/-- the text of a relative token -/
def relText (inp : List Nat) (tk : RelTok) : List Nat := (inp.drop tk.s).take (tk.e - tk.s)

def RelSpells (inp : List Nat) (tk : RelTok) : Prop := tk.s ≤ tk.e ∧ Spells tk.tok (relText inp tk)

theorem cnspec_spells {cfg : Cfg} {st : LexState} {inp : List Nat} {o : StepOut} (h : CNSpec cfg st inp o) :
    ∀ tk ∈ o.toks, RelSpells inp tk := by
  cases h with
  | tok tok n h1 h2 sp pl cm => intro tk htk; simp [one] at htk; subst htk; exact ⟨by simp, by simpa [relText] using sp⟩
  | openB o h2 sp ho => intro tk htk; simp [one] at htk; subst htk; exact ⟨by simp, by simpa [relText, Spells] using sp⟩
  | closeB o h2 sp ho hn => intro tk htk; simp [one] at htk; subst htk; exact ⟨by simp, by simpa [relText, Spells] using sp⟩
  | newline n h2 nl hn => intro tk htk; simp [one] at htk; subst htk; exact ⟨by simp, by simpa [relText, Spells] using Or.inl nl⟩
  | nln n h2 nl hn hf => intro tk htk; simp [one] at htk; subst htk; exact ⟨by simp, by simpa [relText, Spells] using nl⟩
  | gap n h1 h2 g => simp [skip]
  | eof hinp hn =>
    intro tk htk
    simp only [List.mem_append, List.mem_replicate] at htk
    rcases htk with htk | ⟨_, rfl⟩
    · split at htk
      · simp at htk
      · simp at htk; subst htk; exact ⟨by simp, by simp [relText, Spells]⟩
    · exact ⟨by simp, by simp [relText, Spells]⟩

theorem mem_take_drop {inp : List Nat} {a k x : Nat} (h : x ∈ (inp.drop a).take k) :
    ∃ i, a ≤ i ∧ i < a + k ∧ inp[i]? = some x := by
  obtain ⟨j, hj⟩ := List.mem_iff_getElem?.mp h
  rw [List.getElem?_take] at hj
  split at hj
  · rw [List.getElem?_drop] at hj
    exact ⟨a + j, by omega, by omega, hj⟩
  · simp at hj

theorem step_spells {cfg : Cfg} (hs : cfg.up.Sane) {st : LexState} {inp : List Nat} {o : StepOut}
    (h : step cfg st inp = .ok o) : ∀ tk ∈ o.toks, RelSpells inp tk := by
  rcases step_spec hs h with ⟨_, hc⟩ | ⟨_, eo, extra, stack, o2, he, hx, hc, rfl, _⟩
  · exact cnspec_spells hc
  · intro tk htk
    simp only [List.mem_append, List.mem_map] at htk
    rcases htk with (htk | htk) | ⟨tk2, htk2, rfl⟩
    · have T := eatIndent_toks he (inp := inp) (by simp) tk htk
      refine ⟨T.1, ?_⟩
      rcases T.2 with ⟨ht, hnl⟩ | ⟨c, ht, sp, _⟩
      · rw [ht]; exact hnl
      · rw [ht]; exact sp
    · have E := eatIndent_ok he 0 (by omega) (by omega)
      cases hx with
      | same => simp at htk
      | indent hn hpos hle =>
        simp at htk; subst htk
        have R := eatIndent_run he (inp := inp) (by simp) (by omega) (by omega) (by intro i h1 h2; omega)
        refine ⟨by simp; omega, ?_⟩
        simp only [Spells, relText]
        have e : eo.pos - (eo.pos - eo.spaces - eo.tabs) = eo.spaces + eo.tabs := by omega
        rw [e]
        constructor
        · intro hnil
          have := congrArg List.length hnil
          simp only [List.length_take, List.length_drop, List.length_nil] at this
          have := E.2.1
          omega
        · intro x hx
          obtain ⟨i, h1, h2, h3⟩ := mem_take_drop hx
          have := R.2 i (by omega) (by omega)
          rw [h3] at this
          simpa using this
      | dedent hn n stack hlen =>
        simp only [List.mem_replicate] at htk
        obtain ⟨_, rfl⟩ := htk
        exact ⟨by simp, by simp [relText, Spells]⟩
    · have := cnspec_spells hc tk2 htk2
      refine ⟨by simp [RelTok.shift]; exact this.1, ?_⟩
      have e : relText inp (tk2.shift eo.pos) = relText (inp.drop eo.pos) tk2 := by
        have e1 : eo.pos + tk2.e - (eo.pos + tk2.s) = tk2.e - tk2.s := by omega
        simp only [relText, RelTok.shift, List.drop_drop, Nat.add_comm, e1]
      rw [e]
      exact this.2

theorem lexAll_spells {cfg : Cfg} (hs : cfg.up.Sane) (fuel : Nat) (st : LexState) (inp : List Nat) (cb bb : Nat)
    (hi : StInv st) : ∀ t ∈ (lexAll cfg fuel st inp cb bb).toks,
      cb ≤ t.cs ∧ Spells t.tok ((inp.drop (t.cs - cb)).take (t.ce - t.cs)) := by
  induction fuel generalizing st inp cb bb with
  | zero => simp [lexAll]
  | succ fuel ih =>
    unfold lexAll
    cases hstep : step cfg st inp with
    | error e => simp
    | ok o =>
      simp only []
      have S := step_ok hs hi hstep
      have here : ∀ t ∈ o.toks.map (absTok inp cb bb),
          cb ≤ t.cs ∧ Spells t.tok ((inp.drop (t.cs - cb)).take (t.ce - t.cs)) := by
        intro t ht
        obtain ⟨r, hr, rfl⟩ := List.mem_map.mp ht
        have := step_spells hs hstep r hr
        refine ⟨by simp [absTok], ?_⟩
        have e1 : cb + r.s - cb = r.s := by omega
        have e2 : cb + r.e - (cb + r.s) = r.e - r.s := by omega
        simpa [absTok, e1, e2, relText] using this.2
      by_cases hd : o.done = true
      · simpa only [hd, if_true] using here
      · simp only [hd]
        intro t ht
        rcases List.mem_append.mp ht with ht | ht
        · exact here t ht
        · have B := ih o.st (inp.drop o.consumed) (cb + o.consumed) (bb + utf8Len (inp.take o.consumed))
            S.2.2.2.1 t ht
          refine ⟨by omega, ?_⟩
          have e : t.cs - cb = o.consumed + (t.cs - (cb + o.consumed)) := by omega
          rw [e, ← List.drop_drop]
          exact B.2

/-! ### NEWLINE only at depth 0 -/

def depthAfter (d : Nat) (toks : List Tok) : Nat := toks.foldl depthStep d

theorem nl_append {d : Nat} {a b : List Tok} (ha : NewlinesAtDepth0 d a) (hb : NewlinesAtDepth0 (depthAfter d a) b) :
    NewlinesAtDepth0 d (a ++ b) := by
  induction a generalizing d with
  | nil => simpa [depthAfter] using hb
  | cons t ts ih => exact ⟨ha.1, ih ha.2 (by simpa [depthAfter] using hb)⟩

theorem depthAfter_append (d : Nat) (a b : List Tok) : depthAfter d (a ++ b) = depthAfter (depthAfter d a) b := by
  simp [depthAfter]

/-- a token that is neither a `Newline` nor a bracket -/
def Neutral (t : Tok) : Prop := t ≠ .newline ∧ ∀ d, depthStep d t = d

theorem neutral_list {l : List Tok} (h : ∀ t ∈ l, Neutral t) (d : Nat) :
    NewlinesAtDepth0 d l ∧ depthAfter d l = d := by
  induction l with
  | nil => simp [NewlinesAtDepth0, depthAfter]
  | cons t ts ih =>
    have N := h t (by simp)
    have := ih (fun x hx => h x (by simp [hx]))
    refine ⟨⟨fun ht => absurd ht N.1, by rw [N.2]; exact this.1⟩, ?_⟩
    simp only [depthAfter, List.foldl_cons, N.2]
    exact this.2

theorem plain_neutral {t : Tok} (h : plain t = true) : Neutral t := by
  cases t <;> simp [plain] at h <;> try (exact ⟨by simp, fun d => rfl⟩)
  rename_i o
  cases o <;> simp [plain] at h <;> exact ⟨by simp, fun d => rfl⟩

theorem cnspec_newlines {cfg : Cfg} {st : LexState} {inp : List Nat} {o : StepOut} (h : CNSpec cfg st inp o) :
    NewlinesAtDepth0 st.nesting (o.toks.map (·.tok)) ∧ depthAfter st.nesting (o.toks.map (·.tok)) = o.st.nesting := by
  cases h with
  | tok tok n h1 h2 sp pl cm =>
    have N := plain_neutral pl
    simp [one, NewlinesAtDepth0, depthAfter, N.2]; exact fun h => absurd h N.1
  | openB o h2 sp ho =>
    rcases ho with rfl | rfl | rfl <;> simp [one, NewlinesAtDepth0, depthAfter, depthStep]
  | closeB o h2 sp ho hn =>
    rcases ho with rfl | rfl | rfl <;> simp [one, NewlinesAtDepth0, depthAfter, depthStep]
  | newline n h2 nl hn => simp [one, NewlinesAtDepth0, depthAfter, depthStep, hn]
  | nln n h2 nl hn hf => simp [one, NewlinesAtDepth0, depthAfter, depthStep]
  | gap n h1 h2 g => simp [skip, NewlinesAtDepth0, depthAfter]
  | eof hinp hn =>
    simp only [List.map_append, List.map_replicate]
    have D := neutral_list (l := List.replicate (flushIndents st.indents).1 Tok.dedent)
      (by intro t ht; simp at ht; rw [ht.2]; exact ⟨by simp, fun d => rfl⟩)
    split
    · simpa [hn] using D 0
    · simp only [List.map_cons, List.map_nil, List.cons_append, List.nil_append, NewlinesAtDepth0, depthAfter,
        List.foldl_cons, depthStep, hn]
      have := D 0
      simpa [depthAfter] using this

theorem trivTok_neutral {inp : List Nat} {tk : RelTok} (h : TrivTok inp tk) : Neutral tk.tok := by
  rcases h.2 with ⟨ht, _⟩ | ⟨c, ht, _⟩ <;> rw [ht] <;> exact ⟨by simp, fun d => rfl⟩

theorem hiExtra_neutral {st : LexState} {eo : EatOut} {extra : List RelTok} {stack : List IndentLevel}
    (h : HIExtra st eo extra stack) : ∀ t ∈ extra.map (·.tok), Neutral t := by
  cases h with
  | same => simp
  | indent => intro t ht; simp at ht; subst ht; exact ⟨by simp, fun d => rfl⟩
  | dedent hn n stack hlen => intro t ht; simp at ht; rw [ht.2]; exact ⟨by simp, fun d => rfl⟩

theorem step_newlines {cfg : Cfg} (hs : cfg.up.Sane) {st : LexState} {inp : List Nat} {o : StepOut}
    (h : step cfg st inp = .ok o) :
    NewlinesAtDepth0 st.nesting (o.toks.map (·.tok)) ∧ depthAfter st.nesting (o.toks.map (·.tok)) = o.st.nesting := by
  rcases step_spec hs h with ⟨_, hc⟩ | ⟨_, eo, extra, stack, o2, he, hx, hc, rfl, _⟩
  · exact cnspec_newlines hc
  · have T := eatIndent_toks he (inp := inp) (by simp)
    have N1 := neutral_list (l := (eo.toks ++ extra).map (·.tok)) (by
      intro t ht
      simp only [List.map_append, List.mem_append, List.mem_map] at ht
      rcases ht with ⟨tk, htk, rfl⟩ | ⟨tk, htk, rfl⟩
      · exact trivTok_neutral (T tk htk)
      · exact hiExtra_neutral hx _ (List.mem_map.mpr ⟨tk, htk, rfl⟩)) st.nesting
    have N2 := cnspec_newlines hc
    have e : (List.map (fun x => x.tok) (eo.toks ++ extra ++ List.map (fun x => x.shift eo.pos) o2.toks))
        = (eo.toks ++ extra).map (·.tok) ++ o2.toks.map (·.tok) := by
      simp [RelTok.shift, Function.comp_def]
    simp only [e]
    refine ⟨nl_append N1.1 (by rw [N1.2]; exact N2.1), ?_⟩
    rw [depthAfter_append, N1.2]; exact N2.2

theorem lexAll_newlines {cfg : Cfg} (hs : cfg.up.Sane) (fuel : Nat) (st : LexState) (inp : List Nat) (cb bb : Nat)
    (hi : StInv st) : NewlinesAtDepth0 st.nesting ((lexAll cfg fuel st inp cb bb).toks.map (·.tok)) := by
  induction fuel generalizing st inp cb bb with
  | zero => simp [lexAll, NewlinesAtDepth0]
  | succ fuel ih =>
    unfold lexAll
    cases hstep : step cfg st inp with
    | error e => simp [NewlinesAtDepth0]
    | ok o =>
      simp only []
      have S := step_ok hs hi hstep
      have N := step_newlines hs hstep
      have e : (o.toks.map (absTok inp cb bb)).map (·.tok) = o.toks.map (·.tok) := by
        simp [absTok, Function.comp_def]
      by_cases hd : o.done = true
      · simp only [hd, if_true, e]; exact N.1
      · have hd' : o.done = false := by simpa using hd
        simp only [hd', Bool.false_eq_true, if_false, List.map_append, e]
        refine nl_append N.1 ?_
        rw [N.2]
        exact ih o.st _ _ _ S.2.2.2.1

/-! ### INDENT / DEDENT balance -/

theorem balance_append (b : Nat) (a c : List Tok) :
    indentBalance b (a ++ c) = (indentBalance b a).bind (fun b' => indentBalance b' c) := by
  induction a generalizing b with
  | nil => simp [indentBalance]
  | cons t ts ih =>
    cases t <;> simp only [List.cons_append, indentBalance, ih]
    split <;> simp

/-- a token that is neither `Indent` nor `Dedent` -/
def NoDent (t : Tok) : Prop := t ≠ .indent ∧ t ≠ .dedent

theorem balance_nodent {l : List Tok} (h : ∀ t ∈ l, NoDent t) (b : Nat) : indentBalance b l = some b := by
  induction l generalizing b with
  | nil => rfl
  | cons t ts ih =>
    have N := h t (by simp)
    have := ih (fun x hx => h x (by simp [hx])) b
    cases t <;> simp_all [indentBalance, NoDent]

theorem balance_dedents (n b : Nat) (h : n ≤ b) : indentBalance b (List.replicate n Tok.dedent) = some (b - n) := by
  induction n generalizing b with
  | zero => simp [indentBalance]
  | succ n ih =>
    have hb : b ≠ 0 := by omega
    simp only [List.replicate_succ, indentBalance, hb, if_false]
    rw [ih (b - 1) (by omega)]
    congr 1; omega

theorem plain_nodent {t : Tok} (h : plain t = true) : NoDent t := by
  cases t <;> simp [plain] at h <;> simp [NoDent]

theorem flushIndents_count (stack : List IndentLevel) (h : stack ≠ []) :
    (flushIndents stack).1 = stack.length - 1 := by
  fun_induction flushIndents stack
  · simp at h
  · simp
  · rename_i hd r hne ih
    cases r with
    | nil => simp at hne
    | cons a r => have := ih (by simp); simp at this ⊢; omega

theorem stInv_ne {st : LexState} (h : StInv st) : st.indents ≠ [] := by
  intro hn; simp [StInv, hn] at h

theorem cnspec_balance {cfg : Cfg} {st : LexState} {inp : List Nat} {o : StepOut} (h : CNSpec cfg st inp o)
    (hi : StInv st) :
    indentBalance (st.indents.length - 1) (o.toks.map (·.tok)) = some (o.st.indents.length - 1) ∧
    (o.done = true → o.st.indents.length = 1) := by
  cases h with
  | tok tok n h1 h2 sp pl cm =>
    have N := plain_nodent pl
    refine ⟨?_, by simp [one]⟩
    simpa [one] using balance_nodent (l := [tok]) (by simpa using N) _
  | openB o h2 sp ho => exact ⟨by simp [one, indentBalance], by simp [one]⟩
  | closeB o h2 sp ho hn => exact ⟨by simp [one, indentBalance], by simp [one]⟩
  | newline n h2 nl hn => exact ⟨by simp [one, indentBalance], by simp [one]⟩
  | nln n h2 nl hn hf => exact ⟨by simp [one, indentBalance], by simp [one]⟩
  | gap n h1 h2 g => exact ⟨by simp [skip, indentBalance], by simp [skip]⟩
  | eof hinp hn =>
    have hl := flushIndents_last _ hi
    have hc := flushIndents_count _ (stInv_ne hi)
    refine ⟨?_, by simp [hl]⟩
    simp only [List.map_append, List.map_replicate, balance_append, hl]
    have h1 : indentBalance (st.indents.length - 1)
        (List.map (fun (x : RelTok) => x.tok) (if st.atBol = true then [] else [(⟨Tok.newline, 0, 0⟩ : RelTok)])) =
        some (st.indents.length - 1) := by
      split <;> simp [indentBalance]
    rw [h1]
    simp only [Option.bind_some]
    rw [balance_dedents _ _ (by omega), hc]
    simp

theorem trivTok_nodent {inp : List Nat} {tk : RelTok} (h : TrivTok inp tk) : NoDent tk.tok := by
  rcases h.2 with ⟨ht, _⟩ | ⟨c, ht, _⟩ <;> rw [ht] <;> simp [NoDent]

theorem step_balance {cfg : Cfg} (hs : cfg.up.Sane) {st : LexState} {inp : List Nat} {o : StepOut}
    (hi : StInv st) (h : step cfg st inp = .ok o) :
    indentBalance (st.indents.length - 1) (o.toks.map (·.tok)) = some (o.st.indents.length - 1) ∧
    (o.done = true → o.st.indents.length = 1) := by
  rcases step_spec hs h with ⟨_, hc⟩ | ⟨hb, eo, extra, stack, o2, he, hx, hc, rfl, hinv⟩
  · exact cnspec_balance hc hi
  · have T := eatIndent_toks he (inp := inp) (by simp)
    have hst1 := hinv hi
    have C := cnspec_balance hc hst1
    have hne := stInv_ne hi
    have hne1 : stack ≠ [] := stInv_ne hst1
    have e : (List.map (fun x => x.tok) (eo.toks ++ extra ++ List.map (fun x => x.shift eo.pos) o2.toks))
        = eo.toks.map (·.tok) ++ (extra.map (·.tok) ++ o2.toks.map (·.tok)) := by
      simp [RelTok.shift, Function.comp_def]
    refine ⟨?_, C.2⟩
    simp only [e, balance_append]
    rw [balance_nodent (l := eo.toks.map (·.tok)) (by
      intro t ht; obtain ⟨tk, htk, rfl⟩ := List.mem_map.mp ht; exact trivTok_nodent (T tk htk))]
    simp only [Option.bind_some]
    have X : indentBalance (st.indents.length - 1) (extra.map (·.tok)) = some (stack.length - 1) := by
      cases hx with
      | same => simp [indentBalance]
      | indent hn hpos hle =>
        have : st.indents.length ≠ 0 := by intro h0; exact hne (List.eq_nil_of_length_eq_zero h0)
        simp [indentBalance]; omega
      | dedent hn n stack hlen =>
        have : stack.length ≠ 0 := by intro h0; exact hne1 (List.eq_nil_of_length_eq_zero h0)
        simp only [List.map_replicate]
        rw [balance_dedents _ _ (by omega)]
        congr 1; omega
    rw [X]
    simp only [Option.bind_some]
    exact C.1

theorem lexAll_balance {cfg : Cfg} (hs : cfg.up.Sane) (fuel : Nat) (st : LexState) (inp : List Nat) (cb bb : Nat)
    (hi : StInv st) :
    ∃ b, indentBalance (st.indents.length - 1) ((lexAll cfg fuel st inp cb bb).toks.map (·.tok)) = some b ∧
      ((lexAll cfg fuel st inp cb bb).fin = .eof → b = 0) := by
  induction fuel generalizing st inp cb bb with
  | zero => exact ⟨st.indents.length - 1, by simp [lexAll, indentBalance], by simp [lexAll]⟩
  | succ fuel ih =>
    unfold lexAll
    cases hstep : step cfg st inp with
    | error e => exact ⟨st.indents.length - 1, by simp [indentBalance], by simp⟩
    | ok o =>
      simp only []
      have S := step_ok hs hi hstep
      have N := step_balance hs hi hstep
      have e : (o.toks.map (absTok inp cb bb)).map (·.tok) = o.toks.map (·.tok) := by
        simp [absTok, Function.comp_def]
      by_cases hd : o.done = true
      · simp only [hd, if_true, e]
        exact ⟨_, N.1, fun _ => by have := N.2 hd; omega⟩
      · have hd' : o.done = false := by simpa using hd
        simp only [hd', Bool.false_eq_true, if_false, List.map_append, e, balance_append, N.1, Option.bind_some]
        exact ih o.st _ _ _ S.2.2.2.1

/-! ### tiling -/

theorem gapFull_append {a b : List Nat} (ha : gapFull a = true) (hb : gapFull b = true) :
    gapFull (a ++ b) = true := by
  fun_induction gapFull a
  · simpa using hb
  · rename_i ih; simpa [gapFull] using ih ha
  · rename_i ih; simpa [gapFull] using ih ha
  · rename_i ih; simpa [gapFull] using ih ha
  · rename_i ih; simpa [gapFull] using ih ha
  · rename_i r hne ih
    have := ih ha
    cases r with
    | nil =>
      cases b with
      | nil => simp [gapFull]
      | cons x xs =>
        have hx : x ≠ 10 := by
          intro h; subst h; simp [gapFull] at hb
        simp only [List.nil_append] at this ⊢
        show gapFull (92 :: 13 :: x :: xs) = true
        rw [gapFull]
        · exact this
        · intro r' hr; simp at hr; exact hx hr.1
    | cons y ys =>
      have hy : y ≠ 10 := by intro h; subst h; exact hne ys rfl
      show gapFull (92 :: 13 :: y :: (ys ++ b)) = true
      rw [gapFull]
      · exact this
      · intro r' hr; simp at hr; exact hy hr.1
  · rename_i ih; simpa [gapFull] using ih ha
  · simp at ha

theorem allBlank_GF {t : List Nat} (h : AllBlank t) : GF t := by
  induction t with
  | nil => simp [GF, gapFull]
  | cons c cs ih =>
    have hc := h c (by simp)
    have := ih (fun x hx => h x (by simp [hx]))
    simp [isBlank] at hc
    rcases hc with (rfl | rfl) | rfl <;> simpa [GF, gapFull] using this

theorem STiles.mono {G G' : List Nat → Prop} (hG : ∀ t, G t → G' t) {l : List Nat} {base hi : Nat}
    {ts : List (Nat × Nat)} (h : STiles G l base hi ts) : STiles G' l base hi ts := by
  induction ts generalizing l base with
  | nil => exact ⟨h.1, hG _ h.2⟩
  | cons t ts ih => exact ⟨h.1, h.2.1, hG _ h.2.2.1, ih h.2.2.2⟩

theorem STiles.le {G : List Nat → Prop} {l : List Nat} {base hi : Nat} {ts : List (Nat × Nat)}
    (h : STiles G l base hi ts) : base ≤ hi := by
  induction ts generalizing l base with
  | nil => exact h.1
  | cons t ts ih => have := ih h.2.2.2; have := h.1; have := h.2.1; omega

theorem STiles.append {G : List Nat → Prop} (hG : ∀ a b, G a → G b → G (a ++ b)) {l : List Nat}
    {base mid hi : Nat} {a b : List (Nat × Nat)} (ha : STiles G l base mid a)
    (hb : STiles G (l.drop (mid - base)) mid hi b) : STiles G l base hi (a ++ b) := by
  induction a generalizing l base with
  | nil =>
    obtain ⟨h1, h2⟩ := ha
    cases b with
    | nil =>
      obtain ⟨h3, h4⟩ := hb
      refine ⟨by omega, ?_⟩
      have e : hi - base = (mid - base) + (hi - mid) := by omega
      rw [e, List.take_add]
      exact hG _ _ h2 h4
    | cons t ts =>
      obtain ⟨h3, h4, h5, h6⟩ := hb
      refine ⟨by omega, h4, ?_, ?_⟩
      · have e : t.1 - base = (mid - base) + (t.1 - mid) := by omega
        rw [e, List.take_add]
        exact hG _ _ h2 h5
      · have e : t.2 - base = (mid - base) + (t.2 - mid) := by omega
        rw [e, ← List.drop_drop]; exact h6
  | cons t ts ih =>
    obtain ⟨h1, h2, h3, h4⟩ := ha
    refine ⟨h1, h2, h3, ?_⟩
    apply ih h4
    have hle : t.2 ≤ mid := h4.le
    have e : mid - base = (t.2 - base) + (mid - t.2) := by omega
    rw [e, ← List.drop_drop] at hb
    exact hb

theorem STiles.shift {G : List Nat → Prop} {l : List Nat} {base hi : Nat} {ts : List (Nat × Nat)} (c : Nat)
    (h : STiles G l base hi ts) : STiles G l (base + c) (hi + c) (ts.map (fun p => (p.1 + c, p.2 + c))) := by
  induction ts generalizing l base with
  | nil =>
    refine ⟨by have := h.1; omega, ?_⟩
    have e : hi + c - (base + c) = hi - base := by omega
    rw [e]; exact h.2
  | cons t ts ih =>
    obtain ⟨h1, h2, h3, h4⟩ := h
    refine ⟨by simp; omega, by simp; omega, ?_, ?_⟩
    · have e : t.1 + c - (base + c) = t.1 - base := by omega
      simp only [e]; exact h3
    · have e : t.2 + c - (base + c) = t.2 - base := by omega
      simp only [e]; exact ih h4

theorem STiles.shrink {l : List Nat} {base hi hi' : Nat} {ts : List RelTok}
    (h : STiles AllBlank l base hi (ts.map rspan)) (hc : Chain base hi' ts) (hle : hi' ≤ hi) :
    STiles AllBlank l base hi' (ts.map rspan) := by
  induction ts generalizing l base with
  | nil =>
    refine ⟨hc, ?_⟩
    intro x hx
    apply h.2 x
    have e : hi - base = (hi' - base) + (hi - hi') := by have := hc; simp [Chain] at this; omega
    rw [e, List.take_add]
    exact List.mem_append_left _ hx
  | cons t ts ih =>
    obtain ⟨h1, h2, h3, h4⟩ := h
    exact ⟨h1, h2, h3, ih h4 hc.2.2⟩

theorem GF_nil : GF [] := by simp [GF, gapFull]
theorem GF_append (a b : List Nat) (ha : GF a) (hb : GF b) : GF (a ++ b) := gapFull_append ha hb

theorem STiles.point (l : List Nat) (b n : Nat) : STiles GF l b b (List.replicate n (b, b)) := by
  induction n generalizing l with
  | zero => exact ⟨Nat.le_refl _, by simpa using GF_nil⟩
  | succ n ih => exact ⟨Nat.le_refl _, Nat.le_refl _, by simpa using GF_nil, by simpa using ih _⟩

theorem STiles.single (l : List Nat) (b n : Nat) : STiles GF l b (b + n) [(b, b + n)] :=
  ⟨Nat.le_refl _, by omega, by simpa using GF_nil, Nat.le_refl _, by simpa using GF_nil⟩

theorem cnspec_tiles {cfg : Cfg} (hf : cfg.fullLexer = true) {st : LexState} {inp : List Nat} {o : StepOut}
    (h : CNSpec cfg st inp o) : STiles GF inp 0 o.consumed (o.toks.map rspan) := by
  cases h with
  | tok tok n h1 h2 sp pl cm => simpa [one, rspan] using STiles.single inp 0 n
  | openB o h2 sp ho => simpa [one, rspan] using STiles.single inp 0 1
  | closeB o h2 sp ho hn => simpa [one, rspan] using STiles.single inp 0 1
  | newline n h2 nl hn => simpa [one, rspan] using STiles.single inp 0 n
  | nln n h2 nl hn hf => simpa [one, rspan] using STiles.single inp 0 n
  | gap n h1 h2 g =>
    refine ⟨Nat.zero_le _, ?_⟩
    simp only [skip, Nat.sub_zero]
    generalize inp.take n = txt at g
    cases g with
    | blank _ hne hall => exact allBlank_GF hall
    | join nl hnl => rcases hnl with rfl | rfl | rfl <;> simp [GF, gapFull]
    | comment _ hf' => rw [hf] at hf'; simp at hf'
    | nl _ hf' => rw [hf] at hf'; simp at hf'
  | eof hinp hn =>
    have : (List.map rspan ((if st.atBol = true then [] else [(⟨Tok.newline, 0, 0⟩ : RelTok)]) ++
        List.replicate (flushIndents st.indents).1 ⟨Tok.dedent, 0, 0⟩)) =
        List.replicate ((if st.atBol = true then 0 else 1) + (flushIndents st.indents).1) (0, 0) := by
      split <;> simp [rspan]
      rw [Nat.add_comm]; simp [List.replicate_succ]
    rw [this]
    exact STiles.point inp 0 _

theorem step_tiles {cfg : Cfg} (hs : cfg.up.Sane) (hf : cfg.fullLexer = true) {st : LexState} {inp : List Nat}
    {o : StepOut} (h : step cfg st inp = .ok o) : STiles GF inp 0 o.consumed (o.toks.map rspan) := by
  rcases step_spec hs h with ⟨_, hc⟩ | ⟨hb, eo, extra, stack, o2, he, hx, hc, rfl, _⟩
  · exact cnspec_tiles hf hc
  · rw [hf] at he
    have T := eatIndent_tiles he (by simp)
    simp only [List.drop_zero, Nat.add_zero] at T
    have E := eatIndent_ok he 0 (by omega) (by omega)
    have C2 := (cnspec_tiles hf hc).shift eo.pos
    simp only [Nat.zero_add] at C2
    have e : (List.map rspan (eo.toks ++ extra ++ List.map (fun x => x.shift eo.pos) o2.toks))
        = (eo.toks.map rspan ++ extra.map rspan) ++ (o2.toks.map rspan).map (fun p => (p.1 + eo.pos, p.2 + eo.pos)) := by
      simp [rspan, RelTok.shift, Function.comp_def]
    rw [e, Nat.add_comm eo.pos]
    refine STiles.append GF_append ?_ (by simpa using C2)
    cases hx with
    | same => simpa using T.mono (fun t => allBlank_GF)
    | indent hn hpos hle =>
      have S := (STiles.shrink T (hi' := eo.pos - (eo.spaces + eo.tabs)) (by simpa using E.2.2.2) (by omega)).mono
        (fun t => allBlank_GF)
      refine STiles.append GF_append S ?_
      have := STiles.single (inp.drop (eo.pos - (eo.spaces + eo.tabs) - 0)) (eo.pos - (eo.spaces + eo.tabs))
        (eo.spaces + eo.tabs)
      have e2 : eo.pos - (eo.spaces + eo.tabs) + (eo.spaces + eo.tabs) = eo.pos := by omega
      have e3 : eo.pos - eo.spaces - eo.tabs = eo.pos - (eo.spaces + eo.tabs) := by omega
      simpa [rspan, e2, e3] using this
    | dedent hn n stack hlen =>
      refine STiles.append GF_append (T.mono (fun t => allBlank_GF)) ?_
      simpa [rspan] using STiles.point (inp.drop (eo.pos - 0)) eo.pos n

theorem lexAll_tiles {cfg : Cfg} (hs : cfg.up.Sane) (hf : cfg.fullLexer = true) (fuel : Nat) (st : LexState)
    (inp : List Nat) (cb bb : Nat) (hi : StInv st) (hfin : (lexAll cfg fuel st inp cb bb).fin = .eof) :
    STiles GF inp cb (cb + inp.length) ((lexAll cfg fuel st inp cb bb).toks.map cspan) := by
  induction fuel generalizing st inp cb bb with
  | zero => simp [lexAll] at hfin
  | succ fuel ih =>
    unfold lexAll at hfin ⊢
    cases hstep : step cfg st inp with
    | error e => rw [hstep] at hfin; simp at hfin
    | ok o =>
      rw [hstep] at hfin
      simp only [] at hfin ⊢
      have S := step_ok hs hi hstep
      have T := (step_tiles hs hf hstep).shift cb
      have e : (o.toks.map (absTok inp cb bb)).map cspan = (o.toks.map rspan).map (fun p => (p.1 + cb, p.2 + cb)) := by
        simp [absTok, cspan, rspan, Function.comp_def, Nat.add_comm]
      by_cases hd : o.done = true
      · simp only [hd, if_true, e]
        have := S.2.2.1 hd
        simpa [this, Nat.add_comm] using T
      · have hd' : o.done = false := by simpa using hd
        simp only [hd', Bool.false_eq_true, if_false, List.map_append, e] at hfin ⊢
        have R := ih o.st (inp.drop o.consumed) (cb + o.consumed) (bb + utf8Len (inp.take o.consumed)) S.2.2.2.1 hfin
        simp only [List.length_drop] at R
        have e2 : cb + o.consumed + (inp.length - o.consumed) = cb + inp.length := by omega
        rw [e2] at R
        refine STiles.append GF_append (mid := cb + o.consumed) (by simpa [Nat.add_comm] using T) ?_
        have e3 : cb + o.consumed - cb = o.consumed := by omega
        rw [e3]; exact R

/-! ### the soft-keyword pass rewrites a keyword token to a name token with the same text, nothing else -/

theorem softTok_cases (sol sos : Bool) (t : Spanned) (ts : List Spanned) :
    softTok sol sos t ts = t.tok ∨ ∃ k, t.tok = .kw k ∧ softTok sol sos t ts = .name (kwText k) := by
  unfold softTok
  split
  · split
    · right; exact ⟨.Match, by assumption, rfl⟩
    · split
      · left; rfl
      · right; exact ⟨.Match, by assumption, rfl⟩
  · split
    · right; exact ⟨.Case, by assumption, rfl⟩
    · split
      · left; rfl
      · right; exact ⟨.Case, by assumption, rfl⟩
  · split
    · right; exact ⟨.Type_, by assumption, rfl⟩
    · split
      · left; rfl
      · right; exact ⟨.Type_, by assumption, rfl⟩
  · left; rfl

theorem softKwGo_mem_tok {ts : List Spanned} {st : SoftSt} {t : Spanned} (h : t ∈ softKwGo ts st) :
    ∃ t' ∈ ts, t'.cs = t.cs ∧ t'.ce = t.ce ∧ t'.bs = t.bs ∧ t'.be = t.be ∧
      (t.tok = t'.tok ∨ ∃ k, t'.tok = .kw k ∧ t.tok = .name (kwText k)) := by
  induction ts generalizing st with
  | nil => simp [softKwGo] at h
  | cons a ts ih =>
    simp only [softKwGo, List.mem_cons] at h
    rcases h with rfl | h
    · exact ⟨a, by simp, rfl, rfl, rfl, rfl, softTok_cases _ _ _ _⟩
    · obtain ⟨t', ht', e⟩ := ih h
      exact ⟨t', by simp [ht'], e⟩

theorem softKwGo_newlines (ts : List Spanned) (st : SoftSt) (d : Nat) :
    NewlinesAtDepth0 d ((softKwGo ts st).map (·.tok)) ↔ NewlinesAtDepth0 d (ts.map (·.tok)) := by
  induction ts generalizing st d with
  | nil => simp [softKwGo]
  | cons a ts ih =>
    simp only [softKwGo, List.map_cons, NewlinesAtDepth0]
    rcases softTok_cases st.sol st.sos a ts with h | ⟨k, hk, h⟩
    · rw [h, ih]
    · rw [h, hk, ih]; simp [depthStep]

theorem softKwGo_balance (ts : List Spanned) (st : SoftSt) (b : Nat) :
    indentBalance b ((softKwGo ts st).map (·.tok)) = indentBalance b (ts.map (·.tok)) := by
  induction ts generalizing st b with
  | nil => simp [softKwGo]
  | cons a ts ih =>
    simp only [softKwGo, List.map_cons]
    rcases softTok_cases st.sol st.sos a ts with h | ⟨k, hk, h⟩
    · rw [h]; cases a.tok <;> simp [indentBalance, ih]
    · rw [h, hk]; simp [indentBalance, ih]

theorem softKwGo_cspans (ts : List Spanned) (st : SoftSt) : (softKwGo ts st).map cspan = ts.map cspan := by
  induction ts generalizing st with
  | nil => simp [softKwGo]
  | cons t ts ih => simp [softKwGo, ih, cspan]


/-! ### `lexRaw`: the BOM skip -/

theorem lexRaw_props {cfg : Cfg} (hs : cfg.up.Sane) {k : Nat} {src : List Nat} {out : LexOut}
    (h : lexRaw cfg k src = some out) :
    (∀ t ∈ out.toks, Spells t.tok (tokText src t)) ∧
    NewlinesAtDepth0 0 (out.toks.map (·.tok)) ∧
    (∃ b, indentBalance 0 (out.toks.map (·.tok)) = some b ∧ (out.fin = .eof → b = 0)) ∧
    (cfg.fullLexer = true → out.fin = .eof → Tiles GF src out.toks) := by
  unfold lexRaw lexRawFuel at h
  simp only [] at h
  split at h
  · rename_i rest
    have h := finish_some h
    subst h
    refine ⟨?_, ?_, ?_, ?_⟩
    · intro t ht
      have := lexAll_spells hs _ _ _ _ _ stInv_init t ht
      have e : (65279 :: rest).drop t.cs = rest.drop (t.cs - 1) := by
        have e : t.cs = (t.cs - 1) + 1 := by omega
        rw [e, List.drop_succ_cons]; simp
      unfold tokText
      rw [e]
      exact this.2
    · simpa [LexState.init] using lexAll_newlines hs ((65279 :: rest).length + 1) .init rest 1 (k + 3) stInv_init
    · simpa [LexState.init] using lexAll_balance hs ((65279 :: rest).length + 1) .init rest 1 (k + 3) stInv_init
    · intro hf hfin
      have := lexAll_tiles hs hf _ _ _ _ _ stInv_init hfin
      simpa [Tiles, srcBody, bomLen, Nat.add_comm] using this
  · rename_i hne
    have h := finish_some h
    subst h
    have hb : srcBody src = src ∧ bomLen src = 0 := by
      unfold srcBody bomLen
      split
      · rename_i rest; exact absurd rfl (hne rest)
      · simp
    refine ⟨?_, ?_, ?_, ?_⟩
    · intro t ht
      have := lexAll_spells hs _ _ _ _ _ stInv_init t ht
      simpa [tokText] using this.2
    · simpa [LexState.init] using lexAll_newlines hs (src.length + 1) .init src 0 k stInv_init
    · simpa [LexState.init] using lexAll_balance hs (src.length + 1) .init src 0 k stInv_init
    · intro hf hfin
      have := lexAll_tiles hs hf _ _ _ _ _ stInv_init hfin
      simpa [Tiles, hb.1, hb.2] using this

end PV.C05
