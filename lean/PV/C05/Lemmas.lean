import PV.Lexer.Lemmas
import PV.C05.Spec
/-
  C05 — helper lemmas: from the per-step contract (`PV.Lexer.step_ok`) to the whole stream.
-/
namespace PV.C05
open PV.Lexer

/-! ### `ChainS` -/

theorem ChainS.mono {lo lo' hi hi' : Nat} {ts : List Spanned} (h : ChainS lo hi ts) (h1 : lo' ≤ lo) (h2 : hi ≤ hi') :
    ChainS lo' hi' ts := by
  induction ts generalizing lo lo' with
  | nil => simp only [ChainS] at *; omega
  | cons t ts ih => exact ⟨by have := h.1; omega, h.2.1, ih h.2.2 (Nat.le_refl _)⟩

theorem ChainS.le {lo hi : Nat} {ts : List Spanned} (h : ChainS lo hi ts) : lo ≤ hi := by
  induction ts generalizing lo with
  | nil => exact h
  | cons t ts ih => have := ih h.2.2; have := h.1; have := h.2.1; omega

theorem ChainS.append {lo mid hi : Nat} {a b : List Spanned} (ha : ChainS lo mid a) (hb : ChainS mid hi b) :
    ChainS lo hi (a ++ b) := by
  induction a generalizing lo with
  | nil => exact hb.mono ha (Nat.le_refl _)
  | cons t ts ih => exact ⟨ha.1, ha.2.1, ih ha.2.2⟩

theorem ChainS.mem {lo hi : Nat} {ts : List Spanned} (h : ChainS lo hi ts) {t : Spanned} (ht : t ∈ ts) :
    lo ≤ t.cs ∧ t.cs ≤ t.ce ∧ t.ce ≤ hi := by
  induction ts generalizing lo with
  | nil => simp at ht
  | cons a ts ih =>
    rcases List.mem_cons.mp ht with rfl | ht
    · exact ⟨h.1, h.2.1, h.2.2.le⟩
    · have := ih h.2.2 ht; have := h.1; have := h.2.1; omega

theorem ChainS.pairwise {lo hi : Nat} {ts : List Spanned} (h : ChainS lo hi ts) :
    ts.Pairwise (fun a b => a.ce ≤ b.cs) := by
  induction ts generalizing lo with
  | nil => exact List.Pairwise.nil
  | cons a ts ih =>
    refine List.Pairwise.cons ?_ (ih h.2.2)
    intro b hb
    exact (h.2.2.mem hb).1

theorem chainS_abs {inp : List Nat} {cb bb lo hi : Nat} {ts : List RelTok} (h : Chain lo hi ts) :
    ChainS (cb + lo) (cb + hi) (ts.map (absTok inp cb bb)) := by
  induction ts generalizing lo with
  | nil => simp only [Chain, ChainS, List.map_nil] at *; omega
  | cons t ts ih =>
    refine ⟨by have := h.1; simp [absTok]; omega, by have := h.2.1; simp [absTok]; omega, ?_⟩
    exact ih h.2.2

/-! ### UTF-8 sizes -/

theorem utf8Len_append (a b : List Nat) : utf8Len (a ++ b) = utf8Len a + utf8Len b := by
  induction a with
  | nil => simp [utf8Len]
  | cons c cs ih => simp [utf8Len, ih]; omega

theorem utf8Len_take_add (l : List Nat) (a b : Nat) :
    utf8Len (l.take (a + b)) = utf8Len (l.take a) + utf8Len ((l.drop a).take b) := by
  rw [List.take_add, utf8Len_append]

theorem utf8Len_take_mono (l : List Nat) {a b : Nat} (h : a ≤ b) : utf8Len (l.take a) ≤ utf8Len (l.take b) := by
  obtain ⟨d, rfl⟩ := Nat.exists_eq_add_of_le h
  rw [utf8Len_take_add]; omega

theorem utf8Len_take_le (l : List Nat) (a : Nat) : utf8Len (l.take a) ≤ utf8Len l := by
  have := utf8Len_take_mono l (Nat.le_max_left a l.length)
  rw [List.take_of_length_le (Nat.le_max_right a l.length)] at this
  exact this

/-- `csize` is the length of the UTF-8 encoding -/
theorem csize_eq_encode (c : Nat) : csize c = (PV.utf8EncodeNat c).length := by
  unfold csize PV.utf8EncodeNat
  (repeat' split) <;> simp

theorem utf8Len_eq_encode (l : List Nat) : utf8Len l = (PV.utf8Encode l).length := by
  induction l with
  | nil => simp [utf8Len, PV.utf8Encode]
  | cons c cs ih =>
    simp only [utf8Len, PV.utf8Encode, List.flatMap_cons, List.length_append] at *
    rw [ih, csize_eq_encode]

/-! ### the whole stream -/

/-- fuel `length + 1` suffices -/
theorem lexAll_fuel {cfg : Cfg} (hs : cfg.up.Sane) (fuel : Nat) (st : LexState) (inp : List Nat) (cb bb : Nat)
    (hi : StInv st) (hf : inp.length + 1 ≤ fuel) : (lexAll cfg fuel st inp cb bb).fin ≠ .outOfFuel := by
  induction fuel generalizing st inp cb bb with
  | zero => omega
  | succ fuel ih =>
    unfold lexAll
    cases hstep : step cfg st inp with
    | error e => simp
    | ok o =>
      simp only []
      have S := step_ok hs hi hstep
      by_cases hd : o.done = true
      · simp [hd]
      · simp only [hd]
        simp at hd
        have := S.2.1 hd
        apply ih _ _ _ _ S.2.2.2.1
        simp only [List.length_drop]; omega

theorem lexAll_chain {cfg : Cfg} (hs : cfg.up.Sane) (fuel : Nat) (st : LexState) (inp : List Nat) (cb bb : Nat)
    (hi : StInv st) : ChainS cb (cb + inp.length) (lexAll cfg fuel st inp cb bb).toks := by
  induction fuel generalizing st inp cb bb with
  | zero => simp [lexAll, ChainS]
  | succ fuel ih =>
    unfold lexAll
    cases hstep : step cfg st inp with
    | error e => simp [ChainS]
    | ok o =>
      simp only []
      have S := step_ok hs hi hstep
      have here : ChainS cb (cb + o.consumed) (o.toks.map (absTok inp cb bb)) := by
        simpa using chainS_abs (inp := inp) (cb := cb) (bb := bb) S.2.2.2.2
      by_cases hd : o.done = true
      · simp only [hd, if_true]
        exact here.mono (Nat.le_refl _) (by omega)
      · simp only [hd]
        have := ih o.st (inp.drop o.consumed) (cb + o.consumed) (bb + utf8Len (inp.take o.consumed)) S.2.2.2.1
        simp only [List.length_drop] at this
        exact here.append (this.mono (Nat.le_refl _) (by omega))

/-- byte offsets are the prefix sums of the UTF-8 sizes -/
theorem lexAll_bytes {cfg : Cfg} (hs : cfg.up.Sane) (fuel : Nat) (st : LexState) (inp : List Nat) (cb bb : Nat)
    (hi : StInv st) : ∀ t ∈ (lexAll cfg fuel st inp cb bb).toks,
      t.bs = bb + utf8Len (inp.take (t.cs - cb)) ∧ t.be = bb + utf8Len (inp.take (t.ce - cb)) := by
  induction fuel generalizing st inp cb bb with
  | zero => simp [lexAll]
  | succ fuel ih =>
    unfold lexAll
    cases hstep : step cfg st inp with
    | error e => simp
    | ok o =>
      simp only []
      have S := step_ok hs hi hstep
      have here : ∀ t ∈ o.toks.map (absTok inp cb bb),
          t.bs = bb + utf8Len (inp.take (t.cs - cb)) ∧ t.be = bb + utf8Len (inp.take (t.ce - cb)) := by
        intro t ht
        obtain ⟨r, _, rfl⟩ := List.mem_map.mp ht
        simp [absTok]
      by_cases hd : o.done = true
      · simpa only [hd, if_true] using here
      · simp only [hd]
        intro t ht
        rcases List.mem_append.mp ht with ht | ht
        · exact here t ht
        · have B := ih o.st (inp.drop o.consumed) (cb + o.consumed) (bb + utf8Len (inp.take o.consumed))
            S.2.2.2.1 t ht
          have C := (lexAll_chain hs fuel o.st (inp.drop o.consumed) (cb + o.consumed)
            (bb + utf8Len (inp.take o.consumed)) S.2.2.2.1).mem ht
          have e1 : t.cs - cb = o.consumed + (t.cs - (cb + o.consumed)) := by omega
          have e2 : t.ce - cb = o.consumed + (t.ce - (cb + o.consumed)) := by omega
          rw [e1, e2, utf8Len_take_add, utf8Len_take_add, B.1, B.2]
          omega

/-! ### the soft-keyword pass only rewrites the token, never a span -/

theorem softKwGo_spans (ts : List Spanned) (st : SoftSt) :
    (softKwGo ts st).map (fun t => (t.cs, t.ce, t.bs, t.be)) = ts.map (fun t => (t.cs, t.ce, t.bs, t.be)) := by
  induction ts generalizing st with
  | nil => simp [softKwGo]
  | cons t ts ih => simp [softKwGo, ih]

theorem softKwGo_chain {lo hi : Nat} (ts : List Spanned) (st : SoftSt) :
    ChainS lo hi (softKwGo ts st) ↔ ChainS lo hi ts := by
  induction ts generalizing lo st with
  | nil => simp [softKwGo]
  | cons t ts ih => simp [softKwGo, ChainS, ih]

theorem softKwGo_mem {ts : List Spanned} {st : SoftSt} {t : Spanned} (h : t ∈ softKwGo ts st) :
    ∃ t' ∈ ts, t'.cs = t.cs ∧ t'.ce = t.ce ∧ t'.bs = t.bs ∧ t'.be = t.be := by
  induction ts generalizing st with
  | nil => simp [softKwGo] at h
  | cons a ts ih =>
    simp only [softKwGo, List.mem_cons] at h
    rcases h with rfl | h
    · exact ⟨a, by simp, rfl, rfl, rfl, rfl⟩
    · obtain ⟨t', ht', e⟩ := ih h
      exact ⟨t', by simp [ht'], e⟩

/-! ### `lexRaw` -/

/-- the post-processing of `lexRawFuel` returns the stream unchanged or `none` -/
theorem finish_some {o out : LexOut}
    (h : (if o.reachedB > u32Max then none
          else match o.fin with
            | .err .panic _ _ => none
            | _ => some o) = some out) : out = o := by
  split at h
  · simp at h
  · split at h <;> simp at h <;> exact h.symm

/-- what `lexRaw` guarantees about spans -/
theorem lexRaw_spec {cfg : Cfg} (hs : cfg.up.Sane) {k : Nat} {src : List Nat} {out : LexOut}
    (h : lexRaw cfg k src = some out) :
    out.fin ≠ .outOfFuel ∧ ChainS 0 src.length out.toks ∧
    ∀ t ∈ out.toks, t.bs = bytePos k src t.cs ∧ t.be = bytePos k src t.ce := by
  unfold lexRaw lexRawFuel at h
  simp only [] at h
  split at h
  · rename_i rest
    have h := finish_some h
    subst h
    refine ⟨lexAll_fuel hs _ _ _ _ _ stInv_init (by simp), ?_, ?_⟩
    · have := lexAll_chain hs ((65279 :: rest).length + 1) .init rest 1 (k + 3) stInv_init
      exact this.mono (by omega) (by simp; omega)
    · intro t ht
      have B := lexAll_bytes hs _ _ _ _ _ stInv_init t ht
      have C := (lexAll_chain hs ((65279 :: rest).length + 1) .init rest 1 (k + 3) stInv_init).mem ht
      have e1 : t.cs = (t.cs - 1) + 1 := by omega
      have e2 : t.ce = (t.ce - 1) + 1 := by omega
      unfold bytePos
      rw [B.1, B.2, e1, e2]
      simp [utf8Len, csize]; omega
  · have h := finish_some h
    subst h
    refine ⟨lexAll_fuel hs _ _ _ _ _ stInv_init (by simp), ?_, ?_⟩
    · simpa using lexAll_chain hs (src.length + 1) .init src 0 k stInv_init
    · intro t ht
      simpa [bytePos] using lexAll_bytes hs _ _ _ _ _ stInv_init t ht

end PV.C05
