import PV.C05.StepSpec
/-
  C05 — what `eat_indentation` / `handle_indentations` produce: tiling of the blank prefix (full lexer),
  the indentation run under an `Indent` token, the `Comment` / `NonLogicalNewline` tokens and their text.
-/
namespace PV.C05
open PV.Lexer

/-- blanks only: space, tab, form feed -/
def AllBlank (t : List Nat) : Prop := ∀ x ∈ t, isBlank x = true

/-- relative character span of a token -/
def rspan (t : RelTok) : Nat × Nat := (t.s, t.e)

theorem STiles.consBlank {c : Nat} {cs : List Nat} {base hi : Nat} {ts : List (Nat × Nat)} (hc : isBlank c = true)
    (h : STiles AllBlank cs (base + 1) hi ts) : STiles AllBlank (c :: cs) base hi ts := by
  cases ts with
  | nil =>
    obtain ⟨h1, h2⟩ := h
    refine ⟨by omega, ?_⟩
    have e : hi - base = (hi - (base + 1)) + 1 := by omega
    rw [e, List.take_succ_cons]
    intro x hx
    rcases List.mem_cons.mp hx with rfl | hx
    · exact hc
    · exact h2 x hx
  | cons t ts =>
    obtain ⟨h1, h2, h3, h4⟩ := h
    refine ⟨by omega, h2, ?_, ?_⟩
    · have e : t.1 - base = (t.1 - (base + 1)) + 1 := by omega
      rw [e, List.take_succ_cons]
      intro x hx
      rcases List.mem_cons.mp hx with rfl | hx
      · exact hc
      · exact h3 x hx
    · have e : t.2 - base = (t.2 - (base + 1)) + 1 := by omega
      rw [e, List.drop_succ_cons]; exact h4

theorem STiles.consTok {G : List Nat → Prop} (hG : G []) {l : List Nat} {base n hi : Nat}
    {ts : List (Nat × Nat)} (h : STiles G (l.drop n) (base + n) hi ts) :
    STiles G l base hi ((base, base + n) :: ts) := by
  refine ⟨Nat.le_refl _, by simp, by simpa using hG, ?_⟩
  simpa using h

/-- `eat_indentation` of the FULL lexer: its tokens are comments and non-logical newlines, and
    everything else it consumes is blank -/
theorem eatIndent_tiles {l : List Nat} {skip pos s t : Nat} {o : EatOut}
    (h : eatIndent true l skip pos s t = .ok o) (hsk : skip ≤ l.length) :
    STiles AllBlank (l.drop skip) (pos + skip) o.pos (o.toks.map rspan) := by
  fun_induction eatIndent true l skip pos s t generalizing o
  case case1 => simp at h; subst h; simp at hsk; subst hsk; simp [STiles, AllBlank]
  case case2 ih =>
    have := ih h (by simp at hsk; omega)
    simpa [Nat.add_assoc, Nat.add_comm 1] using this
  case case3 ih =>
    have := ih h (by simp)
    exact STiles.consBlank (by decide) (by simpa using this)
  case case4 => simp at h
  case case5 ih =>
    have := ih h (by simp)
    exact STiles.consBlank (by decide) (by simpa using this)
  case case6 _ _ cs pos m ih =>
    obtain ⟨o', hr, h1, h2, h3, h4, h5⟩ := addTok_ok h
    have hm : m ≤ cs.length := spanLen_le _ _
    have := ih hr hm
    rw [h1, h5]
    simp only [if_true, List.drop_zero, Nat.add_zero]
    have e : pos + 1 + m = pos + (1 + m) := by omega
    rw [e]
    apply STiles.consTok (by simp [AllBlank])
    have e2 : List.drop (1 + m) (35 :: cs) = cs.drop m := by rw [Nat.add_comm]; simp
    rw [e2]
    simpa [Nat.add_assoc] using this
  case case7 ih =>
    have := ih h (by simp)
    exact STiles.consBlank (by decide) (by simpa using this)
  case case8 _ _ cs pos ih =>
    obtain ⟨o', hr, h1, h2, h3, h4, h5⟩ := addTok_ok h
    have := ih hr (by simp)
    rw [h1, h5]
    simp only [if_true, List.drop_zero, Nat.add_zero]
    apply STiles.consTok (by simp [AllBlank])
    simpa using this
  case case9 _ _ cs pos _ ih =>
    obtain ⟨o', hr, h1, h2, h3, h4, h5⟩ := addTok_ok h
    have := ih hr (by simp)
    rw [h1, h5]
    simp only [if_true, List.drop_zero, Nat.add_zero]
    apply STiles.consTok (by simp [AllBlank])
    simpa using this
  case case10 _ _ cs pos ih =>
    obtain ⟨o', hr, h1, h2, h3, h4, h5⟩ := addTok_ok h
    have := ih hr (by simp)
    rw [h1, h5]
    simp only [if_true, List.drop_zero, Nat.add_zero]
    apply STiles.consTok (by simp [AllBlank])
    simpa using this
  case case11 => simp at h; subst h; simp [STiles, AllBlank]

theorem drop_cons_getElem? {inp : List Nat} {pos c : Nat} {cs : List Nat} (h : inp.drop pos = c :: cs) :
    inp[pos]? = some c ∧ inp.drop (pos + 1) = cs := by
  constructor
  · have := congrArg List.head? h
    simpa [List.head?_drop] using this
  · have := congrArg List.tail h
    simpa [List.tail_drop] using this

/-- the `spaces + tabs` characters in front of the position where `eat_indentation` stops are
    spaces and tabs -/
theorem eatIndent_run {full : Bool} {inp l : List Nat} {skip pos s t : Nat} {o : EatOut}
    (h : eatIndent full l skip pos s t = .ok o) (hl : inp.drop pos = l)
    (hst : s + t ≤ pos) (hsk : 0 < skip → s + t = 0)
    (hrun : ∀ i, pos - (s + t) ≤ i → i < pos → (inp[i]? = some 32 ∨ inp[i]? = some 9)) :
    o.spaces + o.tabs ≤ o.pos ∧
    ∀ i, o.pos - (o.spaces + o.tabs) ≤ i → i < o.pos → (inp[i]? = some 32 ∨ inp[i]? = some 9) := by
  fun_induction eatIndent full l skip pos s t generalizing o
  case case1 => simp at h; subst h; exact ⟨by simp, fun i h1 h2 => by simp at h1 h2; omega⟩
  case case2 ih =>
    have D := drop_cons_getElem? hl
    have hz := hsk (by omega)
    exact ih h D.2 (by omega) (fun _ => hz) (fun i h1 h2 => by omega)
  case case3 cs pos s t ih =>
    have D := drop_cons_getElem? hl
    refine ih h D.2 (by omega) (by omega) (fun i h1 h2 => ?_)
    by_cases hi : i < pos
    · exact hrun i (by omega) hi
    · have : i = pos := by omega
      subst this; left; exact D.1
  case case4 => simp at h
  case case5 cs pos s t _ ih =>
    have D := drop_cons_getElem? hl
    refine ih h D.2 (by omega) (by omega) (fun i h1 h2 => ?_)
    by_cases hi : i < pos
    · exact hrun i (by omega) hi
    · have : i = pos := by omega
      subst this; right; exact D.1
  case case6 ih =>
    obtain ⟨o', hr, h1, h2, h3, h4, h5⟩ := addTok_ok h
    have D := drop_cons_getElem? hl
    rw [h1, h2, h3]
    exact ih hr D.2 (by omega) (fun _ => rfl) (fun i h1 h2 => by omega)
  case case7 ih =>
    have D := drop_cons_getElem? hl
    exact ih h D.2 (by omega) (fun _ => rfl) (fun i h1 h2 => by omega)
  case case8 ih =>
    obtain ⟨o', hr, h1, h2, h3, h4, h5⟩ := addTok_ok h
    have D := drop_cons_getElem? hl
    have D2 := drop_cons_getElem? D.2
    rw [h1, h2, h3]
    exact ih hr D2.2 (by omega) (fun _ => rfl) (fun i h1 h2 => by omega)
  case case9 ih =>
    obtain ⟨o', hr, h1, h2, h3, h4, h5⟩ := addTok_ok h
    have D := drop_cons_getElem? hl
    rw [h1, h2, h3]
    exact ih hr D.2 (by omega) (fun _ => rfl) (fun i h1 h2 => by omega)
  case case10 ih =>
    obtain ⟨o', hr, h1, h2, h3, h4, h5⟩ := addTok_ok h
    have D := drop_cons_getElem? hl
    rw [h1, h2, h3]
    exact ih hr D.2 (by omega) (fun _ => rfl) (fun i h1 h2 => by omega)
  case case11 => simp at h; subst h; exact ⟨hst, hrun⟩

/-- a `Comment` / `NonLogicalNewline` token and its text in `inp` -/
def TrivTok (inp : List Nat) (tk : RelTok) : Prop :=
  tk.s ≤ tk.e ∧
  ((tk.tok = .nonLogicalNewline ∧ IsNl ((inp.drop tk.s).take (tk.e - tk.s))) ∨
   (∃ c, tk.tok = .comment c ∧ Spells (.comment c) ((inp.drop tk.s).take (tk.e - tk.s)) ∧
      (inp.drop tk.e).head?.all isLineBreak = true))

theorem eatIndent_plain {l : List Nat} {skip pos s t : Nat} {o : EatOut}
    (h : eatIndent false l skip pos s t = .ok o) : o.toks = [] := by
  fun_induction eatIndent false l skip pos s t generalizing o
  all_goals first
    | (simp at h; subst h; rfl)
    | (simp at h; done)
    | (rename_i ih; obtain ⟨o', hr, _, _, _, _, h5⟩ := addTok_ok h; rw [h5]; exact ih hr)
    | (rename_i ih; exact ih h)

theorem eatIndent_toks {full : Bool} {inp l : List Nat} {skip pos s t : Nat} {o : EatOut}
    (h : eatIndent full l skip pos s t = .ok o) (hl : inp.drop pos = l) :
    ∀ tk ∈ o.toks, TrivTok inp tk := by
  fun_induction eatIndent full l skip pos s t generalizing o
  case case1 => simp at h; subst h; simp
  case case2 ih => exact ih h (drop_cons_getElem? hl).2
  case case3 ih => exact ih h (drop_cons_getElem? hl).2
  case case4 => simp at h
  case case5 ih => exact ih h (drop_cons_getElem? hl).2
  case case6 _ _ cs pos m ih =>
    obtain ⟨o', hr, h1, h2, h3, h4, h5⟩ := addTok_ok h
    have D := drop_cons_getElem? hl
    have R := ih hr D.2
    rw [h5]
    split
    · intro tk htk
      rcases List.mem_cons.mp htk with rfl | htk
      · refine ⟨by simp; omega, Or.inr ⟨_, rfl, ?_, ?_⟩⟩
        · have e : pos + 1 + m - pos = m + 1 := by omega
          simp only [e, hl, List.take_succ_cons]
          refine ⟨rfl, by simp, ?_⟩
          intro x hx
          rcases List.mem_cons.mp hx with rfl | hx
          · simp
          · have := spanLen_take_all (fun c => !isLineBreak c) cs x hx
            simpa [isLineBreak] using this
        · have e : pos + 1 + m = (pos + 1) + m := by omega
          simp only [← List.drop_drop, D.2]
          have := spanLen_next (fun c => !isLineBreak c) cs
          simpa using this
      · exact R tk htk
    · exact R
  case case7 ih => exact ih h (drop_cons_getElem? hl).2
  case case8 _ _ cs pos ih =>
    obtain ⟨o', hr, h1, h2, h3, h4, h5⟩ := addTok_ok h
    have D := drop_cons_getElem? hl
    have D2 := drop_cons_getElem? D.2
    have R := ih hr D2.2
    rw [h5]
    split
    · intro tk htk
      rcases List.mem_cons.mp htk with rfl | htk
      · refine ⟨by simp, Or.inl ⟨rfl, ?_⟩⟩
        have e : pos + 2 - pos = 2 := by omega
        simp [e, hl, IsNl]
      · exact R tk htk
    · exact R
  case case9 _ _ cs pos _ ih =>
    obtain ⟨o', hr, h1, h2, h3, h4, h5⟩ := addTok_ok h
    have D := drop_cons_getElem? hl
    have R := ih hr D.2
    rw [h5]
    split
    · intro tk htk
      rcases List.mem_cons.mp htk with rfl | htk
      · refine ⟨by simp, Or.inl ⟨rfl, ?_⟩⟩
        have e : pos + 1 - pos = 1 := by omega
        simp [e, hl, IsNl]
      · exact R tk htk
    · exact R
  case case10 _ _ cs pos ih =>
    obtain ⟨o', hr, h1, h2, h3, h4, h5⟩ := addTok_ok h
    have D := drop_cons_getElem? hl
    have R := ih hr D.2
    rw [h5]
    split
    · intro tk htk
      rcases List.mem_cons.mp htk with rfl | htk
      · refine ⟨by simp, Or.inl ⟨rfl, ?_⟩⟩
        have e : pos + 1 - pos = 1 := by omega
        simp [e, hl, IsNl]
      · exact R tk htk
    · exact R
  case case11 => simp at h; subst h; simp

theorem dedentLoop_len {level : IndentLevel} {pos : Nat} {stack stack' : List IndentLevel} {n : Nat}
    (h : dedentLoop level pos stack = .ok (n, stack')) : stack'.length + n = stack.length := by
  fun_induction dedentLoop level pos stack generalizing n stack'
  case case4 hx ih =>
    rw [hx] at h; simp at h; obtain ⟨rfl, rfl⟩ := h
    have := ih hx; simp at this ⊢; omega
  case case5 hx _ => rw [hx] at h; simp at h
  case case6 => simp at h; obtain ⟨rfl, rfl⟩ := h; simp
  all_goals simp at h

theorem compareStrict_gt_pos {a b : IndentLevel} (h : compareStrict a b = some .gt) : 0 < a.spaces + a.tabs := by
  unfold compareStrict at h
  cases hc : compare a.tabs b.tabs with
  | lt => rw [hc] at h; simp only [] at h; split at h <;> simp at h
  | eq =>
    rw [hc] at h; simp only [] at h
    have := Nat.compare_eq_gt.mp (Option.some.inj h)
    omega
  | gt =>
    have := Nat.compare_eq_gt.mp hc
    omega

/-- what `handle_indentations` adds behind the tokens of `eat_indentation` -/
inductive HIExtra (st : LexState) (o : EatOut) : List RelTok → List IndentLevel → Prop
  | same : HIExtra st o [] st.indents
  | indent (hn : st.nesting = 0) (hpos : 0 < o.spaces + o.tabs) (hle : o.spaces + o.tabs ≤ o.pos) :
      HIExtra st o [⟨.indent, o.pos - o.spaces - o.tabs, o.pos⟩] (⟨o.tabs, o.spaces⟩ :: st.indents)
  | dedent (hn : st.nesting = 0) (n : Nat) (stack : List IndentLevel) (hlen : stack.length + n = st.indents.length) :
      HIExtra st o (List.replicate n ⟨.dedent, o.pos, o.pos⟩) stack

theorem handleIndentations_spec {cfg : Cfg} {st : LexState} {inp : List Nat} {toks : List RelTok} {p : Nat}
    {st1 : LexState} (h : handleIndentations cfg st inp = .ok (toks, p, st1)) :
    ∃ o extra stack, eatIndent cfg.fullLexer inp 0 0 0 0 = .ok o ∧ HIExtra st o extra stack ∧
      toks = o.toks ++ extra ∧ p = o.pos ∧ st1 = ⟨o.atBol, st.nesting, stack⟩ ∧
      (StInv st → StInv ⟨o.atBol, st.nesting, stack⟩) := by
  unfold handleIndentations at h
  cases ho : eatIndent cfg.fullLexer inp 0 0 0 0 with
  | error e => rw [ho] at h; simp at h
  | ok o =>
    rw [ho] at h; simp only [] at h
    have E := eatIndent_ok ho 0 (by omega) (by omega)
    by_cases hn : st.nesting ≠ 0
    · rw [if_pos hn] at h
      simp at h; obtain ⟨rfl, rfl, rfl⟩ := h
      exact ⟨o, [], st.indents, rfl, .same, by simp, rfl, rfl, fun h => h⟩
    rw [if_neg hn] at h
    have hn0 : st.nesting = 0 := by omega
    cases hst : st.indents with
    | nil => rw [hst] at h; simp at h
    | cons cur rest =>
      rw [hst] at h; simp only [] at h
      cases hc : compareStrict ⟨o.tabs, o.spaces⟩ cur with
      | none => rw [hc] at h; simp at h
      | some ord =>
        rw [hc] at h
        cases ord with
        | eq =>
          simp at h; obtain ⟨rfl, rfl, rfl⟩ := h
          exact ⟨o, [], st.indents, rfl, .same, by simp, rfl, by rw [hst], fun h => h⟩
        | gt =>
          simp only [] at h
          have hle : o.spaces + o.tabs ≤ o.pos := by have := E.2.2.1; omega
          rw [if_pos hle] at h
          simp at h; obtain ⟨rfl, rfl, rfl⟩ := h
          refine ⟨o, _, _, rfl, .indent hn0 (compareStrict_gt_pos hc) hle, rfl, rfl, by rw [hst], ?_⟩
          intro hi
          simp only [StInv] at hi ⊢
          cases hs : st.indents with
          | nil => rw [hs] at hst; simp at hst
          | cons a r => rw [hs] at hi; simpa [List.getLast?_cons_cons] using hi
        | lt =>
          simp only [] at h
          cases hd : dedentLoop ⟨o.tabs, o.spaces⟩ o.pos (cur :: rest) with
          | error e => rw [hd] at h; simp at h
          | ok r =>
            obtain ⟨n, stack⟩ := r
            rw [hd] at h
            simp at h; obtain ⟨rfl, rfl, rfl⟩ := h
            exact ⟨o, _, stack, rfl, .dedent hn0 n stack (by rw [hst]; exact dedentLoop_len hd), rfl, rfl, rfl,
              fun hi => dedentLoop_ok hd (by simpa [StInv, hst] using hi)⟩

theorem consumeNormal_spec {cfg : Cfg} (hs : cfg.up.Sane) {st : LexState} {inp : List Nat} {o : StepOut}
    (h : consumeNormal cfg st inp = .ok o) : CNSpec cfg st inp o := by
  unfold consumeNormal at h
  split at h
  · unfold consumeEof at h
    split at h
    · simp at h
    · rename_i hn
      simp at h; subst h
      exact .eof rfl (by omega)
  · rename_i c cs
    split at h
    · rename_i hc
      refine cnspec_ofSub (lexIdentifier_ok cfg.up hs c cs hc) ?_ h
      intro tok n hr
      exact lexIdentifier_spells hs hr
    · exact consumeCharacter_spec h

/-- `step` is `handle_indentations` (at the beginning of a line) followed by `consume_normal` -/
theorem step_spec {cfg : Cfg} (hs : cfg.up.Sane) {st : LexState} {inp : List Nat} {o : StepOut}
    (h : step cfg st inp = .ok o) :
    (st.atBol = false ∧ CNSpec cfg st inp o) ∨
    (st.atBol = true ∧ ∃ eo extra stack o2,
      eatIndent cfg.fullLexer inp 0 0 0 0 = .ok eo ∧ HIExtra st eo extra stack ∧
      CNSpec cfg ⟨eo.atBol, st.nesting, stack⟩ (inp.drop eo.pos) o2 ∧
      o = ⟨eo.toks ++ extra ++ o2.toks.map (·.shift eo.pos), eo.pos + o2.consumed, o2.st, o2.done⟩ ∧
      (StInv st → StInv ⟨eo.atBol, st.nesting, stack⟩)) := by
  unfold step at h
  split at h
  · rename_i hb
    right
    refine ⟨hb, ?_⟩
    split at h
    · simp at h
    · rename_i toks1 p st1 hh
      obtain ⟨eo, extra, stack, he, hx, rfl, rfl, rfl, hinv⟩ := handleIndentations_spec hh
      split at h
      · simp at h
      · rename_i o2 hc
        simp at h; subst h
        exact ⟨eo, extra, stack, o2, he, hx, consumeNormal_spec hs hc, by simp, hinv⟩
  · rename_i hb
    left
    exact ⟨by simpa using hb, consumeNormal_spec hs h⟩

end PV.C05
