/-
  C10 — models of the three feature-dependent mechanisms named in the property's anchors that live
  outside the lexer (the lexer side, `full-lexer`, is `PV/C10/LexFilter.lean` on the lexer model):

  * `OptionalRange` (`ast/src/generic.rs`) and `optional_range` (`parser/src/parser.rs`): with
    `all-nodes-with-ranges` a `TextRange`, otherwise the zero-sized `EmptyRange`;
  * how a tree is built from the same grammar actions in the two configurations (`build`);
  * integer literals: the digit text the lexer hands to `BigInt::from_str_radix` / `str::parse::<BigInt>`
    (`parser/src/lexer.rs` lex_number, lex_number_radix, lex_normal_number, radix_run), with the bigint
    backend as a PARAMETER (`Backend`).
  Core Lean only.
-/
namespace PV.C10

/-! ### optional ranges -/

/-- `OptionalRange<TextRange>`: `EmptyRange` (prints `()`) or a real range -/
inductive OptRange where
  | empty
  | range (a b : Nat)
  deriving DecidableEq, Repr, Inhabited

/-- `OptionalRange::<TextRange>::new(start, end)`.  `none` = panic: with `all-nodes-with-ranges` this is
    `TextRange::new`, which asserts `start <= end`; `EmptyRange::new` ignores its arguments. -/
def optionalRange (allRanges : Bool) (a b : Nat) : Option OptRange :=
  if allRanges then (if a ≤ b then some (.range a b) else none) else some .empty

/-- what the grammar actions see of a piece of syntax: node kind, extent, scalar payload, first child
    and next sibling (left-child/right-sibling form of the syntax tree) -/
inductive Sk where
  | nil
  | node (kind a b : Nat) (payload : List Nat) (child sibling : Sk)
  deriving Repr, Inhabited

inductive RangeField where
  | mandatory (a b : Nat)
  | optional (r : OptRange)
  deriving DecidableEq, Repr, Inhabited

inductive Tree where
  | nil
  | node (kind : Nat) (range : RangeField) (payload : List Nat) (child sibling : Tree)
  deriving DecidableEq, Repr, Inhabited

/-- the tree built under one configuration; `isOpt kind` says whether the kind's `range` field is an
    `OptionalRange` (regenerated table `PV.C10.Gen.rangeKinds`) -/
def build (isOpt : Nat → Bool) (allRanges : Bool) : Sk → Tree
  | .nil => .nil
  | .node k a b p c s =>
    let r := if isOpt k then
        RangeField.optional (if allRanges then .range a b else .empty)
      else .mandatory a b
    .node k r p (build isOpt allRanges c) (build isOpt allRanges s)

/-- the canonicaliser applied before trees of different builds are compared: optional ranges erased,
    nothing else touched -/
def erase : Tree → Tree
  | .nil => .nil
  | .node k (.optional _) p c s => .node k (.optional .empty) p (erase c) (erase s)
  | .node k (.mandatory a b) p c s => .node k (.mandatory a b) p (erase c) (erase s)

/-- all mandatory ranges, in pre-order -/
def mandatoryRanges : Tree → List (Nat × Nat × Nat)
  | .nil => []
  | .node k (.mandatory a b) _ c s => (k, a, b) :: (mandatoryRanges c ++ mandatoryRanges s)
  | .node _ (.optional _) _ c s => mandatoryRanges c ++ mandatoryRanges s

/-! ### integer literals -/

/-- value of an ASCII digit (any radix up to 16) -/
def digitVal (c : Nat) : Option Nat :=
  if 48 ≤ c ∧ c ≤ 57 then some (c - 48)
  else if 97 ≤ c ∧ c ≤ 102 then some (c - 87)
  else if 65 ≤ c ∧ c ≤ 70 then some (c - 55)
  else none

/-- `Lexer::is_digit_of_radix` -/
def isDigitOf (radix c : Nat) : Bool :=
  match digitVal c with
  | some d => decide (d < radix)
  | none => false

/-- `radix_run`: digits, with single underscores allowed only directly before a digit; returns the
    collected digit characters and the unconsumed rest -/
def radixRun (radix : Nat) : List Nat → List Nat × List Nat
  | [] => ([], [])
  | c :: rest =>
    if isDigitOf radix c then
      let r := radixRun radix rest
      (c :: r.1, r.2)
    else if c = 95 then
      match rest with
      | d :: _ => if isDigitOf radix d then radixRun radix rest else ([], c :: rest)
      | [] => ([], [c])
    else ([], c :: rest)

/-- the big-integer backend: `from_str_radix` on a digit text (`malachite-bigint` or `num-bigint`) -/
structure Backend where
  fromStrRadix : List Nat → Nat → Option Nat

/-- Horner evaluation — the reference backend the driver runs -/
def horner (radix : Nat) (ds : List Nat) : Nat :=
  ds.foldl (fun acc c => acc * radix + (digitVal c).getD 0) 0

def refBackend : Backend where
  fromStrRadix := fun ds radix => if ds.isEmpty then none else some (horner radix ds)

/-- value of a text that is, as a whole, one integer literal (`none` otherwise: a lexical error or more
    than one token).  Mirrors `lex_number` → `lex_number_radix` / `lex_normal_number`. -/
def intLit (B : Backend) (text : List Nat) : Option Nat :=
  let radixed (radix : Nat) (body : List Nat) : Option Nat :=
    match radixRun radix body with
    | (ds, []) => B.fromStrRadix ds radix
    | _ => none
  match text with
  | 48 :: 120 :: body => radixed 16 body      -- 0x
  | 48 :: 88 :: body => radixed 16 body       -- 0X
  | 48 :: 111 :: body => radixed 8 body       -- 0o
  | 48 :: 79 :: body => radixed 8 body        -- 0O
  | 48 :: 98 :: body => radixed 2 body        -- 0b
  | 48 :: 66 :: body => radixed 2 body        -- 0B
  | c :: _ =>
    if isDigitOf 10 c then
      match radixRun 10 text with
      | (ds, []) =>
        match B.fromStrRadix ds 10 with
        | some v => if c = 48 ∧ v ≠ 0 then none else some v   -- leading zeros only for zero
        | none => none
      | _ => none
    else none
  | [] => none

end PV.C10
