import PV.C10.Model
import PV.C10.Spec
import PV.C10.Lemmas
import PV.Gen.C10RangeKinds
import PV.C10.LexFilter   -- lexer model: full_lexer_filter, softkw_commutes_filter(_fails)
/-
  C10 — property theorems: "Cargo feature choices do not change what is parsed".

  What is a THEOREM here, and what is a DIFFERENTIAL BUILD (see tools/props/c10.py, LEVEL_TEXT):
  * all-nodes-with-ranges only adds ranges: theorems below on the model of `OptionalRange` and of tree
    construction, plus a `decide` on the regenerated table (schema vs. generated fold);
  * bigint backends: theorems below, with the backend as a parameter constrained by its contract
    (`Spec.BackendOk`); that the two crates meet the contract is sampled by the builds, not proved;
  * full-lexer: `PV.C10.full_lexer_filter`, `PV.C10.softkw_commutes_filter` live in
    lean/PV/C10/LexFilter.lean (lexer model); the LALRPOP parser behind the filter is compared by builds.
-/
namespace PV.C10
open Spec

/-! ## all-nodes-with-ranges only adds ranges -/

/-- Building the same syntax under the two configurations gives the same tree once the OPTIONAL ranges
    are erased — whatever set of kinds is optional. -/
theorem optional_range_erasure (isOpt : Nat → Bool) (sk : Sk) :
    erase (build isOpt true sk) = erase (build isOpt false sk) := by
  induction sk with
  | nil => rfl
  | node k a b p c s ihc ihs =>
    simp only [build]
    cases isOpt k <;> simp [erase, ihc, ihs]

/-- Without the feature there is nothing to erase: the default build's tree is already canonical. -/
theorem default_build_is_canonical (isOpt : Nat → Bool) (sk : Sk) :
    erase (build isOpt false sk) = build isOpt false sk := by
  induction sk with
  | nil => rfl
  | node k a b p c s ihc ihs =>
    simp only [build]
    cases isOpt k <;> simp [erase, ihc, ihs]

/-- Every mandatory range is the same in both configurations, and erasure keeps all of them. -/
theorem mandatory_ranges_kept (isOpt : Nat → Bool) (c1 c2 : Bool) (sk : Sk) :
    mandatoryRanges (build isOpt c1 sk) = mandatoryRanges (build isOpt c2 sk) ∧
    mandatoryRanges (erase (build isOpt c1 sk)) = mandatoryRanges (build isOpt c1 sk) := by
  induction sk with
  | nil => exact ⟨rfl, rfl⟩
  | node k a b p c s ihc ihs =>
    simp only [build]
    cases isOpt k <;> simp [erase, mandatoryRanges, ihc.1, ihs.1, ihc.2, ihs.2]

/-- `OptionalRange::new`: the default build never looks at its arguments; the all-ranges build returns the
    range, and is defined exactly when `start ≤ end` (otherwise `TextRange::new` panics — the one way the
    feature could change acceptance; the grammar only passes `@L`/`@R` pairs, checked by the builds). -/
theorem optionalRange_spec (a b : Nat) :
    optionalRange false a b = some .empty ∧
    (a ≤ b → optionalRange true a b = some (.range a b)) ∧
    (b < a → optionalRange true a b = none) := by
  refine ⟨rfl, ?_, ?_⟩
  · intro h; simp [optionalRange, h]
  · intro h; simp [optionalRange]; omega

/-- The regenerated schema/fold table: a node kind's generated fold goes through the `_cfg` callbacks
    (which compile to "rebuild an `EmptyRange`" without the feature) exactly when its range field is an
    `OptionalRange`.  Re-proved on every run. -/
theorem fold_cfg_matches_schema :
    ∀ row ∈ Gen.rangeKinds, row.2.1 = true → (row.2.2.1 = row.1 ∧ row.2.2.2 = row.1) := by decide

example : (true, true, true, true) ∈ Gen.rangeKinds ∧ (false, true, false, false) ∈ Gen.rangeKinds := by decide

example : erase (build (· == 0) true (.node 0 0 9 [] (.node 1 2 3 [7] .nil .nil) .nil))
    = .node 0 (.optional .empty) [] (.node 1 (.mandatory 2 3) [7] .nil .nil) .nil := by decide

/-! ## either big-integer backend -/

/-- Horner evaluation (the reference backend of the driver) meets the backend contract. -/
theorem refBackend_ok : BackendOk refBackend := by
  constructor
  · intro radix; rfl
  · intro radix ds hne _
    simp [refBackend, horner_eq_positional]
    exact hne

/-- The value of an integer literal is the one Python assigns to its text (prefix and underscores
    dropped, digits read positionally) — for ANY backend meeting the `from_str_radix` contract. -/
theorem int_value_spec (B : Backend) (hB : BackendOk B) (text : List Nat) (v : Nat)
    (h : intLit B text = some v) : v = intValue text := by
  unfold intLit at h
  simp only at h
  split at h
  all_goals first
    | exact radixed_spec B hB _ _ v h
    | skip
  · rename_i c rest h1 h2 h3 h4 h5 h6
    split at h
    · split at h
      · rename_i ds heq
        split at h
        · rename_i w hw
          split at h
          · cases h
          · cases h
            obtain ⟨e1, e2⟩ := radixRun_digits 10 _ ds heq
            have hne : ds ≠ [] := by
              intro hd; subst hd; rw [hB.1] at hw; cases hw
            rw [hB.2 10 ds hne e2] at hw
            cases hw
            rw [e1]
            unfold intValue splitPrefix
            split <;> simp_all
        · cases h
      · cases h
    · cases h
  · cases h

/-- hence it does not depend on which backend is compiled in -/
theorem int_value_backend_independent (B1 B2 : Backend) (h1 : BackendOk B1) (h2 : BackendOk B2)
    (text : List Nat) : intLit B1 text = intLit B2 text := by
  unfold intLit
  simp only
  split
  all_goals first
    | exact radixed_eq B1 B2 h1 h2 _ _
    | skip
  · split
    · split
      · rename_i ds heq
        rw [fromStrRadix_eq B1 B2 h1 h2 10 _ ds heq]
      · rfl
    · rfl
  · rfl

example : intLit refBackend [48, 120, 70, 95, 102] = some 255 := by decide   -- 0xF_f
example : intLit refBackend [48, 48, 95, 48] = some 0 := by decide           -- 00_0
example : intLit refBackend [48, 55] = none := by decide                     -- 07
example : intLit refBackend [49, 95, 95, 48] = none := by decide             -- 1__0

end PV.C10
