import PV.C10.Model
import PV.C10.Spec
import PV.C10.Lemmas
import PV.Gen.C10RangeKinds
import PV.C10.LexFilter   -- lexer model: full_lexer_filter, softkw_commutes_filter(_fails)
import PV.C09.Pipeline   -- text → answer on the models (lexer model, filter, token conversion, PV.Prog.parseProgram)
/-
  C10 — property theorems: "Cargo feature choices do not change what is parsed".

  What is a THEOREM here, and what is a DIFFERENTIAL BUILD (see tools/props/c10.py, LEVEL_TEXT):
  * all-nodes-with-ranges only adds ranges: theorems below on the model of `OptionalRange` and of tree
    construction, plus a `decide` on the regenerated table (schema vs. generated fold);
  * bigint backends: theorems below, with the backend as a parameter constrained by its contract
    (`Spec.BackendOk`); that the two crates meet the contract is sampled by the builds, not proved;
  * full-lexer: `PV.C10.full_lexer_filter`, `PV.C10.softkw_commutes_filter` live in
    lean/PV/C10/LexFilter.lean (lexer model); the LALRPOP parser behind the filter is compared by builds;
    END TO END ON THE MODELS (last section): `feature_tree_invariant` — with or without `full-lexer` the pipeline
    lexer model → filter → reference parser `PV.Prog.parseProgram` gives the same answer (same tree, same rejection,
    same first lexical error) —, `feature_first_error_invariant`, `feature_lex_error_invariant` (unconditional).
-/
namespace PV.C10
open Spec

/-! ## all-nodes-with-ranges only adds ranges -/

/-- Building the same syntax under the two configurations gives the same tree once the OPTIONAL ranges
    are erased — whatever set of kinds is optional. -/
theorem optional_range_erasure (isOpt : Nat → Bool) (sk : Sk) :
    erase (build isOpt true sk) = erase (build isOpt false sk) := by
  induction sk with
  | nil => rfl
  | node k a b p c s ihc ihs =>
    simp only [build]
    cases isOpt k <;> simp [erase, ihc, ihs]

/-- Without the feature there is nothing to erase: the default build's tree is already canonical. -/
theorem default_build_is_canonical (isOpt : Nat → Bool) (sk : Sk) :
    erase (build isOpt false sk) = build isOpt false sk := by
  induction sk with
  | nil => rfl
  | node k a b p c s ihc ihs =>
    simp only [build]
    cases isOpt k <;> simp [erase, ihc, ihs]

/-- Every mandatory range is the same in both configurations, and erasure keeps all of them. -/
theorem mandatory_ranges_kept (isOpt : Nat → Bool) (c1 c2 : Bool) (sk : Sk) :
    mandatoryRanges (build isOpt c1 sk) = mandatoryRanges (build isOpt c2 sk) ∧
    mandatoryRanges (erase (build isOpt c1 sk)) = mandatoryRanges (build isOpt c1 sk) := by
  induction sk with
  | nil => exact ⟨rfl, rfl⟩
  | node k a b p c s ihc ihs =>
    simp only [build]
    cases isOpt k <;> simp [erase, mandatoryRanges, ihc.1, ihs.1, ihc.2, ihs.2]

/-- `OptionalRange::new`: the default build never looks at its arguments; the all-ranges build returns the
    range, and is defined exactly when `start ≤ end` (otherwise `TextRange::new` panics — the one way the
    feature could change acceptance; the grammar only passes `@L`/`@R` pairs, checked by the builds). -/
theorem optionalRange_spec (a b : Nat) :
    optionalRange false a b = some .empty ∧
    (a ≤ b → optionalRange true a b = some (.range a b)) ∧
    (b < a → optionalRange true a b = none) := by
  refine ⟨rfl, ?_, ?_⟩
  · intro h; simp [optionalRange, h]
  · intro h; simp [optionalRange]; omega

/-- The regenerated schema/fold table: a node kind's generated fold goes through the `_cfg` callbacks
    (which compile to "rebuild an `EmptyRange`" without the feature) exactly when its range field is an
    `OptionalRange`.  Re-proved on every run. -/
theorem fold_cfg_matches_schema :
    ∀ row ∈ Gen.rangeKinds, row.2.1 = true → (row.2.2.1 = row.1 ∧ row.2.2.2 = row.1) := by decide

example : (true, true, true, true) ∈ Gen.rangeKinds ∧ (false, true, false, false) ∈ Gen.rangeKinds := by decide

example : erase (build (· == 0) true (.node 0 0 9 [] (.node 1 2 3 [7] .nil .nil) .nil))
    = .node 0 (.optional .empty) [] (.node 1 (.mandatory 2 3) [7] .nil .nil) .nil := by decide

/-! ## either big-integer backend -/

/-- Horner evaluation (the reference backend of the driver) meets the backend contract. -/
theorem refBackend_ok : BackendOk refBackend := by
  constructor
  · intro radix; rfl
  · intro radix ds hne _
    simp [refBackend, horner_eq_positional]
    exact hne

/-- The value of an integer literal is the one Python assigns to its text (prefix and underscores
    dropped, digits read positionally) — for ANY backend meeting the `from_str_radix` contract. -/
theorem int_value_spec (B : Backend) (hB : BackendOk B) (text : List Nat) (v : Nat)
    (h : intLit B text = some v) : v = intValue text := by
  unfold intLit at h
  simp only at h
  split at h
  all_goals first
    | exact radixed_spec B hB _ _ v h
    | skip
  · rename_i c rest h1 h2 h3 h4 h5 h6
    split at h
    · split at h
      · rename_i ds heq
        split at h
        · rename_i w hw
          split at h
          · cases h
          · cases h
            obtain ⟨e1, e2⟩ := radixRun_digits 10 _ ds heq
            have hne : ds ≠ [] := by
              intro hd; subst hd; rw [hB.1] at hw; cases hw
            rw [hB.2 10 ds hne e2] at hw
            cases hw
            rw [e1]
            unfold intValue splitPrefix
            split <;> simp_all
        · cases h
      · cases h
    · cases h
  · cases h

/-- hence it does not depend on which backend is compiled in -/
theorem int_value_backend_independent (B1 B2 : Backend) (h1 : BackendOk B1) (h2 : BackendOk B2)
    (text : List Nat) : intLit B1 text = intLit B2 text := by
  unfold intLit
  simp only
  split
  all_goals first
    | exact radixed_eq B1 B2 h1 h2 _ _
    | skip
  · split
    · split
      · rename_i ds heq
        rw [fromStrRadix_eq B1 B2 h1 h2 10 _ ds heq]
      · rfl
    · rfl
  · rfl

example : intLit refBackend [48, 120, 70, 95, 102] = some 255 := by decide   -- 0xF_f
example : intLit refBackend [48, 48, 95, 48] = some 0 := by decide           -- 00_0
example : intLit refBackend [48, 55] = none := by decide                     -- 07
example : intLit refBackend [49, 95, 95, 48] = none := by decide             -- 1__0

/-! ## full-lexer, end to end on the models

  `PV.Pipeline.parseText conv cfg mode k src` = lexer model (with the soft-keyword pass) in the configuration `cfg` from start
  offset `k`, the filter of `parse_filtered_tokens`, the token conversion `conv`, the reference parser
  `PV.Prog.parseProgram` (lean/PV/C09/Pipeline.lean).  As in `PV.C08.layout_tree_invariant` the conversion is a parameter
  that cannot see positions; the statements hold for every such map. -/

section EndToEnd
open PV.Lexer PV.Pipeline

/-- the filter of the pipeline is the filter of `full_lexer_filter` -/
theorem filterTrivia_eq_dropTrivia (toks : List Spanned) : filterTrivia toks = dropTrivia toks := rfl

/-- dropping the trivia tokens from the lexer's result before it is handed over changes no answer (the pipeline filters anyway) -/
theorem answerOf_dropOut (conv : Conv) (pmode : PV.Prog.Mode) (r : Option LexOut) :
    answerOf conv pmode (r.map dropOut) = answerOf conv pmode r := by
  cases r with
  | none => rfl
  | some o =>
    simp only [Option.map_some, answerOf, answerOfFuel, dropOut]
    rw [← filterTrivia_eq_dropTrivia, parserInput_filter]

/-- **With or without the `full-lexer` feature the same tree is built** (on the models): for every token conversion, mode,
    start offset and source whose full-lexer stream is `SoftSafe` (the side condition of `softkw_commutes_filter`: a soft
    keyword that is examined is not directly followed by a comment / non-logical newline), the pipeline gives the same
    answer in both configurations — the same tree, or the same rejection, or the same first lexical error (kind and
    offset), or the same panic.  Composition of `softkw_commutes_filter` (both configurations hand the parser the same
    tokens with the same ranges) with the filter of `parse_filtered_tokens`; since even the ranges agree,
    `PV.Prog.parseProgram_layout_free` is not needed. -/
theorem feature_tree_invariant (conv : Conv) (up : UParams) (mode : Mode) (k : Nat) (src : List Nat)
    (hs : ∀ oF, lexRaw ⟨true, up⟩ k src = some oF → SoftSafe oF.toks (SoftSt.init mode)) :
    parseText conv ⟨true, up⟩ mode k src = parseText conv ⟨false, up⟩ mode k src := by
  unfold parseText
  cases hF : lexRaw ⟨true, up⟩ k src with
  | none =>
    have h1 : lex ⟨true, up⟩ mode k src = none := by simp [lex, hF]
    have h2 : lex ⟨false, up⟩ mode k src = none := by simp [lex, lexRaw_filter, hF]
    rw [h1, h2]
  | some oF =>
    rw [softkw_commutes_filter up mode k src oF hF (hs oF hF), answerOf_dropOut]

/-- **The first lexical error is the same in both configurations** — kind, character index and byte offset; also "no
    error" and "panic" —, for EVERY source (no side condition: the soft-keyword pass does not touch the end of the
    stream).  Corollary of `full_lexer_filter`. -/
theorem feature_first_error_invariant (up : UParams) (mode : Mode) (k : Nat) (src : List Nat) :
    (lex ⟨false, up⟩ mode k src).map (·.fin) = (lex ⟨true, up⟩ mode k src).map (·.fin) := by
  unfold lex
  rw [lexRaw_filter]
  cases lexRaw ⟨true, up⟩ k src <;> simp [dropOut]

/-- … hence the pipeline answers "lexical error `kind` at `offset`" in one configuration iff it does in the other, for
    every source -/
theorem feature_lex_error_invariant (conv : Conv) (up : UParams) (mode : Mode) (k : Nat) (src : List Nat)
    (kind : ErrKind) (offset : Nat) :
    parseText conv ⟨true, up⟩ mode k src = .lexError kind offset ↔
      parseText conv ⟨false, up⟩ mode k src = .lexError kind offset := by
  unfold parseText answerOf
  rw [answerOfFuel_lexError_iff, answerOfFuel_lexError_iff, feature_first_error_invariant up mode k src]

/-- `type X = (1, # c⏎ 2)⏎⏎`: a soft keyword, a comment and a line break inside brackets, a blank line -/
def treeSrc : List Nat := [116, 121, 112, 101, 32, 88, 32, 61, 32, 40, 49, 44, 32, 35, 32, 99, 10, 32, 50, 41, 10, 10]

theorem treeSrc_full : lexRaw ⟨true, asciiUp⟩ 0 treeSrc = some
    ⟨[⟨.kw .Type_, 0, 4, 0, 4⟩, ⟨.name [88], 5, 6, 5, 6⟩, ⟨.op .Equal, 7, 8, 7, 8⟩, ⟨.op .Lpar, 9, 10, 9, 10⟩,
      ⟨.int 1, 10, 11, 10, 11⟩, ⟨.op .Comma, 11, 12, 11, 12⟩, ⟨.comment [35, 32, 99], 13, 16, 13, 16⟩,
      ⟨.nonLogicalNewline, 16, 17, 16, 17⟩, ⟨.int 2, 18, 19, 18, 19⟩, ⟨.op .Rpar, 19, 20, 19, 20⟩,
      ⟨.newline, 20, 21, 20, 21⟩, ⟨.nonLogicalNewline, 21, 22, 21, 22⟩], .eof, 22⟩ := by decide +kernel

/-- the side condition of `feature_tree_invariant` holds for it (three trivia tokens are in the full-lexer stream) … -/
theorem treeSrc_softSafe : ∀ oF, lexRaw ⟨true, asciiUp⟩ 0 treeSrc = some oF → SoftSafe oF.toks (SoftSt.init .module) := by
  intro oF h
  rw [treeSrc_full] at h
  cases h
  simp [SoftSafe, HeadOk, Tok.isTrivia, SoftSt.init]

theorem treeSrc_default : lex ⟨false, asciiUp⟩ .module 0 treeSrc = some
    ⟨[⟨.kw .Type_, 0, 4, 0, 4⟩, ⟨.name [88], 5, 6, 5, 6⟩, ⟨.op .Equal, 7, 8, 7, 8⟩, ⟨.op .Lpar, 9, 10, 9, 10⟩,
      ⟨.int 1, 10, 11, 10, 11⟩, ⟨.op .Comma, 11, 12, 11, 12⟩, ⟨.int 2, 18, 19, 18, 19⟩, ⟨.op .Rpar, 19, 20, 19, 20⟩,
      ⟨.newline, 20, 21, 20, 21⟩], .eof, 22⟩ := by decide +kernel

/-- … and the answer, in both configurations, is the `TypeAlias` statement -/
example : parseText sampleConv ⟨true, asciiUp⟩ .module 0 treeSrc =
    .tree (.module [.typeAlias (.name [88]) [] (.tuple [.const (.int 1), .const (.int 2)])]) := by
  rw [feature_tree_invariant sampleConv asciiUp .module 0 treeSrc treeSrc_softSafe]
  unfold parseText
  rw [treeSrc_default]
  rfl

/-- `x = $`: both configurations stop at the same lexical error -/
example : (lex ⟨true, asciiUp⟩ .module 7 [120, 32, 61, 32, 36]).map (·.fin) = some (.err (.unrecognizedToken 36) 5 12) ∧
    parseText sampleConv ⟨false, asciiUp⟩ .module 7 [120, 32, 61, 32, 36] = .lexError (.unrecognizedToken 36) 12 := by
  refine ⟨by decide +kernel, ?_⟩
  have h : lex ⟨false, asciiUp⟩ .module 7 [120, 32, 61, 32, 36] = some
      ⟨[⟨.name [120], 0, 1, 7, 8⟩, ⟨.op .Equal, 2, 3, 9, 10⟩], .err (.unrecognizedToken 36) 5 12, 12⟩ := by decide +kernel
  unfold parseText
  rw [h]
  rfl

end EndToEnd

end PV.C10
