import PV.C10.Model
/-
  C10 — reference definitions: the value Python gives an integer literal (`int(text, 0)`): drop the
  radix prefix and every underscore, read the digits positionally.
-/
namespace PV.C10.Spec
open PV.C10

def stripUnderscores (t : List Nat) : List Nat := t.filter (· ≠ 95)

/-- positional value of a digit text -/
def positional (radix : Nat) : List Nat → Nat
  | [] => 0
  | c :: cs => (digitVal c).getD 0 * radix ^ cs.length + positional radix cs

/-- (radix, body) by the literal's prefix -/
def splitPrefix : List Nat → Nat × List Nat
  | 48 :: 120 :: body => (16, body)
  | 48 :: 88 :: body => (16, body)
  | 48 :: 111 :: body => (8, body)
  | 48 :: 79 :: body => (8, body)
  | 48 :: 98 :: body => (2, body)
  | 48 :: 66 :: body => (2, body)
  | t => (10, t)

def intValue (text : List Nat) : Nat :=
  let p := splitPrefix text
  positional p.1 (stripUnderscores p.2)

/-- contract of a big-integer backend (`from_str_radix` of `num-bigint` and of `malachite-bigint`): the empty
    text is an error; a non-empty digit text of the radix has its positional value -/
def BackendOk (B : Backend) : Prop :=
  (∀ radix, B.fromStrRadix [] radix = none) ∧
  ∀ radix ds, ds ≠ [] → (∀ c ∈ ds, isDigitOf radix c = true) → B.fromStrRadix ds radix = some (positional radix ds)

end PV.C10.Spec
