import PV.Lexer.Lemmas
/-
  C10, lexer part (b-c05): the `full-lexer` feature only ADDS `Comment` / `NonLogicalNewline` tokens.

    * `full_lexer_filter`  (= `lexRaw_filter`): for every source, start offset and Unicode table, the default
      lexer's stream is the full lexer's stream with those tokens removed — same tokens, same ranges, same
      first error (kind and offset), same panics.  Proved step by step (`consumeCharacter_filter`,
      `eatIndent_filter`, `handleIndentations_filter`, `step_filter`, `lexAll_filter`).
    * soft keywords: see the end of the file — `softkw_commutes_filter` states when (`SoftSafe`) the
      soft-keyword pass commutes with the filter, and `softkw_commutes_filter_fails` is a concrete text on
      which the two configurations feed DIFFERENT tokens to the parser (known finding, reproduced on the
      real code: `type X[(] # c\n= int)\n`).

  Imports only PV.Lexer.*; `PV/C10/Thm.lean` (b-c0910) re-exports the theorems.
-/
namespace PV.C10
open PV.Lexer

/-- remove `Comment` / `NonLogicalNewline` tokens from the tokens of one step -/
def dropT (o : StepOut) : StepOut := { o with toks := o.toks.filter (fun t => !t.tok.isTrivia) }

def mapOk {ε α β : Type} (f : α → β) : Except ε α → Except ε β
  | .ok a => .ok (f a)
  | .error e => .error e

theorem dropT_one {tok : Tok} {n : Nat} {st : LexState} (h : tok.isTrivia = false) : dropT (one tok n st) = one tok n st := by
  simp [dropT, one, h]

theorem dropT_one_trivia {tok : Tok} {n : Nat} {st : LexState} (h : tok.isTrivia = true) : dropT (one tok n st) = skip n st := by
  simp [dropT, one, skip, h]

theorem dropT_skip {n : Nat} {st : LexState} : dropT (skip n st) = skip n st := by simp [dropT, skip]

theorem ofSub_filter (st : LexState) (r : Sub) (h : ∀ tok n, r = .ok (tok, n) → tok.isTrivia = false) :
    mapOk dropT (ofSub st r) = ofSub st r := by
  cases r with
  | error e => rfl
  | ok p => obtain ⟨tok, n⟩ := p; simp [ofSub, mapOk, dropT_one (h tok n rfl)]

theorem lexString_tok {kind : StringKind} {inp : List Nat} {tok : Tok} {n : Nat}
    (h : lexString kind inp = .ok (tok, n)) : ∃ v tr, tok = .string v kind tr := by
  unfold lexString at h
  split at h
  · simp at h
  · split at h
    · split at h
      · simp at h; exact ⟨_, _, h.1.symm⟩
      · simp at h
    · split at h
      · simp at h; exact ⟨_, _, h.1.symm⟩
      · simp at h

theorem lexNumber_tok {inp : List Nat} {tok : Tok} {n : Nat} (h : lexNumber inp = .ok (tok, n)) :
    tok.isTrivia = false := by
  have radix : ∀ r rest, lexNumberRadix r rest = .ok (tok, n) → tok.isTrivia = false := by
    intro r rest h
    simp only [lexNumberRadix] at h
    split at h <;> simp at h
    rw [← h.1]; rfl
  have itok : ∀ z ds m, intTok z ds m = .ok (tok, n) → tok.isTrivia = false := by
    intro z ds m h
    unfold intTok at h
    split at h
    · simp at h
    · split at h <;> simp at h
      rw [← h.1]; rfl
  have normal : lexNormalNumber inp = .ok (tok, n) → tok.isTrivia = false := by
    intro h
    simp only [lexNormalNumber] at h
    split at h
    · unfold floatTail at h
      split at h
      · simp at h
      · split at h
        · simp at h
        · split at h
          · simp at h
          · split at h
            · split at h <;> (simp at h; rw [← h.1]; rfl)
            · simp at h; rw [← h.1]; rfl
    · unfold intTail at h
      split at h
      · split at h
        · split at h
          · simp at h; rw [← h.1]; rfl
          · simp at h
        · exact itok _ _ _ h
      · exact itok _ _ _ h
  unfold lexNumber at h
  split at h
  · split at h
    · exact radix _ _ h
    · split at h
      · exact radix _ _ h
      · split at h
        · exact radix _ _ h
        · exact normal h
  · exact normal h

@[simp] theorem ofSub_lexNumber_filter (st : LexState) (inp : List Nat) :
    mapOk dropT (ofSub st (lexNumber inp)) = ofSub st (lexNumber inp) :=
  ofSub_filter st _ (fun _ _ h => lexNumber_tok h)

@[simp] theorem ofSub_lexString_filter (st : LexState) (kind : StringKind) (inp : List Nat) :
    mapOk dropT (ofSub st (lexString kind inp)) = ofSub st (lexString kind inp) :=
  ofSub_filter st _ (fun _ _ h => by obtain ⟨v, tr, rfl⟩ := lexString_tok h; rfl)

theorem consumeCharacter_filter (up : UParams) (st : LexState) (c : Nat) (cs : List Nat) :
    consumeCharacter ⟨false, up⟩ st c cs = mapOk dropT (consumeCharacter ⟨true, up⟩ st c cs) := by
  fun_cases consumeCharacter ⟨true, up⟩ st c cs
  all_goals (try subst_vars)
  all_goals (simp (config := { decide := true }) [consumeCharacter, mapOk.eq_1, mapOk.eq_2, dropT, one, skip, Tok.isTrivia, *])
  all_goals first | rfl | (simp_all; done) | (rename_i h _ _; simpa using h)

theorem lexIdentifier_tok {up : UParams} {inp : List Nat} {tok : Tok} {n : Nat}
    (h : lexIdentifier up inp = .ok (tok, n)) : tok.isTrivia = false := by
  have name : ∀ p, lexName up inp = p → p.1.isTrivia = false := by
    intro p hp; subst hp
    unfold lexName; simp only []
    split <;> rfl
  have str : ∀ kind, lexString kind inp = .ok (tok, n) → tok.isTrivia = false := by
    intro kind h; obtain ⟨v, tr, rfl⟩ := lexString_tok h; rfl
  unfold lexIdentifier at h
  split at h
  · split at h
    · split at h
      · exact str _ h
      · simp at h; exact name _ h
    · split at h
      · split at h
        · split at h
          · exact str _ h
          · simp at h; exact name _ h
        · simp at h; exact name _ h
      · simp at h; exact name _ h
  · simp at h; exact name _ h

theorem consumeEof_filter (st : LexState) : mapOk dropT (consumeEof st) = consumeEof st := by
  unfold consumeEof
  split
  · rfl
  · simp only [mapOk, dropT]
    congr 2
    rw [List.filter_eq_self]
    intro t ht
    simp only [List.mem_append, List.mem_replicate] at ht
    rcases ht with ht | ⟨_, rfl⟩
    · split at ht
      · simp at ht
      · simp at ht; subst ht; rfl
    · rfl

theorem consumeNormal_filter (up : UParams) (st : LexState) (inp : List Nat) :
    consumeNormal ⟨false, up⟩ st inp = mapOk dropT (consumeNormal ⟨true, up⟩ st inp) := by
  unfold consumeNormal
  split
  · exact (consumeEof_filter st).symm
  · split
    · exact (ofSub_filter st _ (fun _ _ h => lexIdentifier_tok h)).symm
    · exact consumeCharacter_filter up st _ _

/-- `eat_indentation` of the default lexer = that of the full lexer without its tokens -/
theorem eatIndent_filter (l : List Nat) (skip pos s t : Nat) :
    eatIndent false l skip pos s t = mapOk (fun o => { o with toks := [] }) (eatIndent true l skip pos s t) := by
  fun_induction eatIndent true l skip pos s t
  case case4 hs => simp [eatIndent, hs, mapOk]
  case case5 hs ih => simp only [eatIndent, if_neg hs]; exact ih
  all_goals (simp only [eatIndent])
  all_goals first
    | rfl
    | (rename_i ih; rw [ih]; done)
    | (rename_i ih; rw [ih]
       cases eatIndent true _ _ _ _ _ <;> simp [EatOut.addTok, mapOk])

theorem eatIndent_trivia {full : Bool} {l : List Nat} {skip pos s t : Nat} {o : EatOut}
    (h : eatIndent full l skip pos s t = .ok o) : ∀ tk ∈ o.toks, tk.tok.isTrivia = true := by
  fun_induction eatIndent full l skip pos s t generalizing o
  all_goals first
    | (simp at h; subst h; simp; done)
    | (simp at h; done)
    | (rename_i ih; obtain ⟨o', hr, _, _, _, _, h5⟩ := addTok_ok h
       rw [h5]
       split
       · intro tk htk
         rcases List.mem_cons.mp htk with rfl | htk
         · rfl
         · exact ih hr tk htk
       · exact ih hr)
    | (rename_i ih; exact ih h)

def dropH (r : List RelTok × Nat × LexState) : List RelTok × Nat × LexState :=
  (r.1.filter (fun t => !t.tok.isTrivia), r.2.1, r.2.2)

theorem filter_trivia_nil {l : List RelTok} (h : ∀ tk ∈ l, tk.tok.isTrivia = true) :
    l.filter (fun t => !t.tok.isTrivia) = [] := by
  rw [List.filter_eq_nil_iff]
  intro tk htk; simp [h tk htk]

theorem filter_indent (a b : Nat) :
    [(⟨Tok.indent, a, b⟩ : RelTok)].filter (fun t => !t.tok.isTrivia) = [⟨Tok.indent, a, b⟩] := rfl

theorem filter_dedents (n p : Nat) :
    (List.replicate n (⟨Tok.dedent, p, p⟩ : RelTok)).filter (fun t => !t.tok.isTrivia) =
      List.replicate n ⟨Tok.dedent, p, p⟩ := by
  rw [List.filter_eq_self]
  intro t ht; rw [(List.mem_replicate.mp ht).2]; rfl

theorem handleIndentations_filter (up : UParams) (st : LexState) (inp : List Nat) :
    handleIndentations ⟨false, up⟩ st inp = mapOk dropH (handleIndentations ⟨true, up⟩ st inp) := by
  unfold handleIndentations
  simp only []
  rw [eatIndent_filter]
  cases he : eatIndent true inp 0 0 0 0 with
  | error e => simp [mapOk]
  | ok o =>
    have T := filter_trivia_nil (eatIndent_trivia he)
    simp only [mapOk]
    split
    · simp [mapOk, dropH, T]
    · split
      · simp [mapOk]
      · split
        · simp [mapOk]
        · simp [mapOk, dropH, T]
        · split
          · simp only [mapOk, dropH, List.filter_append, T, filter_indent, List.nil_append]
          · simp [mapOk]
        · split
          · simp [mapOk]
          · simp only [mapOk, dropH, List.filter_append, T, filter_dedents, List.nil_append]

theorem step_filter (up : UParams) (st : LexState) (inp : List Nat) :
    step ⟨false, up⟩ st inp = mapOk dropT (step ⟨true, up⟩ st inp) := by
  unfold step
  split
  · rw [handleIndentations_filter]
    cases hh : handleIndentations ⟨true, up⟩ st inp with
    | error e => simp [mapOk]
    | ok r =>
      obtain ⟨toks1, p, st1⟩ := r
      simp only [mapOk, dropH]
      rw [consumeNormal_filter]
      cases hc : consumeNormal ⟨true, up⟩ st1 (inp.drop p) with
      | error e => simp [mapOk]
      | ok o =>
        simp only [mapOk, dropT, List.filter_append, List.filter_map]
        congr 2
  · exact consumeNormal_filter up st inp

/-! ### the whole stream -/

/-- the tokens that `parser.rs` lets through under `full-lexer` -/
def dropTrivia (toks : List Spanned) : List Spanned := toks.filter (fun t => !t.tok.isTrivia)

def dropOut (o : LexOut) : LexOut := { o with toks := dropTrivia o.toks }

theorem lexAll_filter (up : UParams) (fuel : Nat) (st : LexState) (inp : List Nat) (cb bb : Nat) :
    lexAll ⟨false, up⟩ fuel st inp cb bb = dropOut (lexAll ⟨true, up⟩ fuel st inp cb bb) := by
  induction fuel generalizing st inp cb bb with
  | zero => simp [lexAll, dropOut, dropTrivia]
  | succ fuel ih =>
    unfold lexAll
    rw [step_filter]
    cases hs : step ⟨true, up⟩ st inp with
    | error e => simp [mapOk, dropOut, dropTrivia]
    | ok o =>
      simp only [mapOk, dropT]
      have e : List.map (absTok inp cb bb) (o.toks.filter (fun t => !t.tok.isTrivia)) =
          dropTrivia (o.toks.map (absTok inp cb bb)) := by
        simp [dropTrivia, List.filter_map, absTok, Function.comp_def]
      by_cases hd : o.done = true
      · simp only [hd, if_true, e, dropOut]
      · have hd' : o.done = false := by simpa using hd
        simp only [hd', Bool.false_eq_true, if_false, e, ih, dropOut, dropTrivia, List.filter_append]

theorem finish_dropOut (o : LexOut) :
    (if (dropOut o).reachedB > u32Max then none
     else match (dropOut o).fin with
       | .err .panic _ _ => none
       | _ => some (dropOut o)) =
    (if o.reachedB > u32Max then none
     else match o.fin with
       | .err .panic _ _ => none
       | _ => some o).map dropOut := by
  by_cases h : o.reachedB > u32Max
  · simp [dropOut, h]
  · simp only [dropOut, h, if_false]
    split <;> simp_all [dropOut]

/-- C10, lexer part: lexing with `full-lexer` and dropping `Comment` / `NonLogicalNewline` tokens
    (what `parse_tokens` does) gives exactly the default lexer's stream: same tokens, same ranges,
    same first error, same panics. -/
theorem lexRaw_filter (up : UParams) (k : Nat) (src : List Nat) :
    lexRaw ⟨false, up⟩ k src = (lexRaw ⟨true, up⟩ k src).map dropOut := by
  unfold lexRaw lexRawFuel
  simp only []
  split
  · rw [lexAll_filter]; exact finish_dropOut _
  · rw [lexAll_filter]; exact finish_dropOut _

/-- the name used in DESIGN.md -/
theorem full_lexer_filter (up : UParams) (k : Nat) (src : List Nat) :
    lexRaw ⟨false, up⟩ k src = (lexRaw ⟨true, up⟩ k src).map dropOut := lexRaw_filter up k src


/-! ## soft keywords and the filter

  `parse_tokens` filters AFTER the soft-keyword pass.  The pass is transparent for trivia tokens as far
  as `start_of_line` and the `match` / `case` look-ahead are concerned, but NOT in the `type` look-ahead,
  whose loop stops at any token that is not a square bracket while its own bracket counter is ≤ 0. -/

theorem dropTrivia_cons_trivia {t : Spanned} {ts : List Spanned} (h : t.tok.isTrivia = true) :
    dropTrivia (t :: ts) = dropTrivia ts := by simp [dropTrivia, h]

theorem dropTrivia_cons_keep {t : Spanned} {ts : List Spanned} (h : t.tok.isTrivia = false) :
    dropTrivia (t :: ts) = t :: dropTrivia ts := by simp [dropTrivia, h]

/-- once the first token after `match` / `case` has been seen, trivia tokens do not influence the look-ahead -/
theorem matchCaseLook_filter (ts : List Spanned) (n : Int) (sc sl : Bool) :
    matchCaseLook (dropTrivia ts) n false sc sl = matchCaseLook ts n false sc sl := by
  induction ts generalizing n sc sl with
  | nil => rfl
  | cons t ts ih =>
    by_cases ht : t.tok.isTrivia = true
    · rw [dropTrivia_cons_trivia ht]
      have : matchCaseLook (t :: ts) n false sc sl = matchCaseLook ts n false sc sl := by
        cases htk : t.tok <;> simp [htk, Tok.isTrivia] at ht <;> simp [matchCaseLook, htk]
      rw [this, ih]
    · have ht' : t.tok.isTrivia = false := by simpa using ht
      rw [dropTrivia_cons_keep ht']
      unfold matchCaseLook
      split <;> simp only [ih]
      all_goals (repeat' split) <;> simp only [ih]

/-- the `type` look-ahead loop skips trivia tokens (repaired code, commit e335017), so filtering
    them first changes nothing -/
theorem typeLoop_filter (ts : List Spanned) (n : Int) :
    typeLoop (dropTrivia ts) n = typeLoop ts n := by
  induction ts generalizing n with
  | nil => rfl
  | cons t ts ih =>
    by_cases ht : t.tok.isTrivia = true
    · rw [dropTrivia_cons_trivia ht]
      have : typeLoop (t :: ts) n = typeLoop ts n := by
        cases htk : t.tok <;> simp [htk, Tok.isTrivia] at ht <;> simp [typeLoop, htk]
      rw [this, ih n]
    · have ht' : t.tok.isTrivia = false := by simpa using ht
      rw [dropTrivia_cons_keep ht']
      unfold typeLoop
      split <;> simp only [ih]

/-- the first token after a soft keyword is not a trivia token -/
def HeadOk : List Spanned → Prop
  | [] => True
  | t :: _ => t.tok.isTrivia = false

theorem matchCaseLook_filter_first (ts : List Spanned) (h : HeadOk ts) :
    matchCaseLook (dropTrivia ts) 0 true false false = matchCaseLook ts 0 true false false := by
  cases ts with
  | nil => rfl
  | cons t ts =>
    have ht : t.tok.isTrivia = false := h
    rw [dropTrivia_cons_keep ht]
    unfold matchCaseLook
    split <;> simp only [matchCaseLook_filter]
    all_goals (repeat' split) <;> simp only [matchCaseLook_filter]

theorem typeLook_filter (ts : List Spanned) (h : HeadOk ts) :
    typeLook (dropTrivia ts) = typeLook ts := by
  cases ts with
  | nil => rfl
  | cons t ts =>
    have ht : t.tok.isTrivia = false := h
    rw [dropTrivia_cons_keep ht]
    simp only [typeLook, typeLoop_filter ts 0]

/-- along the stream, every soft keyword that is examined — `match` / `case` at the start of a logical
    line, `type` at the start of a simple statement — is followed by a non-trivia token -/
def SoftSafe : List Spanned → SoftSt → Prop
  | [], _ => True
  | t :: ts, st =>
    (st.sol = true → (t.tok = .kw .Match ∨ t.tok = .kw .Case) → HeadOk ts) ∧
    (st.sos = true → t.tok = .kw .Type_ → HeadOk ts) ∧
    SoftSafe ts (st.next (softTok st.sol st.sos t ts))

theorem softTok_filter (sol sos : Bool) (t : Spanned) (ts : List Spanned)
    (h : sol = true → (t.tok = .kw .Match ∨ t.tok = .kw .Case) → HeadOk ts)
    (h' : sos = true → t.tok = .kw .Type_ → HeadOk ts) :
    softTok sol sos t (dropTrivia ts) = softTok sol sos t ts := by
  unfold softTok
  split
  · rename_i hk
    by_cases hs : sol = true
    · have := h hs (Or.inl hk)
      simp only [hs, Bool.not_true, Bool.false_eq_true, if_false, matchCaseLook_filter_first ts this]
    · simp [hs]
  · rename_i hk
    by_cases hs : sol = true
    · have := h hs (Or.inr hk)
      simp only [hs, Bool.not_true, Bool.false_eq_true, if_false, matchCaseLook_filter_first ts this]
    · simp [hs]
  · rename_i hk
    by_cases hs : sos = true
    · have := h' hs hk
      simp only [hs, Bool.not_true, Bool.false_eq_true, if_false, typeLook_filter ts this]
    · simp [hs]
  · rfl

theorem softTok_not_trivia (sol sos : Bool) (t : Spanned) (ts : List Spanned) (h : t.tok.isTrivia = false) :
    (softTok sol sos t ts).isTrivia = false := by
  unfold softTok
  split <;> (try (split <;> (try (split <;> simp_all [softToName, Tok.isTrivia])) <;> simp_all [softToName, Tok.isTrivia]))
  exact h

theorem softTok_trivia (sol sos : Bool) (t : Spanned) (ts : List Spanned) (h : t.tok.isTrivia = true) :
    softTok sol sos t ts = t.tok := by
  unfold softTok
  split <;> simp_all [Tok.isTrivia]

/-- a trivia token leaves all three state fields of the transformer unchanged -/
theorem SoftSt.next_trivia (st : SoftSt) (tok : Tok) (h : tok.isTrivia = true) : st.next tok = st := by
  cases tok <;> simp [Tok.isTrivia] at h <;> simp [SoftSt.next, nextSol, nextSos, nextNesting, Tok.isTrivia]

/-- C10: where the soft-keyword pass commutes with the trivia filter -/
theorem softkw_commutes_filter_of_safe (ts : List Spanned) (st : SoftSt) (h : SoftSafe ts st) :
    softKwGo (dropTrivia ts) st = dropTrivia (softKwGo ts st) := by
  induction ts generalizing st with
  | nil => rfl
  | cons t ts ih =>
    obtain ⟨h1, h1', h2⟩ := h
    by_cases ht : t.tok.isTrivia = true
    · have e := softTok_trivia st.sol st.sos t ts ht
      rw [dropTrivia_cons_trivia ht]
      simp only [softKwGo]
      rw [e] at h2 ⊢
      rw [SoftSt.next_trivia st t.tok ht] at h2 ⊢
      rw [dropTrivia_cons_trivia (t := { t with tok := t.tok }) ht]
      exact ih st h2
    · have ht' : t.tok.isTrivia = false := by simpa using ht
      rw [dropTrivia_cons_keep ht']
      simp only [softKwGo]
      rw [softTok_filter st.sol st.sos t ts h1 h1']
      rw [dropTrivia_cons_keep (t := { t with tok := softTok st.sol st.sos t ts }) (softTok_not_trivia st.sol st.sos t ts ht')]
      rw [ih _ h2]


/-- C10, soft keywords: for a text whose full-lexer stream is `SoftSafe`, both configurations hand the
    same tokens (with the same ranges and the same first error) to the parser -/
theorem softkw_commutes_filter (up : UParams) (mode : Mode) (k : Nat) (src : List Nat) (oF : LexOut)
    (hF : lexRaw ⟨true, up⟩ k src = some oF) (hs : SoftSafe oF.toks (SoftSt.init mode)) :
    lex ⟨false, up⟩ mode k src = (lex ⟨true, up⟩ mode k src).map dropOut := by
  unfold lex
  rw [lexRaw_filter, hF]
  simp only [Option.map_some, dropOut, softKw]
  rw [softkw_commutes_filter_of_safe _ _ hs]

/-- `type X[(] # c\n= int)\n` -/
def failSrc : List Nat := [116, 121, 112, 101, 32, 88, 91, 40, 93, 32, 35, 32, 99, 10, 61, 32, 105, 110, 116, 41, 10]

def noUnicode : UParams := ⟨fun _ => false, fun _ => false, fun _ => false⟩

/-- FORMER FINDING, repaired in /repo (commit e335017): before the repair the `type` look-ahead
    stopped at a `Comment` token met at bracket counter 0, so on `failSrc` the default configuration
    kept `type` as the keyword and the `full-lexer` configuration demoted it to a name.  On the
    repaired model both configurations agree on this text (it is not `SoftSafe`-vacuous: the comment
    is met at counter 0 inside the look-ahead). -/
theorem softkw_commutes_filter_failSrc :
    lex ⟨false, noUnicode⟩ .module 0 failSrc = (lex ⟨true, noUnicode⟩ .module 0 failSrc).map dropOut := by
  decide +kernel

example : ((lex ⟨false, noUnicode⟩ .module 0 failSrc).map (fun o => o.toks.head?.map (·.tok))) = some (some (.kw .Type_)) := by
  decide
example : ((lex ⟨true, noUnicode⟩ .module 0 failSrc).map (fun o => o.toks.head?.map (·.tok))) = some (some (.kw .Type_)) := by
  decide

/-- the side condition holds for ordinary streams, e.g. `match x : # c` NEWLINE -/
example : SoftSafe [⟨.kw .Match, 0, 5, 0, 5⟩, ⟨.name [120], 6, 7, 6, 7⟩, ⟨.op .Colon, 7, 8, 7, 8⟩,
    ⟨.comment [35, 32, 99], 9, 12, 9, 12⟩, ⟨.newline, 12, 13, 12, 13⟩] (SoftSt.init .module) := by
  simp [SoftSafe, HeadOk, Tok.isTrivia, SoftSt.init]

/-- … and for a `type` alias behind a one-line compound header: `if x : type X = y # c` NEWLINE (the
    `type` token is examined because `start_of_statement` holds after the `:` outside brackets) -/
example : SoftSafe [⟨.kw .If, 0, 2, 0, 2⟩, ⟨.name [120], 3, 4, 3, 4⟩, ⟨.op .Colon, 4, 5, 4, 5⟩,
    ⟨.kw .Type_, 6, 10, 6, 10⟩, ⟨.name [88], 11, 12, 11, 12⟩, ⟨.op .Equal, 13, 14, 13, 14⟩, ⟨.name [121], 15, 16, 15, 16⟩,
    ⟨.comment [35, 32, 99], 17, 20, 17, 20⟩, ⟨.newline, 20, 21, 20, 21⟩] (SoftSt.init .module) := by
  simp [SoftSafe, HeadOk, Tok.isTrivia, SoftSt.init]

end PV.C10
