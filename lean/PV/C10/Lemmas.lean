import PV.C10.Spec
/-! C10 — helper lemmas. -/
namespace PV.C10
open Spec

theorem radixRun_digits (radix : Nat) (t ds : List Nat) (h : radixRun radix t = (ds, [])) :
    ds = stripUnderscores t ∧ ∀ c ∈ ds, isDigitOf radix c = true := by
  induction t generalizing ds with
  | nil => simp [radixRun] at h; subst h; simp [stripUnderscores]
  | cons c rest ih =>
    unfold radixRun at h
    split at h
    · rename_i hd
      simp only [Prod.mk.injEq] at h
      obtain ⟨h1, h2⟩ := h
      have := ih (radixRun radix rest).1 (by rw [← h2])
      subst h1
      have hc : c ≠ 95 := by
        intro hc; subst hc; simp [isDigitOf, digitVal] at hd
      constructor
      · simpa [stripUnderscores, hc] using this.1
      · intro x hx
        simp at hx
        rcases hx with rfl | hx
        · exact hd
        · exact this.2 x hx
    · split at h
      · rename_i hc
        subst hc
        split at h
        · split at h
          · have := ih ds h
            constructor
            · simpa [stripUnderscores] using this.1
            · exact this.2
          · simp at h
        · simp at h
      · simp at h

theorem foldl_horner (radix : Nat) (ds : List Nat) (acc : Nat) :
    ds.foldl (fun acc c => acc * radix + (digitVal c).getD 0) acc = acc * radix ^ ds.length + positional radix ds := by
  induction ds generalizing acc with
  | nil => simp [positional]
  | cons c cs ih =>
    simp only [List.foldl_cons, ih, positional, List.length_cons, Nat.pow_succ]
    rw [Nat.add_mul, Nat.mul_assoc, Nat.mul_comm radix, Nat.add_assoc]

theorem horner_eq_positional (radix : Nat) (ds : List Nat) : horner radix ds = positional radix ds := by
  simp [horner, foldl_horner]

theorem radixed_spec (B : Backend) (hB : BackendOk B) (radix : Nat) (body : List Nat) (v : Nat)
    (h : (match radixRun radix body with
          | (ds, []) => B.fromStrRadix ds radix
          | _ => none) = some v) :
    v = positional radix (stripUnderscores body) := by
  split at h
  · rename_i ds heq
    obtain ⟨h1, h2⟩ := radixRun_digits radix body ds heq
    by_cases hne : ds = []
    · subst hne; rw [hB.1] at h; cases h
    · rw [hB.2 radix ds hne h2] at h
      cases h; rw [h1]
  · cases h

theorem fromStrRadix_eq (B1 B2 : Backend) (h1 : BackendOk B1) (h2 : BackendOk B2) (radix : Nat)
    (body ds : List Nat) (heq : radixRun radix body = (ds, [])) :
    B1.fromStrRadix ds radix = B2.fromStrRadix ds radix := by
  obtain ⟨_, e2⟩ := radixRun_digits radix body ds heq
  by_cases hne : ds = []
  · subst hne; rw [h1.1, h2.1]
  · rw [h1.2 radix ds hne e2, h2.2 radix ds hne e2]

theorem radixed_eq (B1 B2 : Backend) (h1 : BackendOk B1) (h2 : BackendOk B2) (radix : Nat) (body : List Nat) :
    (match radixRun radix body with
      | (ds, []) => B1.fromStrRadix ds radix
      | _ => none) =
    (match radixRun radix body with
      | (ds, []) => B2.fromStrRadix ds radix
      | _ => none) := by
  split
  · rename_i ds heq
    exact fromStrRadix_eq B1 B2 h1 h2 radix body ds heq
  · rfl

end PV.C10
