/-
  C03 — executable models of the small arithmetic kernels of `parser/src/string.rs`
  (core Lean only).  Characters are scalar values as `Nat`; positions are byte offsets as `Nat`
  (`TextSize` without the 32-bit bound; the bound is discharged separately by `offset_arith`).

  Every Rust operation that can panic is a checked operation here and shows up as the
  `Outcome.panic` value (resp. `none` for `parseOctet`): `u32::from_str_radix(..).unwrap()`,
  `char::from_u32(..).unwrap()`, `p += d << s` under `overflow-checks` (addition overflow and
  shift amount `>= 32`).  The theorems in `PV/C03/Thm.lean` say these values are never produced.
-/
namespace PV.C03

/-- 2^32 -/
def U32 : Nat := 4294967296

inductive Outcome (α : Type) where
  | ok (a : α)
  | err (off : Nat)
  | panic
  deriving Repr, DecidableEq

/-- `char::len_utf8` -/
def csize (c : Nat) : Nat :=
  if c < 0x80 then 1 else if c < 0x800 then 2 else if c < 0x10000 then 3 else 4

/-- byte length of a text -/
def byteLen : List Nat → Nat
  | [] => 0
  | c :: cs => csize c + byteLen cs

/-- `char::from_u32`: `None` for surrogates and values above U+10FFFF -/
def charFromU32 (v : Nat) : Option Nat :=
  if v < 0xD800 ∨ (0xE000 ≤ v ∧ v < 0x110000) then some v else none

/-- a Unicode scalar value -/
def isScalar (c : Nat) : Prop := c < 0xD800 ∨ (0xE000 ≤ c ∧ c < 0x110000)

/-! ### `parse_octet` -/

def isOct (c : Nat) : Bool := decide (48 ≤ c ∧ c ≤ 55)

/-- the digits `parse_octet` collects (`first` plus at most two more octal digits, the loop
    `while octet_content.len() < 3`) and the unconsumed rest -/
def octetDigits (first : Nat) : List Nat → List Nat × List Nat
  | a :: b :: r =>
    if isOct a then (if isOct b then ([first, a, b], r) else ([first, a], b :: r))
    else ([first], a :: b :: r)
  | [a] => if isOct a then ([first, a], []) else ([first], [a])
  | [] => ([first], [])

/-- one step of `u32::from_str_radix(_, 8)`: digit check and checked multiply-add -/
def radix8Step (acc : Option Nat) (d : Nat) : Option Nat :=
  match acc with
  | none => none
  | some v => if isOct d then (if v * 8 + (d - 48) < U32 then some (v * 8 + (d - 48)) else none) else none

/-- `u32::from_str_radix(s, 8)` on a digit string: `None` if empty, on a non-octal digit, on overflow -/
def fromStrRadix8 : List Nat → Option Nat
  | [] => none
  | ds => ds.foldl radix8Step (some 0)

/-- `parse_octet(first)`: `none` models a panic of one of the two `unwrap()`s -/
def parseOctet (first : Nat) (rest : List Nat) : Option (Nat × List Nat) :=
  match fromStrRadix8 (octetDigits first rest).1 with
  | none => none
  | some v =>
    match charFromU32 v with
    | none => none
    | some c => some (c, (octetDigits first rest).2)

/-! ### `parse_unicode_literal(literal_number)` -/

/-- `char::to_digit(16)` -/
def hexDigitVal (c : Nat) : Option Nat :=
  if 48 ≤ c ∧ c ≤ 57 then some (c - 48)
  else if 97 ≤ c ∧ c ≤ 102 then some (c - 87)
  else if 65 ≤ c ∧ c ≤ 70 then some (c - 55)
  else none

/-- The loop `for i in 1..=n { p += d << ((n - i) * 4) }` with `k = n - i + 1` digits still to
    read.  `errOff` is the position captured before the loop (`unicode_error`).  The position is
    threaded because `next_char` advances it.  Returns the accumulated value, the position and
    the unread text. -/
def uniLoop (errOff : Nat) : (k : Nat) → (p pos : Nat) → List Nat → Outcome (Nat × Nat × List Nat)
  | 0, p, pos, cs => .ok (p, pos, cs)
  | _ + 1, _, _, [] => .err errOff
  | k + 1, p, pos, c :: cs =>
    match hexDigitVal c with
    | none => .err errOff
    | some d =>
      if 32 ≤ k * 4 then .panic                              -- shift amount overflow (debug build)
      else if U32 ≤ p + (d * 2 ^ (k * 4)) % U32 then .panic   -- `+=` overflow
      else uniLoop errOff k (p + (d * 2 ^ (k * 4)) % U32) (pos + csize c) cs

/-- the final `match p { 0xD800..=0xDFFF => REPLACEMENT, _ => char::from_u32(p).ok_or(err) }` -/
def uniFinish (errOff p : Nat) : Outcome Nat :=
  if 0xD800 ≤ p ∧ p ≤ 0xDFFF then .ok 0xFFFD
  else match charFromU32 p with
    | some c => .ok c
    | none => .err errOff

/-- `parse_unicode_literal(n)` entered at position `pos` with unread text `cs` -/
def parseUnicodeLiteral (n pos : Nat) (cs : List Nat) : Outcome (Nat × Nat × List Nat) :=
  match uniLoop pos n 0 pos cs with
  | .ok (p, pos', rest) =>
    match uniFinish pos p with
    | .ok c => .ok (c, pos', rest)
    | .err o => .err o
    | .panic => .panic
  | .err o => .err o
  | .panic => .panic

/-! ### `parse_unicode_name` -/

/-- `MAX_UNICODE_NAME` -/
def maxUnicodeName : Nat := 88

/-- the loop collecting the name up to `}`; `none` when the text ends first (then the error is
    reported at the final position) -/
def nameLoop : (pos : Nat) → (acc : List Nat) → List Nat → (List Nat × Nat × List Nat) ⊕ Nat
  | pos, _, [] => .inr pos
  | pos, acc, c :: cs =>
    if c = 125 then .inl (acc.reverse, pos + 1, cs)
    else nameLoop (pos + csize c) (c :: acc) cs

/-- `parse_unicode_name` entered at `pos`; `look` is `unicode_names2::character` -/
def parseUnicodeName (look : List Nat → Option Nat) (pos : Nat) (cs : List Nat) :
    Outcome (Nat × Nat × List Nat) :=
  match cs with
  | [] => .err pos                                  -- StringError at start_pos
  | c :: cs1 =>
    if c ≠ 123 then .err pos                        -- StringError at start_pos (char consumed)
    else
      match nameLoop (pos + 1) [] cs1 with
      | .inr endPos => .err endPos                  -- StringError at get_pos()
      | .inl (name, pos', rest) =>
        if maxUnicodeName < byteLen name then .err pos'          -- UnicodeError at get_pos()
        else match look name with
          | some ch => .ok (ch, pos', rest)
          | none => .err (pos + 1)                  -- UnicodeError at start_pos (after `{`)

/-! ### f-string nesting skeleton

`parse_fstring` / `parse_formatted_value` / `parse_spec` restricted to bodies over the four
symbols `{`, `}`, `:` and a name character `x` (each one byte).  That is the part of the scanner
that recurses.  `fuel` bounds the depth of the call chain (a loop iteration counts as a call);
`Thm.fstring_terminates` says which fuel always suffices.  Every result carries `dmax`, the
largest `nested` argument `parse_fstring` was entered with. -/

inductive Sym where
  | lb | rb | colon | x
  deriving Repr, DecidableEq

inductive FOut where
  /-- success: unread text, position, deepest nesting seen -/
  | ok (rest : List Sym) (pos : Nat) (dmax : Nat)
  | err (off : Nat) (dmax : Nat)
  | oof (dmax : Nat)
  deriving Repr, DecidableEq

/-- deepest `nested` value recorded in a result -/
def FOut.dmax : FOut → Nat
  | .ok _ _ d => d
  | .err _ d => d
  | .oof d => d

/-- `?`-style sequencing: continue with the unread text, position and depth of a success -/
def FOut.andThen (o : FOut) (k : List Sym → Nat → Nat → FOut) : FOut :=
  match o with
  | .ok r p d => k r p d
  | .err off d => .err off d
  | .oof d => .oof d

/-- Is the text between the braces of a replacement field (with all its nested braces balanced)
    accepted by `Expr::parse("(" ++ e ++ ")")`?  Over this alphabet the expressions are names
    `x+`, `{}`, sets `{E}` and dictionaries `{E:E}`. -/
def pExpr : Nat → List Sym → Option (List Sym)
  | 0, _ => none
  | _ + 1, [] => none
  | _ + 1, .x :: r => some (r.dropWhile (· == .x))
  | _ + 1, .lb :: .rb :: r => some r
  | f + 1, .lb :: r =>
    match pExpr f r with
    | some (.rb :: r1) => some r1
    | some (.colon :: r1) =>
      match pExpr f r1 with
      | some (.rb :: r2) => some r2
      | _ => none
    | _ => none
  | _ + 1, _ => none

def validExpr (e : List Sym) : Bool := pExpr (e.length + 1) e == some []

mutual
/-- `parse_fstring(nested)` at `pos` on unread text `s` -/
def fstr : (fuel nested pos dmax : Nat) → List Sym → FOut
  | 0, _, _, dmax, _ => .oof dmax
  | fuel + 1, nested, pos, dmax0, s =>
    let dmax := max dmax0 nested
    if 2 ≤ nested then .err pos dmax                         -- ExpressionNestedTooDeeply
    else fstrLoop fuel nested pos dmax s
/-- the `while let Some(&ch) = self.peek()` loop of `parse_fstring` -/
def fstrLoop : (fuel nested pos dmax : Nat) → List Sym → FOut
  | 0, _, _, dmax, _ => .oof dmax
  | _ + 1, _, pos, dmax, [] => .ok [] pos dmax
  | fuel + 1, nested, pos, dmax, .lb :: s =>
    if nested = 0 then
      match s with
      | .lb :: s1 => fstrLoop fuel nested (pos + 2) dmax s1     -- `{{`
      | [] => .err (pos + 1) dmax                              -- UnclosedLbrace
      | _ =>
        (fval fuel nested (pos + 1) (pos + 1) dmax [] 0 s).andThen fun r p d => fstrLoop fuel nested p d r
    else
      (fval fuel nested (pos + 1) (pos + 1) dmax [] 0 s).andThen fun r p d => fstrLoop fuel nested p d r
  | fuel + 1, nested, pos, dmax, .rb :: s =>
    if 0 < nested then .ok (.rb :: s) pos dmax                 -- break
    else
      match s with
      | .rb :: s1 => fstrLoop fuel nested (pos + 2) dmax s1     -- `}}`
      | _ => .err (pos + 1) dmax                               -- SingleRbrace
  | fuel + 1, nested, pos, dmax, _ :: s => fstrLoop fuel nested (pos + 1) dmax s
/-- the `while let Some(ch) = self.next_char()` loop of `parse_formatted_value`; `loc` is the
    position at entry, `e` the expression text collected so far (reversed), `depth` the size
    of the `delimiters` stack (only `{` can be on it over this alphabet) -/
def fval : (fuel nested loc pos dmax : Nat) → (e : List Sym) → (depth : Nat) → List Sym → FOut
  | 0, _, _, _, dmax, _, _, _ => .oof dmax
  | _ + 1, _, _, pos, dmax, _, _, [] => .err pos dmax            -- UnclosedLbrace
  | fuel + 1, nested, loc, pos, dmax, e, depth, .colon :: s =>
    if depth = 0 then
      (spec fuel nested (pos + 1) dmax s).andThen fun r p d => fval fuel nested loc p d e depth r
    else fval fuel nested loc (pos + 1) dmax (.colon :: e) depth s
  | fuel + 1, nested, loc, pos, dmax, e, depth, .lb :: s =>
    fval fuel nested loc (pos + 1) dmax (.lb :: e) (depth + 1) s
  | fuel + 1, nested, loc, pos, dmax, e, depth, .rb :: s =>
    if 0 < depth then fval fuel nested loc (pos + 1) dmax (.rb :: e) (depth - 1) s
    else if e.isEmpty then .err (pos + 1) dmax                 -- EmptyExpression
    else if validExpr e.reverse then .ok s (pos + 1) dmax
    else .err loc dmax                                         -- InvalidExpression at `location`
  | fuel + 1, nested, loc, pos, dmax, e, depth, .x :: s =>
    fval fuel nested loc (pos + 1) dmax (.x :: e) depth s
/-- the `while let Some(&next) = self.peek()` loop of `parse_spec` -/
def spec : (fuel nested pos dmax : Nat) → List Sym → FOut
  | 0, _, _, dmax, _ => .oof dmax
  | _ + 1, _, pos, dmax, [] => .ok [] pos dmax
  | fuel + 1, nested, pos, dmax, .lb :: s =>
    (fstr fuel (nested + 1) pos dmax (.lb :: s)).andThen fun r p d => spec fuel nested p d r
  | _ + 1, _, pos, dmax, .rb :: s => .ok (.rb :: s) pos dmax     -- break
  | fuel + 1, nested, pos, dmax, _ :: s => spec fuel nested (pos + 1) dmax s
end

/-- fuel that always suffices for a body `s` -/
def fuelFor (s : List Sym) : Nat := 4 * s.length + 4

/-- `StringParser::parse` of an f-string body that starts at byte `pos` -/
def parseFstringBody (pos : Nat) (s : List Sym) : FOut := fstr (fuelFor s) 0 pos 0 s

end PV.C03
