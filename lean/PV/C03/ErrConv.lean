/-
  C03 — executable model of the glue between the LALRPOP driver and the public `ParseError`
  (parser/src/parser.rs):

    * `parse_error_from_lalrpop`  — the conversion of the five `lalrpop_util::ParseError` variants
      (`InvalidToken`, `UnrecognizedEof` with the `expected == ["Indent"]` special case,
      `UnrecognizedToken` with the `expected.len() == 1` rule, `ExtraToken`, `User`) into
      `ParseError { error, offset }`;
    * `not_before`                — the clamp applied by both `parse_starts_at`s;
    * `parse_filtered_tokens`     — where the start marker is placed (the start of the first item of
      the lexer's stream if that item is `Ok`, else `TextSize::default()`);
    * `ParseErrorType::is_indentation_error` (the `Tok::Indent` / `"Indent"` special cases).

  Tokens and lexical error kinds are represented by their Rust variant NAMES (the conversion moves
  them, it does not look inside).  What the LR driver itself can report is not modelled (the LALRPOP
  automaton is outside the model); it is captured as the relation `Reports` below — the locations
  in a `lalrpop_util::ParseError` come from the token stream — which the `errconv` correspondence
  stream evaluates on the real parser's answers for invalid programs.

  Core Lean only.
-/
namespace PV.C03.ErrConv

/-- `lalrpop_util::ParseError<TextSize, Tok, LexicalError>` -/
inductive Lalr where
  | invalidToken (location : Nat)
  | unrecognizedEof (location : Nat) (expected : List String)
  | unrecognizedToken (l : Nat) (tok : String) (r : Nat) (expected : List String)
  | extraToken (l : Nat) (tok : String) (r : Nat)
  | user (kind : String) (location : Nat)
deriving DecidableEq, Repr

/-- `ParseErrorType` -/
inductive PErrType where
  | eof
  | extraToken (tok : String)
  | invalidToken
  | unrecognizedToken (tok : String) (expected : Option String)
  | lexical (kind : String)
deriving DecidableEq, Repr

/-- `ParseError` (`BaseError<ParseErrorType>`) without the source path -/
structure PErr where
  error : PErrType
  offset : Nat
deriving DecidableEq, Repr

/-- `parse_error_from_lalrpop` -/
def fromLalrpop : Lalr → PErr
  | .invalidToken location => ⟨.eof, location⟩
  | .extraToken l tok _ => ⟨.extraToken tok, l⟩
  | .user kind location => ⟨.lexical kind, location⟩
  | .unrecognizedToken l tok _ expected =>
    -- `(expected.len() == 1).then(|| expected[0].clone())`
    ⟨.unrecognizedToken tok (if expected.length = 1 then expected.head? else none), l⟩
  | .unrecognizedEof location expected =>
    if expected = ["Indent"] then ⟨.lexical "IndentationError", location⟩ else ⟨.eof, location⟩

/-- `not_before(err, offset)` -/
def notBefore (e : PErr) (offset : Nat) : PErr :=
  if e.offset < offset then { e with offset := offset } else e

/-- the error `parse_starts_at(source, mode, path, offset)` returns when the LR driver fails with `e` -/
def parseStartsAtErr (offset : Nat) (e : Lalr) : PErr := notBefore (fromLalrpop e) offset

/-- `ParseErrorType::is_indentation_error` -/
def isIndentationError : PErrType → Bool
  | .lexical kind => kind == "IndentationError"
  | .unrecognizedToken tok expected => tok == "Indent" || expected == some "Indent"
  | _ => false

/-- one `Ok` item of the lexer's stream as the LR driver sees it: `(range.start(), tok, range.end())` -/
abbrev Triple := Nat × String × Nat

/-- `marker_start` of `parse_filtered_tokens`: `toks` are the `Ok` items in front of the first `Err`
    (if the first item is an `Err`, or the stream is empty, the peek does not match `Some(Ok(..))`) -/
def markerStart : List Triple → Nat
  | (l, _, _) :: _ => l
  | [] => 0

/-- Where the locations inside a `lalrpop_util::ParseError` come from when the parser runs on the
    stream `marker, toks…, [Err lexErr]`: an unrecognised or extra token is an item of the stream; the
    end-of-input location is the end of the last token read (the last item's end, or the marker's
    empty range when there is no item); a `User` error is the stream's `Err` item or was raised by a grammar action
    (string.rs, function.rs) at a location inside an item's range.  `InvalidToken` is only produced by
    LALRPOP's built-in lexer, which this parser does not use.  (Decidable: the driver evaluates it.) -/
def reports (toks : List Triple) (lexErr : Option (String × Nat)) : Lalr → Bool
  | .invalidToken _ => false
  | .unrecognizedToken l tok r _ => toks.contains (l, tok, r)
  | .extraToken l tok r => toks.contains (l, tok, r)
  | .unrecognizedEof location _ =>
    -- `last_location`: the end of the last item read, the marker's (empty) range when there is none
    location = (match toks.getLast? with
      | some t => t.2.2
      | none => markerStart toks)
  | .user kind location =>
    lexErr = some (kind, location) || toks.any (fun t => t.1 ≤ location && location ≤ t.2.2)

end PV.C03.ErrConv
