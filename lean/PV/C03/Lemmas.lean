import PV.C03.Escapes
/-
  C03 — helper lemmas for the kernels of `parser/src/string.rs` (`PV/C03/Escapes.lean`):
  digit-string evaluation, the accumulator invariant of `parse_unicode_literal`, the name loop of
  `parse_unicode_name`, and the three invariants (depth, positions, fuel) of the f-string scanner,
  each proved for all four mutually recursive functions at once by induction on the fuel.
-/
namespace PV.C03

theorem isOct_iff (c : Nat) : isOct c = true ↔ 48 ≤ c ∧ c ≤ 55 := by simp [isOct]

theorem radix8Step_some (v d : Nat) (hd : isOct d = true) (hv : v < 4096) :
    radix8Step (some v) d = some (v * 8 + (d - 48)) := by
  have := (isOct_iff d).1 hd
  have h : v * 8 + (d - 48) < U32 := by unfold U32; omega
  simp [radix8Step, hd, h]

theorem radix8_three (a b c : Nat) (ha : isOct a = true) (hb : isOct b = true) (hc : isOct c = true) :
    fromStrRadix8 [a, b, c] = some ((a - 48) * 64 + (b - 48) * 8 + (c - 48)) := by
  have := (isOct_iff a).1 ha; have := (isOct_iff b).1 hb
  simp only [fromStrRadix8, List.foldl]
  rw [radix8Step_some 0 a ha (by omega), radix8Step_some _ b hb (by omega), radix8Step_some _ c hc (by omega)]
  congr 1; omega

theorem radix8_two (a b : Nat) (ha : isOct a = true) (hb : isOct b = true) :
    fromStrRadix8 [a, b] = some ((a - 48) * 8 + (b - 48)) := by
  have := (isOct_iff a).1 ha
  simp only [fromStrRadix8, List.foldl]
  rw [radix8Step_some 0 a ha (by omega), radix8Step_some _ b hb (by omega)]
  congr 1; omega

theorem radix8_one (a : Nat) (ha : isOct a = true) :
    fromStrRadix8 [a] = some (a - 48) := by
  simp only [fromStrRadix8, List.foldl]
  rw [radix8Step_some 0 a ha (by omega)]
  congr 1; omega

/-- the digits collected by `parse_octet` and the value they denote -/
theorem octet_digits_value (first : Nat) (rest : List Nat) (h : isOct first = true) :
    ∃ v, fromStrRadix8 (octetDigits first rest).1 = some v ∧ v ≤ 511 := by
  have hf := (isOct_iff first).1 h
  unfold octetDigits
  split
  · rename_i a b r
    by_cases ha : isOct a = true
    · by_cases hb : isOct b = true
      · have := (isOct_iff a).1 ha; have := (isOct_iff b).1 hb
        simp only [ha, hb, if_true]
        exact ⟨_, radix8_three _ _ _ h ha hb, by omega⟩
      · have := (isOct_iff a).1 ha
        simp only [ha, hb, if_true]
        exact ⟨_, radix8_two _ _ h ha, by omega⟩
    · simp only [ha]
      exact ⟨_, radix8_one _ h, by omega⟩
  · rename_i a
    by_cases ha : isOct a = true
    · have := (isOct_iff a).1 ha
      simp only [ha, if_true]
      exact ⟨_, radix8_two _ _ h ha, by omega⟩
    · simp only [ha]
      exact ⟨_, radix8_one _ h, by omega⟩
  · exact ⟨_, radix8_one _ h, by omega⟩

theorem charFromU32_small (v : Nat) (h : v ≤ 511) : charFromU32 v = some v := by
  simp [charFromU32]; omega

theorem hexDigitVal_lt (c d : Nat) (h : hexDigitVal c = some d) : d < 16 := by
  unfold hexDigitVal at h
  split at h
  · cases h; omega
  · split at h
    · cases h; omega
    · split at h
      · cases h; omega
      · cases h

theorem two_pow_mul4 (k : Nat) : 2 ^ (k * 4) = 16 ^ k := by
  rw [Nat.mul_comm, Nat.pow_mul]

theorem pow16_le (n : Nat) (hn : n ≤ 8) : 16 ^ n ≤ U32 := by
  have : 16 ^ n ≤ 16 ^ 8 := Nat.pow_le_pow_right (by omega) hn
  simpa [U32] using this

/-- loop invariant of `parse_unicode_literal`: with `k` digits still to read, `p + 16^k ≤ 16^n` -/
theorem uniLoop_inv (e n : Nat) (hn : n ≤ 8) : ∀ (k p pos : Nat) (cs : List Nat),
    p + 16 ^ k ≤ 16 ^ n →
    uniLoop e k p pos cs ≠ .panic ∧
    ∀ q pos' r, uniLoop e k p pos cs = .ok (q, pos', r) → q < 16 ^ n := by
  intro k
  induction k with
  | zero =>
    intro p pos cs h
    simp only [uniLoop]
    refine ⟨by simp, ?_⟩
    intro q pos' r hq
    cases hq
    simp at h; omega
  | succ k ih =>
    intro p pos cs h
    cases cs with
    | nil => simp [uniLoop]
    | cons c cs =>
      simp only [uniLoop]
      cases hd : hexDigitVal c with
      | none => simp
      | some d =>
        have hdl := hexDigitVal_lt c d hd
        have hB := pow16_le n hn
        have hk : 16 ^ (k + 1) = 16 * 16 ^ k := by rw [Nat.pow_succ]; omega
        have hpos : 0 < 16 ^ k := Nat.pow_pos (by omega)
        rw [hk] at h
        -- k < 8, otherwise 16 * 16^k > 16^8
        have hk8 : k < 8 := by
          apply Nat.lt_of_not_le
          intro hc
          have : 16 ^ 8 ≤ 16 ^ k := Nat.pow_le_pow_right (by omega) hc
          simp [U32] at hB
          omega
        have hmul : d * 16 ^ k < U32 := by
          have : d * 16 ^ k ≤ 15 * 16 ^ k := Nat.mul_le_mul_right _ (by omega)
          omega
        simp only [two_pow_mul4, Nat.mod_eq_of_lt hmul]
        have h1 : ¬ (32 ≤ k * 4) := by omega
        have hle : d * 16 ^ k ≤ 15 * 16 ^ k := Nat.mul_le_mul_right _ (by omega)
        have h2 : ¬ (U32 ≤ p + d * 16 ^ k) := by omega
        simp only [h1, h2, if_false]
        exact ih _ _ _ (by omega)

theorem uniFinish_not_panic (e p : Nat) : uniFinish e p ≠ .panic := by
  unfold uniFinish
  split
  · simp
  · split <;> simp

theorem uniFinish_scalar (e p c : Nat) (h : uniFinish e p = .ok c) : isScalar c := by
  unfold uniFinish at h
  split at h
  · cases h; unfold isScalar; omega
  · split at h
    · rename_i c' hc
      cases h
      unfold charFromU32 at hc
      split at hc
      · cases hc; assumption
      · cases hc
    · cases h

theorem uniLoop_err (e : Nat) : ∀ (k p pos : Nat) (cs : List Nat) (o : Nat),
    uniLoop e k p pos cs = .err o → o = e := by
  intro k
  induction k with
  | zero => intro p pos cs o h; simp [uniLoop] at h
  | succ k ih =>
    intro p pos cs o h
    cases cs with
    | nil => simp [uniLoop] at h; omega
    | cons c cs =>
      simp only [uniLoop] at h
      split at h
      · cases h; rfl
      · split at h
        · cases h
        · split at h
          · cases h
          · exact ih _ _ _ _ h

theorem uniLoop_pos (e : Nat) : ∀ (k p pos : Nat) (cs : List Nat) (q pos' : Nat) (r : List Nat),
    uniLoop e k p pos cs = .ok (q, pos', r) →
    ∃ j, j ≤ cs.length ∧ r = cs.drop j ∧ pos' = pos + byteLen (cs.take j) := by
  intro k
  induction k with
  | zero =>
    intro p pos cs q pos' r h
    simp [uniLoop] at h
    exact ⟨0, by omega, by simp [h.2.2], by simp [byteLen, h.2.1]⟩
  | succ k ih =>
    intro p pos cs q pos' r h
    cases cs with
    | nil => simp [uniLoop] at h
    | cons c cs =>
      simp only [uniLoop] at h
      split at h
      · cases h
      · split at h
        · cases h
        · split at h
          · cases h
          · obtain ⟨j, hj, hr, hp⟩ := ih _ _ _ _ _ _ h
            exact ⟨j + 1, by simp; omega, by simp [hr], by simp [byteLen, hp]; omega⟩

theorem nameLoop_spec : ∀ (cs : List Nat) (pos : Nat) (acc : List Nat),
    (∀ e, nameLoop pos acc cs = .inr e → e = pos + byteLen cs) ∧
    (∀ nm pos' r, nameLoop pos acc cs = .inl (nm, pos', r) →
      ∃ j, j ≤ cs.length ∧ r = cs.drop j ∧ pos' = pos + byteLen (cs.take j)) := by
  intro cs
  induction cs with
  | nil =>
    intro pos acc
    constructor
    · intro e h; simp [nameLoop] at h; simp [byteLen, h]
    · intro nm pos' r h; simp [nameLoop] at h
  | cons c cs ih =>
    intro pos acc
    simp only [nameLoop]
    by_cases hc : c = 125
    · simp only [hc, if_true]
      constructor
      · intro e h; cases h
      · intro nm pos' r h
        cases h
        exact ⟨1, by simp, by simp, by simp [byteLen, csize]⟩
    · simp only [hc, if_false]
      obtain ⟨h1, h2⟩ := ih (pos + csize c) (c :: acc)
      constructor
      · intro e h
        have := h1 e h
        simp [byteLen]; omega
      · intro nm pos' r h
        obtain ⟨j, hj, hr, hp⟩ := h2 nm pos' r h
        exact ⟨j + 1, by simp; omega, by simp [hr], by simp [byteLen, hp]; omega⟩

theorem dmax_andThen (o : FOut) (k : List Sym → Nat → Nat → FOut) (B : Nat)
    (ho : o.dmax ≤ B) (hk : ∀ r p d, d ≤ B → (k r p d).dmax ≤ B) : (o.andThen k).dmax ≤ B := by
  cases o with
  | ok r p d => exact hk r p d ho
  | err off d => exact ho
  | oof d => exact ho

/-- depth invariant of the mutually recursive scanner, by induction on the fuel -/
theorem depth_inv (fuel : Nat) :
    (∀ n pos d s, n ≤ 2 → d ≤ 2 → (fstr fuel n pos d s).dmax ≤ 2) ∧
    (∀ n pos d s, n ≤ 1 → d ≤ 2 → (fstrLoop fuel n pos d s).dmax ≤ 2) ∧
    (∀ n loc pos d e depth s, n ≤ 1 → d ≤ 2 → (fval fuel n loc pos d e depth s).dmax ≤ 2) ∧
    (∀ n pos d s, n ≤ 1 → d ≤ 2 → (spec fuel n pos d s).dmax ≤ 2) := by
  induction fuel with
  | zero =>
    refine ⟨?_, ?_, ?_, ?_⟩ <;> intros <;> simp [fstr, fstrLoop, fval, spec, FOut.dmax] <;> assumption
  | succ fuel ih =>
    obtain ⟨ih1, ih2, ih3, ih4⟩ := ih
    refine ⟨?_, ?_, ?_, ?_⟩
    · intro n pos d s hn hd
      simp only [fstr]
      split
      · simp only [FOut.dmax]; omega
      · exact ih2 _ _ _ _ (by omega) (by omega)
    · intro n pos d s hn hd
      cases s with
      | nil => simpa [fstrLoop, FOut.dmax] using hd
      | cons c s =>
        cases c with
        | lb =>
          rw [fstrLoop.eq_def]; simp only []
          split
          · split
            · exact ih2 _ _ _ _ hn hd
            · simpa [FOut.dmax] using hd
            · exact dmax_andThen _ _ 2 (ih3 _ _ _ _ _ _ _ hn hd) (fun r p d' hd' => ih2 _ _ _ _ hn hd')
          · exact dmax_andThen _ _ 2 (ih3 _ _ _ _ _ _ _ hn hd) (fun r p d' hd' => ih2 _ _ _ _ hn hd')
        | rb =>
          rw [fstrLoop.eq_def]; simp only []
          split
          · simpa [FOut.dmax] using hd
          · split
            · exact ih2 _ _ _ _ hn hd
            · simpa [FOut.dmax] using hd
        | colon => simp only [fstrLoop]; exact ih2 _ _ _ _ hn hd
        | x => simp only [fstrLoop]; exact ih2 _ _ _ _ hn hd
    · intro n loc pos d e depth s hn hd
      cases s with
      | nil => simpa [fval, FOut.dmax] using hd
      | cons c s =>
        cases c with
        | colon =>
          simp only [fval]
          split
          · exact dmax_andThen _ _ 2 (ih4 _ _ _ _ hn hd) (fun r p d' hd' => ih3 _ _ _ _ _ _ _ hn hd')
          · exact ih3 _ _ _ _ _ _ _ hn hd
        | lb => simp only [fval]; exact ih3 _ _ _ _ _ _ _ hn hd
        | rb =>
          simp only [fval]
          split
          · exact ih3 _ _ _ _ _ _ _ hn hd
          · split
            · simpa [FOut.dmax] using hd
            · split <;> simpa [FOut.dmax] using hd
        | x => simp only [fval]; exact ih3 _ _ _ _ _ _ _ hn hd
    · intro n pos d s hn hd
      cases s with
      | nil => simpa [spec, FOut.dmax] using hd
      | cons c s =>
        cases c with
        | lb =>
          simp only [spec]
          exact dmax_andThen _ _ 2 (ih1 _ _ _ _ (by omega) hd) (fun r p d' hd' => ih4 _ _ _ _ hn hd')
        | rb => simpa [spec, FOut.dmax] using hd
        | colon => simp only [spec]; exact ih4 _ _ _ _ hn hd
        | x => simp only [spec]; exact ih4 _ _ _ _ hn hd

/-- position contract of one scanner call entered at `pos` on unread text `s`: a success returns
    a suffix-length-consistent position, an error lies in `[lo, pos + |s|]` -/
def PosOK (lo pos : Nat) (s : List Sym) : FOut → Prop
  | .ok r p _ => r.length ≤ s.length ∧ p + r.length = pos + s.length
  | .err off _ => lo ≤ off ∧ off ≤ pos + s.length
  | .oof _ => True

/-- a successful call that starts at a `{` consumes it -/
def StrictOK (s : List Sym) : FOut → Prop
  | .ok r _ _ => ∀ s', s = .lb :: s' → r.length ≤ s'.length
  | _ => True

theorem posOK_mono {lo lo' pos : Nat} {s : List Sym} {o : FOut} (h : lo ≤ lo') (ho : PosOK lo' pos s o) :
    PosOK lo pos s o := by
  cases o <;> simp_all [PosOK] <;> omega

theorem posOK_andThen {lo lo1 pos pos1 : Nat} {s s1 : List Sym} {o : FOut} {k : List Sym → Nat → Nat → FOut}
    (h1 : PosOK lo1 pos1 s1 o) (hlo : lo ≤ lo1) (hlen : s1.length ≤ s.length)
    (heq : pos1 + s1.length = pos + s.length)
    (hk : ∀ r p d, r.length ≤ s1.length → p + r.length = pos1 + s1.length → PosOK lo p r (k r p d)) :
    PosOK lo pos s (o.andThen k) := by
  cases o with
  | ok r p d =>
    simp only [PosOK] at h1
    have := hk r p d h1.1 h1.2
    simp only [FOut.andThen]
    cases hkk : k r p d <;> simp_all [PosOK] <;> omega
  | err off d => simp_all [PosOK, FOut.andThen]; omega
  | oof d => simp [PosOK, FOut.andThen]

theorem strictOK_andThen {s : List Sym} {s' : List Sym} {o : FOut} {k : List Sym → Nat → Nat → FOut}
    (hs : s = .lb :: s')
    (hk : ∀ r p d, o = .ok r p d → ∀ r' p' d', k r p d = .ok r' p' d' → r'.length ≤ s'.length) :
    StrictOK s (o.andThen k) := by
  cases o with
  | ok r p d =>
    simp only [FOut.andThen]
    cases hkk : k r p d with
    | ok r' p' d' =>
      simp only [StrictOK]
      intro s'' hs''
      rw [hs] at hs''
      cases hs''
      exact hk r p d rfl r' p' d' hkk
    | err => simp [StrictOK]
    | oof => simp [StrictOK]
  | err off d => simp [StrictOK, FOut.andThen]
  | oof d => simp [StrictOK, FOut.andThen]

theorem pos_inv (fuel : Nat) :
    (∀ n pos d s, PosOK pos pos s (fstr fuel n pos d s) ∧ StrictOK s (fstr fuel n pos d s)) ∧
    (∀ n pos d s, PosOK pos pos s (fstrLoop fuel n pos d s) ∧ StrictOK s (fstrLoop fuel n pos d s)) ∧
    (∀ n loc pos d e depth s lo, lo ≤ loc → loc ≤ pos → PosOK lo pos s (fval fuel n loc pos d e depth s)) ∧
    (∀ n pos d s, PosOK pos pos s (spec fuel n pos d s)) := by
  induction fuel with
  | zero =>
    refine ⟨?_, ?_, ?_, ?_⟩ <;> intros <;> simp [fstr, fstrLoop, fval, spec, PosOK, StrictOK]
  | succ fuel ih =>
    obtain ⟨ih1, ih2, ih3, ih4⟩ := ih
    refine ⟨?_, ?_, ?_, ?_⟩
    · intro n pos d s
      simp only [fstr]
      split
      · simp [PosOK, StrictOK]
      · exact ih2 _ _ _ _
    · intro n pos d s
      cases s with
      | nil => simp [fstrLoop, PosOK, StrictOK]
      | cons c s =>
        -- the continuation of a nested call, shared by the two `{` branches
        have hfv : PosOK pos pos (.lb :: s)
              ((fval fuel n (pos + 1) (pos + 1) d [] 0 s).andThen fun r p d => fstrLoop fuel n p d r) ∧
            StrictOK (.lb :: s)
              ((fval fuel n (pos + 1) (pos + 1) d [] 0 s).andThen fun r p d => fstrLoop fuel n p d r) := by
          constructor
          · refine posOK_andThen (ih3 n (pos + 1) (pos + 1) d [] 0 s (pos + 1) (by omega) (by omega))
              (by omega) (by simp) (by simp; omega) ?_
            intro r p d' h1 h2
            exact posOK_mono (by omega) (ih2 n p d' r).1
          · refine strictOK_andThen rfl ?_
            intro r p d' ho r' p' d'' hk
            have h3 := ih3 n (pos + 1) (pos + 1) d [] 0 s (pos + 1) (by omega) (by omega)
            rw [ho] at h3
            have h2 := (ih2 n p d' r).1
            rw [hk] at h2
            simp only [PosOK] at h3 h2
            omega
        cases c with
        | lb =>
          rw [fstrLoop.eq_def]; simp only []
          split
          · split
            next s1 =>
              have h := (ih2 n (pos + 2) d s1).1
              revert h
              cases fstrLoop fuel n (pos + 2) d s1 <;> simp [PosOK, StrictOK] <;> omega
            · simp [PosOK, StrictOK]
            · exact hfv
          · exact hfv
        | rb =>
          rw [fstrLoop.eq_def]; simp only []
          split
          · simp [PosOK, StrictOK]
          · split
            next s1 =>
              have h := (ih2 n (pos + 2) d s1).1
              revert h
              cases fstrLoop fuel n (pos + 2) d s1 <;> simp [PosOK, StrictOK] <;> omega
            · simp [PosOK, StrictOK]
        | colon =>
          simp only [fstrLoop]
          have h := (ih2 n (pos + 1) d s).1
          cases ho : fstrLoop fuel n (pos + 1) d s <;> simp_all [PosOK, StrictOK] <;> omega
        | x =>
          simp only [fstrLoop]
          have h := (ih2 n (pos + 1) d s).1
          cases ho : fstrLoop fuel n (pos + 1) d s <;> simp_all [PosOK, StrictOK] <;> omega
    · intro n loc pos d e depth s lo hlo hloc
      cases s with
      | nil => simp [fval, PosOK]; omega
      | cons c s =>
        have step : ∀ e' depth', PosOK lo pos (c :: s) (fval fuel n loc (pos + 1) d e' depth' s) := by
          intro e' depth'
          have h := ih3 n loc (pos + 1) d e' depth' s lo hlo (by omega)
          cases ho : fval fuel n loc (pos + 1) d e' depth' s <;> simp_all [PosOK] <;> omega
        cases c with
        | colon =>
          simp only [fval]
          split
          · refine posOK_andThen (ih4 n (pos + 1) d s) (by omega) (by simp) (by simp; omega) ?_
            intro r p d' h1 h2
            exact ih3 n loc p d' e depth r lo hlo (by omega)
          · exact step _ _
        | lb => simp only [fval]; exact step _ _
        | rb =>
          simp only [fval]
          split
          · exact step _ _
          · split
            · simp [PosOK]; omega
            · split
              · simp [PosOK]; omega
              · simp [PosOK]; omega
        | x => simp only [fval]; exact step _ _
    · intro n pos d s
      cases s with
      | nil => simp [spec, PosOK]
      | cons c s =>
        have step : PosOK pos pos (c :: s) (spec fuel n (pos + 1) d s) := by
          have h := ih4 n (pos + 1) d s
          cases ho : spec fuel n (pos + 1) d s <;> simp_all [PosOK] <;> omega
        cases c with
        | lb =>
          simp only [spec]
          refine posOK_andThen (ih1 (n + 1) pos d (.lb :: s)).1 (by omega) (by omega) rfl ?_
          intro r p d' h1 h2
          exact posOK_mono (by simp at h1 h2; omega) (ih4 n p d' r)
        | rb => simp [spec, PosOK]
        | colon => simp only [spec]; exact step
        | x => simp only [spec]; exact step

def NotOof : FOut → Prop
  | .oof _ => False
  | _ => True

theorem notOof_andThen {o : FOut} {k : List Sym → Nat → Nat → FOut}
    (h1 : NotOof o) (hk : ∀ r p d, o = .ok r p d → NotOof (k r p d)) : NotOof (o.andThen k) := by
  cases o with
  | ok r p d => exact hk r p d rfl
  | err off d => simp [FOut.andThen, NotOof]
  | oof d => exact h1

/-- fuel accounting: the fuel bounds the depth of the call chain; every call that consumes a
    symbol frees four units, the two calls that do not (`parse_fstring` entering its loop and
    `parse_spec` calling `parse_fstring`) are paid for by the constants -/
theorem fuel_inv (fuel : Nat) :
    (∀ n pos d s, 4 * s.length + 2 ≤ fuel → NotOof (fstr fuel n pos d s)) ∧
    (∀ n pos d s, 4 * s.length + 1 ≤ fuel → NotOof (fstrLoop fuel n pos d s)) ∧
    (∀ n loc pos d e depth s, 4 * s.length + 1 ≤ fuel → NotOof (fval fuel n loc pos d e depth s)) ∧
    (∀ n pos d s, 4 * s.length + 3 ≤ fuel → NotOof (spec fuel n pos d s)) := by
  induction fuel with
  | zero =>
    refine ⟨?_, ?_, ?_, ?_⟩
    · intro n pos d s h; omega
    · intro n pos d s h; omega
    · intro n loc pos d e depth s h; omega
    · intro n pos d s h; omega
  | succ fuel ih =>
    obtain ⟨ih1, ih2, ih3, ih4⟩ := ih
    refine ⟨?_, ?_, ?_, ?_⟩
    · intro n pos d s h
      simp only [fstr]
      split
      · simp [NotOof]
      · exact ih2 _ _ _ _ (by omega)
    · intro n pos d s h
      cases s with
      | nil => simp [fstrLoop, NotOof]
      | cons c s =>
        simp only [List.length_cons] at h
        have hfv : NotOof ((fval fuel n (pos + 1) (pos + 1) d [] 0 s).andThen fun r p d => fstrLoop fuel n p d r) := by
          refine notOof_andThen (ih3 _ _ _ _ _ _ _ (by omega)) ?_
          intro r p d' ho
          have h3 := (pos_inv fuel).2.2.1 n (pos + 1) (pos + 1) d [] 0 s (pos + 1) (by omega) (by omega)
          rw [ho] at h3
          simp only [PosOK] at h3
          exact ih2 _ _ _ _ (by omega)
        cases c with
        | lb =>
          rw [fstrLoop.eq_def]; simp only []
          split
          · split
            next s1 => exact ih2 _ _ _ _ (by simp only [List.length_cons] at h; omega)
            · simp [NotOof]
            · exact hfv
          · exact hfv
        | rb =>
          rw [fstrLoop.eq_def]; simp only []
          split
          · simp [NotOof]
          · split
            next s1 => exact ih2 _ _ _ _ (by simp only [List.length_cons] at h; omega)
            · simp [NotOof]
        | colon => simp only [fstrLoop]; exact ih2 _ _ _ _ (by omega)
        | x => simp only [fstrLoop]; exact ih2 _ _ _ _ (by omega)
    · intro n loc pos d e depth s h
      cases s with
      | nil => simp [fval, NotOof]
      | cons c s =>
        simp only [List.length_cons] at h
        cases c with
        | colon =>
          simp only [fval]
          split
          · refine notOof_andThen (ih4 _ _ _ _ (by omega)) ?_
            intro r p d' ho
            have h4 := (pos_inv fuel).2.2.2 n (pos + 1) d s
            rw [ho] at h4
            simp only [PosOK] at h4
            exact ih3 _ _ _ _ _ _ _ (by omega)
          · exact ih3 _ _ _ _ _ _ _ (by omega)
        | lb => simp only [fval]; exact ih3 _ _ _ _ _ _ _ (by omega)
        | rb =>
          simp only [fval]
          split
          · exact ih3 _ _ _ _ _ _ _ (by omega)
          · split
            · simp [NotOof]
            · split <;> simp [NotOof]
        | x => simp only [fval]; exact ih3 _ _ _ _ _ _ _ (by omega)
    · intro n pos d s h
      cases s with
      | nil => simp [spec, NotOof]
      | cons c s =>
        simp only [List.length_cons] at h
        cases c with
        | lb =>
          simp only [spec]
          refine notOof_andThen (ih1 _ _ _ _ (by simp only [List.length_cons]; omega)) ?_
          intro r p d' ho
          have h1 := ((pos_inv fuel).1 (n + 1) pos d (.lb :: s)).2
          rw [ho] at h1
          simp only [StrictOK] at h1
          have := h1 s rfl
          exact ih4 _ _ _ _ (by omega)
        | rb => simp [spec, NotOof]
        | colon => simp only [spec]; exact ih4 _ _ _ _ (by omega)
        | x => simp only [spec]; exact ih4 _ _ _ _ (by omega)

end PV.C03
