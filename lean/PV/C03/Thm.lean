import PV.C03.Escapes
import PV.C03.Lemmas
import PV.C03.LexGlobal
import PV.Lexer.Lemmas
/-
  C03 — property theorems (string-literal side).  Helper lemmas live in `PV/C03/Lemmas.lean`; the
  models in `PV/C03/Escapes.lean`.  Each theorem says that a checked operation of the model — the
  stand-in for an `unwrap()`, an overflow-checked `+=`/`<<`, a bounded recursion or a reported error
  position of `parser/src/string.rs` — cannot fail / stays in range, for literal bodies of every
  length.

  `parse_octet`            : `octet_no_panic`, `octet_value_le`, `octet_consumes`
  `parse_unicode_literal`  : `unicodeLiteral_no_overflow`, `unicodeLiteral_acc_lt`,
                             `unicodeLiteral_char_valid`, `unicodeLiteral_err_offset`
  `parse_unicode_name`     : `unicodeName_guard`, `unicodeName_err_offset`
  f-string scanner         : `fstring_depth_le_two`, `fstring_terminates`, `fstring_err_offset`

  Lexer side (second half of the file), over the shared model `PV.Lexer` of `parser/src/lexer.rs` +
  `soft_keywords.rs`, for every source text, mode, start offset and every instantiation of the
  Unicode predicates satisfying `UParams.Sane`:
  `lex_terminates`, `lex_no_panic` (+ `lex_none_iff_too_long`), `lex_err_offset`, `offset_arith_u32`.
  They follow from the per-step contract `PV.Lexer.step_ok` / `step_err` (`PV/Lexer/Lemmas.lean`) by
  the fuel induction of `PV/C03/LexGlobal.lean`.
-/
namespace PV.C03

theorem octet_no_panic (first : Nat) (rest : List Nat) (h : isOct first = true) :
    (parseOctet first rest).isSome = true := by
  obtain ⟨v, hv, hle⟩ := octet_digits_value first rest h
  simp [parseOctet, hv, charFromU32_small v hle]

theorem octet_value_le (first : Nat) (rest : List Nat) (c : Nat) (r : List Nat)
    (h : isOct first = true) (hp : parseOctet first rest = some (c, r)) : c ≤ 0o777 := by
  obtain ⟨v, hv, hle⟩ := octet_digits_value first rest h
  simp [parseOctet, hv, charFromU32_small v hle] at hp
  omega

theorem octet_consumes (first : Nat) (rest : List Nat) (c : Nat) (r : List Nat)
    (hp : parseOctet first rest = some (c, r)) : ∃ k, k ≤ 2 ∧ r = rest.drop k := by
  have hr : r = (octetDigits first rest).2 := by
    unfold parseOctet at hp
    split at hp
    · cases hp
    · split at hp
      · cases hp
      · cases hp; rfl
  subst hr
  unfold octetDigits
  split
  · split
    · split
      · exact ⟨2, by omega, by simp⟩
      · exact ⟨1, by omega, by simp⟩
    · exact ⟨0, by omega, by simp⟩
  · split
    · exact ⟨1, by omega, by simp⟩
    · exact ⟨0, by omega, by simp⟩
  · exact ⟨0, by omega, by simp⟩

example : parseOctet 55 [55, 55, 56] = some (511, [56]) := by decide

theorem unicodeLiteral_no_overflow (n pos : Nat) (cs : List Nat) (hn : n ≤ 8) :
    parseUnicodeLiteral n pos cs ≠ .panic := by
  have h := (uniLoop_inv pos n hn n 0 pos cs (by omega)).1
  unfold parseUnicodeLiteral
  split
  · rename_i p pos' rest _
    have := uniFinish_not_panic pos p
    split <;> simp_all
  · simp
  · contradiction

theorem unicodeLiteral_acc_lt (e n pos : Nat) (cs : List Nat) (hn : n ≤ 8) (p pos' : Nat) (r : List Nat)
    (h : uniLoop e n 0 pos cs = .ok (p, pos', r)) : p < 16 ^ n :=
  (uniLoop_inv e n hn n 0 pos cs (by omega)).2 p pos' r h

theorem unicodeLiteral_char_valid (n pos : Nat) (cs : List Nat) (c pos' : Nat) (r : List Nat)
    (h : parseUnicodeLiteral n pos cs = .ok (c, pos', r)) : isScalar c := by
  unfold parseUnicodeLiteral at h
  split at h
  · split at h
    · rename_i hc
      cases h
      exact uniFinish_scalar _ _ _ hc
    · cases h
    · cases h
  · cases h
  · cases h

/-- an error of `parse_unicode_literal` is reported at the position it was entered with; on
    success the new position is the old one plus the bytes of the consumed prefix -/
theorem unicodeLiteral_err_offset (n pos : Nat) (cs : List Nat) :
    (∀ o, parseUnicodeLiteral n pos cs = .err o → o = pos) ∧
    (∀ c pos' r, parseUnicodeLiteral n pos cs = .ok (c, pos', r) →
      ∃ j, j ≤ cs.length ∧ r = cs.drop j ∧ pos' = pos + byteLen (cs.take j)) := by
  constructor
  · intro o h
    unfold parseUnicodeLiteral at h
    split at h
    · split at h
      · cases h
      · rename_i hf
        cases h
        unfold uniFinish at hf
        split at hf
        · cases hf
        · split at hf
          · cases hf
          · cases hf; rfl
      · cases h
    · rename_i hl
      cases h
      exact uniLoop_err _ _ _ _ _ _ hl
    · cases h
  · intro c pos' r h
    unfold parseUnicodeLiteral at h
    split at h
    · rename_i hl
      split at h
      · cases h
        exact uniLoop_pos _ _ _ _ _ _ _ _ hl
      · cases h
      · cases h
    · cases h
    · cases h

example : parseUnicodeLiteral 8 3 [48, 48, 49, 48, 102, 102, 102, 102, 122] = .ok (0x10ffff, 11, [122]) := by decide

example : parseUnicodeLiteral 4 3 [100, 56, 48, 48] = .ok (0xFFFD, 7, []) := by decide

example : parseUnicodeLiteral 8 3 [48, 48, 49, 49, 48, 48, 48, 48] = .err 3 := by decide

/-- `unicode_names2::character` is only ever asked about names of at most 88 bytes: the result
    does not depend on what the lookup would answer for longer names -/
theorem unicodeName_guard (look : List Nat → Option Nat) (pos : Nat) (cs : List Nat) :
    parseUnicodeName look pos cs =
      parseUnicodeName (fun nm => if byteLen nm ≤ maxUnicodeName then look nm else none) pos cs := by
  unfold parseUnicodeName
  split
  · rfl
  · split
    · rfl
    · split
      · rfl
      · split
        · rfl
        · rename_i nm _ _ _ h
          have : byteLen nm ≤ maxUnicodeName := by omega
          simp [this]

/-- every error of `parse_unicode_name` is reported at the entry position plus the byte length of
    a prefix of the unread text: inside the literal and on a character boundary -/
theorem unicodeName_err_offset (look : List Nat → Option Nat) (pos : Nat) (cs : List Nat) (o : Nat)
    (h : parseUnicodeName look pos cs = .err o) :
    ∃ j, j ≤ cs.length ∧ o = pos + byteLen (cs.take j) := by
  unfold parseUnicodeName at h
  split at h
  · cases h; exact ⟨0, by simp, by simp [byteLen]⟩
  · rename_i c cs1
    split at h
    · cases h; exact ⟨0, by simp, by simp [byteLen]⟩
    · rename_i hc
      have hc' : c = 123 := by simpa using hc
      subst hc'
      obtain ⟨h1, h2⟩ := nameLoop_spec cs1 (pos + 1) []
      split at h
      · rename_i e he
        cases h
        have := h1 _ he
        exact ⟨cs1.length + 1, by simp, by simp [byteLen, csize, this]; omega⟩
      · rename_i nm pos' rest hl
        obtain ⟨j, hj, hr, hp⟩ := h2 _ _ _ hl
        split at h
        · cases h
          exact ⟨j + 1, by simp; omega, by simp [byteLen, csize, hp]; omega⟩
        · split at h
          · cases h
          · cases h
            exact ⟨1, by simp, by simp [byteLen, csize]⟩

example : parseUnicodeName (fun _ => some 0x2002) 3 ([123] ++ List.replicate 89 65 ++ [125, 33]) = .err 94 := by decide

example : parseUnicodeName (fun _ => none) 3 [123, 65, 125] = .err 4 := by decide

theorem fstring_depth_le_two (pos : Nat) (s : List Sym) : (parseFstringBody pos s).dmax ≤ 2 :=
  (depth_inv (fuelFor s)).1 0 pos 0 s (by omega) (by omega)

theorem fstring_terminates (pos : Nat) (s : List Sym) (d : Nat) : parseFstringBody pos s ≠ .oof d := by
  have := (fuel_inv (fuelFor s)).1 0 pos 0 s (by unfold fuelFor; omega)
  intro h
  unfold parseFstringBody at h
  rw [h] at this
  exact this

theorem fstring_err_offset (pos : Nat) (s : List Sym) (o d : Nat)
    (h : parseFstringBody pos s = .err o d) : pos ≤ o ∧ o ≤ pos + s.length := by
  have := ((pos_inv (fuelFor s)).1 0 pos 0 s).1
  unfold parseFstringBody at h
  rw [h] at this
  exact this

/-- `f"{x:{x:{x}}}"`: the third level is refused at the `{` that would open it (byte 8), depth 2 -/
example : parseFstringBody 2 [.lb, .x, .colon, .lb, .x, .colon, .lb, .x, .rb, .rb, .rb] = .err 8 2 := by decide +kernel
/-- `f"{x:{x}}"` is accepted with depth 1 -/
example : parseFstringBody 2 [.lb, .x, .colon, .lb, .x, .rb, .rb] = .ok [] 9 1 := by decide +kernel
/-- `f"{x:"` — unclosed field reported at the end of the body -/
example : parseFstringBody 2 [.lb, .x, .colon] = .err 5 0 := by decide +kernel

/-! ## the lexer -/

section Lexer
open PV.Lexer

/-- the per-step contract holds for the lexer model under the sanity hypothesis on the Unicode tables -/
theorem stepContract (cfg : Cfg) (hs : cfg.up.Sane) : StepContract cfg StInv where
  ok := fun _ _ _ hst h => by
    have r := step_ok hs hst h
    exact ⟨r.1, r.2.1, r.2.2.2.1⟩
  err := fun _ _ _ hst h => step_err hs hst h

/-- **The token stream up to and including its first error is finite**: with the explicit fuel
    `src.length + 1` (`lexRaw`) the model never runs out of fuel. -/
theorem lex_terminates (cfg : Cfg) (hs : cfg.up.Sane) (mode : Mode) (start : Nat) (src : List Nat)
    (out : LexOut) (h : lex cfg mode start src = some out) : out.fin ≠ .outOfFuel := by
  rw [(lex_some h).1]
  exact (rawRun_ok (stepContract cfg hs) stInv_init start src).fin_fuel

/-- **The lexer never panics** on a text that fits the 32-bit offset space behind `start`: the model
    returns `some` (no modelled `unwrap` / `expect` / checked subtraction fails and `location` does not
    overflow), and the stream never ends in the pseudo error `panic`. -/
theorem lex_no_panic (cfg : Cfg) (hs : cfg.up.Sane) (mode : Mode) (start : Nat) (src : List Nat)
    (hfit : start + utf8Len src ≤ u32Max) :
    (lex cfg mode start src).isSome = true ∧
    ∀ out, lex cfg mode start src = some out → ∀ co bo, out.fin ≠ .err .panic co bo := by
  refine ⟨lex_isSome_of_fit (stepContract cfg hs) stInv_init mode start src hfit, ?_⟩
  intro out h co bo
  rw [(lex_some h).1]
  exact (rawRun_ok (stepContract cfg hs) stInv_init start src).no_panic co bo

/-- the only way the model answers `none` is a text that does not fit behind `start` -/
theorem lex_none_iff_too_long (cfg : Cfg) (hs : cfg.up.Sane) (mode : Mode) (start : Nat) (src : List Nat)
    (h : lex cfg mode start src = none) : u32Max < start + utf8Len src :=
  lex_none_only_overflow (stepContract cfg hs) stInv_init mode start src h

/-- **A lexical error is not misplaced**: its byte offset is `start` plus the UTF-8 length of a
    prefix of the source — between `start` and the end of the input, on a character boundary. -/
theorem lex_err_offset (cfg : Cfg) (hs : cfg.up.Sane) (mode : Mode) (start : Nat) (src : List Nat)
    (out : LexOut) (h : lex cfg mode start src = some out) (k : ErrKind) (co bo : Nat)
    (he : out.fin = .err k co bo) :
    (∃ j, j ≤ src.length ∧ co = j ∧ bo = start + utf8Len (src.take j)) ∧
    start ≤ bo ∧ bo ≤ start + utf8Len src := by
  rw [(lex_some h).1] at he
  obtain ⟨j, hj, hco, hbo⟩ := (rawRun_ok (stepContract cfg hs) stInv_init start src).err_at k co bo he
  refine ⟨⟨j, hj, by omega, hbo⟩, by omega, ?_⟩
  have := utf8Len_take_le src j
  omega

/-- **Offset arithmetic stays inside `u32`**: the farthest value `location` reaches is at most
    `start + utf8Len src`; hence if that fits `u32` no modelled addition overflows. -/
theorem offset_arith_u32 (cfg : Cfg) (hs : cfg.up.Sane) (mode : Mode) (start : Nat) (src : List Nat)
    (out : LexOut) (h : lex cfg mode start src = some out) :
    out.reachedB ≤ start + utf8Len src ∧ out.reachedB ≤ u32Max := by
  rw [(lex_some h).2]
  refine ⟨(rawRun_ok (stepContract cfg hs) stInv_init start src).reached, ?_⟩
  -- `lexRaw` returned `some`, so the overflow test passed
  have h' := h
  rw [lex_eq_map] at h'
  cases hr : lexRaw cfg start src with
  | none => rw [hr] at h'; cases h'
  | some o =>
    have ho := lexRaw_some_eq hr
    rw [lexRaw_eq] at hr
    split at hr
    · cases hr
    · rename_i hle
      omega

/-- a sane parameter instance (no non-ASCII identifier characters, no emoji names) -/
def upAscii : UParams := ⟨fun _ => false, fun _ => false, fun _ => false⟩
theorem upAscii_sane : upAscii.Sane := ⟨fun c h => by simp [upAscii] at h, rfl, rfl⟩

/-- `x $` lexed at start offset 7: `UnrecognizedToken` after the `$`, character 3, byte 10 -/
example : (lex ⟨false, upAscii⟩ .module 7 [120, 32, 36]).map (·.fin) = some (.err (.unrecognizedToken 36) 3 10) := by
  decide +kernel
/-- a text that ends exactly at `u32::MAX` is lexed without overflow -/
example : (lex ⟨false, upAscii⟩ .module 4294967290 [120, 32, 61, 32, 49]).map (·.reachedB) = some 4294967295 := by
  decide +kernel
/-- one byte more does not fit: the model answers `none` (the Rust `location +=` overflows) -/
example : lex ⟨false, upAscii⟩ .module 4294967290 [120, 32, 61, 32, 49, 50] = none := by
  decide +kernel
end Lexer

end PV.C03
