import PV.C03.Escapes
import PV.C03.Lemmas
import PV.C03.LexGlobal
import PV.C03.FScan
import PV.C03.ErrConv
import PV.C05.Thm
import PV.Lexer.Lemmas
import PV.C09.Pipeline   -- text → answer on the models (lexer model, filter, token conversion, PV.Prog.parseProgram)
import PV.Prog.Thm       -- PV.Prog.parseProgramFuel_mono
/-
  C03 — property theorems (string-literal side).  Helper lemmas live in `PV/C03/Lemmas.lean`; the
  models in `PV/C03/Escapes.lean`.  Each theorem says that a checked operation of the model — the
  stand-in for an `unwrap()`, an overflow-checked `+=`/`<<`, a bounded recursion or a reported error
  position of `parser/src/string.rs` — cannot fail / stays in range, for literal bodies of every
  length.

  `parse_octet`            : `octet_no_panic`, `octet_value_le`, `octet_consumes`
  `parse_unicode_literal`  : `unicodeLiteral_no_overflow`, `unicodeLiteral_acc_lt`,
                             `unicodeLiteral_char_valid`, `unicodeLiteral_err_offset`
  `parse_unicode_name`     : `unicodeName_guard`, `unicodeName_err_offset`
  f-string scanner, skeleton over `{ } : x` with the expression check (`PV.C03.fstr` …):
                             `fskel_depth_le_two`, `fskel_terminates`, `fskel_err_offset`
  f-string scanner, FULL alphabet (C07's model `PV.C07.parseFString`, imported):
                             `fstring_terminates`, `fstring_no_panic`, `fstring_err_offset`,
                             `fstring_field_starts`, `fstring_depth_guard`,
                             `fstring_err_offset_in_source`, `fstring_err_offset_crlf_fails`

  Lexer side (second half of the file), over the shared model `PV.Lexer` of `parser/src/lexer.rs` +
  `soft_keywords.rs`, for every source text, mode, start offset and every instantiation of the
  Unicode predicates satisfying `UParams.Sane`:
  `lex_terminates`, `lex_no_panic` (+ `lex_none_iff_too_long`), `lex_err_offset`, `offset_arith_u32`.
  They follow from the per-step contract `PV.Lexer.step_ok` / `step_err` (`PV/Lexer/Lemmas.lean`) by
  the fuel induction of `PV/C03/LexGlobal.lean`.

  Lexer + parser, end to end on the models (last section): `lex_parse_total_model` — the pipeline lexer model →
  reference parser `PV.Prog.parseProgram` (`PV.Pipeline.parseText`) returns a tree, a rejection or a lexical error with
  its offset inside the input; never a panic, never out of fuel on the lexer side; a tree is stable under more parser fuel.
-/
namespace PV.C03

theorem octet_no_panic (first : Nat) (rest : List Nat) (h : isOct first = true) :
    (parseOctet first rest).isSome = true := by
  obtain ⟨v, hv, hle⟩ := octet_digits_value first rest h
  simp [parseOctet, hv, charFromU32_small v hle]

theorem octet_value_le (first : Nat) (rest : List Nat) (c : Nat) (r : List Nat)
    (h : isOct first = true) (hp : parseOctet first rest = some (c, r)) : c ≤ 0o777 := by
  obtain ⟨v, hv, hle⟩ := octet_digits_value first rest h
  simp [parseOctet, hv, charFromU32_small v hle] at hp
  omega

theorem octet_consumes (first : Nat) (rest : List Nat) (c : Nat) (r : List Nat)
    (hp : parseOctet first rest = some (c, r)) : ∃ k, k ≤ 2 ∧ r = rest.drop k := by
  have hr : r = (octetDigits first rest).2 := by
    unfold parseOctet at hp
    split at hp
    · cases hp
    · split at hp
      · cases hp
      · cases hp; rfl
  subst hr
  unfold octetDigits
  split
  · split
    · split
      · exact ⟨2, by omega, by simp⟩
      · exact ⟨1, by omega, by simp⟩
    · exact ⟨0, by omega, by simp⟩
  · split
    · exact ⟨1, by omega, by simp⟩
    · exact ⟨0, by omega, by simp⟩
  · exact ⟨0, by omega, by simp⟩

example : parseOctet 55 [55, 55, 56] = some (511, [56]) := by decide

theorem unicodeLiteral_no_overflow (n pos : Nat) (cs : List Nat) (hn : n ≤ 8) :
    parseUnicodeLiteral n pos cs ≠ .panic := by
  have h := (uniLoop_inv pos n hn n 0 pos cs (by omega)).1
  unfold parseUnicodeLiteral
  split
  · rename_i p pos' rest _
    have := uniFinish_not_panic pos p
    split <;> simp_all
  · simp
  · contradiction

theorem unicodeLiteral_acc_lt (e n pos : Nat) (cs : List Nat) (hn : n ≤ 8) (p pos' : Nat) (r : List Nat)
    (h : uniLoop e n 0 pos cs = .ok (p, pos', r)) : p < 16 ^ n :=
  (uniLoop_inv e n hn n 0 pos cs (by omega)).2 p pos' r h

theorem unicodeLiteral_char_valid (n pos : Nat) (cs : List Nat) (c pos' : Nat) (r : List Nat)
    (h : parseUnicodeLiteral n pos cs = .ok (c, pos', r)) : isScalar c := by
  unfold parseUnicodeLiteral at h
  split at h
  · split at h
    · rename_i hc
      cases h
      exact uniFinish_scalar _ _ _ hc
    · cases h
    · cases h
  · cases h
  · cases h

/-- an error of `parse_unicode_literal` is reported at the position it was entered with; on
    success the new position is the old one plus the bytes of the consumed prefix -/
theorem unicodeLiteral_err_offset (n pos : Nat) (cs : List Nat) :
    (∀ o, parseUnicodeLiteral n pos cs = .err o → o = pos) ∧
    (∀ c pos' r, parseUnicodeLiteral n pos cs = .ok (c, pos', r) →
      ∃ j, j ≤ cs.length ∧ r = cs.drop j ∧ pos' = pos + byteLen (cs.take j)) := by
  constructor
  · intro o h
    unfold parseUnicodeLiteral at h
    split at h
    · split at h
      · cases h
      · rename_i hf
        cases h
        unfold uniFinish at hf
        split at hf
        · cases hf
        · split at hf
          · cases hf
          · cases hf; rfl
      · cases h
    · rename_i hl
      cases h
      exact uniLoop_err _ _ _ _ _ _ hl
    · cases h
  · intro c pos' r h
    unfold parseUnicodeLiteral at h
    split at h
    · rename_i hl
      split at h
      · cases h
        exact uniLoop_pos _ _ _ _ _ _ _ _ hl
      · cases h
      · cases h
    · cases h
    · cases h

example : parseUnicodeLiteral 8 3 [48, 48, 49, 48, 102, 102, 102, 102, 122] = .ok (0x10ffff, 11, [122]) := by decide

example : parseUnicodeLiteral 4 3 [100, 56, 48, 48] = .ok (0xFFFD, 7, []) := by decide

example : parseUnicodeLiteral 8 3 [48, 48, 49, 49, 48, 48, 48, 48] = .err 3 := by decide

/-- `unicode_names2::character` is only ever asked about names of at most 88 bytes: the result
    does not depend on what the lookup would answer for longer names -/
theorem unicodeName_guard (look : List Nat → Option Nat) (pos : Nat) (cs : List Nat) :
    parseUnicodeName look pos cs =
      parseUnicodeName (fun nm => if byteLen nm ≤ maxUnicodeName then look nm else none) pos cs := by
  unfold parseUnicodeName
  split
  · rfl
  · split
    · rfl
    · split
      · rfl
      · split
        · rfl
        · rename_i nm _ _ _ h
          have : byteLen nm ≤ maxUnicodeName := by omega
          simp [this]

/-- every error of `parse_unicode_name` is reported at the entry position plus the byte length of
    a prefix of the unread text: inside the literal and on a character boundary -/
theorem unicodeName_err_offset (look : List Nat → Option Nat) (pos : Nat) (cs : List Nat) (o : Nat)
    (h : parseUnicodeName look pos cs = .err o) :
    ∃ j, j ≤ cs.length ∧ o = pos + byteLen (cs.take j) := by
  unfold parseUnicodeName at h
  split at h
  · cases h; exact ⟨0, by simp, by simp [byteLen]⟩
  · rename_i c cs1
    split at h
    · cases h; exact ⟨0, by simp, by simp [byteLen]⟩
    · rename_i hc
      have hc' : c = 123 := by simpa using hc
      subst hc'
      obtain ⟨h1, h2⟩ := nameLoop_spec cs1 (pos + 1) []
      split at h
      · rename_i e he
        cases h
        have := h1 _ he
        exact ⟨cs1.length + 1, by simp, by simp [byteLen, csize, this]; omega⟩
      · rename_i nm pos' rest hl
        obtain ⟨j, hj, hr, hp⟩ := h2 _ _ _ hl
        split at h
        · cases h
          exact ⟨j + 1, by simp; omega, by simp [byteLen, csize, hp]; omega⟩
        · split at h
          · cases h
          · cases h
            exact ⟨1, by simp, by simp [byteLen, csize]⟩

example : parseUnicodeName (fun _ => some 0x2002) 3 ([123] ++ List.replicate 89 65 ++ [125, 33]) = .err 94 := by decide

example : parseUnicodeName (fun _ => none) 3 [123, 65, 125] = .err 4 := by decide

theorem fskel_depth_le_two (pos : Nat) (s : List Sym) : (parseFstringBody pos s).dmax ≤ 2 :=
  (depth_inv (fuelFor s)).1 0 pos 0 s (by omega) (by omega)

theorem fskel_terminates (pos : Nat) (s : List Sym) (d : Nat) : parseFstringBody pos s ≠ .oof d := by
  have := (fuel_inv (fuelFor s)).1 0 pos 0 s (by unfold fuelFor; omega)
  intro h
  unfold parseFstringBody at h
  rw [h] at this
  exact this

theorem fskel_err_offset (pos : Nat) (s : List Sym) (o d : Nat)
    (h : parseFstringBody pos s = .err o d) : pos ≤ o ∧ o ≤ pos + s.length := by
  have := ((pos_inv (fuelFor s)).1 0 pos 0 s).1
  unfold parseFstringBody at h
  rw [h] at this
  exact this

/-- `f"{x:{x:{x}}}"`: the third level is refused at the `{` that would open it (byte 8), depth 2 -/
example : parseFstringBody 2 [.lb, .x, .colon, .lb, .x, .colon, .lb, .x, .rb, .rb, .rb] = .err 8 2 := by decide +kernel
/-- `f"{x:{x}}"` is accepted with depth 1 -/
example : parseFstringBody 2 [.lb, .x, .colon, .lb, .x, .rb, .rb] = .ok [] 9 1 := by decide +kernel
/-- `f"{x:"` — unclosed field reported at the end of the body -/
example : parseFstringBody 2 [.lb, .x, .colon] = .err 5 0 := by decide +kernel

/-! ## the f-string scanner over its full alphabet

The model is `PV.C07.parseFString` (`parse_fstring` / `parse_formatted_value` / `parse_spec` with quotes,
`!`, `=`, `(` `[` `{` delimiters, escapes, raw and non-raw kinds; tied to string.rs by C07's streams
and by C03's `fscan` stream).  `lookup` is `unicode_names2::character`, `kind` the `StringKind`, `body`
the token value as scalar values, `loc` the byte offset of its first character
(`start + prefix_len + 1 | 3`).  Nothing is assumed about `lookup`, `kind`, `body` or `loc`.

The model's error kind `.panic` stands for: one of the three loops running out of fuel, `parse_octet`'s
`self.next_char().unwrap()` / `u32::from_str_radix(..).unwrap()` / `char::from_u32(..).unwrap()`, and
`parse_unicode_literal`'s checked `p += d << ((literal_number - i) * 4)`.  The remaining panic sites of
the scanner are arithmetic on `location`: `self.location += c.text_len()` (bounded by
`fstring_err_offset` / `fstring_field_starts`: every position reached is at most `loc + utf8Len body`,
the end of the token minus its closing quotes) and `location - TextSize::from(1)` in
`parse_fstring_expr` (`fstring_field_starts`: `location ≥ loc ≥ 1`). -/

/-- **(i) termination**: the fuel `2·|body| + 1` — every loop iteration consumes a character except
    the call `parse_spec → parse_fstring` on a `{`, which is paid by the `{` — gives an answer that
    is not the out-of-fuel value, and no larger fuel changes it (in particular `fuelFor body`, the
    fuel `parseFString` runs with). -/
theorem fstring_terminates (lookup : List Nat → Option Nat) (kind : PV.C06.Kind) (body : List Nat) (loc : Nat) :
    (∀ e, PV.C07.fstringLoop lookup kind (2 * body.length + 1) 0 [] [] body loc = .error e → e.kind ≠ .panic) ∧
    ∀ fuel, 2 * body.length + 1 ≤ fuel →
      PV.C07.fstringLoop lookup kind fuel 0 [] [] body loc =
        PV.C07.fstringLoop lookup kind (2 * body.length + 1) 0 [] [] body loc := by
  have hg := ((PV.FScan.scan_good lookup kind body loc (2 * body.length + 1)).2.2 0 [] [] body loc (Nat.le_refl _)
    ⟨[], rfl, by simp [PV.C06.utf8Len]⟩ PV.FScan.FOk.nil).good
  have hnp : PV.FScan.NoPanic (PV.C07.fstringLoop lookup kind (2 * body.length + 1) 0 [] [] body loc) := by
    intro e he
    rw [he] at hg
    exact hg.1
  exact ⟨hnp, PV.FScan.fs_mono_le lookup kind _ 0 [] [] body loc hnp⟩

/-- `parseFString` is the loop at the sufficient fuel -/
theorem parseFString_eq (lookup : List Nat → Option Nat) (kind : PV.C06.Kind) (body : List Nat) (loc : Nat) :
    PV.C07.parseFString lookup kind body loc =
      match PV.C07.fstringLoop lookup kind (2 * body.length + 1) 0 [] [] body loc with
      | .error e => .error e
      | .ok (ps, _, _) => .ok ps := by
  unfold PV.C07.parseFString
  rw [(fstring_terminates lookup kind body loc).2 _ (by unfold PV.C07.fuelFor; omega)]
  rfl

/-- **(ii) no panic**: for every body, `StringParser::parse` of an f-string never reaches a failing
    `unwrap` / `char::from_u32(..).unwrap()` / checked `u32` operation of the escape decoder and
    never runs out of fuel: the model never answers `.panic`. -/
theorem fstring_no_panic (lookup : List Nat → Option Nat) (kind : PV.C06.Kind) (body : List Nat) (loc : Nat)
    (e : PV.C06.Err) (h : PV.C07.parseFString lookup kind body loc = .error e) : e.kind ≠ .panic := by
  rw [parseFString_eq] at h
  split at h
  · rename_i e' he
    cases h
    exact (fstring_terminates lookup kind body loc).1 e he
  · cases h

/-- **(iii) error offsets**: an error of the scanner is located at `loc` plus the UTF-8 length of a
    prefix of the token value — between the first character of the body and its end, on a character
    boundary of the VALUE.  (`fstring_err_offset_in_source`: for a literal without CR that is a
    character boundary of the source file inside the token; `fstring_err_offset_crlf_fails`: with a
    CR LF inside the literal it need not be — the listed finding.) -/
theorem fstring_err_offset (lookup : List Nat → Option Nat) (kind : PV.C06.Kind) (body : List Nat) (loc : Nat)
    (e : PV.C06.Err) (h : PV.C07.parseFString lookup kind body loc = .error e) :
    (∃ pre suf, body = pre ++ suf ∧ e.loc = loc + PV.C06.utf8Len pre) ∧
    loc ≤ e.loc ∧ e.loc ≤ loc + PV.C06.utf8Len body := by
  have hg := ((PV.FScan.scan_good lookup kind body loc (2 * body.length + 1)).2.2 0 [] [] body loc (Nat.le_refl _)
    ⟨[], rfl, by simp [PV.C06.utf8Len]⟩ PV.FScan.FOk.nil).good
  rw [parseFString_eq] at h
  split at h
  · rename_i e' he
    cases h
    rw [he] at hg
    obtain ⟨pre, suf, e1, e2⟩ := hg.2
    refine ⟨⟨pre, suf, e1, e2⟩, by omega, ?_⟩
    rw [e2, e1, PV.C07.utf8Len_append]; omega
  · cases h

/-- **field starts**: every `location` the scanner hands to `parse_fstring_expr` in a successful scan
    (nested fields included) is `loc` plus the UTF-8 length of a prefix of the value; so
    `location - 1` cannot underflow when `loc ≥ 1` (it is `start + prefix_len + 1 | 3`), and an
    `InvalidExpression` error — reported at that `location` — lies inside the literal on a character
    boundary of the value. -/
theorem fstring_field_starts (lookup : List Nat → Option Nat) (kind : PV.C06.Kind) (body : List Nat) (loc : Nat)
    (ps : List PV.C07.Piece) (h : PV.C07.parseFString lookup kind body loc = .ok ps) :
    ∀ f ∈ PV.C07.fieldsOf ps, (∃ pre suf, body = pre ++ suf ∧ f.2 = loc + PV.C06.utf8Len pre) ∧
      loc ≤ f.2 ∧ f.2 ≤ loc + PV.C06.utf8Len body := by
  have hg := ((PV.FScan.scan_good lookup kind body loc (2 * body.length + 1)).2.2 0 [] [] body loc (Nat.le_refl _)
    ⟨[], rfl, by simp [PV.C06.utf8Len]⟩ PV.FScan.FOk.nil).good
  rw [parseFString_eq] at h
  split at h
  · cases h
  · rename_i ps' r l he
    cases h
    rw [he] at hg
    intro f hf
    obtain ⟨pre, suf, e1, e2⟩ := hg.2.2 f hf
    refine ⟨⟨pre, suf, e1, e2⟩, by omega, ?_⟩
    rw [e2, e1, PV.C07.utf8Len_append]; omega

/-- **(iv) recursion depth**: `parse_fstring` entered with `nested ≥ 2` returns
    `ExpressionNestedTooDeeply` at once, without reading a character or calling anything.  `nested`
    grows only by the `+ 1` of `parse_spec → parse_fstring`, so the deepest call chain is
    `parse_fstring(0) → parse_formatted_value(0) → parse_spec(0) → parse_fstring(1) →
     parse_formatted_value(1) → parse_spec(1) → parse_fstring(2)`: two levels of nested format
    specs, for every alphabet.  (`fskel_depth_le_two` states the same with an instrumented
    maximum over the skeleton.) -/
theorem fstring_depth_guard (lookup : List Nat → Option Nat) (kind : PV.C06.Kind) (fuel nested : Nat) (hn : 2 ≤ nested)
    (values : List PV.C07.Piece) (content cs : List Nat) (loc : Nat) :
    PV.C07.fstringLoop lookup kind (fuel + 1) nested values content cs loc =
      .error ⟨.fstring .expressionNestedTooDeeply, loc⟩ := by
  rw [PV.C07.fstringLoop.eq_def]
  simp [hn, PV.C07.ferr]

-- non-vacuity: f"{a!x}" → InvalidConversionFlag after the `x` (byte 6); f"{x:{x:{x}}}" → too deep at byte 8;
-- f"{'a" → unterminated string at the end; f"\N{}" (escape error inside the scanner)
example : PV.C07.parseFString (fun _ => none) .fstr [123, 97, 33, 120, 125] 2 = .error ⟨.fstring .invalidConversionFlag, 6⟩ := by
  with_unfolding_all rfl
example : PV.C07.parseFString (fun _ => none) .fstr [123, 120, 58, 123, 120, 58, 123, 120, 125, 125, 125] 2
    = .error ⟨.fstring .expressionNestedTooDeeply, 8⟩ := by with_unfolding_all rfl
example : PV.C07.parseFString (fun _ => none) .fstr [123, 39, 97] 2 = .error ⟨.fstring .unterminatedString, 5⟩ := by
  with_unfolding_all rfl
example : PV.C07.parseFString (fun _ => none) .fstr [92, 78, 123, 125] 2 = .error ⟨.unicodeError, 5⟩ := by
  with_unfolding_all rfl
example : PV.C07.fieldsOf [.field [120] 3 .none (some [.field [119] 6 .none none])] = [([120], 3), ([119], 6)] := by
  simp [PV.C07.fieldsOf, PV.C07.pieceFields]

/-- **(iii) in the source file**: let the file be `before ++ inp` and let the shared lexer model's
    `lex_identifier` return at `inp` a string token `(value, k, triple)` of `n` characters, none of
    them a CR.  Then an error of the f-string scanner on that token is located on a character boundary
    of the FILE, between the token's first byte and the end of its last character. -/
theorem fstring_err_offset_in_source (up : PV.Lexer.UParams) (lookup : List Nat → Option Nat)
    (before inp value : List Nat) (k : PV.Lexer.StringKind) (triple : Bool) (n : Nat)
    (hlex : PV.Lexer.lexIdentifier up inp = .ok (.string value k triple, n))
    (hcr : ∀ x ∈ inp.take n, x ≠ 13) (e : PV.C06.Err)
    (h : PV.C07.parseFString lookup (PV.C07.kindOf k) value
          (PV.C06.utf8Len before + k.prefixLen + (if triple then 3 else 1)) = .error e) :
    (∃ pre suf, before ++ inp = pre ++ suf ∧ e.loc = PV.C06.utf8Len pre) ∧
    PV.C06.utf8Len before ≤ e.loc ∧ e.loc ≤ PV.C06.utf8Len (before ++ inp.take n) := by
  obtain ⟨⟨pre, suf, e1, e2⟩, _, _⟩ := fstring_err_offset lookup _ value _ e h
  obtain ⟨hls, hascii, q, hq1, hq2⟩ := PV.C07.lexIdentifier_string up inp value k triple n hlex
  obtain ⟨_, hlen, q', hq', hn, htake⟩ := PV.C07.lexString_noCR k inp value k triple n hls hcr
  have : q' = q := by rw [hq1] at hq'; cases hq'; rfl
  subst this
  have hsplit : inp = inp.take n ++ inp.drop n := (List.take_append_drop n inp).symm
  have hc : PV.C06.utf8Len (PV.C07.closing q' triple) = if triple then 3 else 1 := by
    have hcs : PV.C06.csize q' = 1 := by rcases hq2 with rfl | rfl <;> rfl
    unfold PV.C07.closing
    cases triple <;> simp [PV.C06.utf8Len, hcs]
  have hloc : e.loc = PV.C06.utf8Len (before ++ inp.take k.prefixLen ++ PV.C07.closing q' triple ++ pre) := by
    rw [e2, PV.C07.utf8Len_append, PV.C07.utf8Len_append, PV.C07.utf8Len_append,
      PV.C07.utf8Len_ascii _ hascii, hc]
    simp; omega
  refine ⟨⟨before ++ inp.take k.prefixLen ++ PV.C07.closing q' triple ++ pre,
    suf ++ PV.C07.closing q' triple ++ inp.drop n, ?_, hloc⟩, ?_, ?_⟩
  · conv => lhs; rw [hsplit, htake, e1]
    simp
  · rw [hloc]; simp only [PV.C07.utf8Len_append]; omega
  · rw [hloc, htake, e1]; simp only [PV.C07.utf8Len_append]; omega

/-- **the CR LF caveat** (listed finding `string-literal-crlf-error-offset-short`):
    `f'''\r\n{a!é}'''` — the lexer folds the CR LF to LF in the token value, the scanner reports
    `InvalidConversionFlag` at `4 + utf8Len "\n{a!é" = 10`, but in the source the `é` occupies bytes
    9..11 (the first 9 characters have 9 bytes, the first 10 have 11): offset 10 is one byte short and
    inside the two-byte character. -/
theorem fstring_err_offset_crlf_fails :
    PV.Lexer.lexIdentifier ⟨fun _ => false, fun _ => false, fun _ => false⟩ [102, 39, 39, 39, 13, 10, 123, 97, 33, 233, 125, 39, 39, 39]
      = .ok (.string [10, 123, 97, 33, 233, 125] .fstring true, 14) ∧
    PV.C07.parseFString (fun _ => none) .fstr [10, 123, 97, 33, 233, 125] 4
      = .error ⟨.fstring .invalidConversionFlag, 10⟩ ∧
    PV.C06.utf8Len (([102, 39, 39, 39, 13, 10, 123, 97, 33, 233, 125, 39, 39, 39] : List Nat).take 9) = 9 ∧
    PV.C06.utf8Len (([102, 39, 39, 39, 13, 10, 123, 97, 33, 233, 125, 39, 39, 39] : List Nat).take 10) = 11 :=
  ⟨by rfl, by with_unfolding_all rfl, by decide, by decide⟩

/-! ## the conversion of LALRPOP's errors (`parse_error_from_lalrpop`, `not_before`, the start marker)

Model: `PV/C03/ErrConv.lean`.  Tie: the `errconv` stream (the driver recomputes the public
`ParseError` of `parse_starts_at` from the reconstructed `lalrpop_util::ParseError` and evaluates
`reports` on the real token stream). -/

section ErrConv
open PV.C03.ErrConv

/-- the clamp makes the lower bound unconditional: whatever the LR driver reports, `parse_starts_at`
    never returns an offset below the start offset -/
theorem errconv_lower_bound (k : Nat) (e : Lalr) : k ≤ (parseStartsAtErr k e).offset := by
  unfold parseStartsAtErr notBefore
  split
  · exact Nat.le_refl _
  · omega

/-- the location the conversion reads out of a variant -/
def lalrLoc : Lalr → Nat
  | .invalidToken location => location
  | .unrecognizedEof location _ => location
  | .unrecognizedToken l _ _ _ => l
  | .extraToken l _ _ => l
  | .user _ location => location

theorem fromLalrpop_offset (e : Lalr) : (fromLalrpop e).offset = lalrLoc e := by
  cases e with
  | unrecognizedEof loc exp => simp only [fromLalrpop, lalrLoc]; split <;> rfl
  | _ => rfl

/-- the offset `parse_starts_at` reports: the variant's location, clamped from below by the start offset -/
theorem errconv_offset_eq (k : Nat) (e : Lalr) : (parseStartsAtErr k e).offset = max (lalrLoc e) k := by
  unfold parseStartsAtErr notBefore
  rw [fromLalrpop_offset]
  split
  · simp only; omega
  · rw [fromLalrpop_offset]; omega

theorem getLast?_mem {α : Type} : ∀ (l : List α) (a : α), l.getLast? = some a → a ∈ l := by
  intro l a h
  exact List.mem_of_getLast? h

/-- **The parser-stage glue does not misplace an error**: if the items of the token stream lie inside
    `[k, k + n]` (`n` = byte length of the source: C05's `tokens_in_bounds` for the lexer model) and
    the stream's `Err` item does too (`lex_err_offset`), then for every variant the LR driver can
    report on that stream (`reports`: unrecognised / extra token of the stream, end of input after
    the last item or right after the start marker, the stream's error or an action's error inside an
    item) the `ParseError` that `parse_starts_at(_, _, _, k)` returns carries an offset in
    `[k, k + n]`.  The start marker sits at the first item's start, or at 0 when there is none
    (`markerStart`): that case — an offset below `k` — is what `not_before` repairs. -/
theorem errconv_offset_in_input (k n : Nat) (toks : List Triple) (lexErr : Option (String × Nat)) (e : Lalr)
    (htoks : ∀ t ∈ toks, k ≤ t.1 ∧ t.1 ≤ t.2.2 ∧ t.2.2 ≤ k + n)
    (hlex : ∀ kd loc, lexErr = some (kd, loc) → k ≤ loc ∧ loc ≤ k + n)
    (hrep : reports toks lexErr e = true) :
    k ≤ (parseStartsAtErr k e).offset ∧ (parseStartsAtErr k e).offset ≤ k + n := by
  refine ⟨errconv_lower_bound k e, ?_⟩
  rw [errconv_offset_eq]
  have hms : markerStart toks ≤ k + n := by
    unfold markerStart
    split
    · rename_i l t r rest
      have := htoks (l, t, r) (by simp)
      simp at this; omega
    · omega
  have hloc : lalrLoc e ≤ k + n := by
    cases e with
    | invalidToken loc => simp [reports] at hrep
    | unrecognizedToken l tok r exp =>
      simp [reports] at hrep
      have := htoks _ hrep
      simp at this; simp [lalrLoc]; omega
    | extraToken l tok r =>
      simp [reports] at hrep
      have := htoks _ hrep
      simp at this; simp [lalrLoc]; omega
    | unrecognizedEof loc exp =>
      simp only [reports, decide_eq_true_eq] at hrep
      simp only [lalrLoc]
      rw [hrep]
      split
      · rename_i t ht
        have := htoks t (getLast?_mem _ _ ht)
        omega
      · exact hms
    | user kind loc =>
      simp only [reports, Bool.or_eq_true, decide_eq_true_eq, List.any_eq_true, Bool.and_eq_true] at hrep
      simp only [lalrLoc]
      rcases hrep with h | ⟨t, ht, h1, h2⟩
      · exact (hlex kind loc h).2
      · have := htoks t ht
        omega
  omega


/-- … and, except for `User` errors (whose location is the lexer's or an action's), the offset is the
    start offset itself or the start / end of an item of the stream — a token boundary, hence a
    character boundary of the source (`PV.C05.tokens_on_boundaries`). -/
theorem errconv_offset_token_boundary (k : Nat) (toks : List Triple) (lexErr : Option (String × Nat)) (e : Lalr)
    (hu : ∀ kind loc, e ≠ .user kind loc) (hrep : reports toks lexErr e = true) :
    (parseStartsAtErr k e).offset = k ∨ ∃ t ∈ toks, (parseStartsAtErr k e).offset = t.1 ∨
      (parseStartsAtErr k e).offset = t.2.2 := by
  rw [errconv_offset_eq]
  by_cases hk : lalrLoc e ≤ k
  · left; omega
  · right
    have hmax : max (lalrLoc e) k = lalrLoc e := by omega
    rw [hmax]
    cases e with
    | invalidToken loc => simp [reports] at hrep
    | unrecognizedToken l tok r exp =>
      simp [reports] at hrep
      exact ⟨_, hrep, Or.inl rfl⟩
    | extraToken l tok r =>
      simp [reports] at hrep
      exact ⟨_, hrep, Or.inl rfl⟩
    | unrecognizedEof loc exp =>
      simp only [reports, decide_eq_true_eq] at hrep
      simp only [lalrLoc] at hk ⊢
      split at hrep
      · rename_i t ht
        exact ⟨t, getLast?_mem _ _ ht, Or.inr hrep⟩
      · rename_i hnone
        have : toks = [] := by simpa using hnone
        subst this
        simp [markerStart] at hrep
        omega
    | user kind loc => exact absurd rfl (hu kind loc)

/-- the conversion itself, variant by variant (what `parse_error_from_lalrpop` builds) -/
theorem errconv_variants :
    (∀ loc, fromLalrpop (.invalidToken loc) = ⟨.eof, loc⟩) ∧
    (∀ loc ex, fromLalrpop (.unrecognizedEof loc ex) =
      if ex = ["Indent"] then ⟨.lexical "IndentationError", loc⟩ else ⟨.eof, loc⟩) ∧
    (∀ l t r x, fromLalrpop (.unrecognizedToken l t r [x]) = ⟨.unrecognizedToken t (some x), l⟩) ∧
    (∀ l t r ex, ex.length ≠ 1 → fromLalrpop (.unrecognizedToken l t r ex) = ⟨.unrecognizedToken t none, l⟩) ∧
    (∀ l t r, fromLalrpop (.extraToken l t r) = ⟨.extraToken t, l⟩) ∧
    (∀ kd loc, fromLalrpop (.user kd loc) = ⟨.lexical kd, loc⟩) := by
  refine ⟨fun _ => rfl, fun _ _ => rfl, fun _ _ _ _ => rfl, ?_, fun _ _ _ => rfl, fun _ _ => rfl⟩
  intro l t r ex h
  simp [fromLalrpop, h]

-- non-vacuity.  Expression mode, source `` at start offset 100: no item, the marker at 0, end of input at 0:
example : reports [] none (.unrecognizedEof 0 ["Name", "Int"]) = true := by decide
example : parseStartsAtErr 100 (.unrecognizedEof 0 ["Name", "Int"]) = ⟨.eof, 100⟩ := by decide
-- `x = $` lexed at 400: items x (400..401), = (402..403), then the lexer's error at 405
example : reports [(400, "Name", 401), (402, "Equal", 403)] (some ("UnrecognizedToken", 405))
    (.user "UnrecognizedToken" 405) = true := by decide
example : parseStartsAtErr 400 (.user "UnrecognizedToken" 405) = ⟨.lexical "UnrecognizedToken", 405⟩ := by decide
-- `def f():` + NEWLINE, then end of input where an indented block must follow
example : parseStartsAtErr 0 (.unrecognizedEof 9 ["Indent"]) = ⟨.lexical "IndentationError", 9⟩ := by decide
example : isIndentationError (parseStartsAtErr 0 (.unrecognizedToken 9 "Name" 10 ["Indent"])).error = true := by decide
example : isIndentationError (parseStartsAtErr 0 (.unrecognizedToken 4 "Indent" 8 ["Name", "Int"])).error = true := by decide

end ErrConv

/-! ## the lexer -/

section Lexer
open PV.Lexer

/-- the per-step contract holds for the lexer model under the sanity hypothesis on the Unicode tables -/
theorem stepContract (cfg : Cfg) (hs : cfg.up.Sane) : StepContract cfg StInv where
  ok := fun _ _ _ hst h => by
    have r := step_ok hs hst h
    exact ⟨r.1, r.2.1, r.2.2.2.1⟩
  err := fun _ _ _ hst h => step_err hs hst h

/-- **The token stream up to and including its first error is finite**: with the explicit fuel
    `src.length + 1` (`lexRaw`) the model never runs out of fuel. -/
theorem lex_terminates (cfg : Cfg) (hs : cfg.up.Sane) (mode : Mode) (start : Nat) (src : List Nat)
    (out : LexOut) (h : lex cfg mode start src = some out) : out.fin ≠ .outOfFuel := by
  rw [(lex_some h).1]
  exact (rawRun_ok (stepContract cfg hs) stInv_init start src).fin_fuel

/-- **The lexer never panics** on a text that fits the 32-bit offset space behind `start`: the model
    returns `some` (no modelled `unwrap` / `expect` / checked subtraction fails and `location` does not
    overflow), and the stream never ends in the pseudo error `panic`. -/
theorem lex_no_panic (cfg : Cfg) (hs : cfg.up.Sane) (mode : Mode) (start : Nat) (src : List Nat)
    (hfit : start + utf8Len src ≤ u32Max) :
    (lex cfg mode start src).isSome = true ∧
    ∀ out, lex cfg mode start src = some out → ∀ co bo, out.fin ≠ .err .panic co bo := by
  refine ⟨lex_isSome_of_fit (stepContract cfg hs) stInv_init mode start src hfit, ?_⟩
  intro out h co bo
  rw [(lex_some h).1]
  exact (rawRun_ok (stepContract cfg hs) stInv_init start src).no_panic co bo

/-- the only way the model answers `none` is a text that does not fit behind `start` -/
theorem lex_none_iff_too_long (cfg : Cfg) (hs : cfg.up.Sane) (mode : Mode) (start : Nat) (src : List Nat)
    (h : lex cfg mode start src = none) : u32Max < start + utf8Len src :=
  lex_none_only_overflow (stepContract cfg hs) stInv_init mode start src h

/-- **A lexical error is not misplaced**: its byte offset is `start` plus the UTF-8 length of a
    prefix of the source — between `start` and the end of the input, on a character boundary. -/
theorem lex_err_offset (cfg : Cfg) (hs : cfg.up.Sane) (mode : Mode) (start : Nat) (src : List Nat)
    (out : LexOut) (h : lex cfg mode start src = some out) (k : ErrKind) (co bo : Nat)
    (he : out.fin = .err k co bo) :
    (∃ j, j ≤ src.length ∧ co = j ∧ bo = start + utf8Len (src.take j)) ∧
    start ≤ bo ∧ bo ≤ start + utf8Len src := by
  rw [(lex_some h).1] at he
  obtain ⟨j, hj, hco, hbo⟩ := (rawRun_ok (stepContract cfg hs) stInv_init start src).err_at k co bo he
  refine ⟨⟨j, hj, by omega, hbo⟩, by omega, ?_⟩
  have := utf8Len_take_le src j
  omega

/-- **Offset arithmetic stays inside `u32`**: the farthest value `location` reaches is at most
    `start + utf8Len src`; hence if that fits `u32` no modelled addition overflows. -/
theorem offset_arith_u32 (cfg : Cfg) (hs : cfg.up.Sane) (mode : Mode) (start : Nat) (src : List Nat)
    (out : LexOut) (h : lex cfg mode start src = some out) :
    out.reachedB ≤ start + utf8Len src ∧ out.reachedB ≤ u32Max := by
  rw [(lex_some h).2]
  refine ⟨(rawRun_ok (stepContract cfg hs) stInv_init start src).reached, ?_⟩
  -- `lexRaw` returned `some`, so the overflow test passed
  have h' := h
  rw [lex_eq_map] at h'
  cases hr : lexRaw cfg start src with
  | none => rw [hr] at h'; cases h'
  | some o =>
    have ho := lexRaw_some_eq hr
    rw [lexRaw_eq] at hr
    split at hr
    · cases hr
    · rename_i hle
      omega

/-- a sane parameter instance (no non-ASCII identifier characters, no emoji names) -/
def upAscii : UParams := ⟨fun _ => false, fun _ => false, fun _ => false⟩
theorem upAscii_sane : upAscii.Sane := ⟨fun c h => by simp [upAscii] at h, rfl, rfl⟩

/-- `x $` lexed at start offset 7: `UnrecognizedToken` after the `$`, character 3, byte 10 -/
example : (lex ⟨false, upAscii⟩ .module 7 [120, 32, 36]).map (·.fin) = some (.err (.unrecognizedToken 36) 3 10) := by
  decide +kernel
/-- a text that ends exactly at `u32::MAX` is lexed without overflow -/
example : (lex ⟨false, upAscii⟩ .module 4294967290 [120, 32, 61, 32, 49]).map (·.reachedB) = some 4294967295 := by
  decide +kernel
/-- one byte more does not fit: the model answers `none` (the Rust `location +=` overflows) -/
example : lex ⟨false, upAscii⟩ .module 4294967290 [120, 32, 61, 32, 49, 50] = none := by
  decide +kernel
/-! ### lexer model + conversion glue -/

section
open PV.C03.ErrConv

/-- the items the parser is fed, as `(range.start(), variant name, range.end())` -/
def triplesOf (out : LexOut) : List Triple := out.toks.map (fun t => (t.bs, t.tok.rustName, t.be))

/-- the stream's `Err` item -/
def lexErrOf (out : LexOut) : Option (String × Nat) :=
  match out.fin with
  | .err kind _ bo => some (kind.rustName, bo)
  | _ => none

/-- **`errconv_offset_in_input` for the lexer model's stream** (`PV.C05.tokens_in_bounds` +
    `lex_err_offset` discharge its hypotheses): whatever the LR driver reports on the token stream of
    `src` lexed at start offset `k` — the whole stream, or the stream without comment /
    non-logical-newline items as `parse_filtered_tokens` filters it —, the error that
    `parse_starts_at` returns carries an offset in `[k, k + utf8Len src]`. -/
theorem parse_err_offset_in_input (cfg : Cfg) (hs : cfg.up.Sane) (mode : Mode) (k : Nat) (src : List Nat)
    (out : LexOut) (h : lex cfg mode k src = some out) (toks : List Triple)
    (hsub : ∀ t ∈ toks, t ∈ triplesOf out) (e : Lalr) (hrep : reports toks (lexErrOf out) e = true) :
    k ≤ (parseStartsAtErr k e).offset ∧ (parseStartsAtErr k e).offset ≤ k + utf8Len src := by
  apply errconv_offset_in_input k (utf8Len src) toks (lexErrOf out) e ?_ ?_ hrep
  · intro t ht
    have := hsub t ht
    unfold triplesOf at this
    obtain ⟨s, hs1, rfl⟩ := List.mem_map.mp this
    have hb := PV.C05.tokens_in_bounds hs h s hs1
    exact ⟨hb.2.2.1, hb.2.2.2.1, hb.2.2.2.2⟩
  · intro kd loc hl
    unfold lexErrOf at hl
    split at hl
    · rename_i kind co bo hfin
      simp only [Option.some.injEq, Prod.mk.injEq] at hl
      obtain ⟨_, rfl⟩ := hl
      exact (lex_err_offset cfg hs mode k src out h kind co _ hfin).2
    · cases hl

-- `x =` in module mode at offset 7: the LR driver reports end of input after the last item (NEWLINE at 10..10)
example : (lex ⟨false, upAscii⟩ .module 7 [120, 32, 61]).map triplesOf
    = some [(7, "Name", 8), (9, "Equal", 10), (10, "Newline", 10)] := by decide +kernel
example : reports [(7, "Name", 8), (9, "Equal", 10), (10, "Newline", 10)] none (.unrecognizedToken 10 "Newline" 10 []) = true := by
  decide
end
end Lexer

/-! ## lexing and parsing are total: the pipeline of the models

  `PV.Pipeline.parseText conv cfg mode start src` (lean/PV/C09/Pipeline.lean) = lexer model from start offset `start`,
  the trivia filter, the token conversion `conv` (a parameter that cannot see positions, as in
  `PV.C08.layout_tree_invariant`), the reference parser for whole programs `PV.Prog.parseProgram` with the driver's fuel
  `fuelFor`; `parseTextFuel extra` gives the parser `extra` more fuel. -/

section Total
open PV.Lexer PV.Pipeline

/-- **Lexing and parsing are total** (model level): for every token conversion, lexer configuration with sane Unicode
    tables, mode, start offset and source text that fits the 32-bit offset space behind the start offset, the pipeline
    answers with
    * a tree — and then every larger parser fuel gives the same tree (`PV.Prog.parseProgramFuel_mono`), or
    * a rejection (the text lexes, the reference parser rejects the token stream), or
    * the first lexical error, which is not the pseudo error `panic` and whose offset lies between the start offset and
      the end of the input (`lex_err_offset`);
    never `panic` (`lex_no_panic`) and never `lexOutOfFuel` (`lex_terminates`).
    What is NOT claimed: that a rejection is never an out-of-fuel artefact of the reference parser
    (`PV.Prog.parseProgram_fuel_adequate_full`, stated there, exercised by every PROG request). -/
theorem lex_parse_total_model (conv : Conv) (cfg : Cfg) (hs : cfg.up.Sane) (mode : PV.Lexer.Mode) (start : Nat)
    (src : List Nat) (hfit : start + utf8Len src ≤ u32Max) :
    (∃ m, parseText conv cfg mode start src = .tree m ∧
        ∀ extra, parseTextFuel extra conv cfg mode start src = .tree m) ∨
    parseText conv cfg mode start src = .rejected ∨
    (∃ kind off, parseText conv cfg mode start src = .lexError kind off ∧ kind ≠ .panic ∧
        start ≤ off ∧ off ≤ start + utf8Len src) := by
  obtain ⟨hsome, hnp⟩ := lex_no_panic cfg hs mode start src hfit
  cases hl : lex cfg mode start src with
  | none => simp [hl] at hsome
  | some out =>
    have hfuel := lex_terminates cfg hs mode start src out hl
    unfold parseText parseTextFuel answerOf
    rw [hl]
    cases hf : out.fin with
    | outOfFuel => exact absurd hf hfuel
    | err kind c b =>
      right; right
      refine ⟨kind, b, by simp [answerOfFuel, hf], ?_, (lex_err_offset cfg hs mode start src out hl kind c b hf).2⟩
      intro hk; subst hk; exact hnp out hl c b hf
    | eof =>
      simp only [answerOfFuel, hf]
      cases hp : parserInput conv out.toks with
      | none => right; left; rfl
      | some ts =>
        simp only []
        cases hm : PV.Prog.parseProgramFuel
            (PV.Prog.fuelFor ((PV.Prog.eraseSpans ts).map PV.Prog.PTok.toTok) + 0) (progMode mode)
            (PV.Prog.eraseSpans ts) with
        | none => right; left; rfl
        | some m =>
          left
          refine ⟨m, rfl, fun extra => ?_⟩
          rw [PV.Prog.parseProgramFuel_mono (progMode mode) (PV.Prog.eraseSpans ts) m (by omega) hm]

/-- in particular the answer is never a panic and never "lexer out of fuel" -/
theorem lex_parse_never_panics (conv : Conv) (cfg : Cfg) (hs : cfg.up.Sane) (mode : PV.Lexer.Mode) (start : Nat)
    (src : List Nat) (hfit : start + utf8Len src ≤ u32Max) :
    parseText conv cfg mode start src ≠ .panic ∧ parseText conv cfg mode start src ≠ .lexOutOfFuel := by
  rcases lex_parse_total_model conv cfg hs mode start src hfit with ⟨m, h, _⟩ | h | ⟨kd, off, h, _⟩ <;>
    rw [h] <;> exact ⟨fun hh => Answer.noConfusion hh, fun hh => Answer.noConfusion hh⟩

/-- the three kinds of answer occur (the hypotheses hold for `upAscii`, offset 7): `x = 1⏎` — a tree; `x =⏎` — rejected;
    `x $` — a lexical error at byte 10 -/
example : parseText sampleConv ⟨false, upAscii⟩ .module 7 [120, 32, 61, 32, 49, 10] =
      .tree (.module [.assign [.name [120]] (.const (.int 1))]) ∧
    parseText sampleConv ⟨false, upAscii⟩ .module 7 [120, 32, 61, 10] = .rejected ∧
    parseText sampleConv ⟨false, upAscii⟩ .module 7 [120, 32, 36] = .lexError (.unrecognizedToken 36) 10 := by
  have h1 : lex ⟨false, upAscii⟩ .module 7 [120, 32, 61, 32, 49, 10] = some
      ⟨[⟨.name [120], 0, 1, 7, 8⟩, ⟨.op .Equal, 2, 3, 9, 10⟩, ⟨.int 1, 4, 5, 11, 12⟩, ⟨.newline, 5, 6, 12, 13⟩],
       .eof, 13⟩ := by decide +kernel
  have h2 : lex ⟨false, upAscii⟩ .module 7 [120, 32, 61, 10] = some
      ⟨[⟨.name [120], 0, 1, 7, 8⟩, ⟨.op .Equal, 2, 3, 9, 10⟩, ⟨.newline, 3, 4, 10, 11⟩], .eof, 11⟩ := by
    decide +kernel
  have h3 : lex ⟨false, upAscii⟩ .module 7 [120, 32, 36] = some
      ⟨[⟨.name [120], 0, 1, 7, 8⟩], .err (.unrecognizedToken 36) 3 10, 10⟩ := by decide +kernel
  refine ⟨?_, ?_, ?_⟩ <;> unfold parseText
  · rw [h1]; rfl
  · rw [h2]; rfl
  · rw [h3]; rfl

end Total

end PV.C03
