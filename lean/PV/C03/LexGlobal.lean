import PV.Lexer.SoftKw
/-
  C03 — global theorems about the shared lexer model (`PV/Lexer/Model.lean`): from a per-step
  contract (`StepContract`: a step consumes at least one character unless it emits `EndOfFile`,
  never reports the pseudo error `panic`, and reports errors inside its input) to the statements
  about whole runs of `lexAll` / `lexRaw` / `lex`: the fuel `length + 1` suffices, the run never
  panics, the first error lies at `start + utf8Len (src.take j)` (inside the input, on a character
  boundary), and `location` never exceeds `start + utf8Len src`.
  The contract itself is proved for the model in `PV/Lexer/Lemmas.lean` (`step_ok`, `step_err`).
-/
namespace PV.C03
open PV.Lexer

/-- what the global theorems need from one lexer step (proved for the model in
    `PV/Lexer/Lemmas.lean`: `step_ok`, `step_err`) -/
structure StepContract (cfg : Cfg) (StInv : LexState → Prop) : Prop where
  ok : ∀ st inp o, StInv st → step cfg st inp = .ok o →
    o.consumed ≤ inp.length ∧ (o.done = false → 0 < o.consumed) ∧ StInv o.st
  err : ∀ st inp e, StInv st → step cfg st inp = .error e →
    e.kind ≠ .panic ∧ e.off ≤ e.reached ∧ e.reached ≤ inp.length

theorem utf8Len_append (a b : List Nat) : utf8Len (a ++ b) = utf8Len a + utf8Len b := by
  induction a with
  | nil => simp [utf8Len]
  | cons c a ih => simp [utf8Len, ih]; omega

theorem utf8Len_take_drop (l : List Nat) (n : Nat) : utf8Len (l.take n) + utf8Len (l.drop n) = utf8Len l := by
  rw [← utf8Len_append, List.take_append_drop]

theorem utf8Len_take_le (l : List Nat) (n : Nat) : utf8Len (l.take n) ≤ utf8Len l := by
  have := utf8Len_take_drop l n; omega

theorem utf8Len_take_add (l : List Nat) (m n : Nat) :
    utf8Len (l.take (m + n)) = utf8Len (l.take m) + utf8Len ((l.drop m).take n) := by
  rw [List.take_add, utf8Len_append]

/-- what holds of every run of `lexAll` from a state satisfying the invariant -/
structure RunOk (inp : List Nat) (cb bb : Nat) (out : LexOut) : Prop where
  fin_fuel : out.fin ≠ .outOfFuel
  no_panic : ∀ co bo, out.fin ≠ .err .panic co bo
  err_at : ∀ k co bo, out.fin = .err k co bo → ∃ j, j ≤ inp.length ∧ co = cb + j ∧ bo = bb + utf8Len (inp.take j)
  reached : out.reachedB ≤ bb + utf8Len inp

theorem lexAll_ok {cfg : Cfg} {StInv : LexState → Prop} (hc : StepContract cfg StInv) :
    ∀ (fuel : Nat) (st : LexState) (inp : List Nat) (cb bb : Nat),
      StInv st → inp.length + 1 ≤ fuel → RunOk inp cb bb (lexAll cfg fuel st inp cb bb) := by
  intro fuel
  induction fuel with
  | zero => intro st inp cb bb _ h; omega
  | succ fuel ih =>
    intro st inp cb bb hst hf
    simp only [lexAll]
    cases hs : step cfg st inp with
    | error e =>
      obtain ⟨hk, ho, hr⟩ := hc.err st inp e hst hs
      simp only []
      refine ⟨by simp, ?_, ?_, ?_⟩
      · intro co bo h; simp at h; exact hk h.1
      · intro k co bo h
        simp at h
        exact ⟨e.off, by omega, h.2.1.symm, h.2.2.symm⟩
      · have := utf8Len_take_le inp e.reached
        simp only []; omega
    | ok o =>
      obtain ⟨hcons, hpos, hinv⟩ := hc.ok st inp o hst hs
      simp only []
      cases hd : o.done with
      | true =>
        simp only [if_true]
        refine ⟨by simp, by simp, by simp, ?_⟩
        have := utf8Len_take_le inp o.consumed
        simp only []; omega
      | false =>
        simp only [Bool.false_eq_true, if_false]
        have hp := hpos hd
        have hlen : (inp.drop o.consumed).length + 1 ≤ fuel := by simp; omega
        have r := ih o.st (inp.drop o.consumed) (cb + o.consumed) (bb + utf8Len (inp.take o.consumed)) hinv hlen
        refine ⟨r.fin_fuel, r.no_panic, ?_, ?_⟩
        · intro k co bo h
          obtain ⟨j, hj, hco, hbo⟩ := r.err_at k co bo h
          refine ⟨o.consumed + j, by simp at hj; omega, by omega, ?_⟩
          rw [utf8Len_take_add]; omega
        · have := r.reached
          have := utf8Len_take_drop inp o.consumed
          simp only [] at *; omega

/-- the run inside `lexRawFuel`, before the overflow / panic test -/
def rawRun (cfg : Cfg) (start : Nat) (src : List Nat) : LexOut :=
  match src with
  | 0xFEFF :: rest => lexAll cfg (src.length + 1) .init rest 1 (start + 3)
  | _ => lexAll cfg (src.length + 1) .init src 0 start

theorem lexRaw_eq (cfg : Cfg) (start : Nat) (src : List Nat) :
    lexRaw cfg start src =
      if (rawRun cfg start src).reachedB > u32Max then none
      else match (rawRun cfg start src).fin with
        | .err .panic _ _ => none
        | _ => some (rawRun cfg start src) := by
  rfl

theorem rawRun_ok {cfg : Cfg} {StInv : LexState → Prop} (hc : StepContract cfg StInv)
    (hi : StInv .init) (start : Nat) (src : List Nat) : RunOk src 0 start (rawRun cfg start src) := by
  unfold rawRun
  split
  · rename_i rest
    have r := lexAll_ok hc ((0xFEFF :: rest).length + 1) .init rest 1 (start + 3) hi (by simp)
    have h3 : csize 0xFEFF = 3 := by decide
    refine ⟨r.fin_fuel, r.no_panic, ?_, ?_⟩
    · intro k co bo h
      obtain ⟨j, hj, hco, hbo⟩ := r.err_at k co bo h
      refine ⟨j + 1, by simp; omega, by omega, ?_⟩
      simp [utf8Len, h3, hbo]; omega
    · have := r.reached
      simp [utf8Len, h3] at *; omega
  · exact lexAll_ok hc (src.length + 1) .init src 0 start hi (by omega)

/-- everything C03 says about the lexer, for a configuration whose steps meet the contract -/
theorem lexRaw_total {cfg : Cfg} {StInv : LexState → Prop} (hc : StepContract cfg StInv)
    (hi : StInv .init) (start : Nat) (src : List Nat) (hfit : start + utf8Len src ≤ u32Max) :
    ∃ out, lexRaw cfg start src = some out ∧ out.fin ≠ .outOfFuel ∧ out.reachedB ≤ start + utf8Len src ∧
      ∀ k co bo, out.fin = .err k co bo →
        k ≠ .panic ∧ ∃ j, j ≤ src.length ∧ co = j ∧ bo = start + utf8Len (src.take j) := by
  have r := rawRun_ok hc hi start src
  refine ⟨rawRun cfg start src, ?_, r.fin_fuel, r.reached, ?_⟩
  · rw [lexRaw_eq]
    have := r.reached
    rw [if_neg (by omega)]
    split
    · rename_i co bo h
      exact absurd h (r.no_panic co bo)
    · rfl
  · intro k co bo h
    obtain ⟨j, hj, hco, hbo⟩ := r.err_at k co bo h
    refine ⟨?_, j, hj, by omega, hbo⟩
    intro hk; subst hk
    exact r.no_panic co bo h

theorem lex_eq_map (cfg : Cfg) (mode : Mode) (start : Nat) (src : List Nat) :
    lex cfg mode start src = (lexRaw cfg start src).map fun o => { o with toks := softKw mode o.toks } := rfl

theorem lexRaw_some_eq {cfg : Cfg} {start : Nat} {src : List Nat} {out : LexOut}
    (h : lexRaw cfg start src = some out) : out = rawRun cfg start src := by
  rw [lexRaw_eq] at h
  split at h
  · cases h
  · split at h
    · cases h
    · cases h; rfl

theorem lex_some {cfg : Cfg} {mode : Mode} {start : Nat} {src : List Nat} {out : LexOut}
    (h : lex cfg mode start src = some out) :
    out.fin = (rawRun cfg start src).fin ∧ out.reachedB = (rawRun cfg start src).reachedB := by
  rw [lex_eq_map] at h
  cases hr : lexRaw cfg start src with
  | none => rw [hr] at h; cases h
  | some o =>
    rw [hr] at h
    cases h
    rw [lexRaw_some_eq hr]
    exact ⟨rfl, rfl⟩

theorem lex_isSome_of_fit {cfg : Cfg} {StInv : LexState → Prop} (hc : StepContract cfg StInv)
    (hi : StInv .init) (mode : Mode) (start : Nat) (src : List Nat) (hfit : start + utf8Len src ≤ u32Max) :
    (lex cfg mode start src).isSome = true := by
  obtain ⟨out, ho, _⟩ := lexRaw_total hc hi start src hfit
  simp [lex_eq_map, ho]

/-- `lex` answers `none` (= the Rust lexer panics) only when the text does not fit the 32-bit
    offset space behind `start` -/
theorem lex_none_only_overflow {cfg : Cfg} {StInv : LexState → Prop} (hc : StepContract cfg StInv)
    (hi : StInv .init) (mode : Mode) (start : Nat) (src : List Nat) (h : lex cfg mode start src = none) :
    u32Max < start + utf8Len src := by
  apply Nat.lt_of_not_le
  intro hfit
  have := lex_isSome_of_fit hc hi mode start src hfit
  simp [h] at this
end PV.C03
