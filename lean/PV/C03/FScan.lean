import PV.C07.Model
import PV.C07.Lemmas6
/-
  C03 — totality and offset lemmas about the FULL-ALPHABET f-string scanner.

  The scanner model is C07's (`PV.C07.fvLoop` / `specLoop` / `fstringLoop` / `parseFString`:
  `parse_formatted_value` / `parse_spec` / `parse_fstring` of parser/src/string.rs, tied to the code by
  C07's streams and by C03's `fscan` stream); it is imported, not copied.  In that model every Rust
  panic site of the scanner is the error kind `.panic`:
    * running out of fuel in one of the three loops (the stand-in for "does not terminate"),
    * `parse_octet`'s two `unwrap()`s and `parse_unicode_literal`'s checked `+=` / `<<`
      (inside `PV.C06.parseEscapedChar`).
  This file proves, for bodies of every length over the whole alphabet (quotes, `!`, `=`, `(` `[` `{`
  delimiters, escapes, any Unicode scalar value):
    * `scan_good`   with fuel `2·|cs| + 2` none of the loops returns `.panic`; an error is located at
                    `base + utf8Len pre` for a prefix `pre` of the body; a success leaves the position at
                    such a place; every field it reports starts at such a place;
    * `scan_mono`   a non-`.panic` answer is not changed by more fuel.
  The namespace is `PV.FScan` (not `PV.C03`) because `PV.C03` has its own `csize` / `parseOctet` … .
-/
namespace PV.FScan
open PV.C06 PV.C07

/-! ## positions -/

section
variable (B : List Nat) (base : Nat)

/-- `cs` is what remains of the body `B` (which starts at byte `base`) at byte `loc` -/
def PosAt (cs : List Nat) (loc : Nat) : Prop := ∃ pre, B = pre ++ cs ∧ loc = base + utf8Len pre

/-- `p` is `base` plus the UTF-8 length of a prefix of `B`: a character boundary of the body,
    between its start and its end -/
def Bd (p : Nat) : Prop := ∃ pre suf, B = pre ++ suf ∧ p = base + utf8Len pre

/-- every field (nested ones included) starts on a boundary of the body -/
def FOk (ps : List Piece) : Prop := ∀ f ∈ fieldsOf ps, Bd B base f.2

/-- what a scanner loop started on `cs` may return -/
def Good (cs : List Nat) : Except Err (List Piece × List Nat × Nat) → Prop
  | .ok (ps, rest, loc') => PosAt B base rest loc' ∧ rest.length ≤ cs.length ∧ FOk B base ps
  | .error e => e.kind ≠ .panic ∧ Bd B base e.loc

variable {B base}

theorem PosAt.bd {cs : List Nat} {loc : Nat} (h : PosAt B base cs loc) : Bd B base loc := by
  obtain ⟨pre, e1, e2⟩ := h
  exact ⟨pre, cs, e1, e2⟩

theorem PosAt.skip {cs : List Nat} {loc : Nat} (h : PosAt B base cs loc) (mid rest : List Nat)
    (e : cs = mid ++ rest) : PosAt B base rest (loc + utf8Len mid) := by
  obtain ⟨pre, e1, e2⟩ := h
  exact ⟨pre ++ mid, by rw [e1, e]; simp, by rw [e2, utf8Len_append]; omega⟩

theorem PosAt.adv {cs rest : List Nat} {loc loc' : Nat} (h : PosAt B base cs loc) (a : Adv cs loc rest loc') :
    PosAt B base rest loc' := by
  obtain ⟨mid, e1, e2⟩ := a
  rw [e2]; exact h.skip mid rest e1

/-- the end of the remaining text is a boundary -/
theorem PosAt.end_bd {cs : List Nat} {loc : Nat} (h : PosAt B base cs loc) : Bd B base (loc + utf8Len cs) :=
  (h.skip cs [] (by simp)).bd

theorem Good.mono {cs cs' : List Nat} {r : Except Err (List Piece × List Nat × Nat)} (hl : cs'.length ≤ cs.length)
    (h : Good B base cs' r) : Good B base cs r := by
  cases r with
  | error e => exact h
  | ok p =>
    obtain ⟨ps, rest, loc'⟩ := p
    exact ⟨h.1, Nat.le_trans h.2.1 hl, h.2.2⟩

/-- `Good` with progress: a success consumed at least `k` characters -/
def GoodK (B : List Nat) (base k : Nat) (cs : List Nat) : Except Err (List Piece × List Nat × Nat) → Prop
  | .ok (ps, rest, loc') => PosAt B base rest loc' ∧ rest.length + k ≤ cs.length ∧ FOk B base ps
  | .error e => e.kind ≠ .panic ∧ Bd B base e.loc

theorem GoodK.of_good {k : Nat} {cs cs' : List Nat} {r : Except Err (List Piece × List Nat × Nat)}
    (hl : cs'.length + k ≤ cs.length) (h : Good B base cs' r) : GoodK B base k cs r := by
  cases r with
  | error e => exact h
  | ok p =>
    obtain ⟨ps, rest, loc'⟩ := p
    exact ⟨h.1, by have := h.2.1; omega, h.2.2⟩

theorem GoodK.good {k : Nat} {cs : List Nat} {r : Except Err (List Piece × List Nat × Nat)}
    (h : GoodK B base k cs r) : Good B base cs r := by
  cases r with
  | error e => exact h
  | ok p =>
    obtain ⟨ps, rest, loc'⟩ := p
    exact ⟨h.1, by have := h.2.1; omega, h.2.2⟩

theorem FOk.nil : FOk B base [] := by intro f hf; simp [fieldsOf] at hf

theorem FOk.append {a b : List Piece} (ha : FOk B base a) (hb : FOk B base b) : FOk B base (a ++ b) := by
  intro f hf
  rw [fieldsOf_append] at hf
  rcases List.mem_append.mp hf with h | h
  · exact ha f h
  · exact hb f h

theorem FOk.lit (s : List Nat) : FOk B base [.lit s] := by
  intro f hf
  rw [fieldsOf_cons, pieceFields_lit] at hf
  simp [fieldsOf] at hf

theorem FOk.flush {values : List Piece} (content : List Nat) (h : FOk B base values) :
    FOk B base (if content.isEmpty then values else values ++ [.lit content]) := by
  split
  · exact h
  · exact h.append (FOk.lit _)

/-- `merge_constants` keeps the fields -/
theorem FOk.merged {ps : List Piece} (h : FOk B base ps) : FOk B base (mergeConstants [] ps) := by
  intro f hf
  rw [mergeConstants_eq, fieldsOf_mergeGo] at hf
  exact h f hf

theorem FOk.field {t : List Nat} {s : Nat} {c : Conv} {sp : Option (List Piece)} (hs : Bd B base s)
    (hsp : FOk B base (sp.getD [])) : FOk B base [.field t s c sp] := by
  intro f hf
  rw [fieldsOf_cons] at hf
  have hnil : fieldsOf ([] : List Piece) = [] := by rw [fieldsOf]
  rw [hnil, List.append_nil] at hf
  cases sp with
  | none =>
    rw [pieceFields] at hf
    simp at hf
    subst hf
    exact hs
  | some ps =>
    rw [pieceFields] at hf
    rcases List.mem_cons.mp hf with rfl | h
    · exact hs
    · exact hsp f h

end

/-! ## escapes and strings -/

theorem csize_pos (c : Nat) : 1 ≤ csize c := by unfold csize; split <;> (try split) <;> (try split) <;> omega

/-- a successful escape consumed the character after the backslash and then a prefix of the rest -/
theorem esc_adv1 (lookup : List Nat → Option Nat) (kind : Kind) (cs : List Nat) (loc : Nat)
    (s rest : List Nat) (loc' : Nat) (h : parseEscapedChar lookup kind cs loc = .ok (s, rest, loc')) :
    ∃ c cs1, cs = c :: cs1 ∧ Adv cs1 (loc + csize c) rest loc' := by
  unfold parseEscapedChar at h
  split at h
  · cases h
  · rename_i c cs1
    refine ⟨c, cs1, rfl, ?_⟩
    simp only at h
    have one : Adv cs1 (loc + csize c) cs1 (loc + csize c) := ⟨[], rfl, by simp [utf8Len]⟩
    have lit : ∀ (r : Except Err (Nat × List Nat × Nat)),
        (match r with
          | .ok (x, cs', loc') => (Except.ok ([x], cs', loc') : Except Err (List Nat × List Nat × Nat))
          | .error e => .error e) = .ok (s, rest, loc') →
        (∀ x, r = .ok (x, rest, loc') → Adv cs1 (loc + csize c) rest loc') → Adv cs1 (loc + csize c) rest loc' := by
      intro r hr hk
      cases r with
      | error e => simp at hr
      | ok p =>
        obtain ⟨x, cs', l'⟩ := p
        simp at hr
        obtain ⟨_, rfl, rfl⟩ := hr
        exact hk x rfl
    have other : (if kind.isAnyBytes = true ∧ ¬ c < 128 then (Except.error ⟨.otherError, loc + csize c⟩ : Except Err (List Nat × List Nat × Nat))
        else .ok ([92, c], cs1, loc + csize c)) = .ok (s, rest, loc') → Adv cs1 (loc + csize c) rest loc' := by
      intro ho
      split at ho
      · cases ho
      · cases ho; exact one
    split at h
    all_goals try (cases h; exact one)
    · exact lit _ h (fun x hx => parseUnicodeLiteral_adv 2 _ _ _ _ _ hx)
    · split at h
      · exact other h
      · exact lit _ h (fun x hx => parseUnicodeLiteral_adv 4 _ _ _ _ _ hx)
    · split at h
      · exact other h
      · exact lit _ h (fun x hx => parseUnicodeLiteral_adv 8 _ _ _ _ _ hx)
    · split at h
      · exact other h
      · refine lit _ h (fun x hx => ?_)
        unfold parseUnicodeName at hx
        split at hx
        · rename_i cs2
          cases hn : nameGo cs2 (loc + csize 78 + 1) with
          | error e => simp [hn] at hx
          | ok p =>
            obtain ⟨nm, r, l⟩ := p
            simp only [hn] at hx
            split at hx
            · cases hx
            · split at hx
              · cases hx
                have := nameGo_adv _ _ _ _ _ hn
                have h1 : csize 123 = 1 := rfl
                exact (h1 ▸ this).cons 123
              · cases hx
        · cases hx
    · split at h
      · cases hp : parseOctet c cs1 (loc + csize c) with
        | none => simp [hp] at h
        | some p =>
          obtain ⟨x, cs', l'⟩ := p
          simp [hp] at h
          obtain ⟨_, rfl, rfl⟩ := h
          unfold parseOctet at hp
          rw [octetGo_spec] at hp
          simp only at hp
          split at hp
          · cases hp
          · split at hp
            · cases hp
            · cases hp
              have hpre : (cs1.take 2).takeWhile PV.C06.Spec.isOct <+: cs1 :=
                (List.takeWhile_prefix _).trans (List.take_prefix _ _)
              have hlen : ∀ (l : List Nat), l.all PV.C06.Spec.isOct = true → utf8Len l = l.length := by
                intro l
                induction l with
                | nil => intro _; rfl
                | cons a l ih =>
                  intro h
                  simp at h
                  have : csize a = 1 := by
                    have := h.1; unfold PV.C06.Spec.isOct at this; simp at this; unfold csize; rw [if_pos (by omega)]
                  rw [utf8Len_cons, ih (by simpa using h.2), this]; simp; omega
              refine ⟨(cs1.take 2).takeWhile PV.C06.Spec.isOct, (List.prefix_iff_eq_append.mp hpre).symm, ?_⟩
              rw [hlen _ (takeWhile_all _ _)]
      · exact other h

/-- a successful escape consumed at least the character after the backslash -/
theorem esc_ok (lookup : List Nat → Option Nat) (kind : Kind) (cs : List Nat) (loc : Nat)
    (s rest : List Nat) (loc' : Nat) (h : parseEscapedChar lookup kind cs loc = .ok (s, rest, loc')) :
    Adv cs loc rest loc' ∧ rest.length < cs.length := by
  obtain ⟨c, cs1, rfl, pre, e1, e2⟩ := esc_adv1 lookup kind cs loc s rest loc' h
  refine ⟨⟨c :: pre, by simp [e1], by rw [e2, utf8Len_cons]; omega⟩, ?_⟩
  have := congrArg List.length e1
  simp at this ⊢; omega

theorem nameGo_err_loc : ∀ (cs : List Nat) (loc l : Nat), nameGo cs loc = .error l → l = loc + utf8Len cs := by
  intro cs
  induction cs with
  | nil => intro loc l h; simp [nameGo] at h; simp [utf8Len, h]
  | cons c cs ih =>
    intro loc l h
    unfold nameGo at h
    split at h
    · cases h
    · cases hn : nameGo cs (loc + csize c) with
      | ok p => simp [hn] at h
      | error e =>
        simp [hn] at h
        subst h
        rw [ih _ _ hn, utf8Len_cons]; omega

/-- a boundary of `cs` (which starts at `loc`): `loc` plus the bytes of a prefix -/
def BdOf (cs : List Nat) (loc p : Nat) : Prop := ∃ pre suf, cs = pre ++ suf ∧ p = loc + utf8Len pre

theorem BdOf.cons {cs : List Nat} {loc p : Nat} (c : Nat) (h : BdOf cs (loc + csize c) p) : BdOf (c :: cs) loc p := by
  obtain ⟨pre, suf, e1, e2⟩ := h
  exact ⟨c :: pre, suf, by simp [e1], by rw [e2, utf8Len_cons]; omega⟩

theorem BdOf.zero (cs : List Nat) (loc : Nat) : BdOf cs loc loc := ⟨[], cs, rfl, by simp [utf8Len]⟩

theorem BdOf.ofAdv {cs rest : List Nat} {loc loc' : Nat} (h : Adv cs loc rest loc') : BdOf cs loc loc' := by
  obtain ⟨pre, e1, e2⟩ := h
  exact ⟨pre, rest, e1, e2⟩

theorem BdOf.end (cs : List Nat) (loc : Nat) : BdOf cs loc (loc + utf8Len cs) := ⟨cs, [], by simp, rfl⟩

/-- No modelled `unwrap` / checked arithmetic of `parse_escaped_char` fails (the result is never
    `.panic`, for any lookup function and any text), and its errors are located on a boundary of the
    text that follows the backslash. -/
theorem esc_err (lookup : List Nat → Option Nat) (kind : Kind) (cs : List Nat) (loc : Nat) (e : Err)
    (h : parseEscapedChar lookup kind cs loc = .error e) : e.kind ≠ .panic ∧ BdOf cs loc e.loc := by
  unfold parseEscapedChar at h
  split at h
  · cases h; exact ⟨by simp, BdOf.zero _ _⟩
  · rename_i c cs1
    simp only at h
    have at1 : ∀ k, k ≠ ErrKind.panic → (⟨k, loc + csize c⟩ : Err).kind ≠ .panic ∧ BdOf (c :: cs1) loc (⟨k, loc + csize c⟩ : Err).loc :=
      fun k hk => ⟨hk, (BdOf.zero cs1 _).cons c⟩
    have lit : ∀ (r : Except Err (Nat × List Nat × Nat)),
        (match r with
          | .ok (x, cs', loc') => (Except.ok ([x], cs', loc') : Except Err (List Nat × List Nat × Nat))
          | .error e => .error e) = .error e →
        (r = .error e → e.kind ≠ .panic ∧ BdOf cs1 (loc + csize c) e.loc) → e.kind ≠ .panic ∧ BdOf (c :: cs1) loc e.loc := by
      intro r hr hk
      cases r with
      | ok p => simp at hr
      | error e' =>
        simp at hr
        subst hr
        exact ⟨(hk rfl).1, (hk rfl).2.cons c⟩
    have uni : ∀ n, n ≤ 8 → parseUnicodeLiteral n cs1 (loc + csize c) = .error e →
        e.kind ≠ .panic ∧ BdOf cs1 (loc + csize c) e.loc := by
      intro n hn hu
      rw [parseUnicodeLiteral_spec n hn] at hu
      split at hu
      · cases hu
      · cases hu; exact ⟨by simp, BdOf.zero _ _⟩
    have other : (if kind.isAnyBytes = true ∧ ¬ c < 128 then (Except.error ⟨.otherError, loc + csize c⟩ : Except Err (List Nat × List Nat × Nat))
        else .ok ([92, c], cs1, loc + csize c)) = .error e → e.kind ≠ .panic ∧ BdOf (c :: cs1) loc e.loc := by
      intro ho
      split at ho
      · cases ho; exact at1 _ (by simp)
      · cases ho
    split at h
    all_goals try (cases h; done)
    · exact lit _ h (uni 2 (by omega))
    · split at h
      · exact other h
      · exact lit _ h (uni 4 (by omega))
    · split at h
      · exact other h
      · exact lit _ h (uni 8 (by omega))
    · split at h
      · exact other h
      · refine lit _ h (fun hx => ?_)
        unfold parseUnicodeName at hx
        split at hx
        · rename_i cs2
          cases hn : nameGo cs2 (loc + csize 78 + 1) with
          | error l =>
            simp [hn] at hx
            subst hx
            refine ⟨by simp, ?_⟩
            have := nameGo_err_loc _ _ _ hn
            have h1 : csize 123 = 1 := rfl
            simp only
            rw [this]
            exact (h1 ▸ BdOf.end cs2 (loc + csize 78 + csize 123)).cons 123
          | ok p =>
            obtain ⟨nm, r, l⟩ := p
            simp only [hn] at hx
            have hadv := nameGo_adv _ _ _ _ _ hn
            have h1 : csize 123 = 1 := rfl
            split at hx
            · cases hx
              exact ⟨by simp, (BdOf.ofAdv (h1 ▸ hadv)).cons 123⟩
            · split at hx
              · cases hx
              · cases hx
                exact ⟨by simp, (h1 ▸ BdOf.zero cs2 (loc + csize 78 + csize 123)).cons 123⟩
        · cases hx; exact ⟨by simp, BdOf.zero _ _⟩
    · split at h
      · rename_i ho
        obtain ⟨l', hp, _⟩ := parseOctet_spec c (by simpa [isOctDigit_eq] using ho) cs1 (loc + csize c)
        simp [hp] at h
      · exact other h

/-- the string-skipping loop of the quote arm copies a non-empty prefix -/
theorem skipStr_ok (q : Nat) (triple : Bool) : ∀ (cs : List Nat) (run loc : Nat) (s rest : List Nat) (loc' : Nat),
    skipStr q triple run cs loc = some (s, rest, loc') →
    cs = s ++ rest ∧ loc' = loc + utf8Len s ∧ rest.length < cs.length := by
  intro cs
  induction cs with
  | nil => intro run loc s rest loc' h; simp [skipStr] at h
  | cons c cs ih =>
    intro run loc s rest loc' h
    unfold skipStr at h
    split at h
    · split at h
      · cases h; simp [utf8Len]
      · cases hr : skipStr q triple (run + 1) cs (loc + csize c) with
        | none => simp [hr] at h
        | some p =>
          obtain ⟨s1, r1, l1⟩ := p
          simp [hr] at h
          obtain ⟨rfl, rfl, rfl⟩ := h
          obtain ⟨e1, e2, e3⟩ := ih _ _ _ _ _ hr
          refine ⟨by simp [← e1], by rw [e2, utf8Len_cons]; omega, by simp; omega⟩
    · cases hr : skipStr q triple 0 cs (loc + csize c) with
      | none => simp [hr] at h
      | some p =>
        obtain ⟨s1, r1, l1⟩ := p
        simp [hr] at h
        obtain ⟨rfl, rfl, rfl⟩ := h
        obtain ⟨e1, e2, e3⟩ := ih _ _ _ _ _ hr
        refine ⟨by simp [← e1], by rw [e2, utf8Len_cons]; omega, by simp; omega⟩

/-! ## the three loops -/

section
variable (lookup : List Nat → Option Nat) (kind : Kind) (B : List Nat) (base : Nat)

theorem PosAt.bdOf {B : List Nat} {base : Nat} {cs : List Nat} {loc p : Nat} (h : PosAt B base cs loc)
    (b : BdOf cs loc p) : Bd B base p := by
  obtain ⟨pre0, e1, e2⟩ := h
  obtain ⟨pre, suf, e3, e4⟩ := b
  exact ⟨pre0 ++ pre, suf, by rw [e1, e3]; simp, by rw [e4, e2, utf8Len_append]; omega⟩

theorem PosAt.cons {B : List Nat} {base : Nat} {c : Nat} {cs : List Nat} {loc : Nat} (h : PosAt B base (c :: cs) loc) :
    PosAt B base cs (loc + csize c) := by
  have := h.skip [c] cs rfl
  simpa [utf8Len] using this

def InvFv (f : Nat) : Prop :=
  ∀ (nested location : Nat) (st : FvState) (cs : List Nat) (loc : Nat), 2 * cs.length + 1 ≤ f →
    PosAt B base cs loc → Bd B base location → FOk B base (st.spec.getD []) →
    Good B base cs (fvLoop lookup kind f nested location st cs loc)

def InvSpec (f : Nat) : Prop :=
  ∀ (nested : Nat) (acc : List Piece) (piece cs : List Nat) (loc : Nat), 2 * cs.length + 2 ≤ f →
    PosAt B base cs loc → FOk B base acc →
    Good B base cs (specLoop lookup kind f nested acc piece cs loc)

def InvFs (f : Nat) : Prop :=
  ∀ (nested : Nat) (values : List Piece) (content cs : List Nat) (loc : Nat), 2 * cs.length + 1 ≤ f →
    PosAt B base cs loc → FOk B base values →
    GoodK B base (if cs.head? = some 123 then 1 else 0) cs (fstringLoop lookup kind f nested values content cs loc)

theorem spec_step (f : Nat) (hS : InvSpec lookup kind B base f) (hF : InvFs lookup kind B base f) :
    InvSpec lookup kind B base (f + 1) := by
  intro nested acc piece cs loc hf hp hacc
  unfold specLoop
  simp only
  cases cs with
  | nil => exact ⟨hp, Nat.le_refl _, (hacc.flush piece).merged⟩
  | cons c cs' =>
    simp only [List.length_cons] at hf
    simp only
    split
    · -- `{`: the nested parse_fstring
      rename_i hc
      have hg := hF (nested + 1) [] [] (c :: cs') loc (by simp only [List.length_cons]; omega) hp FOk.nil
      cases hr : fstringLoop lookup kind f (nested + 1) [] [] (c :: cs') loc with
      | error e => rw [hr] at hg; exact hg
      | ok p =>
        obtain ⟨ps, rest, loc'⟩ := p
        rw [hr] at hg
        have hlt := hg.2.1
        simp only [List.head?_cons, hc, if_true, List.length_cons] at hlt
        simp only
        exact Good.mono (by simp only [List.length_cons]; omega)
          (hS nested _ [] rest loc' (by omega) hg.1 ((hacc.flush piece).append hg.2.2))
    · split
      · exact ⟨hp, Nat.le_refl _, (hacc.flush piece).merged⟩
      · split
        · split
          · have hp' : PosAt B base cs' (loc + 1) := by simpa [utf8Len, csize] using hp.skip [92] cs' (by simp_all)
            exact Good.mono (by simp) (hS nested acc _ cs' (loc + 1) (by omega) hp' hacc)
          · rename_i h92 _
            have hp' : PosAt B base cs' (loc + 1) := by simpa [utf8Len, csize] using hp.skip [92] cs' (by simp_all)
            cases he : parseEscapedChar lookup kind cs' (loc + 1) with
            | error e =>
              obtain ⟨h1, h2⟩ := esc_err lookup kind cs' (loc + 1) e he
              exact ⟨h1, hp'.bdOf h2⟩
            | ok p =>
              obtain ⟨s, rest, loc'⟩ := p
              obtain ⟨h1, h2⟩ := esc_ok lookup kind cs' (loc + 1) s rest loc' he
              simp only
              exact Good.mono (by simp only [List.length_cons]; omega)
                (hS nested acc _ rest loc' (by omega) (hp'.adv h1) hacc)
        · exact Good.mono (by simp) (hS nested acc _ cs' (loc + csize c) (by omega) hp.cons hacc)

theorem fs_step (f : Nat) (hV : InvFv lookup kind B base f) (hF : InvFs lookup kind B base f) :
    InvFs lookup kind B base (f + 1) := by
  intro nested values content cs loc hf hp hvals
  unfold fstringLoop
  simp only
  by_cases hn : nested ≥ 2
  · rw [if_pos hn]
    exact ⟨by simp [ferr], hp.bd⟩
  · rw [if_neg hn]
    cases cs with
    | nil => exact ⟨hp, by simp, hvals.flush content⟩
    | cons ch cs1 =>
      simp only [List.length_cons] at hf
      simp only
      have hp1 : PosAt B base cs1 (loc + csize ch) := hp.cons
      -- the common part of the two places where a replacement field is scanned
      have field : ch = 123 → GoodK B base 1 (ch :: cs1)
          (match fvLoop lookup kind f nested (loc + 1) FvState.init cs1 (loc + 1) with
            | .error e => Except.error e
            | .ok (ps, rest, loc') =>
              fstringLoop lookup kind f nested ((if content.isEmpty then values else values ++ [.lit content]) ++ ps) [] rest loc') := by
        intro hch
        subst hch
        have hp1' : PosAt B base cs1 (loc + 1) := hp1
        have hg := hV nested (loc + 1) FvState.init cs1 (loc + 1) (by omega) hp1' hp1'.bd FOk.nil
        cases hr : fvLoop lookup kind f nested (loc + 1) FvState.init cs1 (loc + 1) with
        | error e => rw [hr] at hg; exact hg
        | ok p =>
          obtain ⟨ps, rest, loc'⟩ := p
          rw [hr] at hg
          have hl := hg.2.1
          simp only
          exact GoodK.of_good (by simp only [List.length_cons]; omega)
            (hF nested _ [] rest loc' (by omega) hg.1 ((hvals.flush content).append hg.2.2)).good
      by_cases h123 : ch = 123
      · rw [if_pos h123]
        have hk : (if (ch :: cs1).head? = some 123 then 1 else 0) = 1 := by simp [h123]
        rw [hk]
        by_cases hn0 : nested = 0
        · rw [if_pos hn0]
          split
          · rename_i cs2
            have hp2 : PosAt B base cs2 (loc + 1 + 1) := by
              have := hp1.cons
              subst h123
              exact this
            exact GoodK.of_good (by simp only [List.length_cons]; omega)
              (hF nested values _ cs2 (loc + 1 + 1) (by simp only [List.length_cons] at hf; omega) hp2 hvals).good
          · subst h123
            exact ⟨by simp [ferr], (show PosAt B base [] (loc + 1) from hp1).bd⟩
          · exact h123 ▸ field h123
        · rw [if_neg hn0]
          exact h123 ▸ field h123
      · rw [if_neg h123]
        have hk : (if (ch :: cs1).head? = some 123 then 1 else 0) = 0 := by simp [h123]
        rw [hk]
        apply GoodK.of_good (cs' := ch :: cs1) (Nat.le_refl _)
        by_cases h125 : ch = 125
        · rw [if_pos h125]
          split
          · exact ⟨hp, Nat.le_refl _, hvals.flush content⟩
          · split
            · rename_i cs2
              subst h125
              have hp2 : PosAt B base cs2 (loc + 2) := hp1.cons
              exact Good.mono (by simp only [List.length_cons]; omega)
                (hF nested values _ cs2 (loc + 2) (by simp only [List.length_cons] at hf; omega) hp2 hvals).good
            · subst h125
              exact ⟨by simp [ferr], (show PosAt B base cs1 (loc + 1) from hp1).bd⟩
        · rw [if_neg h125]
          split
          · rename_i h92
            have hp' : PosAt B base cs1 (loc + 1) := by
              have := hp1; rw [h92.1] at this; exact this
            split
            · exact Good.mono (by simp) (hF nested values _ cs1 (loc + 1) (by omega) hp' hvals).good
            · cases he : parseEscapedChar lookup kind cs1 (loc + 1) with
              | error e =>
                obtain ⟨h1, h2⟩ := esc_err lookup kind cs1 (loc + 1) e he
                exact ⟨h1, hp'.bdOf h2⟩
              | ok p =>
                obtain ⟨s, rest, loc'⟩ := p
                obtain ⟨h1, h2⟩ := esc_ok lookup kind cs1 (loc + 1) s rest loc' he
                simp only
                exact Good.mono (by simp only [List.length_cons]; omega)
                  (hF nested values _ rest loc' (by omega) (hp'.adv h1) hvals).good
          · exact Good.mono (by simp) (hF nested values _ cs1 (loc + csize ch) (by omega) hp1 hvals).good

theorem fvResult_ok {B : List Nat} {base : Nat} (st : FvState) (location : Nat) (hl : Bd B base location)
    (hs : FOk B base (st.spec.getD [])) : FOk B base (fvResult st location) := by
  unfold fvResult
  split
  · exact FOk.field hl hs
  · exact (FOk.lit _).append ((FOk.lit _).append (FOk.field hl hs))

theorem fv_step (f : Nat) (hV : InvFv lookup kind B base f) (hS : InvSpec lookup kind B base f) :
    InvFv lookup kind B base (f + 1) := by
  intro nested location st cs loc0 hf hp hloc hsp
  unfold fvLoop
  cases cs with
  | nil => exact ⟨by simp [ferr], hp.bd⟩
  | cons ch cs =>
    simp only [List.length_cons] at hf
    dsimp only
    have hp1 : PosAt B base cs (loc0 + csize ch) := hp.cons
    have cont : ∀ (st' : FvState), FOk B base (st'.spec.getD []) →
        Good B base (ch :: cs) (fvLoop lookup kind f nested location st' cs (loc0 + csize ch)) :=
      fun st' h' => Good.mono (by simp) (hV nested location st' cs _ (by omega) hp1 hloc h')
    have errAt : ∀ k, Good B base (ch :: cs) (.error (ferr k (loc0 + csize ch))) :=
      fun k => ⟨by simp [ferr], hp1.bd⟩
    by_cases c1 : (ch = 33 ∨ ch = 61 ∨ ch = 62 ∨ ch = 60) ∧ cs.head? = some 61
    · -- `!=` `==` `>=` `<=`
      rw [if_pos c1]
      obtain ⟨_, hh⟩ := c1
      cases cs with
      | nil => simp at hh
      | cons d t =>
        simp at hh
        subst hh
        have hp2 : PosAt B base t (loc0 + csize ch + 1) := hp1.cons
        simp only [List.length_cons] at hf
        exact Good.mono (by simp only [List.length_cons]; omega)
          (hV nested location _ t _ (by omega) hp2 hloc hsp)
    rw [if_neg c1]
    by_cases c2 : ch = 33 ∧ st.delims.isEmpty = true
    · -- conversion
      rw [if_pos c2]
      split
      · exact errAt _
      · cases cs with
        | nil => exact errAt _
        | cons c cs' =>
          dsimp only
          have hp2 : PosAt B base cs' (loc0 + csize ch + csize c) := hp1.cons
          simp only [List.length_cons] at hf
          split
          · exact ⟨by simp [ferr], hp2.bd⟩
          · split
            · exact Good.mono (by simp only [List.length_cons]; omega)
                (hV nested location _ cs' _ (by omega) hp2 hloc hsp)
            · exact ⟨by simp [ferr], hp2.bd⟩
    rw [if_neg c2]
    by_cases c3 : ch = 61 ∧ st.delims.isEmpty = true
    · rw [if_pos c3]; exact cont _ hsp
    rw [if_neg c3]
    by_cases c4 : ch = 58 ∧ st.delims.isEmpty = true
    · -- format spec
      rw [if_pos c4]
      have hg := hS nested [] [] cs (loc0 + csize ch) (by omega) hp1 FOk.nil
      cases hr : specLoop lookup kind f nested [] [] cs (loc0 + csize ch) with
      | error e => rw [hr] at hg; exact Good.mono (by simp) hg
      | ok p =>
        obtain ⟨ps, cs', loc'⟩ := p
        rw [hr] at hg
        have hl := hg.2.1
        dsimp only
        exact Good.mono (by simp only [List.length_cons]; omega)
          (hV nested location _ cs' loc' (by omega) hg.1 hloc hg.2.2)
    rw [if_neg c4]
    by_cases c5 : (ch = 40 ∨ ch = 123 ∨ ch = 91) ∧ ¬st.selfDoc = true
    · rw [if_pos c5]; exact cont _ hsp
    rw [if_neg c5]
    by_cases c6 : ch = 41
    · rw [if_pos c6]
      split
      · exact cont _ hsp
      · exact errAt _
      · exact errAt _
    rw [if_neg c6]
    by_cases c7 : ch = 93
    · rw [if_pos c7]
      split
      · exact cont _ hsp
      · exact errAt _
      · exact errAt _
    rw [if_neg c7]
    by_cases c8 : ch = 125 ∧ ¬st.delims.isEmpty = true
    · rw [if_pos c8]
      split
      · exact cont _ hsp
      · exact errAt _
      · exact cont _ hsp
    rw [if_neg c8]
    by_cases c9 : ch = 125
    · rw [if_pos c9]
      split
      · exact errAt _
      · exact ⟨hp1, by simp, fvResult_ok st location hloc hsp⟩
    rw [if_neg c9]
    by_cases c10 : (ch = 34 ∨ ch = 39) ∧ ¬st.selfDoc = true
    · -- a quoted string
      rw [if_pos c10]
      have hcs : csize ch = 1 := by rcases c10.1 with rfl | rfl <;> rfl
      by_cases ht : cs.take 2 = [ch, ch]
      · simp only [ht, decide_true, if_true]
        have hcs2 : cs = ch :: ch :: cs.drop 2 := by
          conv => lhs; rw [← List.take_append_drop 2 cs, ht]
          simp
        have hp2 : PosAt B base (cs.drop 2) (loc0 + csize ch + 2) := by
          have := hp1.skip [ch, ch] (cs.drop 2) hcs2
          simpa [utf8Len, hcs] using this
        have hlen : (cs.drop 2).length + 2 = cs.length := by
          have := congrArg List.length hcs2
          simp only [List.length_cons] at this; omega
        cases hk : skipStr ch true 0 (cs.drop 2) (loc0 + csize ch + 2) with
        | none => exact ⟨by simp [ferr], hp2.end_bd⟩
        | some p =>
          obtain ⟨s, cs', loc'⟩ := p
          obtain ⟨e1, e2, e3⟩ := skipStr_ok _ _ _ _ _ _ _ _ hk
          dsimp only
          exact Good.mono (by simp only [List.length_cons]; omega)
            (hV nested location _ cs' loc' (by omega) (e2 ▸ hp2.skip s cs' e1) hloc hsp)
      · simp only [ht, decide_false, if_false, Bool.false_eq_true]
        cases hk : skipStr ch false 0 cs (loc0 + csize ch) with
        | none => exact ⟨by simp [ferr], hp1.end_bd⟩
        | some p =>
          obtain ⟨s, cs', loc'⟩ := p
          obtain ⟨e1, e2, e3⟩ := skipStr_ok _ _ _ _ _ _ _ _ hk
          dsimp only
          exact Good.mono (by simp only [List.length_cons]; omega)
            (hV nested location _ cs' loc' (by omega) (e2 ▸ hp1.skip s cs' e1) hloc hsp)
    rw [if_neg c10]
    by_cases c11 : (ch = 32 ∨ ch = 9 ∨ ch = 10 ∨ ch = 11 ∨ ch = 12) ∧ st.selfDoc = true
    · rw [if_pos c11]; exact cont _ hsp
    rw [if_neg c11]
    by_cases c12 : ch = 92
    · rw [if_pos c12]; exact errAt _
    rw [if_neg c12]
    by_cases c13 : st.selfDoc = true
    · rw [if_pos c13]; exact errAt _
    rw [if_neg c13]
    exact cont _ hsp

/-! ## all fuels -/

theorem scan_good : ∀ f, InvFv lookup kind B base f ∧ InvSpec lookup kind B base f ∧ InvFs lookup kind B base f := by
  intro f
  induction f with
  | zero =>
    refine ⟨?_, ?_, ?_⟩
    · intro _ _ _ cs _ h; omega
    · intro _ _ _ cs _ h; omega
    · intro _ _ _ cs _ h; omega
  | succ f ih =>
    exact ⟨fv_step lookup kind B base f ih.1 ih.2.1, spec_step lookup kind B base f ih.2.1 ih.2.2,
      fs_step lookup kind B base f ih.1 ih.2.2⟩
end

/-- not the stand-in for a Rust panic / for running out of fuel -/
def NoPanic {α : Type} (r : Except Err α) : Prop := ∀ e, r = .error e → e.kind ≠ .panic

section
variable (lookup : List Nat → Option Nat) (kind : Kind)

def MonoFv (f : Nat) : Prop := ∀ nested location st cs loc,
  NoPanic (fvLoop lookup kind f nested location st cs loc) →
  fvLoop lookup kind (f + 1) nested location st cs loc = fvLoop lookup kind f nested location st cs loc
def MonoSpec (f : Nat) : Prop := ∀ nested acc piece cs loc,
  NoPanic (specLoop lookup kind f nested acc piece cs loc) →
  specLoop lookup kind (f + 1) nested acc piece cs loc = specLoop lookup kind f nested acc piece cs loc
def MonoFs (f : Nat) : Prop := ∀ nested values content cs loc,
  NoPanic (fstringLoop lookup kind f nested values content cs loc) →
  fstringLoop lookup kind (f + 1) nested values content cs loc = fstringLoop lookup kind f nested values content cs loc

theorem NoPanic.sub {α β : Type} {sub : Except Err α} {k : α → Except Err β}
    (h : NoPanic (match sub with | .error e => .error e | .ok p => k p)) : NoPanic sub := by
  intro e he
  subst he
  exact h e rfl

theorem spec_mono_step (f : Nat) (hS : MonoSpec lookup kind f) (hF : MonoFs lookup kind f) :
    MonoSpec lookup kind (f + 1) := by
  intro nested acc piece cs loc hnp
  rw [specLoop.eq_def] at hnp
  rw [specLoop.eq_def]
  conv => rhs; rw [specLoop.eq_def]
  dsimp only at hnp ⊢
  cases cs with
  | nil => rfl
  | cons c cs' =>
    dsimp only at hnp ⊢
    by_cases c1 : c = 123
    · simp only [if_pos c1] at hnp ⊢
      have h1 : NoPanic (fstringLoop lookup kind f (nested + 1) [] [] (c :: cs') loc) := by
        intro e he; rw [he] at hnp; exact hnp e rfl
      rw [hF _ _ _ _ _ h1]
      cases hr : fstringLoop lookup kind f (nested + 1) [] [] (c :: cs') loc with
      | error e => rfl
      | ok p =>
        obtain ⟨ps, rest, loc'⟩ := p
        rw [hr] at hnp
        exact hS _ _ _ _ _ hnp
    simp only [if_neg c1] at hnp ⊢
    by_cases c2 : c = 125
    · simp only [if_pos c2]
    simp only [if_neg c2] at hnp ⊢
    by_cases c3 : c = 92 ∧ ¬kind.isRaw = true
    · simp only [if_pos c3] at hnp ⊢
      by_cases c4 : cs'.head? = some 123 ∨ cs'.head? = some 125
      · simp only [if_pos c4] at hnp ⊢
        exact hS _ _ _ _ _ hnp
      · simp only [if_neg c4] at hnp ⊢
        cases hr : parseEscapedChar lookup kind cs' (loc + 1) with
        | error e => rfl
        | ok p =>
          obtain ⟨s, rest, loc'⟩ := p
          rw [hr] at hnp
          exact hS _ _ _ _ _ hnp
    simp only [if_neg c3] at hnp ⊢
    exact hS _ _ _ _ _ hnp

theorem fs_mono_step (f : Nat) (hV : MonoFv lookup kind f) (hF : MonoFs lookup kind f) :
    MonoFs lookup kind (f + 1) := by
  intro nested values content cs loc hnp
  rw [fstringLoop.eq_def] at hnp
  rw [fstringLoop.eq_def]
  conv => rhs; rw [fstringLoop.eq_def]
  dsimp only at hnp ⊢
  by_cases c0 : nested ≥ 2
  · simp only [if_pos c0]
  simp only [if_neg c0] at hnp ⊢
  cases cs with
  | nil => rfl
  | cons ch cs1 =>
    dsimp only at hnp ⊢
    -- the field scan, shared by two branches
    have field : NoPanic (match fvLoop lookup kind f nested (loc + 1) FvState.init cs1 (loc + 1) with
          | .error e => Except.error e
          | .ok (ps, rest, loc') =>
            fstringLoop lookup kind f nested ((if content.isEmpty then values else values ++ [Piece.lit content]) ++ ps) [] rest loc') →
        (match fvLoop lookup kind (f + 1) nested (loc + 1) FvState.init cs1 (loc + 1) with
          | .error e => Except.error e
          | .ok (ps, rest, loc') =>
            fstringLoop lookup kind (f + 1) nested ((if content.isEmpty then values else values ++ [Piece.lit content]) ++ ps) [] rest loc') =
        (match fvLoop lookup kind f nested (loc + 1) FvState.init cs1 (loc + 1) with
          | .error e => Except.error e
          | .ok (ps, rest, loc') =>
            fstringLoop lookup kind f nested ((if content.isEmpty then values else values ++ [Piece.lit content]) ++ ps) [] rest loc') := by
      intro hnp
      have h1 : NoPanic (fvLoop lookup kind f nested (loc + 1) FvState.init cs1 (loc + 1)) := by
        intro e he; rw [he] at hnp; exact hnp e rfl
      rw [hV _ _ _ _ _ h1]
      cases hr : fvLoop lookup kind f nested (loc + 1) FvState.init cs1 (loc + 1) with
      | error e => rfl
      | ok p =>
        obtain ⟨ps, rest, loc'⟩ := p
        rw [hr] at hnp
        exact hF _ _ _ _ _ hnp
    by_cases c1 : ch = 123
    · simp only [if_pos c1] at hnp ⊢
      by_cases c2 : nested = 0
      · simp only [if_pos c2] at hnp ⊢
        split
        · simp only at hnp; exact hF _ _ _ _ _ hnp
        · rfl
        · rename_i h1 h2
          split at hnp
          · exact absurd rfl (h1 _)
          · exact absurd rfl h2
          · exact field hnp
      · simp only [if_neg c2] at hnp ⊢
        exact field hnp
    simp only [if_neg c1] at hnp ⊢
    by_cases c3 : ch = 125
    · simp only [if_pos c3] at hnp ⊢
      by_cases c4 : nested > 0
      · simp only [if_pos c4]
      · simp only [if_neg c4] at hnp ⊢
        split
        · simp only at hnp; exact hF _ _ _ _ _ hnp
        · rfl
    simp only [if_neg c3] at hnp ⊢
    by_cases c5 : ch = 92 ∧ ¬kind.isRaw = true
    · simp only [if_pos c5] at hnp ⊢
      by_cases c6 : cs1.head? = some 123 ∨ cs1.head? = some 125
      · simp only [if_pos c6] at hnp ⊢
        exact hF _ _ _ _ _ hnp
      · simp only [if_neg c6] at hnp ⊢
        cases hr : parseEscapedChar lookup kind cs1 (loc + 1) with
        | error e => rfl
        | ok p =>
          obtain ⟨s, rest, loc'⟩ := p
          rw [hr] at hnp
          exact hF _ _ _ _ _ hnp
    simp only [if_neg c5] at hnp ⊢
    exact hF _ _ _ _ _ hnp

theorem fv_mono_step (f : Nat) (hV : MonoFv lookup kind f) (hS : MonoSpec lookup kind f) :
    MonoFv lookup kind (f + 1) := by
  intro nested location st cs loc0 hnp
  rw [fvLoop.eq_def] at hnp
  rw [fvLoop.eq_def]
  conv => rhs; rw [fvLoop.eq_def]
  dsimp only at hnp ⊢
  cases cs with
  | nil => rfl
  | cons ch cs =>
    dsimp only at hnp ⊢
    by_cases c1 : (ch = 33 ∨ ch = 61 ∨ ch = 62 ∨ ch = 60) ∧ cs.head? = some 61
    · simp only [if_pos c1] at hnp ⊢
      exact hV _ _ _ _ _ hnp
    simp only [if_neg c1] at hnp ⊢
    by_cases c2 : ch = 33 ∧ st.delims.isEmpty = true
    · simp only [if_pos c2] at hnp ⊢
      split
      · rfl
      · rename_i ht
        simp only [if_neg ht] at hnp
        cases cs with
        | nil => rfl
        | cons c cs' =>
          dsimp only at hnp ⊢
          split
          · rfl
          · rename_i cv hcv
            simp only [hcv] at hnp
            split
            · rename_i hh
              simp only [if_pos hh] at hnp
              exact hV _ _ _ _ _ hnp
            · rfl
    simp only [if_neg c2] at hnp ⊢
    by_cases c3 : ch = 61 ∧ st.delims.isEmpty = true
    · simp only [if_pos c3] at hnp ⊢
      exact hV _ _ _ _ _ hnp
    simp only [if_neg c3] at hnp ⊢
    by_cases c4 : ch = 58 ∧ st.delims.isEmpty = true
    · simp only [if_pos c4] at hnp ⊢
      have h1 : NoPanic (specLoop lookup kind f nested [] [] cs (loc0 + csize ch)) := by
        intro e he; rw [he] at hnp; exact hnp e rfl
      rw [hS _ _ _ _ _ h1]
      cases hr : specLoop lookup kind f nested [] [] cs (loc0 + csize ch) with
      | error e => rfl
      | ok p =>
        obtain ⟨ps, cs', loc'⟩ := p
        rw [hr] at hnp
        exact hV _ _ _ _ _ hnp
    simp only [if_neg c4] at hnp ⊢
    by_cases c5 : (ch = 40 ∨ ch = 123 ∨ ch = 91) ∧ ¬st.selfDoc = true
    · simp only [if_pos c5] at hnp ⊢
      exact hV _ _ _ _ _ hnp
    simp only [if_neg c5] at hnp ⊢
    by_cases c6 : ch = 41
    · simp only [if_pos c6] at hnp ⊢
      split
      · rename_i heq; simp only [heq] at hnp; exact hV _ _ _ _ _ hnp
      · rfl
      · rfl
    simp only [if_neg c6] at hnp ⊢
    by_cases c7 : ch = 93
    · simp only [if_pos c7] at hnp ⊢
      split
      · rename_i heq; simp only [heq] at hnp; exact hV _ _ _ _ _ hnp
      · rfl
      · rfl
    simp only [if_neg c7] at hnp ⊢
    by_cases c8 : ch = 125 ∧ ¬st.delims.isEmpty = true
    · simp only [if_pos c8] at hnp ⊢
      split
      · rename_i heq; simp only [heq] at hnp; exact hV _ _ _ _ _ hnp
      · rfl
      · rename_i heq; simp only [heq] at hnp; exact hV _ _ _ _ _ hnp
    simp only [if_neg c8] at hnp ⊢
    by_cases c9 : ch = 125
    · simp only [if_pos c9]
    simp only [if_neg c9] at hnp ⊢
    by_cases c10 : (ch = 34 ∨ ch = 39) ∧ ¬st.selfDoc = true
    · simp only [if_pos c10] at hnp ⊢
      split
      · rfl
      · rename_i s cs' loc' heq
        simp only [heq] at hnp
        exact hV _ _ _ _ _ hnp
    simp only [if_neg c10] at hnp ⊢
    by_cases c11 : (ch = 32 ∨ ch = 9 ∨ ch = 10 ∨ ch = 11 ∨ ch = 12) ∧ st.selfDoc = true
    · simp only [if_pos c11] at hnp ⊢
      exact hV _ _ _ _ _ hnp
    simp only [if_neg c11] at hnp ⊢
    by_cases c12 : ch = 92
    · simp only [if_pos c12]
    simp only [if_neg c12] at hnp ⊢
    by_cases c13 : st.selfDoc = true
    · simp only [if_pos c13]
    simp only [if_neg c13] at hnp ⊢
    exact hV _ _ _ _ _ hnp

theorem scan_mono : ∀ f, MonoFv lookup kind f ∧ MonoSpec lookup kind f ∧ MonoFs lookup kind f := by
  intro f
  induction f with
  | zero =>
    refine ⟨?_, ?_, ?_⟩
    · intro nested location st cs loc h
      exact absurd rfl (h ⟨.panic, loc⟩ (by rw [fvLoop.eq_def]))
    · intro nested acc piece cs loc h
      exact absurd rfl (h ⟨.panic, loc⟩ (by rw [specLoop.eq_def]))
    · intro nested values content cs loc h
      exact absurd rfl (h ⟨.panic, loc⟩ (by rw [fstringLoop.eq_def]))
  | succ f ih =>
    exact ⟨fv_mono_step lookup kind f ih.1 ih.2.1, spec_mono_step lookup kind f ih.2.1 ih.2.2,
      fs_mono_step lookup kind f ih.1 ih.2.2⟩

/-- from any fuel with a non-`.panic` answer on, the answer stays the same -/
theorem fs_mono_le (f : Nat) (nested : Nat) (values : List Piece) (content cs : List Nat) (loc : Nat)
    (h : NoPanic (fstringLoop lookup kind f nested values content cs loc)) : ∀ g, f ≤ g →
    fstringLoop lookup kind g nested values content cs loc = fstringLoop lookup kind f nested values content cs loc := by
  intro g hg
  induction g with
  | zero =>
    have : f = 0 := by omega
    subst this; rfl
  | succ g ih =>
    by_cases hfg : f = g + 1
    · subst hfg; rfl
    · have e := ih (by omega)
      rw [← e] at h
      rw [(scan_mono lookup kind g).2.2 _ _ _ _ _ h, e]
end

end PV.FScan
