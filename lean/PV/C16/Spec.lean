/-
  C16 — reference definitions, written from the Python language reference (section 2.4.1,
  "String and Bytes literals") and from CPython's `unicode_repr` / `bytes_repr`, NOT from the Rust
  control flow.

  * `pyLiteralDecode` : an evaluator for single-line string / bytes literals.  It is a *partial*
    decoder: for the literal forms it does not handle (triple-quoted, raw / f-prefixes, `\N{…}`,
    implicit concatenation) it answers `none`.  Whenever it answers `some v`, `v` is the value
    Python gives the literal (validated against `ast.literal_eval` on every run of the check).
  * `pyQuote`, `pyRepr`, `pyBytesRepr` : what `repr()` returns, with Python's own
    `str.isprintable` as parameter.

  Characters are scalar values / character codes as `Nat`.
-/
namespace PV.C16.Spec

/-- value of a literal -/
inductive PyVal where
  | str (cs : List Nat)
  | bytes (bs : List Nat)
deriving DecidableEq, Repr

/-! ## decoding a literal -/

/-- value of a hexadecimal digit character (either case) -/
def hexValue (c : Nat) : Option Nat :=
  if 48 ≤ c ∧ c ≤ 57 then some (c - 48)
  else if 97 ≤ c ∧ c ≤ 102 then some (c - 87)
  else if 65 ≤ c ∧ c ≤ 70 then some (c - 55)
  else none

/-- exactly `n` hexadecimal digits; `acc` is the value so far -/
def takeHex : Nat → Nat → List Nat → Option (Nat × List Nat)
  | 0, acc, rest => some (acc, rest)
  | _ + 1, _, [] => none
  | n + 1, acc, d :: rest =>
    match hexValue d with
    | some v => takeHex n (16 * acc + v) rest
    | none => none

def isOct (c : Nat) : Bool := 48 ≤ c && c ≤ 55

/-- up to `n` further octal digits -/
def takeOct : Nat → Nat → List Nat → Nat × List Nat
  | 0, acc, rest => (acc, rest)
  | _ + 1, acc, [] => (acc, [])
  | n + 1, acc, d :: rest =>
    if isOct d then takeOct n (8 * acc + (d - 48)) rest else (acc, d :: rest)

/-- result of looking at the head of the remaining literal text -/
inductive Step where
  | err                                   -- not a (supported) literal
  | done                                  -- closing quote, nothing after it
  | emit (c : Nat) (rest : List Nat)      -- one character / byte of the value
  | skip (rest : List Nat)                -- backslash-newline: contributes nothing
deriving DecidableEq, Repr

/-- what follows a backslash (`isBytes`: inside a bytes literal) -/
def escStep (isBytes : Bool) : List Nat → Step
  | [] => .err
  | 10 :: rest => .skip rest              -- \<newline>
  | 92 :: rest => .emit 92 rest           -- \\
  | 39 :: rest => .emit 39 rest           -- \'
  | 34 :: rest => .emit 34 rest           -- \"
  | 97 :: rest => .emit 7 rest            -- \a
  | 98 :: rest => .emit 8 rest            -- \b
  | 102 :: rest => .emit 12 rest          -- \f
  | 110 :: rest => .emit 10 rest          -- \n
  | 114 :: rest => .emit 13 rest          -- \r
  | 116 :: rest => .emit 9 rest           -- \t
  | 118 :: rest => .emit 11 rest          -- \v
  | 120 :: rest =>                        -- \xhh
    match takeHex 2 0 rest with
    | some (v, r) => .emit v r
    | none => .err
  | 117 :: rest =>                        -- \uXXXX (text only; in bytes the backslash stays)
    if isBytes then .emit 92 (117 :: rest) else
    match takeHex 4 0 rest with
    | some (v, r) => .emit v r
    | none => .err
  | 85 :: rest =>                         -- \UXXXXXXXX
    if isBytes then .emit 92 (85 :: rest) else
    match takeHex 8 0 rest with
    | some (v, r) => if v < 0x110000 then .emit v r else .err
    | none => .err
  | 78 :: rest =>                         -- \N{name}: not supported by this reference (text);
    if isBytes then .emit 92 (78 :: rest) else .err
  | 13 :: _ => .err                       -- \<CR>: depends on newline translation; not supported
  | 0 :: _ => .err
  | c :: rest =>
    if isOct c then                       -- \ooo, one to three octal digits
      let (v, r) := takeOct 2 (c - 48) rest
      if isBytes ∧ v ≥ 256 then .err else .emit v r
    else .emit 92 (c :: rest)             -- unrecognised escape: the backslash is kept

/-- one step of reading the body of a literal delimited by the quote character `q` -/
def step (isBytes : Bool) (q : Nat) : List Nat → Step
  | [] => .err                            -- unterminated
  | c :: rest =>
    if c = 92 then escStep isBytes rest
    else if c = q then (if rest = [] then .done else .err)
    else if c = 10 ∨ c = 13 ∨ c = 0 then .err        -- a raw line break / NUL ends the line
    else if c ≥ 0x110000 then .err
    else if isBytes ∧ c ≥ 128 then .err             -- bytes literals are ASCII only
    else .emit c rest

/-- read the body; every step consumes at least one character, so `fuel = length + 1` always
    suffices (`pyLiteralDecode` passes exactly that). -/
def decodeGo (isBytes : Bool) (q : Nat) : Nat → List Nat → Option (List Nat)
  | 0, _ => none
  | fuel + 1, l =>
    match step isBytes q l with
    | .err => none
    | .done => some []
    | .emit c rest => (decodeGo isBytes q fuel rest).map (c :: ·)
    | .skip rest => decodeGo isBytes q fuel rest

def isQuote (c : Nat) : Bool := c = 39 || c = 34

/-- body after the opening quote `q`; `q q …` would open a triple-quoted literal (not supported,
    except that `q q` alone is the empty literal) -/
def decodeQuoted (isBytes : Bool) (q : Nat) (rest : List Nat) : Option (List Nat) :=
  if !isQuote q then none
  else match rest with
    | a :: b :: _ => if a = q ∧ b = q then none else decodeGo isBytes q (rest.length + 1) rest
    | _ => decodeGo isBytes q (rest.length + 1) rest

/-- Evaluate a Python string or bytes literal given as its characters. -/
def pyLiteralDecode : List Nat → Option PyVal
  | 98 :: q :: rest => (decodeQuoted true q rest).map .bytes       -- b'…'
  | 66 :: q :: rest => (decodeQuoted true q rest).map .bytes       -- B'…'
  | 117 :: q :: rest => (decodeQuoted false q rest).map .str       -- u'…'
  | 85 :: q :: rest => (decodeQuoted false q rest).map .str        -- U'…'
  | q :: rest => (decodeQuoted false q rest).map .str
  | [] => none

/-! ## repr -/

/-- Python's quote choice: single quotes unless the value contains a single and no double quote -/
def pyQuote (s : List Nat) : Nat :=
  if s.contains 39 && !s.contains 34 then 34 else 39

def hexChars : List Nat := [48, 49, 50, 51, 52, 53, 54, 55, 56, 57, 97, 98, 99, 100, 101, 102]

/-- `n` as exactly `w` lower-case hexadecimal digits (`%0wx` for `n < 16^w`) -/
def hexFixed (w n : Nat) : List Nat :=
  (List.range w).reverse.map fun i => hexChars.getD (n / 16 ^ i % 16) 0

/-- one character of `repr(str)` (CPython `unicode_repr`) -/
def pyEscapeChar (printable : Nat → Bool) (q c : Nat) : List Nat :=
  if c = q ∨ c = 92 then [92, c]                                   -- quote and backslash
  else if c = 9 then [92, 116]                                     -- \t
  else if c = 10 then [92, 110]                                    -- \n
  else if c = 13 then [92, 114]                                    -- \r
  else if c < 32 ∨ c = 127 then 92 :: 120 :: hexFixed 2 c          -- other ASCII controls
  else if c < 127 then [c]                                         -- ASCII copied as is
  else if printable c then [c]                                     -- printable non-ASCII
  else if c ≤ 0xff then 92 :: 120 :: hexFixed 2 c
  else if c ≤ 0xffff then 92 :: 117 :: hexFixed 4 c
  else 92 :: 85 :: hexFixed 8 c

/-- `repr(s)` for a `str`; `printable` is `str.isprintable` on single characters -/
def pyRepr (printable : Nat → Bool) (s : List Nat) : List Nat :=
  pyQuote s :: s.flatMap (pyEscapeChar printable (pyQuote s)) ++ [pyQuote s]

/-- one byte of `repr(bytes)` (CPython `bytes_repr`) -/
def pyBytesEscape (q c : Nat) : List Nat :=
  if c = q ∨ c = 92 then [92, c]
  else if c = 9 then [92, 116]
  else if c = 10 then [92, 110]
  else if c = 13 then [92, 114]
  else if c < 32 ∨ c ≥ 127 then 92 :: 120 :: hexFixed 2 c
  else [c]

/-- `repr(b)` for a `bytes` -/
def pyBytesRepr (b : List Nat) : List Nat :=
  98 :: pyQuote b :: b.flatMap (pyBytesEscape (pyQuote b)) ++ [pyQuote b]

/-- a character that `repr` leaves as it is inside quotes `q` -/
def plain (printable : Nat → Bool) (q c : Nat) : Prop := pyEscapeChar printable q c = [c]

end PV.C16.Spec
