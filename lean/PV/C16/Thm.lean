import PV.C16.Model
import PV.C16.Spec
import PV.C16.Lemmas
import PV.Common.Proto
/-
  C16 — property theorems.  Helper lemmas live in `PV/C16/Lemmas.lean`; this file only holds the
  statements a reader should compare with the property text:

    "For every string and every byte string, the repr produced by the escaping helpers is a valid
     Python literal that evaluates to exactly the original value, uses Python's quote choice,
     and its length equals the length announced by the precomputed layout, which is what decides
     whether the fast unescaped path is taken.  For ... code points whose printable status does
     not depend on the Unicode version the text is identical to Python's repr; all byte strings
     are identical."

  Conventions: a text is the list of its scalar values (`ValidText`: every element < 0x110000),
  a byte string a list of numbers < 256 (`ValidBytes`).  `p` is ANY printability function
  (`rustpython_literal::char::is_printable` in the real code).  Theorems that speak about the
  announced length assume the layout has one (`len = some n`); `layout_some` / `bytes_layout_some`
  show it always has for inputs shorter than `isize::MAX / 11` characters, i.e. for every string
  that fits in memory.
-/
namespace PV.C16
open Spec

def ValidText (s : List Nat) : Prop := ∀ c ∈ s, c < 0x110000
def ValidBytes (b : List Nat) : Prop := ∀ c ∈ b, c < 256

/-! ### the repr is a literal that decodes to the original value -/

/-- `UnicodeEscape::new_repr(s).str_repr()` is a Python literal whose value is `s` — for every
    text and every printability function. -/
theorem repr_decodes (p : Nat → Bool) (s : List Nat) (hs : ValidText s) :
    pyLiteralDecode (strRepr p s) = some (.str s) :=
  uWrite_decodes p s _ (fun n h => (uReprLayout_spec p .single s n h).2) hs

/-- the same for a preferred double quote and for a forced quote (`with_forced_quote`) -/
theorem repr_decodes_pref (p : Nat → Bool) (pref : Quote) (s : List Nat) (hs : ValidText s) :
    pyLiteralDecode (strReprPref p pref s) = some (.str s) :=
  uWrite_decodes p s _ (fun n h => (uReprLayout_spec p pref s n h).2) hs

theorem repr_decodes_forced (p : Nat → Bool) (q : Quote) (s : List Nat) (hs : ValidText s) :
    pyLiteralDecode (strReprForced p q s) = some (.str s) :=
  uWrite_decodes p s _ (fun n h => by simp at h) hs

/-- `AsciiEscape::new_repr(b).bytes_repr()` is a Python bytes literal whose value is `b`. -/
theorem bytes_repr_decodes (b : List Nat) (hb : ValidBytes b) :
    pyLiteralDecode (bytesRepr b) = some (.bytes b) :=
  aWrite_decodes b _ (fun n h => (aReprLayout_spec .single b n h).2) hb

theorem bytes_repr_decodes_pref (pref : Quote) (b : List Nat) (hb : ValidBytes b) :
    pyLiteralDecode (bytesReprPref pref b) = some (.bytes b) :=
  aWrite_decodes b _ (fun n h => (aReprLayout_spec pref b n h).2) hb

theorem bytes_repr_decodes_forced (q : Quote) (b : List Nat) (hb : ValidBytes b) :
    pyLiteralDecode (bytesReprForced q b) = some (.bytes b) :=
  aWrite_decodes b _ (fun n h => by simp at h) hb

example : ValidText [39, 34, 92, 10, 0x7f, 0xe9, 0x2028, 0x1F600, 0x10FFFF] := by
  intro c hc; simp at hc; omega
example : strRepr (fun c => c == 0xe9) [39, 34, 92, 10, 0xe9, 0x2028]
    = [39, 92, 39, 34, 92, 92, 92, 110, 0xe9, 92, 117, 50, 48, 50, 56, 39] := by decide
example : ValidBytes [39, 0, 255] := by intro c hc; simp at hc; omega
example : bytesRepr [39, 0, 255] = [98, 34, 39, 92, 120, 48, 48, 92, 120, 102, 102, 34] := by decide

/-! ### the layout always has a length for strings that fit in memory -/

theorem layout_some (p : Nat → Bool) (pref : Quote) (s : List Nat)
    (h : 11 * s.length + 2 ≤ isizeMax) : ∃ n, (uReprLayout p pref s).len = some n := by
  apply layoutGo_some
  · intro c; unfold uEscapedCharLen utf8Len
    repeat' split
    all_goals omega
  · omega

theorem bytes_layout_some (pref : Quote) (b : List Nat)
    (h : 11 * b.length + 3 ≤ isizeMax) : ∃ n, (aReprLayout pref b).len = some n := by
  apply layoutGo_some
  · intro c; unfold aEscapedCharLen
    repeat' split
    all_goals omega
  · omega

/-! ### Python's quote choice -/

/-- single quotes unless the value contains a single and no double quote -/
theorem quote_rule (p : Nat → Bool) (s : List Nat) (n : Nat)
    (h : (uReprLayout p .single s).len = some n) :
    (uReprLayout p .single s).quote.toChar = pyQuote s ∧
    ((uReprLayout p .single s).quote = .double ↔ (39 ∈ s ∧ 34 ∉ s)) := by
  have hq := (uReprLayout_spec p .single s n h).1
  refine ⟨by rw [hq]; exact pyQuote_eq s, ?_⟩
  rw [hq, chooseQuote_single]
  by_cases h1 : 39 ∈ s <;> by_cases h2 : 34 ∈ s <;>
    simp [h1, h2, List.count_pos_iff, List.count_eq_zero]

theorem bytes_quote_rule (b : List Nat) (n : Nat) (h : (aReprLayout .single b).len = some n) :
    (aReprLayout .single b).quote.toChar = pyQuote b ∧
    ((aReprLayout .single b).quote = .double ↔ (39 ∈ b ∧ 34 ∉ b)) := by
  have hq := (aReprLayout_spec .single b n h).1
  refine ⟨by rw [hq]; exact pyQuote_eq b, ?_⟩
  rw [hq, chooseQuote_single]
  by_cases h1 : 39 ∈ b <;> by_cases h2 : 34 ∈ b <;>
    simp [h1, h2, List.count_pos_iff, List.count_eq_zero]

example : (uReprLayout (fun _ => false) .single [97, 39]).quote = .double := by decide
example : (uReprLayout (fun _ => false) .single [97, 39, 34]) = ⟨.single, some 4⟩ := by decide

/-! ### the announced length is exact -/

/-- UTF-8 length of the produced text = announced length + the two quotes -/
theorem layout_len_exact (p : Nat → Bool) (s : List Nat) (n : Nat)
    (h : (uReprLayout p .single s).len = some n) :
    (PV.utf8Encode (strRepr p s)).length = n + 2 := by
  have hl := uReprLayout_spec p .single s
  have hq : utf8Len (uReprLayout p .single s).quote.toChar = 1 := by
    cases (uReprLayout p .single s).quote <;> rfl
  rw [utf8Encode_length, strRepr, strReprPref, uWrite, uBody_eq_slow p s _ (fun n h => (hl n h).2)]
  simp only [List.cons_append, utf8LenList, utf8LenList_append, hq, ← (hl n h).2]
  omega

/-- bytes: `b`, two quotes, and the announced number of (ASCII) characters -/
theorem bytes_layout_len_exact (b : List Nat) (n : Nat)
    (h : (aReprLayout .single b).len = some n) :
    (PV.utf8Encode (bytesRepr b)).length = n + 3 ∧ ∀ x ∈ bytesRepr b, x < 128 := by
  have hl := aReprLayout_spec .single b
  have hascii : ∀ x ∈ bytesRepr b, x < 128 := by
    intro x hx
    rw [bytesRepr, bytesReprPref, aWrite, aBody_eq_slow b _ (fun n h => (hl n h).2)] at hx
    simp only [List.cons_append, List.mem_cons, List.mem_append, List.not_mem_nil, or_false] at hx
    have hq : (aReprLayout .single b).quote.toChar < 128 := by
      cases (aReprLayout .single b).quote <;> simp [Quote.toChar]
    rcases hx with rfl | rfl | hx | rfl
    · omega
    · exact hq
    · exact aBodySlow_ascii _ b x hx
    · exact hq
  refine ⟨?_, hascii⟩
  rw [utf8Encode_length, utf8LenList_ascii _ hascii, bytesRepr, bytesReprPref, aWrite,
    aBody_eq_slow b _ (fun n h => (hl n h).2)]
  simp only [List.cons_append, List.length_cons, List.length_append, List.length_nil, ← (hl n h).2]

/-! ### the fast path -/

/-- When `changed()` is false the source is copied verbatim; this is sound: the slow path would
    have produced the same text, and no character of the source needs escaping (each is what
    CPython's repr leaves as it is inside the chosen quotes). -/
theorem fast_path_sound (p : Nat → Bool) (s : List Nat)
    (h : uChanged s (uReprLayout p .single s) = false) :
    uBody p s (uReprLayout p .single s) = s ∧
    uBodySlow p (uReprLayout p .single s).quote s = s ∧
    ∀ c ∈ s, plain p (uReprLayout p .single s).quote.toChar c := by
  have hlen : (uReprLayout p .single s).len = some (utf8LenList s) := by simpa [uChanged] using h
  have h2 := (uReprLayout_spec p .single s _ hlen).2
  have h3 := uBodySlow_eq_of_len p _ s h2.symm
  refine ⟨by simp [uBody, h], h3.1, ?_⟩
  intro c hc
  unfold plain
  rw [← uWriteChar_eq_py]
  exact h3.2 c hc

/-- conversely the slow path is only taken when something does need escaping -/
theorem fast_path_complete (p : Nat → Bool) (s : List Nat) (n : Nat)
    (h : (uReprLayout p .single s).len = some n)
    (hplain : ∀ c ∈ s, plain p (uReprLayout p .single s).quote.toChar c) :
    uChanged s (uReprLayout p .single s) = false := by
  have h2 := (uReprLayout_spec p .single s n h).2
  have : uBodySlow p (uReprLayout p .single s).quote s = s := by
    rw [uBodySlow_eq_flatMap]
    exact flatMap_plain p _ s hplain
  rw [this] at h2
  simp [uChanged, h, h2]

/-- bytes: the fast path (`from_utf8_unchecked`) is only taken for printable ASCII without
    backslash and without the chosen quote — which is also what makes the `unsafe` sound. -/
theorem bytes_fast_path_sound (b : List Nat) (h : aChanged b (aReprLayout .single b) = false) :
    aBody b (aReprLayout .single b) = b ∧
    aBodySlow (aReprLayout .single b).quote b = b ∧
    ∀ c ∈ b, 0x20 ≤ c ∧ c ≤ 0x7e ∧ c ≠ 92 ∧ c ≠ (aReprLayout .single b).quote.toChar := by
  have hlen : (aReprLayout .single b).len = some b.length := by simpa [aChanged] using h
  have h2 := (aReprLayout_spec .single b _ hlen).2
  have h3 := aBodySlow_eq_of_len _ b h2.symm
  exact ⟨by simp [aBody, h], h3.1, h3.2⟩

example : uChanged [104, 39, 0xe9] (uReprLayout (fun c => c == 0xe9) .single [104, 39, 0xe9]) = false := by
  decide
example : uChanged [104, 39, 34] (uReprLayout (fun _ => true) .single [104, 39, 34]) = true := by decide

/-! ### identical to CPython's repr -/

/-- If the printability function agrees with Python's on the non-ASCII characters of `s`, the
    produced text is exactly `repr(s)`. -/
theorem repr_eq_py (p py : Nat → Bool) (s : List Nat) (n : Nat)
    (h : (uReprLayout p .single s).len = some n)
    (hp : ∀ c ∈ s, 128 ≤ c → p c = py c) :
    strRepr p s = pyRepr py s := by
  have hl := uReprLayout_spec p .single s
  have hq := (quote_rule p s n h).1
  rw [strRepr, strReprPref, uWrite, uBody_eq_slow p s _ (fun n h => (hl n h).2),
    uBodySlow_eq_flatMap, hq, pyRepr]
  congr 2
  exact flatMap_congr' s (fun c hc => pyEscapeChar_congr p py _ c (hp c hc))

/-- Byte strings: identical to `repr(b)` unconditionally. -/
theorem bytes_repr_eq_py (b : List Nat) (n : Nat) (hb : ValidBytes b)
    (h : (aReprLayout .single b).len = some n) :
    bytesRepr b = pyBytesRepr b := by
  have hl := aReprLayout_spec .single b
  have hq := (bytes_quote_rule b n h).1
  rw [bytesRepr, bytesReprPref, aWrite, aBody_eq_slow b _ (fun n h => (hl n h).2),
    aBodySlow_eq_flatMap _ b hb, hq, pyBytesRepr]

example : pyRepr (fun c => c == 0xe9) [39, 0xe9, 0xa0] = [34, 39, 0xe9, 92, 120, 97, 48, 34] := by
  decide

/-! ### `to_string` / `Constant` display -/

/-- `StrRepr::to_string` returns the written text whenever the layout has a length -/
theorem toString_eq (p : Nat → Bool) (s : List Nat) (n : Nat)
    (h : (uReprLayout p .single s).len = some n) : strReprToString p s = some (strRepr p s) := by
  simp [strReprToString, h]

/-- `Constant::Bytes` display (`to_string().unwrap()`) does not panic whenever the layout has a
    length, which `bytes_layout_some` guarantees for every byte string that fits in memory. -/
theorem bytes_toString_eq (b : List Nat) (n : Nat)
    (h : (aReprLayout .single b).len = some n) : bytesReprToString b = some (bytesRepr b) := by
  simp [bytesReprToString, h]

/-! ### `AsciiEscape::named_repr_layout` / `AsciiEscape::new` -/

/-- `AsciiEscape::named_repr_layout(b, name)` (the layout for `name(b'...')`, e.g. `bytearray(b'..')`):
    whenever it announces a length it is the very layout of `repr_layout` — same quote, same
    body length — and the whole text `name` + `(` + bytes repr + `)` fits `isize`; conversely it
    announces that length whenever the whole text fits.  So `len = None` exactly when the text to
    be produced is longer than `isize::MAX`. -/
theorem named_layout_spec (nameLen : Nat) (b : List Nat) :
    (∀ n, (aNamedReprLayout nameLen b).len = some n →
      aNamedReprLayout nameLen b = aReprLayout .single b ∧ nameLen + 2 + (n + 3) ≤ isizeMax) ∧
    (∀ n, (aReprLayout .single b).len = some n → nameLen + 2 + (n + 3) ≤ isizeMax →
      aNamedReprLayout nameLen b = aReprLayout .single b) := by
  constructor
  · intro n h
    have e : nameLen + 2 + 3 = 3 + (nameLen + 2) := by omega
    unfold aNamedReprLayout at h ⊢
    rw [e] at h ⊢
    have h1 := layoutGo_shift_down aEscapedCharLen .single 3 (nameLen + 2) b 3 0 0 n (by omega) h
    have h2 := layoutGo_bound aEscapedCharLen .single (3 + (nameLen + 2)) b _ 0 0 n (by omega) h
    exact ⟨by unfold aReprLayout; exact h1.symm, by omega⟩
  · intro n h hfit
    have e : nameLen + 2 + 3 = 3 + (nameLen + 2) := by omega
    unfold aNamedReprLayout
    rw [e]
    unfold aReprLayout at h ⊢
    exact layoutGo_shift_up aEscapedCharLen .single 3 (nameLen + 2) b 3 0 0 n (by omega) h (by omega)

/-- the bytes repr written with the named layout (`AsciiEscape::new(b, named_repr_layout(b, name))`)
    is always a bytes literal that decodes to `b` — also in the overflow exit — and when a length
    is announced it is the text of `new_repr` with exactly that many body characters. -/
theorem named_repr_decodes (nameLen : Nat) (b : List Nat) (hb : ValidBytes b) :
    pyLiteralDecode (bytesReprNamed nameLen b) = some (.bytes b) ∧
    (∀ n, (aNamedReprLayout nameLen b).len = some n →
      bytesReprNamed nameLen b = bytesRepr b ∧ (bytesReprNamed nameLen b).length = n + 3) := by
  have hs := named_layout_spec nameLen b
  constructor
  · apply aWrite_decodes b _ _ hb
    intro n h
    obtain ⟨h1, _⟩ := hs.1 n h
    rw [h1] at h ⊢
    exact (aReprLayout_spec .single b n h).2
  · intro n h
    obtain ⟨h1, _⟩ := hs.1 n h
    have hn : (aReprLayout .single b).len = some n := by rw [← h1]; exact h
    have hl := bytes_layout_len_exact b n hn
    refine ⟨by simp [bytesReprNamed, bytesReprNew, bytesRepr, bytesReprPref, h1], ?_⟩
    have : bytesReprNamed nameLen b = bytesRepr b := by simp [bytesReprNamed, bytesReprNew, bytesRepr, bytesReprPref, h1]
    rw [this, ← utf8LenList_ascii _ hl.2, ← utf8Encode_length]
    exact hl.1

example : aNamedReprLayout 9 [39, 0, 97] = ⟨.double, some 6⟩ := by decide
example : (aNamedReprLayout (isizeMax - 5 - 5) [39, 0, 97]).len = none := by decide
example : (aNamedReprLayout (isizeMax - 5 - 6) [39, 0, 97]).len = some 6 := by decide

end PV.C16
