/-
  C16 — executable model of the repr helpers in
    literal/src/escape.rs   (Quote, EscapeLayout, Escape::{changed, write_body},
                             choose_quote, UnicodeEscape, AsciiEscape, StrRepr, BytesRepr)
  as used by `impl Display for Constant` in ast/src/builtin.rs.

  * A text (`&str`) is the list of its Unicode scalar values (`List Nat`), because the Rust code
    iterates `source.chars()`; the only place where bytes matter is `source_len()` (`str::len`,
    the UTF-8 length), modelled by `utf8Len`.
  * A byte string (`&[u8]`) is a `List Nat` with every element < 256.
  * Output (what is pushed into the `fmt::Write`) is again a list of scalar values.
  * `crate::char::is_printable` (a Unicode table lookup) is the PARAMETER `p : Nat → Bool`.
    Both `escaped_char_len` and `write_char` consult it only for non-ASCII characters.
  * `usize`/`isize` arithmetic: `length_add` is `(a as isize).checked_add(b as isize)`; the model
    returns `none` when the sum exceeds `isize::MAX` (64-bit target).

  Core Lean only.
-/
namespace PV.C16

/-! ## Quote, layout, choose_quote -/

inductive Quote where
  | single
  | double
deriving DecidableEq, Repr

/-- `Quote::swap` -/
def Quote.swap : Quote → Quote
  | .single => .double
  | .double => .single

/-- `Quote::to_char` / `Quote::to_byte` : `'` = 39, `"` = 34 -/
def Quote.toChar : Quote → Nat
  | .single => 39
  | .double => 34

/-- `EscapeLayout` -/
structure Layout where
  quote : Quote
  len : Option Nat
deriving DecidableEq, Repr

/-- `choose_quote(single_count, double_count, preferred_quote)` →
    (outer quote, number of inner quotes that will need a backslash) -/
def chooseQuote (singleCount doubleCount : Nat) (preferred : Quote) : Quote × Nat :=
  let (primary, secondary) :=
    match preferred with
    | .single => (singleCount, doubleCount)
    | .double => (doubleCount, singleCount)
  -- always use primary unless we have primary but no secondary
  let useSecondary := decide (primary > 0) && decide (secondary = 0)
  if useSecondary then (preferred.swap, secondary) else (preferred, primary)

/-- `isize::MAX` on the 64-bit target the harness is built for -/
def isizeMax : Nat := 9223372036854775807

/-- the closure `|a, b| Some((a as isize).checked_add(b as isize)? as usize)` -/
def lengthAdd (a b : Nat) : Option Nat :=
  if a + b ≤ isizeMax then some (a + b) else none

/-- `char::len_utf8` -/
def utf8Len (c : Nat) : Nat :=
  if c < 0x80 then 1 else if c < 0x800 then 2 else if c < 0x10000 then 3 else 4

/-- `str::len` of a text -/
def utf8LenList : List Nat → Nat
  | [] => 0
  | c :: cs => utf8Len c + utf8LenList cs

/-! ## hexadecimal formatting (`{:02x}`, `{:04x}`, `{:08x}`) -/

/-- one lower-case hexadecimal digit as a character code -/
def hexDigit (d : Nat) : Nat := if d < 10 then 48 + d else 87 + d

/-- The `w` least significant hexadecimal digits of `n`, most significant first.  This is the
    output of `{:0wx}` whenever `n < 16^w`, which the guard of every call site establishes
    (`\x` only below 0x100, `\u` only below 0x10000, `\U` for the remaining scalar values). -/
def hexPad : Nat → Nat → List Nat
  | 0, _ => []
  | w + 1, n => hexPad w (n / 16) ++ [hexDigit (n % 16)]

/-! ## UnicodeEscape -/

/-- `UnicodeEscape::escaped_char_len` -/
def uEscapedCharLen (p : Nat → Bool) (c : Nat) : Nat :=
  if c = 92 ∨ c = 9 ∨ c = 13 ∨ c = 10 then 2          -- '\\' | '\t' | '\r' | '\n'
  else if c < 32 ∨ c = 127 then 4                      -- \xHH
  else if c < 128 then 1                               -- is_ascii
  else if p c then utf8Len c                           -- is_printable → len_utf8
  else if c < 0x100 then 4                             -- \xHH
  else if c < 0x10000 then 6                           -- \uHHHH
  else 10                                              -- \UHHHHHHHH

/-- `UnicodeEscape::write_char` -/
def uWriteChar (p : Nat → Bool) (c : Nat) (q : Quote) : List Nat :=
  if c = 10 then [92, 110]                             -- "\\n"
  else if c = 9 then [92, 116]                         -- "\\t"
  else if c = 13 then [92, 114]                        -- "\\r"
  else if 0x20 ≤ c ∧ c ≤ 0x7e then                     -- printable ascii range
    if c = q.toChar ∨ c = 92 then [92, c] else [c]
  else if c < 128 then 92 :: 120 :: hexPad 2 c         -- is_ascii → \x{:02x}
  else if p c then [c]                                 -- is_printable
  else if c ≤ 0xff then 92 :: 120 :: hexPad 2 c        -- \x{:02x}
  else if c ≤ 0xffff then 92 :: 117 :: hexPad 4 c      -- \u{:04x}
  else 92 :: 85 :: hexPad 8 c                          -- \U{:08x}

/-- The `for ch in source.chars()` loop of `output_layout_with_checker`; the state is
    `(out_len, single_count, double_count)`. `reserved` is `REPR_RESERVED_LEN` (2 for text,
    3 for bytes) and `charLen` the per-character length function. -/
def layoutGo (charLen : Nat → Nat) (preferred : Quote) (reserved : Nat) :
    List Nat → Nat → Nat → Nat → Layout
  | [], outLen, sc, dc =>
    let (quote, numEscaped) := chooseQuote sc dc preferred
    -- we'll be adding backslashes in front of the existing inner quotes
    match lengthAdd outLen numEscaped with
    | none => { quote, len := none }
    | some outLen => { quote, len := some (outLen - reserved) }
  | c :: rest, outLen, sc, dc =>
    let sc' := if c = 39 then sc + 1 else sc
    let dc' := if c = 34 then dc + 1 else dc
    let incr := if c = 39 ∨ c = 34 then 1 else charLen c
    match lengthAdd outLen incr with
    | none => { quote := (chooseQuote sc' dc' preferred).1, len := none }      -- `stop`
    | some outLen => layoutGo charLen preferred reserved rest outLen sc' dc'

/-- `UnicodeEscape::repr_layout(source, preferred_quote)` -/
def uReprLayout (p : Nat → Bool) (preferred : Quote) (s : List Nat) : Layout :=
  layoutGo (uEscapedCharLen p) preferred 2 s 2 0 0

/-- `Escape::changed` for a `UnicodeEscape { source, layout }` -/
def uChanged (s : List Nat) (l : Layout) : Bool :=
  l.len != some (utf8LenList s)

/-- `write_body_slow` -/
def uBodySlow (p : Nat → Bool) (q : Quote) : List Nat → List Nat
  | [] => []
  | c :: cs => uWriteChar p c q ++ uBodySlow p q cs

/-- `Escape::write_body`: the fast path copies the source unchanged -/
def uBody (p : Nat → Bool) (s : List Nat) (l : Layout) : List Nat :=
  if uChanged s l then uBodySlow p l.quote s else s

/-- `StrRepr::write` for a `UnicodeEscape { source, layout }` -/
def uWrite (p : Nat → Bool) (s : List Nat) (l : Layout) : List Nat :=
  l.quote.toChar :: uBody p s l ++ [l.quote.toChar]

/-- `UnicodeEscape::with_preferred_quote(s, q).str_repr()` written out -/
def strReprPref (p : Nat → Bool) (preferred : Quote) (s : List Nat) : List Nat :=
  uWrite p s (uReprLayout p preferred s)

/-- `UnicodeEscape::with_forced_quote(s, q).str_repr()` written out -/
def strReprForced (p : Nat → Bool) (q : Quote) (s : List Nat) : List Nat :=
  uWrite p s { quote := q, len := none }

/-- `UnicodeEscape::new_repr(s).str_repr()` written out — what `Constant::Str` displays -/
def strRepr (p : Nat → Bool) (s : List Nat) : List Nat := strReprPref p .single s

/-- `StrRepr::to_string`: `None` when the layout has no length -/
def strReprToString (p : Nat → Bool) (s : List Nat) : Option (List Nat) :=
  match (uReprLayout p .single s).len with
  | none => none
  | some _ => some (strRepr p s)

/-! ## AsciiEscape -/

/-- `AsciiEscape::escaped_char_len` -/
def aEscapedCharLen (c : Nat) : Nat :=
  if c = 92 ∨ c = 9 ∨ c = 13 ∨ c = 10 then 2
  else if 0x20 ≤ c ∧ c ≤ 0x7e then 1
  else 4

/-- `AsciiEscape::write_char` -/
def aWriteChar (c : Nat) (q : Quote) : List Nat :=
  if c = 9 then [92, 116]
  else if c = 10 then [92, 110]
  else if c = 13 then [92, 114]
  else if 0x20 ≤ c ∧ c ≤ 0x7e then
    if c = q.toChar ∨ c = 92 then [92, c] else [c]
  else 92 :: 120 :: hexPad 2 c

/-- `AsciiEscape::repr_layout(source, preferred_quote)` (reserved length 3: `b` and two quotes) -/
def aReprLayout (preferred : Quote) (b : List Nat) : Layout :=
  layoutGo aEscapedCharLen preferred 3 b 3 0 0

/-- `Escape::changed` for an `AsciiEscape` (`source_len` is the number of bytes) -/
def aChanged (b : List Nat) (l : Layout) : Bool :=
  l.len != some b.length

def aBodySlow (q : Quote) : List Nat → List Nat
  | [] => []
  | c :: cs => aWriteChar c q ++ aBodySlow q cs

/-- `write_body`; the fast path is `from_utf8_unchecked(source)`, i.e. every byte becomes the
    character with the same code (sound only for ASCII, see `bytes_fast_path_sound`). -/
def aBody (b : List Nat) (l : Layout) : List Nat :=
  if aChanged b l then aBodySlow l.quote b else b

/-- `BytesRepr::write` -/
def aWrite (b : List Nat) (l : Layout) : List Nat :=
  98 :: l.quote.toChar :: aBody b l ++ [l.quote.toChar]

def bytesReprPref (preferred : Quote) (b : List Nat) : List Nat :=
  aWrite b (aReprLayout preferred b)

def bytesReprForced (q : Quote) (b : List Nat) : List Nat :=
  aWrite b { quote := q, len := none }

/-- `AsciiEscape::new_repr(b).bytes_repr()` written out -/
def bytesRepr (b : List Nat) : List Nat := bytesReprPref .single b

/-- `BytesRepr::to_string()`; `Constant::Bytes` displays `…to_string().unwrap()`, so `none` here
    is a panic there. -/
def bytesReprToString (b : List Nat) : Option (List Nat) :=
  match (aReprLayout .single b).len with
  | none => none
  | some _ => some (bytesRepr b)

/-! ## `AsciiEscape::new`, `named_repr_layout`, `Display` -/

/-- `AsciiEscape::named_repr_layout(source, name)`: the same loop as `repr_layout` with
    `reserved_len = name.len() + 2 + 3` (`name`, the two parentheses, `b` and the two quotes) and
    preferred quote `Single`.  `nameLen` is `name.len()`.  (For `name.len() + 5 > isize::MAX` the
    cast `a as isize` of the real closure wraps; no `&str` of that length exists, the model and the
    streams stay below.) -/
def aNamedReprLayout (nameLen : Nat) (b : List Nat) : Layout :=
  layoutGo aEscapedCharLen .single (nameLen + 2 + 3) b (nameLen + 2 + 3) 0 0

/-- `AsciiEscape::new(source, layout).bytes_repr()` written out: `new` stores the two fields -/
def bytesReprNew (b : List Nat) (l : Layout) : List Nat := aWrite b l

/-- `AsciiEscape::new(b, AsciiEscape::named_repr_layout(b, name)).bytes_repr()` written out -/
def bytesReprNamed (nameLen : Nat) (b : List Nat) : List Nat :=
  bytesReprNew b (aNamedReprLayout nameLen b)

/-- `impl Display for StrRepr`: `fmt` is `self.write(formatter)` -/
def strReprFmt (p : Nat → Bool) (s : List Nat) (l : Layout) : List Nat := uWrite p s l

/-- `impl Display for BytesRepr`: `fmt` is `self.write(formatter)` -/
def bytesReprFmt (b : List Nat) (l : Layout) : List Nat := aWrite b l

end PV.C16
