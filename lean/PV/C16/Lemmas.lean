import PV.C16.Model
import PV.C16.Spec
import PV.Common.Proto
/-! C16 — helper lemmas (per-character facts, the layout loop, hexadecimal digits). -/
namespace PV.C16
open Spec

/-! ### hexadecimal digits -/


theorem hexValue_hexDigit (d : Nat) (h : d < 16) : hexValue (hexDigit d) = some d := by
  unfold hexValue hexDigit
  split <;> (split <;> try split) <;> first | omega | (congr 1; omega) | (split <;> first | omega | (congr 1; omega))

theorem takeHex_hexPad (w : Nat) : ∀ (k acc n : Nat) (rest : List Nat), n < 16 ^ w →
    takeHex (w + k) acc (hexPad w n ++ rest) = takeHex k (acc * 16 ^ w + n) rest := by
  induction w with
  | zero => intro k acc n rest h; simp at h; subst h; simp [hexPad]
  | succ w ih =>
    intro k acc n rest h
    have h1 : n / 16 < 16 ^ w := by
      rw [Nat.pow_succ] at h; omega
    have := ih (k + 1) acc (n / 16) (hexDigit (n % 16) :: rest) h1
    simp only [hexPad, List.append_assoc, List.singleton_append]
    rw [show w + 1 + k = w + (k + 1) by omega, this]
    simp only [takeHex, hexValue_hexDigit (n % 16) (by omega)]
    congr 1
    rw [Nat.pow_succ, Nat.mul_add, ← Nat.mul_assoc, Nat.mul_comm 16 acc, Nat.mul_assoc acc]
    rw [Nat.mul_comm 16 (16 ^ w)]
    omega

theorem takeHex_hexPad' (w n : Nat) (rest : List Nat) (h : n < 16 ^ w) :
    takeHex w 0 (hexPad w n ++ rest) = some (n, rest) := by
  have := takeHex_hexPad w 0 0 n rest h
  simpa [takeHex] using this

theorem esc_x (b : Bool) (c : Nat) (rest : List Nat) (h : c < 256) :
    escStep b (120 :: (hexPad 2 c ++ rest)) = .emit c rest := by
  simp [escStep, takeHex_hexPad' 2 c rest (by simpa using h)]

theorem esc_u (c : Nat) (rest : List Nat) (h : c < 65536) :
    escStep false (117 :: (hexPad 4 c ++ rest)) = .emit c rest := by
  simp [escStep, takeHex_hexPad' 4 c rest (by simpa using h)]

theorem esc_U (c : Nat) (rest : List Nat) (h : c < 0x110000) :
    escStep false (85 :: (hexPad 8 c ++ rest)) = .emit c rest := by
  simp [escStep, takeHex_hexPad' 8 c rest (by simp; omega), h]

theorem decodeGo_uWriteChar (p : Nat → Bool) (c : Nat) (q : Quote) (rest : List Nat) (fuel : Nat)
    (hc : c < 0x110000) :
    decodeGo false q.toChar (fuel + 1) (uWriteChar p c q ++ rest)
      = (decodeGo false q.toChar fuel rest).map (c :: ·) := by
  unfold uWriteChar
  split
  · subst_vars; simp [decodeGo, step, escStep]
  split
  · subst_vars; simp [decodeGo, step, escStep]
  split
  · subst_vars; simp [decodeGo, step, escStep]
  split
  · split
    · rename_i h1 h2
      rcases h2 with h2 | h2
      · cases q <;> simp [Quote.toChar] at h2 <;> subst h2 <;> simp [decodeGo, step, escStep, Quote.toChar]
      · subst h2; simp [decodeGo, step, escStep]
    · rename_i h1 h2
      have : c ≠ q.toChar := fun h => h2 (Or.inl h)
      have : c ≠ 92 := fun h => h2 (Or.inr h)
      have : c ≠ 0 := by omega
      have : ¬ 1114112 ≤ c := by omega
      simp [decodeGo, step, *]
  split
  · simp only [List.cons_append, decodeGo, step, if_true]
    rw [esc_x false c rest (by omega)]
  split
  · have : c ≠ q.toChar := by cases q <;> simp [Quote.toChar] <;> omega
    have : c ≠ 92 := by omega
    have : c ≠ 0 := by omega
    have : ¬ 1114112 ≤ c := by omega
    simp [decodeGo, step, *]
  split
  · simp only [List.cons_append, decodeGo, step, if_true]
    rw [esc_x false c rest (by omega)]
  split
  · simp only [List.cons_append, decodeGo, step, if_true]
    rw [esc_u c rest (by omega)]
  · simp only [List.cons_append, decodeGo, step, if_true]
    rw [esc_U c rest hc]

/-! ### the layout loop -/


/-- per-character length contribution seen by the layout pass -/
def sumLen (cl : Nat → Nat) : List Nat → Nat
  | [] => 0
  | c :: cs => (if c = 39 ∨ c = 34 then 1 else cl c) + sumLen cl cs

theorem lengthAdd_some {a b r : Nat} (h : lengthAdd a b = some r) : r = a + b := by
  unfold lengthAdd at h; split at h <;> simp_all

theorem chooseQuote_snd (sc dc : Nat) (pref : Quote) :
    (chooseQuote sc dc pref).2 = if (chooseQuote sc dc pref).1 = .single then sc else dc := by
  cases pref <;> simp [chooseQuote, Quote.swap] <;> split <;> simp_all

theorem chooseQuote_single (sc dc : Nat) :
    (chooseQuote sc dc .single).1 = if sc > 0 ∧ dc = 0 then .double else .single := by
  simp [chooseQuote, Quote.swap]; split <;> simp_all

theorem chooseQuote_snd_le (sc dc : Nat) (pref : Quote) : (chooseQuote sc dc pref).2 ≤ sc + dc := by
  rw [chooseQuote_snd]; split <;> omega

theorem layoutGo_spec (cl : Nat → Nat) (pref : Quote) (r : Nat) :
    ∀ (s : List Nat) (out sc dc n : Nat), (layoutGo cl pref r s out sc dc).len = some n →
      (layoutGo cl pref r s out sc dc).quote = (chooseQuote (sc + s.count 39) (dc + s.count 34) pref).1 ∧
      n = out + sumLen cl s + (chooseQuote (sc + s.count 39) (dc + s.count 34) pref).2 - r := by
  intro s
  induction s with
  | nil =>
    intro out sc dc n h
    simp only [layoutGo] at h ⊢
    split at h
    · simp at h
    · rename_i o ho
      have := lengthAdd_some ho
      simp at h
      simp [sumLen]; omega
  | cons c cs ih =>
    intro out sc dc n h
    simp only [layoutGo] at h ⊢
    split at h
    · simp at h
    · rename_i o ho
      have ho' := lengthAdd_some ho
      have := ih _ _ _ _ h
      have e1 : (if c = 39 then sc + 1 else sc) + cs.count 39 = sc + (c :: cs).count 39 := by
        rw [List.count_cons]; split <;> simp_all <;> omega
      have e2 : (if c = 34 then dc + 1 else dc) + cs.count 34 = dc + (c :: cs).count 34 := by
        rw [List.count_cons]; split <;> simp_all <;> omega
      rw [e1, e2] at this
      refine ⟨this.1, ?_⟩
      rw [this.2, ho']
      simp only [sumLen]; omega

/-! ### lengths -/



theorem utf8LenList_append (a b : List Nat) : utf8LenList (a ++ b) = utf8LenList a + utf8LenList b := by
  induction a with
  | nil => simp [utf8LenList]
  | cons x xs ih => simp [utf8LenList, ih]; omega

theorem hexDigit_ascii (d : Nat) (h : d < 16) : utf8Len (hexDigit d) = 1 := by
  unfold utf8Len hexDigit; split <;> simp <;> omega

theorem utf8LenList_hexPad (w n : Nat) : utf8LenList (hexPad w n) = w := by
  induction w generalizing n with
  | zero => simp [hexPad, utf8LenList]
  | succ w ih =>
    simp [hexPad, utf8LenList_append, ih, utf8LenList, hexDigit_ascii (n % 16) (by omega)]

theorem utf8Len_pos (c : Nat) : 1 ≤ utf8Len c := by unfold utf8Len; split <;> (try split) <;> (try split) <;> omega
theorem utf8Len_le (c : Nat) : utf8Len c ≤ 4 := by unfold utf8Len; split <;> (try split) <;> (try split) <;> omega

/-- what one character contributes to the produced body: the announced `escaped_char_len`
    (1 for a quote) plus one backslash when it is the chosen quote -/
theorem uWriteChar_len (p : Nat → Bool) (c : Nat) (q : Quote) :
    utf8LenList (uWriteChar p c q)
      = (if c = 39 ∨ c = 34 then 1 else uEscapedCharLen p c) + (if c = q.toChar then 1 else 0) := by
  have hq : q.toChar = 39 ∨ q.toChar = 34 := by cases q <;> simp [Quote.toChar]
  unfold uWriteChar uEscapedCharLen
  by_cases h10 : c = 10
  · subst h10; simp [utf8LenList, utf8Len]; omega
  by_cases h9 : c = 9
  · subst h9; simp [utf8LenList, utf8Len]; omega
  by_cases h13 : c = 13
  · subst h13; simp [utf8LenList, utf8Len]; omega
  simp only [h10, h9, h13, if_false, or_false]
  by_cases hr : 0x20 ≤ c ∧ c ≤ 0x7e
  · simp only [hr, and_self, if_true]
    by_cases h92 : c = 92
    · subst h92; simp [utf8LenList, utf8Len]; omega
    by_cases hcq : c = q.toChar
    · have : c = 39 ∨ c = 34 := by omega
      simp [hcq, utf8LenList, utf8Len]
      rcases hq with h | h <;> simp [h]
    · simp only [hcq, h92, or_self, if_false]
      have h1 : utf8Len c = 1 := by unfold utf8Len; split <;> omega
      have h2 : ¬ (c < 32 ∨ c = 127) := by omega
      have h3 : c < 128 := by omega
      simp [utf8LenList, h1, h2, h3]
  · simp only [hr, if_false]
    have hne : ¬ (c = 39 ∨ c = 34) := by omega
    have hcq : c ≠ q.toChar := by omega
    have h92 : c ≠ 92 := by omega
    simp only [hne, hcq, h92, if_false]
    by_cases h128 : c < 128
    · have : c < 32 ∨ c = 127 := by omega
      simp [h128, this, utf8LenList, utf8Len, utf8LenList_hexPad]
    · have : ¬ (c < 32 ∨ c = 127) := by omega
      simp only [h128, this, if_false]
      by_cases hp : p c = true
      · simp [hp, utf8LenList]
      · simp only [hp]
        by_cases h1 : c ≤ 0xff
        · have : c < 0x100 := by omega
          simp [h1, this, utf8LenList, utf8Len, utf8LenList_hexPad]
        · have h1' : ¬ c < 0x100 := by omega
          by_cases h2 : c ≤ 0xffff
          · have : c < 0x10000 := by omega
            simp [h1, h1', h2, this, utf8LenList, utf8Len, utf8LenList_hexPad]
          · have : ¬ c < 0x10000 := by omega
            simp [h1, h1', h2, this, utf8LenList, utf8Len, utf8LenList_hexPad]

theorem uBodySlow_len (p : Nat → Bool) (q : Quote) (s : List Nat) :
    utf8LenList (uBodySlow p q s) = sumLen (uEscapedCharLen p) s + s.count q.toChar := by
  induction s with
  | nil => simp [uBodySlow, utf8LenList, sumLen]
  | cons c cs ih =>
    simp only [uBodySlow, utf8LenList_append, uWriteChar_len, ih, sumLen, List.count_cons]
    by_cases h : c = q.toChar <;> simp [h] <;> omega



theorem l92 : utf8Len 92 = 1 := rfl
theorem l120 : utf8Len 120 = 1 := rfl
theorem l117 : utf8Len 117 = 1 := rfl
theorem l85 : utf8Len 85 = 1 := rfl
theorem l110 : utf8Len 110 = 1 := rfl
theorem l116 : utf8Len 116 = 1 := rfl
theorem l114 : utf8Len 114 = 1 := rfl

/-- the writer never shrinks a character, and keeps its UTF-8 size only by copying it -/
theorem uWriteChar_ge (p : Nat → Bool) (c : Nat) (q : Quote) :
    utf8Len c ≤ utf8LenList (uWriteChar p c q) ∧
    (utf8LenList (uWriteChar p c q) = utf8Len c → uWriteChar p c q = [c]) := by
  have hle : utf8Len c ≤ 4 := by unfold utf8Len; split <;> (try split) <;> (try split) <;> omega
  unfold uWriteChar
  split
  · subst_vars; simp [utf8LenList, utf8Len]
  split
  · subst_vars; simp [utf8LenList, utf8Len]
  split
  · subst_vars; simp [utf8LenList, utf8Len]
  split
  · have h1 : utf8Len c = 1 := by unfold utf8Len; split <;> omega
    split
    · simp [utf8LenList, h1, l92]
    · simp [utf8LenList, h1]
  split
  · have h1 : utf8Len c = 1 := by unfold utf8Len; split <;> omega
    simp [utf8LenList, h1, l92, l120, utf8LenList_hexPad]
  split
  · simp [utf8LenList]
  split
  · have h1 : utf8Len c = 2 := by unfold utf8Len; split <;> (try split) <;> omega
    simp [utf8LenList, h1, l92, l120, utf8LenList_hexPad]
  split
  · have h1 : utf8Len c ≤ 3 := by unfold utf8Len; split <;> (try split) <;> (try split) <;> omega
    simp [utf8LenList, l92, l117, utf8LenList_hexPad]; omega
  · simp [utf8LenList, l92, l85, utf8LenList_hexPad]; omega


theorem uBodySlow_ge (p : Nat → Bool) (q : Quote) (s : List Nat) :
    utf8LenList s ≤ utf8LenList (uBodySlow p q s) := by
  induction s with
  | nil => simp [uBodySlow]
  | cons c cs ih =>
    have := (uWriteChar_ge p c q).1
    simp only [uBodySlow, utf8LenList, utf8LenList_append]; omega

theorem uBodySlow_eq_of_len (p : Nat → Bool) (q : Quote) (s : List Nat)
    (h : utf8LenList (uBodySlow p q s) = utf8LenList s) :
    uBodySlow p q s = s ∧ ∀ c ∈ s, uWriteChar p c q = [c] := by
  induction s with
  | nil => simp [uBodySlow]
  | cons c cs ih =>
    have h1 := uWriteChar_ge p c q
    have h2 := uBodySlow_ge p q cs
    simp only [uBodySlow, utf8LenList, utf8LenList_append] at h
    have hc := h1.2 (by omega)
    have := ih (by omega)
    simp only [uBodySlow, hc, this.1, List.singleton_append, true_and]
    intro x hx
    rcases List.mem_cons.mp hx with rfl | hx
    · exact hc
    · exact this.2 x hx

/-! ### writer = CPython's escape -/


theorem hexDigit_eq (d : Nat) (h : d < 16) : hexDigit d = hexChars.getD d 0 := by
  have : ∀ d : Fin 16, hexDigit d.1 = hexChars.getD d.1 0 := by decide
  exact this ⟨d, h⟩

theorem hexFixed_succ (w n : Nat) :
    hexFixed (w + 1) n = hexFixed w (n / 16) ++ [hexChars.getD (n % 16) 0] := by
  unfold hexFixed
  rw [List.range_succ_eq_map, List.reverse_cons, List.map_append, ← List.map_reverse, List.map_map]
  congr 1
  · apply List.map_congr_left
    intro i _
    simp only [Function.comp]
    rw [Nat.pow_succ, Nat.mul_comm, Nat.div_div_eq_div_mul]
  · simp

theorem hexPad_eq_hexFixed (w n : Nat) : hexPad w n = hexFixed w n := by
  induction w generalizing n with
  | zero => simp [hexPad, hexFixed]
  | succ w ih => rw [hexPad, hexFixed_succ, ih, hexDigit_eq _ (by omega)]

/-- the writer is CPython's `unicode_repr` character for character -/
theorem uWriteChar_eq_py (p : Nat → Bool) (c : Nat) (q : Quote) :
    uWriteChar p c q = pyEscapeChar p q.toChar c := by
  have hq : q.toChar = 39 ∨ q.toChar = 34 := by cases q <;> simp [Quote.toChar]
  unfold uWriteChar pyEscapeChar
  simp only [hexPad_eq_hexFixed]
  split
  · subst_vars; rcases hq with h | h <;> simp [h]
  split
  · subst_vars; rcases hq with h | h <;> simp [h]
  split
  · subst_vars; rcases hq with h | h <;> simp [h]
  split
  · split
    · simp [*]
    · rename_i h1 h2
      have : ¬ (c < 32 ∨ c = 127) := by omega
      have : c < 127 := by omega
      simp [*]
  · have : c ≠ q.toChar := by omega
    have : c ≠ 92 := by omega
    split
    · have : c < 32 ∨ c = 127 := by omega
      simp [*]
    · have : ¬ (c < 32 ∨ c = 127) := by omega
      have : ¬ c < 127 := by omega
      simp [*]

theorem uBodySlow_eq_flatMap (p : Nat → Bool) (q : Quote) (s : List Nat) :
    uBodySlow p q s = s.flatMap (pyEscapeChar p q.toChar) := by
  induction s with
  | nil => simp [uBodySlow]
  | cons c cs ih => simp [uBodySlow, ih, uWriteChar_eq_py]

theorem pyEscapeChar_congr (p p' : Nat → Bool) (q c : Nat) (h : 128 ≤ c → p c = p' c) :
    pyEscapeChar p q c = pyEscapeChar p' q c := by
  unfold pyEscapeChar
  by_cases h128 : 128 ≤ c
  · rw [h h128]
  · have : c < 32 ∨ c = 127 ∨ c < 127 := by omega
    rcases this with h1 | h1 | h1 <;> simp [h1]

/-! ### bytes -/


theorem decodeGo_aWriteChar (c : Nat) (q : Quote) (rest : List Nat) (fuel : Nat) (hc : c < 256) :
    decodeGo true q.toChar (fuel + 1) (aWriteChar c q ++ rest)
      = (decodeGo true q.toChar fuel rest).map (c :: ·) := by
  unfold aWriteChar
  split
  · subst_vars; simp [decodeGo, step, escStep]
  split
  · subst_vars; simp [decodeGo, step, escStep]
  split
  · subst_vars; simp [decodeGo, step, escStep]
  split
  · split
    · rename_i h1 h2
      rcases h2 with h2 | h2
      · cases q <;> simp [Quote.toChar] at h2 <;> subst h2 <;> simp [decodeGo, step, escStep, Quote.toChar]
      · subst h2; simp [decodeGo, step, escStep]
    · rename_i h1 h2
      have : c ≠ q.toChar := fun h => h2 (Or.inl h)
      have : c ≠ 92 := fun h => h2 (Or.inr h)
      have : c ≠ 0 := by omega
      have : ¬ 1114112 ≤ c := by omega
      have : ¬ 128 ≤ c := by omega
      simp [decodeGo, step, *]
  · simp only [List.cons_append, decodeGo, step, if_true]
    rw [esc_x true c rest hc]

theorem aWriteChar_eq_py (c : Nat) (q : Quote) (hc : c < 256) :
    aWriteChar c q = pyBytesEscape q.toChar c := by
  have hq : q.toChar = 39 ∨ q.toChar = 34 := by cases q <;> simp [Quote.toChar]
  unfold aWriteChar pyBytesEscape
  simp only [hexPad_eq_hexFixed]
  split
  · subst_vars; rcases hq with h | h <;> simp [h]
  split
  · subst_vars; rcases hq with h | h <;> simp [h]
  split
  · subst_vars; rcases hq with h | h <;> simp [h]
  split
  · split
    · simp [*]
    · rename_i h1 h2
      have : ¬ (c < 32 ∨ c ≥ 127) := by omega
      simp [*]
  · have : c ≠ q.toChar := by omega
    have : c ≠ 92 := by omega
    have : c < 32 ∨ c ≥ 127 := by omega
    simp [*]

/-- bytes: every written character is ASCII, so the number of characters is the UTF-8 length -/
theorem aWriteChar_len (c : Nat) (q : Quote) :
    (aWriteChar c q).length
      = (if c = 39 ∨ c = 34 then 1 else aEscapedCharLen c) + (if c = q.toChar then 1 else 0) := by
  have hq : q.toChar = 39 ∨ q.toChar = 34 := by cases q <;> simp [Quote.toChar]
  have hp : ∀ n, (hexPad 2 n).length = 2 := by intro n; simp [hexPad]
  unfold aWriteChar aEscapedCharLen
  by_cases h10 : c = 10
  · subst h10; simp; omega
  by_cases h9 : c = 9
  · subst h9; simp; omega
  by_cases h13 : c = 13
  · subst h13; simp; omega
  simp only [h10, h9, h13, if_false, or_false]
  by_cases hr : 0x20 ≤ c ∧ c ≤ 0x7e
  · simp only [hr, and_self, if_true]
    by_cases h92 : c = 92
    · subst h92; simp; omega
    by_cases hcq : c = q.toChar
    · have : c = 39 ∨ c = 34 := by omega
      simp [hcq]
      rcases hq with h | h <;> simp [h]
    · simp [hcq, h92]
  · simp only [hr, if_false]
    have hne : ¬ (c = 39 ∨ c = 34) := by omega
    have hcq : c ≠ q.toChar := by omega
    have h92 : c ≠ 92 := by omega
    simp [hne, hcq, h92, hp]

theorem aWriteChar_ge (c : Nat) (q : Quote) :
    1 ≤ (aWriteChar c q).length ∧ ((aWriteChar c q).length = 1 → aWriteChar c q = [c] ∧ 0x20 ≤ c ∧ c ≤ 0x7e ∧ c ≠ 92 ∧ c ≠ q.toChar) := by
  unfold aWriteChar
  split
  · simp
  split
  · simp
  split
  · simp
  split
  · split
    · simp
    · rename_i h1 h2; simp; omega
  · simp [hexPad]

/-! ### whole strings -/


theorem uWriteChar_head (p : Nat → Bool) (c : Nat) (q : Quote) :
    ∃ x t, uWriteChar p c q = x :: t ∧ x ≠ q.toChar := by
  have hq : q.toChar = 39 ∨ q.toChar = 34 := by cases q <;> simp [Quote.toChar]
  unfold uWriteChar
  split
  · exact ⟨92, _, rfl, by omega⟩
  split
  · exact ⟨92, _, rfl, by omega⟩
  split
  · exact ⟨92, _, rfl, by omega⟩
  split
  · split
    · exact ⟨92, _, rfl, by omega⟩
    · rename_i h; exact ⟨c, _, rfl, fun e => h (Or.inl e)⟩
  split
  · exact ⟨92, _, rfl, by omega⟩
  split
  · exact ⟨c, _, rfl, by omega⟩
  split
  · exact ⟨92, _, rfl, by omega⟩
  split
  · exact ⟨92, _, rfl, by omega⟩
  · exact ⟨92, _, rfl, by omega⟩

theorem decodeGo_close (b : Bool) (q : Quote) (fuel : Nat) :
    decodeGo b q.toChar (fuel + 1) [q.toChar] = some [] := by
  cases q <;> simp [decodeGo, step, Quote.toChar]

theorem uBodySlow_length (p : Nat → Bool) (q : Quote) (s : List Nat) :
    s.length ≤ (uBodySlow p q s).length := by
  induction s with
  | nil => simp
  | cons c cs ih =>
    obtain ⟨x, t, h, _⟩ := uWriteChar_head p c q
    simp [uBodySlow, h]; omega

theorem decodeGo_uBodySlow (p : Nat → Bool) (q : Quote) :
    ∀ (s : List Nat) (fuel : Nat), (∀ c ∈ s, c < 0x110000) → s.length + 1 ≤ fuel →
      decodeGo false q.toChar fuel (uBodySlow p q s ++ [q.toChar]) = some s := by
  intro s
  induction s with
  | nil =>
    intro fuel _ hf
    obtain ⟨f, rfl⟩ : ∃ f, fuel = f + 1 := ⟨fuel - 1, by simp at hf; omega⟩
    simpa [uBodySlow] using decodeGo_close false q f
  | cons c cs ih =>
    intro fuel hs hf
    obtain ⟨f, rfl⟩ : ∃ f, fuel = f + 1 := ⟨fuel - 1, by simp at hf; omega⟩
    simp only [uBodySlow, List.append_assoc]
    rw [decodeGo_uWriteChar p c q _ f (hs c (List.mem_cons_self ..))]
    rw [ih f (fun x hx => hs x (List.mem_cons_of_mem _ hx)) (by simp at hf; omega)]
    rfl

theorem decodeQuoted_uBodySlow (p : Nat → Bool) (q : Quote) (s : List Nat)
    (hs : ∀ c ∈ s, c < 0x110000) :
    decodeQuoted false q.toChar (uBodySlow p q s ++ [q.toChar]) = some s := by
  have hgo := decodeGo_uBodySlow p q s ((uBodySlow p q s ++ [q.toChar]).length + 1) hs
    (by have := uBodySlow_length p q s; simp; omega)
  have hq : isQuote q.toChar = true := by cases q <;> simp [isQuote, Quote.toChar]
  unfold decodeQuoted
  simp only [hq, Bool.not_true, Bool.false_eq_true, if_false]
  split
  · rename_i a b t heq
    have : ¬ (a = q.toChar ∧ b = q.toChar) := by
      cases s with
      | nil => simp [uBodySlow] at heq
      | cons c cs =>
        obtain ⟨x, t', h, hx⟩ := uWriteChar_head p c q
        simp only [uBodySlow, h, List.cons_append] at heq
        injection heq with h1 _
        intro hh; exact hx (h1.trans hh.1)
    rw [if_neg this]; exact hgo
  · exact hgo


/-- the layout of `repr_layout`: announced length = UTF-8 length of the slow-path body with the
    announced quote, and the quote is `choose_quote` of the two counts -/
theorem uReprLayout_spec (p : Nat → Bool) (pref : Quote) (s : List Nat) (n : Nat)
    (h : (uReprLayout p pref s).len = some n) :
    (uReprLayout p pref s).quote = (chooseQuote (s.count 39) (s.count 34) pref).1 ∧
    n = utf8LenList (uBodySlow p (uReprLayout p pref s).quote s) := by
  have := layoutGo_spec (uEscapedCharLen p) pref 2 s 2 0 0 n h
  simp only [Nat.zero_add] at this
  unfold uReprLayout
  refine ⟨this.1, ?_⟩
  rw [uBodySlow_len, this.1, this.2, chooseQuote_snd]
  cases hq : (chooseQuote (s.count 39) (s.count 34) pref).1 <;> simp [Quote.toChar] <;> omega

/-- `write_body` always produces the slow-path text (the fast path is an optimisation) -/
theorem uBody_eq_slow (p : Nat → Bool) (s : List Nat) (l : Layout)
    (hl : ∀ n, l.len = some n → n = utf8LenList (uBodySlow p l.quote s)) :
    uBody p s l = uBodySlow p l.quote s := by
  unfold uBody
  split
  · rfl
  · rename_i h
    simp [uChanged] at h
    have := hl _ h
    exact ((uBodySlow_eq_of_len p l.quote s this.symm).1).symm

theorem pyLiteralDecode_str (q : Quote) (rest : List Nat) :
    pyLiteralDecode (q.toChar :: rest) = (decodeQuoted false q.toChar rest).map .str := by
  cases q <;> simp [pyLiteralDecode, Quote.toChar]

theorem uWrite_decodes (p : Nat → Bool) (s : List Nat) (l : Layout)
    (hl : ∀ n, l.len = some n → n = utf8LenList (uBodySlow p l.quote s))
    (hs : ∀ c ∈ s, c < 0x110000) :
    pyLiteralDecode (uWrite p s l) = some (.str s) := by
  unfold uWrite
  rw [uBody_eq_slow p s l hl, List.cons_append, pyLiteralDecode_str, decodeQuoted_uBodySlow p l.quote s hs]
  rfl

theorem utf8Encode_length (l : List Nat) : (PV.utf8Encode l).length = utf8LenList l := by
  induction l with
  | nil => simp [PV.utf8Encode, utf8LenList]
  | cons c cs ih =>
    have : (PV.utf8EncodeNat c).length = utf8Len c := by
      unfold PV.utf8EncodeNat utf8Len; split <;> (try split) <;> (try split) <;> simp
    simp only [PV.utf8Encode, List.flatMap_cons, List.length_append, utf8LenList] at ih ⊢
    omega

theorem pyQuote_eq (s : List Nat) :
    (chooseQuote (s.count 39) (s.count 34) .single).1.toChar = pyQuote s := by
  rw [chooseQuote_single]
  unfold pyQuote
  by_cases h1 : 39 ∈ s <;> by_cases h2 : 34 ∈ s <;>
    simp [h1, h2, List.count_pos_iff, List.count_eq_zero, Quote.toChar]

theorem layoutGo_some (cl : Nat → Nat) (hcl : ∀ c, cl c ≤ 10) (pref : Quote) (r : Nat) :
    ∀ (s : List Nat) (out sc dc : Nat), out + 11 * s.length + sc + dc ≤ isizeMax →
      ∃ n, (layoutGo cl pref r s out sc dc).len = some n := by
  intro s
  induction s with
  | nil =>
    intro out sc dc h
    have := chooseQuote_snd_le sc dc pref
    simp only [layoutGo, lengthAdd]
    rw [if_pos (by simp at h; omega)]
    exact ⟨_, rfl⟩
  | cons c cs ih =>
    intro out sc dc h
    have := hcl c
    simp only [layoutGo, lengthAdd]
    simp only [List.length_cons] at h
    rw [if_pos (by split <;> omega)]
    apply ih
    split <;> split <;> split <;> omega

/-! ### bytes, whole strings -/


theorem aWriteChar_head (c : Nat) (q : Quote) :
    ∃ x t, aWriteChar c q = x :: t ∧ x ≠ q.toChar := by
  have hq : q.toChar = 39 ∨ q.toChar = 34 := by cases q <;> simp [Quote.toChar]
  unfold aWriteChar
  split
  · exact ⟨92, _, rfl, by omega⟩
  split
  · exact ⟨92, _, rfl, by omega⟩
  split
  · exact ⟨92, _, rfl, by omega⟩
  split
  · split
    · exact ⟨92, _, rfl, by omega⟩
    · rename_i h; exact ⟨c, _, rfl, fun e => h (Or.inl e)⟩
  · exact ⟨92, _, rfl, by omega⟩

theorem aBodySlow_len (q : Quote) (b : List Nat) :
    (aBodySlow q b).length = sumLen aEscapedCharLen b + b.count q.toChar := by
  induction b with
  | nil => simp [aBodySlow, sumLen]
  | cons c cs ih =>
    simp only [aBodySlow, List.length_append, aWriteChar_len, ih, sumLen, List.count_cons]
    by_cases h : c = q.toChar <;> simp [h] <;> omega

theorem aBodySlow_ge (q : Quote) (b : List Nat) : b.length ≤ (aBodySlow q b).length := by
  induction b with
  | nil => simp
  | cons c cs ih =>
    have := (aWriteChar_ge c q).1
    simp only [aBodySlow, List.length_append, List.length_cons]; omega

theorem aBodySlow_eq_of_len (q : Quote) (b : List Nat)
    (h : (aBodySlow q b).length = b.length) :
    aBodySlow q b = b ∧ ∀ c ∈ b, 0x20 ≤ c ∧ c ≤ 0x7e ∧ c ≠ 92 ∧ c ≠ q.toChar := by
  induction b with
  | nil => simp [aBodySlow]
  | cons c cs ih =>
    have h1 := aWriteChar_ge c q
    have h2 := aBodySlow_ge q cs
    simp only [aBodySlow, List.length_append, List.length_cons] at h
    have hc := h1.2 (by omega)
    have := ih (by omega)
    simp only [aBodySlow, hc.1, this.1, List.singleton_append, true_and]
    intro x hx
    rcases List.mem_cons.mp hx with rfl | hx
    · exact hc.2
    · exact this.2 x hx

theorem aReprLayout_spec (pref : Quote) (b : List Nat) (n : Nat)
    (h : (aReprLayout pref b).len = some n) :
    (aReprLayout pref b).quote = (chooseQuote (b.count 39) (b.count 34) pref).1 ∧
    n = (aBodySlow (aReprLayout pref b).quote b).length := by
  have := layoutGo_spec aEscapedCharLen pref 3 b 3 0 0 n h
  simp only [Nat.zero_add] at this
  unfold aReprLayout
  refine ⟨this.1, ?_⟩
  rw [aBodySlow_len, this.1, this.2, chooseQuote_snd]
  cases hq : (chooseQuote (b.count 39) (b.count 34) pref).1 <;> simp [Quote.toChar] <;> omega

theorem aBody_eq_slow (b : List Nat) (l : Layout)
    (hl : ∀ n, l.len = some n → n = (aBodySlow l.quote b).length) :
    aBody b l = aBodySlow l.quote b := by
  unfold aBody
  split
  · rfl
  · rename_i h
    simp [aChanged] at h
    have := hl _ h
    exact ((aBodySlow_eq_of_len l.quote b this.symm).1).symm

theorem decodeGo_aBodySlow (q : Quote) :
    ∀ (b : List Nat) (fuel : Nat), (∀ c ∈ b, c < 256) → b.length + 1 ≤ fuel →
      decodeGo true q.toChar fuel (aBodySlow q b ++ [q.toChar]) = some b := by
  intro s
  induction s with
  | nil =>
    intro fuel _ hf
    obtain ⟨f, rfl⟩ : ∃ f, fuel = f + 1 := ⟨fuel - 1, by simp at hf; omega⟩
    simpa [aBodySlow] using decodeGo_close true q f
  | cons c cs ih =>
    intro fuel hs hf
    obtain ⟨f, rfl⟩ : ∃ f, fuel = f + 1 := ⟨fuel - 1, by simp at hf; omega⟩
    simp only [aBodySlow, List.append_assoc]
    rw [decodeGo_aWriteChar c q _ f (hs c (List.mem_cons_self ..))]
    rw [ih f (fun x hx => hs x (List.mem_cons_of_mem _ hx)) (by simp at hf; omega)]
    rfl

theorem decodeQuoted_aBodySlow (q : Quote) (b : List Nat) (hb : ∀ c ∈ b, c < 256) :
    decodeQuoted true q.toChar (aBodySlow q b ++ [q.toChar]) = some b := by
  have hgo := decodeGo_aBodySlow q b ((aBodySlow q b ++ [q.toChar]).length + 1) hb
    (by have := aBodySlow_ge q b; simp; omega)
  have hq : isQuote q.toChar = true := by cases q <;> simp [isQuote, Quote.toChar]
  unfold decodeQuoted
  simp only [hq, Bool.not_true, Bool.false_eq_true, if_false]
  split
  · rename_i a b' t heq
    have : ¬ (a = q.toChar ∧ b' = q.toChar) := by
      cases b with
      | nil => simp [aBodySlow] at heq
      | cons c cs =>
        obtain ⟨x, t', h, hx⟩ := aWriteChar_head c q
        simp only [aBodySlow, h, List.cons_append] at heq
        injection heq with h1 _
        intro hh; exact hx (h1.trans hh.1)
    rw [if_neg this]; exact hgo
  · exact hgo

theorem pyLiteralDecode_bytes (q : Quote) (rest : List Nat) :
    pyLiteralDecode (98 :: q.toChar :: rest) = (decodeQuoted true q.toChar rest).map .bytes := by
  simp [pyLiteralDecode]

theorem aWrite_decodes (b : List Nat) (l : Layout)
    (hl : ∀ n, l.len = some n → n = (aBodySlow l.quote b).length)
    (hb : ∀ c ∈ b, c < 256) :
    pyLiteralDecode (aWrite b l) = some (.bytes b) := by
  unfold aWrite
  rw [aBody_eq_slow b l hl, List.cons_append, List.cons_append, pyLiteralDecode_bytes,
    decodeQuoted_aBodySlow l.quote b hb]
  rfl

theorem aBodySlow_eq_flatMap (q : Quote) (b : List Nat) (hb : ∀ c ∈ b, c < 256) :
    aBodySlow q b = b.flatMap (pyBytesEscape q.toChar) := by
  induction b with
  | nil => simp [aBodySlow]
  | cons c cs ih =>
    simp [aBodySlow, ih (fun x hx => hb x (List.mem_cons_of_mem _ hx)),
      aWriteChar_eq_py c q (hb c (List.mem_cons_self ..))]

theorem hexDigit_lt (d : Nat) (h : d < 16) : hexDigit d < 128 := by unfold hexDigit; split <;> omega

theorem aWriteChar_ascii (c : Nat) (q : Quote) : ∀ x ∈ aWriteChar c q, x < 128 := by
  unfold aWriteChar
  split
  · simp
  split
  · simp
  split
  · simp
  split
  · split
    · simp; omega
    · simp; omega
  · have h1 := hexDigit_lt (c / 16 % 16) (by omega)
    have h2 := hexDigit_lt (c % 16) (by omega)
    simp [hexPad]; omega

theorem aBodySlow_ascii (q : Quote) (b : List Nat) : ∀ x ∈ aBodySlow q b, x < 128 := by
  induction b with
  | nil => simp [aBodySlow]
  | cons c cs ih =>
    intro x hx
    simp only [aBodySlow, List.mem_append] at hx
    rcases hx with hx | hx
    · exact aWriteChar_ascii c q x hx
    · exact ih x hx

theorem utf8LenList_ascii (l : List Nat) (h : ∀ x ∈ l, x < 128) : utf8LenList l = l.length := by
  induction l with
  | nil => simp [utf8LenList]
  | cons c cs ih =>
    have : utf8Len c = 1 := by
      have := h c (List.mem_cons_self ..)
      unfold utf8Len; split <;> omega
    simp [utf8LenList, this, ih (fun x hx => h x (List.mem_cons_of_mem _ hx))]; omega

theorem flatMap_congr' {f g : Nat → List Nat} (l : List Nat) (h : ∀ x ∈ l, f x = g x) :
    l.flatMap f = l.flatMap g := by
  induction l with
  | nil => rfl
  | cons c cs ih =>
    simp [h c (List.mem_cons_self ..), ih (fun x hx => h x (List.mem_cons_of_mem _ hx))]

theorem flatMap_plain (p : Nat → Bool) (q : Nat) (s : List Nat)
    (h : ∀ c ∈ s, pyEscapeChar p q c = [c]) : s.flatMap (pyEscapeChar p q) = s := by
  induction s with
  | nil => rfl
  | cons c cs ih =>
    simp [h c (List.mem_cons_self ..), ih (fun x hx => h x (List.mem_cons_of_mem _ hx))]

/-! ### the layout loop under a different reserved length (`named_repr_layout`) -/

/-- a layout that announces a length has accounted for the reserved part within `isize` -/
theorem layoutGo_bound (cl : Nat → Nat) (pref : Quote) (r : Nat) :
    ∀ (s : List Nat) (out sc dc n : Nat), r ≤ out →
      (layoutGo cl pref r s out sc dc).len = some n → n + r ≤ isizeMax := by
  intro s
  induction s with
  | nil =>
    intro out sc dc n hr h
    simp only [layoutGo] at h
    split at h
    · simp at h
    · rename_i o ho
      have h1 := lengthAdd_some ho
      unfold lengthAdd at ho
      split at ho
      · simp at h; omega
      · cases ho
  | cons c cs ih =>
    intro out sc dc n hr h
    simp only [layoutGo] at h
    split at h
    · simp at h
    · rename_i o ho
      have h1 := lengthAdd_some ho
      exact ih _ _ _ _ (by omega) h

/-- shrinking the reserved part (and the start value with it) keeps an announced length -/
theorem layoutGo_shift_down (cl : Nat → Nat) (pref : Quote) (r d : Nat) :
    ∀ (s : List Nat) (out sc dc n : Nat), r ≤ out →
      (layoutGo cl pref (r + d) s (out + d) sc dc).len = some n →
      layoutGo cl pref r s out sc dc = layoutGo cl pref (r + d) s (out + d) sc dc := by
  intro s
  induction s with
  | nil =>
    intro out sc dc n hr h
    simp only [layoutGo] at h ⊢
    split at h
    · simp at h
    · rename_i o ho
      have h1 := lengthAdd_some ho
      have h2 : lengthAdd out (chooseQuote sc dc pref).2 = some (out + (chooseQuote sc dc pref).2) := by
        unfold lengthAdd at ho ⊢
        split at ho
        · rw [if_pos (by omega)]
        · cases ho
      rw [h2]
      simp only [Layout.mk.injEq, Option.some.injEq, true_and]
      omega
  | cons c cs ih =>
    intro out sc dc n hr h
    simp only [layoutGo] at h ⊢
    split at h
    · simp at h
    · rename_i o ho
      have h1 := lengthAdd_some ho
      generalize hinc : (if c = 39 ∨ c = 34 then 1 else cl c) = inc at *
      have h2 : lengthAdd out inc = some (out + inc) := by
        unfold lengthAdd at ho ⊢
        split at ho
        · rw [if_pos (by omega)]
        · cases ho
      rw [h2]
      simp only
      have e : o = out + inc + d := by omega
      subst e
      exact ih _ _ _ _ (by omega) h

/-- growing the reserved part keeps an announced length as long as the whole text still fits -/
theorem layoutGo_shift_up (cl : Nat → Nat) (pref : Quote) (r d : Nat) :
    ∀ (s : List Nat) (out sc dc n : Nat), r ≤ out →
      (layoutGo cl pref r s out sc dc).len = some n → n + r + d ≤ isizeMax →
      layoutGo cl pref (r + d) s (out + d) sc dc = layoutGo cl pref r s out sc dc := by
  intro s
  induction s with
  | nil =>
    intro out sc dc n hr h hfit
    simp only [layoutGo] at h ⊢
    split at h
    · simp at h
    · rename_i o ho
      have h1 := lengthAdd_some ho
      simp at h
      have h2 : lengthAdd (out + d) (chooseQuote sc dc pref).2 = some (out + d + (chooseQuote sc dc pref).2) := by
        unfold lengthAdd
        rw [if_pos (by omega)]
      rw [h2]
      simp only [Layout.mk.injEq, Option.some.injEq, true_and]
      omega
  | cons c cs ih =>
    intro out sc dc n hr h hfit
    have hspec := (layoutGo_spec cl pref r (c :: cs) out sc dc n h).2
    simp only [layoutGo] at h ⊢
    split at h
    · simp at h
    · rename_i o ho
      have h1 := lengthAdd_some ho
      simp only [sumLen] at hspec
      generalize hinc : (if c = 39 ∨ c = 34 then 1 else cl c) = inc at *
      have h2 : lengthAdd (out + d) inc = some (out + d + inc) := by
        unfold lengthAdd
        rw [if_pos (by omega)]
      rw [h2]
      simp only
      have e : out + d + inc = o + d := by omega
      rw [e]
      exact ih _ _ _ _ (by omega) h hfit

end PV.C16
