import PV.C20.Types
/-
  C20 — the domain on which the unchanged Rust splitter provably agrees with CPython.

  `inDomain t` is a one-pass, decidable, purely lexical check of the template: it follows
  CPython's reading of the template (literal text, field name, `[...]` inside the name,
  conversion, format spec with nesting depth) and answers `false` as soon as it meets one of the
  shapes on which the two scanners are *known to differ* (each is a listed finding, see
  design/C20.md and the witnessed negations in Thm.lean):

    H1  a brace or a `!` between `[` and the next `]` of a field name      `{a[}`  `{a[}]}`  `{a[!]}`
    H2  a `{` in a field name (outside brackets)                            `{a{b}c}`
    H3  the conversion character is `{`, `}`, `:` or `[`                    `{!}}`  `{!:}`  `{![:]}`
    H4  a second level of braces inside a format spec                       `{:{{}}}`
    H5  a `[` inside a format spec that is followed by more spec text
        but by no `]` before the spec ends                                  `{:[<5}`

  Everything else — in particular every template that CPython rejects for a single brace, a
  missing `}`, a bad conversion — is inside the domain.
-/
namespace PV.C20

/-- reading position of `inDomain`.  `spec nested br`: inside a format spec, `nested` = inside one
    level of braces; `br = 0` not after a `[`, `1` directly after a `[`, `2` after a `[` and at
    least one further character, no `]` yet. -/
inductive DState where
  | lit | name | nameBr | conv | convEnd
  | spec (nested : Bool) (br : Nat)
  deriving DecidableEq, Repr

/-- bracket bookkeeping inside a format spec (H5). -/
def brNext (br c : Nat) : Nat :=
  if br = 0 then (if c = 91 then 1 else 0)
  else if c = 93 then 0 else 2

def domFrom : DState → List Nat → Bool
  | _, [] => true
  | .lit, [_] => true
  | .lit, c :: d :: rest =>
    if c = 123 then (if d = 123 then domFrom .lit rest else domFrom .name (d :: rest))
    else if c = 125 then (if d = 125 then domFrom .lit rest else true)   -- single `}`: both reject
    else domFrom .lit (d :: rest)
  | .name, c :: rest =>
    if c = 123 then false                                   -- H2
    else if c = 91 then domFrom .nameBr rest
    else if c = 125 then domFrom .lit rest
    else if c = 58 then domFrom (.spec false 0) rest
    else if c = 33 then domFrom .conv rest
    else domFrom .name rest
  | .nameBr, c :: rest =>
    if c = 123 ∨ c = 125 ∨ c = 33 then false               -- H1
    else if c = 93 then domFrom .name rest
    else domFrom .nameBr rest
  | .conv, c :: rest =>
    if c = 123 ∨ c = 125 ∨ c = 58 ∨ c = 91 then false      -- H3
    else domFrom .convEnd rest
  | .convEnd, c :: rest =>
    if c = 125 then domFrom .lit rest
    else if c = 58 then domFrom (.spec false 0) rest
    else true                                               -- both reject
  | .spec nested br, c :: rest =>
    if c = 123 then
      if nested then false                                  -- H4
      else domFrom (.spec true (brNext br c)) rest
    else if c = 125 then
      if nested then domFrom (.spec false (brNext br c)) rest
      else if br = 2 then false                             -- H5
      else domFrom .lit rest
    else domFrom (.spec nested (brNext br c)) rest

/-- the template-level domain predicate of `template_eq_partial`. -/
def inDomain (t : List Nat) : Bool := domFrom .lit t

/-! ### field names

  The two field-name splitters differ only in what they take for an integer:
  Rust `usize::from_str` accepts one leading `+` and values up to 2^64−1 (larger ones silently
  become keywords / string indices); CPython accepts every Unicode decimal digit and *raises*
  above 2^63−1.  The domain: no `+`, no non-ASCII decimal digit, every maximal run of ASCII
  digits has a value ≤ 2^63−1. -/

def isAsciiDigit (c : Nat) : Bool := decide (48 ≤ c ∧ c ≤ 57)

/-- `run` = value of the ASCII digits read since the last non-digit. -/
def runsSmall : Nat → List Nat → Bool
  | _, [] => true
  | run, c :: rest =>
    if isAsciiDigit c then
      decide (run * 10 + (c - 48) ≤ 9223372036854775807) && runsSmall (run * 10 + (c - 48)) rest
    else runsSmall 0 rest

def fieldNameInDomain (decVal : Nat → Option Nat) (t : List Nat) : Bool :=
  t.all (fun c => c != 43 && (isAsciiDigit c || (decVal c).isNone)) && runsSmall 0 t

end PV.C20
