import PV.C20.Types
/-
  C20 — the domain on which the Rust field-name splitter provably agrees with CPython.
  (The template splitter needs no domain any more: after /repo commit eebce66 `template_eq` holds for
  every template.)
-/
namespace PV.C20

/-! ### field names

  Since 7cb5b4b the Rust field-name splitter reads integers as CPython's `get_integer` does (left to
  right, "too many digits" above 2^63−1, no `+`), on ASCII digits.  CPython also accepts every other
  Unicode decimal digit (`Py_UNICODE_TODECIMAL`); the domain excludes exactly those characters. -/

def isAsciiDigit (c : Nat) : Bool := decide (48 ≤ c ∧ c ≤ 57)

/-- no character of the text is a non-ASCII decimal digit -/
def fieldNameInDomain (decVal : Nat → Option Nat) (t : List Nat) : Bool :=
  t.all (fun c => isAsciiDigit c || (decVal c).isNone)

end PV.C20
