import PV.C20.Types
/-
  C20 — the domain on which the Rust field-name splitter provably agrees with CPython.
  (The template splitter needs no domain any more: after /repo commit eebce66 `template_eq` holds for
  every template.)
-/
namespace PV.C20

/-! ### field names

  The two field-name splitters differ only in what they take for an integer:
  Rust `usize::from_str` accepts one leading `+` and values up to 2^64−1 (larger ones silently
  become keywords / string indices); CPython accepts every Unicode decimal digit and *raises*
  above 2^63−1.  The domain: no `+`, no non-ASCII decimal digit, every maximal run of ASCII
  digits has a value ≤ 2^63−1. -/

def isAsciiDigit (c : Nat) : Bool := decide (48 ≤ c ∧ c ≤ 57)

/-- `run` = value of the ASCII digits read since the last non-digit. -/
def runsSmall : Nat → List Nat → Bool
  | _, [] => true
  | run, c :: rest =>
    if isAsciiDigit c then
      decide (run * 10 + (c - 48) ≤ 9223372036854775807) && runsSmall (run * 10 + (c - 48)) rest
    else runsSmall 0 rest

def fieldNameInDomain (decVal : Nat → Option Nat) (t : List Nat) : Bool :=
  t.all (fun c => c != 43 && (isAsciiDigit c || (decVal c).isNone)) && runsSmall 0 t

end PV.C20
