import PV.C20.Types
/-
  C20 — reference definition: what CPython 3.11 does.

    `_string.formatter_parser(s)`            Objects/stringlib/unicode_format.h
                                             MarkupIterator_next + parse_field
    `_string.formatter_field_name_split(s)`  field_name_split + FieldNameIterator_next
                                             (+ get_integer)

  Written from the C source as one-pass scanners over the character list, without reference to the
  Rust control flow (the Rust code first looks for the closing brace with a nesting flag and then
  re-splits the body; CPython reads left to right: field name with `[...]` skipping, then `!c`,
  then `:spec` with a brace counter).  `formatterParser` returns CPython's own tuple sequence
  `(literal, field?)` — several tuples per literal run when doubled braces occur — and `canon`
  is the canonical part sequence the property speaks about ("the same literal pieces with doubled
  braces unescaped").  Both are executed against CPython on every run (spec validation,
  tools/props/c20.py) so that this file cannot drift into "what I think Python does".
-/
namespace PV.C20.Spec

/-- the `ValueError`s of the two C functions (messages are never compared; kept for readability
    and so that the validation run can report which one differs). -/
inductive PyError where
  | singleRBrace            -- "Single '}' encountered in format string"
  | singleLBrace            -- "Single '{' encountered in format string"
  | expectedRBrace          -- "expected '}' before end of string"
  | lbraceInFieldName       -- "unexpected '{' in field name"
  | eosInConversion         -- "end of string while looking for conversion specifier"
  | expectedColon           -- "expected ':' after conversion specifier"
  | unmatchedLBraceInSpec   -- "unmatched '{' in format spec"
  | emptyAttribute          -- "Empty attribute in format string"
  | missingRBracket         -- "Missing ']' in format string"
  | afterRBracket           -- "Only '.' or '[' may follow ']' in format field specifier"
  | tooManyDigits           -- "Too many decimal digits in format string"
  deriving DecidableEq, Repr

open PyError

/-! ## parse_field -/

/-- First loop of `parse_field`: the field name runs to the first `}`, `:` or `!` that is not
    inside `[...]`; a `{` outside brackets is an error; running out of input is an error.
    `inBr` = between a `[` and the next `]`.  Result: name, terminator, text after it. -/
def scanName : Bool → List Nat → Except PyError (List Nat × Nat × List Nat)
  | _, [] => .error expectedRBrace
  | true, c :: rest =>
    match scanName (c != 93) rest with
    | .ok (n, t, r) => .ok (c :: n, t, r)
    | .error e => .error e
  | false, c :: rest =>
    if c = 123 then .error lbraceInFieldName
    else if c = 125 ∨ c = 58 ∨ c = 33 then .ok ([], c, rest)
    else match scanName (c == 91) rest with
      | .ok (n, t, r) => .ok (c :: n, t, r)
      | .error e => .error e

/-- Second loop of `parse_field`: the format spec runs to the `}` that brings the brace counter to
    zero; `depth` = counter − 1.  Nested braces are kept verbatim, to any depth. -/
def scanSpec : Nat → List Nat → Except PyError (List Nat × List Nat)
  | _, [] => .error unmatchedLBraceInSpec
  | depth, c :: rest =>
    if c = 125 ∧ depth = 0 then .ok ([], rest)
    else
      let depth' := if c = 123 then depth + 1 else if c = 125 then depth - 1 else depth
      match scanSpec depth' rest with
      | .ok (s, r) => .ok (c :: s, r)
      | .error e => .error e

/-- `parse_field` after the field-name loop: `term` is the character that ended the name, `rest`
    the text after it. -/
def afterName (name : List Nat) (term : Nat) (rest : List Nat) : Except PyError (Field × List Nat) :=
  if term = 125 then .ok ({ name := name, conv := none, spec := [] }, rest)
  else if term = 58 then
    match scanSpec 0 rest with
    | .ok (s, r) => .ok ({ name := name, conv := none, spec := s }, r)
    | .error e => .error e
  else -- `!`: exactly one conversion character, then `}` or `:`
    match rest with
    | [] => .error eosInConversion
    | [_] => .error unmatchedLBraceInSpec       -- falls into the spec loop at end of input
    | c :: d :: rest' =>
      if d = 125 then .ok ({ name := name, conv := some c, spec := [] }, rest')
      else if d = 58 then
        match scanSpec 0 rest' with
        | .ok (s, r) => .ok ({ name := name, conv := some c, spec := s }, r)
        | .error e => .error e
      else .error expectedColon

/-- `parse_field` on the text that follows the opening `{`. -/
def parseField (text : List Nat) : Except PyError (Field × List Nat) :=
  match scanName false text with
  | .error e => .error e
  | .ok (name, term, rest) => afterName name term rest

/-! ## MarkupIterator_next -/

/-- Literal scan of one `MarkupIterator_next` call: text up to and including the first brace.
    Result: the literal of this tuple, and how the call goes on. -/
inductive LitEnd where
  | atEnd                          -- input exhausted, no brace seen
  | escaped (rest : List Nat)      -- doubled brace: it belongs to the literal, no field follows
  | markup (rest : List Nat)       -- single `{` with text after it: a field follows
  deriving Repr

def scanLiteral : List Nat → Except PyError (List Nat × LitEnd)
  | [] => .ok ([], .atEnd)
  | c :: rest =>
    if c = 123 ∨ c = 125 then
      match rest with
      | [] => .error (if c = 125 then singleRBrace else singleLBrace)
      | d :: rest' =>
        if d = c then .ok ([c], .escaped rest')
        else if c = 125 then .error singleRBrace
        else .ok ([], .markup (d :: rest'))
    else match scanLiteral rest with
      | .ok (l, e) => .ok (c :: l, e)
      | .error e => .error e

/-- `formatter_parser`: the list of `(literal, field)` tuples CPython yields (`field = none` is
    the `(lit, None, None, None)` tuple).  `fuel`: every call consumes at least one character. -/
def parserLoop : Nat → List Nat → Except PyError (List (List Nat × Option Field))
  | _, [] => .ok []
  | 0, _ :: _ => .error singleLBrace                 -- out of fuel (never: fuel = length)
  | fuel + 1, c :: rest =>
    match scanLiteral (c :: rest) with
    | .error e => .error e
    | .ok (lit, .atEnd) => .ok [(lit, none)]
    | .ok (lit, .escaped r) =>
      (match parserLoop fuel r with
       | .ok items => .ok ((lit, none) :: items)
       | .error e => .error e)
    | .ok (lit, .markup r) =>
      match parseField r with
      | .error e => .error e
      | .ok (f, r') =>
        match parserLoop fuel r' with
        | .ok items => .ok ((lit, some f) :: items)
        | .error e => .error e

def formatterParser (text : List Nat) : Except PyError (List (List Nat × Option Field)) :=
  parserLoop text.length text

/-- prepend literal text to a canonical part sequence (adjacent literals are one piece, empty
    literals are no piece). -/
def pushLiteral (lit : List Nat) (parts : List Part) : List Part :=
  if lit = [] then parts
  else match parts with
    | .literal l :: ps => .literal (lit ++ l) :: ps
    | ps => .literal lit :: ps

/-- canonical part sequence of CPython's tuples. -/
def canon : List (List Nat × Option Field) → List Part
  | [] => []
  | (lit, none) :: rest => pushLiteral lit (canon rest)
  | (lit, some f) :: rest => pushLiteral lit (.field f :: canon rest)

/-! ## field_name_split -/

def ssizeMax : Nat := 9223372036854775807

/-- `get_integer`: `none` = "not an integer" (−1 without exception).  `decVal` is
    `Py_UNICODE_TODECIMAL` (a parameter: Unicode data). Digits are consumed left to right, so an
    overflow is reported even if a non-digit follows later. -/
def getIntegerGo (decVal : Nat → Option Nat) : Nat → List Nat → Except PyError (Option Nat)
  | acc, [] => .ok (some acc)
  | acc, c :: rest =>
    match decVal c with
    | none => .ok none
    | some d =>
      if acc > (ssizeMax - d) / 10 then .error tooManyDigits
      else getIntegerGo decVal (acc * 10 + d) rest

def getInteger (decVal : Nat → Option Nat) (s : List Nat) : Except PyError (Option Nat) :=
  if s = [] then .ok none else getIntegerGo decVal 0 s

/-- text up to the next `.` or `[` (`field_name_split` first loop, `_FieldNameIterator_attr`). -/
def upToDotOrBracket : List Nat → List Nat × List Nat
  | [] => ([], [])
  | c :: rest =>
    if c = 46 ∨ c = 91 then ([], c :: rest)
    else let r := upToDotOrBracket rest; (c :: r.1, r.2)

/-- `_FieldNameIterator_item`: text up to the next `]`, which must exist. -/
def upToRBracket : List Nat → Option (List Nat × List Nat)
  | [] => none
  | c :: rest =>
    if c = 93 then some ([], rest)
    else match upToRBracket rest with
      | some (s, r) => some (c :: s, r)
      | none => none

/-- `FieldNameIterator_next`; `none` = end of input. -/
def nextAccessor (decVal : Nat → Option Nat) : List Nat → Except PyError (Option (Accessor × List Nat))
  | [] => .ok none
  | c :: rest =>
    if c = 46 then
      let r := upToDotOrBracket rest
      if r.1 = [] then .error emptyAttribute else .ok (some (.attribute r.1, r.2))
    else if c = 91 then
      match upToRBracket rest with
      | none => .error missingRBracket
      | some (s, r) =>
        match getInteger decVal s with
        | .error e => .error e
        | .ok (some n) => .ok (some (.index n, r))      -- non-empty, all digits
        | .ok none => if s = [] then .error emptyAttribute else .ok (some (.stringIndex s, r))
    else .error afterRBracket

def accessorsLoop (decVal : Nat → Option Nat) : Nat → List Nat → Except PyError (List Accessor)
  | 0, _ => .error afterRBracket                    -- out of fuel (never)
  | fuel + 1, text =>
    match nextAccessor decVal text with
    | .error e => .error e
    | .ok none => .ok []
    | .ok (some (a, text')) =>
      match accessorsLoop decVal fuel text' with
      | .error e => .error e
      | .ok as => .ok (a :: as)

/-- `formatter_field_name_split(s)` followed by exhausting the iterator it returns. -/
def fieldNameSplit (decVal : Nat → Option Nat) (text : List Nat) : Except PyError (Head × List Accessor) :=
  let r := upToDotOrBracket text
  match getInteger decVal r.1 with
  | .error e => .error e
  | .ok first =>
    let head : Head := match first with
      | some n => .index n
      | none => if r.1 = [] then .auto else .keyword r.1
    match accessorsLoop decVal (text.length + 1) r.2 with
    | .error e => .error e
    | .ok as => .ok (head, as)

/-- `Py_UNICODE_TODECIMAL` restricted to ASCII (the driver adds the non-ASCII entries that the
    validation run looks up with `unicodedata.decimal`). -/
def asciiDecVal (c : Nat) : Option Nat := if 48 ≤ c ∧ c ≤ 57 then some (c - 48) else none

end PV.C20.Spec
