/-
  C20 — data shared by the model and the reference definition: characters are Unicode scalar
  values as `Nat` (the Rust code iterates `str::chars()`, CPython indexes code points), text is
  `List Nat`.

  Character codes used throughout (matched as literals so that `simp`/`split` can see them):
    `{` 123   `}` 125   `[` 91   `]` 93   `!` 33   `:` 58   `.` 46   `+` 43   `0`..`9` 48..57
-/
namespace PV.C20

/-- One replacement field: the text before `!`/`:`, the conversion character, the format spec
    text (nested braces verbatim). -/
structure Field where
  name : List Nat
  conv : Option Nat
  spec : List Nat
  deriving DecidableEq, Repr

/-- `FormatPart` of the Rust code; also the canonical form of CPython's tuples. -/
inductive Part where
  | literal (s : List Nat)
  | field (f : Field)
  deriving DecidableEq, Repr

/-- Head of a field name: `FieldType` in Rust; in CPython `first` is `''`, an `int` or a `str`. -/
inductive Head where
  | auto
  | index (n : Nat)
  | keyword (s : List Nat)
  deriving DecidableEq, Repr

/-- One accessor: `FieldNamePart` in Rust; CPython yields `(is_attr, int | str)`. -/
inductive Accessor where
  | attribute (s : List Nat)
  | index (n : Nat)
  | stringIndex (s : List Nat)
  deriving DecidableEq, Repr

/-- acceptance/rejection view of a result: error values are never compared (property text:
    "the same templates are rejected"; messages and error kinds are out of scope). -/
def accepted {ε α} : Except ε α → Option α
  | .ok a => some a
  | .error _ => none

end PV.C20
