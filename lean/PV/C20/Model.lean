import PV.C20.Types
/-
  C20 — executable model of the `str.format` template splitter and the field-name splitter in
  `/repo/format/src/format.rs`:

    FormatString::parse_literal_single / parse_literal / parse_spec (the one-pass version of
    commit eebce66; `parse_part_in_brackets` no longer exists),
    `impl FromTemplate for FormatString` (from_str), FieldName::parse, FieldNamePart::parse_part,
    and the contract of `str::parse::<usize>()` they rely on.

  The model follows the Rust control flow (same loops, same case splits, same quirks); every
  loop whose next input is "whatever the previous step left over" takes a `fuel` argument and the
  entry points pass `text.length` (+1), which `Lemmas.lean` shows is always enough.
  Strings being built (`String::push`) are lists extended at the end.  Core Lean only.
-/
namespace PV.C20.Model

/-- `FormatParseError` (all eight variants, in declaration order). -/
inductive FormatParseError where
  | unmatchedBracket
  | missingStartBracket
  | unescapedStartBracketInLiteral
  | invalidFormatSpecifier
  | unknownConversion
  | emptyAttribute
  | missingRightBracket
  | invalidCharacterAfterRightBracket
  deriving DecidableEq, Repr

open FormatParseError

/-! ## literal scanner -/

/-- `parse_literal_single(text)` for a non-empty `text = c :: rest` (the Rust function `unwrap`s
    the first character; its only caller guarantees non-emptiness). -/
def parseLiteralSingle (c : Nat) (rest : List Nat) : Except FormatParseError (Nat × List Nat) :=
  if c = 123 ∨ c = 125 then
    match rest with
    | [] => .error unescapedStartBracketInLiteral
    | d :: rest' => if d ≠ c then .error unescapedStartBracketInLiteral else .ok (c, rest')
  else .ok (c, rest)

/-- the `while !cur_text.is_empty()` loop of `parse_literal`; `acc` is `result_string`. -/
def parseLiteralLoop : Nat → List Nat → List Nat → Except FormatParseError (List Nat × List Nat)
  | _, acc, [] => .ok (acc, [])
  | 0, _, _ :: _ => .error unescapedStartBracketInLiteral      -- out of fuel (never: fuel = length)
  | fuel + 1, acc, c :: rest =>
    match parseLiteralSingle c rest with
    | .ok (nextChar, remaining) => parseLiteralLoop fuel (acc ++ [nextChar]) remaining
    | .error err => if acc ≠ [] then .ok (acc, c :: rest) else .error err

/-- `parse_literal`: the literal text (never empty when the input is not) and what is left. -/
def parseLiteral (text : List Nat) : Except FormatParseError (List Nat × List Nat) :=
  parseLiteralLoop text.length [] text

/-! ## field scanner (one pass, as repaired in /repo commit eebce66) -/

/-- The `loop` of `parse_spec` that reads the field name: result is the name (the slice
    `name_text[..name_len]`, i.e. every character consumed before the terminator), the terminator
    (`}`, `:` or `!`) and the text after it.  `inIndex` is the Rust variable `in_index`. -/
def nameLoop : Bool → List Nat → Except FormatParseError (List Nat × Nat × List Nat)
  | inIndex, [] => .error (if inIndex then missingRightBracket else unmatchedBracket)
  | true, c :: rest =>
    match nameLoop (c != 93) rest with                          -- `in_index = c != ']'`
    | .ok (name, term, r) => .ok (c :: name, term, r)
    | .error e => .error e
  | false, c :: rest =>
    if c = 123 then .error invalidFormatSpecifier
    else if c = 91 then
      match nameLoop true rest with
      | .ok (name, term, r) => .ok (c :: name, term, r)
      | .error e => .error e
    else if c = 125 ∨ c = 58 ∨ c = 33 then .ok ([], c, rest)
    else
      match nameLoop false rest with
      | .ok (name, term, r) => .ok (c :: name, term, r)
      | .error e => .error e

/-- The `for (idx, c) in spec_text.char_indices()` loop: result is `spec_text[..idx]` and
    `spec_text[idx + 1..]`. -/
def specLoop : Nat → List Nat → Except FormatParseError (List Nat × List Nat)
  | _, [] => .error unmatchedBracket
  | depth, c :: rest =>
    if c = 123 then
      match specLoop (depth + 1) rest with
      | .ok (s, r) => .ok (c :: s, r)
      | .error e => .error e
    else if c = 125 then
      if depth = 0 then .ok ([], rest)
      else match specLoop (depth - 1) rest with
        | .ok (s, r) => .ok (c :: s, r)
        | .error e => .error e
    else
      match specLoop depth rest with
      | .ok (s, r) => .ok (c :: s, r)
      | .error e => .error e

/-- the tail of `parse_spec` once name, conversion and the final terminator (`}` or `:`) are known -/
def finishField (name : List Nat) (conv : Option Nat) (terminator : Nat) (rest : List Nat) :
    Except FormatParseError (Field × List Nat) :=
  if terminator = 125 then .ok ({ name := name, conv := conv, spec := [] }, rest)
  else match specLoop 0 rest with
    | .ok (s, r) => .ok ({ name := name, conv := conv, spec := s }, r)
    | .error e => .error e

/-- `parse_spec(text)`. -/
def parseSpec : List Nat → Except FormatParseError (Field × List Nat)
  | [] => .error missingStartBracket
  | c :: rest =>
    if c ≠ 123 then .error missingStartBracket
    else match nameLoop false rest with
      | .error e => .error e
      | .ok (name, terminator, r) =>
        if terminator = 33 then
          -- `conversion_spec = Some(chars.next().ok_or(UnknownConversion)?)`, then `}` or `:`
          match r with
          | [] => .error unknownConversion
          | [_] => .error unknownConversion
          | conv :: t :: r' =>
            if t = 125 ∨ t = 58 then finishField name (some conv) t r'
            else .error unknownConversion
        else finishField name none terminator r

/-! ## driver -/

/-- one iteration of `from_str`: `parse_literal(cur).or_else(|_| parse_spec(cur))`. -/
def parseStep (text : List Nat) : Except FormatParseError (Part × List Nat) :=
  match parseLiteral text with
  | .ok (l, rest) => .ok (.literal l, rest)
  | .error _ =>
    match parseSpec text with
    | .ok (f, rest) => .ok (.field f, rest)
    | .error e => .error e

/-- the `while !cur_text.is_empty()` loop of `from_str`. -/
def fromStrLoop : Nat → List Nat → Except FormatParseError (List Part)
  | _, [] => .ok []
  | 0, _ :: _ => .error unmatchedBracket                      -- out of fuel (never: fuel = length)
  | fuel + 1, c :: rest =>
    match parseStep (c :: rest) with
    | .error e => .error e
    | .ok (part, newText) =>
      match fromStrLoop fuel newText with
      | .error e => .error e
      | .ok parts => .ok (part :: parts)

/-- `<FormatString as FromTemplate>::from_str`. -/
def fromStr (text : List Nat) : Except FormatParseError (List Part) :=
  fromStrLoop text.length text

/-! ## field names -/

def isizeMax : Nat := 9223372036854775807

/-- the digit loop of `parse_index` (7cb5b4b; CPython's `get_integer`): ASCII digits are accumulated left
    to right; a non-digit makes the text "not a number"; as soon as the digits read exceed
    `isize::MAX` the whole field name is rejected (also when `checked_mul`/`checked_add` overflow:
    that needs a value above `isize::MAX` already).  Before the fix this was `str::parse::<usize>`:
    values up to 2^64-1 were indices, larger ones (and `+5`) keywords. -/
def parseIndexGo : Nat → List Nat → Except FormatParseError (Option Nat)
  | acc, [] => .ok (some acc)
  | acc, c :: rest =>
    if 48 ≤ c ∧ c ≤ 57 then
      if acc * 10 + (c - 48) > isizeMax then .error invalidFormatSpecifier
      else parseIndexGo (acc * 10 + (c - 48)) rest
    else .ok none

/-- `parse_index(text)`: `some n` for an all-digit text, `none` for any other (and for the empty) text -/
def parseIndex (text : List Nat) : Except FormatParseError (Option Nat) :=
  if text = [] then .ok none else parseIndexGo 0 text

/-- `chars.peeking_take_while(|ch| *ch != '.' && *ch != '[')`: the taken text and the iterator
    left behind. -/
def takeName : List Nat → List Nat × List Nat
  | [] => ([], [])
  | c :: rest =>
    if c = 46 ∨ c = 91 then ([], c :: rest)
    else let r := takeName rest; (c :: r.1, r.2)

/-- the `for ch in chars` loop of the `'['` arm of `parse_part`. -/
def indexLoop : List Nat → List Nat → Except FormatParseError (Accessor × List Nat)
  | _, [] => .error missingRightBracket
  | index, c :: rest =>
    if c = 93 then
      if index = [] then .error emptyAttribute
      else match parseIndex index with
        | .error e => .error e
        | .ok (some n) => .ok (.index n, rest)
        | .ok none => .ok (.stringIndex index, rest)
    else indexLoop (index ++ [c]) rest

/-- `FieldNamePart::parse_part(chars)`; `none` = iterator exhausted. -/
def parsePart : List Nat → Except FormatParseError (Option (Accessor × List Nat))
  | [] => .ok none
  | c :: rest =>
    if c = 46 then
      let r := takeName rest
      if r.1 = [] then .error emptyAttribute else .ok (some (.attribute r.1, r.2))
    else if c = 91 then
      match indexLoop [] rest with
      | .ok x => .ok (some x)
      | .error e => .error e
    else .error invalidCharacterAfterRightBracket

/-- the `while let Some(part) = parse_part(&mut chars)?` loop. -/
def partsLoop : Nat → List Nat → Except FormatParseError (List Accessor)
  | 0, _ => .error invalidCharacterAfterRightBracket          -- out of fuel (never)
  | fuel + 1, chars =>
    match parsePart chars with
    | .error e => .error e
    | .ok none => .ok []
    | .ok (some (part, chars')) =>
      match partsLoop fuel chars' with
      | .error e => .error e
      | .ok parts => .ok (part :: parts)

/-- `FieldName::parse(text)`. -/
def parseFieldName (text : List Nat) : Except FormatParseError (Head × List Accessor) :=
  let r := takeName text
  let first := r.1
  let fieldType : Except FormatParseError Head :=
    if first = [] then .ok .auto
    else match parseIndex first with
      | .error e => .error e
      | .ok (some n) => .ok (.index n)
      | .ok none => .ok (.keyword first)
  match fieldType with
  | .error e => .error e
  | .ok fieldType =>
    match partsLoop (text.length + 1) r.2 with
    | .error e => .error e
    | .ok parts => .ok (fieldType, parts)

end PV.C20.Model
