import PV.C20.Model
import PV.C20.Spec
import PV.C20.Domain
import PV.C20.Lemmas
/-
  C20 — property theorems: "str.format templates split into the same fields as Python's".

  `Model.fromStr`, `Model.parseFieldName`   the Rust code as it is (format/src/format.rs; `parse_spec` is
                                            the one-pass scanner of /repo commit eebce66)
  `Spec.formatterParser` + `Spec.canon`,
  `Spec.fieldNameSplit`                     CPython 3.11 (`_string.formatter_parser`,
                                            `_string.formatter_field_name_split`)
  `accepted`                                forgets which error was raised (only acceptance counts)

  Template splitting is proved at full strength (`template_eq`, every template of every length).
  The field-name splitter still differs from CPython in what it takes for an integer
  (`fieldname_fails`, `fieldname_*_differs`: listed findings); what is proved there is the property
  on the explicit decidable domain `fieldNameInDomain` (PV/C20/Domain.lean).
-/
namespace PV.C20

/-! ### template splitting -/

/-- For **every** template: the Rust splitter returns exactly CPython's literal pieces (doubled
    braces unescaped, adjacent pieces joined) and fields (name, conversion character, spec text with
    nested braces verbatim), and rejects exactly the templates CPython rejects. -/
theorem template_eq (t : List Nat) :
    accepted (Model.fromStr t) = (accepted (Spec.formatterParser t)).map Spec.canon :=
  parseM_eq_canonS t.length t (Nat.le_refl _)

-- `ab{{c}}{0.x[1]!r:>{w}}{:[^9]}` is split into 3 parts
example : accepted (Model.fromStr [97, 98, 123, 123, 99, 125, 125, 123, 48, 46, 120, 91, 49, 93, 33, 114, 58,
    62, 123, 119, 125, 125, 123, 58, 91, 94, 57, 93, 125]) =
    some [.literal [97, 98, 123, 99, 125],
          .field { name := [48, 46, 120, 91, 49, 93], conv := some 114, spec := [62, 123, 119, 125] },
          .field { name := [], conv := none, spec := [91, 94, 57, 93] }] := by decide
-- rejected: `{a!rx}` (bad conversion), `a}` (single brace), `{a[}` (bracket never closed)
example : accepted (Model.fromStr [123, 97, 33, 114, 120, 125]) = none ∧
    accepted (Model.fromStr [97, 125]) = none ∧ accepted (Model.fromStr [123, 97, 91, 125]) = none := by decide

/-- The seven templates on which the code *before* commit eebce66 deviated (`{a[}`, `{a[}]}`, `{a[!]}`,
    `{a{b}c}`, `{!}}`, `{:{{}}}`, `{:[<5}`), as regression facts about the present model. -/
theorem template_regressions :
    accepted (Model.fromStr [123, 97, 91, 125]) = none ∧
    accepted (Model.fromStr [123, 97, 91, 125, 93, 125]) =
      some [.field { name := [97, 91, 125, 93], conv := none, spec := [] }] ∧
    accepted (Model.fromStr [123, 97, 91, 33, 93, 125]) =
      some [.field { name := [97, 91, 33, 93], conv := none, spec := [] }] ∧
    accepted (Model.fromStr [123, 97, 123, 98, 125, 99, 125]) = none ∧
    accepted (Model.fromStr [123, 33, 125, 125]) = some [.field { name := [], conv := some 125, spec := [] }] ∧
    accepted (Model.fromStr [123, 58, 123, 123, 125, 125, 125]) =
      some [.field { name := [], conv := none, spec := [123, 123, 125, 125] }] ∧
    accepted (Model.fromStr [123, 58, 91, 60, 53, 125]) =
      some [.field { name := [], conv := none, spec := [91, 60, 53] }] := by decide

/-! ### doubled braces -/

/-- Text with every brace doubled comes back as one literal piece with the braces single again —
    from the Rust splitter and from CPython alike (any text, any length). -/
theorem doubled_braces (s : List Nat) (hs : s ≠ []) :
    Model.fromStr (escapeBraces s) = .ok [.literal s] ∧
    (accepted (Spec.formatterParser (escapeBraces s))).map Spec.canon = some [.literal s] := by
  constructor
  · have := parseM_escape s
    simp only [hs, ↓reduceIte, parseM] at this
    exact (accepted_eq_some _ _).mp this
  · have := canonS_escape s
    simpa [hs, canonS] using this

-- `a{b}}` ↦ `a{{b}}}}`
example : escapeBraces [97, 123, 98, 125, 125] = [97, 123, 123, 98, 125, 125, 125, 125] := by decide

/-! ### field names -/

/-- the property as stated, for a given table of decimal digits (`Py_UNICODE_TODECIMAL`) -/
def fieldname_full (decVal : Nat → Option Nat) : Prop :=
  ∀ t : List Nat, accepted (Model.parseFieldName t) = accepted (Spec.fieldNameSplit decVal t)

/-- Same head (automatic / index / keyword), same chain of `.attr` / `[index]` accessors, same
    rejections (empty attribute, missing `]`, text after `]`, **too many decimal digits**: an all-digit
    head or index above 2^63−1, detected left to right as CPython does) — for every field name without
    non-ASCII decimal digits.  `hdec`: the digit table is right on ASCII.
    (Before 7cb5b4b the domain also excluded `+` and every digit run above 2^63−1.) -/
theorem fieldname_eq_partial (decVal : Nat → Option Nat)
    (hdec : ∀ c, isAsciiDigit c = true → decVal c = some (c - 48))
    (t : List Nat) (h : fieldNameInDomain decVal t = true) :
    accepted (Model.parseFieldName t) = accepted (Spec.fieldNameSplit decVal t) :=
  fieldname_main decVal hdec t h

/-- In particular on ASCII text (where `Py_UNICODE_TODECIMAL` is the ASCII table) the two splitters
    agree on EVERY field name. -/
theorem fieldname_eq_ascii (t : List Nat) (h : ∀ c ∈ t, c < 128) :
    accepted (Model.parseFieldName t) = accepted (Spec.fieldNameSplit Spec.asciiDecVal t) := by
  apply fieldname_main Spec.asciiDecVal
  · intro c hc; simp [isAsciiDigit] at hc; simp [Spec.asciiDecVal, hc]
  · simp only [fieldNameInDomain, List.all_eq_true]
    intro c _
    by_cases hd : 48 ≤ c ∧ c ≤ 57
    · simp [isAsciiDigit, hd]
    · simp [isAsciiDigit, Spec.asciiDecVal, hd]

-- `0.a[12][é]` : index head, attribute, index, string index
example : fieldNameInDomain Spec.asciiDecVal [48, 46, 97, 91, 49, 50, 93, 91, 233, 93] = true := by decide
example : accepted (Model.parseFieldName [48, 46, 97, 91, 49, 50, 93, 91, 233, 93]) =
    some (.index 0, [.attribute [97], .index 12, .stringIndex [233]]) := by decide
example : ∀ c, isAsciiDigit c = true → Spec.asciiDecVal c = some (c - 48) := by
  intro c h; simp [isAsciiDigit] at h; simp [Spec.asciiDecVal, h]

/-- The former witnesses `fname-index-overflow` (repaired by 7cb5b4b): `9223372036854775808` (2^63),
    `a[99999999999999999999]` and `99999999999999999999x` (overflow before the non-digit) are rejected by
    both; 2^63−1 is still an index; and `+5` is a keyword for both. -/
theorem fieldname_overflow_repaired :
    accepted (Model.parseFieldName [57, 50, 50, 51, 51, 55, 50, 48, 51, 54, 56, 53, 52, 55, 55, 53, 56, 48, 56]) = none ∧
    accepted (Spec.fieldNameSplit Spec.asciiDecVal
      [57, 50, 50, 51, 51, 55, 50, 48, 51, 54, 56, 53, 52, 55, 55, 53, 56, 48, 56]) = none ∧
    accepted (Model.parseFieldName [97, 91, 57, 57, 57, 57, 57, 57, 57, 57, 57, 57, 57, 57, 57, 57, 57, 57, 57, 57, 57, 57, 93]) = none ∧
    accepted (Model.parseFieldName [57, 57, 57, 57, 57, 57, 57, 57, 57, 57, 57, 57, 57, 57, 57, 57, 57, 57, 57, 57, 120]) = none ∧
    accepted (Spec.fieldNameSplit Spec.asciiDecVal
      [57, 57, 57, 57, 57, 57, 57, 57, 57, 57, 57, 57, 57, 57, 57, 57, 57, 57, 57, 57, 120]) = none ∧
    accepted (Model.parseFieldName [57, 50, 50, 51, 51, 55, 50, 48, 51, 54, 56, 53, 52, 55, 55, 53, 56, 48, 55]) =
      some (.index 9223372036854775807, []) ∧
    accepted (Model.parseFieldName [43, 53]) = some (.keyword [43, 53], []) ∧
    accepted (Spec.fieldNameSplit Spec.asciiDecVal [43, 53]) = some (.keyword [43, 53], []) := by decide

/-- still open (`fname-unicode-digit`): `٣` (U+0663 ARABIC-INDIC DIGIT THREE): CPython says index 3,
    Rust says keyword -/
theorem fieldname_unicode_digit_differs :
    accepted (Model.parseFieldName [1635]) = some (.keyword [1635], []) ∧
    accepted (Spec.fieldNameSplit (fun c => if c = 1635 then some 3 else Spec.asciiDecVal c) [1635]) =
      some (.index 3, []) := by decide

/-- the property as stated fails only through non-ASCII decimal digits -/
theorem fieldname_fails :
    ¬ fieldname_full (fun c => if c = 1635 then some 3 else Spec.asciiDecVal c) := by
  intro h
  have h1 := h [1635]
  rw [fieldname_unicode_digit_differs.1, fieldname_unicode_digit_differs.2] at h1
  simp at h1

end PV.C20
