import PV.C20.Lemmas.SpecDriver
/-! C20 helper lemmas — `canonS`: canonical part sequence of the reference parser, with its recursion equations. -/
namespace PV.C20
open Spec

/-- accepted, canonicalised results of the reference parser -/
def canonS (t : List Nat) : Option (List Part) := (accepted (formatterParser t)).map canon

theorem pushLiteral_cons (c : Nat) (l : List Nat) (X : List Part) :
    pushLiteral (c :: l) X = pushLiteral [c] (pushLiteral l X) := by
  by_cases hl : l = []
  · simp [hl, pushLiteral]
  · cases X with
    | nil => simp [pushLiteral, hl]
    | cons p ps => cases p <;> simp [pushLiteral, hl]

theorem canonS_nil : canonS [] = some [] := by simp [canonS, formatterParser, parserLoop, canon]

theorem scanLiteral_plain (c : Nat) (rest : List Nat) (h : ¬ isBrace c) :
    scanLiteral (c :: rest) = match scanLiteral rest with
      | .ok (l, e) => .ok (c :: l, e)
      | .error e => .error e := by
  have h' : ¬ (c = 123 ∨ c = 125) := h
  simp only [scanLiteral, h', ↓reduceIte]
  rfl

theorem canonS_plain (c : Nat) (t' : List Nat) (h : ¬ isBrace c) :
    canonS (c :: t') = (canonS t').map (pushLiteral [c]) := by
  cases t' with
  | nil =>
    have h' : ¬ (c = 123 ∨ c = 125) := h
    simp [canonS, formatterParser, parserLoop, scanLiteral, h', canon, pushLiteral]
  | cons d r =>
    unfold canonS
    rw [formatterParser_cons c (d :: r), formatterParser_cons d r, scanLiteral_plain c (d :: r) h]
    cases hx : scanLiteral (d :: r) with
    | error e => simp
    | ok p =>
      obtain ⟨l, e⟩ := p
      cases e with
      | atEnd => simp [canon, pushLiteral_cons c l]
      | escaped r2 =>
        simp only
        generalize formatterParser r2 = x
        cases x <;> simp [canon, pushLiteral_cons c l]
      | markup r2 =>
        simp only
        generalize parseField r2 = y
        cases y with
        | error e => simp
        | ok q =>
          obtain ⟨f, r3⟩ := q
          simp only
          generalize formatterParser r3 = x
          cases x <;> simp [canon, pushLiteral_cons c l]

theorem canonS_esc (c : Nat) (t' : List Nat) (h : isBrace c) :
    canonS (c :: c :: t') = (canonS t').map (pushLiteral [c]) := by
  have h' : c = 123 ∨ c = 125 := h
  unfold canonS
  rw [formatterParser_cons]
  simp only [scanLiteral, h', ↓reduceIte]
  generalize formatterParser t' = x
  cases x <;> simp [canon]

theorem canonS_field (d : Nat) (r : List Nat) (hd : d ≠ 123) :
    canonS (123 :: d :: r) =
      (accepted (parseField (d :: r))).bind (fun p => (canonS p.2).map (fun ps => .field p.1 :: ps)) := by
  unfold canonS
  rw [formatterParser_cons]
  simp only [scanLiteral, true_or, ↓reduceIte, hd]
  simp only [show ¬ (123 = 125) by decide, ↓reduceIte]
  generalize parseField (d :: r) = y
  cases y with
  | error e => simp
  | ok q =>
    obtain ⟨f, r3⟩ := q
    simp only [accepted_ok, Option.bind_some]
    generalize formatterParser r3 = x
    cases x <;> simp [canon, pushLiteral]

theorem canonS_single (c : Nat) (h : isBrace c) : canonS [c] = none := by
  have h' : c = 123 ∨ c = 125 := h
  simp [canonS, formatterParser, parserLoop, scanLiteral, h']

theorem canonS_rbrace (d : Nat) (r : List Nat) (hd : d ≠ 125) : canonS (125 :: d :: r) = none := by
  unfold canonS
  rw [formatterParser_cons]
  simp [scanLiteral, hd]

end PV.C20
