import PV.C20.Spec
import PV.C20.Lemmas.Basic
/-! C20 helper lemmas — reference driver: lengths decrease, fuel is irrelevant, fuel-free equation for `formatter_parser`. -/
namespace PV.C20
open Spec

theorem scanName_length (b : List Nat) : ∀ (br : Bool) (n : List Nat) (t : Nat) (r : List Nat),
    scanName br b = .ok (n, t, r) → r.length < b.length := by
  induction b with
  | nil => intro br n t r h; cases br <;> simp [scanName] at h
  | cons c rest ih =>
    intro br n t r h
    cases br
    · simp only [scanName] at h
      split at h
      · cases h
      · split at h
        · simp at h; rw [← h.2.2]; simp
        · cases hx : scanName (c == 91) rest with
          | error e => simp [hx] at h
          | ok p =>
            obtain ⟨n', t', r'⟩ := p
            simp [hx] at h
            have := ih _ n' t' r' hx
            rw [← h.2.2]; simp; omega
    · simp only [scanName] at h
      cases hx : scanName (c != 93) rest with
      | error e => simp [hx] at h
      | ok p =>
        obtain ⟨n', t', r'⟩ := p
        simp [hx] at h
        have := ih _ n' t' r' hx
        rw [← h.2.2]; simp; omega

theorem scanSpec_length (b : List Nat) : ∀ (d : Nat) (s r : List Nat),
    scanSpec d b = .ok (s, r) → r.length < b.length := by
  induction b with
  | nil => intro d s r h; simp [scanSpec] at h
  | cons c rest ih =>
    intro d s r h
    simp only [scanSpec] at h
    split at h
    · simp at h; rw [← h.2]; simp
    · generalize hd : (if c = 123 then d + 1 else if c = 125 then d - 1 else d) = d' at h
      cases hx : scanSpec d' rest with
      | error e => simp [hx] at h
      | ok p =>
        simp [hx] at h
        have := ih _ p.1 p.2 hx
        rw [← h.2]; simp; omega

theorem afterName_length (n : List Nat) (t : Nat) (rest : List Nat) (f : Field) (r : List Nat)
    (h : afterName n t rest = .ok (f, r)) : r.length ≤ rest.length := by
  unfold afterName at h
  split at h
  · simp at h; rw [h.2]; exact Nat.le_refl _
  · split at h
    · cases hx : scanSpec 0 rest with
      | error e => simp [hx] at h
      | ok p => simp [hx] at h; have := scanSpec_length rest 0 p.1 p.2 hx; rw [← h.2]; omega
    · split at h
      · cases h
      · cases h
      · rename_i c d rest'
        split at h
        · simp at h; rw [← h.2]; simp; omega
        · split at h
          · cases hx : scanSpec 0 rest' with
            | error e => simp [hx] at h
            | ok p =>
              simp [hx] at h; have := scanSpec_length rest' 0 p.1 p.2 hx; rw [← h.2]; simp; omega
          · cases h

theorem parseField_length (b : List Nat) (f : Field) (r : List Nat)
    (h : parseField b = .ok (f, r)) : r.length < b.length := by
  unfold parseField at h
  cases hx : scanName false b with
  | error e => simp [hx] at h
  | ok p =>
    obtain ⟨n, t, rest⟩ := p
    simp [hx] at h
    have h1 := scanName_length b false n t rest hx
    have h2 := afterName_length n t rest f r h
    omega

theorem scanLiteral_length (t : List Nat) : ∀ (lit : List Nat) (e : LitEnd),
    scanLiteral t = .ok (lit, e) →
    match e with
    | .atEnd => True
    | .escaped r => r.length < t.length
    | .markup r => r.length < t.length := by
  induction t with
  | nil => intro lit e h; simp [scanLiteral] at h; rw [← h.2]; trivial
  | cons c rest ih =>
    intro lit e h
    simp only [scanLiteral] at h
    split at h
    · split at h
      · cases h
      · rename_i d rest'
        split at h
        · simp at h; rw [← h.2]; simp; omega
        · split at h
          · cases h
          · simp at h; rw [← h.2]; simp
    · cases hx : scanLiteral rest with
      | error e => simp [hx] at h
      | ok p =>
        simp [hx] at h
        have := ih p.1 p.2 hx
        rw [← h.2]
        cases hp : p.2 <;> simp [hp] at this ⊢ <;> omega

theorem parserLoop_fuel (n : Nat) : ∀ (m : Nat) (t : List Nat), t.length ≤ n → t.length ≤ m →
    parserLoop n t = parserLoop m t := by
  induction n with
  | zero =>
    intro m t h1 _
    have : t = [] := by cases t <;> simp_all
    subst this; cases m <;> simp [parserLoop]
  | succ n ih =>
    intro m t h1 h2
    cases t with
    | nil => cases m <;> simp [parserLoop]
    | cons c rest =>
      cases m with
      | zero => simp at h2
      | succ m =>
        simp only [parserLoop]
        cases hp : scanLiteral (c :: rest) with
        | error e => rfl
        | ok q =>
          obtain ⟨lit, e⟩ := q
          have hl := scanLiteral_length (c :: rest) lit e hp
          simp at h1 h2
          cases e with
          | atEnd => rfl
          | escaped r =>
            simp at hl
            simp only
            rw [ih m r (by omega) (by omega)]
          | markup r =>
            simp at hl
            simp only
            cases hf : parseField r with
            | error e => rfl
            | ok q2 =>
              obtain ⟨f, r'⟩ := q2
              have := parseField_length r f r' hf
              simp only
              rw [ih m r' (by omega) (by omega)]

theorem formatterParser_cons (c : Nat) (rest : List Nat) :
    formatterParser (c :: rest) =
      match scanLiteral (c :: rest) with
      | .error e => .error e
      | .ok (lit, .atEnd) => .ok [(lit, none)]
      | .ok (lit, .escaped r) =>
        (match formatterParser r with
         | .ok items => .ok ((lit, none) :: items)
         | .error e => .error e)
      | .ok (lit, .markup r) =>
        match parseField r with
        | .error e => .error e
        | .ok (f, r') =>
          match formatterParser r' with
          | .ok items => .ok ((lit, some f) :: items)
          | .error e => .error e := by
  simp only [formatterParser, List.length_cons, parserLoop]
  cases hp : scanLiteral (c :: rest) with
  | error e => rfl
  | ok q =>
    obtain ⟨lit, e⟩ := q
    have hl := scanLiteral_length (c :: rest) lit e hp
    cases e with
    | atEnd => rfl
    | escaped r =>
      simp at hl
      simp only
      rw [parserLoop_fuel rest.length r.length r (by omega) (Nat.le_refl _)]
      rfl
    | markup r =>
      simp at hl
      simp only
      cases hf : parseField r with
      | error e => rfl
      | ok q2 =>
        obtain ⟨f, r'⟩ := q2
        have := parseField_length r f r' hf
        simp only
        rw [parserLoop_fuel rest.length r'.length r' (by omega) (Nat.le_refl _)]
        rfl

end PV.C20
