import PV.C20.Lemmas.ConvPhase
/-! C20 helper lemmas — field-name phase in lockstep, and the field lemma `field_eq`. -/
namespace PV.C20
open Model

theorem mapName_dom (c : Nat) (x : Option (Field × List Nat))
    (h : ∀ f r, x = some (f, r) → domFrom .lit r = true) :
    ∀ f r, mapName c x = some (f, r) → domFrom .lit r = true := by
  intro f r hx
  cases x with
  | none => simp [mapName] at hx
  | some p =>
    simp [mapName] at hx
    have := h p.1 p.2 rfl
    rw [hx.2] at this; exact this

/-- field-name part: the three scanners in lockstep -/
theorem name_phase (b : List Nat) : ∀ br : Bool,
    domFrom (if br then .nameBr else .name) b = true →
    MF br b = SF br b ∧ ∀ f r, SF br b = some (f, r) → domFrom .lit r = true := by
  induction b with
  | nil => intro br _; simp [MF, SF, specC, Spec.scanName]
  | cons c rest ih =>
    intro br hd
    cases br
    · -- outside brackets
      simp only [Bool.false_eq_true, ↓reduceIte, domFrom] at hd
      by_cases h1 : c = 123
      · simp [h1] at hd
      by_cases h2 : c = 91
      · subst h2
        simp at hd
        have hM : MF false (91 :: rest) = mapName 91 (MF true rest) :=
          MF_cons 91 false true rest (by decide) (by decide) (by decide) (by intro l r _; rw [pibC]; simp)
        have hS : SF false (91 :: rest) = mapName 91 (SF true rest) :=
          SF_cons 91 false true rest (by simp [Spec.scanName]; try rfl)
        have := ih true (by simpa using hd)
        rw [hM, hS, this.1]
        exact ⟨rfl, mapName_dom 91 _ this.2⟩
      by_cases h3 : c = 125
      · subst h3
        simp at hd
        simp [MF, SF, specC, pibC, finishC, splitBang, Spec.scanName, Spec.afterName, hd]
      by_cases h4 : c = 58
      · subst h4
        simp at hd
        have hA := spec_phase_A rest false 0 hd
        have hS : SF false (58 :: rest) = accepted (Spec.afterName [] 58 rest) := by
          simp [SF, Spec.scanName]
        rw [hS]
        simp only [MF, Spec.afterName]
        rw [specC_plain false 58 _ (by decide) (by decide)]
        cases hx : specC false rest with
        | none =>
          rw [hx] at hA
          cases hy : Spec.scanSpec 0 rest with
          | error e => simp [cons1]
          | ok p => simp [hy] at hA
        | some p =>
          obtain ⟨s, r⟩ := p
          rw [hx] at hA
          have hB := spec_phase_B rest false 0 s r hd hx
          cases hy : Spec.scanSpec 0 rest with
          | error e => simp [hy] at hA
          | ok q =>
            simp [hy] at hA
            subst hA
            simp at hB
            simp [cons1, pibC, hB.1, finishC, splitBang, hB.2]
      by_cases h5 : c = 33
      · subst h5
        simp at hd
        exact conv_phase rest hd
      · simp [h1, h2, h3, h4, h5] at hd
        have hM : MF false (c :: rest) = mapName c (MF false rest) :=
          MF_cons c false false rest h1 h3 h5 (by intro l r _; rw [pibC]; simp [h2, h4])
        have hS : SF false (c :: rest) = mapName c (SF false rest) :=
          SF_cons c false false rest (by
            have : (c == 91) = false := by simp [h2]
            simp [Spec.scanName, h1, h3, h4, h5, this]; try rfl)
        have := ih false (by simpa using hd)
        rw [hM, hS, this.1]
        exact ⟨rfl, mapName_dom c _ this.2⟩
    · -- between `[` and `]`
      simp only [↓reduceIte, domFrom] at hd
      have hc : c ≠ 123 ∧ c ≠ 125 ∧ c ≠ 33 := by
        by_cases h : c = 123 ∨ c = 125 ∨ c = 33
        · simp [h] at hd
        · omega
      simp [hc] at hd
      by_cases h2 : c = 93
      · subst h2
        simp at hd
        have hM : MF true (93 :: rest) = mapName 93 (MF false rest) :=
          MF_cons 93 true false rest (by decide) (by decide) (by decide) (by intro l r _; rw [pibC]; simp)
        have hS : SF true (93 :: rest) = mapName 93 (SF false rest) :=
          SF_cons 93 true false rest (by simp [Spec.scanName]; try rfl)
        have := ih false (by simpa using hd)
        rw [hM, hS, this.1]
        exact ⟨rfl, mapName_dom 93 _ this.2⟩
      · simp [h2] at hd
        have hM : MF true (c :: rest) = mapName c (MF true rest) := by
          apply MF_cons c true true rest hc.1 hc.2.1 hc.2.2
          intro l r hs
          have hne : l ≠ [] := by
            intro h; subst h
            obtain ⟨_, h2⟩ := specC_nil hs
            subst h2
            simp [domFrom] at hd
          cases l with
          | nil => exact absurd rfl hne
          | cons x xs => rw [pibC]; simp [h2]
        have hS : SF true (c :: rest) = mapName c (SF true rest) :=
          SF_cons c true true rest (by
            have : (c != 93) = true := by simp [h2]
            simp [Spec.scanName, this]; try rfl)
        have := ih true (by simpa using hd)
        rw [hM, hS, this.1]
        exact ⟨rfl, mapName_dom c _ this.2⟩

/-- the field lemma: on the text after an opening brace, inside the domain, the Rust field scanner
    accepts exactly what CPython's `parse_field` accepts, with the same field and the same rest -/
theorem field_eq (b : List Nat) (hd : domFrom .name b = true) :
    accepted (parseSpec (123 :: b)) = accepted (Spec.parseField b) ∧
    ∀ f r, accepted (Spec.parseField b) = some (f, r) → domFrom .lit r = true := by
  rw [parseSpec_eq, parseField_eq]
  exact name_phase b false (by simpa using hd)

end PV.C20
