import PV.C20.Model
import PV.C20.Lemmas.SpecDriver
/-! C20 helper lemmas — the field lemma: the (repaired, one-pass) Rust field scanner accepts exactly
    what CPython's `parse_field` accepts, with the same field and the same rest. -/
namespace PV.C20
open Model

theorem nameLoop_eq (t : List Nat) : ∀ br : Bool,
    accepted (nameLoop br t) = accepted (Spec.scanName br t) := by
  induction t with
  | nil => intro br; cases br <;> simp [nameLoop, Spec.scanName]
  | cons c rest ih =>
    intro br
    cases br
    · simp only [nameLoop, Spec.scanName]
      by_cases h1 : c = 123
      · simp [h1]
      · by_cases h2 : c = 91
        · subst h2
          have := ih true
          simp only [show ¬ (91 = 123) by decide, ↓reduceIte, show ¬ (91 = 125 ∨ 91 = 58 ∨ 91 = 33) by decide,
            show (91 == 91) = true by decide]
          generalize nameLoop true rest = x at this ⊢
          generalize Spec.scanName true rest = y at this ⊢
          cases x <;> cases y <;> simp_all
        · by_cases h3 : c = 125 ∨ c = 58 ∨ c = 33
          · simp [h1, h2, h3]
          · have := ih false
            have hb : (c == 91) = false := by simp [h2]
            simp only [h1, h2, h3, hb, ↓reduceIte]
            generalize nameLoop false rest = x at this ⊢
            generalize Spec.scanName false rest = y at this ⊢
            cases x <;> cases y <;> simp_all
    · simp only [nameLoop, Spec.scanName]
      have := ih (c != 93)
      generalize nameLoop (c != 93) rest = x at this ⊢
      generalize Spec.scanName (c != 93) rest = y at this ⊢
      cases x <;> cases y <;> simp_all

theorem specLoop_eq (t : List Nat) : ∀ d : Nat,
    accepted (specLoop d t) = accepted (Spec.scanSpec d t) := by
  induction t with
  | nil => intro d; simp [specLoop, Spec.scanSpec]
  | cons c rest ih =>
    intro d
    simp only [specLoop, Spec.scanSpec]
    by_cases h1 : c = 123
    · subst h1
      have := ih (d + 1)
      simp only [↓reduceIte, show ¬ (123 = 125) by decide, false_and]
      generalize specLoop (d + 1) rest = x at this ⊢
      generalize Spec.scanSpec (d + 1) rest = y at this ⊢
      cases x <;> cases y <;> simp_all
    · by_cases h2 : c = 125
      · subst h2
        by_cases h3 : d = 0
        · simp [h3]
        · have := ih (d - 1)
          simp only [show ¬ (125 = 123) by decide, ↓reduceIte, h3, and_false]
          generalize specLoop (d - 1) rest = x at this ⊢
          generalize Spec.scanSpec (d - 1) rest = y at this ⊢
          cases x <;> cases y <;> simp_all
      · have := ih d
        simp only [h1, h2, ↓reduceIte, false_and]
        generalize specLoop d rest = x at this ⊢
        generalize Spec.scanSpec d rest = y at this ⊢
        cases x <;> cases y <;> simp_all

theorem finishField_eq (name : List Nat) (conv : Option Nat) (t : Nat) (rest : List Nat) (_ht : t = 125 ∨ t = 58) :
    accepted (finishField name conv t rest) =
      accepted (if t = 125 then (.ok ({ name := name, conv := conv, spec := [] }, rest) : Except Spec.PyError _)
        else match Spec.scanSpec 0 rest with
          | .ok (s, r) => .ok ({ name := name, conv := conv, spec := s }, r)
          | .error e => .error e) := by
  unfold finishField
  by_cases h : t = 125
  · simp [h]
  · have := specLoop_eq rest 0
    simp only [h, ↓reduceIte]
    generalize specLoop 0 rest = x at this ⊢
    generalize Spec.scanSpec 0 rest = y at this ⊢
    cases x <;> cases y <;> simp_all

theorem scanName_term (t : List Nat) : ∀ (br : Bool) (n : List Nat) (term : Nat) (r : List Nat),
    Spec.scanName br t = .ok (n, term, r) → term = 125 ∨ term = 58 ∨ term = 33 := by
  induction t with
  | nil => intro br n term r h; cases br <;> simp [Spec.scanName] at h
  | cons c rest ih =>
    intro br n term r h
    cases br
    · simp only [Spec.scanName] at h
      split at h
      · cases h
      · split at h
        · rename_i hc; simp at h; rw [← h.2.1]; exact hc
        · cases hx : Spec.scanName (c == 91) rest with
          | error e => simp [hx] at h
          | ok p =>
            obtain ⟨n', t', r'⟩ := p
            simp [hx] at h
            rw [← h.2.1]; exact ih _ n' t' r' hx
    · simp only [Spec.scanName] at h
      cases hx : Spec.scanName (c != 93) rest with
      | error e => simp [hx] at h
      | ok p =>
        obtain ⟨n', t', r'⟩ := p
        simp [hx] at h
        rw [← h.2.1]; exact ih _ n' t' r' hx

/-- **field lemma** (all inputs) -/
theorem field_eq (b : List Nat) :
    accepted (parseSpec (123 :: b)) = accepted (Spec.parseField b) := by
  have hn := nameLoop_eq b false
  simp only [parseSpec, Spec.parseField, ne_eq, not_true_eq_false, ↓reduceIte]
  cases hx : nameLoop false b with
  | error e =>
    rw [hx] at hn
    cases hy : Spec.scanName false b with
    | error e2 => simp
    | ok q => rw [hy] at hn; simp at hn
  | ok p =>
    rw [hx] at hn
    cases hy : Spec.scanName false b with
    | error e2 => rw [hy] at hn; simp at hn
    | ok q =>
      rw [hy] at hn
      simp at hn
      subst hn
      obtain ⟨name, term, r⟩ := p
      have hterm := scanName_term b false name term r hy
      simp only [Spec.afterName]
      by_cases h33 : term = 33
      · subst h33
        simp only [↓reduceIte, show ¬ (33 = 125) by decide, show ¬ (33 = 58) by decide]
        match r with
        | [] => simp
        | [_] => simp
        | conv :: t :: r' =>
          simp only
          by_cases ht : t = 125 ∨ t = 58
          · rw [if_pos ht, finishField_eq name (some conv) t r' ht]
            rcases ht with ht | ht <;> subst ht <;> simp <;> rfl
          · have h1 : ¬ t = 125 := fun h => ht (Or.inl h)
            have h2 : ¬ t = 58 := fun h => ht (Or.inr h)
            simp [h1, h2]
      · have ht : term = 125 ∨ term = 58 := by omega
        rw [if_neg h33, finishField_eq name none term r ht]
        rcases ht with ht | ht <;> subst ht <;> simp <;> rfl

theorem parseSpec_length (t : List Nat) (f : Field) (r : List Nat) (h : accepted (parseSpec t) = some (f, r)) :
    r.length < t.length := by
  cases t with
  | nil => simp [parseSpec] at h
  | cons c b =>
    by_cases hc : c = 123
    · subst hc
      rw [field_eq] at h
      have := parseField_length b f r ((accepted_eq_some _ _).mp h)
      simp; omega
    · simp [parseSpec, hc] at h

end PV.C20
