import PV.C20.Model
import PV.C20.Spec
import PV.C20.Domain
/-! C20 helper lemmas — cons-style (accumulator-free, acceptance-only) forms of the model's field scanner: `specC` for the closing-brace search of `parse_spec`, `pibC` for the loop of `parse_part_in_brackets`, `MF` for the whole field. -/
namespace PV.C20
open Model

@[simp] theorem accepted_ok {ε α} (a : α) : accepted (.ok a : Except ε α) = some a := rfl
@[simp] theorem accepted_error {ε α} (e : ε) : accepted (.error e : Except ε α) = none := rfl

/-- prepend a character to the first component of an optional pair -/
def cons1 {β} (c : Nat) : Option (List Nat × β) → Option (List Nat × β)
  | some (l, r) => some (c :: l, r)
  | none => none

/-! ### `parse_spec` loop, cons style -/
def specC : Bool → List Nat → Option (List Nat × List Nat)
  | _, [] => none
  | nested, c :: rest =>
    if c = 123 then (if nested then none else cons1 c (specC true rest))
    else if c = 125 then (if nested then cons1 c (specC false rest) else some ([], rest))
    else cons1 c (specC nested rest)

theorem parseSpecLoop_eq (nested : Bool) (left t : List Nat) :
    accepted (parseSpecLoop nested left t) = (specC nested t).map (fun p => (left ++ p.1, p.2)) := by
  induction t generalizing nested left with
  | nil => simp [parseSpecLoop, specC]
  | cons c rest ih =>
    simp only [parseSpecLoop, specC]
    split
    · split
      · simp
      · rw [ih]; cases specC true rest <;> simp [cons1]
    · split
      · split
        · rw [ih]; cases specC false rest <;> simp [cons1]
        · simp
      · rw [ih]; cases specC nested rest <;> simp [cons1]


/-! ### `parse_part_in_brackets` loop, cons style -/
def push2 (split : Bool) (c : Nat) : Option (List Nat × List Nat) → Option (List Nat × List Nat)
  | some (l, r) => if split then some (l, c :: r) else some (c :: l, r)
  | none => none

def pibC : Bool → Bool → List Nat → Option (List Nat × List Nat)
  | _, _, [] => some ([], [])
  | split, true, c :: rest =>
    if c = 93 then push2 split c (pibC split false rest)
    else if rest.isEmpty then none
    else push2 split c (pibC split true rest)
  | split, false, c :: rest =>
    if c = 91 then push2 split c (pibC split true rest)
    else if c = 58 ∧ split = false then pibC true false rest
    else push2 split c (pibC split false rest)

theorem pibLoop_eq (split inner : Bool) (left right t : List Nat) :
    accepted (pibLoop split inner left right t)
      = (pibC split inner t).map (fun p => (left ++ p.1, right ++ p.2)) := by
  induction t generalizing split inner left right with
  | nil => cases inner <;> simp [pibLoop, pibC]
  | cons c rest ih =>
    cases inner
    · simp only [pibLoop, pibC]
      split
      · rw [ih]; cases pibC split true rest <;> cases split <;> simp [push2, pibPush]
      · split
        · rw [ih]
        · rw [ih]; cases pibC split false rest <;> cases split <;> simp [push2, pibPush]
    · simp only [pibLoop, pibC]
      split
      · rw [ih]; cases pibC split false rest <;> cases split <;> simp [push2, pibPush]
      · split
        · simp
        · rw [ih]; cases pibC split true rest <;> cases split <;> simp [push2, pibPush]


/-! ### the field as the model sees it -/
def finishC (l rt : List Nat) : Option Field :=
  match splitBang l with
  | (a, none) => some { name := a, conv := none, spec := rt }
  | (a, some [c]) => some { name := a, conv := some c, spec := rt }
  | (_, some _) => none

theorem parsePartInBrackets_eq (text : List Nat) :
    accepted (parsePartInBrackets text) = (pibC false false text).bind (fun p => finishC p.1 p.2) := by
  have h := pibLoop_eq false false [] [] text
  unfold parsePartInBrackets
  cases hp : pibLoop false false [] [] text with
  | error e =>
    rw [hp] at h
    cases hq : pibC false false text with
    | none => simp
    | some q => rw [hq] at h; simp at h
  | ok p =>
    obtain ⟨l, r⟩ := p
    rw [hp] at h
    cases hq : pibC false false text with
    | none => rw [hq] at h; simp at h
    | some q =>
      obtain ⟨q1, q2⟩ := q
      rw [hq] at h
      simp only [accepted_ok, Option.map_some, Option.some.injEq, Prod.mk.injEq, List.nil_append] at h
      obtain ⟨h1, h2⟩ := h
      subst h1 h2
      simp only [Option.bind_some, finishC]
      split <;> simp_all

/-- model of the field scanner on the text after the opening brace; `br`: the bracket state in
    which `parse_part_in_brackets` starts (false for the real code; generalised for induction). -/
def MF (br : Bool) (b : List Nat) : Option (Field × List Nat) :=
  (specC false b).bind fun p =>
    ((pibC false br p.1).bind fun q => finishC q.1 q.2).map (fun f => (f, p.2))

theorem parseSpec_eq (b : List Nat) : accepted (parseSpec (123 :: b)) = MF false b := by
  have h := parseSpecLoop_eq false [] b
  simp only [parseSpec, MF, ne_eq, not_true_eq_false, ↓reduceIte]
  cases hp : parseSpecLoop false [] b with
  | error e =>
    rw [hp] at h
    cases hq : specC false b with
    | none => simp
    | some q => rw [hq] at h; simp at h
  | ok p =>
    obtain ⟨left, right⟩ := p
    rw [hp] at h
    cases hq : specC false b with
    | none => rw [hq] at h; simp at h
    | some q =>
      obtain ⟨q1, q2⟩ := q
      rw [hq] at h
      simp only [accepted_ok, Option.map_some, Option.some.injEq, Prod.mk.injEq, List.nil_append] at h
      obtain ⟨h1, h2⟩ := h
      subst h1 h2
      have h2 := parsePartInBrackets_eq left
      simp only [Option.bind_some]
      cases hr : parsePartInBrackets left with
      | error e => rw [hr] at h2; simp at h2; simp [← h2]
      | ok f => rw [hr] at h2; simp at h2; simp [← h2]

end PV.C20
