import PV.C20.Lemmas.SpecPhase
/-! C20 helper lemmas — one field-name character pushed through all three layers of the model (`MF_cons`) and through CPython's `parse_field` (`SF_cons`). -/
namespace PV.C20
open Model

/-- the reference field parser started in bracket state `br` (false for CPython itself) -/
def SF (br : Bool) (b : List Nat) : Option (Field × List Nat) :=
  accepted (match Spec.scanName br b with
    | .error e => .error e
    | .ok (n, t, r) => Spec.afterName n t r)

theorem parseField_eq (b : List Nat) : accepted (Spec.parseField b) = SF false b := rfl

def consName (c : Nat) (f : Field) : Field := { f with name := c :: f.name }

def mapName (c : Nat) (x : Option (Field × List Nat)) : Option (Field × List Nat) :=
  x.map (fun p => (consName c p.1, p.2))

theorem afterName_cons (c : Nat) (n : List Nat) (t : Nat) (r : List Nat) :
    accepted (Spec.afterName (c :: n) t r) = mapName c (accepted (Spec.afterName n t r)) := by
  unfold Spec.afterName
  repeat' split
  all_goals simp_all [mapName, consName]

theorem SF_cons (c : Nat) (br br' : Bool) (rest : List Nat)
    (h : Spec.scanName br (c :: rest) =
      match Spec.scanName br' rest with
      | .ok (n, t, r) => .ok (c :: n, t, r)
      | .error e => .error e) :
    SF br (c :: rest) = mapName c (SF br' rest) := by
  unfold SF
  rw [h]
  cases hx : Spec.scanName br' rest with
  | error e => simp [mapName]
  | ok p => obtain ⟨n, t, r⟩ := p; simp [afterName_cons]

theorem specC_plain (n : Bool) (c : Nat) (rest : List Nat) (h1 : c ≠ 123) (h2 : c ≠ 125) :
    specC n (c :: rest) = cons1 c (specC n rest) := by
  simp [specC, h1, h2]

theorem finishC_cons (c : Nat) (l rt : List Nat) (h : c ≠ 33) :
    finishC (c :: l) rt = (finishC l rt).map (consName c) := by
  simp only [finishC, splitBang, h, ↓reduceIte]
  cases h2 : (splitBang l).2 with
  | none => 
    have : splitBang l = ((splitBang l).1, none) := by rw [← h2]
    rw [this]; simp [consName]
  | some v =>
    have : splitBang l = ((splitBang l).1, some v) := by rw [← h2]
    rw [this]
    match v with
    | [] => simp
    | [x] => simp [consName]
    | _ :: _ :: _ => simp

theorem MF_cons (c : Nat) (br br' : Bool) (rest : List Nat) (h1 : c ≠ 123) (h2 : c ≠ 125) (h3 : c ≠ 33)
    (hp : ∀ left' r, specC false rest = some (left', r) →
      pibC false br (c :: left') = push2 false c (pibC false br' left')) :
    MF br (c :: rest) = mapName c (MF br' rest) := by
  unfold MF
  rw [specC_plain false c rest h1 h2]
  cases hx : specC false rest with
  | none => simp [cons1, mapName]
  | some p =>
    obtain ⟨left', r⟩ := p
    simp only [cons1, Option.bind_some]
    rw [hp left' r hx]
    cases hy : pibC false br' left' with
    | none => simp [push2, mapName]
    | some q =>
      obtain ⟨l, rt⟩ := q
      simp only [push2, Bool.false_eq_true, ↓reduceIte, Option.bind_some, finishC_cons c l rt h3, mapName]
      cases finishC l rt <;> simp

end PV.C20
