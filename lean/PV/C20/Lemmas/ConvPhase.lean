import PV.C20.Lemmas.NameStep
/-! C20 helper lemmas — conversion phase (`!c` followed by `}` / `:` / anything else). -/
namespace PV.C20
open Model

theorem finishC_bang (l rt : List Nat) :
    finishC (33 :: l) rt = match l with
      | [c] => some { name := [], conv := some c, spec := rt }
      | _ => none := by
  simp only [finishC, splitBang, ↓reduceIte]
  match l with
  | [] => simp
  | [x] => simp
  | _ :: _ :: _ => simp

/-- first component of a successful `pibC false false (d :: _)` starts with `d` unless `d` is `:` -/
theorem pibC_head (d : Nat) (xs l rt : List Nat) (hd : d ≠ 58)
    (h : pibC false false (d :: xs) = some (l, rt)) : ∃ l', l = d :: l' := by
  simp only [pibC, hd, false_and, ↓reduceIte] at h
  split at h
  · cases hx : pibC false true xs with
    | none => simp [hx, push2] at h
    | some q => simp [hx, push2] at h; exact ⟨q.1, h.1.symm⟩
  · cases hx : pibC false false xs with
    | none => simp [hx, push2] at h
    | some q => simp [hx, push2] at h; exact ⟨q.1, h.1.symm⟩

theorem specC_head (d : Nat) (xs l r : List Nat) (hd : d ≠ 125)
    (h : specC false (d :: xs) = some (l, r)) : ∃ l', l = d :: l' := by
  simp only [specC, hd, ↓reduceIte] at h
  split at h
  · simp at h
    cases hx : specC true xs with
    | none => simp [hx, cons1] at h
    | some q => simp [hx, cons1] at h; exact ⟨q.1, h.1.symm⟩
  · cases hx : specC false xs with
    | none => simp [hx, cons1] at h
    | some q => simp [hx, cons1] at h; exact ⟨q.1, h.1.symm⟩

/-- conversion part: `!` has just been read in a field name -/
theorem conv_phase (rest : List Nat) (hd : domFrom .conv rest = true) :
    MF false (33 :: rest) = SF false (33 :: rest) ∧
    ∀ f r, SF false (33 :: rest) = some (f, r) → domFrom .lit r = true := by
  have hS : SF false (33 :: rest) = accepted (Spec.afterName [] 33 rest) := by
    simp [SF, Spec.scanName]
  rw [hS]
  match rest, hd with
  | [], _ => simp [MF, specC, cons1, Spec.afterName]
  | [c], hd =>
    simp [domFrom] at hd
    simp [MF, specC, cons1, Spec.afterName, hd]
  | c :: d :: r2, hd =>
    simp only [domFrom] at hd
    have hc : c ≠ 123 ∧ c ≠ 125 ∧ c ≠ 58 ∧ c ≠ 91 := by
      by_cases h : c = 123 ∨ c = 125 ∨ c = 58 ∨ c = 91
      · simp [h] at hd
      · omega
    simp [hc] at hd
    by_cases hd1 : d = 125
    · subst hd1
      simp at hd
      simp [MF, specC, cons1, hc, pibC, push2, finishC_bang, Spec.afterName, hd]
    · by_cases hd2 : d = 58
      · subst hd2
        simp at hd
        have hA := spec_phase_A r2 false 0 hd
        simp only [MF, specC, Spec.afterName]
        simp [hc]
        cases hx : specC false r2 with
        | none =>
          rw [hx] at hA
          cases hy : Spec.scanSpec 0 r2 with
          | error e => simp [cons1]
          | ok p => simp [hy] at hA
        | some p =>
          obtain ⟨s, r⟩ := p
          rw [hx] at hA
          have hB := spec_phase_B r2 false 0 s r hd hx
          cases hy : Spec.scanSpec 0 r2 with
          | error e => simp [hy] at hA
          | ok q =>
            simp [hy] at hA
            subst hA
            simp at hB
            simp [cons1, pibC, hc, push2, hB.1, finishC_bang, hB.2]
      · -- CPython: "expected ':' after conversion specifier"; the model must reject as well
        have hS2 : accepted (Spec.afterName [] 33 (c :: d :: r2)) = none := by
          simp [Spec.afterName, hd1, hd2]
        rw [hS2]
        refine ⟨?_, by simp⟩
        simp only [MF]
        rw [specC_plain false 33 _ (by decide) (by decide), specC_plain false c _ hc.1 hc.2.1]
        cases hx : specC false (d :: r2) with
        | none => simp [cons1]
        | some p =>
          obtain ⟨l, r⟩ := p
          obtain ⟨l3, hl⟩ := specC_head d r2 l r hd1 hx
          subst hl
          simp only [cons1, Option.bind_some]
          have e1 : pibC false false (33 :: c :: d :: l3)
              = push2 false 33 (push2 false c (pibC false false (d :: l3))) := by
            rw [pibC]; simp; rw [pibC]; simp [hc]
          rw [e1]
          cases hy : pibC false false (d :: l3) with
          | none => simp [push2]
          | some q =>
            obtain ⟨l4, rt⟩ := q
            obtain ⟨l5, hl5⟩ := pibC_head d l3 l4 rt hd2 hy
            subst hl5
            simp [push2, finishC_bang]

end PV.C20
