import PV.C20.Model
import PV.C20.Lemmas.Basic
/-! C20 helper lemmas — literal scanner: `parse_literal` computes the maximal literal run `litRun`. -/
namespace PV.C20
open Model


/-- maximal literal run: text with doubled braces unescaped, and what is left -/
def litRun : List Nat → List Nat × List Nat
  | [] => ([], [])
  | [c] => if isBrace c then ([], [c]) else ([c], [])
  | c :: d :: rest =>
    if isBrace c then
      if d = c then (c :: (litRun rest).1, (litRun rest).2) else ([], c :: d :: rest)
    else (c :: (litRun (d :: rest)).1, (litRun (d :: rest)).2)

theorem litRun_plain (c : Nat) (rest : List Nat) (h : ¬ isBrace c) :
    litRun (c :: rest) = (c :: (litRun rest).1, (litRun rest).2) := by
  cases rest <;> simp [litRun, h]

theorem litRun_esc (c : Nat) (rest : List Nat) (h : isBrace c) :
    litRun (c :: c :: rest) = (c :: (litRun rest).1, (litRun rest).2) := by
  simp [litRun, h]

theorem litRun_single (c : Nat) (rest : List Nat) (h : isBrace c) (h2 : rest.head? ≠ some c) :
    litRun (c :: rest) = ([], c :: rest) := by
  cases rest with
  | nil => simp [litRun, h]
  | cons d r => simp at h2; simp [litRun, h, h2]

theorem litRun_length (t : List Nat) : (litRun t).2.length + (litRun t).1.length ≤ t.length := by
  fun_induction litRun t <;> simp_all <;> omega

theorem litRun_nil (t : List Nat) (h : (litRun t).1 = []) : (litRun t).2 = t := by
  match t with
  | [] => simp [litRun]
  | [c] => by_cases hb : isBrace c <;> simp [litRun, hb] at h ⊢
  | c :: d :: rest =>
    by_cases hb : isBrace c
    · by_cases hd : d = c <;> simp [litRun, hb, hd] at h ⊢
    · simp [litRun, hb] at h

theorem parseLiteralLoop_eq (n : Nat) : ∀ (acc t : List Nat), t.length ≤ n →
    accepted (parseLiteralLoop n acc t) =
      if acc ++ (litRun t).1 = [] ∧ t ≠ [] then none else some (acc ++ (litRun t).1, (litRun t).2) := by
  induction n with
  | zero =>
    intro acc t h
    have : t = [] := by cases t <;> simp_all
    subst this; simp [parseLiteralLoop, litRun]
  | succ n ih =>
    intro acc t h
    cases t with
    | nil => simp [parseLiteralLoop, litRun]
    | cons c rest =>
      simp only [parseLiteralLoop, parseLiteralSingle]
      by_cases hb : isBrace c
      · have hb' : c = 123 ∨ c = 125 := hb
        simp only [hb', ↓reduceIte]
        cases rest with
        | nil =>
          rw [litRun_single c [] hb (by simp)]
          by_cases ha : acc = [] <;> simp [ha]
        | cons d r =>
          by_cases hd : d = c
          · subst hd
            simp only [ne_eq, not_true_eq_false, ↓reduceIte]
            rw [ih _ _ (by simp at h; omega), litRun_esc d r hb]
            simp
          · simp only [ne_eq, hd, not_false_eq_true, ↓reduceIte]
            rw [litRun_single c (d :: r) hb (by simpa using hd)]
            by_cases ha : acc = [] <;> simp [ha]
      · have hb' : ¬ (c = 123 ∨ c = 125) := hb
        simp only [hb', ↓reduceIte]
        rw [ih _ _ (by simpa using h), litRun_plain c rest hb]
        simp

theorem parseLiteral_eq (t : List Nat) :
    accepted (parseLiteral t) =
      if (litRun t).1 = [] ∧ t ≠ [] then none else some ((litRun t).1, (litRun t).2) := by
  simpa [parseLiteral] using parseLiteralLoop_eq t.length [] t (Nat.le_refl _)

end PV.C20
