import PV.C20.Lemmas.ConsStyle
/-! C20 helper lemmas — format-spec phase: inside the domain the closing-brace search equals CPython's spec scan and the second pass leaves the spec text untouched. -/
namespace PV.C20
open Model

theorem specC_nil {n : Bool} {t r : List Nat} (h : specC n t = some ([], r)) : n = false ∧ t = 125 :: r := by
  cases t with
  | nil => simp [specC] at h
  | cons c rest =>
    simp only [specC] at h
    split at h
    · split at h
      · cases h
      · cases hx : specC true rest <;> simp [hx, cons1] at h
    · split at h
      · split at h
        · cases hx : specC false rest <;> simp [hx, cons1] at h
        · simp at h; subst h; simp_all
      · cases hx : specC n rest <;> simp [hx, cons1] at h

/-- (A) inside the domain the model's closing-brace search is CPython's spec scan -/
theorem spec_phase_A (b : List Nat) : ∀ (nested : Bool) (br : Nat),
    domFrom (.spec nested br) b = true →
    specC nested b = accepted (Spec.scanSpec (if nested then 1 else 0) b) := by
  induction b with
  | nil => intro nested br _; simp [specC, Spec.scanSpec]
  | cons c rest ih =>
    intro nested br hd
    simp only [domFrom] at hd
    simp only [specC, Spec.scanSpec]
    by_cases h1 : c = 123
    · subst h1
      cases nested
      · simp at hd
        have := ih true _ hd
        simp [this]
        cases Spec.scanSpec 1 rest <;> simp [cons1]
      · simp at hd
    · by_cases h2 : c = 125
      · subst h2
        cases nested
        · simp
        · simp at hd
          have := ih false _ hd
          simp [this]
          cases Spec.scanSpec 0 rest <;> simp [cons1]
      · simp [h1, h2] at hd
        have := ih nested _ hd
        simp [h1, h2, this]
        cases Spec.scanSpec (if nested = true then 1 else 0) rest <;> simp [cons1]


theorem brNext_cases (br c : Nat) : brNext br c = 0 ∨ brNext br c = 1 ∨ brNext br c = 2 := by
  unfold brNext; split <;> split <;> simp

/-- one character of the spec goes through the second pass -/
theorem pib_spec_step (br c : Nat) (nested' : Bool) (rest s' r : List Nat)
    (hd : domFrom (.spec nested' (brNext br c)) rest = true)
    (hs : specC nested' rest = some (s', r))
    (ih : pibC true (decide (brNext br c ≠ 0)) s' = some ([], s')) :
    pibC true (decide (br ≠ 0)) (c :: s') = some ([], c :: s') := by
  by_cases hb : br = 0
  · subst hb
    by_cases hc : c = 91
    · subst hc; simp [brNext] at ih; simp [pibC, ih, push2]
    · simp [brNext, hc] at ih; simp [pibC, hc, ih, push2]
  · by_cases hc : c = 93
    · subst hc; simp [brNext, hb] at ih; simp [pibC, hb, ih, push2]
    · have hbr : brNext br c = 2 := by simp [brNext, hb, hc]
      rw [hbr] at ih hd
      have hne : s' ≠ [] := by
        intro h; subst h
        obtain ⟨h1, h2⟩ := specC_nil hs
        subst h1 h2
        simp [domFrom] at hd
      simp at ih
      cases s' with
      | nil => exact absurd rfl hne
      | cons x xs =>
        rw [show decide (br ≠ 0) = true by simp [hb], pibC, ih]
        simp [hc, push2]

/-- (B) inside the domain the second pass leaves the spec text alone, and the text after the
    field is again inside the domain -/
theorem spec_phase_B (b : List Nat) : ∀ (nested : Bool) (br : Nat) (s r : List Nat),
    domFrom (.spec nested br) b = true → specC nested b = some (s, r) →
    pibC true (decide (br ≠ 0)) s = some ([], s) ∧ domFrom .lit r = true := by
  induction b with
  | nil => intro nested br s r _ h; simp [specC] at h
  | cons c rest ih =>
    intro nested br s r hd hs
    simp only [domFrom] at hd
    simp only [specC] at hs
    by_cases h1 : c = 123
    · subst h1
      cases nested
      · simp at hd hs
        cases hx : specC true rest with
        | none => simp [hx, cons1] at hs
        | some p =>
          obtain ⟨s', r'⟩ := p
          simp [hx, cons1] at hs
          obtain ⟨hs1, hs2⟩ := hs
          subst hs1 hs2
          have := ih true _ s' r' hd hx
          exact ⟨pib_spec_step br 123 true rest s' r' hd hx this.1, this.2⟩
      · simp at hd
    · by_cases h2 : c = 125
      · subst h2
        cases nested
        · simp at hd hs
          obtain ⟨hs1, hs2⟩ := hs
          subst hs1 hs2
          simp [pibC]
          exact hd.2
        · simp at hd hs
          cases hx : specC false rest with
          | none => simp [hx, cons1] at hs
          | some p =>
            obtain ⟨s', r'⟩ := p
            simp [hx, cons1] at hs
            obtain ⟨hs1, hs2⟩ := hs
            subst hs1 hs2
            have := ih false _ s' r' hd hx
            exact ⟨pib_spec_step br 125 false rest s' r' hd hx this.1, this.2⟩
      · simp [h1, h2] at hd hs
        cases hx : specC nested rest with
        | none => simp [hx, cons1] at hs
        | some p =>
          obtain ⟨s', r'⟩ := p
          simp [hx, cons1] at hs
          obtain ⟨hs1, hs2⟩ := hs
          subst hs1 hs2
          have := ih nested _ s' r' hd hx
          exact ⟨pib_spec_step br c nested rest s' r' hd hx this.1, this.2⟩

end PV.C20
