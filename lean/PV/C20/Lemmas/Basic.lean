import PV.C20.Types
/-! C20 helper lemmas — `accepted`. -/
namespace PV.C20

@[simp] theorem accepted_ok {ε α} (a : α) : accepted (.ok a : Except ε α) = some a := rfl
@[simp] theorem accepted_error {ε α} (e : ε) : accepted (.error e : Except ε α) = none := rfl

theorem accepted_eq_some {ε α} (x : Except ε α) (a : α) : accepted x = some a ↔ x = .ok a := by
  cases x <;> simp

/-- `{` or `}` -/
def isBrace (c : Nat) : Prop := c = 123 ∨ c = 125
instance (c : Nat) : Decidable (isBrace c) := by unfold isBrace; infer_instance

end PV.C20
