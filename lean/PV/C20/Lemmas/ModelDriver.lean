import PV.C20.Lemmas.Literal
import PV.C20.Lemmas.FieldEq
/-! C20 helper lemmas — model driver: lengths decrease, fuel is irrelevant, fuel-free equations for `from_str`. -/
namespace PV.C20
open Model

/-- one iteration of the driver, through `litRun` -/
theorem parseStep_eq (t : List Nat) (ht : t ≠ []) :
    accepted (parseStep t) =
      if (litRun t).1 ≠ [] then some (.literal (litRun t).1, (litRun t).2)
      else (accepted (parseSpec t)).map (fun p => (.field p.1, p.2)) := by
  have h := parseLiteral_eq t
  unfold parseStep
  cases hp : parseLiteral t with
  | ok p =>
    rw [hp] at h
    by_cases hl : (litRun t).1 = []
    · simp [hl, ht] at h
    · simp [hl] at h; simp [hl, h]
  | error e =>
    rw [hp] at h
    by_cases hl : (litRun t).1 = []
    · simp only [hl, ne_eq, not_true_eq_false, ↓reduceIte]
      cases parseSpec t with
      | ok q => simp
      | error e => simp
    · simp [hl] at h

theorem parseStep_length (t : List Nat) (p : Part) (r : List Nat) (ht : t ≠ [])
    (h : accepted (parseStep t) = some (p, r)) : r.length < t.length := by
  rw [parseStep_eq t ht] at h
  split at h
  · rename_i hl
    simp at h
    have := litRun_length t
    have : (litRun t).1.length > 0 := List.length_pos_iff.mpr hl
    rw [← h.2]; omega
  · cases hx : accepted (parseSpec t) with
    | none => simp [hx] at h
    | some q =>
      simp [hx] at h
      have := parseSpec_length t q.1 q.2 hx
      rw [← h.2]; exact this

theorem fromStrLoop_fuel (n : Nat) : ∀ (m : Nat) (t : List Nat), t.length ≤ n → t.length ≤ m →
    fromStrLoop n t = fromStrLoop m t := by
  induction n with
  | zero =>
    intro m t h1 _
    have : t = [] := by cases t <;> simp_all
    subst this; cases m <;> simp [fromStrLoop]
  | succ n ih =>
    intro m t h1 h2
    cases t with
    | nil => cases m <;> simp [fromStrLoop]
    | cons c rest =>
      cases m with
      | zero => simp at h2
      | succ m =>
        simp only [fromStrLoop]
        cases hp : parseStep (c :: rest) with
        | error e => rfl
        | ok q =>
          obtain ⟨part, new⟩ := q
          have := parseStep_length (c :: rest) part new (by simp) (by simp [hp])
          simp at this h1 h2
          simp only
          rw [ih m new (by omega) (by omega)]

/-- the driver loop without fuel -/
theorem fromStr_cons (c : Nat) (rest : List Nat) :
    fromStr (c :: rest) =
      match parseStep (c :: rest) with
      | .error e => .error e
      | .ok (part, newText) =>
        match fromStr newText with
        | .error e => .error e
        | .ok parts => .ok (part :: parts) := by
  simp only [fromStr, List.length_cons, fromStrLoop]
  cases hp : parseStep (c :: rest) with
  | error e => rfl
  | ok q =>
    obtain ⟨part, new⟩ := q
    have := parseStep_length (c :: rest) part new (by simp) (by simp [hp])
    simp at this
    simp only
    rw [fromStrLoop_fuel rest.length new.length new (by omega) (Nat.le_refl _)]
    rfl

/-- accepted results of the model driver -/
def parseM (t : List Nat) : Option (List Part) := accepted (fromStr t)

theorem parseM_nil : parseM [] = some [] := by simp [parseM, fromStr, fromStrLoop]

theorem parseM_eq (t : List Nat) (ht : t ≠ []) :
    parseM t =
      if (litRun t).1 ≠ [] then (parseM (litRun t).2).map (fun ps => .literal (litRun t).1 :: ps)
      else (accepted (parseSpec t)).bind (fun p => (parseM p.2).map (fun ps => .field p.1 :: ps)) := by
  cases t with
  | nil => exact absurd rfl ht
  | cons c rest =>
    have h := parseStep_eq (c :: rest) ht
    unfold parseM
    rw [fromStr_cons]
    cases hp : parseStep (c :: rest) with
    | error e =>
      rw [hp] at h
      split at h
      · simp at h
      · rename_i hl
        rw [if_neg hl]
        cases hx : accepted (parseSpec (c :: rest)) with
        | none => simp
        | some q => simp [hx] at h
    | ok q =>
      obtain ⟨part, new⟩ := q
      rw [hp] at h
      split at h
      · rename_i hl
        simp at h
        obtain ⟨h1, h2⟩ := h
        subst h1 h2
        rw [if_pos hl]
        dsimp only
        generalize fromStr (litRun (c :: rest)).2 = x
        cases x <;> simp
      · rename_i hl
        rw [if_neg hl]
        cases hx : accepted (parseSpec (c :: rest)) with
        | none => simp [hx] at h
        | some q =>
          simp [hx] at h
          obtain ⟨h1, h2⟩ := h
          subst h1 h2
          simp only [Option.bind_some]
          generalize fromStr q.2 = x
          cases x <;> simp

end PV.C20
