import PV.C20.Lemmas.Integer
/-! C20 helper lemmas — field names: one accessor (`part_eq`) and the accessor loops in lockstep (`parts_eq`). -/
namespace PV.C20
open Model Spec

theorem upToRBracket_append (r : List Nat) : ∀ s r', upToRBracket r = some (s, r') → r = s ++ 93 :: r' := by
  induction r with
  | nil => intro s r' h; simp [upToRBracket] at h
  | cons c rest ih =>
    intro s r' h
    simp only [upToRBracket] at h
    split at h
    · simp at h; rename_i hc; subst hc; obtain ⟨h1, h2⟩ := h; subst h1 h2; simp
    · cases hx : upToRBracket rest with
      | none => simp [hx] at h
      | some p =>
        simp [hx] at h
        have := ih p.1 p.2 hx
        rw [← h.1, ← h.2, this]; simp

/-- the `[` arm of `parse_part`, through CPython's `_FieldNameIterator_item` -/
theorem indexLoop_eq (r : List Nat) : ∀ index,
    indexLoop index r =
      match upToRBracket r with
      | none => .error .missingRightBracket
      | some (s, r') =>
        if index ++ s = [] then .error .emptyAttribute
        else match parseIndex (index ++ s) with
          | .error e => .error e
          | .ok (some n) => .ok (.index n, r')
          | .ok none => .ok (.stringIndex (index ++ s), r') := by
  induction r with
  | nil => intro index; simp [indexLoop, upToRBracket]
  | cons c rest ih =>
    intro index
    simp only [indexLoop, upToRBracket]
    split
    · simp; rfl
    · rw [ih]
      cases upToRBracket rest with
      | none => simp
      | some p => simp

/-- what the induction carries along the rest of a field name -/
def restOk (decVal : Nat → Option Nat) (t : List Nat) : Prop :=
  ∀ c ∈ t, charOk decVal c = true

theorem restOk_tail (decVal : Nat → Option Nat) (c : Nat) (t : List Nat) (h : restOk decVal (c :: t)) :
    restOk decVal t := fun x hx => h x (by simp [hx])

theorem restOk_append (decVal : Nat → Option Nat) (a b : List Nat) (h : restOk decVal (a ++ b)) :
    restOk decVal b := fun x hx => h x (by simp [hx])

/-- one accessor: same result, same rest (acceptance view), and the rest is fine again -/
theorem part_eq (decVal : Nat → Option Nat)
    (hdec : ∀ c, isAsciiDigit c = true → decVal c = some (c - 48))
    (t : List Nat) (h : restOk decVal t) :
    accepted (parsePart t) = accepted (nextAccessor decVal t) ∧
    ∀ a t', accepted (parsePart t) = some (some (a, t')) → restOk decVal t' := by
  cases t with
  | nil => simp [parsePart, nextAccessor]
  | cons c r =>
    simp only [parsePart, nextAccessor]
    by_cases h1 : c = 46
    · subst h1
      simp only [↓reduceIte, ← takeName_eq]
      constructor
      · split <;> simp
      · intro a t' ha
        split at ha
        · simp at ha
        · simp at ha
          have := takeName_append r
          rw [← ha.2]
          apply restOk_append decVal (takeName r).1
          rw [this]; exact restOk_tail decVal 46 r h
    · by_cases h2 : c = 91
      · subst h2
        simp only [show ¬ (91 = 46) by decide, ↓reduceIte]
        rw [indexLoop_eq]
        cases hx : upToRBracket r with
        | none => simp
        | some p =>
          obtain ⟨s, r'⟩ := p
          have hr := upToRBracket_append r s r' hx
          have hs : ∀ c ∈ s, charOk decVal c = true := fun x hx => h x (by simp [hr, hx])
          have hint := integer_eq decVal hdec s hs
          have hok : restOk decVal r' := by
            have := restOk_tail decVal 91 r h
            rw [hr] at this
            exact restOk_tail decVal 93 r' (restOk_append decVal s _ this)
          simp only [List.nil_append]
          by_cases hse : s = []
          · subst hse; simp [getInteger, accepted]
          · simp only [hse, ↓reduceIte]
            generalize getInteger decVal s = x at hint ⊢
            generalize parseIndex s = y at hint ⊢
            cases x with
            | error e1 =>
              cases y with
              | error e2 => simp [accepted]
              | ok v => simp [accepted] at hint
            | ok u =>
              cases y with
              | error e2 => simp [accepted] at hint
              | ok v =>
                simp [accepted] at hint
                subst hint
                cases u with
                | some n => simp [accepted]; exact hok
                | none => simp [accepted]; exact hok
      · simp [h1, h2]

/-- the accessor loops in lockstep -/
theorem parts_eq (decVal : Nat → Option Nat)
    (hdec : ∀ c, isAsciiDigit c = true → decVal c = some (c - 48))
    (fuel : Nat) : ∀ t, restOk decVal t →
    accepted (partsLoop fuel t) = accepted (accessorsLoop decVal fuel t) := by
  induction fuel with
  | zero => intro t _; simp [partsLoop, accessorsLoop]
  | succ fuel ih =>
    intro t h
    have hp := part_eq decVal hdec t h
    simp only [partsLoop, accessorsLoop]
    cases hx : parsePart t with
    | error e =>
      rw [hx] at hp
      cases hy : nextAccessor decVal t with
      | error e2 => simp
      | ok q => rw [hy] at hp; simp at hp
    | ok q =>
      rw [hx] at hp
      cases hy : nextAccessor decVal t with
      | error e2 => rw [hy] at hp; simp at hp
      | ok q2 =>
        rw [hy] at hp
        simp at hp
        obtain ⟨hq, hrest⟩ := hp
        subst hq
        cases q with
        | none => simp
        | some p =>
          obtain ⟨a, t'⟩ := p
          have := ih t' (hrest a t' rfl)
          simp only
          generalize partsLoop fuel t' = x at this ⊢
          generalize accessorsLoop decVal fuel t' = y at this ⊢
          cases x <;> cases y <;> simp_all

end PV.C20
