import PV.C20.Lemmas.ModelDriver
import PV.C20.Lemmas.Canon
/-! C20 helper lemmas — recursion equations of the model driver in the same shape, and the main lemma `parseM_eq_canonS`. -/
namespace PV.C20
open Model Spec

/-- prepending text to what the model driver returns -/
theorem parseM_push (c : Nat) (l r : List Nat) (t' : List Nat)
    (hr : litRun t' = (l, r)) :
    (parseM r).map (fun ps => Part.literal (c :: l) :: ps) = (parseM t').map (pushLiteral [c]) := by
  cases t' with
  | nil =>
    simp [litRun] at hr
    obtain ⟨h1, h2⟩ := hr
    subst h1 h2
    simp [parseM_nil, pushLiteral]
  | cons d rest =>
    rw [parseM_eq (d :: rest) (by simp)]
    rw [hr]
    by_cases hl : l = []
    · subst hl
      have := litRun_nil (d :: rest) (by rw [hr])
      rw [hr] at this
      simp only at this
      subst this
      simp only [ne_eq, not_true_eq_false, ↓reduceIte]
      rw [parseM_eq (d :: rest) (by simp), hr]
      simp only [ne_eq, not_true_eq_false, ↓reduceIte]
      cases accepted (parseSpec (d :: rest)) with
      | none => simp
      | some p =>
        simp only [Option.bind_some]
        cases parseM p.2 <;> simp [pushLiteral]
    · simp only [ne_eq, hl, not_false_eq_true, ↓reduceIte]
      cases parseM r <;> simp [pushLiteral]

theorem parseM_plain (c : Nat) (t' : List Nat) (h : ¬ isBrace c) :
    parseM (c :: t') = (parseM t').map (pushLiteral [c]) := by
  rw [parseM_eq (c :: t') (by simp), litRun_plain c t' h]
  simp only [ne_eq, reduceCtorEq, not_false_eq_true, ↓reduceIte]
  exact parseM_push c _ _ t' rfl

theorem parseM_esc (c : Nat) (t' : List Nat) (h : isBrace c) :
    parseM (c :: c :: t') = (parseM t').map (pushLiteral [c]) := by
  rw [parseM_eq (c :: c :: t') (by simp), litRun_esc c t' h]
  simp only [ne_eq, reduceCtorEq, not_false_eq_true, ↓reduceIte]
  exact parseM_push c _ _ t' rfl

theorem parseM_field (b : List Nat) (hb : b.head? ≠ some 123) :
    parseM (123 :: b) =
      (accepted (parseSpec (123 :: b))).bind (fun p => (parseM p.2).map (fun ps => .field p.1 :: ps)) := by
  rw [parseM_eq (123 :: b) (by simp), litRun_single 123 b (Or.inl rfl) hb]
  simp

theorem parseM_rbrace (b : List Nat) (hb : b.head? ≠ some 125) : parseM (125 :: b) = none := by
  rw [parseM_eq (125 :: b) (by simp), litRun_single 125 b (Or.inr rfl) hb]
  simp [parseSpec]

/-- **main lemma**: the Rust splitter and CPython's parser produce the same part sequence, or both
    reject — for every template. -/
theorem parseM_eq_canonS (n : Nat) : ∀ t : List Nat, t.length ≤ n → parseM t = canonS t := by
  induction n with
  | zero =>
    intro t h
    have : t = [] := by cases t <;> simp_all
    subst this; rw [parseM_nil, canonS_nil]
  | succ n ih =>
    intro t hlen
    match t, hlen with
    | [], _ => rw [parseM_nil, canonS_nil]
    | [c], _ =>
      by_cases hb : isBrace c
      · rw [canonS_single c hb]
        rcases hb with h | h
        · subst h; rw [parseM_field [] (by simp)]; simp [parseSpec, nameLoop]
        · subst h; exact parseM_rbrace [] (by simp)
      · rw [parseM_plain c [] hb, canonS_plain c [] hb, parseM_nil, canonS_nil]
    | c :: d :: rest, hlen =>
      simp at hlen
      by_cases h1 : c = 123
      · subst h1
        by_cases h2 : d = 123
        · subst h2
          rw [parseM_esc 123 rest (Or.inl rfl), canonS_esc 123 rest (Or.inl rfl), ih rest (by omega)]
        · rw [parseM_field (d :: rest) (by simpa using h2), canonS_field d rest h2, field_eq]
          cases hx : accepted (parseField (d :: rest)) with
          | none => simp
          | some p =>
            obtain ⟨f, r⟩ := p
            have hlr := parseField_length _ _ _ ((accepted_eq_some _ _).mp hx)
            simp at hlr
            simp only [Option.bind_some]
            rw [ih r (by omega)]
      · by_cases h2 : c = 125
        · subst h2
          by_cases h3 : d = 125
          · subst h3
            rw [parseM_esc 125 rest (Or.inr rfl), canonS_esc 125 rest (Or.inr rfl), ih rest (by omega)]
          · rw [parseM_rbrace (d :: rest) (by simpa using h3), canonS_rbrace d rest h3]
        · have hb : ¬ isBrace c := by intro h; rcases h with h | h <;> contradiction
          rw [parseM_plain c _ hb, canonS_plain c _ hb, ih (d :: rest) (by simp; omega)]

end PV.C20
