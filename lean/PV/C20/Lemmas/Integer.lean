import PV.C20.Model
import PV.C20.Spec
import PV.C20.Domain
import PV.C20.Lemmas.Basic
/-! C20 helper lemmas — field names: `takeName` = CPython's scan, `usize::from_str` = `get_integer` inside the domain. -/
namespace PV.C20
open Model Spec

theorem takeName_eq (t : List Nat) : takeName t = upToDotOrBracket t := by
  induction t with
  | nil => rfl
  | cons c rest ih => simp only [takeName, upToDotOrBracket, ih]

theorem takeName_append (t : List Nat) : (takeName t).1 ++ (takeName t).2 = t := by
  induction t with
  | nil => rfl
  | cons c rest ih =>
    simp only [takeName]
    split
    · simp
    · simp [ih]

/-- per-character part of `fieldNameInDomain` -/
def charOk (decVal : Nat → Option Nat) (c : Nat) : Bool :=
  isAsciiDigit c || (decVal c).isNone

/-- digits: CPython's `get_integer` and `parse_index` read the same number, see the same non-number,
    and report "too many digits" on the same texts -/
theorem digits_eq (decVal : Nat → Option Nat)
    (hdec : ∀ c, isAsciiDigit c = true → decVal c = some (c - 48))
    (s : List Nat) : ∀ acc, (∀ c ∈ s, charOk decVal c = true) →
    accepted (getIntegerGo decVal acc s) = accepted (parseIndexGo acc s) := by
  induction s with
  | nil => intro acc _; simp [getIntegerGo, parseIndexGo, accepted]
  | cons c rest ih =>
    intro acc hc
    have hc1 := hc c (by simp)
    simp only [getIntegerGo, parseIndexGo]
    by_cases hd : isAsciiDigit c = true
    · have hd' : 48 ≤ c ∧ c ≤ 57 := by simpa [isAsciiDigit] using hd
      rw [hdec c hd]
      simp only [hd', and_self, ↓reduceIte]
      by_cases hov : acc > (ssizeMax - (c - 48)) / 10
      · have h2 : acc * 10 + (c - 48) > isizeMax := by
          simp only [ssizeMax] at hov; simp only [isizeMax]; omega
        simp [hov, h2, accepted]
      · have h2 : ¬ acc * 10 + (c - 48) > isizeMax := by
          simp only [ssizeMax] at hov; simp only [isizeMax]; omega
        simp only [hov, h2, ↓reduceIte]
        exact ih _ (fun x hx => hc x (by simp [hx]))
    · have hd' : ¬ (48 ≤ c ∧ c ≤ 57) := by simpa [isAsciiDigit] using hd
      simp [charOk, hd] at hc1
      simp [hc1, hd', accepted]

theorem integer_eq (decVal : Nat → Option Nat)
    (hdec : ∀ c, isAsciiDigit c = true → decVal c = some (c - 48))
    (s : List Nat) (hc : ∀ c ∈ s, charOk decVal c = true) :
    accepted (getInteger decVal s) = accepted (parseIndex s) := by
  unfold getInteger parseIndex
  by_cases h : s = []
  · simp [h, accepted]
  · simp only [h, ↓reduceIte]
    exact digits_eq decVal hdec s 0 hc

end PV.C20
