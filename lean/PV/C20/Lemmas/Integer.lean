import PV.C20.Model
import PV.C20.Spec
import PV.C20.Domain
import PV.C20.Lemmas.Basic
/-! C20 helper lemmas — field names: `takeName` = CPython's scan, `usize::from_str` = `get_integer` inside the domain. -/
namespace PV.C20
open Model Spec

theorem takeName_eq (t : List Nat) : takeName t = upToDotOrBracket t := by
  induction t with
  | nil => rfl
  | cons c rest ih => simp only [takeName, upToDotOrBracket, ih]

theorem takeName_append (t : List Nat) : (takeName t).1 ++ (takeName t).2 = t := by
  induction t with
  | nil => rfl
  | cons c rest ih =>
    simp only [takeName]
    split
    · simp
    · simp [ih]

/-- per-character part of `fieldNameInDomain` -/
def charOk (decVal : Nat → Option Nat) (c : Nat) : Bool :=
  c != 43 && (isAsciiDigit c || (decVal c).isNone)

theorem runsSmall_append (a b : List Nat) : ∀ v, runsSmall v (a ++ b) = true → ∃ v', runsSmall v' b = true := by
  induction a with
  | nil => intro v h; exact ⟨v, h⟩
  | cons c rest ih =>
    intro v h
    simp only [List.cons_append, runsSmall] at h
    split at h
    · simp at h; exact ih _ h.2
    · exact ih _ h

/-- digits: inside the domain CPython's `get_integer` and Rust's `usize::from_str` read the same
    number (or both see a non-number) -/
theorem digits_eq (decVal : Nat → Option Nat)
    (hdec : ∀ c, isAsciiDigit c = true → decVal c = some (c - 48))
    (s tail : List Nat) : ∀ acc, (∀ c ∈ s, charOk decVal c = true) → runsSmall acc (s ++ tail) = true →
    getIntegerGo decVal acc s = .ok (parseDigits acc s) := by
  induction s with
  | nil => intro acc _ _; simp [getIntegerGo, parseDigits]
  | cons c rest ih =>
    intro acc hc hr
    have hc1 := hc c (by simp)
    simp only [List.cons_append, runsSmall] at hr
    simp only [getIntegerGo, parseDigits]
    by_cases hd : isAsciiDigit c = true
    · have hd' : 48 ≤ c ∧ c ≤ 57 := by simpa [isAsciiDigit] using hd
      simp [hd] at hr
      rw [hdec c hd]
      simp only [hd', and_self, ↓reduceIte]
      have h1 : ¬ acc > (ssizeMax - (c - 48)) / 10 := by
        simp only [ssizeMax]; omega
      have h2 : ¬ acc * 10 + (c - 48) > usizeMax := by
        simp only [usizeMax]; omega
      simp only [h1, h2, ↓reduceIte]
      exact ih _ (fun x hx => hc x (by simp [hx])) hr.2
    · have hd' : ¬ (48 ≤ c ∧ c ≤ 57) := by simpa [isAsciiDigit] using hd
      simp [charOk, hd] at hc1
      simp [hc1.2, hd']

theorem integer_eq (decVal : Nat → Option Nat)
    (hdec : ∀ c, isAsciiDigit c = true → decVal c = some (c - 48))
    (s tail : List Nat) (hc : ∀ c ∈ s, charOk decVal c = true) (hr : runsSmall 0 (s ++ tail) = true) :
    getInteger decVal s = .ok (parseUsize s) := by
  cases s with
  | nil => simp [getInteger, parseUsize]
  | cons c rest =>
    have hc1 := hc c (by simp)
    have h43 : c ≠ 43 := by simp [charOk] at hc1; exact hc1.1
    have : parseUsize (c :: rest) = parseDigits 0 (c :: rest) := by
      unfold parseUsize
      split <;> simp_all
    rw [this]
    simp only [getInteger, reduceCtorEq, ↓reduceIte]
    exact digits_eq decVal hdec (c :: rest) tail 0 hc hr

end PV.C20
