import PV.C20.Lemmas.Template
import PV.C20.Lemmas.Accessors
/-!
  C20 — helper lemmas (the pieces live in `PV/C20/Lemmas/*.lean`; this file collects what
  `Thm.lean` uses).

  Template splitter (code as repaired in /repo commit eebce66: one-pass `parse_spec`).
  `FieldEq`: the model's field-name loop, conversion step and spec loop accept exactly what CPython's
  `parse_field` accepts (`field_eq`, all inputs).  `Literal`: `parse_literal` computes the maximal
  literal run.  `ModelDriver`, `SpecDriver`: lengths decrease, so the fuel of the three loops is
  irrelevant.  `Canon`/`Template`: both drivers satisfy the same recursion equations (plain character /
  doubled brace / field / single `}`); induction on the length gives `parseM_eq_canonS`.

  Field names: `Integer` relates `usize::from_str` and `get_integer`, `Accessors` steps the two
  accessor loops in lockstep (same fuel on both sides).
-/
namespace PV.C20
open Model Spec

theorem fieldname_main (decVal : Nat → Option Nat)
    (hdec : ∀ c, isAsciiDigit c = true → decVal c = some (c - 48))
    (t : List Nat) (h : fieldNameInDomain decVal t = true) :
    accepted (parseFieldName t) = accepted (fieldNameSplit decVal t) := by
  simp only [fieldNameInDomain, List.all_eq_true] at h
  have happ := takeName_append t
  have hc' : ∀ c ∈ t, charOk decVal c = true := fun c hx => by simpa [charOk] using h c hx
  have hint := integer_eq decVal hdec (takeName t).1
    (fun c hx => hc' c (by rw [← happ]; simp [hx]))
  have hrest : restOk decVal (takeName t).2 :=
    restOk_append decVal (takeName t).1 _ (by rw [happ]; exact hc')
  have hparts := parts_eq decVal hdec (t.length + 1) _ hrest
  simp only [parseFieldName, fieldNameSplit, ← takeName_eq]
  generalize partsLoop (t.length + 1) (takeName t).2 = x at hparts ⊢
  generalize accessorsLoop decVal (t.length + 1) (takeName t).2 = y at hparts ⊢
  by_cases hf : (takeName t).1 = []
  · simp only [hf, ↓reduceIte, getInteger]
    cases x <;> cases y <;> simp_all [accepted]
  · simp only [hf, ↓reduceIte]
    generalize getInteger decVal (takeName t).1 = u at hint ⊢
    generalize parseIndex (takeName t).1 = v at hint ⊢
    cases u with
    | error e1 =>
      cases v with
      | error e2 => simp [accepted]
      | ok w => simp [accepted] at hint
    | ok w1 =>
      cases v with
      | error e2 => simp [accepted] at hint
      | ok w2 =>
        simp [accepted] at hint
        subst hint
        cases w1 <;> cases x <;> cases y <;> simp_all [accepted]

/-- every brace doubled (what a caller writes to get literal braces) -/
def escapeBraces : List Nat → List Nat
  | [] => []
  | c :: rest => if c = 123 ∨ c = 125 then c :: c :: escapeBraces rest else c :: escapeBraces rest

theorem parseM_escape (s : List Nat) :
    parseM (escapeBraces s) = some (if s = [] then [] else [.literal s]) := by
  induction s with
  | nil => simp [escapeBraces, parseM_nil]
  | cons c rest ih =>
    simp only [escapeBraces]
    by_cases hb : c = 123 ∨ c = 125
    · simp only [hb, ↓reduceIte]
      rw [parseM_esc c _ hb, ih]
      by_cases hr : rest = [] <;> simp [hr, pushLiteral]
    · simp only [hb, ↓reduceIte]
      rw [parseM_plain c _ hb, ih]
      by_cases hr : rest = [] <;> simp [hr, pushLiteral]

theorem canonS_escape (s : List Nat) :
    canonS (escapeBraces s) = some (if s = [] then [] else [.literal s]) := by
  induction s with
  | nil => simp [escapeBraces, canonS_nil]
  | cons c rest ih =>
    simp only [escapeBraces]
    by_cases hb : c = 123 ∨ c = 125
    · simp only [hb, ↓reduceIte]
      rw [canonS_esc c _ hb, ih]
      by_cases hr : rest = [] <;> simp [hr, pushLiteral]
    · simp only [hb, ↓reduceIte]
      rw [canonS_plain c _ hb, ih]
      by_cases hr : rest = [] <;> simp [hr, pushLiteral]

end PV.C20
