import PV.C11.LemmasY
/-
  C11 — the induction over the extended fragment (`fx`, lean/PV/C11/Fragment.lean): every expression of the
  fragment standing in an operand position is `GoodP` (read back at every level, in left-operand form, in trailer
  form; facts about its first tokens).  Induction on the size of the tree; the other positions (element, subscript,
  comprehension target) are derived from the operand statement for trees of at most the same size.
-/
namespace PV.C11
open PV.Expr

/-! ## sizes -/

theorem esize_pos (e : Expr) : 0 < esize e := by
  cases e with
  | yield v => cases v <;> simp [esize] <;> omega
  | formattedValue v c s => cases s <;> simp [esize] <;> omega
  | _ => simp [esize] <;> omega

theorem esize_mem {x : Expr} {es : List Expr} (h : x ∈ es) : esize x ≤ esizeList es := by
  induction es with
  | nil => cases h
  | cons e es ih =>
    rcases List.mem_cons.mp h with rfl | h'
    · simp [esizeList]
    · have := ih h'; simp [esizeList]; omega

/-! ## `Plain` for the constructors that are never parenthesised -/

/-- a node whose rendering starts with the same non-name atom token at every level -/
theorem plain_fixed (p : Nat → Bool) {e : Expr} {t : Tok} (ht : ∀ lvl, 1 ≤ lvl → ∃ r, toks (unparse p e lvl) = t :: r)
    (hg : goodHead Prec.ATOM t = true) (hn : ∀ n, t ≠ .name n) (hns : isStarred e = false) : Plain p e where
  head := fun lvl h1 => by
    obtain ⟨r, hr⟩ := ht lvl h1
    exact ⟨t, r, hr, goodHead_anti_atom hg⟩
  nobind := fun lvl h1 => by
    obtain ⟨r, hr⟩ := ht lvl h1
    rw [hr]; exact NoBind.of_head hn
  ns := hns

/-- a trailer on an operand: the rendering starts with the operand's atom-level rendering -/
theorem plain_trailer (p : Nat → Bool) {v e : Expr} (hv : Plain p v) {c : Tok} (hc1 : c ≠ .op .walrus)
    (hc2 : c ≠ .op .assign) (h : ∀ lvl, ∃ r, toks (unparse p e lvl) = toks (unparse p v 15) ++ c :: r)
    (hns : isStarred e = false) : Plain p e where
  head := fun lvl _ => by
    obtain ⟨r, hr⟩ := h lvl
    obtain ⟨t, tr, ht, hg⟩ := hv.head 15 (by omega)
    exact ⟨t, tr ++ c :: r, by rw [hr, ht]; rfl, goodHead_anti_atom hg⟩
  nobind := fun lvl _ => by
    obtain ⟨r, hr⟩ := h lvl
    rw [hr]
    exact (hv.nobind 15 (by omega)).append (hv.ne_nil 15 (by omega)) hc1 hc2 r
  ns := hns

theorem good_name (p : Nat → Bool) (id : Ident) : GoodP p (.name id) where
  good := good_of_trail p rfl ⟨.name id, [], by simp [unparse], rfl⟩
    (trailRT_of_atomRT (fun rest _ => by simpa [unparse] using atom_name id rest))
  plain :=
    { head := fun lvl _ => ⟨.name id, [], by simp [unparse], rfl⟩
      nobind := fun lvl _ => by simpa [unparse] using NoBind.single (.name id)
      ns := rfl }

theorem good_const (p : Nat → Bool) (c : Const) : GoodP p (.const c) where
  good := good_of_trail p rfl ⟨constTok c, [], by simp [unparse], goodHead_constTok c⟩
    (trailRT_of_atomRT (fun rest hr => by simpa [unparse] using atom_const c rest hr))
  plain :=
    { head := fun lvl _ => ⟨constTok c, [], by simp [unparse], goodHead_anti_atom (goodHead_constTok c)⟩
      nobind := fun lvl _ => by simpa [unparse] using NoBind.single (constTok c)
      ns := rfl }

theorem good_attribute (p : Nat → Bool) (v : Expr) (n : Ident) (hv : GoodP p v) : GoodP p (.attribute v n) := by
  have hP : Plain p (.attribute v n) :=
    plain_trailer p hv.plain (c := .op .dot) (by simp) (by simp)
      (fun lvl => ⟨[.name n], by by_cases hi : isIntConst v = true <;> simp [unparse, hi, Prec.ATOM, op]⟩) rfl
  exact ⟨good_of_trail p rfl (hP.head 15 (by omega)) (trailRT_attribute p v n hv.good.trail), hP⟩

theorem good_subscript (p : Nat → Bool) (v s : Expr) (hv : GoodP p v) (hs : SubOK p s) : GoodP p (.subscript v s) := by
  have hP : Plain p (.subscript v s) :=
    plain_trailer p hv.plain (c := .op .lsqb) (by simp) (by simp)
      (fun lvl => ⟨toks (unparse p s 0) ++ [.op .rsqb], by simp [unparse, Prec.ATOM, Prec.TUPLE, op]⟩) rfl
  exact ⟨good_of_trail p rfl (hP.head 15 (by omega)) (trailRT_subscript p v s hv.good.trail hs), hP⟩

theorem good_call (p : Nat → Bool) (fn : Expr) (args : List Expr) (ks : List Keyword)
    (hgen : ∀ e gs, ¬ (args = [.genExp e gs] ∧ ks = []))
    (hf : GoodP p fn) (hargs : ∀ x ∈ args, ElemOK p x) (hks : GoodKws p ks) (hfr : kwFresh [] ks = true) :
    GoodP p (.call fn args ks) := by
  have hP : Plain p (.call fn args ks) :=
    plain_trailer p hf.plain (c := .op .lpar) (by simp) (by simp)
      (fun lvl => ⟨_, toks_call p fn args ks lvl hgen⟩) rfl
  refine ⟨good_of_trail p ?_ (hP.head 15 (by omega)) (trailRT_call p fn args ks hgen hf.good.trail hargs hks hfr), hP⟩
  cases args <;> rfl

theorem good_call_gen (p : Nat → Bool) (fn e : Expr) (gs : List Comp) (hf : GoodP p fn) (he : GoodP p e)
    (hne : gs ≠ []) (hgs : GoodComps p gs) : GoodP p (.call fn [.genExp e gs] []) := by
  have hP : Plain p (.call fn [.genExp e gs] []) :=
    plain_trailer p hf.plain (c := .op .lpar) (by simp) (by simp)
      (fun lvl => ⟨_, toks_call_gen p fn e gs lvl⟩) rfl
  exact ⟨good_of_trail p rfl (hP.head 15 (by omega)) (trailRT_call_gen p fn e gs hf.good.trail he hne hgs), hP⟩

/-- a node written inside its own brackets at every level -/
theorem good_bracket (p : Nat → Bool) {e : Expr} {t : Tok} (hk : kindPrec (kindOf e) = none)
    (ht : ∀ lvl, ∃ r, toks (unparse p e lvl) = t :: r)
    (hg : goodHead Prec.ATOM t = true) (hn : ∀ n, t ≠ .name n) (hns : isStarred e = false) (ha : AtomRT p e) :
    GoodP p e := by
  have hP := plain_fixed p (e := e) (fun lvl _ => ht lvl) hg hn hns
  exact ⟨good_of_trail p hk (hP.head 15 (by omega)) (trailRT_of_atomRT ha), hP⟩

/-! ## the operators -/

/-- `Plain` for an operator node whose rendering at its own level starts with its first operand -/
theorem plain_leftop (p : Nat → Bool) {e l : Expr} {prec ll : Nat} (hk : kindPrec (kindOf e) = some prec) (hp1 : 1 ≤ prec)
    (hll : prec ≤ ll) (hl : Plain p l) {c : Tok} (hc1 : c ≠ .op .walrus) (hc2 : c ≠ .op .assign)
    (h : ∃ r, toks (unparse p e prec) = toks (unparse p l ll) ++ c :: r) (hns : isStarred e = false) : Plain p e := by
  obtain ⟨r, hr⟩ := h
  obtain ⟨t, tr, ht, hg⟩ := hl.head ll (by omega)
  refine plain_of_own p hk hp1 ⟨t, tr ++ c :: r, by rw [hr, ht]; rfl, goodHead_anti hll hg⟩ ?_ hns
  rw [hr]
  exact (hl.nobind ll (by omega)).append (hl.ne_nil ll (by omega)) hc1 hc2 r

/-- `Plain` for a prefix-operator node -/
theorem plain_prefix (p : Nat → Bool) {e : Expr} {prec : Nat} (hk : kindPrec (kindOf e) = some prec) (hp1 : 1 ≤ prec)
    {t : Tok} (hg : goodHead prec t = true) (hn : ∀ n, t ≠ .name n)
    (h : ∃ r, toks (unparse p e prec) = t :: r) (hns : isStarred e = false) : Plain p e := by
  obtain ⟨r, hr⟩ := h
  refine plain_of_own p hk hp1 ⟨t, r, hr, hg⟩ ?_ hns
  rw [hr]; exact NoBind.of_head hn

theorem good_await (p : Nat → Bool) (x : Expr) (hx : GoodP p x) : GoodP p (.await x) := by
  have hP : Plain p (.await x) :=
    plain_prefix p (prec := 14) rfl (by omega) (t := .kw .await) rfl (by simp)
      ⟨_, by simp [unparse, groupIf, Prec.AWAIT, kw] <;> rfl⟩ rfl
  exact ⟨good_of_rt p hP (prec := 14) rfl (by omega) (by omega) (rt_await p x hP hx.good.rt) (fun k _ hk => by omega), hP⟩

theorem good_unary (p : Nat → Bool) (o : UnaryOp) (x : Expr) (hx : GoodP p x) : GoodP p (.unaryOp o x) := by
  by_cases ho : o = .not
  · subst ho
    have hP : Plain p (.unaryOp .not x) :=
      plain_prefix p (prec := 4) rfl (by omega) (t := .kw .not) rfl (by simp)
        ⟨_, by simp [unparse, groupIf, unaryOpPrec, Prec.NOT, unaryOpOuts, kw] <;> rfl⟩ rfl
    exact ⟨good_of_rt p hP (prec := 4) rfl (by omega) (by omega) (rt_not p x hP hx.good.rt) (fun k _ hk => by omega), hP⟩
  · have hprec : unaryOpPrec o = 12 := by cases o <;> first | rfl | exact absurd rfl ho
    have hk : kindPrec (kindOf (.unaryOp o x)) = some 12 := by simp [kindOf, kindPrec, hprec]
    have hP : Plain p (.unaryOp o x) :=
      plain_prefix p (prec := 12) hk (by omega) (t := unaryTok o)
        (by cases o <;> first | rfl | exact absurd rfl ho) (by cases o <;> simp [unaryTok])
        ⟨_, by simp [unparse, groupIf, hprec, toks_unaryOpOuts] <;> rfl⟩ rfl
    exact ⟨good_of_rt p hP (prec := 12) hk (by omega) (by omega) (rt_factor p o ho x hP hx.good.rt)
      (fun k _ hk => by omega), hP⟩

theorem binOpTok_ne (o : BinOp) : Tok.op (binOpTok o) ≠ .op .walrus ∧ Tok.op (binOpTok o) ≠ .op .assign := by
  cases o <;> simp [binOpTok]

theorem good_binOp (p : Nat → Bool) (l : Expr) (o : BinOp) (r : Expr) (hl : GoodP p l) (hr : GoodP p r) :
    GoodP p (.binOp l o r) := by
  by_cases ho : o = .pow
  · subst ho
    have hP : Plain p (.binOp l .pow r) :=
      plain_leftop p (prec := 13) (ll := 14) rfl (by omega) (by omega) hl.plain (c := .op .dstar) (by simp) (by simp)
        ⟨_, by simp [unparse, groupIf, binOpPrec, Prec.POWER, binOpTok, op] <;> rfl⟩ rfl
    exact ⟨good_of_rt p hP (prec := 13) rfl (by omega) (by omega)
      (rt_pow p l r hP hr.plain hl.good.rt hr.good.rt) (fun k _ hk => by omega), hP⟩
  · obtain ⟨hk5, hprec⟩ := binLevel_le o ho
    have hk : kindPrec (kindOf (.binOp l o r)) = some (binLevel o + 6) := by simp [kindOf, kindPrec, hprec]
    have hP : Plain p (.binOp l o r) :=
      plain_leftop p (prec := binLevel o + 6) (ll := binLevel o + 6) hk (by omega) (Nat.le_refl _) hl.plain
        (c := .op (binOpTok o)) (binOpTok_ne o).1 (binOpTok_ne o).2
        ⟨_, by simp [unparse, groupIf, ho, hprec, op] <;> rfl⟩ rfl
    refine ⟨good_of_rt p hP (prec := binLevel o + 6) hk (by omega) (by omega)
      (rt_bin p l o r ho hP (hl.good.loop _ hk5) hr.good.rt) (fun k _ hk' => ?_), hP⟩
    obtain rfl : k = binLevel o := by omega
    exact loopRT_bin p l o r ho (hl.good.loop _ hk5) hr.good.rt

theorem good_boolOp (p : Nat → Bool) (o : BoolOp) (v w : Expr) (ws : List Expr) (hv : GoodP p v)
    (hws : ∀ x ∈ w :: ws, GoodP p x) : GoodP p (.boolOp o (v :: w :: ws)) := by
  cases o with
  | and =>
    have hP : Plain p (.boolOp .and (v :: w :: ws)) :=
      plain_leftop p (prec := 3) (ll := 4) rfl (by omega) (by omega) hv.plain (c := .kw .and) (by simp) (by simp)
        ⟨_, by simp [unparse, groupIf, boolOpPrec, Prec.AND, boolOpKw, toks_unparseBool_cons, toks_unparseBool_cons'] <;> rfl⟩ rfl
    exact ⟨good_of_rt p hP (prec := 3) rfl (by omega) (by omega)
      (rt_and p v w ws hP hv.good.rt (fun x hx => (hws x hx).good.rt)) (fun k _ hk => by omega), hP⟩
  | or =>
    have hP : Plain p (.boolOp .or (v :: w :: ws)) :=
      plain_leftop p (prec := 2) (ll := 3) rfl (by omega) (by omega) hv.plain (c := .kw .or) (by simp) (by simp)
        ⟨_, by simp [unparse, groupIf, boolOpPrec, Prec.OR, boolOpKw, toks_unparseBool_cons, toks_unparseBool_cons'] <;> rfl⟩ rfl
    exact ⟨good_of_rt p hP (prec := 2) rfl (by omega) (by omega)
      (rt_or p v w ws hP hv.good.rt (fun x hx => (hws x hx).good.rt)) (fun k _ hk => by omega), hP⟩

theorem good_ifExp (p : Nat → Bool) (t b o : Expr) (ht : GoodP p t) (hb : GoodP p b) (ho : GoodP p o) :
    GoodP p (.ifExp t b o) := by
  have hP : Plain p (.ifExp t b o) :=
    plain_leftop p (prec := 1) (ll := 2) rfl (by omega) (by omega) hb.plain (c := .kw .if) (by simp) (by simp)
      ⟨_, by simp [unparse, groupIf, Prec.TEST, kw] <;> rfl⟩ rfl
  exact ⟨good_of_rt p hP (prec := 1) rfl (by omega) (by omega)
    (rt_ifExp p t b o hP hb.plain ht.good.rt hb.good.rt ho.good.rt) (fun k _ hk => by omega), hP⟩

theorem good_compare (p : Nat → Bool) (l : Expr) (o : CmpOp) (os : List CmpOp) (c : Expr) (cs : List Expr)
    (hlen : os.length = cs.length) (hl : GoodP p l) (hcs : ∀ x ∈ c :: cs, GoodP p x) :
    GoodP p (.compare l (o :: os) (c :: cs)) := by
  obtain ⟨t', r', h'⟩ : ∃ t' r', toks (cmpOpOuts o) = t' :: r' := by cases o <;> simp [cmpOpOuts, toks, op, kw]
  have hne1 : t' ≠ .op .walrus := by cases o <;> simp [cmpOpOuts, toks, op, kw] at h' <;> rw [← h'.1] <;> simp
  have hne2 : t' ≠ .op .assign := by cases o <;> simp [cmpOpOuts, toks, op, kw] at h' <;> rw [← h'.1] <;> simp
  have hP : Plain p (.compare l (o :: os) (c :: cs)) :=
    plain_leftop p (prec := 5) (ll := 6) rfl (by omega) (by omega) hl.plain (c := t') hne1 hne2
      ⟨r' ++ (toks (unparse p c 6) ++ toks (unparseCmps p os cs)), by
        simp [unparse, groupIf, Prec.CMP, unparseCmps, h']⟩ rfl
  exact ⟨good_of_rt p hP (prec := 5) rfl (by omega) (by omega)
    (rt_compare p l (o :: os) (c :: cs) hP (by simp [hlen]) (by simp) hl.good.rt
      (fun x hx => ⟨(hcs x hx).good.rt, (hcs x hx).plain⟩)) (fun k _ hk => by omega), hP⟩

/-! ## positions of the extended fragment -/

/-- outside the subscript, tuple-of-target positions, `fx` of a node that is neither `Starred` nor `Slice` does not
    depend on the position -/
theorem fx_to_plain {q : XPos} {e : Expr} (h : fx q e = true) (hs : isStarred e = false) (hsl : isSlice e = false)
    (ht : ∀ es, e = .tuple es → q.tupleElem = .elem) : fx .plain e = true := by
  cases e with
  | tuple es =>
    have := ht es rfl
    simp only [fx] at h ⊢
    rw [this] at h; exact h
  | starred v => simp [isStarred] at hs
  | slice a b c => simp [isSlice] at hsl
  | yield v => cases v <;> simp_all [fx]
  | _ => simp_all [fx]

/-- only a non-empty tuple and a named expression are parenthesised from level 1 on -/
theorem prec_ne_zero (e : Expr) (h1 : ∀ t v, e ≠ .namedExpr t v) (h2 : ∀ x xs, e ≠ .tuple (x :: xs)) :
    kindPrec (kindOf e) ≠ some 0 := by
  cases e with
  | tuple es =>
    cases es with
    | nil => simp [kindOf, kindPrec]
    | cons x xs => exact absurd rfl (h2 x xs)
  | namedExpr t v => exact absurd rfl (h1 t v)
  | boolOp o _ => cases o <;> simp [kindOf, kindPrec, boolOpPrec, Prec.AND, Prec.OR]
  | unaryOp o _ => cases o <;> simp [kindOf, kindPrec, unaryOpPrec, Prec.NOT, Prec.FACTOR]
  | binOp _ o _ =>
    cases o <;> simp [kindOf, kindPrec, binOpPrec, Prec.ARITH, Prec.TERM, Prec.POWER, Prec.SHIFT, Prec.BOR,
      Prec.BXOR, Prec.BAND]
  | _ => simp [kindOf, kindPrec, Prec.TEST, Prec.CMP, Prec.AWAIT]

theorem fx_not_slice {q : XPos} {e : Expr} (h : fx q e = true) (h1 : q ≠ .sub) (h2 : q ≠ .subElem) :
    isSlice e = false := by
  cases e with
  | slice a b c => cases q <;> simp_all [fx]
  | _ => rfl

/-! ## from operands to the other positions (trees of at most the same size) -/

section derived
variable (p : Nat → Bool) (n : Nat) (H : ∀ e, esize e ≤ n → fx .plain e = true → GoodP p e)
include H

theorem elem_of (e : Expr) (hs : esize e ≤ n) (h : fx .elem e = true) : ElemOK p e := by
  cases e with
  | starred v => exact .star (H v (by simp [esize] at hs; omega) (by simpa [fx] using h))
  | _ =>
    exact .plain (H _ hs (fx_to_plain h rfl (fx_not_slice h (by decide) (by decide)) (by intro es he; rfl)))

theorem elems_of : (es : List Expr) → esizeList es ≤ n → fxList .elem es = true → ∀ x ∈ es, ElemOK p x
  | [], _, _ => by simp
  | e :: es, hs, h => by
    simp only [fxList, Bool.and_eq_true] at h
    simp only [esizeList] at hs
    intro x hx
    rcases List.mem_cons.mp hx with rfl | hx'
    · exact elem_of p n H _ (by omega) h.1
    · exact elems_of es (by omega) h.2 x hx'

theorem plains_of : (es : List Expr) → esizeList es ≤ n → fxList .plain es = true → ∀ x ∈ es, GoodP p x
  | [], _, _ => by simp
  | e :: es, hs, h => by
    simp only [fxList, Bool.and_eq_true] at h
    simp only [esizeList] at hs
    intro x hx
    rcases List.mem_cons.mp hx with rfl | hx'
    · exact H _ (by omega) h.1
    · exact plains_of es (by omega) h.2 x hx'

theorem opt_of (o : Option Expr) (hs : esizeOpt o ≤ n) (h : fxOpt o = true) : GoodOpt p o := by
  cases o with
  | none => trivial
  | some e => exact H e (by simpa [esizeOpt] using hs) (by simpa [fxOpt] using h)

theorem subElem_of (e : Expr) (hs : esize e ≤ n) (h : fx .subElem e = true) : SubElemOK p e := by
  cases e with
  | starred v => exact .star (H v (by simp [esize] at hs; omega) (by simpa [fx] using h))
  | slice lo hi st =>
    simp only [fx, Bool.and_eq_true] at h
    simp only [esize] at hs
    exact .slice (opt_of p n H lo (by omega) h.1.1.2) (opt_of p n H hi (by omega) h.1.2) (opt_of p n H st (by omega) h.2)
  | _ => exact .plain (H _ hs (fx_to_plain h rfl rfl (by intro es he; rfl)))

theorem subElems_of : (es : List Expr) → esizeList es ≤ n → fxList .subElem es = true → ∀ x ∈ es, SubElemOK p x
  | [], _, _ => by simp
  | e :: es, hs, h => by
    simp only [fxList, Bool.and_eq_true] at h
    simp only [esizeList] at hs
    intro x hx
    rcases List.mem_cons.mp hx with rfl | hx'
    · exact subElem_of p n H _ (by omega) h.1
    · exact subElems_of es (by omega) h.2 x hx'

theorem sub_of (e : Expr) (hs : esize e ≤ n) (h : fx .sub e = true) : SubOK p e := by
  have hst : ¬ ∃ v, e = .starred v := by
    rintro ⟨v, rfl⟩
    simp [fx] at h
  by_cases hsl : ∃ lo hi st, e = .slice lo hi st
  · obtain ⟨lo, hi, st, rfl⟩ := hsl
    simp only [fx, Bool.and_eq_true] at h
    simp only [esize] at hs
    exact subOK_slice p (opt_of p n H lo (by omega) h.1.1.2) (opt_of p n H hi (by omega) h.1.2) (opt_of p n H st (by omega) h.2)
  by_cases hnm : ∃ t v, e = .namedExpr t v
  · obtain ⟨t, v, rfl⟩ := hnm
    simp only [fx, Bool.and_eq_true] at h
    cases t with
    | name id => exact subOK_named p id (H v (by simp [esize] at hs; omega) h.2)
    | _ => simp [isName] at h
  by_cases htp : ∃ x xs, e = .tuple (x :: xs)
  · obtain ⟨x, xs, rfl⟩ := htp
    exact subOK_tuple p x xs (subElems_of p n H (x :: xs) (by simp [esize] at hs; omega) (by simpa [fx, XPos.tupleElem] using h))
  · have hns : isStarred e = false := by
      cases e <;> first | rfl | exact absurd ⟨_, rfl⟩ hst
    have hnsl : isSlice e = false := by
      cases e <;> first | rfl | exact absurd ⟨_, _, _, rfl⟩ hsl
    have hpl : fx .plain e = true := by
      cases e with
      | tuple es =>
        cases es with
        | nil => simp [fx, fxList]
        | cons x xs => exact absurd ⟨x, xs, rfl⟩ htp
      | _ => exact fx_to_plain h hns hnsl (by intro es he; cases he)
    exact subOK_of_elem p (.plain (H e hs hpl))
      (unparse_level_succ p e 0 (prec_ne_zero e (fun t v he => hnm ⟨t, v, he⟩) (fun x xs he => htp ⟨x, xs, he⟩))) hns

theorem targetElem_of (e : Expr) (hs : esize e ≤ n) (h : fx .targetElem e = true) : TargetElemOK p e := by
  cases e with
  | starred v => exact .star (H v (by simp [esize] at hs; omega) (by simpa [fx] using h))
  | _ =>
    exact .plain (H _ hs (fx_to_plain h rfl (fx_not_slice h (by decide) (by decide)) (by intro es he; rfl)))

theorem targetElems_of : (es : List Expr) → esizeList es ≤ n → fxList .targetElem es = true →
    ∀ x ∈ es, TargetElemOK p x
  | [], _, _ => by simp
  | e :: es, hs, h => by
    simp only [fxList, Bool.and_eq_true] at h
    simp only [esizeList] at hs
    intro x hx
    rcases List.mem_cons.mp hx with rfl | hx'
    · exact targetElem_of p n H _ (by omega) h.1
    · exact targetElems_of es (by omega) h.2 x hx'

theorem target_of (e : Expr) (hs : esize e ≤ n) (h : fx .target e = true) : TargetOK p e := by
  by_cases hst : ∃ v, e = .starred v
  · obtain ⟨v, rfl⟩ := hst
    exact targetOK_single p (.star (H v (by simp [esize] at hs; omega) (by simpa [fx] using h)))
      (by intro x xs he; cases he)
  by_cases htp : ∃ x xs, e = .tuple (x :: xs)
  · obtain ⟨x, xs, rfl⟩ := htp
    exact targetOK_tuple p x xs
      (targetElems_of p n H (x :: xs) (by simp [esize] at hs; omega) (by simpa [fx, XPos.tupleElem] using h))
  · have hns : isStarred e = false := by
      cases e <;> first | rfl | exact absurd ⟨_, rfl⟩ hst
    have hpl : fx .plain e = true := by
      cases e with
      | tuple es =>
        cases es with
        | nil => simp [fx, fxList]
        | cons x xs => exact absurd ⟨x, xs, rfl⟩ htp
      | _ => exact fx_to_plain h hns (fx_not_slice h (by decide) (by decide)) (by intro es he; cases he)
    exact targetOK_single p (.plain (H e hs hpl)) (fun x xs he => htp ⟨x, xs, he⟩)

theorem comps_of : (gs : List Comp) → esizeComps gs ≤ n → fxComps gs = true → GoodComps p gs
  | [], _, _ => trivial
  | .mk t i ifs a :: gs, hs, h => by
    simp only [fxComps, Bool.and_eq_true] at h
    simp only [esizeComps] at hs
    exact ⟨target_of p n H t (by omega) h.1.1.1, H i (by omega) h.1.1.2, plains_of p n H ifs (by omega) h.1.2,
      comps_of gs (by omega) h.2⟩

theorem pars_of : (ps : List Param) → esizeParams ps ≤ n → fxParams ps = true → GoodPars p ps
  | [], _, _ => by intro m d hm; cases hm
  | .mk m0 d0 :: ps, hs, h => by
    simp only [fxParams, Bool.and_eq_true] at h
    simp only [esizeParams] at hs
    intro m d hm
    rcases List.mem_cons.mp hm with heq | hm'
    · cases heq
      exact H d (by simp [esizeOpt] at hs; omega) (by simpa [fxOpt] using h.1)
    · exact pars_of ps (by omega) h.2 m d hm'

theorem kws_of : (ks : List Keyword) → esizeKeywords ks ≤ n → fxKeywords ks = true → GoodKws p ks
  | [], _, _ => trivial
  | .mk a v :: ks, hs, h => by
    simp only [fxKeywords, Bool.and_eq_true] at h
    simp only [esizeKeywords] at hs
    exact ⟨H v (by omega) h.1, kws_of ks (by omega) h.2⟩

theorem items_of : (is : List DictItem) → esizeItems is ≤ n → fxItems is = true → GoodItems p is
  | [], _, _ => trivial
  | .mk none v :: is, hs, h => by
    simp only [fxItems, Bool.and_eq_true] at h
    simp only [esizeItems] at hs
    have hv := H v (by omega) h.1
    exact ⟨⟨hv.good.rt, hv.plain⟩, items_of is (by omega) h.2⟩
  | .mk (some k) v :: is, hs, h => by
    simp only [fxItems, Bool.and_eq_true] at h
    simp only [esizeItems, esizeOpt] at hs
    have hk := H k (by omega) h.1.1
    have hv := H v (by omega) h.1.2
    exact ⟨⟨hk.good.rt, hk.plain⟩, ⟨hv.good.rt, hv.plain⟩, items_of is (by omega) h.2⟩

end derived

/-! ## the induction -/

theorem good_tuple (p : Nat → Bool) (es : List Expr) (hes : ∀ x ∈ es, ElemOK p x) : GoodP p (.tuple es) := by
  have hlvl : ∀ lvl, 1 ≤ lvl → unparse p (.tuple es) lvl = unparse p (.tuple es) 15 := by
    intro lvl h1
    cases es with
    | nil => simp [unparse]
    | cons x xs =>
      rw [unparse_group p _ lvl Prec.TUPLE rfl, unparse_group p _ 15 Prec.TUPLE rfl]
      have : decide (lvl > Prec.TUPLE) = decide (15 > Prec.TUPLE) := by simp [Prec.TUPLE]; omega
      rw [this]
  have h15 : ∃ r, toks (unparse p (.tuple es) 15) = .op .lpar :: r := by
    cases es with
    | nil => exact ⟨_, by simp [unparse, op] <;> rfl⟩
    | cons x xs => exact ⟨_, by simp [unparse, groupIf, Prec.TUPLE, op] <;> rfl⟩
  have hP : Plain p (.tuple es) :=
    plain_fixed p (t := .op .lpar) (fun lvl h1 => by rw [hlvl lvl h1]; exact h15) rfl (by simp) rfl
  refine ⟨good_of_trail' p hlvl ?_ (hP.head 15 (by omega)) (trailRT_of_atomRT (atomRT_tuple p es hes)), hP⟩
  intro k
  cases es <;> simp [kindOf, kindPrec, Prec.TUPLE]

/-- **every expression of the extended fragment is read back**, in each of the three forms the callers need -/
theorem rt_allX (p : Nat → Bool) : ∀ n e, esize e ≤ n → fx .plain e = true → GoodP p e := by
  intro n
  induction n with
  | zero => intro e hs _; have := esize_pos e; omega
  | succ n ih =>
    intro e hs h
    cases e with
    | name id => exact good_name p id
    | const c => exact good_const p c
    | boolOp o vs =>
      simp only [fx, Bool.and_eq_true, decide_eq_true_eq] at h
      simp only [esize] at hs
      have hvs := plains_of p n ih vs (by omega) h.2
      cases vs with
      | nil => simp at h
      | cons v vs' =>
        cases vs' with
        | nil => simp at h
        | cons w ws =>
          exact good_boolOp p o v w ws (hvs v (List.mem_cons_self ..)) (fun x hx => hvs x (List.mem_cons_of_mem _ hx))
    | namedExpr t v =>
      simp only [fx, Bool.and_eq_true] at h
      simp only [esize] at hs
      cases t with
      | name id => exact good_named p id (ih v (by omega) h.2)
      | _ => simp [isName] at h
    | binOp l o r =>
      simp only [fx, Bool.and_eq_true] at h
      simp only [esize] at hs
      exact good_binOp p l o r (ih l (by omega) h.1) (ih r (by omega) h.2)
    | unaryOp o x =>
      simp only [fx] at h
      simp only [esize] at hs
      exact good_unary p o x (ih x (by omega) h)
    | lambda po ar va ko kw b =>
      simp only [fx, Bool.and_eq_true] at h
      simp only [esize] at hs
      exact good_lambda p po ar va ko kw b (pars_of p n ih po (by omega) h.1.1.1.1)
        (pars_of p n ih ar (by omega) h.1.1.1.2) (pars_of p n ih ko (by omega) h.1.1.2) h.1.2 (ih b (by omega) h.2)
    | ifExp t b o =>
      simp only [fx, Bool.and_eq_true] at h
      simp only [esize] at hs
      exact good_ifExp p t b o (ih t (by omega) h.1.1) (ih b (by omega) h.1.2) (ih o (by omega) h.2)
    | dict items =>
      simp only [fx] at h
      simp only [esize] at hs
      exact good_bracket p (t := .op .lbrace) rfl (fun lvl => ⟨_, by simp [unparse, op] <;> rfl⟩) rfl (by simp) rfl
        (atomRT_dict p items (items_of p n ih items (by omega) h))
    | set es =>
      simp only [fx, Bool.and_eq_true] at h
      simp only [esize] at hs
      have hes := elems_of p n ih es (by omega) h.2
      cases es with
      | nil => simp at h
      | cons x xs =>
        exact good_bracket p (t := .op .lbrace) rfl (fun lvl => ⟨_, by simp [unparse, op] <;> rfl⟩) rfl (by simp) rfl
          (atomRT_set p x xs hes)
    | listComp e gs =>
      simp only [fx, Bool.and_eq_true] at h
      simp only [esize] at hs
      exact good_bracket p (t := .op .lsqb) rfl (fun lvl => ⟨_, by simp [unparse, op] <;> rfl⟩) rfl (by simp) rfl
        (atomRT_listComp p e gs (elem_of p n ih e (by omega) h.1.1) (by intro hg; simp [hg] at h)
          (comps_of p n ih gs (by omega) h.2))
    | setComp e gs =>
      simp only [fx, Bool.and_eq_true] at h
      simp only [esize] at hs
      exact good_bracket p (t := .op .lbrace) rfl (fun lvl => ⟨_, by simp [unparse, op] <;> rfl⟩) rfl (by simp) rfl
        (atomRT_setComp p e gs (ih e (by omega) h.1.1) (by intro hg; simp [hg] at h)
          (comps_of p n ih gs (by omega) h.2))
    | dictComp k v gs =>
      simp only [fx, Bool.and_eq_true] at h
      simp only [esize] at hs
      exact good_bracket p (t := .op .lbrace) rfl (fun lvl => ⟨_, by simp [unparse, op] <;> rfl⟩) rfl (by simp) rfl
        (atomRT_dictComp p k v gs (ih k (by omega) h.1.1.1) (ih v (by omega) h.1.1.2) (by intro hg; simp [hg] at h)
          (comps_of p n ih gs (by omega) h.2))
    | genExp e gs =>
      simp only [fx, Bool.and_eq_true] at h
      simp only [esize] at hs
      exact good_bracket p (t := .op .lpar) rfl (fun lvl => ⟨_, by simp [unparse, op] <;> rfl⟩) rfl (by simp) rfl
        (atomRT_genExp p e gs (ih e (by omega) h.1.1) (by intro hg; simp [hg] at h)
          (comps_of p n ih gs (by omega) h.2))
    | await x =>
      simp only [fx] at h
      simp only [esize] at hs
      exact good_await p x (ih x (by omega) h)
    | yield v =>
      cases v with
      | none =>
        exact good_bracket p (t := .op .lpar) rfl (fun lvl => ⟨_, by simp [unparse, op] <;> rfl⟩) rfl (by simp) rfl
          (atomRT_yieldNone p)
      | some v =>
        simp only [fx] at h
        simp only [esize] at hs
        exact good_bracket p (t := .op .lpar) rfl (fun lvl => ⟨_, by simp [unparse, op] <;> rfl⟩) rfl (by simp) rfl
          (atomRT_yieldSome p (elem_of p n ih v (by omega) h))
    | yieldFrom v =>
      simp only [fx] at h
      simp only [esize] at hs
      exact good_bracket p (t := .op .lpar) rfl (fun lvl => ⟨_, by simp [unparse, op] <;> rfl⟩) rfl (by simp) rfl
        (atomRT_yieldFrom p v (ih v (by omega) h).good.rt)
    | compare l ops cs =>
      simp only [fx, Bool.and_eq_true, decide_eq_true_eq] at h
      simp only [esize] at hs
      have hcs := plains_of p n ih cs (by omega) h.2
      cases cs with
      | nil => simp at h
      | cons c cs' =>
        cases ops with
        | nil => simp at h
        | cons o os =>
          exact good_compare p l o os c cs' (by simpa using h.1.2) (ih l (by omega) h.1.1.1) hcs
    | call fn args ks =>
      simp only [fx, Bool.and_eq_true] at h
      simp only [esize] at hs
      have hf := ih fn (by omega) h.1.1.1
      by_cases hgen : ∃ e gs, args = [.genExp e gs] ∧ ks = []
      · obtain ⟨e, gs, rfl, rfl⟩ := hgen
        have hg : fx .plain e = true ∧ gs ≠ [] ∧ fxComps gs = true := by
          have := h.1.1.2
          simp only [fxList, fx, Bool.and_eq_true, Bool.and_true] at this
          exact ⟨this.1.1, by intro hg; simp [hg] at this, this.2⟩
        simp only [esizeList, esize] at hs
        exact good_call_gen p fn e gs hf (ih e (by omega) hg.1) hg.2.1 (comps_of p n ih gs (by omega) hg.2.2)
      · exact good_call p fn args ks (fun e gs hc => hgen ⟨e, gs, hc⟩) hf (elems_of p n ih args (by omega) h.1.1.2)
          (kws_of p n ih ks (by omega) h.1.2) h.2
    | formattedValue v c s => simp [fx] at h
    | joinedStr vs => simp [fx] at h
    | «attribute» v a =>
      simp only [fx] at h
      simp only [esize] at hs
      exact good_attribute p v a (ih v (by omega) h)
    | subscript v s =>
      simp only [fx, Bool.and_eq_true] at h
      simp only [esize] at hs
      exact good_subscript p v s (ih v (by omega) h.1) (sub_of p n ih s (by omega) h.2)
    | starred v => simp [fx] at h
    | list es =>
      simp only [fx] at h
      simp only [esize] at hs
      exact good_bracket p (t := .op .lsqb) rfl (fun lvl => ⟨_, by simp [unparse, op] <;> rfl⟩) rfl (by simp) rfl
        (atomRT_list p es (elems_of p n ih es (by omega) h))
    | tuple es =>
      simp only [fx, XPos.tupleElem] at h
      simp only [esize] at hs
      exact good_tuple p es (elems_of p n ih es (by omega) h)
    | slice lo hi st => simp [fx] at h

/-- the extended fragment contains the operator core -/
theorem goodX (p : Nat → Bool) (e : Expr) (h : InFragmentX e) : GoodP p e := rt_allX p (esize e) e (Nat.le_refl _) h

end PV.C11
