import PV.C11.Model
import PV.C11.Spec
import PV.C11.Fragment
/-
  C11 — helper lemmas, part 1: the parsing judgement `Parses`, continuation tokens (`contTok`, `Stop`),
  one lifting lemma per adjacent pair of grammar levels, and the level-indexed parser `parseAt`.
-/
namespace PV.C11
open PV.Expr

/-! ## parsing judgement and continuation tokens -/

/-- `pf` reads `e` off the front of `ts`, leaving `rest`, for every sufficiently large fuel -/
def Parses (pf : Nat → List Tok → PR Expr) (ts : List Tok) (e : Expr) (rest : List Tok) : Prop :=
  ∃ n, ∀ fuel, n ≤ fuel → pf fuel ts = some (e, rest)

def isTrailerStart : Tok → Bool
  | .op .lpar | .op .lsqb | .op .dot => true
  | _ => false

def isCmpStart : Tok → Bool
  | .op .eqeq | .op .ne | .op .lt | .op .le | .op .gt | .op .ge | .kw .in | .kw .not | .kw .is => true
  | _ => false

def binLevelOf : Tok → Option Nat
  | .op o => (binOpOf o).map (·.2)
  | _ => none

/-- token `t` would make the parser function of level `lvl` go on after a complete operand -/
def contTok (lvl : Nat) (t : Tok) : Bool :=
  isTrailerStart t || isStringTok t
  || (decide (lvl ≤ 13) && t == .op .dstar)
  || (decide (lvl ≤ 11) && match binLevelOf t with | some l => decide (lvl ≤ l + 6) | none => false)
  || (decide (lvl ≤ 5) && isCmpStart t)
  || (decide (lvl ≤ 3) && t == .kw .and)
  || (decide (lvl ≤ 2) && t == .kw .or)
  || (decide (lvl ≤ 1) && t == .kw .if)

/-- the rest of the input does not continue an expression read at level `lvl` -/
def Stop (lvl : Nat) (rest : List Tok) : Prop := ∀ t r, rest = t :: r → contTok lvl t = false

theorem contTok_mono {lvl lvl' : Nat} {t : Tok} (h : lvl ≤ lvl') (hc : contTok lvl t = false) :
    contTok lvl' t = false := by
  simp only [contTok, Bool.or_eq_false_iff, Bool.and_eq_false_iff, decide_eq_false_iff_not] at hc ⊢
  obtain ⟨⟨⟨⟨⟨⟨⟨h1, h1'⟩, h2⟩, h3⟩, h4⟩, h5⟩, h6⟩, h7⟩ := hc
  refine ⟨⟨⟨⟨⟨⟨⟨h1, h1'⟩, ?_⟩, ?_⟩, ?_⟩, ?_⟩, ?_⟩, ?_⟩
  · rcases h2 with h2 | h2
    · left; omega
    · right; exact h2
  · rcases h3 with h3 | h3
    · left; omega
    · right
      split at h3 <;> simp_all
      omega
  · rcases h4 with h4 | h4
    · left; omega
    · right; exact h4
  · rcases h5 with h5 | h5
    · left; omega
    · right; exact h5
  · rcases h6 with h6 | h6
    · left; omega
    · right; exact h6
  · rcases h7 with h7 | h7
    · left; omega
    · right; exact h7

theorem Stop.mono {lvl lvl' : Nat} {rest : List Tok} (h : lvl ≤ lvl') (hs : Stop lvl rest) :
    Stop lvl' rest := fun t r hr => contTok_mono h (hs t r hr)

theorem Stop.nil (lvl : Nat) : Stop lvl [] := fun _ _ h => by cases h

theorem Stop.cons {lvl : Nat} {t : Tok} {r : List Tok} (h : contTok lvl t = false) : Stop lvl (t :: r) :=
  fun t' r' h' => by cases h'; exact h

theorem Stop.head {lvl : Nat} {t : Tok} {r : List Tok} (h : Stop lvl (t :: r)) : contTok lvl t = false :=
  h t r rfl

/-! what `Stop` excludes, level by level -/

theorem Stop.not_if {rest} (h : Stop 1 rest) : ∀ r, rest ≠ .kw .if :: r := by
  intro r hr; have := h _ _ hr; simp [contTok, isTrailerStart, isStringTok, binLevelOf, isCmpStart] at this

theorem Stop.not_or {rest} (h : Stop 2 rest) : ∀ r, rest ≠ .kw .or :: r := by
  intro r hr; have := h _ _ hr; simp [contTok, isTrailerStart, isStringTok, binLevelOf, isCmpStart] at this

theorem Stop.not_and {rest} (h : Stop 3 rest) : ∀ r, rest ≠ .kw .and :: r := by
  intro r hr; have := h _ _ hr; simp [contTok, isTrailerStart, isStringTok, binLevelOf, isCmpStart] at this

theorem Stop.not_dstar {rest} (h : Stop 13 rest) : ∀ r, rest ≠ .op .dstar :: r := by
  intro r hr; have := h _ _ hr; simp [contTok, isTrailerStart, isStringTok, binLevelOf, isCmpStart] at this

theorem Stop.cmpOpAt {rest} (h : Stop 5 rest) : cmpOpAt rest = none := by
  unfold PV.C11.cmpOpAt
  split <;> first | rfl | (rename_i hr; have := h _ _ rfl; simp [contTok, isCmpStart] at this)

theorem Stop.binOpAt {k rest} (hk : k ≤ 5) (h : Stop (k + 6) rest) : binOpAt k rest = none := by
  unfold PV.C11.binOpAt
  split
  · rename_i o r
    have := h _ _ rfl
    split
    · rename_i b l hb
      split
      · rename_i hl
        subst hl
        simp [contTok, binLevelOf, hb] at this
        omega
      · rfl
    · rfl
  · rfl

theorem Stop.trailers {rest acc f} (h : Stop 15 rest) : parseTrailers (f + 1) acc rest = some (acc, rest) := by
  unfold parseTrailers
  split <;> first
    | rfl
    | (exfalso; omega)
    | (have := Stop.head h; simp [contTok, isTrailerStart] at this)

/-! ## one lifting lemma per level -/

theorem fuel_succ {n fuel : Nat} (h : n + 1 ≤ fuel) : ∃ f, fuel = f + 1 ∧ n ≤ f := ⟨fuel - 1, by omega, by omega⟩

theorem step_test {ts e rest} (h : Parses parseOrTest ts e rest)
    (ht : ∀ r, ts ≠ .kw .lambda :: r) (hr : ∀ r, rest ≠ .kw .if :: r) :
    Parses parseTest ts e rest := by
  obtain ⟨n, hn⟩ := h
  refine ⟨n + 1, fun fuel hf => ?_⟩
  obtain ⟨f, rfl, hf'⟩ := fuel_succ hf
  rw [parseTest.eq_3 _ _ (by intro r h; exact ht r h), hn f hf']
  split
  · rename_i h1; simp at h1; exact absurd h1.2 (hr _)
  · rfl

theorem step_orTest {ts e rest} (h : Parses parseAndTest ts e rest) (hr : ∀ r, rest ≠ .kw .or :: r) :
    Parses parseOrTest ts e rest := by
  obtain ⟨n, hn⟩ := h
  refine ⟨n + 1, fun fuel hf => ?_⟩
  obtain ⟨f, rfl, hf'⟩ := fuel_succ hf
  rw [parseOrTest, hn f hf']
  split
  · rename_i h1; simp at h1; exact absurd h1.2 (hr _)
  · rfl

theorem step_andTest {ts e rest} (h : Parses parseNotTest ts e rest) (hr : ∀ r, rest ≠ .kw .and :: r) :
    Parses parseAndTest ts e rest := by
  obtain ⟨n, hn⟩ := h
  refine ⟨n + 1, fun fuel hf => ?_⟩
  obtain ⟨f, rfl, hf'⟩ := fuel_succ hf
  rw [parseAndTest, hn f hf']
  split
  · rename_i h1; simp at h1; exact absurd h1.2 (hr _)
  · rfl

theorem step_notTest {ts e rest} (h : Parses parseCmp ts e rest) (ht : ∀ r, ts ≠ .kw .not :: r) :
    Parses parseNotTest ts e rest := by
  obtain ⟨n, hn⟩ := h
  refine ⟨n + 1, fun fuel hf => ?_⟩
  obtain ⟨f, rfl, hf'⟩ := fuel_succ hf
  rw [parseNotTest.eq_3 _ _ (by intro r h; exact ht r h), hn f hf']

theorem step_cmp {ts e rest} (h : Parses (parseBin 0) ts e rest) (hr : cmpOpAt rest = none) :
    Parses parseCmp ts e rest := by
  obtain ⟨n, hn⟩ := h
  refine ⟨n + 1, fun fuel hf => ?_⟩
  obtain ⟨f, rfl, hf'⟩ := fuel_succ hf
  rw [parseCmp, hn f hf']
  simp [hr]

/-- the operand parser of binary level `k` -/
def binOperand (k : Nat) : Nat → List Tok → PR Expr :=
  fun f ts => if k ≥ 5 then parseFactor f ts else parseBin (k + 1) f ts

theorem step_bin {k ts e rest} (h : Parses (binOperand k) ts e rest) (hr : binOpAt k rest = none) :
    Parses (parseBin k) ts e rest := by
  obtain ⟨n, hn⟩ := h
  refine ⟨n + 2, fun fuel hf => ?_⟩
  obtain ⟨f, rfl⟩ : ∃ f, fuel = f + 2 := ⟨fuel - 2, by omega⟩
  have := hn (f + 1) (by omega)
  simp only [binOperand] at this
  rw [parseBin, this]
  simp only
  rw [parseBinLoop, hr]

theorem step_factor {ts e rest} (h : Parses parsePower ts e rest) (ht : unaryOpAt ts = none) :
    Parses parseFactor ts e rest := by
  obtain ⟨n, hn⟩ := h
  refine ⟨n + 1, fun fuel hf => ?_⟩
  obtain ⟨f, rfl, hf'⟩ := fuel_succ hf
  rw [parseFactor, ht, hn f hf']

theorem step_power {ts e rest} (h : Parses parseAtomExpr ts e rest) (hr : ∀ r, rest ≠ .op .dstar :: r) :
    Parses parsePower ts e rest := by
  obtain ⟨n, hn⟩ := h
  refine ⟨n + 1, fun fuel hf => ?_⟩
  obtain ⟨f, rfl, hf'⟩ := fuel_succ hf
  rw [parsePower, hn f hf']
  split
  · rename_i h1; simp at h1; exact absurd h1.2 (hr _)
  · rfl

theorem step_atomExpr {ts e rest} (h : Parses parseAtomExpr2 ts e rest) (ht : ∀ r, ts ≠ .kw .await :: r) :
    Parses parseAtomExpr ts e rest := by
  obtain ⟨n, hn⟩ := h
  refine ⟨n + 1, fun fuel hf => ?_⟩
  obtain ⟨f, rfl, hf'⟩ := fuel_succ hf
  rw [parseAtomExpr.eq_3 _ _ (by intro r h; exact ht r h), hn f hf']

/-- an atom followed by no trailer -/
theorem step_atomExpr2 {ts e rest} (h : Parses parseAtom ts e rest) (hr : Stop 15 rest) :
    Parses parseAtomExpr2 ts e rest := by
  obtain ⟨n, hn⟩ := h
  refine ⟨n + 2, fun fuel hf => ?_⟩
  obtain ⟨f, rfl⟩ : ∃ f, fuel = f + 2 := ⟨fuel - 2, by omega⟩
  rw [parseAtomExpr2, hn (f + 1) (by omega)]
  simp only
  exact hr.trailers

/-! ## the parser function of each level, and lifting across several levels -/

/-- the parser function that reads an operand standing in a slot of precedence level `lvl`
    (`Prec.TEST = 1` … `Prec.ATOM = 15`; level 0 is read like level 1) -/
def parseAt (lvl : Nat) : Nat → List Tok → PR Expr :=
  if lvl ≤ 1 then parseTest
  else if lvl = 2 then parseOrTest
  else if lvl = 3 then parseAndTest
  else if lvl = 4 then parseNotTest
  else if lvl = 5 then parseCmp
  else if lvl ≤ 11 then parseBin (lvl - 6)
  else if lvl = 12 then parseFactor
  else if lvl = 13 then parsePower
  else if lvl = 14 then parseAtomExpr
  else parseAtomExpr2

/-- what the first token of an operand rendered at level `lvl` can be -/
def goodHead (lvl : Nat) : Tok → Bool
  | .name _ | .int _ | .float _ | .imag _ | .str _ _ | .bytes _ => true
  | .kw .true | .kw .false | .kw .none => true
  | .op .ellipsis | .op .lpar | .op .lsqb | .op .lbrace => true
  | .fstr .. => true
  | .kw .lambda => decide (lvl ≤ 1)
  | .kw .not => decide (lvl ≤ 4)
  | .op .plus | .op .minus | .op .tilde => decide (lvl ≤ 12)
  | .kw .await => decide (lvl ≤ 14)
  | _ => false

theorem goodHead_anti {lvl lvl' : Nat} {t : Tok} (h : lvl ≤ lvl') (hg : goodHead lvl' t = true) :
    goodHead lvl t = true := by
  unfold goodHead at *
  split at hg <;> simp_all <;> omega

theorem goodHead_anti_atom {lvl : Nat} {t : Tok} (hg : goodHead Prec.ATOM t = true) :
    goodHead lvl t = true := by
  unfold goodHead at *
  split at hg <;> simp_all [Prec.ATOM]

theorem binOperand_eq_parseAt {k : Nat} (hk : k ≤ 5) : binOperand k = parseAt (k + 7) := by
  funext f ts
  unfold binOperand parseAt
  have : k = 0 ∨ k = 1 ∨ k = 2 ∨ k = 3 ∨ k = 4 ∨ k = 5 := by omega
  rcases this with rfl | rfl | rfl | rfl | rfl | rfl <;> simp

/-- one level up: from `parseAt (lvl+1)` to `parseAt lvl` -/
theorem lift_one {lvl : Nat} {t : Tok} {r : List Tok} {e rest} (h1 : 1 ≤ lvl) (h15 : lvl < 15)
    (h : Parses (parseAt (lvl + 1)) (t :: r) e rest) (hg : goodHead (lvl + 1) t = true)
    (hs : Stop lvl rest) : Parses (parseAt lvl) (t :: r) e rest := by
  have hl : lvl = 1 ∨ lvl = 2 ∨ lvl = 3 ∨ lvl = 4 ∨ lvl = 5 ∨ lvl = 6 ∨ lvl = 7 ∨ lvl = 8 ∨ lvl = 9 ∨
      lvl = 10 ∨ lvl = 11 ∨ lvl = 12 ∨ lvl = 13 ∨ lvl = 14 := by omega
  rcases hl with rfl | rfl | rfl | rfl | rfl | rfl | rfl | rfl | rfl | rfl | rfl | rfl | rfl | rfl
  · exact step_test h (by intro r' h'; cases h'; simp [goodHead] at hg) hs.not_if
  · exact step_orTest h hs.not_or
  · exact step_andTest h hs.not_and
  · exact step_notTest h (by intro r' h'; cases h'; simp [goodHead] at hg)
  · exact step_cmp h hs.cmpOpAt
  · exact step_bin (k := 0) (by rw [binOperand_eq_parseAt (by omega)]; exact h) (Stop.binOpAt (by omega) hs)
  · exact step_bin (k := 1) (by rw [binOperand_eq_parseAt (by omega)]; exact h) (Stop.binOpAt (by omega) hs)
  · exact step_bin (k := 2) (by rw [binOperand_eq_parseAt (by omega)]; exact h) (Stop.binOpAt (by omega) hs)
  · exact step_bin (k := 3) (by rw [binOperand_eq_parseAt (by omega)]; exact h) (Stop.binOpAt (by omega) hs)
  · exact step_bin (k := 4) (by rw [binOperand_eq_parseAt (by omega)]; exact h) (Stop.binOpAt (by omega) hs)
  · exact step_bin (k := 5) (by rw [binOperand_eq_parseAt (by omega)]; exact h) (Stop.binOpAt (by omega) hs)
  · refine step_factor h ?_
    unfold unaryOpAt
    split <;> simp_all [goodHead]
  · exact step_power h hs.not_dstar
  · exact step_atomExpr h (by intro r' h'; cases h'; simp [goodHead] at hg)

theorem lift_aux {t : Tok} {r : List Tok} {e rest} (d : Nat) : ∀ lvl : Nat, 1 ≤ lvl → lvl + d ≤ 15 →
    Parses (parseAt (lvl + d)) (t :: r) e rest → goodHead (lvl + d) t = true → Stop lvl rest →
    Parses (parseAt lvl) (t :: r) e rest := by
  induction d with
  | zero => intro lvl _ _ h _ _; exact h
  | succ d ih =>
    intro lvl h1 h15 h hg hs
    have e1 : lvl + (d + 1) = lvl + 1 + d := by omega
    rw [e1] at h hg
    have h' := ih (lvl + 1) (by omega) (by omega) h hg (hs.mono (by omega))
    exact lift_one h1 (by omega) h' (goodHead_anti (by omega) hg) hs

/-- several levels up -/
theorem lift {lvl lvl' : Nat} {t : Tok} {r : List Tok} {e rest} (h1 : 1 ≤ lvl) (hle : lvl ≤ lvl')
    (h15 : lvl' ≤ 15) (h : Parses (parseAt lvl') (t :: r) e rest) (hg : goodHead lvl' t = true)
    (hs : Stop lvl rest) : Parses (parseAt lvl) (t :: r) e rest := by
  obtain ⟨d, rfl⟩ : ∃ d, lvl' = lvl + d := ⟨lvl' - lvl, by omega⟩
  exact lift_aux d lvl h1 h15 h hg hs

theorem parseAt_zero : parseAt 0 = parseAt 1 := by unfold parseAt; simp

/-! ## token lists of renderings -/

@[simp] theorem toks_nil : toks [] = [] := rfl
@[simp] theorem toks_t (tk : Tok) (r : List Out) : toks (.t tk :: r) = tk :: toks r := rfl
@[simp] theorem toks_sp (r : List Out) : toks (.sp :: r) = toks r := rfl

@[simp] theorem toks_append (a b : List Out) : toks (a ++ b) = toks a ++ toks b := by
  induction a with
  | nil => rfl
  | cons x xs ih => cases x <;> simp [toks, ih]

theorem toks_groupIf (g : Bool) (b : List Out) :
    toks (groupIf g b) = if g then .op .lpar :: (toks b ++ [.op .rpar]) else toks b := by
  cases g <;> simp [groupIf, toks]

/-- the rendering at level `lvl` is the rendering at the node's own level, wrapped in parentheses
    exactly when `lvl` exceeds that level (`group_if!`) -/
theorem unparse_group (p : Nat → Bool) (e : Expr) (lvl prec : Nat)
    (h : kindPrec (kindOf e) = some prec) :
    unparse p e lvl = groupIf (decide (lvl > prec)) (unparse p e prec) := by
  cases e with
  | tuple es =>
    cases es with
    | nil => simp [kindOf, kindPrec] at h
    | cons a as =>
      simp [kindOf, kindPrec] at h; subst h
      simp [unparse, groupIf, Prec.TUPLE]
  | boolOp o vs => simp [kindOf, kindPrec] at h; subst h; simp [unparse, groupIf]
  | binOp l o r => simp [kindOf, kindPrec] at h; subst h; simp [unparse, groupIf]
  | unaryOp o x => simp [kindOf, kindPrec] at h; subst h; simp [unparse, groupIf]
  | compare l ops cs => simp [kindOf, kindPrec] at h; subst h; simp [unparse, groupIf, Prec.CMP]
  | ifExp a b c => simp [kindOf, kindPrec] at h; subst h; simp [unparse, groupIf, Prec.TEST]
  | lambda a b c d e f => simp [kindOf, kindPrec] at h; subst h; simp [unparse, groupIf, Prec.TEST]
  | namedExpr a b => simp [kindOf, kindPrec] at h; subst h; simp [unparse, groupIf, Prec.TUPLE]
  | await a => simp [kindOf, kindPrec] at h; subst h; simp [unparse, groupIf, Prec.AWAIT]
  | _ => simp [kindOf, kindPrec] at h

/-- kinds without a `group_if!` are rendered independently of the level -/
theorem unparse_nogroup (p : Nat → Bool) (e : Expr) (lvl lvl' : Nat)
    (h : kindPrec (kindOf e) = none) : unparse p e lvl = unparse p e lvl' := by
  cases e with
  | tuple es =>
    cases es with
    | nil => simp [unparse]
    | cons a as => simp [kindOf, kindPrec] at h
  | call f as ks =>
    cases as with
    | nil => simp [unparse]
    | cons a as' =>
      cases as' with
      | nil => cases a <;> cases ks <;> simp [unparse]
      | cons b bs => simp [unparse]
  | yield v => cases v <;> simp [unparse]
  | boolOp _ _ | binOp _ _ _ | unaryOp _ _ | compare _ _ _ | ifExp _ _ _ | lambda _ _ _ _ _ _
  | namedExpr _ _ | await _ => simp [kindOf, kindPrec] at h
  | name _ | const _ | dict _ | set _ | listComp _ _ | setComp _ _ | dictComp _ _ _ | genExp _ _
  | yieldFrom _ | formattedValue _ _ _ | joinedStr _ | «attribute» _ _ | subscript _ _ | starred _
  | list _ => simp only [unparse]
  | slice a b c => cases c <;> simp only [unparse]

/-! ## renderings of the fragment, as token lists -/

theorem toks_unparseBool_cons (p : Nat → Bool) (v : Expr) (vs : List Expr) (k : Kw) (lvl : Nat) :
    toks (unparseBool p (v :: vs) k lvl true) =
      toks (unparse p v lvl) ++ toks (unparseBool p vs k lvl false) := by
  simp [unparseBool]

theorem toks_unparseBool_cons' (p : Nat → Bool) (v : Expr) (vs : List Expr) (k : Kw) (lvl : Nat) :
    toks (unparseBool p (v :: vs) k lvl false) =
      .kw k :: (toks (unparse p v lvl) ++ toks (unparseBool p vs k lvl false)) := by
  simp [unparseBool, kw]

def unaryTok : UnaryOp → Tok
  | .invert => .op .tilde
  | .not => .kw .not
  | .uAdd => .op .plus
  | .uSub => .op .minus

theorem toks_unaryOpOuts (o : UnaryOp) : toks (unaryOpOuts o) = [unaryTok o] := by
  cases o <;> rfl

theorem unparse_call_plain (p : Nat → Bool) (fn : Expr) (args : List Expr) (h : inFragList args = true) (lvl : Nat) :
    toks (unparse p (.call fn args []) lvl) =
      toks (unparse p fn 15) ++ .op .lpar :: (toks (unparseSeq p args 1 true) ++ [.op .rpar]) := by
  cases args with
  | nil => simp [unparse, unparseSeq, unparseKeywords, Prec.ATOM, op]
  | cons a as =>
    cases as with
    | nil =>
      cases a <;> first
        | (exfalso; simp [inFragList, inFrag] at h; done)
        | simp [unparse, unparseSeq, unparseKeywords, delim, Prec.ATOM, Prec.TEST, op]
    | cons b bs => simp [unparse, unparseKeywords, Prec.ATOM, Prec.TEST, op]

/-- first token of the rendering of a fragment expression -/
theorem firstTok (p : Nat → Bool) : (e : Expr) → inFrag e = true → ∀ lvl : Nat,
    ∃ t r, toks (unparse p e lvl) = t :: r ∧ goodHead lvl t = true
  | .name id, _, lvl => ⟨.name id, [], by simp [unparse], rfl⟩
  | .const c, h, lvl => by
    refine ⟨constTok c, [], by simp [unparse], ?_⟩
    cases c with
    | bool b => cases b <;> rfl
    | _ => rfl
  | .attribute v n, h, lvl => by
    have hv : inFrag v = true := by simpa [inFrag] using h
    obtain ⟨t, r', ht, hgood⟩ := firstTok p v hv Prec.ATOM
    refine ⟨t, r' ++ [.op .dot, .name n], ?_, goodHead_anti_atom hgood⟩
    by_cases hi : isIntConst v = true <;> simp [unparse, hi, ht, op]
  | .call fn args [], h, lvl => by
    have hfn : inFrag fn = true := by simp [inFrag] at h; exact h.1
    have hargs : inFragList args = true := by simp [inFrag] at h; exact h.2
    obtain ⟨t, r', ht, hgood⟩ := firstTok p fn hfn Prec.ATOM
    refine ⟨t, r' ++ (.op .lpar :: (toks (unparseSeq p args 1 true) ++ [.op .rpar])), ?_, goodHead_anti_atom hgood⟩
    rw [unparse_call_plain p fn args hargs lvl]
    have : (15 : Nat) = Prec.ATOM := rfl
    rw [this, ht]; rfl
  | .subscript v s, h, lvl => by
    have hv : inFrag v = true := by simp [inFrag] at h; exact h.1.1
    obtain ⟨t, r', ht, hgood⟩ := firstTok p v hv Prec.ATOM
    refine ⟨t, r' ++ (.op .lsqb :: (toks (unparse p s Prec.TUPLE) ++ [.op .rsqb])), ?_, goodHead_anti_atom hgood⟩
    simp [unparse, ht, op]
  | .await v, h, lvl => by
    rw [unparse_group p _ lvl Prec.AWAIT rfl, toks_groupIf]
    by_cases hg : lvl > Prec.AWAIT
    · exact ⟨.op .lpar, _, by rw [if_pos (by simpa using hg)], rfl⟩
    · simp only [hg, decide_false, Bool.false_eq_true, if_false]
      refine ⟨.kw .await, toks (unparse p v Prec.ATOM), by simp [unparse, groupIf, kw], ?_⟩
      simp [goodHead, Prec.AWAIT] at hg ⊢; omega
  | .dict items, _, lvl => ⟨.op .lbrace, toks (unparseDictItems p items true) ++ [.op .rbrace], by simp [unparse, op], rfl⟩
  | .yield none, _, lvl => ⟨.op .lpar, [.kw .yield, .op .rpar], by simp [unparse, op, kw], rfl⟩
  | .yield (some v), _, lvl => ⟨.op .lpar, .kw .yield :: (toks (unparse p v Prec.TEST) ++ [.op .rpar]), by simp [unparse, op, kw], rfl⟩
  | .yieldFrom v, _, lvl => ⟨.op .lpar, .kw .yield :: .kw .from :: (toks (unparse p v Prec.TEST) ++ [.op .rpar]), by simp [unparse, op, kw], rfl⟩
  | .list es, _, lvl => ⟨.op .lsqb, toks (unparseSeq p es Prec.TEST true) ++ [.op .rsqb], by simp [unparse, op], rfl⟩
  | .set es, _, lvl => ⟨.op .lbrace, toks (unparseSeq p es Prec.TEST true) ++ [.op .rbrace], by simp [unparse, op], rfl⟩
  | .tuple [], _, lvl => ⟨.op .lpar, [.op .rpar], by simp [unparse, op], rfl⟩
  | .tuple (x :: xs), h, lvl => by
    have hx : inFrag x = true := by simp [inFrag, inFragList] at h; exact h.1
    rw [unparse_group p _ lvl Prec.TUPLE rfl, toks_groupIf]
    by_cases hg : lvl > Prec.TUPLE
    · exact ⟨.op .lpar, _, by rw [if_pos (by simpa using hg)], rfl⟩
    · simp only [hg, decide_false, Bool.false_eq_true, if_false]
      obtain ⟨t, r', ht, hgood⟩ := firstTok p x hx Prec.TEST
      refine ⟨t, r' ++ (toks (unparseSeq p xs Prec.TEST false) ++ toks (if (x :: xs).length = 1 then [op .comma] else [])), ?_,
        goodHead_anti (by simp [Prec.TUPLE] at hg; simp [hg, Prec.TEST]) hgood⟩
      simp [unparse, groupIf, unparseSeq, delim, ht]
  | .unaryOp o x, h, lvl => by
    rw [unparse_group p _ lvl (unaryOpPrec o) rfl, toks_groupIf]
    by_cases hg : lvl > unaryOpPrec o
    · exact ⟨.op .lpar, _, by rw [if_pos (by simpa using hg)], rfl⟩
    · simp only [hg, decide_false, Bool.false_eq_true, if_false]
      refine ⟨unaryTok o, toks (unparse p x (unaryOpPrec o)), by simp [unparse, groupIf, toks_unaryOpOuts], ?_⟩
      cases o <;> simp [goodHead, unaryTok, unaryOpPrec, Prec.FACTOR, Prec.NOT] at hg ⊢ <;> omega
  | .binOp l o r, h, lvl => by
    have hl : inFrag l = true := by simp [inFrag] at h; exact h.1
    rw [unparse_group p _ lvl (binOpPrec o) rfl, toks_groupIf]
    by_cases hg : lvl > binOpPrec o
    · exact ⟨.op .lpar, _, by rw [if_pos (by simpa using hg)], rfl⟩
    · simp only [hg, decide_false, Bool.false_eq_true, if_false]
      obtain ⟨t, r', ht, hgood⟩ := firstTok p l hl (binOpPrec o + (if o = .pow then 1 else 0))
      refine ⟨t, r' ++ (.op (binOpTok o) :: toks (unparse p r (binOpPrec o + if o = .pow then 0 else 1))), ?_,
        goodHead_anti (by omega) hgood⟩
      simp [unparse, groupIf, ht]
  | .boolOp o (v :: vs), h, lvl => by
    have hv : inFrag v = true := by simp [inFrag, inFragList] at h; exact h.2.1
    rw [unparse_group p _ lvl (boolOpPrec o) rfl, toks_groupIf]
    by_cases hg : lvl > boolOpPrec o
    · exact ⟨.op .lpar, _, by rw [if_pos (by simpa using hg)], rfl⟩
    · simp only [hg, decide_false, Bool.false_eq_true, if_false]
      obtain ⟨t, r', ht, hgood⟩ := firstTok p v hv (boolOpPrec o + 1)
      refine ⟨t, r' ++ toks (unparseBool p vs (boolOpKw o) (boolOpPrec o + 1) false), ?_,
        goodHead_anti (by omega) hgood⟩
      simp [unparse, groupIf, toks_unparseBool_cons, ht]
  | .boolOp o [], h, lvl => by simp [inFrag] at h
  | .compare l ops cs, h, lvl => by
    have hl : inFrag l = true := by simp [inFrag] at h; exact h.1.1.1
    rw [unparse_group p _ lvl Prec.CMP rfl, toks_groupIf]
    by_cases hg : lvl > Prec.CMP
    · exact ⟨.op .lpar, _, by rw [if_pos (by simpa using hg)], rfl⟩
    · simp only [hg, decide_false, Bool.false_eq_true, if_false]
      obtain ⟨t, r', ht, hgood⟩ := firstTok p l hl (Prec.CMP + 1)
      refine ⟨t, r' ++ toks (unparseCmps p ops cs), ?_, goodHead_anti (by omega) hgood⟩
      simp [unparse, groupIf, ht]
  | .ifExp t b o, h, lvl => by
    have hb : inFrag b = true := by simp [inFrag] at h; exact h.1.2
    rw [unparse_group p _ lvl Prec.TEST rfl, toks_groupIf]
    by_cases hg : lvl > Prec.TEST
    · exact ⟨.op .lpar, _, by rw [if_pos (by simpa using hg)], rfl⟩
    · simp only [hg, decide_false, Bool.false_eq_true, if_false]
      obtain ⟨t', r', ht, hgood⟩ := firstTok p b hb (Prec.TEST + 1)
      refine ⟨t', r' ++ (.kw .if :: (toks (unparse p t (Prec.TEST + 1)) ++ .kw .else :: toks (unparse p o Prec.TEST))), ?_,
        goodHead_anti (by omega) hgood⟩
      simp [unparse, groupIf, ht, kw]
  | .namedExpr .., h, _ | .lambda .., h, _ | .listComp .., h, _
  | .setComp .., h, _ | .dictComp .., h, _ | .genExp .., h, _
  | .call _ _ (_ :: _), h, _ | .formattedValue .., h, _ | .joinedStr .., h, _
  | .starred .., h, _
  | .slice .., h, _ => by simp [inFrag] at h

theorem toks_cmpOpOuts_noWalrus (o : CmpOp) : .op .walrus ∉ toks (cmpOpOuts o) := by
  cases o <;> simp [cmpOpOuts, toks, op, kw]

mutual
/-- `:=` never occurs in the rendering of a fragment expression -/
theorem noWalrus (p : Nat → Bool) : (e : Expr) → inFrag e = true → ∀ lvl : Nat,
    Tok.op .walrus ∉ toks (unparse p e lvl)
  | .name id, _, lvl => by simp [unparse]
  | .const c, h, lvl => by
    cases c with
    | bool b => cases b <;> simp [unparse, constTok]
    | _ => simp [unparse, constTok]
  | .attribute v n, h, lvl => by
    have hv : inFrag v = true := by simpa [inFrag] using h
    have := noWalrus p v hv Prec.ATOM
    by_cases hi : isIntConst v = true <;> simp [unparse, hi, this, op]
  | .call fn args [], h, lvl => by
    have hfn : inFrag fn = true := by simp [inFrag] at h; exact h.1
    have hargs : inFragList args = true := by simp [inFrag] at h; exact h.2
    have h1 := noWalrus p fn hfn 15
    have h2 := noWalrusSeq p args hargs 1 true
    rw [unparse_call_plain p fn args hargs lvl]
    simp [h1, h2]
  | .subscript v s, h, lvl => by
    have hv : inFrag v = true := by simp [inFrag] at h; exact h.1.1
    have hs : inFrag s = true := by simp [inFrag] at h; exact h.1.2
    have h1 := noWalrus p v hv Prec.ATOM
    have h2 := noWalrus p s hs Prec.TUPLE
    simp [unparse, h1, h2, op]
  | .await v, h, lvl => by
    have hv : inFrag v = true := by simpa [inFrag] using h
    have := noWalrus p v hv Prec.ATOM
    simp only [unparse, toks_groupIf]
    split <;> simp [this, kw]
  | .dict items, h, lvl => by
    have hi : inFragItems items = true := by simpa [inFrag] using h
    have := noWalrusItems p items hi true
    simp [unparse, this, op]
  | .yield none, _, lvl => by simp [unparse, op, kw]
  | .yield (some v), h, lvl => by
    have hv : inFrag v = true := by simpa [inFrag] using h
    have := noWalrus p v hv Prec.TEST
    simp [unparse, this, op, kw]
  | .yieldFrom v, h, lvl => by
    have hv : inFrag v = true := by simpa [inFrag] using h
    have := noWalrus p v hv Prec.TEST
    simp [unparse, this, op, kw]
  | .list es, h, lvl => by
    have hes : inFragList es = true := by simpa [inFrag] using h
    have := noWalrusSeq p es hes Prec.TEST true
    simp [unparse, this, op]
  | .set es, h, lvl => by
    have hes : inFragList es = true := by simp [inFrag] at h; exact h.2
    have := noWalrusSeq p es hes Prec.TEST true
    simp [unparse, this, op]
  | .tuple es, h, lvl => by
    have hes : inFragList es = true := by simpa [inFrag] using h
    have := noWalrusSeq p es hes Prec.TEST true
    cases es with
    | nil => simp [unparse, op]
    | cons x xs =>
      simp only [unparse, toks_groupIf, List.isEmpty_cons, Bool.false_eq_true, if_false]
      split <;> split <;> simp [this, op]
  | .unaryOp o x, h, lvl => by
    have hx : inFrag x = true := by simpa [inFrag] using h
    have := noWalrus p x hx (unaryOpPrec o)
    simp only [unparse, toks_groupIf]
    split <;> simp [toks_unaryOpOuts, this] <;> cases o <;> simp [unaryTok]
  | .binOp l o r, h, lvl => by
    have hl : inFrag l = true := by simp [inFrag] at h; exact h.1
    have hr : inFrag r = true := by simp [inFrag] at h; exact h.2
    have h1 := noWalrus p l hl (binOpPrec o + if o = .pow then 1 else 0)
    have h2 := noWalrus p r hr (binOpPrec o + if o = .pow then 0 else 1)
    simp only [unparse, toks_groupIf]
    split <;> simp [h1, h2] <;> cases o <;> simp [binOpTok]
  | .boolOp o vs, h, lvl => by
    have hv : inFragList vs = true := by simp [inFrag] at h; exact h.2
    have := noWalrusBool p vs hv (boolOpKw o) (boolOpPrec o + 1) true
    simp only [unparse, toks_groupIf]
    split <;> simp [this]
  | .compare l ops cs, h, lvl => by
    have hl : inFrag l = true := by simp [inFrag] at h; exact h.1.1.1
    have hc : inFragList cs = true := by simp [inFrag] at h; exact h.2
    have h1 := noWalrus p l hl (Prec.CMP + 1)
    have h2 := noWalrusCmps p cs hc ops
    simp only [unparse, toks_groupIf]
    split <;> simp [h1, h2]
  | .ifExp t b o, h, lvl => by
    have ht : inFrag t = true := by simp [inFrag] at h; exact h.1.1
    have hb : inFrag b = true := by simp [inFrag] at h; exact h.1.2
    have ho : inFrag o = true := by simp [inFrag] at h; exact h.2
    have h1 := noWalrus p t ht (Prec.TEST + 1)
    have h2 := noWalrus p b hb (Prec.TEST + 1)
    have h3 := noWalrus p o ho Prec.TEST
    simp only [unparse, toks_groupIf]
    split <;> simp [h1, h2, h3, kw]
  | .namedExpr .., h, _ | .lambda .., h, _ | .listComp .., h, _
  | .setComp .., h, _ | .dictComp .., h, _ | .genExp .., h, _
  | .call _ _ (_ :: _), h, _ | .formattedValue .., h, _ | .joinedStr .., h, _
  | .starred .., h, _
  | .slice .., h, _ => by simp [inFrag] at h
theorem noWalrusBool (p : Nat → Bool) : (vs : List Expr) → inFragList vs = true →
    ∀ (k : Kw) (lvl : Nat) (first : Bool), Tok.op .walrus ∉ toks (unparseBool p vs k lvl first)
  | [], _, _, _, _ => by simp [unparseBool]
  | v :: vs, h, k, lvl, first => by
    have hv : inFrag v = true := by simp [inFragList] at h; exact h.1
    have hvs : inFragList vs = true := by simp [inFragList] at h; exact h.2
    have h1 := noWalrus p v hv lvl
    have h2 := noWalrusBool p vs hvs k lvl false
    cases first <;> simp [unparseBool, h1, h2, kw]
theorem noWalrusSeq (p : Nat → Bool) : (xs : List Expr) → inFragList xs = true →
    ∀ (lvl : Nat) (first : Bool), Tok.op .walrus ∉ toks (unparseSeq p xs lvl first)
  | [], _, _, _ => by simp [unparseSeq]
  | x :: xs, h, lvl, first => by
    have hx : inFrag x = true := by simp [inFragList] at h; exact h.1
    have hxs : inFragList xs = true := by simp [inFragList] at h; exact h.2
    have h1 := noWalrus p x hx lvl
    have h2 := noWalrusSeq p xs hxs lvl false
    cases first <;> simp [unparseSeq, delim, h1, h2, op]
theorem noWalrusItems (p : Nat → Bool) : (is : List DictItem) → inFragItems is = true →
    ∀ (first : Bool), Tok.op .walrus ∉ toks (unparseDictItems p is first)
  | [], _, _ => by simp [unparseDictItems]
  | .mk none v :: is, h, first => by
    have hv : inFrag v = true := by simp [inFragItems] at h; exact h.1
    have his : inFragItems is = true := by simp [inFragItems] at h; exact h.2
    have h2 := noWalrus p v hv Prec.EXPR
    have h3 := noWalrusItems p is his false
    cases first <;> simp [unparseDictItems, delim, h2, h3, op]
  | .mk (some k) v :: is, h, first => by
    have hk : inFrag k = true := by simp [inFragItems] at h; exact h.1.1
    have hv : inFrag v = true := by simp [inFragItems] at h; exact h.1.2
    have his : inFragItems is = true := by simp [inFragItems] at h; exact h.2
    have h1 := noWalrus p k hk Prec.TEST
    have h2 := noWalrus p v hv Prec.TEST
    have h3 := noWalrusItems p is his false
    cases first <;> simp [unparseDictItems, delim, h1, h2, h3, op]
theorem noWalrusCmps (p : Nat → Bool) : (cs : List Expr) → inFragList cs = true →
    ∀ (ops : List CmpOp), Tok.op .walrus ∉ toks (unparseCmps p ops cs)
  | [], _, ops => by cases ops <;> simp [unparseCmps]
  | c :: cs, h, [] => by simp [unparseCmps]
  | c :: cs, h, o :: os => by
    have hc : inFrag c = true := by simp [inFragList] at h; exact h.1
    have hcs : inFragList cs = true := by simp [inFragList] at h; exact h.2
    have h1 := noWalrus p c hc (Prec.CMP + 1)
    have h2 := noWalrusCmps p cs hcs os
    simp [unparseCmps, h1, h2, toks_cmpOpOuts_noWalrus]
end

theorem toks_cmpOpOuts_noAssign (o : CmpOp) : .op .assign ∉ toks (cmpOpOuts o) := by
  cases o <;> simp [cmpOpOuts, toks, op, kw]

mutual
/-- `=` never occurs in the rendering of a fragment expression -/
theorem noAssign (p : Nat → Bool) : (e : Expr) → inFrag e = true → ∀ lvl : Nat,
    Tok.op .assign ∉ toks (unparse p e lvl)
  | .name id, _, lvl => by simp [unparse]
  | .const c, h, lvl => by
    cases c with
    | bool b => cases b <;> simp [unparse, constTok]
    | _ => simp [unparse, constTok]
  | .attribute v n, h, lvl => by
    have hv : inFrag v = true := by simpa [inFrag] using h
    have := noAssign p v hv Prec.ATOM
    by_cases hi : isIntConst v = true <;> simp [unparse, hi, this, op]
  | .call fn args [], h, lvl => by
    have hfn : inFrag fn = true := by simp [inFrag] at h; exact h.1
    have hargs : inFragList args = true := by simp [inFrag] at h; exact h.2
    have h1 := noAssign p fn hfn 15
    have h2 := noAssignSeq p args hargs 1 true
    rw [unparse_call_plain p fn args hargs lvl]
    simp [h1, h2]
  | .subscript v s, h, lvl => by
    have hv : inFrag v = true := by simp [inFrag] at h; exact h.1.1
    have hs : inFrag s = true := by simp [inFrag] at h; exact h.1.2
    have h1 := noAssign p v hv Prec.ATOM
    have h2 := noAssign p s hs Prec.TUPLE
    simp [unparse, h1, h2, op]
  | .await v, h, lvl => by
    have hv : inFrag v = true := by simpa [inFrag] using h
    have := noAssign p v hv Prec.ATOM
    simp only [unparse, toks_groupIf]
    split <;> simp [this, kw]
  | .dict items, h, lvl => by
    have hi : inFragItems items = true := by simpa [inFrag] using h
    have := noAssignItems p items hi true
    simp [unparse, this, op]
  | .yield none, _, lvl => by simp [unparse, op, kw]
  | .yield (some v), h, lvl => by
    have hv : inFrag v = true := by simpa [inFrag] using h
    have := noAssign p v hv Prec.TEST
    simp [unparse, this, op, kw]
  | .yieldFrom v, h, lvl => by
    have hv : inFrag v = true := by simpa [inFrag] using h
    have := noAssign p v hv Prec.TEST
    simp [unparse, this, op, kw]
  | .list es, h, lvl => by
    have hes : inFragList es = true := by simpa [inFrag] using h
    have := noAssignSeq p es hes Prec.TEST true
    simp [unparse, this, op]
  | .set es, h, lvl => by
    have hes : inFragList es = true := by simp [inFrag] at h; exact h.2
    have := noAssignSeq p es hes Prec.TEST true
    simp [unparse, this, op]
  | .tuple es, h, lvl => by
    have hes : inFragList es = true := by simpa [inFrag] using h
    have := noAssignSeq p es hes Prec.TEST true
    cases es with
    | nil => simp [unparse, op]
    | cons x xs =>
      simp only [unparse, toks_groupIf, List.isEmpty_cons, Bool.false_eq_true, if_false]
      split <;> split <;> simp [this, op]
  | .unaryOp o x, h, lvl => by
    have hx : inFrag x = true := by simpa [inFrag] using h
    have := noAssign p x hx (unaryOpPrec o)
    simp only [unparse, toks_groupIf]
    split <;> simp [toks_unaryOpOuts, this] <;> cases o <;> simp [unaryTok]
  | .binOp l o r, h, lvl => by
    have hl : inFrag l = true := by simp [inFrag] at h; exact h.1
    have hr : inFrag r = true := by simp [inFrag] at h; exact h.2
    have h1 := noAssign p l hl (binOpPrec o + if o = .pow then 1 else 0)
    have h2 := noAssign p r hr (binOpPrec o + if o = .pow then 0 else 1)
    simp only [unparse, toks_groupIf]
    split <;> simp [h1, h2] <;> cases o <;> simp [binOpTok]
  | .boolOp o vs, h, lvl => by
    have hv : inFragList vs = true := by simp [inFrag] at h; exact h.2
    have := noAssignBool p vs hv (boolOpKw o) (boolOpPrec o + 1) true
    simp only [unparse, toks_groupIf]
    split <;> simp [this]
  | .compare l ops cs, h, lvl => by
    have hl : inFrag l = true := by simp [inFrag] at h; exact h.1.1.1
    have hc : inFragList cs = true := by simp [inFrag] at h; exact h.2
    have h1 := noAssign p l hl (Prec.CMP + 1)
    have h2 := noAssignCmps p cs hc ops
    simp only [unparse, toks_groupIf]
    split <;> simp [h1, h2]
  | .ifExp t b o, h, lvl => by
    have ht : inFrag t = true := by simp [inFrag] at h; exact h.1.1
    have hb : inFrag b = true := by simp [inFrag] at h; exact h.1.2
    have ho : inFrag o = true := by simp [inFrag] at h; exact h.2
    have h1 := noAssign p t ht (Prec.TEST + 1)
    have h2 := noAssign p b hb (Prec.TEST + 1)
    have h3 := noAssign p o ho Prec.TEST
    simp only [unparse, toks_groupIf]
    split <;> simp [h1, h2, h3, kw]
  | .namedExpr .., h, _ | .lambda .., h, _ | .listComp .., h, _
  | .setComp .., h, _ | .dictComp .., h, _ | .genExp .., h, _
  | .call _ _ (_ :: _), h, _ | .formattedValue .., h, _ | .joinedStr .., h, _
  | .starred .., h, _
  | .slice .., h, _ => by simp [inFrag] at h
theorem noAssignBool (p : Nat → Bool) : (vs : List Expr) → inFragList vs = true →
    ∀ (k : Kw) (lvl : Nat) (first : Bool), Tok.op .assign ∉ toks (unparseBool p vs k lvl first)
  | [], _, _, _, _ => by simp [unparseBool]
  | v :: vs, h, k, lvl, first => by
    have hv : inFrag v = true := by simp [inFragList] at h; exact h.1
    have hvs : inFragList vs = true := by simp [inFragList] at h; exact h.2
    have h1 := noAssign p v hv lvl
    have h2 := noAssignBool p vs hvs k lvl false
    cases first <;> simp [unparseBool, h1, h2, kw]
theorem noAssignSeq (p : Nat → Bool) : (xs : List Expr) → inFragList xs = true →
    ∀ (lvl : Nat) (first : Bool), Tok.op .assign ∉ toks (unparseSeq p xs lvl first)
  | [], _, _, _ => by simp [unparseSeq]
  | x :: xs, h, lvl, first => by
    have hx : inFrag x = true := by simp [inFragList] at h; exact h.1
    have hxs : inFragList xs = true := by simp [inFragList] at h; exact h.2
    have h1 := noAssign p x hx lvl
    have h2 := noAssignSeq p xs hxs lvl false
    cases first <;> simp [unparseSeq, delim, h1, h2, op]
theorem noAssignItems (p : Nat → Bool) : (is : List DictItem) → inFragItems is = true →
    ∀ (first : Bool), Tok.op .assign ∉ toks (unparseDictItems p is first)
  | [], _, _ => by simp [unparseDictItems]
  | .mk none v :: is, h, first => by
    have hv : inFrag v = true := by simp [inFragItems] at h; exact h.1
    have his : inFragItems is = true := by simp [inFragItems] at h; exact h.2
    have h2 := noAssign p v hv Prec.EXPR
    have h3 := noAssignItems p is his false
    cases first <;> simp [unparseDictItems, delim, h2, h3, op]
  | .mk (some k) v :: is, h, first => by
    have hk : inFrag k = true := by simp [inFragItems] at h; exact h.1.1
    have hv : inFrag v = true := by simp [inFragItems] at h; exact h.1.2
    have his : inFragItems is = true := by simp [inFragItems] at h; exact h.2
    have h1 := noAssign p k hk Prec.TEST
    have h2 := noAssign p v hv Prec.TEST
    have h3 := noAssignItems p is his false
    cases first <;> simp [unparseDictItems, delim, h1, h2, h3, op]
theorem noAssignCmps (p : Nat → Bool) : (cs : List Expr) → inFragList cs = true →
    ∀ (ops : List CmpOp), Tok.op .assign ∉ toks (unparseCmps p ops cs)
  | [], _, ops => by cases ops <;> simp [unparseCmps]
  | c :: cs, h, [] => by simp [unparseCmps]
  | c :: cs, h, o :: os => by
    have hc : inFrag c = true := by simp [inFragList] at h; exact h.1
    have hcs : inFragList cs = true := by simp [inFragList] at h; exact h.2
    have h1 := noAssign p c hc (Prec.CMP + 1)
    have h2 := noAssignCmps p cs hcs os
    simp [unparseCmps, h1, h2, toks_cmpOpOuts_noAssign]
end

/-! ## what the lemmas below need to know about the first tokens of a rendering -/

/-- the token list does not begin with `name :=` or `name =` (which `NamedExpressionTest` / `FunctionArgument`
    would read as a binding) -/
def NoBind (ts : List Tok) : Prop :=
  ∀ n r', ts ≠ .name n :: .op .walrus :: r' ∧ ts ≠ .name n :: .op .assign :: r'

theorem NoBind.append {ts : List Tok} (h : NoBind ts) (hne : ts ≠ []) {c : Tok} (hc1 : c ≠ .op .walrus)
    (hc2 : c ≠ .op .assign) (rest : List Tok) : NoBind (ts ++ c :: rest) := by
  intro n r'
  cases ts with
  | nil => exact absurd rfl hne
  | cons a as =>
    cases as with
    | nil =>
      constructor
      · intro h'; simp at h'; exact hc1 h'.2.1
      · intro h'; simp at h'; exact hc2 h'.2.1
    | cons b bs =>
      constructor
      · intro h'; simp at h'; obtain ⟨rfl, rfl, _⟩ := h'; exact (h n bs).1 rfl
      · intro h'; simp at h'; obtain ⟨rfl, rfl, _⟩ := h'; exact (h n bs).2 rfl

theorem NoBind.of_head {t : Tok} {r : List Tok} (h : ∀ n, t ≠ .name n) : NoBind (t :: r) := by
  intro n r'
  constructor <;> (intro h'; simp at h'; exact h n h'.1)

theorem NoBind.of_second {t t2 : Tok} {r : List Tok} (h1 : t2 ≠ .op .walrus) (h2 : t2 ≠ .op .assign) :
    NoBind (t :: t2 :: r) := by
  intro n r'
  constructor <;> (intro h'; simp at h'; first | exact h1 h'.2.1 | exact h2 h'.2.1)

theorem NoBind.single (t : Tok) : NoBind [t] := by
  intro n r'; constructor <;> (intro h'; simp at h')

theorem NoBind.of_not_mem {ts : List Tok} (hw : Tok.op .walrus ∉ ts) (ha : Tok.op .assign ∉ ts) : NoBind ts := by
  intro n r'
  constructor
  · intro h'; subst h'; simp at hw
  · intro h'; subst h'; simp at ha

theorem NoBind.walrus {ts : List Tok} (h : NoBind ts) : ∀ n r', ts ≠ .name n :: .op .walrus :: r' :=
  fun n r' => (h n r').1

theorem NoBind.assign {ts : List Tok} (h : NoBind ts) : ∀ n r', ts ≠ .name n :: .op .assign :: r' :=
  fun n r' => (h n r').2

/-- what the per-constructor lemmas use of a node that stands in an operand position: the first token of its
    rendering at every level (never one that a lower grammar level would take for its own), no `name :=` / `name =`
    at the front when rendered at an operand level, and not a `Starred` -/
structure Plain (p : Nat → Bool) (e : Expr) : Prop where
  head : ∀ lvl : Nat, 1 ≤ lvl → ∃ t r, toks (unparse p e lvl) = t :: r ∧ goodHead lvl t = true
  nobind : ∀ lvl : Nat, 1 ≤ lvl → NoBind (toks (unparse p e lvl))
  ns : isStarred e = false

theorem Plain.ne_nil {p : Nat → Bool} {e : Expr} (h : Plain p e) (lvl : Nat) (h1 : 1 ≤ lvl) :
    toks (unparse p e lvl) ≠ [] := by
  obtain ⟨t, r, ht, _⟩ := h.head lvl h1
  rw [ht]; simp

/-! ## atoms and parentheses -/

/-- the next token is not a string literal (which would be concatenated to a preceding one) -/
def NoStr (rest : List Tok) : Prop := ∀ t r, rest = t :: r → isStringTok t = false

theorem NoStr.takeWhile {rest : List Tok} (h : NoStr rest) :
    rest.takeWhile isStringTok = [] ∧ rest.dropWhile isStringTok = rest := by
  cases rest with
  | nil => simp
  | cons t r => have := h t r rfl; simp [List.takeWhile, List.dropWhile, this]

theorem parseAtom_str (s : List Nat) (u : Bool) (rest : List Tok) (h : NoStr rest) (f : Nat) :
    parseAtom (f + 2) (.str s u :: rest) = some (.const (.str s u), rest) := by
  obtain ⟨h1, h2⟩ := h.takeWhile
  cases u <;> simp [parseAtom, parseStrings, List.takeWhile, List.dropWhile, isStringTok, h1, h2]

theorem parseAtom_bytes (b : List Nat) (rest : List Tok) (h : NoStr rest) (f : Nat) :
    parseAtom (f + 2) (.bytes b :: rest) = some (.const (.bytes b), rest) := by
  obtain ⟨h1, h2⟩ := h.takeWhile
  simp [parseAtom, parseStrings, List.takeWhile, List.dropWhile, isStringTok, h1, h2]

theorem Stop.noStr {lvl : Nat} {rest : List Tok} (h : Stop lvl rest) : NoStr rest := by
  intro t r hr
  have := h t r hr
  simp only [contTok, Bool.or_eq_false_iff] at this
  exact this.1.1.1.1.1.1.2


theorem parseAt_15 : parseAt 15 = parseAtomExpr2 := by unfold parseAt; simp
theorem parseAt_1 : parseAt 1 = parseTest := by unfold parseAt; simp

/-- a single-token atom -/
theorem parses_atom {t : Tok} {e : Expr}
    (hatom : ∀ rest, NoStr rest → Parses parseAtom (t :: rest) e rest)
    (hgood : goodHead 15 t = true) {lvl : Nat} {rest : List Tok} (h1 : 1 ≤ lvl) (h15 : lvl ≤ 15)
    (hs : Stop lvl rest) : Parses (parseAt lvl) (t :: rest) e rest := by
  have h2 := step_atomExpr2 (hatom rest hs.noStr) (hs.mono h15)
  rw [← parseAt_15] at h2
  exact lift h1 h15 (Nat.le_refl _) h2 hgood hs

theorem parses_of_eq {pf : Nat → List Tok → PR Expr} {ts : List Tok} {e : Expr} {rest : List Tok} (k : Nat)
    (h : ∀ f, pf (f + k) ts = some (e, rest)) : Parses pf ts e rest :=
  ⟨k, fun fuel hf => by obtain ⟨f, rfl⟩ : ∃ f, fuel = f + k := ⟨fuel - k, by omega⟩; exact h f⟩

theorem starOrNamed_of_test {t : Tok} {r : List Tok} {e : Expr} {rest' : List Tok} {f : Nat}
    (h : parseTest f (t :: r) = some (e, rest')) (hg : goodHead 1 t = true)
    (hw : ∀ n r', t :: r ≠ .name n :: .op .walrus :: r') :
    parseStarOrNamed (f + 2) (t :: r) = some (e, rest') := by
  unfold parseStarOrNamed
  split
  · omega
  · rename_i heq; simp at heq; obtain ⟨rfl, _⟩ := heq; simp [goodHead] at hg
  · rename_i f' _ heq
    obtain rfl : f' = f + 1 := by omega
    unfold parseNamedTest
    split
    · omega
    · rename_i heq2; exact absurd heq2 (hw _ _)
    · rename_i f'' _ heq2
      obtain rfl : f'' = f := by omega
      exact h

theorem parseElems_close (f : Nat) (close : Op) (hc : close ≠ .comma) (rest : List Tok) :
    parseElems (f + 1) close (.op close :: rest) = some (([], false), rest) := by
  unfold parseElems
  split
  · omega
  · rename_i heq; simp at heq; exact absurd heq.1 hc
  · rename_i heq; simp at heq; obtain ⟨rfl, rfl⟩ := heq; simp
  · rename_i h1 h2; exact absurd rfl (h2 _ _)

/-- a parenthesised expression, as an atom -/
theorem atom_paren {ts : List Tok} {e : Expr} {rest : List Tok}
    (h : Parses parseTest (ts ++ .op .rpar :: rest) e (.op .rpar :: rest))
    (hhead : ∃ t r, ts = t :: r ∧ goodHead 1 t = true) (hw : Tok.op .walrus ∉ ts)
    (hns : isStarred e = false) :
    Parses parseAtom (.op .lpar :: (ts ++ .op .rpar :: rest)) e rest := by
  obtain ⟨t, r, rfl, hg⟩ := hhead
  obtain ⟨n, hn⟩ := h
  refine ⟨n + 6, fun fuel hf => ?_⟩
  obtain ⟨f, rfl⟩ : ∃ f, fuel = f + 6 := ⟨fuel - 6, by omega⟩
  have hT := hn (f + 2) (by omega)
  rw [parseAtom]
  show parseParenAtom (f + 5) _ = _
  unfold parseParenAtom
  split
  · omega
  · rename_i heq; simp at heq; obtain ⟨rfl, _⟩ := heq; simp [goodHead] at hg
  · rename_i heq; simp at heq; obtain ⟨rfl, _⟩ := heq; simp [goodHead] at hg
  · rename_i r' heq' _ _
    obtain rfl : r' = f + 4 := by omega
    have hw' : ∀ n r', t :: (r ++ .op .rpar :: rest) ≠ .name n :: .op .walrus :: r' := by
      intro n r' hc
      simp only [List.cons.injEq] at hc
      cases r with
      | nil => simp at hc
      | cons a as =>
        simp at hc
        obtain ⟨_, rfl, _⟩ := hc
        simp at hw
    rw [show t :: r ++ Tok.op Op.rpar :: rest = t :: (r ++ .op .rpar :: rest) from rfl] at hT ⊢
    rw [starOrNamed_of_test hT hg hw']
    simp only [atCompFor, Bool.false_eq_true, if_false]
    rw [parseElems_close _ _ (by decide)]
    simp [hns]

/-- a parenthesised expression, read at any level -/
theorem parses_paren {ts : List Tok} {e : Expr} {rest : List Tok}
    (h : Parses parseTest (ts ++ .op .rpar :: rest) e (.op .rpar :: rest))
    (hhead : ∃ t r, ts = t :: r ∧ goodHead 1 t = true) (hw : Tok.op .walrus ∉ ts)
    (hns : isStarred e = false) {lvl : Nat} (h1 : 1 ≤ lvl) (h15 : lvl ≤ 15) (hs : Stop lvl rest) :
    Parses (parseAt lvl) (.op .lpar :: (ts ++ .op .rpar :: rest)) e rest := by
  have h2 := step_atomExpr2 (atom_paren h hhead hw hns) (hs.mono h15)
  rw [← parseAt_15] at h2
  exact lift h1 h15 (Nat.le_refl _) h2 rfl hs

/-- `atom_paren` with the weaker hypothesis on the first two tokens (`:=` may occur further inside) -/
theorem atom_paren' {ts : List Tok} {e : Expr} {rest : List Tok}
    (h : Parses parseTest (ts ++ .op .rpar :: rest) e (.op .rpar :: rest))
    (hhead : ∃ t r, ts = t :: r ∧ goodHead 1 t = true) (hw : NoBind ts)
    (hns : isStarred e = false) :
    Parses parseAtom (.op .lpar :: (ts ++ .op .rpar :: rest)) e rest := by
  obtain ⟨t, r, rfl, hg⟩ := hhead
  obtain ⟨n, hn⟩ := h
  refine ⟨n + 6, fun fuel hf => ?_⟩
  obtain ⟨f, rfl⟩ : ∃ f, fuel = f + 6 := ⟨fuel - 6, by omega⟩
  have hT := hn (f + 2) (by omega)
  rw [parseAtom]
  show parseParenAtom (f + 5) _ = _
  unfold parseParenAtom
  split
  · omega
  · rename_i heq; simp at heq; obtain ⟨rfl, _⟩ := heq; simp [goodHead] at hg
  · rename_i heq; simp at heq; obtain ⟨rfl, _⟩ := heq; simp [goodHead] at hg
  · rename_i r' heq' _ _
    obtain rfl : r' = f + 4 := by omega
    have hw' := (hw.append (by simp) (c := .op .rpar) (by simp) (by simp) rest).walrus
    rw [show t :: r ++ Tok.op Op.rpar :: rest = t :: (r ++ .op .rpar :: rest) from rfl] at hT hw' ⊢
    rw [starOrNamed_of_test hT hg hw']
    simp only [atCompFor, Bool.false_eq_true, if_false]
    rw [parseElems_close _ _ (by decide)]
    simp [hns]

/-! ## the round-trip statement per node -/

/-- `e`, rendered at any level and followed by input that does not continue it, is read back by the
    parser function of that level -/
def RT (p : Nat → Bool) (e : Expr) : Prop :=
  ∀ (lvl : Nat) (rest : List Tok), 1 ≤ lvl → lvl ≤ 15 → Stop lvl rest →
    Parses (parseAt lvl) (toks (unparse p e lvl) ++ rest) e rest

/-- left-operand form for the left-associative level `k`: reading `e` (rendered at level `k+6`) and
    then looping is the same as looping with `e` as accumulator -/
def LoopRT (p : Nat → Bool) (k : Nat) (e : Expr) : Prop :=
  ∀ rest : List Tok, Stop (k + 7) rest → ∃ j n, ∀ f, n ≤ f →
    parseBin k (f + j) (toks (unparse p e (k + 6)) ++ rest) = parseBinLoop k f e rest

theorem inFrag_not_starred {e : Expr} (h : inFrag e = true) : isStarred e = false := by
  cases e <;> first | rfl | simp [inFrag] at h

theorem contTok_rpar (lvl : Nat) : contTok lvl (.op .rpar) = false := by
  simp [contTok, isTrailerStart, isStringTok, binLevelOf, binOpOf, isCmpStart]

/-- every expression of the operator core is `Plain` -/
theorem plain_of_inFrag (p : Nat → Bool) {e : Expr} (h : inFrag e = true) : Plain p e where
  head := fun lvl _ => firstTok p e h lvl
  nobind := fun lvl _ => NoBind.of_not_mem (noWalrus p e h lvl) (noAssign p e h lvl)
  ns := inFrag_not_starred h

/-- `Plain` for a node with a `group_if!` at level `prec ≥ 1`, from its rendering at that level -/
theorem plain_of_own (p : Nat → Bool) {e : Expr} {prec : Nat} (hk : kindPrec (kindOf e) = some prec) (hp1 : 1 ≤ prec)
    (hh : ∃ t r, toks (unparse p e prec) = t :: r ∧ goodHead prec t = true)
    (hnb : NoBind (toks (unparse p e prec))) (hns : isStarred e = false) : Plain p e where
  head := fun lvl _ => by
    rw [unparse_group p e lvl prec hk, toks_groupIf]
    by_cases hg : lvl > prec
    · exact ⟨.op .lpar, _, by rw [if_pos (by simpa using hg)], rfl⟩
    · rw [if_neg (by simpa using hg)]
      obtain ⟨t, r, ht, hgood⟩ := hh
      exact ⟨t, r, ht, goodHead_anti (by omega) hgood⟩
  nobind := fun lvl _ => by
    rw [unparse_group p e lvl prec hk, toks_groupIf]
    by_cases hg : lvl > prec
    · rw [if_pos (by simpa using hg)]
      exact NoBind.of_head (by intro n; simp)
    · rw [if_neg (by simpa using hg)]
      exact hnb
  ns := hns

/-- from the node's own level to every level (parenthesised above it) -/
theorem rt_of_own (p : Nat → Bool) {e : Expr} {prec : Nat} (hP : Plain p e)
    (hk : kindPrec (kindOf e) = some prec) (hp1 : 1 ≤ prec) (hp15 : prec ≤ 15)
    (hown : ∀ rest, Stop prec rest → Parses (parseAt prec) (toks (unparse p e prec) ++ rest) e rest) :
    RT p e := by
  intro lvl rest h1 h15 hs
  obtain ⟨t, r, ht, hg⟩ := hP.head prec hp1
  rw [unparse_group p e lvl prec hk, toks_groupIf]
  by_cases hgt : lvl > prec
  · rw [if_pos (by simpa using hgt)]
    have hin : Parses (parseAt prec) (toks (unparse p e prec) ++ .op .rpar :: rest) e (.op .rpar :: rest) :=
      hown _ (Stop.cons (contTok_rpar _))
    rw [ht] at hin
    have hT := lift (lvl := 1) (Nat.le_refl _) hp1 hp15 hin hg (Stop.cons (contTok_rpar _))
    rw [parseAt_1] at hT
    have hT' : Parses parseTest (toks (unparse p e prec) ++ .op .rpar :: rest) e (.op .rpar :: rest) := by
      rw [ht]; exact hT
    have h2 := step_atomExpr2 (atom_paren' hT' ⟨t, r, ht, goodHead_anti hp1 hg⟩ (hP.nobind prec hp1) hP.ns)
      (hs.mono h15)
    rw [← parseAt_15] at h2
    have := lift h1 h15 (Nat.le_refl _) h2 rfl hs
    simpa using this
  · rw [if_neg (by simpa using hgt)]
    have h0 := hown rest (hs.mono (by omega))
    rw [ht] at h0 ⊢
    exact lift h1 (by omega) hp15 h0 hg hs

theorem parseAt_2 : parseAt 2 = parseOrTest := by unfold parseAt; simp
theorem parseAt_3 : parseAt 3 = parseAndTest := by unfold parseAt; simp
theorem parseAt_4 : parseAt 4 = parseNotTest := by unfold parseAt; simp
theorem parseAt_5 : parseAt 5 = parseCmp := by unfold parseAt; simp
theorem parseAt_12 : parseAt 12 = parseFactor := by unfold parseAt; simp
theorem parseAt_13 : parseAt 13 = parsePower := by unfold parseAt; simp
theorem parseAt_14 : parseAt 14 = parseAtomExpr := by unfold parseAt; simp
theorem parseAt_bin {k : Nat} (hk : k ≤ 5) : parseAt (k + 6) = parseBin k := by
  unfold parseAt
  have : k = 0 ∨ k = 1 ∨ k = 2 ∨ k = 3 ∨ k = 4 ∨ k = 5 := by omega
  rcases this with rfl | rfl | rfl | rfl | rfl | rfl <;> simp

/-! ### names and constants -/

theorem atom_name (id : Ident) (rest : List Tok) : Parses parseAtom (.name id :: rest) (.name id) rest :=
  parses_of_eq 1 (fun f => by rw [parseAtom])

theorem atom_const (c : Const) (rest : List Tok) (hr : NoStr rest) :
    Parses parseAtom (constTok c :: rest) (.const c) rest := by
  cases c with
  | none => exact parses_of_eq 1 (fun f => by simp [constTok, parseAtom])
  | bool b => cases b <;> exact parses_of_eq 1 (fun f => by simp [constTok, parseAtom])
  | ellipsis => exact parses_of_eq 1 (fun f => by simp [constTok, parseAtom])
  | int n => exact parses_of_eq 1 (fun f => by simp [constTok, parseAtom])
  | float b => exact parses_of_eq 1 (fun f => by simp [constTok, parseAtom])
  | imag b => exact parses_of_eq 1 (fun f => by simp [constTok, parseAtom])
  | str s u => exact parses_of_eq 2 (fun f => parseAtom_str s u rest hr f)
  | bytes b => exact parses_of_eq 2 (fun f => parseAtom_bytes b rest hr f)

theorem goodHead_constTok (c : Const) : goodHead 15 (constTok c) = true := by
  cases c with
  | bool b => cases b <;> rfl
  | _ => rfl

theorem rt_name (p : Nat → Bool) (id : Ident) : RT p (.name id) := by
  intro lvl rest h1 h15 hs
  have : toks (unparse p (.name id) lvl) = [.name id] := by simp [unparse]
  rw [this]
  exact parses_atom (fun r _ => atom_name id r) rfl h1 h15 hs

theorem rt_const (p : Nat → Bool) (c : Const) : RT p (.const c) := by
  intro lvl rest h1 h15 hs
  have : toks (unparse p (.const c) lvl) = [constTok c] := by simp [unparse]
  rw [this]
  exact parses_atom (fun r hr => atom_const c r hr) (goodHead_constTok c) h1 h15 hs

/-! ### await -/

theorem rt_await (p : Nat → Bool) (x : Expr) (hP : Plain p (.await x)) (ih : RT p x) : RT p (.await x) := by
  refine rt_of_own p (prec := 14) hP rfl (by omega) (by omega) ?_
  intro rest hs
  have hx15 := ih 15 rest (by omega) (by omega) (hs.mono (by omega))
  rw [parseAt_15] at hx15
  rw [parseAt_14]
  obtain ⟨n, hn⟩ := hx15
  refine ⟨n + 1, fun fuel hf => ?_⟩
  obtain ⟨f, rfl, hf'⟩ := fuel_succ hf
  have : toks (unparse p (.await x) 14) = .kw .await :: toks (unparse p x 15) := by
    simp [unparse, groupIf, Prec.AWAIT, Prec.ATOM, kw]
  rw [this]
  show parseAtomExpr (f + 1) (.kw .await :: (toks (unparse p x 15) ++ rest)) = _
  rw [parseAtomExpr, hn f hf']

/-! ### unary operators -/

theorem rt_not (p : Nat → Bool) (x : Expr) (hP : Plain p (.unaryOp .not x)) (ih : RT p x) : RT p (.unaryOp .not x) := by
  refine rt_of_own p (prec := 4) hP rfl (by omega) (by omega) ?_
  intro rest hs
  have hx4 := ih 4 rest (by omega) (by omega) hs
  rw [parseAt_4] at hx4 ⊢
  obtain ⟨n, hn⟩ := hx4
  refine ⟨n + 1, fun fuel hf => ?_⟩
  obtain ⟨f, rfl, hf'⟩ := fuel_succ hf
  have : toks (unparse p (.unaryOp .not x) 4) = .kw .not :: toks (unparse p x 4) := by
    simp [unparse, groupIf, unaryOpPrec, Prec.NOT, unaryOpOuts, kw]
  rw [this]
  show parseNotTest (f + 1) (.kw .not :: (toks (unparse p x 4) ++ rest)) = _
  rw [parseNotTest, hn f hf']

theorem rt_factor (p : Nat → Bool) (o : UnaryOp) (ho : o ≠ .not) (x : Expr) (hP : Plain p (.unaryOp o x))
    (ih : RT p x) : RT p (.unaryOp o x) := by
  have hprec : unaryOpPrec o = 12 := by cases o <;> first | rfl | exact absurd rfl ho
  refine rt_of_own p (prec := 12) hP (by simp [kindOf, kindPrec, hprec]) (by omega) (by omega) ?_
  intro rest hs
  have hx12 := ih 12 rest (by omega) (by omega) hs
  rw [parseAt_12] at hx12 ⊢
  obtain ⟨n, hn⟩ := hx12
  refine ⟨n + 1, fun fuel hf => ?_⟩
  obtain ⟨f, rfl, hf'⟩ := fuel_succ hf
  have : toks (unparse p (.unaryOp o x) 12) = unaryTok o :: toks (unparse p x 12) := by
    simp [unparse, groupIf, hprec, toks_unaryOpOuts]
  rw [this]
  show parseFactor (f + 1) (unaryTok o :: (toks (unparse p x 12) ++ rest)) = _
  have hu : unaryOpAt (unaryTok o :: (toks (unparse p x 12) ++ rest)) = some (o, toks (unparse p x 12) ++ rest) := by
    cases o <;> first | rfl | exact absurd rfl ho
  rw [parseFactor, hu]
  simp only
  rw [hn f hf']

/-! ### `**` -/

theorem contTok_dstar_14 : contTok 14 (.op .dstar) = false := by
  simp [contTok, isTrailerStart, isStringTok, binLevelOf, binOpOf, isCmpStart]

theorem rt_pow (p : Nat → Bool) (l r : Expr) (hP : Plain p (.binOp l .pow r)) (hr : Plain p r)
    (ihl : RT p l) (ihr : RT p r) : RT p (.binOp l .pow r) := by
  refine rt_of_own p (prec := 13) hP rfl (by omega) (by omega) ?_
  intro rest hs
  have htoks : toks (unparse p (.binOp l .pow r) 13) =
      toks (unparse p l 14) ++ .op .dstar :: toks (unparse p r 13) := by
    simp [unparse, groupIf, binOpPrec, Prec.POWER, binOpTok, op]
  rw [htoks, List.append_assoc, List.cons_append, parseAt_13]
  have h1 := ihl 14 (.op .dstar :: (toks (unparse p r 13) ++ rest)) (by omega) (by omega)
    (Stop.cons contTok_dstar_14)
  rw [parseAt_14] at h1
  have h2 := ihr 13 rest (by omega) (by omega) hs
  rw [parseAt_13] at h2
  obtain ⟨t, tr, ht, hg⟩ := hr.head 13 (by omega)
  rw [ht] at h2
  have h3 := step_factor h2 (by unfold unaryOpAt; split <;> simp_all [goodHead])
  rw [← ht] at h3
  obtain ⟨n1, hn1⟩ := h1
  obtain ⟨n3, hn3⟩ := h3
  refine ⟨n1 + n3 + 1, fun fuel hf => ?_⟩
  obtain ⟨f, rfl⟩ : ∃ f, fuel = f + 1 := ⟨fuel - 1, by omega⟩
  rw [parsePower, hn1 f (by omega)]
  simp only
  rw [hn3 f (by omega)]

/-! ### the six left-associative binary levels -/

/-- level index (0 … 5) of a left-associative binary operator -/
def binLevel (o : BinOp) : Nat := binOpPrec o - 6

theorem binOpOf_binOpTok (o : BinOp) (ho : o ≠ .pow) : binOpOf (binOpTok o) = some (o, binLevel o) := by
  cases o <;> first | rfl | exact absurd rfl ho

theorem binLevel_le (o : BinOp) (ho : o ≠ .pow) : binLevel o ≤ 5 ∧ binOpPrec o = binLevel o + 6 := by
  cases o <;> first | exact absurd rfl ho | exact ⟨by decide, rfl⟩

theorem contTok_binOpTok (o : BinOp) (ho : o ≠ .pow) : contTok (binLevel o + 7) (.op (binOpTok o)) = false := by
  cases o <;> first | exact absurd rfl ho | rfl

/-- `LoopRT` from `RT` when the node is not itself an operator of level `k` -/
theorem loopRT_of_rt (p : Nat → Bool) {k : Nat} (hk : k ≤ 5) {e : Expr}
    (hne : unparse p e (k + 6) = unparse p e (k + 7)) (ih : RT p e) : LoopRT p k e := by
  intro rest hs
  have h := ih (k + 7) rest (by omega) (by omega) hs
  rw [← binOperand_eq_parseAt hk, ← hne] at h
  obtain ⟨n, hn⟩ := h
  refine ⟨1, n, fun f hf => ?_⟩
  have := hn f hf
  simp only [binOperand] at this
  rw [parseBin, this]

theorem unparse_level_succ (p : Nat → Bool) (e : Expr) (lvl : Nat)
    (h : kindPrec (kindOf e) ≠ some lvl) : unparse p e lvl = unparse p e (lvl + 1) := by
  cases hk : kindPrec (kindOf e) with
  | none => exact unparse_nogroup p e _ _ hk
  | some prec =>
    rw [unparse_group p e lvl prec hk, unparse_group p e (lvl + 1) prec hk]
    have : prec ≠ lvl := by intro h'; subst h'; exact h hk
    have : decide (lvl > prec) = decide (lvl + 1 > prec) := by
      by_cases h1 : lvl > prec <;> simp [h1] <;> omega
    rw [this]

/-- a left-associative operator node, in left-operand form -/
theorem loopRT_bin (p : Nat → Bool) (l : Expr) (o : BinOp) (r : Expr) (ho : o ≠ .pow)
    (ihl : LoopRT p (binLevel o) l) (ihr : RT p r) : LoopRT p (binLevel o) (.binOp l o r) := by
  obtain ⟨hk5, hprec⟩ := binLevel_le o ho
  intro rest hs
  have htoks : toks (unparse p (.binOp l o r) (binLevel o + 6)) =
      toks (unparse p l (binLevel o + 6)) ++ .op (binOpTok o) :: toks (unparse p r (binLevel o + 7)) := by
    simp [unparse, groupIf, ho, hprec, op]
  rw [htoks, List.append_assoc, List.cons_append]
  obtain ⟨j1, n1, h1⟩ := ihl (.op (binOpTok o) :: (toks (unparse p r (binLevel o + 7)) ++ rest))
    (Stop.cons (contTok_binOpTok o ho))
  have h2 := ihr (binLevel o + 7) rest (by omega) (by omega) hs
  rw [← binOperand_eq_parseAt hk5] at h2
  obtain ⟨n2, hn2⟩ := h2
  refine ⟨j1 + 1, n1 + n2, fun f hf => ?_⟩
  rw [show f + (j1 + 1) = (f + 1) + j1 by omega, h1 (f + 1) (by omega)]
  have hb : binOpAt (binLevel o) (.op (binOpTok o) :: (toks (unparse p r (binLevel o + 7)) ++ rest)) =
      some (o, toks (unparse p r (binLevel o + 7)) ++ rest) := by
    simp [binOpAt, binOpOf_binOpTok o ho]
  rw [parseBinLoop, hb]
  simp only
  have := hn2 f (by omega)
  simp only [binOperand] at this
  rw [this]

/-- … and read at its own level -/
theorem rt_bin (p : Nat → Bool) (l : Expr) (o : BinOp) (r : Expr) (ho : o ≠ .pow)
    (hP : Plain p (.binOp l o r))
    (ihl : LoopRT p (binLevel o) l) (ihr : RT p r) : RT p (.binOp l o r) := by
  obtain ⟨hk5, hprec⟩ := binLevel_le o ho
  refine rt_of_own p (prec := binLevel o + 6) hP (by simp [kindOf, kindPrec, hprec])
    (by omega) (by omega) ?_
  intro rest hs
  obtain ⟨j, n, h⟩ := loopRT_bin p l o r ho ihl ihr rest (hs.mono (by omega))
  rw [parseAt_bin hk5]
  refine ⟨n + j + 1, fun fuel hf => ?_⟩
  obtain ⟨f, rfl⟩ : ∃ f, fuel = (f + 1) + j := ⟨fuel - j - 1, by omega⟩
  rw [h (f + 1) (by omega), parseBinLoop, Stop.binOpAt hk5 hs]

/-! ### `or` / `and` chains -/

theorem contTok_or_3 : contTok 3 (.kw .or) = false := by
  simp [contTok, isTrailerStart, isStringTok, binLevelOf, isCmpStart]
theorem contTok_and_4 : contTok 4 (.kw .and) = false := by
  simp [contTok, isTrailerStart, isStringTok, binLevelOf, isCmpStart]

/-- the remaining operands of an `or` chain -/
theorem orRest (p : Nat → Bool) : (vs : List Expr) → (∀ v ∈ vs, RT p v) → ∀ (v : Expr), RT p v →
    ∀ rest, Stop 2 rest → ∃ n, ∀ f, n ≤ f →
      parseOrRest f (toks (unparse p v 3) ++ toks (unparseBool p vs .or 3 false) ++ rest) = some (v :: vs, rest)
  | [], _, v, hv, rest, hs => by
    have h := hv 3 rest (by omega) (by omega) (hs.mono (by omega))
    rw [parseAt_3] at h
    obtain ⟨n, hn⟩ := h
    refine ⟨n + 1, fun fuel hf => ?_⟩
    obtain ⟨f, rfl, hf'⟩ := fuel_succ hf
    simp only [unparseBool, toks_nil, List.append_nil]
    rw [parseOrRest, hn f hf']
    split
    · rename_i h1; simp at h1; exact absurd h1.2 (hs.not_or _)
    · rename_i h1 h2; simp at h2; obtain ⟨rfl, rfl⟩ := h2; rfl
    · rename_i h1; simp at h1
  | w :: ws, hvs, v, hv, rest, hs => by
    have h := hv 3 (.kw .or :: (toks (unparse p w 3) ++ toks (unparseBool p ws .or 3 false) ++ rest))
      (by omega) (by omega) (Stop.cons contTok_or_3)
    rw [parseAt_3] at h
    obtain ⟨n1, hn1⟩ := h
    obtain ⟨n2, hn2⟩ := orRest p ws (fun x hx => hvs x (List.mem_cons_of_mem _ hx)) w
      (hvs w (List.mem_cons_self ..)) rest hs
    refine ⟨n1 + n2 + 1, fun fuel hf => ?_⟩
    obtain ⟨f, rfl⟩ : ∃ f, fuel = f + 1 := ⟨fuel - 1, by omega⟩
    have e1 : toks (unparse p v 3) ++ toks (unparseBool p (w :: ws) .or 3 false) ++ rest =
        toks (unparse p v 3) ++ .kw .or :: (toks (unparse p w 3) ++ toks (unparseBool p ws .or 3 false) ++ rest) := by
      simp [toks_unparseBool_cons']
    rw [e1, parseOrRest, hn1 f (by omega)]
    simp only
    rw [hn2 f (by omega)]

theorem andRest (p : Nat → Bool) : (vs : List Expr) → (∀ v ∈ vs, RT p v) → ∀ (v : Expr), RT p v →
    ∀ rest, Stop 3 rest → ∃ n, ∀ f, n ≤ f →
      parseAndRest f (toks (unparse p v 4) ++ toks (unparseBool p vs .and 4 false) ++ rest) = some (v :: vs, rest)
  | [], _, v, hv, rest, hs => by
    have h := hv 4 rest (by omega) (by omega) (hs.mono (by omega))
    rw [parseAt_4] at h
    obtain ⟨n, hn⟩ := h
    refine ⟨n + 1, fun fuel hf => ?_⟩
    obtain ⟨f, rfl, hf'⟩ := fuel_succ hf
    simp only [unparseBool, toks_nil, List.append_nil]
    rw [parseAndRest, hn f hf']
    split
    · rename_i h1; simp at h1; exact absurd h1.2 (hs.not_and _)
    · rename_i h1 h2; simp at h2; obtain ⟨rfl, rfl⟩ := h2; rfl
    · rename_i h1; simp at h1
  | w :: ws, hvs, v, hv, rest, hs => by
    have h := hv 4 (.kw .and :: (toks (unparse p w 4) ++ toks (unparseBool p ws .and 4 false) ++ rest))
      (by omega) (by omega) (Stop.cons contTok_and_4)
    rw [parseAt_4] at h
    obtain ⟨n1, hn1⟩ := h
    obtain ⟨n2, hn2⟩ := andRest p ws (fun x hx => hvs x (List.mem_cons_of_mem _ hx)) w
      (hvs w (List.mem_cons_self ..)) rest hs
    refine ⟨n1 + n2 + 1, fun fuel hf => ?_⟩
    obtain ⟨f, rfl⟩ : ∃ f, fuel = f + 1 := ⟨fuel - 1, by omega⟩
    have e1 : toks (unparse p v 4) ++ toks (unparseBool p (w :: ws) .and 4 false) ++ rest =
        toks (unparse p v 4) ++ .kw .and :: (toks (unparse p w 4) ++ toks (unparseBool p ws .and 4 false) ++ rest) := by
      simp [toks_unparseBool_cons']
    rw [e1, parseAndRest, hn1 f (by omega)]
    simp only
    rw [hn2 f (by omega)]

theorem rt_or (p : Nat → Bool) (v w : Expr) (ws : List Expr) (hP : Plain p (.boolOp .or (v :: w :: ws)))
    (hv : RT p v) (hvs : ∀ x ∈ w :: ws, RT p x) : RT p (.boolOp .or (v :: w :: ws)) := by
  refine rt_of_own p (prec := 2) hP rfl (by omega) (by omega) ?_
  intro rest hs
  rw [parseAt_2]
  have h := hv 3 (.kw .or :: (toks (unparse p w 3) ++ toks (unparseBool p ws .or 3 false) ++ rest))
    (by omega) (by omega) (Stop.cons contTok_or_3)
  rw [parseAt_3] at h
  obtain ⟨n1, hn1⟩ := h
  obtain ⟨n2, hn2⟩ := orRest p ws (fun x hx => hvs x (List.mem_cons_of_mem _ hx)) w
    (hvs w (List.mem_cons_self ..)) rest hs
  refine ⟨n1 + n2 + 1, fun fuel hf => ?_⟩
  obtain ⟨f, rfl⟩ : ∃ f, fuel = f + 1 := ⟨fuel - 1, by omega⟩
  have e1 : toks (unparse p (.boolOp .or (v :: w :: ws)) 2) ++ rest =
      toks (unparse p v 3) ++ .kw .or :: (toks (unparse p w 3) ++ toks (unparseBool p ws .or 3 false) ++ rest) := by
    simp [unparse, groupIf, boolOpPrec, Prec.OR, boolOpKw, toks_unparseBool_cons, toks_unparseBool_cons']
  rw [e1, parseOrTest, hn1 f (by omega)]
  simp only
  rw [hn2 f (by omega)]

theorem rt_and (p : Nat → Bool) (v w : Expr) (ws : List Expr) (hP : Plain p (.boolOp .and (v :: w :: ws)))
    (hv : RT p v) (hvs : ∀ x ∈ w :: ws, RT p x) : RT p (.boolOp .and (v :: w :: ws)) := by
  refine rt_of_own p (prec := 3) hP rfl (by omega) (by omega) ?_
  intro rest hs
  rw [parseAt_3]
  have h := hv 4 (.kw .and :: (toks (unparse p w 4) ++ toks (unparseBool p ws .and 4 false) ++ rest))
    (by omega) (by omega) (Stop.cons contTok_and_4)
  rw [parseAt_4] at h
  obtain ⟨n1, hn1⟩ := h
  obtain ⟨n2, hn2⟩ := andRest p ws (fun x hx => hvs x (List.mem_cons_of_mem _ hx)) w
    (hvs w (List.mem_cons_self ..)) rest hs
  refine ⟨n1 + n2 + 1, fun fuel hf => ?_⟩
  obtain ⟨f, rfl⟩ : ∃ f, fuel = f + 1 := ⟨fuel - 1, by omega⟩
  have e1 : toks (unparse p (.boolOp .and (v :: w :: ws)) 3) ++ rest =
      toks (unparse p v 4) ++ .kw .and :: (toks (unparse p w 4) ++ toks (unparseBool p ws .and 4 false) ++ rest) := by
    simp [unparse, groupIf, boolOpPrec, Prec.AND, boolOpKw, toks_unparseBool_cons, toks_unparseBool_cons']
  rw [e1, parseAndTest, hn1 f (by omega)]
  simp only
  rw [hn2 f (by omega)]

/-! ### conditional expressions -/

theorem contTok_if_2 : contTok 2 (.kw .if) = false := by
  simp [contTok, isTrailerStart, isStringTok, binLevelOf, isCmpStart]
theorem contTok_else (lvl : Nat) : contTok lvl (.kw .else) = false := by
  simp [contTok, isTrailerStart, isStringTok, binLevelOf, isCmpStart]

theorem rt_ifExp (p : Nat → Bool) (t b o : Expr) (hP : Plain p (.ifExp t b o)) (hb' : Plain p b)
    (ht : RT p t) (hb : RT p b) (ho : RT p o) : RT p (.ifExp t b o) := by
  refine rt_of_own p (prec := 1) hP rfl (by omega) (by omega) ?_
  intro rest hs
  rw [parseAt_1]
  have e1 : toks (unparse p (.ifExp t b o) 1) ++ rest =
      toks (unparse p b 2) ++ .kw .if :: (toks (unparse p t 2) ++ .kw .else :: (toks (unparse p o 1) ++ rest)) := by
    simp [unparse, groupIf, Prec.TEST, kw]
  have h1 := hb 2 (.kw .if :: (toks (unparse p t 2) ++ .kw .else :: (toks (unparse p o 1) ++ rest)))
    (by omega) (by omega) (Stop.cons contTok_if_2)
  have h2 := ht 2 (.kw .else :: (toks (unparse p o 1) ++ rest)) (by omega) (by omega) (Stop.cons (contTok_else _))
  have h3 := ho 1 rest (by omega) (by omega) hs
  rw [parseAt_2] at h1 h2
  rw [parseAt_1] at h3
  obtain ⟨n1, hn1⟩ := h1
  obtain ⟨n2, hn2⟩ := h2
  obtain ⟨n3, hn3⟩ := h3
  obtain ⟨tk, tr, htk, hg⟩ := hb'.head 2 (by omega)
  refine ⟨n1 + n2 + n3 + 1, fun fuel hfu => ?_⟩
  obtain ⟨f, rfl⟩ : ∃ f, fuel = f + 1 := ⟨fuel - 1, by omega⟩
  rw [e1]
  rw [parseTest.eq_3 _ _ (by
    intro r' h'
    rw [htk] at h'
    simp at h'
    obtain ⟨rfl, _⟩ := h'
    simp [goodHead] at hg)]
  rw [hn1 f (by omega)]
  simp only
  rw [hn2 f (by omega)]
  simp only
  rw [hn3 f (by omega)]

/-! ### comparison chains -/

theorem cmpOpAt_toks (o : CmpOp) (X : List Tok) (hX : ∀ r, X ≠ .kw .not :: r) :
    cmpOpAt (toks (cmpOpOuts o) ++ X) = some (o, X) := by
  cases o <;> simp [cmpOpOuts, toks, op, kw, cmpOpAt]

theorem contTok_cmp_6 (o : CmpOp) : ∀ t r, toks (cmpOpOuts o) = t :: r → contTok 6 t = false := by
  intro t r h
  cases o <;> simp [cmpOpOuts, toks, op, kw] at h <;> obtain ⟨rfl, _⟩ := h <;>
    simp [contTok, isTrailerStart, isStringTok, binLevelOf, binOpOf, isCmpStart]

theorem stop6_cmps (p : Nat → Bool) (ops : List CmpOp) (cs : List Expr) (rest : List Tok)
    (hs : Stop 5 rest) : Stop 6 (toks (unparseCmps p ops cs) ++ rest) := by
  cases ops with
  | nil => simpa [unparseCmps] using hs.mono (by omega)
  | cons o os =>
    cases cs with
    | nil => simpa [unparseCmps] using hs.mono (by omega)
    | cons c cs' =>
      intro t r h
      have : ∃ t' r', toks (cmpOpOuts o) = t' :: r' := by cases o <;> simp [cmpOpOuts, toks, op, kw]
      obtain ⟨t', r', h'⟩ := this
      simp [unparseCmps, h'] at h
      obtain ⟨rfl, _⟩ := h
      exact contTok_cmp_6 o _ _ h'

theorem cmpRest (p : Nat → Bool) : (cs : List Expr) → (ops : List CmpOp) → ops.length = cs.length →
    (∀ c ∈ cs, RT p c ∧ Plain p c) → ∀ rest, Stop 5 rest → ∃ n, ∀ f, n ≤ f →
      parseCmpRest f (toks (unparseCmps p ops cs) ++ rest) = some ((ops, cs), rest)
  | [], [], _, _, rest, hs => by
    refine ⟨1, fun fuel hf => ?_⟩
    obtain ⟨f, rfl, _⟩ := fuel_succ hf
    simp [unparseCmps, parseCmpRest, hs.cmpOpAt]
  | [], _ :: _, hl, _, _, _ => by simp at hl
  | _ :: _, [], hl, _, _, _ => by simp at hl
  | c :: cs, o :: os, hl, hcs, rest, hs => by
    obtain ⟨hc, hcf⟩ := hcs c (List.mem_cons_self ..)
    have hR := stop6_cmps p os cs rest hs
    have h1 := hc 6 (toks (unparseCmps p os cs) ++ rest) (by omega) (by omega) hR
    rw [parseAt_bin (k := 0) (by omega)] at h1
    obtain ⟨n1, hn1⟩ := h1
    obtain ⟨n2, hn2⟩ := cmpRest p cs os (by simpa using hl)
      (fun x hx => hcs x (List.mem_cons_of_mem _ hx)) rest hs
    obtain ⟨t, tr, ht, hg⟩ := hcf.head 6 (by omega)
    refine ⟨n1 + n2 + 1, fun fuel hf => ?_⟩
    obtain ⟨f, rfl⟩ : ∃ f, fuel = f + 1 := ⟨fuel - 1, by omega⟩
    have e1 : toks (unparseCmps p (o :: os) (c :: cs)) ++ rest =
        toks (cmpOpOuts o) ++ (toks (unparse p c 6) ++ (toks (unparseCmps p os cs) ++ rest)) := by
      simp [unparseCmps, Prec.CMP]
    have hop := cmpOpAt_toks o (toks (unparse p c 6) ++ (toks (unparseCmps p os cs) ++ rest))
      (by intro r h; rw [ht] at h; simp at h; obtain ⟨rfl, _⟩ := h; simp [goodHead] at hg)
    rw [e1, parseCmpRest, hop]
    simp only
    rw [hn1 f (by omega)]
    simp only
    rw [hn2 f (by omega)]

theorem rt_compare (p : Nat → Bool) (l : Expr) (ops : List CmpOp) (cs : List Expr)
    (hP : Plain p (.compare l ops cs)) (hlen : ops.length = cs.length) (hne : cs ≠ []) (hl : RT p l)
    (hcs : ∀ c ∈ cs, RT p c ∧ Plain p c) : RT p (.compare l ops cs) := by
  refine rt_of_own p (prec := 5) hP rfl (by omega) (by omega) ?_
  intro rest hs
  rw [parseAt_5]
  have h1 := hl 6 (toks (unparseCmps p ops cs) ++ rest) (by omega) (by omega) (stop6_cmps p ops cs rest hs)
  rw [parseAt_bin (k := 0) (by omega)] at h1
  obtain ⟨n1, hn1⟩ := h1
  obtain ⟨n2, hn2⟩ := cmpRest p cs ops hlen hcs rest hs
  refine ⟨n1 + n2 + 1, fun fuel hfu => ?_⟩
  obtain ⟨f, rfl⟩ : ∃ f, fuel = f + 1 := ⟨fuel - 1, by omega⟩
  have e1 : toks (unparse p (.compare l ops cs) 5) ++ rest =
      toks (unparse p l 6) ++ (toks (unparseCmps p ops cs) ++ rest) := by
    simp [unparse, groupIf, Prec.CMP]
  rw [e1, parseCmp, hn1 f (by omega)]
  simp only
  -- the rest starts with a comparison operator
  obtain ⟨c, cs', rfl⟩ : ∃ c cs', cs = c :: cs' := by cases cs with | nil => exact absurd rfl hne | cons c cs' => exact ⟨c, cs', rfl⟩
  obtain ⟨o, os, rfl⟩ : ∃ o os, ops = o :: os := by cases ops with | nil => simp at hlen | cons o os => exact ⟨o, os, rfl⟩
  obtain ⟨hc, hcf⟩ := hcs c (List.mem_cons_self ..)
  obtain ⟨t, tr, ht, hg⟩ := hcf.head 6 (by omega)
  have e2 : toks (unparseCmps p (o :: os) (c :: cs')) ++ rest =
      toks (cmpOpOuts o) ++ (toks (unparse p c 6) ++ (toks (unparseCmps p os cs') ++ rest)) := by
    simp [unparseCmps, Prec.CMP]
  have hop := cmpOpAt_toks o (toks (unparse p c 6) ++ (toks (unparseCmps p os cs') ++ rest))
    (by intro r h; rw [ht] at h; simp at h; obtain ⟨rfl, _⟩ := h; simp [goodHead] at hg)
  have := hn2 f (by omega)
  rw [e2] at this ⊢
  rw [hop]
  simp only
  rw [this]

/-! ### atoms and trailers -/

/-- `e`, rendered at atom level, is read by `parseAtom` -/
def AtomRT (p : Nat → Bool) (e : Expr) : Prop :=
  ∀ rest, NoStr rest → Parses parseAtom (toks (unparse p e 15) ++ rest) e rest

/-- trailer form: reading `e` (rendered at atom level) and then looping over trailers is the same as
    looping with `e` as accumulator -/
def TrailRT (p : Nat → Bool) (e : Expr) : Prop :=
  ∀ rest, NoStr rest → ∃ j n, ∀ f, n ≤ f →
    parseAtomExpr2 (f + j) (toks (unparse p e 15) ++ rest) = parseTrailers f e rest

theorem trailRT_of_atomRT {p : Nat → Bool} {e : Expr} (h : AtomRT p e) : TrailRT p e := by
  intro rest hr
  obtain ⟨n, hn⟩ := h rest hr
  exact ⟨1, n, fun f hf => by rw [parseAtomExpr2, hn f hf]⟩

theorem noStr_rpar (rest : List Tok) : NoStr (.op .rpar :: rest) := by
  intro t r h; cases h; rfl

/-- a node with a precedence level below the atom level is written in parentheses at atom level -/
theorem atomRT_of_rt (p : Nat → Bool) {e : Expr} {prec : Nat} (hP : Plain p e)
    (hk : kindPrec (kindOf e) = some prec) (hp1 : 1 ≤ prec) (hp : prec < 15) (hrt : RT p e) : AtomRT p e := by
  intro rest _
  obtain ⟨t, r, ht, hg⟩ := hP.head prec hp1
  rw [unparse_group p e 15 prec hk, toks_groupIf, if_pos (by simpa using hp)]
  have hin := hrt prec (.op .rpar :: rest) hp1 (by omega) (Stop.cons (contTok_rpar _))
  rw [ht] at hin
  have hT := lift (lvl := 1) (Nat.le_refl _) hp1 (by omega) hin hg (Stop.cons (contTok_rpar _))
  rw [parseAt_1] at hT
  have hT' : Parses parseTest (toks (unparse p e prec) ++ .op .rpar :: rest) e (.op .rpar :: rest) := by
    rw [ht]; exact hT
  have := atom_paren' hT' ⟨t, r, ht, goodHead_anti hp1 hg⟩ (hP.nobind prec hp1) hP.ns
  simpa using this

/-- from the trailer form to every level, for kinds that are never parenthesised -/
theorem rt_of_trailRT (p : Nat → Bool) {e : Expr} (hk : ∀ lvl, 1 ≤ lvl → unparse p e lvl = unparse p e 15)
    (hfirst : ∃ t r, toks (unparse p e 15) = t :: r ∧ goodHead 15 t = true) (h : TrailRT p e) : RT p e := by
  intro lvl rest h1 h15 hs
  rw [hk lvl h1]
  obtain ⟨j, n, hn⟩ := h rest hs.noStr
  have h2 : Parses parseAtomExpr2 (toks (unparse p e 15) ++ rest) e rest := by
    refine ⟨n + j + 1, fun fuel hf => ?_⟩
    obtain ⟨f, rfl⟩ : ∃ f, fuel = (f + 1) + j := ⟨fuel - j - 1, by omega⟩
    rw [hn (f + 1) (by omega)]
    exact (hs.mono h15).trailers
  obtain ⟨t, r, ht, hg⟩ := hfirst
  rw [← parseAt_15, ht] at h2
  rw [ht]
  exact lift h1 h15 (Nat.le_refl _) h2 hg hs

theorem trailRT_attribute (p : Nat → Bool) (v : Expr) (n : Ident) (ih : TrailRT p v) :
    TrailRT p (.attribute v n) := by
  intro rest hr
  have e1 : toks (unparse p (.attribute v n) 15) ++ rest =
      toks (unparse p v 15) ++ (.op .dot :: .name n :: rest) := by
    by_cases hi : isIntConst v = true <;> simp [unparse, hi, Prec.ATOM, op]
  obtain ⟨j, m, hm⟩ := ih (.op .dot :: .name n :: rest) (by intro t r h; cases h; rfl)
  refine ⟨j + 1, m, fun f hf => ?_⟩
  rw [e1, show f + (j + 1) = (f + 1) + j by omega, hm (f + 1) (by omega), parseTrailers]

/-! ### comma-separated element lists -/

theorem toks_unparseSeq_cons (p : Nat → Bool) (x : Expr) (xs : List Expr) (lvl : Nat) :
    toks (unparseSeq p (x :: xs) lvl true) = toks (unparse p x lvl) ++ toks (unparseSeq p xs lvl false) := by
  simp [unparseSeq, delim]

theorem toks_unparseSeq_cons' (p : Nat → Bool) (x : Expr) (xs : List Expr) (lvl : Nat) :
    toks (unparseSeq p (x :: xs) lvl false) =
      .op .comma :: (toks (unparse p x lvl) ++ toks (unparseSeq p xs lvl false)) := by
  simp [unparseSeq, delim, op]

theorem contTok_comma (lvl : Nat) : contTok lvl (.op .comma) = false := by
  simp [contTok, isTrailerStart, isStringTok, binLevelOf, binOpOf, isCmpStart]
theorem contTok_rsqb (lvl : Nat) : contTok lvl (.op .rsqb) = false := by
  simp [contTok, isTrailerStart, isStringTok, binLevelOf, binOpOf, isCmpStart]
theorem contTok_rbrace (lvl : Nat) : contTok lvl (.op .rbrace) = false := by
  simp [contTok, isTrailerStart, isStringTok, binLevelOf, binOpOf, isCmpStart]

/-- closing brackets -/
def isClose (o : Op) : Bool := o == .rpar || o == .rsqb || o == .rbrace

theorem contTok_close {o : Op} (h : isClose o = true) (lvl : Nat) : contTok lvl (.op o) = false := by
  cases o <;> simp [isClose] at h <;> simp [contTok, isTrailerStart, isStringTok, binLevelOf, binOpOf, isCmpStart]

/-! ### `NamedExpressionTest` on an operand -/

theorem namedTest_of_test {t : Tok} {r : List Tok} {e : Expr} {rest' : List Tok} {f : Nat}
    (h : parseTest f (t :: r) = some (e, rest'))
    (hw : ∀ n r', t :: r ≠ .name n :: .op .walrus :: r') :
    parseNamedTest (f + 1) (t :: r) = some (e, rest') := by
  unfold parseNamedTest
  split
  · omega
  · rename_i heq2; exact absurd heq2 (hw _ _)
  · rename_i f' hfe _
    obtain rfl : f' = f := by omega
    exact h

/-! ### dict displays -/

theorem contTok_colon (lvl : Nat) : contTok lvl (.op .colon) = false := by
  simp [contTok, isTrailerStart, isStringTok, binLevelOf, binOpOf, isCmpStart]

theorem toks_dictItems_cons (p : Nat → Bool) (k v : Expr) (is : List DictItem) :
    toks (unparseDictItems p (.mk (some k) v :: is) true) =
      toks (unparse p k 1) ++ .op .colon :: (toks (unparse p v 1) ++ toks (unparseDictItems p is false)) := by
  simp [unparseDictItems, delim, Prec.TEST, op]

theorem toks_dictItems_cons' (p : Nat → Bool) (k v : Expr) (is : List DictItem) :
    toks (unparseDictItems p (.mk (some k) v :: is) false) =
      .op .comma :: (toks (unparse p k 1) ++ .op .colon :: (toks (unparse p v 1) ++ toks (unparseDictItems p is false))) := by
  simp [unparseDictItems, delim, Prec.TEST, op]

theorem toks_dictItems_unpack (p : Nat → Bool) (v : Expr) (is : List DictItem) :
    toks (unparseDictItems p (.mk none v :: is) true) =
      .op .dstar :: (toks (unparse p v 6) ++ toks (unparseDictItems p is false)) := by
  simp [unparseDictItems, delim, Prec.EXPR, Prec.BOR, op]

theorem toks_dictItems_unpack' (p : Nat → Bool) (v : Expr) (is : List DictItem) :
    toks (unparseDictItems p (.mk none v :: is) false) =
      .op .comma :: .op .dstar :: (toks (unparse p v 6) ++ toks (unparseDictItems p is false)) := by
  simp [unparseDictItems, delim, Prec.EXPR, Prec.BOR, op]

/-- what the induction gives for the entries of a dict display -/
def GoodItems (p : Nat → Bool) : List DictItem → Prop
  | [] => True
  | .mk (some k) v :: is => (RT p k ∧ Plain p k) ∧ (RT p v ∧ Plain p v) ∧ GoodItems p is
  | .mk none v :: is => (RT p v ∧ Plain p v) ∧ GoodItems p is

/-- what follows a dict value: `,` (more entries) or `}` -/
theorem after_value (p : Nat → Bool) (is : List DictItem) (rest : List Tok) :
    ∃ c r', toks (unparseDictItems p is false) ++ .op .rbrace :: rest = c :: r' ∧ (∀ lvl, contTok lvl c = false) ∧
      atCompFor (c :: r') = false := by
  cases is with
  | nil => exact ⟨.op .rbrace, rest, by simp [unparseDictItems], fun l => contTok_rbrace l, rfl⟩
  | cons i is' =>
    cases i with
    | mk k v =>
      cases k with
      | none => exact ⟨.op .comma, _, by rw [toks_dictItems_unpack']; rfl, fun l => contTok_comma l, rfl⟩
      | some k => exact ⟨.op .comma, _, by rw [toks_dictItems_cons']; rfl, fun l => contTok_comma l, rfl⟩

/-- `key ":" value` -/
theorem dict_entry (p : Nat → Bool) {k v : Expr} (hk : RT p k) (hv : RT p v)
    {c : Tok} {r' : List Tok} (hc : contTok 1 c = false) :
    ∃ n, ∀ f, n ≤ f →
      parseTest f (toks (unparse p k 1) ++ .op .colon :: (toks (unparse p v 1) ++ c :: r')) =
        some (k, .op .colon :: (toks (unparse p v 1) ++ c :: r')) ∧
      parseTest f (toks (unparse p v 1) ++ c :: r') = some (v, c :: r') := by
  have h1 := hk 1 (.op .colon :: (toks (unparse p v 1) ++ c :: r')) (Nat.le_refl _) (by omega) (Stop.cons (contTok_colon 1))
  have h2 := hv 1 (c :: r') (Nat.le_refl _) (by omega) (Stop.cons hc)
  rw [parseAt_1] at h1 h2
  obtain ⟨n1, hn1⟩ := h1
  obtain ⟨n2, hn2⟩ := h2
  exact ⟨n1 + n2, fun f hf => ⟨hn1 f (by omega), hn2 f (by omega)⟩⟩

/-- the operand of `**`: an `Expression` -/
theorem dict_unpack_value (p : Nat → Bool) {v : Expr} (hv : RT p v) {c : Tok} {r' : List Tok}
    (hc : contTok 6 c = false) :
    ∃ n, ∀ f, n ≤ f → parseBin 0 f (toks (unparse p v 6) ++ c :: r') = some (v, c :: r') := by
  have h := hv 6 (c :: r') (by omega) (by omega) (Stop.cons hc)
  rwa [parseAt_bin (k := 0) (by omega)] at h

theorem dictRestRT (p : Nat → Bool) : (is : List DictItem) → GoodItems p is → ∀ rest, ∃ n, ∀ f, n ≤ f →
    parseDictRest f (toks (unparseDictItems p is false) ++ .op .rbrace :: rest) = some (is, rest)
  | [], _, rest => by
    refine ⟨1, fun fuel hf => ?_⟩
    obtain ⟨f, rfl, _⟩ := fuel_succ hf
    simp [unparseDictItems, parseDictRest]
  | .mk none v :: is, hg, rest => by
    obtain ⟨⟨hv, hfv⟩, his⟩ := hg
    obtain ⟨c, r', hcr, hc, _⟩ := after_value p is rest
    obtain ⟨n1, hn1⟩ := dict_unpack_value p hv (c := c) (r' := r') (hc 6)
    obtain ⟨n2, hn2⟩ := dictRestRT p is his rest
    refine ⟨n1 + n2 + 1, fun fuel hf => ?_⟩
    obtain ⟨f, rfl⟩ : ∃ f, fuel = f + 1 := ⟨fuel - 1, by omega⟩
    have hV := hn1 f (by omega)
    have hR := hn2 f (by omega)
    rw [hcr] at hR
    rw [toks_dictItems_unpack', List.cons_append, List.cons_append, List.append_assoc, hcr, parseDictRest, hV]
    simp only
    rw [hR]
  | .mk (some k) v :: is, hg, rest => by
    obtain ⟨⟨hk, hfk⟩, ⟨hv, hfv⟩, his⟩ := hg
    obtain ⟨c, r', hcr, hc, _⟩ := after_value p is rest
    obtain ⟨n1, hn1⟩ := dict_entry p hk hv (c := c) (r' := r') (hc 1)
    obtain ⟨n2, hn2⟩ := dictRestRT p is his rest
    obtain ⟨t, tr, ht, hg⟩ := hfk.head 1 (by omega)
    refine ⟨n1 + n2 + 1, fun fuel hf => ?_⟩
    obtain ⟨f, rfl⟩ : ∃ f, fuel = f + 1 := ⟨fuel - 1, by omega⟩
    obtain ⟨hK, hV⟩ := hn1 f (by omega)
    have hR := hn2 f (by omega)
    rw [hcr] at hR
    rw [toks_dictItems_cons', List.cons_append, List.append_assoc, List.cons_append, List.append_assoc, hcr]
    unfold parseDictRest
    split
    · omega
    · rename_i heq; simp at heq
    · rename_i heq; simp at heq; rw [ht] at heq; simp at heq; obtain ⟨rfl, _⟩ := heq; simp [goodHead] at hg
    · rename_i heq; simp at heq; rw [ht] at heq; simp at heq; obtain ⟨rfl, _⟩ := heq; simp [goodHead] at hg
    · rename_i f' r0 _ _ hfe heq
      obtain rfl : f' = f := by omega
      simp only [List.cons.injEq, true_and] at heq
      subst heq
      rw [hK]
      simp only
      rw [hV]
      simp only
      rw [hR]
    · rename_i heq; exact (heq _ rfl).elim

theorem atomRT_dict (p : Nat → Bool) (is : List DictItem) (hg : GoodItems p is) : AtomRT p (.dict is) := by
  intro rest _
  cases is with
  | nil =>
    refine parses_of_eq 2 (fun f => ?_)
    simp [unparse, unparseDictItems, op, parseAtom, parseBraceAtom]
  | cons i is =>
    cases i with
    | mk k0 v =>
      cases k0 with
      | none =>
        obtain ⟨⟨hv, hfv⟩, his⟩ := hg
        obtain ⟨c, r', hcr, hc, _⟩ := after_value p is rest
        obtain ⟨n1, hn1⟩ := dict_unpack_value p hv (c := c) (r' := r') (hc 6)
        obtain ⟨n2, hn2⟩ := dictRestRT p is his rest
        have e1 : toks (unparse p (.dict (.mk none v :: is)) 15) ++ rest =
            .op .lbrace :: .op .dstar :: (toks (unparse p v 6) ++ c :: r') := by
          simp [unparse, toks_dictItems_unpack, op, ← hcr]
        refine ⟨n1 + n2 + 2, fun fuel hf => ?_⟩
        obtain ⟨f, rfl⟩ : ∃ f, fuel = f + 2 := ⟨fuel - 2, by omega⟩
        have hV := hn1 f (by omega)
        have hR := hn2 f (by omega)
        rw [hcr] at hR
        rw [e1, parseAtom, parseBraceAtom, hV]
        simp only
        rw [hR]
      | some k =>
        obtain ⟨⟨hk, hfk⟩, ⟨hv, hfv⟩, his⟩ := hg
        obtain ⟨c, r', hcr, hc, hcomp⟩ := after_value p is rest
        obtain ⟨n1, hn1⟩ := dict_entry p hk hv (c := c) (r' := r') (hc 1)
        obtain ⟨n2, hn2⟩ := dictRestRT p is his rest
        obtain ⟨t, tr, ht, hgd⟩ := hfk.head 1 (by omega)
        have hw := ((hfk.nobind 1 (Nat.le_refl _)).append (hfk.ne_nil 1 (Nat.le_refl _)) (c := .op .colon) (by simp) (by simp)
          (toks (unparse p v 1) ++ c :: r')).walrus
        have e1 : toks (unparse p (.dict (.mk (some k) v :: is)) 15) ++ rest =
            .op .lbrace :: (toks (unparse p k 1) ++ .op .colon :: (toks (unparse p v 1) ++ c :: r')) := by
          simp [unparse, toks_dictItems_cons, op, ← hcr]
        refine ⟨n1 + n2 + 3, fun fuel hf => ?_⟩
        obtain ⟨f, rfl⟩ : ∃ f, fuel = f + 3 := ⟨fuel - 3, by omega⟩
        obtain ⟨hK, _⟩ := hn1 f (by omega)
        obtain ⟨_, hV⟩ := hn1 (f + 1) (by omega)
        have hR := hn2 (f + 1) (by omega)
        rw [hcr] at hR
        have hfirst : parseBraceFirst (f + 1) (toks (unparse p k 1) ++ .op .colon :: (toks (unparse p v 1) ++ c :: r')) =
            some (k, true, .op .colon :: (toks (unparse p v 1) ++ c :: r')) := by
          unfold parseBraceFirst
          split
          · omega
          · rename_i heq2; rw [ht] at heq2; simp at heq2; obtain ⟨rfl, _⟩ := heq2; simp [goodHead] at hgd
          · rename_i heq2; exact absurd heq2 (hw _ _)
          · rename_i f' hfe _ _
            obtain rfl : f' = f := by omega
            rw [hK]
        rw [e1, parseAtom]
        unfold parseBraceAtom
        split
        · omega
        · rename_i heq; rw [ht] at heq; simp at heq; obtain ⟨rfl, _⟩ := heq; simp [goodHead] at hgd
        · rename_i heq; rw [ht] at heq; simp at heq; obtain ⟨rfl, _⟩ := heq; simp [goodHead] at hgd
        · rename_i f' hfe _ _
          obtain rfl : f' = f + 1 := by omega
          rw [hfirst]
          simp only
          rw [hV]
          simp only [hcomp, Bool.false_eq_true, if_false]
          rw [hR]

/-! ### yield -/

theorem test_then_rpar (p : Nat → Bool) {x : Expr} (hx : RT p x) (rest : List Tok) :
    Parses parseTest (toks (unparse p x 1) ++ .op .rpar :: rest) x (.op .rpar :: rest) := by
  have h := hx 1 (.op .rpar :: rest) (Nat.le_refl _) (by omega) (Stop.cons (contTok_rpar 1))
  rwa [parseAt_1] at h

theorem atomRT_yieldNone (p : Nat → Bool) : AtomRT p (.yield none) := by
  intro rest _
  refine parses_of_eq 3 (fun f => ?_)
  simp [unparse, op, kw, parseAtom, parseParenAtom, parseYieldAtom]

theorem atomRT_yieldFrom (p : Nat → Bool) (x : Expr) (hx : RT p x) : AtomRT p (.yieldFrom x) := by
  intro rest _
  obtain ⟨n, hn⟩ := test_then_rpar p hx rest
  have e1 : toks (unparse p (.yieldFrom x) 15) ++ rest =
      .op .lpar :: .kw .yield :: .kw .from :: (toks (unparse p x 1) ++ .op .rpar :: rest) := by
    simp [unparse, op, kw, Prec.TEST]
  refine ⟨n + 3, fun fuel hf => ?_⟩
  obtain ⟨f, rfl⟩ : ∃ f, fuel = f + 3 := ⟨fuel - 3, by omega⟩
  rw [e1, parseAtom, parseParenAtom, parseYieldAtom, hn f (by omega)]

/-! ## the induction over the fragment -/

/-- `LoopRT` for a node that is not a left-associative operator of level `k` -/
theorem loopRT_other (p : Nat → Bool) {k : Nat} (hk : k ≤ 5) {e : Expr}
    (hne : kindPrec (kindOf e) ≠ some (k + 6)) (ih : RT p e) : LoopRT p k e :=
  loopRT_of_rt p hk (unparse_level_succ p e (k + 6) hne) ih

theorem binOpPrec_pow : binOpPrec .pow = 13 := rfl

/-- everything the induction carries for one node -/
structure Good (p : Nat → Bool) (e : Expr) : Prop where
  rt : RT p e
  loop : ∀ k, k ≤ 5 → LoopRT p k e
  trail : TrailRT p e

/-- a node with its own precedence level `prec < 15` -/
theorem good_of_rt (p : Nat → Bool) {e : Expr} {prec : Nat} (hP : Plain p e)
    (hk : kindPrec (kindOf e) = some prec) (hp1 : 1 ≤ prec) (hp : prec < 15) (hrt : RT p e)
    (hloop : ∀ k, k ≤ 5 → k + 6 = prec → LoopRT p k e) : Good p e where
  rt := hrt
  loop := fun k hk5 => by
    by_cases hkk : k + 6 = prec
    · exact hloop k hk5 hkk
    · exact loopRT_other p hk5 (by rw [hk]; simpa using fun h => hkk h.symm) hrt
  trail := trailRT_of_atomRT (atomRT_of_rt p hP hk hp1 hp hrt)

/-- a node that is never parenthesised -/
theorem good_of_trail' (p : Nat → Bool) {e : Expr} (hlvl : ∀ lvl, 1 ≤ lvl → unparse p e lvl = unparse p e 15)
    (hk : ∀ k, kindPrec (kindOf e) ≠ some (k + 6))
    (hfirst : ∃ t r, toks (unparse p e 15) = t :: r ∧ goodHead 15 t = true) (h : TrailRT p e) : Good p e :=
  have hrt := rt_of_trailRT p hlvl hfirst h
  { rt := hrt
    loop := fun k hk5 => loopRT_other p hk5 (hk k) hrt
    trail := h }

theorem good_of_trail (p : Nat → Bool) {e : Expr} (hk : kindPrec (kindOf e) = none)
    (hfirst : ∃ t r, toks (unparse p e 15) = t :: r ∧ goodHead 15 t = true) (h : TrailRT p e) : Good p e :=
  good_of_trail' p (fun lvl _ => unparse_nogroup p e lvl 15 hk) (fun k => by rw [hk]; simp) hfirst h

/-! ## failure lifts too -/

/-- if no fuel lets `parseAtom` read an atom off `ts` (and `ts` does not start with a prefix operator or
    keyword), no fuel lets `parseTest` read anything -/
theorem parseTest_none_of_atom_none {t : Tok} {r : List Tok}
    (hatom : ∀ f, parseAtom f (t :: r) = none)
    (h1 : t ≠ .kw .lambda) (h2 : t ≠ .kw .not) (h3 : t ≠ .kw .await)
    (h4 : unaryOpAt (t :: r) = none) : ∀ f, parseTest f (t :: r) = none := by
  have hA2 : ∀ f, parseAtomExpr2 f (t :: r) = none := by
    intro f; cases f <;> simp [parseAtomExpr2, hatom]
  have hA : ∀ f, parseAtomExpr f (t :: r) = none := by
    intro f
    cases f with
    | zero => simp [parseAtomExpr]
    | succ f => rw [parseAtomExpr.eq_3 _ _ (by intro r' h; cases h; exact h3 rfl)]; exact hA2 f
  have hP : ∀ f, parsePower f (t :: r) = none := by
    intro f; cases f <;> simp [parsePower, hA]
  have hF : ∀ f, parseFactor f (t :: r) = none := by
    intro f; cases f <;> simp [parseFactor, h4, hP]
  have hB : ∀ d k f, k + d = 5 → parseBin k f (t :: r) = none := by
    intro d
    induction d with
    | zero => intro k f hk; cases f <;> simp [parseBin, show k ≥ 5 by omega, hF]
    | succ d ih =>
      intro k f hk
      cases f with
      | zero => simp [parseBin]
      | succ f => simp [parseBin, show ¬ k ≥ 5 by omega, ih (k + 1) f (by omega)]
  have hC : ∀ f, parseCmp f (t :: r) = none := by
    intro f; cases f <;> simp [parseCmp, hB 5 0 _ rfl]
  have hN : ∀ f, parseNotTest f (t :: r) = none := by
    intro f
    cases f with
    | zero => simp [parseNotTest]
    | succ f => rw [parseNotTest.eq_3 _ _ (by intro r' h; cases h; exact h2 rfl)]; exact hC f
  have hAnd : ∀ f, parseAndTest f (t :: r) = none := by
    intro f; cases f <;> simp [parseAndTest, hN]
  have hOr : ∀ f, parseOrTest f (t :: r) = none := by
    intro f; cases f <;> simp [parseOrTest, hAnd]
  intro f
  cases f with
  | zero => simp [parseTest]
  | succ f =>
    rw [parseTest.eq_3 _ _ (by intro r' h; cases h; exact h1 rfl)]
    simp [hOr]

end PV.C11
